/-!
# Persistence protocol of the user dictionary (`src/dictionary/trie_buf.rs`, `trie.rs: build`)

A labelled transition system.  One **atomic step** is either one public call on the foreground
thread (`add_phrase` / `update_phrase` / `remove_phrase`, `flush` = `checkpoint`, `reopen` = `sync`),
one part of `Drop for TrieBuf`, one hop of the background snapshot writer between two consecutive
progress points (the hook points `ckpt.*` / `build.*`), or the death of the process.

* Dictionary contents are *abstract*: a complete dictionary is the map `Key → Option Val` it
  stores (`Key` = (syllables, phrase), `Val` = (frequency, time)); how such a map is laid out in
  bytes and read back is property C11.
* The file system is `Name → Option FileC` with two names, the dictionary path and the temp file
  next to it; a file is a complete dictionary or a partial one (created, not yet fully written).
* `TrieBuf` = base layer `trie` (the loaded file) + pending `btree` + tombstones `grave` + `dirty`;
  `join_handle` is `World.writer` (the thread exists exactly as long as the handle is registered).
* Every early return of the code is a branch here: `sync` returning while the writer is
  unfinished, `sync` dropping a finished writer's result when `dirty`, `checkpoint` refusing while
  a writer is registered or when clean, `add_phrase` rejecting a live phrase.
* Two switches describe the two source variants the theorems talk about:
  `Cfg.joinFirst` — `Drop` joins an in-flight writer before `sync; flush; join` (the F12 repair;
  `false` = the code as found), `Cfg.revive` — `add`/`update` remove the key's tombstone (C09's
  F09 repair; `false` = the code as found).
* Ghost fields (never read by a step): `Buf.gen`, `Writer.gen` count accepted changes,
  `Writer.old` remembers what the path held when the writer was spawned.
Not modelled: I/O errors (disk full, permissions), other processes touching the directory, power
loss (no directory fsync), the in-memory (`path = None`) dictionary.
-/
namespace Chewing.Persist

abbrev Key := Nat
abbrev Val := Nat

/-- the contents of a complete dictionary -/
abbrev Content := Key → Option Val

/-- what a file holds -/
inductive FileC where
  /-- created / partly written: not a loadable dictionary -/
  | partial_
  /-- a complete, loadable dictionary with these contents -/
  | complete (c : Content)

inductive Name where
  | path | tmp
deriving DecidableEq, Repr

abbrev FS := Name → Option FileC

def setF (fs : FS) (n : Name) (f : Option FileC) : FS := fun m => if m = n then f else fs m

/-- `Trie::open(path)`: succeeds exactly on a complete dictionary -/
def readPath (fs : FS) : Option Content :=
  match fs .path with
  | some (.complete c) => some c
  | _ => none

/-- progress of the snapshot writer = the last hook point it has reached -/
inductive PC where
  | start | collected | created | written | flushed | synced | renamed | built | reopened | finished
deriving DecidableEq, Repr

def PC.idx : PC → Nat
  | .start => 0 | .collected => 1 | .created => 2 | .written => 3 | .flushed => 4
  | .synced => 5 | .renamed => 6 | .built => 7 | .reopened => 8 | .finished => 9

structure Cfg where
  /-- `add_phrase` / `update_phrase` remove the tombstone of the key (F09 repaired) -/
  revive : Bool
  /-- `Drop` joins an in-flight writer before `sync; flush; join` (F12 repaired) -/
  joinFirst : Bool
deriving DecidableEq, Repr

/-- `struct TrieBuf` (file-backed) -/
structure Buf where
  trie : Content
  btree : Content
  grave : Key → Bool
  dirty : Bool
  /-- ghost: number of accepted changes so far -/
  gen : Nat

def setC (c : Content) (k : Key) (v : Option Val) : Content := fun j => if j = k then v else c j
def setG (g : Key → Bool) (k : Key) (b : Bool) : Key → Bool := fun j => if j = k then b else g j

/-- what `entries()` collected into a `TrieBuilder` gives (and what a lookup sees):
    base layer overridden by the pending layer, minus tombstones -/
def Buf.live (b : Buf) : Content := fun k =>
  if b.grave k then none else
  match b.btree k with
  | some v => some v
  | none => b.trie k

def Buf.fresh (c : Content) (gen : Nat) : Buf :=
  { trie := c, btree := fun _ => none, grave := fun _ => false, dirty := false, gen := gen }

/-- the common tail of `add_phrase` / `update_phrase` -/
def Buf.put (cfg : Cfg) (b : Buf) (k : Key) (v : Val) : Buf :=
  { b with btree := setC b.btree k (some v),
           grave := if cfg.revive then setG b.grave k false else b.grave,
           dirty := true, gen := b.gen + 1 }

/-- `add_phrase`: rejected (`Err`, nothing changes) when the phrase is live -/
def Buf.add (cfg : Cfg) (b : Buf) (k : Key) (v : Val) : Buf × Bool :=
  if (b.live k).isSome then (b, false) else (b.put cfg k v, true)

/-- `remove_phrase` -/
def Buf.remove (b : Buf) (k : Key) : Buf :=
  { b with btree := setC b.btree k none, grave := setG b.grave k true, dirty := true, gen := b.gen + 1 }

/-- the snapshot thread -/
structure Writer where
  pc : PC
  /-- contents of the cloned `TrieBuf` the thread owns -/
  snap : Content
  /-- `Trie::open(path)` after `build` -/
  result : Option Content
  /-- ghost: `Buf.gen` at the time of the snapshot -/
  gen : Nat
  /-- ghost: what the path held when the thread was spawned -/
  old : Option FileC

inductive Phase where
  | run | dJoin0 | dSync | dFlush | dJoin | closed
deriving DecidableEq, Repr

structure World where
  buf : Buf
  /-- `join_handle` and the thread behind it -/
  writer : Option Writer
  fs : FS
  phase : Phase
  crashed : Bool

inductive Act where
  | add (k : Key) (v : Val)
  | update (k : Key) (v : Val)
  | remove (k : Key)
  /-- `flush()` = `checkpoint()` -/
  | flush
  /-- `reopen()` = `sync()` -/
  | reopen
  /-- enter `Drop for TrieBuf` -/
  | close
  /-- the next part of `Drop` -/
  | d
  /-- `TrieBuf::open(path)` again after a close -/
  | open_
  /-- the writer thread advances to its next progress point -/
  | w
  /-- the process dies -/
  | crash
deriving DecidableEq, Repr

def init (c0 : Content) (t0 : Option FileC) : World :=
  { buf := Buf.fresh c0 0, writer := none,
    fs := fun n => match n with | .path => some (.complete c0) | .tmp => t0,
    phase := .run, crashed := false }

/-- `TrieBuf::sync` -/
def sync (w : World) : World :=
  match w.writer with
  | some wr =>
    if wr.pc ≠ .finished then w                                   -- "Wait until previous sync is finished."
    else match wr.result with
      | some t =>
        if w.buf.dirty then { w with writer := none }               -- "already dirty": result dropped
        else { w with writer := none,
                      buf := { w.buf with trie := t, btree := fun _ => none, grave := fun _ => false } }
      | none => { w with writer := none }                           -- the writer reported an error
  | none =>
    match readPath w.fs with
    | some c => { w with buf := { w.buf with trie := c } }          -- "Reloading..."
    | none => w                                                     -- `Trie::open` failed: `Err`, nothing changed

/-- does `reopen()` return `Ok`? -/
def syncOk (w : World) : Bool :=
  match w.writer with
  | some _ => true
  | none => (readPath w.fs).isSome

/-- `TrieBuf::checkpoint` -/
def checkpoint (w : World) : World :=
  if w.writer.isSome then w                                         -- "Wait until previous checkpoint result is handled."
  else if !w.buf.dirty then w                                       -- "Don't need to checkpoint … clean dictionary."
  else { w with writer := some { pc := .start, snap := w.buf.live, result := none, gen := w.buf.gen,
                                 old := w.fs .path },
                buf := { w.buf with dirty := false } }

/-- one hop of the writer thread (`checkpoint`'s closure and `TrieBuilder::build`) -/
def wstep (wr : Writer) (fs : FS) : Option (Writer × FS) :=
  match wr.pc with
  | .start => some ({ wr with pc := .collected }, fs)                                     -- entries collected
  | .collected => some ({ wr with pc := .created }, setF fs .tmp (some .partial_))        -- File::create(tmp)
  | .created => some ({ wr with pc := .written }, setF fs .tmp (some .partial_))          -- write into BufWriter
  | .written => some ({ wr with pc := .flushed }, setF fs .tmp (some (.complete wr.snap))) -- writer.flush()
  | .flushed => some ({ wr with pc := .synced }, fs)                                      -- sync_data()
  | .synced =>                                                                            -- fs::rename(tmp, path)
    match fs .tmp with
    | some f => some ({ wr with pc := .renamed }, setF (setF fs .path (some f)) .tmp none)
    | none => some ({ wr with pc := .finished, result := none }, fs)                      -- rename fails: `?`
  | .renamed => some ({ wr with pc := .built }, fs)                                       -- build returned
  | .built => some ({ wr with pc := .reopened, result := readPath fs }, fs)               -- Trie::open(path)
  | .reopened => some ({ wr with pc := .finished }, fs)                                   -- closure returned
  | .finished => none

/-- `JoinHandle::join` returns (no writer, or it has finished) -/
def writerDone (w : World) : Bool :=
  match w.writer with
  | none => true
  | some wr => wr.pc == .finished

/-- the transition relation as a partial function: `none` = the action is not enabled -/
def step (cfg : Cfg) (w : World) (a : Act) : Option World :=
  if w.crashed then none else
  match a with
  | .crash => some { w with crashed := true }
  | .w =>
    match w.writer with
    | some wr =>
      match wstep wr w.fs with
      | some (wr', fs') => some { w with writer := some wr', fs := fs' }
      | none => none
    | none => none
  | .add k v => if w.phase = .run then some { w with buf := (w.buf.add cfg k v).1 } else none
  | .update k v => if w.phase = .run then some { w with buf := w.buf.put cfg k v } else none
  | .remove k => if w.phase = .run then some { w with buf := w.buf.remove k } else none
  | .flush => if w.phase = .run then some (checkpoint w) else none
  | .reopen => if w.phase = .run then some (sync w) else none
  | .close =>
    if w.phase = .run then some { w with phase := if cfg.joinFirst then .dJoin0 else .dSync } else none
  | .d =>
    match w.phase with
    | .dJoin0 => if writerDone w then some { w with writer := none, phase := .dSync } else none
    | .dSync => some { sync w with phase := .dFlush }
    | .dFlush => some { checkpoint w with phase := .dJoin }
    | .dJoin => if writerDone w then some { w with writer := none, phase := .closed } else none
    | _ => none
  | .open_ =>
    if w.phase = .closed then
      match readPath w.fs with
      | some c => some { w with buf := Buf.fresh c w.buf.gen, phase := .run }
      | none => none
    else none

def run (cfg : Cfg) (w : World) : List Act → Option World
  | [] => some w
  | a :: as =>
    match step cfg w a with
    | some w' => run cfg w' as
    | none => none

/-- the worlds the protocol can reach from a freshly opened dictionary file -/
def Reachable (cfg : Cfg) (w : World) : Prop :=
  ∃ c0 t0 acts, run cfg (init c0 t0) acts = some w

/-- map semantics of the change operations (with `Cfg.revive`; without it a tombstone hides a
    re-added key — finding F09 of property C09) -/
def applyChange (m : Content) : Act → Content
  | .add k v => if (m k).isSome then m else setC m k (some v)
  | .update k v => setC m k (some v)
  | .remove k => setC m k none
  | _ => m

def spec (c0 : Content) (acts : List Act) : Content := acts.foldl applyChange c0

/-! ### the editor's use of the dictionary (`src/editor/mod.rs`)

`learn_phrase` adds the phrase (no other phrase known for the syllables; `dirty_level` untouched) or
updates it (`dirty_level += 1`), `unlearn_phrase` removes it (`dirty_level += 1`); the tail of
`process_keyevent` calls `reopen(); flush()` and resets `dirty_level` when it is positive. -/

structure EdWorld where
  w : World
  /-- `SharedState::dirty_level` -/
  dirtyLevel : Nat

inductive EdAct where
  /-- `learn_phrase`; `known` = some dictionary already has a phrase for these syllables -/
  | learn (k : Key) (v : Val) (known : Bool)
  | unlearn (k : Key)
  /-- the tail of `process_keyevent` -/
  | key
  /-- everything the editor does not decide: dropping it (close, parts of `Drop`), the writer, a crash -/
  | env (a : Act)

/-- the dictionary calls an editor action makes, and the new `dirty_level` -/
def edExpand (dl : Nat) : EdAct → List Act × Nat
  | .learn k v true => ([.update k v], dl + 1)
  | .learn k v false => ([.add k v], dl)
  | .unlearn k => ([.remove k], dl + 1)
  | .key => if dl > 0 then ([.reopen, .flush], 0) else ([], dl)
  | .env a => ([a], dl)

def edStep (cfg : Cfg) (e : EdWorld) (a : EdAct) : Option EdWorld :=
  match run cfg e.w (edExpand e.dirtyLevel a).1 with
  | some w' => some { w := w', dirtyLevel := (edExpand e.dirtyLevel a).2 }
  | none => none

def edRun (cfg : Cfg) (e : EdWorld) : List EdAct → Option EdWorld
  | [] => some e
  | a :: as =>
    match edStep cfg e a with
    | some e' => edRun cfg e' as
    | none => none

end Chewing.Persist
