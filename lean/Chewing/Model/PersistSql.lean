/-!
# Persistence of the SQLite back end (`src/dictionary/sqlite.rs`, feature `sqlite`)

The SQLite user dictionary has no snapshot writer, no temp file and no `Drop` logic: every public
change is ONE SQLite transaction on one connection — a single auto-committed statement
(`add_phrase`: `INSERT OR REPLACE INTO dictionary_v1`; `remove_phrase`: `DELETE FROM dictionary_v1`)
or an explicit `conn.transaction()` … `tx.commit()` (`update_phrase`: `SELECT userphrase_id`, then
either `UPDATE userphrase_v2` or `INSERT INTO userphrase_v2` + `INSERT OR REPLACE INTO
dictionary_v1`).  `flush()` is `PRAGMA wal_checkpoint(PASSIVE)`, `reopen()` does nothing; neither
changes a relation.  The database is opened with `journal_mode = WAL`, `synchronous = NORMAL`.

This file is the step model of that: two relations, statements with their relational meaning, a
transaction as a private working copy that replaces the committed relations at `commit`, process
death enabled in every state (the working copy is lost, the committed relations stay).

TRUSTED, not modelled and not provable from this repository: that SQLite implements exactly this —
a committed transaction survives process death and an uncommitted one leaves no trace (true for WAL
with `synchronous = NORMAL` according to SQLite's documentation; a *power loss* may roll back the
last commits in that mode and is outside the property).  What is proved on top of it is only the
part that belongs to libchewing: every accepted change is exactly one transaction, no change needs
`flush` or a close to become durable, and after process death at any statement boundary the
database holds exactly the changes of the calls that had returned.
The relational reading of the statements is shared with property C09's relational model
(`SqliteDictionary` there); this file keeps its own minimal copy so that it does not depend on it.
-/
namespace Chewing.PersistSql

abbrev Key := Nat

/-- `dictionary_v1` keyed by (syllables, phrase) ↦ (freq, userphrase_id);
    `userphrase_v2` keyed by id ↦ (user_freq, time); `maxId` = largest rowid handed out -/
structure Rel where
  dict : Key → Option (Nat × Option Nat)
  user : Nat → Option (Nat × Nat)
  maxId : Nat

inductive Stmt where
  /-- `INSERT OR REPLACE INTO dictionary_v1 (syllables, phrase, freq)`: `userphrase_id` becomes NULL -/
  | insDict (k : Key) (freq : Nat)
  /-- `UPDATE userphrase_v2 SET user_freq = ? WHERE id = ?` -/
  | updUser (id : Nat) (uf : Nat)
  /-- `INSERT INTO userphrase_v2 (user_freq, time)`; `last_insert_rowid()` = `maxId + 1` -/
  | insUser (uf time : Nat)
  /-- `INSERT OR REPLACE INTO dictionary_v1 (…, userphrase_id)` with the rowid just inserted -/
  | insDictUp (k : Key) (freq : Nat)
  /-- `DELETE FROM dictionary_v1 WHERE syllables = ? AND phrase = ?` -/
  | delDict (k : Key)
deriving DecidableEq, Repr

def exec (r : Rel) : Stmt → Rel
  | .insDict k f => { r with dict := fun j => if j = k then some (f, none) else r.dict j }
  | .updUser id uf =>
    { r with user := fun j => if j = id then (r.user id).map (fun p => (uf, p.2)) else r.user j }
  | .insUser uf t => { r with user := fun j => if j = r.maxId + 1 then some (uf, t) else r.user j, maxId := r.maxId + 1 }
  | .insDictUp k f => { r with dict := fun j => if j = k then some (f, some r.maxId) else r.dict j }
  | .delDict k => { r with dict := fun j => if j = k then none else r.dict j }

/-- a public call of `DictionaryMut` -/
inductive Call where
  | add (k : Key) (freq : Nat)
  | update (k : Key) (freq uf time : Nat)
  | remove (k : Key)
  | flush
  | reopen
deriving DecidableEq, Repr

/-- the statements a call runs inside its transaction, decided by the `SELECT` at its start -/
def plan (r : Rel) : Call → List Stmt
  | .add k f => [.insDict k f]
  | .update k f uf t =>
    match r.dict k with
    | some (_, some id) => [.updUser id uf]
    | _ => [.insUser uf t, .insDictUp k f]
  | .remove k => [.delDict k]
  | .flush => []
  | .reopen => []

/-- the whole effect of a call, as one atomic change -/
def applyCall (r : Rel) (c : Call) : Rel := (plan r c).foldl exec r

def spec (r0 : Rel) (cs : List Call) : Rel := cs.foldl applyCall r0

/-- an open transaction: working copy, statements still to run, the call it belongs to -/
structure Tx where
  work : Rel
  todo : List Stmt
  call : Call

structure World where
  /-- the committed relations = what a new connection (another process) reads -/
  db : Rel
  tx : Option Tx
  crashed : Bool
  /-- ghost: the calls that have returned `Ok`, in order -/
  returned : List Call
  /-- ghost: the calls that have been entered, in order -/
  entered : List Call

inductive Act where
  /-- enter a public call: `BEGIN` (implicit for a single statement) -/
  | call (c : Call)
  /-- the next statement of the open transaction -/
  | stmt
  /-- `COMMIT`, the call returns `Ok` -/
  | commit
  /-- the process dies -/
  | crash
deriving DecidableEq, Repr

def init (r0 : Rel) : World := { db := r0, tx := none, crashed := false, returned := [], entered := [] }

def step (w : World) (a : Act) : Option World :=
  if w.crashed then none else
  match a with
  | .crash => some { w with crashed := true, tx := none }
  | .call c =>
    match w.tx with
    | none => some { w with tx := some { work := w.db, todo := plan w.db c, call := c }, entered := w.entered ++ [c] }
    | some _ => none
  | .stmt =>
    match w.tx with
    | some t =>
      match t.todo with
      | s :: rest => some { w with tx := some { t with work := exec t.work s, todo := rest } }
      | [] => none
    | none => none
  | .commit =>
    match w.tx with
    | some t =>
      match t.todo with
      | [] => some { w with db := t.work, tx := none, returned := w.returned ++ [t.call] }
      | _ => none
    | none => none

def run (w : World) : List Act → Option World
  | [] => some w
  | a :: as =>
    match step w a with
    | some w' => run w' as
    | none => none

/-- what the calling code sees of a phrase: `max(freq, coalesce(user_freq, 0))` and the time -/
def view (r : Rel) (k : Key) : Option (Nat × Nat) :=
  match r.dict k with
  | none => none
  | some (f, none) => some (f, 0)
  | some (f, some id) =>
    match r.user id with
    | some (uf, t) => some (max f uf, t)
    | none => some (f, 0)

end Chewing.PersistSql
