import Chewing.Model.TrieBuf
/-!
# SqliteDictionary — `src/dictionary/sqlite.rs` (feature `sqlite`), relational model (C09, stage C)

Two relations: `dictionary_v1(syllables, phrase, freq, sort_id, userphrase_id)` with primary key
`(syllables, phrase)` and `userphrase_v2(id, user_freq, time)`.  The statements of the code are given
their relational meaning (this reading of SQL is part of the trusted base):

* `add_phrase`      `INSERT OR REPLACE INTO dictionary_v1 (syllables, phrase, freq)` — replaces a live
                    row (never rejected), `sort_id` and `userphrase_id` become NULL, `last_used` is ignored;
* `update_phrase`   if the row has a `userphrase_id`: `UPDATE userphrase_v2 SET user_freq` (the time is
                    **not** touched); otherwise `INSERT INTO userphrase_v2 (user_freq, time)` (fresh rowid =
                    largest id + 1) and `INSERT OR REPLACE` of the row with `freq = phrase.freq()`;
* `remove_phrase`   `DELETE FROM dictionary_v1 WHERE syllables = ? AND phrase = ?` (the user row stays behind);
* lookup            `SELECT phrase, max(freq, coalesce(user_freq, 0)), time … LEFT JOIN … WHERE syllables = ?
                    ORDER BY sort_id ASC, max(freq, coalesce(user_freq,0)) DESC, phrase DESC`, `.take(first)`;
                    the lookup strategy is ignored (the trait allows falling back to the standard one);
* `entries`         the same join over all rows;
* `SqliteDictionaryBuilder::insert`  `INSERT OR REPLACE … (syllables, phrase, freq, sort_id)`, `sort_id` = a
                    running counter for single-syllable keys, 0 otherwise;
* `flush` / `reopen` do not change the relations.

What it denotes is a map to `(freq, Option (user_freq, time))`; the *reported* frequency is the
maximum of the two — so this back end is a map with a richer value than `TrieBuf`'s, and its `add`
differs (replace instead of reject).  `SqlSpec` is the specification.
-/
namespace Chewing.SqliteDict
open MapSpec

/-- a row of `dictionary_v1` -/
structure Row where
  key : PKey
  freq : Nat
  sortId : Option Nat
  upid : Option Nat
deriving Repr, DecidableEq

/-- both relations; `user` is `id ↦ (user_freq, time)` -/
structure State where
  dict : List Row
  user : List (Nat × (Nat × Nat))
deriving Repr, DecidableEq

/-- operations (`update_phrase` also passes `phrase.freq()`, which this back end stores) -/
inductive Op where
  | add (k : Key) (t : Text) (freq : Nat)
  | update (k : Key) (t : Text) (orig : Nat) (userFreq : Nat) (time : Nat)
  | remove (k : Key) (t : Text)
  | flush
  | reopen
deriving Repr, DecidableEq

def init : State := { dict := [], user := [] }

/-- `last_insert_rowid()` of an `INTEGER PRIMARY KEY` table: largest id + 1 -/
def nextId (s : State) : Nat := (s.user.map (·.1)).foldl max 0 + 1

def userGet (s : State) (id : Nat) : Option (Nat × Nat) := (s.user.find? (fun u => u.1 == id)).map (·.2)

def rowGet (s : State) (key : PKey) : Option Row := s.dict.find? (fun r => r.key == key)

/-- `INSERT OR REPLACE` (row order is never observed: every query sorts) -/
def replaceRow (d : List Row) (r : Row) : List Row := r :: d.filter (fun x => x.key != r.key)

def apply (s : State) : Op → State
  | .add k t f => { s with dict := replaceRow s.dict { key := (k, t), freq := f, sortId := none, upid := none } }
  | .update k t orig uf tm =>
    match (rowGet s (k, t)).bind (·.upid) with
    | some id => { s with user := s.user.map (fun u => if u.1 == id then (u.1, (uf, u.2.2)) else u) }
    | none =>
      let id := nextId s
      { dict := replaceRow s.dict { key := (k, t), freq := orig, sortId := none, upid := some id },
        user := s.user ++ [(id, (uf, tm))] }
  | .remove k t => { s with dict := s.dict.filter (fun x => x.key != (k, t)) }
  | .flush => s
  | .reopen => s

def run (s : State) (ops : List Op) : State := ops.foldl apply s

/-- `SqliteDictionaryBuilder`: the state after inserting `es` in order (then `build` + `open`) -/
def buildStep (acc : State × Nat) (e : Entry) : State × Nat :=
  let (s, ctr) := acc
  let (sid, ctr') := if e.1.length == 1 then (ctr + 1, ctr + 1) else (0, ctr)
  ({ s with dict := replaceRow s.dict { key := (e.1, e.2.text), freq := e.2.freq, sortId := some sid, upid := none } }, ctr')

def build (es : List Entry) : State := (es.foldl buildStep (init, 0)).1

/-- a joined row: `max(freq, coalesce(user_freq, 0))` and `time` -/
def reported (s : State) (r : Row) : Nat × Option Nat :=
  match r.upid.bind (userGet s) with
  | some (uf, tm) => (max r.freq uf, some tm)
  | none => (r.freq, none)

def toPhrase (s : State) (r : Row) : Phrase :=
  { text := r.key.2, freq := (reported s r).1, lastUsed := (reported s r).2 }

/-- `ORDER BY sort_id ASC, max(freq, …) DESC, phrase DESC` (NULL sorts first; BINARY collation) -/
def rowLt (s : State) (a b : Row) : Bool :=
  let sa := match a.sortId with | none => 0 | some x => x + 1
  let sb := match b.sortId with | none => 0 | some x => x + 1
  if sa != sb then sa < sb
  else if (reported s a).1 != (reported s b).1 then (reported s a).1 > (reported s b).1
  else cmpList a.key.2 b.key.2 == .gt

def lookupAll (s : State) (k : Key) : List Phrase :=
  (isort (rowLt s) (s.dict.filter (fun r => r.key.1 == k))).map (toPhrase s)

/-- `lookup_first_n_phrases` (any strategy) -/
def lookupFirstN (s : State) (k : Key) (n : Nat) (_st : Strategy) : List Phrase := (lookupAll s k).take n

def entries (s : State) : List Entry := s.dict.map (fun r => (r.key.1, toPhrase s r))

/-! ### specification -/

/-- value of the abstract map: stored frequency and, once learned, the user's frequency and time -/
abbrev SVal := Nat × Option (Nat × Nat)

def SMap := PKey → Option SVal

namespace SMap
def empty : SMap := fun _ => none
def set (m : SMap) (k : PKey) (v : Option SVal) : SMap := fun k' => if k' = k then v else m k'

def apply (m : SMap) : Op → SMap
  | .add k t f => m.set (k, t) (some (f, none))
  | .update k t orig uf tm =>
    match m (k, t) with
    | some (o, some (_, t0)) => m.set (k, t) (some (o, some (uf, t0)))
    | _ => m.set (k, t) (some (orig, some (uf, tm)))
  | .remove k t => m.set (k, t) none
  | .flush => m
  | .reopen => m

def run (m : SMap) (ops : List Op) : SMap := ops.foldl apply m
end SMap

/-- what a lookup reports for a value -/
def report (v : SVal) : Nat × Option Nat :=
  match v.2 with
  | some (uf, tm) => (max v.1 uf, some tm)
  | none => (v.1, none)

/-- the map a state denotes -/
def abs (s : State) : SMap := fun key => (rowGet s key).map (fun r => (r.freq, r.upid.bind (userGet s)))

/-- `l` is a correct answer for the syllables `k`: the live phrases, each once, with the reported value -/
def IsLookup (m : SMap) (k : Key) (l : List Phrase) : Prop :=
  (l.map (·.text)).Nodup ∧
  (∀ p ∈ l, ∃ v, m (k, p.text) = some v ∧ (p.freq, p.lastUsed) = report v) ∧
  (∀ t v, m (k, t) = some v → ∃ p ∈ l, p.text = t)

def IsEntries (m : SMap) (l : List Entry) : Prop :=
  (l.map (fun e => (e.1, e.2.text))).Nodup ∧
  (∀ e ∈ l, ∃ v, m (e.1, e.2.text) = some v ∧ (e.2.freq, e.2.lastUsed) = report v) ∧
  (∀ k t v, m (k, t) = some v → ∃ e ∈ l, e.1 = k ∧ e.2.text = t)

end Chewing.SqliteDict
