import Chewing.Gen.SqliteV1
import Chewing.Model.Loader
import Chewing.Model.Syllable
/-!
Relational model of the in-file migration `SqliteDictionary::migrate_from_userphrase_v1`
(`src/dictionary/sqlite.rs`) and of the joined view `SqliteDictionary::entries()` reads afterwards
(C19: the older `userphrase_v1` schema the C library wrote).

* A legacy row is the 16 INTEGER columns of the table in table order (`time, user_freq, max_freq,
  orig_freq, length, phone_0 … phone_10`; SQLite INTEGER = signed 64 bit, here `Int`) plus the
  TEXT column `phrase` (UTF-8 bytes).
* Which columns the migration SELECTs, the range of the phone loop, the Rust integer types the
  columns are read as, the tuple it builds per row and which tuple component feeds which column
  of `dictionary_v1` / `userphrase_v2` are NOT written down here: they come from
  `Gen/SqliteV1.lean`, regenerated from the source by `tools/extractors/sqlite.py` on every run.
* `row.get::<uN>(i)` of a value outside the type's range is an error, and any error makes
  `SqliteDictionary::open` fail as a whole (the rows are all read before the first write).
* `Syllable::try_from` fails on 0 and — since the repair of C13's F47 — on every value that is not a syllable
  code (`Chewing.validCode`), and the push is guarded by `!syllable.is_empty()`: zero phones (the padding),
  values that are no syllable and the empty pattern `0x8000` are SKIPPED (not: terminate the syllable list).
* The migrated state is the map `dictionary_v1 ⋈ userphrase_v2` keyed by (syllables, phrase) —
  `INSERT OR REPLACE`: the last row of a key wins — and `entries()` answers
  `(syllables, phrase, max(freq, coalesce(user_freq, 0)), time)` per key.  The iteration order of
  the view is not modelled (the result is the key-sorted map of `Model/Loader.lean`).
-/
namespace Chewing.SqliteV1
open Chewing.Loader

structure V1Row where
  /-- time, user_freq, max_freq, orig_freq, length, phone_0 … phone_10 -/
  ints : List Int
  phrase : List Nat
deriving Repr, DecidableEq

/-- position of the TEXT column in the table -/
def colPhrase : Nat := 16

/-- `row.get::<uN>(i)`: the i-th SELECTed column read as an unsigned integer of `bits` bits -/
def getInt (r : V1Row) (bits i : Nat) : Except Unit Nat :=
  match Gen.v1SelectIdx[i]? with
  | none => .error ()                                  -- no such column in the statement
  | some c =>
    match r.ints[c]? with
    | none => .error ()                                -- the TEXT column read as an integer
    | some v => if 0 ≤ v ∧ v < (2 : Int) ^ bits then .ok v.toNat else .error ()

/-- `row.get::<String>(i)` -/
def getText (r : V1Row) (i : Nat) : Except Unit (List Nat) :=
  if Gen.v1SelectIdx[i]? = some colPhrase then .ok r.phrase else .error ()

/-- `if let Ok(syllable) = Syllable::try_from(v) { if !syllable.is_empty() { push } }` -/
def keepPhone (v : Nat) : Bool := validCode v && !isEmptySyl v

/-- the phone loop over the column indices `is`: a phone `try_from` rejects, or the empty syllable, is skipped -/
def readPhones (r : V1Row) : List Nat → Except Unit (List Nat)
  | [] => .ok []
  | i :: is =>
    match getInt r Gen.v1PhoneBits i with
    | .error e => .error e
    | .ok v =>
      match readPhones r is with
      | .error e => .error e
      | .ok vs => .ok (if keepPhone v then v :: vs else vs)

/-- `for i in A..B` -/
def phoneIdxs : List Nat := List.range' Gen.v1PhoneFirst (Gen.v1PhoneEnd - Gen.v1PhoneFirst)

/-- which tuple component feeds a target column (`params![…]` against the INSERT's column list) -/
def paramOf (cols items : List Nat) (col : Nat) : Option Nat :=
  ((cols.zip items).find? (fun p => p.1 == col)).map (·.2)

/-- `item.k` (k ≥ 1) as an integer: `row.get(c)?` at the declared width -/
def itemNat (r : V1Row) : Option Nat → Except Unit Nat
  | some (k + 1) =>
    match Gen.v1TupleCols[k]?, Gen.v1TupleBits[k]? with
    | some c, some (b + 1) => getInt r (b + 1) c
    | _, _ => .error ()
  | _ => .error ()

/-- `item.k` as a `String` -/
def itemText (r : V1Row) : Option Nat → Except Unit (List Nat)
  | some (k + 1) =>
    match Gen.v1TupleCols[k]?, Gen.v1TupleBits[k]? with
    | some c, some 0 => getText r c
    | _, _ => .error ()
  | _ => .error ()

/-- one migrated row: key, `dictionary_v1.freq`, `userphrase_v2.user_freq`, `userphrase_v2.time` -/
structure Item where
  syls : List Nat
  phrase : List Nat
  freq : Nat
  userFreq : Nat
  time : Nat
deriving Repr, DecidableEq

/-- the statement shapes the join relies on: `syllables` is fed by the syllable bytes of item.0,
    `userphrase_id` by the row id of the `userphrase_v2` row just inserted -/
def shapeOk : Bool :=
  paramOf Gen.v1DictColIds Gen.v1DictItems 0 == some 0 && paramOf Gen.v1DictColIds Gen.v1DictItems 3 == some 100
    && Gen.v1DictReplace

def readRow (r : V1Row) : Except Unit Item :=
  if !shapeOk then .error () else
  match readPhones r phoneIdxs, itemText r (paramOf Gen.v1DictColIds Gen.v1DictItems 1),
        itemNat r (paramOf Gen.v1DictColIds Gen.v1DictItems 2),
        itemNat r (paramOf Gen.v1UserphraseColIds Gen.v1UserphraseItems 0),
        itemNat r (paramOf Gen.v1UserphraseColIds Gen.v1UserphraseItems 1) with
  | .ok syls, .ok phrase, .ok freq, .ok user, .ok time =>
    -- every component of the tuple is read, used or not
    match itemText r (some 1), itemNat r (some 2), itemNat r (some 3), itemNat r (some 4) with
    | .ok _, .ok _, .ok _, .ok _ => .ok { syls, phrase, freq, userFreq := user, time }
    | _, _, _, _ => .error ()
  | _, _, _, _, _ => .error ()

def readAll : List V1Row → Except Unit (List Item)
  | [] => .ok []
  | r :: rs =>
    match readRow r with
    | .error e => .error e
    | .ok it =>
      match readAll rs with
      | .error e => .error e
      | .ok its => .ok (it :: its)

/-- what `entries()` answers for a migrated row: `max(freq, coalesce(user_freq, 0))`, `time` -/
def Item.toRec (it : Item) : Uhash.Rec :=
  { syls := it.syls, phrase := it.phrase, freq := max it.freq it.userFreq, time := it.time }

/-- the whole migration of a store that holds only the legacy table, as the joined view shows it:
    `Err` = `SqliteDictionary::open` fails -/
def migrate (rows : List V1Row) : Except Unit UMap :=
  match readAll rows with
  | .error e => .error e
  | .ok items => .ok (importRecs [] (items.map Item.toRec))

/-- the legacy row of a record as the C library wrote it: phones zero-padded to 11 columns -/
def mkRow (time user maxf orig len : Nat) (syls phrase : List Nat) : V1Row :=
  { ints := [(time : Int), user, maxf, orig, len] ++ (syls ++ List.replicate (11 - syls.length) 0).map Int.ofNat,
    phrase }

end Chewing.SqliteV1
