import Chewing.Gen.Bopomofo
import Chewing.Gen.SyllableBits
/-!
Model of `src/zhuyin/{bopomofo,syllable}.rs`.

A Bopomofo symbol is its enum discriminant (`Nat`, < 42); a syllable is its 16-bit
code (`Nat`).  All bit masks, shifts and tables come from `Chewing.Gen.*`, i.e. from
the current Rust source.  `NonZeroU16::new(v).unwrap()` on `v = 0` is `none` (= panic).
-/
namespace Chewing
open Gen

/-- number of `Bopomofo` variants -/
def nBopo : Nat := bopoNames.length

def kindOf (b : Nat) : Nat := bopoKind.getD b 0
def indexOf (b : Nat) : Nat := bopoIndex.getD b 0
def charOf (b : Nat) : Nat := bopoChar.getD b 0

/-- `Bopomofo::try_from(char)` on a code point -/
def bopoOfChar (c : Nat) : Option Nat :=
  (bopoFromChar.find? (fun p => p.1 == c)).map (·.2)

/-- `Bopomofo::from_initial` … `from_tone`: `None` when the index is out of the table. -/
def fromMap (m : List Nat) (index : Nat) : Option Nat := m[index]?

def field (mask shift c : Nat) : Nat := (c &&& mask) >>> shift

def accessor (mask shift : Nat) (m : List Nat) (c : Nat) : Option Nat :=
  let index := field mask shift c
  if index == 0 then none else fromMap m (index - 1)

def initial (c : Nat) : Option Nat := accessor initialMask initialShift initialMap c
def medial (c : Nat) : Option Nat := accessor medialMask medialShift medialMap c
def rime (c : Nat) : Option Nat := accessor rimeMask rimeShift rimeMap c
def tone (c : Nat) : Option Nat := accessor toneMask toneShift toneMap c

/-- component `k` (0 initial … 3 tone) -/
def comp (k : Nat) (c : Nat) : Option Nat :=
  match k with
  | 0 => initial c
  | 1 => medial c
  | 2 => rime c
  | _ => tone c

def isEmptySyl (c : Nat) : Bool := c == emptyPattern

def removeWith (mask c : Nat) : Nat :=
  let v := c &&& mask
  if v == 0 then emptyPattern else v

def removeInitial (c : Nat) : Nat := removeWith removeInitialMask c
def removeMedial (c : Nat) : Nat := removeWith removeMedialMask c
def removeRime (c : Nat) : Nat := removeWith removeRimeMask c
def removeTone (c : Nat) : Nat := removeWith removeToneMask c

def removeKind (k : Nat) (c : Nat) : Nat :=
  match k with
  | 0 => removeInitial c
  | 1 => removeMedial c
  | 2 => removeRime c
  | _ => removeTone c

/-- `Syllable::update`; `none` = the `unwrap()` on a zero value panics. -/
def update (c b : Nat) : Option Nat :=
  let v :=
    match kindOf b with
    | 0 => (c &&& updateInitialMask) ||| (indexOf b <<< updateInitialShift)
    | 1 => (c &&& updateMedialMask) ||| (indexOf b <<< updateMedialShift)
    | 2 => (c &&& updateRimeMask) ||| (indexOf b <<< updateRimeShift)
    | _ => (c &&& updateToneMask) ||| (indexOf b <<< updateToneShift)
  if v == 0 then none else some v

/-- `Syllable::pop`: (removed symbol, new code) -/
def pop (c : Nat) : Option Nat × Nat :=
  match popOrder.find? (fun k => (comp k c).isSome) with
  | some k => (comp k c, removeKind k c)
  | none => (none, c)

/-- `Display for Syllable`: the code points written. -/
def spell (c : Nat) : List Nat :=
  ([initial c, medial c, rime c, tone c].filterMap id).map charOf

/-- `u32::trailing_zeros` on a 16-bit value (16 for 0), by halving with fuel 16. -/
def trailingZeros16 (c : Nat) : Nat :=
  go 16 c 0
where
  go : Nat → Nat → Nat → Nat
    | 0, _, acc => acc
    | fuel + 1, c, acc => if c % 2 == 1 then acc else go fuel (c / 2) (acc + 1)

def startsWithShift (p : Nat) : Nat :=
  let tz := trailingZeros16 p
  match startsWithSteps.find? (fun s => tz ≥ s.1) with
  | some s => s.2
  | none => startsWithDefault

/-- `Syllable::starts_with` -/
def startsWith (s p : Nat) : Bool :=
  let k := startsWithShift p
  (s >>> k) == (p >>> k)

/-! ### The order-checking builder -/

structure Builder where
  value : Nat
  step : Nat
deriving Repr, DecidableEq, BEq

def Builder.new : Builder := { value := emptyPattern, step := 0 }

inductive BuildErr | multiple | order | invalid
deriving Repr, DecidableEq, BEq

deriving instance DecidableEq for Except

/-- `SyllableBuilder::insert` -/
def Builder.insert (bld : Builder) (b : Nat) : Except BuildErr Builder :=
  match builderArms[kindOf b]? with
  | none => .error .invalid
  | some (check, maxStep, newStep, clear, off, shift) =>
    if bld.value &&& check != 0 then .error .multiple
    else if bld.step > maxStep then .error .order
    else .ok { step := newStep, value := (bld.value &&& clear) ||| (((b : Int) + off).toNat <<< shift) }

def Builder.insertAll (bld : Builder) : List Nat → Except BuildErr Builder
  | [] => .ok bld
  | b :: bs =>
    match bld.insert b with
    | .ok bld' => bld'.insertAll bs
    | .error e => .error e

/-- `FromStr for Syllable` on a list of code points. -/
def parse (s : List Nat) : Except BuildErr Nat :=
  go Builder.new s
where
  go (bld : Builder) : List Nat → Except BuildErr Nat
    | [] => .ok bld.value
    | c :: cs =>
      match bopoOfChar c with
      | none => .error .invalid
      | some b =>
        match bld.insert b with
        | .ok bld' => go bld' cs
        | .error e => .error e

/-- `Syllable::try_from(u16)` — since the repair of the C13 finding F47: zero is rejected, the empty pattern is
    accepted, and any other value must have the empty-marker bit clear and every component index at most
    `Bopomofo::<last symbol of the kind>.index()` (`tryFromBounds`; the tone bound is `TONE1`, the value 5 the builder
    and `update` store for the first-tone mark, cf. F18).  `tryFromMarker = 0` is the shape before the repair. -/
def tryFromU16 (v : Nat) : Option Nat :=
  if v == 0 then none
  else if tryFromMarker == 0 then some v
  else if v == emptyPattern then some v
  else if v &&& tryFromMarker != 0 || tryFromBounds.any (fun b => field b.1 b.2.1 v > indexOf b.2.2) then none
  else some v

/-- a 16-bit value that is (the code of) a `Syllable`: the type invariant since the repair of F47 -/
def validCode (v : Nat) : Bool := (tryFromU16 v).isSome

/-- `chewing_phone_to_bopomofo(phone, buf, len)` with a non-null buffer of `len` bytes:
    returns (return value, bytes written at the start of the buffer or none). -/
def utf8Len (cp : Nat) : Nat := if cp < 0x80 then 1 else if cp < 0x800 then 2 else if cp < 0x10000 then 3 else 4

def phoneToBopomofo (phone len : Nat) : Int × Option (List Nat) :=
  match tryFromU16 phone with
  | none => (-1, none)
  | some c =>
    let s := spell c
    let n := (s.map utf8Len).foldl (· + ·) 0
    (((n + 1 : Nat) : Int), if len ≥ n + 1 then some s else none)

/-! ### Composition from optional components (what the property calls "composed") -/

/-- The symbols of the tuple `(i, m, r, t)` (0 = absent; otherwise 1-based index in the
    kind's index table), in order. -/
def tupleSyms (i m r t : Nat) : List Nat :=
  (if i = 0 then [] else (initialMap[i - 1]?).toList) ++
  (if m = 0 then [] else (medialMap[m - 1]?).toList) ++
  (if r = 0 then [] else (rimeMap[r - 1]?).toList) ++
  (if t = 0 then [] else (toneMap[t - 1]?).toList)

/-- the syllable composed from a tuple through the builder (`syl![…]`) -/
def compose (i m r t : Nat) : Except BuildErr Nat :=
  (Builder.new.insertAll (tupleSyms i m r t)).map (·.value)

/-- component `k` of a tuple, as a symbol -/
def tupleComp (k i m r t : Nat) : Option Nat :=
  match k with
  | 0 => if i = 0 then none else initialMap[i - 1]?
  | 1 => if m = 0 then none else medialMap[m - 1]?
  | 2 => if r = 0 then none else rimeMap[r - 1]?
  | _ => if t = 0 then none else toneMap[t - 1]?

/-- arithmetic form of the code of a tuple -/
def encode (i m r t : Nat) : Nat :=
  if i = 0 ∧ m = 0 ∧ r = 0 ∧ t = 0 then 32768 else i * 512 + m * 128 + r * 8 + t

end Chewing
