import Chewing.Model.Basic
import Chewing.Model.CStr
import Chewing.Model.Editor
import Chewing.Model.Loader
import Chewing.Gen.SysLoader
/-!
Context creation and the SYSTEM-side loaders (C12 creation clause, C17 locality of creation).

Modelled code (unix branch, after the repairs 8bbf0a3 / 90b92ad / 37fe7c3 / 0301be3 of branch wp-newctx):

* `src/path.rs` — `find_path_by_files`, `find_drop_in_dat_by_path`, `sys_path_from_env_var`, `data_dir`,
  `userphrase_path` (`project_data_dir` / `legacy_data_dir` for `target_family = "unix"`, not macOS);
* `src/dictionary/loader.rs` — `SystemDictionaryLoader::{load, load_drop_in, load_abbrev, load_symbol_selector}` and the
  path-level part of `UserDictionaryLoader::load` (the rest is `Model/Loader.lean`, plugged in by `userFileStd`);
* `src/editor/abbrev.rs` `AbbrevTable::open`, `src/editor/selection/symbol.rs` `SymbolSelector::{open, new}` — the two
  line formats over arbitrary BYTES (`BufRead::lines` + UTF-8 validation included);
* `capi/src/io.rs` — the control flow of `chewing_new2` / `chewing_new` (`newContext`) and `chewing_delete`.

Conventions.  A path is a `List Char` (a Rust `&str` path; a C string that is not UTF-8 is the separate value
`PathArg.notUtf8`).  The file system is ANY function `Path → Node` — the OS's name resolution (symbolic links, `..`,
the current directory for relative paths such as the one an EMPTY search-path segment yields) is inside that function, not
modelled.  `Path::join` / `PathBuf::push` with a relative right-hand side is `joinPath` (exact); file names inside a
directory listing are `List Char` too (names that are not UTF-8 are outside the model).  `Trie::open` is a PARAMETER
`bytes → Option D` (C12's theorems are about the real one); a Rust panic is `.panic site`, NULL is `.ok none`.
-/
namespace Chewing.SysLoader
open Chewing.Gen.SysLoader

abbrev Path := List Char

/-- what a path resolves to (following symbolic links) -/
inductive Node where
  /-- nothing there (or a dangling link, or no permission to look) -/
  | absent
  /-- a directory with its listing (any order: `read_dir` promises none) -/
  | dir (names : List Path)
  /-- a regular file with its bytes; `readonly` = `metadata.permissions().readonly()` -/
  | file (bytes : List Nat) (readonly : Bool)
deriving Repr, DecidableEq

abbrev FS := Path → Node

/-- `Path::exists` -/
def Node.present : Node → Bool
  | .absent => false
  | _ => true
/-- `Path::is_file` -/
def Node.isFile : Node → Bool
  | .file _ _ => true
  | _ => false
/-- `Path::is_dir` -/
def Node.isDir : Node → Bool
  | .dir _ => true
  | _ => false

/-! ### strings and paths -/

/-- `str::split(sep)` for a `char` pattern: EMPTY pieces are kept, the empty string yields one empty piece -/
def splitSep (sep : Char) : List Char → List (List Char)
  | [] => [[]]
  | c :: cs =>
    if c = sep then [] :: splitSep sep cs
    else
      match splitSep sep cs with
      | [] => [[c]]
      | h :: t => (c :: h) :: t

/-- `Path::join` / `PathBuf::push` with a RELATIVE right-hand side: a separator is added unless the left side is empty or
    already ends with one -/
def joinPath (p f : Path) : Path :=
  if p = [] then f else if p.getLast? = some '/' then p ++ f else p ++ '/' :: f

/-- the directories of a search path, in order (duplicates and empty segments included) -/
def segments (sp : Path) : List Path := splitSep searchPathSep sp

/-- `find_path_by_files`: the FIRST segment under which ALL the files exist (a directory of that name counts) -/
def findPathByFiles (fs : FS) (sp : Path) (files : List Path) : Option Path :=
  (segments sp).find? (fun seg => files.all (fun f => (fs (joinPath seg f)).present))

/-- `Path::extension` of a file NAME: the part after the last `.`, unless there is none, the name is `..`, or the only `.`
    is the first character -/
def extension (name : Path) : Option Path :=
  if name = ['.', '.'] then none
  else
    let r := name.reverse
    let after := r.takeWhile (· ≠ '.')
    if after.length = r.length then none
    else if r.drop (after.length + 1) = [] then none
    else some after.reverse

/-- lexicographic `≤` on names (`Ord for Path` compares components; inside one directory that is the byte order of the
    names, which for UTF-8 is the code-point order) -/
def nameLe : List Char → List Char → Bool
  | [], _ => true
  | _ :: _, [] => false
  | a :: as, b :: bs => decide (a.toNat < b.toNat) || (a.toNat == b.toNat && nameLe as bs)

def insertSorted (x : Path) : List Path → List Path
  | [] => [x]
  | y :: ys => if nameLe x y then x :: y :: ys else y :: insertSorted x ys

/-- `files.sort()` (the names inside one directory are distinct, so every sort gives this list) -/
def sortNames : List Path → List Path
  | [] => []
  | x :: xs => insertSorted x (sortNames xs)

/-- the drop-in dictionaries of ONE segment: regular files `*.dat` of `<seg>/dictionary.d`, sorted by name -/
def dropInNames (fs : FS) (seg : Path) : List Path :=
  match fs (joinPath seg dictFolder) with
  | .dir names =>
    sortNames (names.filter (fun n => (fs (joinPath (joinPath seg dictFolder) n)).isFile && extension n == some dropInExt))
  | _ => []

def dropInsOf (fs : FS) (seg : Path) : List Path := (dropInNames fs seg).map (joinPath (joinPath seg dictFolder))

/-- `find_drop_in_dat_by_path`: segments in search order, inside a segment by file name -/
def findDropIn (fs : FS) (sp : Path) : List Path := (segments sp).flatMap (dropInsOf fs)

/-! ### the two text formats -/

/-- the pieces between `\n` bytes -/
def splitNl : List Nat → List (List Nat)
  | [] => [[]]
  | b :: bs =>
    if b = 10 then [] :: splitNl bs
    else
      match splitNl bs with
      | [] => [[b]]
      | h :: t => (b :: h) :: t

/-- a `\r` directly in front of the `\n` belongs to the terminator -/
def stripCR (l : List Nat) : List Nat := if l.getLast? = some 13 then l.dropLast else l

/-- `BufRead::lines` on bytes: every `\n`-terminated piece without its terminator (`\n` or `\r\n`), then the unterminated
    rest if it is not empty (it keeps a final `\r`) -/
def rawLinesAux : List (List Nat) → List (List Nat)
  | [] => []
  | [last] => if last = [] then [] else [last]
  | l :: rest => stripCR l :: rawLinesAux rest

def rawLines (b : List Nat) : List (List Nat) := rawLinesAux (splitNl b)

/-- every element decoded, or `none` at the first failure -/
def allSome {α β : Type} (f : α → Option β) : List α → Option (List β)
  | [] => some []
  | x :: xs =>
    match f x with
    | none => none
    | some y => (allSome f xs).map (y :: ·)

/-- `for line in reader.lines() { let line = line?; … }`: the lines as texts, `none` = the `io::Error` (`InvalidData`) of
    a line that is not UTF-8.  (Since no line handler can panic any more the position of the bad line is unobservable.) -/
def textLines (b : List Nat) : Option (List Text) := allSome CStr.utf8Decode (rawLines b)

/-- `str::split_once(sep)` -/
def splitOnce (sep : Nat) : Text → Option (Text × Text)
  | [] => none
  | c :: cs =>
    if c = sep then some ([], cs)
    else (splitOnce sep cs).map fun r => (c :: r.1, r.2)

/-- the `BTreeMap<char, String>` as the editor model reads it (`find?` = first match): newest binding first -/
abbrev AbbrevTable := List (Nat × Text)

def AbbrevTable.find (t : AbbrevTable) (ch : Nat) : Option Text := (t.find? (fun p => p.1 == ch)).map (·.2)

/-- one line of `swkb.dat`: `<abbr> <expansion>`; a line without a separator or with nothing in front of it is skipped
    (fix 90b92ad; before: `expect("each line should have at last one separator")` / `nth(0).unwrap()` PANICKED) -/
def abbrevLine (t : AbbrevTable) (l : Text) : AbbrevTable :=
  match splitOnce abbrevSep l with
  | none => t
  | some ([], _) => t
  | some (c :: _, e) => (c, e) :: t

/-- `AbbrevTable::open` on the bytes of the file -/
def parseAbbrev (b : List Nat) : Option AbbrevTable := (textLines b).map (·.foldl abbrevLine [])

/-- the code BEFORE fix 90b92ad, for the witness theorems -/
def abbrevLineOrig (t : AbbrevTable) (l : Text) : Outcome AbbrevTable :=
  match splitOnce abbrevSep l with
  | none => .panic "each line should have at last one separator"
  | some ([], _) => .panic "abbr.chars().nth(0).unwrap()"
  | some (c :: _, e) => .ok ((c, e) :: t)

structure SymAcc where
  category : List (Text × Option Nat) := []
  table : List Text := []
deriving Repr, DecidableEq

/-- one line of `symbols.dat`: `<category>=<symbols>` opens a table, any other line is a one-symbol leaf; a BLANK line
    is skipped (fix 0301be3; before it became a leaf category without a name and choosing it panicked,
    `cat.0.chars().next().unwrap()`) -/
def symbolLine (a : SymAcc) (l : Text) : SymAcc :=
  if l = [] then a
  else
    match splitOnce symbolSep l with
    | some (c, t) => { category := a.category ++ [(c, some a.table.length)], table := a.table ++ [t] }
    | none => { a with category := a.category ++ [(l, none)] }

/-- the code before fix 0301be3 -/
def symbolLineOrig (a : SymAcc) (l : Text) : SymAcc :=
  match splitOnce symbolSep l with
  | some (c, t) => { category := a.category ++ [(c, some a.table.length)], table := a.table ++ [t] }
  | none => { a with category := a.category ++ [(l, none)] }

def SymAcc.toSel (a : SymAcc) : SymSel := { category := a.category, table := a.table, cursor := none }

/-- `SymbolSelector::new` on the bytes of the reader -/
def parseSymbols (b : List Nat) : Option SymSel := (textLines b).map fun ls => (ls.foldl symbolLine {}).toSel

/-! ### `SystemDictionaryLoader` -/

inductive LoadErr where
  /-- `LoadDictionaryError::NotFound` -/
  | notFound
  /-- `LoadDictionaryError::IoError` -/
  | io
deriving Repr, DecidableEq

variable {D U : Type}

/-- `Trie::open(path)`: only a regular file can be read; then `open` decides -/
def openFile (op : List Nat → Option D) (fs : FS) (p : Path) : Option D :=
  match fs p with
  | .file b _ => op b
  | _ => none

/-- `load`: the first segment holding BOTH files; a file that does not open is an error (no further search) -/
def loadSys (op : List Nat → Option D) (fs : FS) (sp : Path) : Except LoadErr (List D) :=
  match findPathByFiles fs sp [wordFile, tsiFile] with
  | none => .error .notFound
  | some d =>
    match openFile op fs (joinPath d wordFile) with
    | none => .error .io
    | some w =>
      match openFile op fs (joinPath d tsiFile) with
      | none => .error .io
      | some t => .ok [w, t]

/-- `load_drop_in`: every drop-in that opens, in the order of `findDropIn`; one that does not open is skipped -/
def loadDropIn (op : List Nat → Option D) (fs : FS) (sp : Path) : List D := (findDropIn fs sp).filterMap (openFile op fs)

/-- a text table in the first segment that has the file -/
def loadTable {T : Type} (parse : List Nat → Option T) (file : Path) (fs : FS) (sp : Path) : Except LoadErr T :=
  match findPathByFiles fs sp [file] with
  | none => .error .notFound
  | some d =>
    match fs (joinPath d file) with
    | .file b _ => match parse b with
      | some t => .ok t
      | none => .error .io
    | _ => .error .io

def loadAbbrev (fs : FS) (sp : Path) : Except LoadErr AbbrevTable := loadTable parseAbbrev abbrevFile fs sp
def loadSymbols (fs : FS) (sp : Path) : Except LoadErr SymSel := loadTable parseSymbols symbolsFile fs sp

/-! ### the environment (unix) -/

/-- what `src/path.rs` reads from the process environment.  `none` = `env::var` returns `Err` (unset, or not Unicode) -/
structure Env where
  /-- `CHEWING_PATH` -/
  chewingPath : Option Path := none
  /-- `CHEWING_USER_PATH` -/
  chewingUserPath : Option Path := none
  /-- `XDG_DATA_HOME` -/
  xdgDataHome : Option Path := none
  /-- `env::home_dir()`: `$HOME`, else the password database -/
  homeDir : Option Path := none
  /-- `option_env!("CHEWING_DATADIR")` when the library was BUILT -/
  compiledDataDir : Option Path := none
deriving Repr, DecidableEq

def legacyDataDir (env : Env) : Option Path := env.homeDir.map (joinPath · legacyDirName)

def projectDataDir (env : Env) : Option Path :=
  match env.xdgDataHome with
  | some p => some (joinPath p xdgSub)
  | none => env.homeDir.map fun h => homeDataParts.foldl joinPath h

/-- `data_dir` -/
def dataDir (fs : FS) (env : Env) : Option Path :=
  match env.chewingUserPath with
  | some p => some p
  | none =>
    match legacyDataDir env with
    | some p => if (fs p).isDir then some p else projectDataDir env
    | none => projectDataDir env

/-- `userphrase_path` -/
def userphrasePath (fs : FS) (env : Env) : Option Path := (dataDir fs env).map (joinPath · userFile)

/-- `sys_path_from_env_var` -/
def sysPathFromEnv (fs : FS) (env : Env) : Path :=
  match env.chewingPath with
  | some p => p
  | none =>
    let sys := env.compiledDataDir.getD defaultUnixSysPath
    match dataDir fs env with
    | some d => d ++ searchPathSep :: sys
    | none => sys

/-! ### the user dictionary: path-level decisions of `UserDictionaryLoader::load` -/

/-- the normal components of a path (repeated separators and `.` dropped) -/
def components (p : Path) : List Path := (splitSep '/' p).filter (fun c => c ≠ [] && c ≠ ['.'])

/-- `data_path.ends_with(":memory:")` — component-wise: the LAST component is `:memory:` -/
def isMem (p : Path) : Bool := (components p).getLast? == some memFile

/-- `data_path.parent()` is `None`: the empty path, or nothing but the root -/
def parentNone (p : Path) : Bool := p == [] || (p.head? == some '/' && components p == [])

/-- `data_path.parent()` as a string: the path without its last component and the separators in front of it (exact for
    paths that do not end in a `.` component) -/
def parentOf (p : Path) : Path :=
  let r := (p.reverse.dropWhile (· = '/')).dropWhile (· ≠ '/')
  match r.dropWhile (· = '/') with
  | [] => if r = [] then [] else ['/']
  | r' => r'.reverse

/-- ASCII lower case of a character -/
def lowerAscii (c : Char) : Char := if 65 ≤ c.toNat ∧ c.toNat ≤ 90 then Char.ofNat (c.toNat + 32) else c

/-- `dict_path.extension()` of the last component, lower-cased (`eq_ignore_ascii_case`) -/
def userExt (p : Path) : Option Path := ((components p).getLast?.bind extension).map (·.map lowerAscii)

/-- what `newContext` needs to know about the user side -/
structure UserSide (U : Type) where
  /-- `TrieBuf::new_in_memory()` -/
  memory : U
  /-- the rest of `UserDictionaryLoader::load` for a path that is not `:memory:` and either exists or has a parent:
      `guess_format_and_load` / `create_dir_all` + `init_user_dictionary` + the legacy import.  `.ok none` = `Err` -/
  file : FS → Path → Outcome (Option U)

/-- `UserDictionaryLoader::load` with `data_path = arg.or_else(userphrase_path)` -/
def loadUser (us : UserSide U) (fs : FS) (env : Env) (arg : Option Path) : Outcome (Option U) :=
  match (match arg with | some p => some p | none => userphrasePath fs env) with
  | none => .ok none                                   -- `ErrorKind::NotFound`
  | some p =>
    if isMem p then .ok (some us.memory)
    else if (fs p).present then us.file fs p
    else if parentNone p then .ok none                 -- fix 37fe7c3; before: `.expect("path should contain a filename")` PANICKED
    else us.file fs p

/-- the same before fix 37fe7c3 -/
def loadUserOrig (us : UserSide U) (fs : FS) (env : Env) (arg : Option Path) : Outcome (Option U) :=
  match (match arg with | some p => some p | none => userphrasePath fs env) with
  | none => .ok none
  | some p =>
    if isMem p then .ok (some us.memory)
    else if (fs p).present then us.file fs p
    else if parentNone p then .panic "path should contain a filename"
    else us.file fs p

/-- `metadata.permissions().readonly()` of an existing file -/
def Node.readonly : Node → Bool
  | .file _ ro => ro
  | _ => false

/-- the user directory as `Model/Loader.lean` sees it: the dictionary at `p`, `uhash.dat` and `chewing.sqlite3` beside it -/
def userDirOf (openDat : List Nat → Option Loader.UMap) (openLegacySql : List Nat → Option (List Uhash.Rec))
    (fs : FS) (p : Path) : Loader.UserDir :=
  { chewingDat := match fs p with
      | .file b _ => some (match openDat b with
        | some m => .valid m
        | none => .corrupt)
      | .dir _ => some .corrupt
      | .absent => none
    uhashDat := match fs (joinPath (parentOf p) uhashFile) with
      | .file b _ => some b
      | _ => none
    sqlite := match fs (joinPath (parentOf p) sqliteFile) with
      | .file b _ => some (openLegacySql b)
      | .dir _ => some none
      | .absent => none }

/-- the standard user side: the extension dispatch of `init_user_dictionary` over `Model/Loader.lean`'s `load` (C12/C19).
    `openDat` = `TrieBuf::open` on the bytes of an existing file, `sqlite` = everything about a `*.sqlite3` user path
    (abstract, feature `sqlite`), `openLegacySql` = `SqliteDictionary::open(..).entries()` of a legacy `chewing.sqlite3`. -/
def userFileStd (sqliteFeature : Bool) (openDat : List Nat → Option Loader.UMap)
    (openLegacySql : List Nat → Option (List Uhash.Rec)) (sqlite : FS → Path → Option Loader.UMap)
    (fs : FS) (p : Path) : Outcome (Option Loader.UMap) :=
  if (fs p).readonly then .ok none                     -- `ErrorKind::PermissionDenied`
  else if userExt p = some ['s', 'q', 'l', 'i', 't', 'e', '3'] then
    .ok (if sqliteFeature then sqlite fs p else none)  -- `ErrorKind::Unsupported` without the feature
  else if userExt p = some ['d', 'a', 't'] then
    (Loader.load sqliteFeature (userDirOf openDat openLegacySql fs p)).map fun l => match l.dict with
      | .ok m => some m
      | .error _ => none
  else .ok none                                        -- `ErrorKind::Other`

/-! ### `chewing_new2` -/

/-- a `const char *` argument -/
inductive PathArg where
  | null
  | str (p : Path)
  /-- a C string that is not UTF-8 (a legal unix path) -/
  | notUtf8
deriving Repr, DecidableEq

/-- what a new context is made of (everything else is a constant of the code: `Gen.SysLoader.initialSelKeys`,
    `contextBuffers`, Qwerty / default layout, `ChewingEngine`, default options — `Proofs/ProcessState.lean`) -/
structure NewCtx (D U : Type) where
  /-- the system layers of `Layered::new`: `word.dat`, `tsi.dat` (or the built-in dictionary), then the drop-ins -/
  sysDicts : List D
  user : U
  abbr : AbbrevTable
  symbols : SymSel
  selKeys : List Nat := initialSelKeys
  /-- every text buffer starts zeroed -/
  bufferSizes : List Nat := contextBuffers.map (·.2)

/-- the parameters: the real `Trie::open`, the embedded `mini.dat` (`none` = `Trie::new` rejects it), the user side -/
structure Params (D U : Type) where
  openTrie : List Nat → Option D
  builtin : Option D
  user : UserSide U

/-- the system half of `chewing_new2`: dictionaries (with the built-in fall-back), drop-ins, abbreviations, symbols -/
def sysHalf (P : Params D U) (fs : FS) (sp : Path) : Outcome (List D × AbbrevTable × SymSel) :=
  let dicts : Outcome (List D) :=
    match loadSys P.openTrie fs sp with
    | .ok d => .ok d
    | .error _ =>
      match P.builtin with
      | some b => .ok [b]
      | none => .panic "builtin.unwrap()"
  match dicts with
  | .ok d =>
    let dropIns := loadDropIn P.openTrie fs sp
    let abbr := match loadAbbrev fs sp with
      | .ok a => a
      | .error _ => []                                   -- `AbbrevTable::new()`
    let sym : Outcome SymSel := match loadSymbols fs sp with
      | .ok s => .ok s
      | .error _ =>
        match parseSymbols [] with                       -- `SymbolSelector::new(b"".as_slice()).unwrap()`
        | some s => .ok s
        | none => .panic "SymbolSelector::new(b\"\".as_slice()).unwrap()"
    match sym with
    | .ok s => .ok (d ++ dropIns, abbr, s)
    | .panic s => .panic s
    | .outOfFuel => .outOfFuel
  | .panic s => .panic s
  | .outOfFuel => .outOfFuel

/-- **`chewing_new2(syspath, userpath, logger, data)`** (`chewing_new` = both `null`).  `.ok none` = NULL. -/
def newContext (P : Params D U) (fs : FS) (env : Env) (syspath userpath : PathArg) : Outcome (Option (NewCtx D U)) :=
  match syspath with
  | .notUtf8 => .ok none                                 -- fix 8bbf0a3; before: `.expect("invalid syspath string")` PANICKED
  | _ =>
    let sp := match syspath with
      | .str p => p
      | _ => sysPathFromEnv fs env
    match sysHalf P fs sp with
    | .ok (dicts, abbr, sym) =>
      match userpath with
      | .notUtf8 => .ok none                             -- fix 8bbf0a3 (the second `expect`)
      | _ =>
        let arg := match userpath with
          | .str p => some p
          | _ => none
        match loadUser P.user fs env arg with
        | .ok (some u) => .ok (some { sysDicts := dicts, user := u, abbr := abbr, symbols := sym })
        | .ok none => .ok none                           -- "Failed to load user dict": NULL
        | .panic s => .panic s
        | .outOfFuel => .outOfFuel
    | .panic s => .panic s
    | .outOfFuel => .outOfFuel

/-- the code before fix 8bbf0a3 -/
def newContextOrig (P : Params D U) (fs : FS) (env : Env) (syspath userpath : PathArg) : Outcome (Option (NewCtx D U)) :=
  match syspath, userpath with
  | .notUtf8, _ => .panic "invalid syspath string"
  | _, .notUtf8 =>
    let sp := match syspath with
      | .str p => p
      | _ => sysPathFromEnv fs env
    match sysHalf P fs sp with                           -- the system half runs first
    | .ok _ => .panic "invalid syspath string"           -- (sic: the message of the second `expect`)
    | .panic s => .panic s
    | .outOfFuel => .outOfFuel
  | _, _ => newContext P fs env syspath userpath

/-- `chewing_delete`: NULL is ignored; otherwise the context is dropped (the user dictionary is closed: C10) and the
    process-wide logger slot is cleared (F33, `Proofs/ProcessState.lean`).  Returns the contexts still alive. -/
def deleteContext {α : Type} (live : List (Nat × α)) (id : Option Nat) : List (Nat × α) :=
  match id with
  | none => live
  | some i => live.filter (·.1 ≠ i)

end Chewing.SysLoader
