import Chewing.Model.MapSpec
import Chewing.Model.Layered
import Chewing.Model.Syllable
import Chewing.Model.Der
/-!
# Trie (read side, abstract) and TrieBuf — `src/dictionary/{trie,trie_buf}.rs` (C09)

## Trie
The byte format is C11's concern.  Here a trie file is the list of its *leaves* in file order: one
leaf per key, keys in the breadth-first order of the index (children are sorted by syllable code,
so keys of equal length appear in lexicographic order), and inside a leaf the phrases in the order
`TrieBuilder::write` sorted them.  `build` is `TrieBuilder::insert`* followed by `write`+`open`:
`insert` replaces an existing (key, text) in place and appends otherwise; `write` stable-sorts each
leaf with the comparator of `trie.rs` (`leafCmp`, the total preorder of fix ddfe893).  That this abstract
file is what C11's byte-level `write` / `Trie::new` / lookups produce is a theorem
(`Proofs/TrieLink.lean`, `C09.file_layer_is_C11`).

`Trie::lookup_first_n_phrases` walks the matching leaves, appends whole leaves, stops as soon as more
than `first` phrases are collected and (since fix 4e93dec, F11) truncates to `first`.

## TrieBuf
`trie` snapshot + `btree` of pending entries (a `BTreeMap`, modelled as the sorted association list
of its iteration order) + `graveyard` of tombstones + `dirty`.  The snapshot writer is modelled in
its **sequential** form (the concurrent schedules are C10's): `checkpoint()` computes the file the
writer thread will produce (`inflight`), `sync()` — called when that thread has finished — puts it
on disk (`file`) and adopts it unless the dictionary was modified in between; `sync()` without a
writer in flight re-reads `file`.  An in-memory dictionary has `fileBacked = false` (`trie: None`):
no snapshot, `flush`/`reopen` do nothing.

`add_phrase`/`update_phrase` erase the tombstone of the key they insert (fix 20fd01a, F09).  A pending
entry replaces the persisted entry of the same key in `entries()` and — keyed by the query — in exact
lookups (fix 8e6d504, F10); an exact lookup scans all pending phrases of the query's syllables (fix
2c45871, MaxCodePointPhrase).  A *prefix* lookup (`FuzzyPartialPrefix`) is answered from the merged view
of `entries()` filtered by the per-syllable match (fix c3d9fb2, F36) — before that fix it scanned the
persisted leaves only and applied the pending / tombstone filters keyed by the QUERY.
-/
namespace Chewing
open MapSpec

/-- a trie leaf: the key and its phrases in file order -/
abbrev Leaf := Key × List Phrase

/-- insertion into a sorted list: `x` goes before the first element that is not strictly smaller
    (so that `isort` is a *stable* sort, like `slice::sort_by`) -/
def place {α : Type} (lt : α → α → Bool) (x : α) : List α → List α
  | [] => [x]
  | y :: r => if lt y x then y :: place lt x r else x :: y :: r

/-- stable insertion sort -/
def isort {α : Type} (lt : α → α → Bool) (l : List α) : List α := l.foldr (place lt) []

/-- the phrase a `TrieBuf` produces for a pending entry -/
def mkPhrase (t : Text) (v : Val) : Phrase := { text := t, freq := v.1, lastUsed := some v.2 }

namespace Trie

/-- `FuzzyPartialPrefix`: same number of syllables, every stored syllable `starts_with` the query's -/
def fuzzyMatch : Key → Key → Bool
  | [], [] => true
  | a :: as, b :: bs => a != 0 && startsWith a b && fuzzyMatch as bs
  | _, _ => false

/-- `search_predicate` applied along the path -/
def keyMatch : Strategy → Key → Key → Bool
  | .standard, key, q => key == q
  | .fuzzyPartialPrefix, key, q => fuzzyMatch key q

/-- the leaves reached by the breadth-first search, in queue order -/
def lookupLeaves (t : List Leaf) (q : Key) (st : Strategy) : List (List Phrase) :=
  (t.filter (fun l => keyMatch st l.1 q)).map (·.2)

/-- `lookup_all_phrases` (= `lookup_first_n_phrases(usize::MAX)`, which can never cut a `Vec`) -/
def lookupAll (t : List Leaf) (q : Key) (st : Strategy) : List Phrase := (lookupLeaves t q st).flatten

/-- the collection loop: append whole leaves, `break` once more than `n` phrases are gathered -/
def collect (n : Nat) : List (List Phrase) → List Phrase → List Phrase
  | [], acc => acc
  | leaf :: rest, acc =>
    let acc' := acc ++ leaf
    if acc'.length > n then acc' else collect n rest acc'

/-- `Trie::lookup_first_n_phrases` (with the final `truncate(first)` of fix 4e93dec) -/
def lookupFirstN (t : List Leaf) (q : Key) (n : Nat) (st : Strategy) : List Phrase :=
  (collect n (lookupLeaves t q st) []).take n

/-- `Trie::entries`, leaf by leaf (the real iterator visits the leaves in a depth-first order of its
    own; enumerations are compared per key, see the driver) -/
def entries (t : List Leaf) : List Entry := t.flatMap (fun l => l.2.map (fun p => (l.1, p)))

/-! ### `TrieBuilder` -/

def cmpNat (a b : Nat) : Ordering := if a < b then .lt else if b < a then .gt else .eq

/-- the comparator of `TrieBuilder::write` (since fix ddfe893 a total preorder): single characters
    (`chars().count() == 1`) keep their order among themselves and go before longer phrases; longer
    phrases by frequency descending, then by `str::cmp` — bytewise on the UTF-8 encoding — descending -/
def leafCmp (a b : Phrase) : Ordering :=
  if a.text.length == 1 && b.text.length == 1 then .eq
  else if a.text.length == 1 then .lt
  else if b.text.length == 1 then .gt
  else if a.freq == b.freq then cmpList (Der.utf8Enc b.text) (Der.utf8Enc a.text)
  else cmpNat b.freq a.freq

def leafLt (a b : Phrase) : Bool := leafCmp a b == .lt

/-- `TrieBuilder::insert` on one leaf: replace the phrase with the same text in place, else append -/
def insRepl (ps : List Phrase) (p : Phrase) : List Phrase :=
  if ps.any (fun q => q.text == p.text) then ps.map (fun q => if q.text == p.text then p else q) else ps ++ [p]

/-- the phrases inserted under `k`, after all inserts -/
def leafOf (es : List Entry) (k : Key) : List Phrase :=
  ((es.filter (fun e => e.1 == k)).map (·.2)).foldl insRepl []

/-- distinct keys, first occurrences -/
def dedupKeys : List Key → List Key
  | [] => []
  | k :: r => k :: (dedupKeys r).filter (fun x => x != k)

def keyLt (a b : Key) : Bool := cmpList a b == .lt

/-- insert all entries in order into an empty builder, write the file, open it -/
def build (es : List Entry) : List Leaf :=
  (isort keyLt (dedupKeys (es.map (·.1)))).map (fun k => (k, isort leafLt (leafOf es k)))

end Trie

namespace TrieBuf

/-- `struct TrieBuf` (sequential view, see the header) -/
structure State where
  /-- `trie.is_some()` with a path: opened with `TrieBuf::open`; `false` for `new_in_memory()` -/
  fileBacked : Bool
  /-- the `Trie` snapshot held in memory (`[]` for an in-memory dictionary) -/
  snap : List Leaf
  /-- what the file at `path` currently contains -/
  file : List Leaf
  /-- `join_handle`: the file the spawned writer produces -/
  inflight : Option (List Leaf)
  /-- pending entries in `BTreeMap` iteration order -/
  btree : List (PKey × Val)
  /-- tombstones (only membership is ever used) -/
  grave : List PKey
  dirty : Bool
deriving Repr, DecidableEq

/-- `TrieBuf::new_in_memory()` -/
def initMem : State :=
  { fileBacked := false, snap := [], file := [], inflight := none, btree := [], grave := [], dirty := false }

/-- `TrieBuf::open(path)` on a path that does not exist yet: an empty trie file is created -/
def initFile : State := { initMem with fileBacked := true }

/-- order of `PhraseKey` -/
def pkeyLt (a b : PKey) : Bool :=
  match cmpList a.1 b.1 with
  | .lt => true
  | .gt => false
  | .eq => cmpList a.2 b.2 == .lt

/-- `self.btree.range((k, "")..).take_while(|(key, _)| key.0 == k)`: the pending entries of exactly the
    syllables `k` (all of them since fix 2c45871; the range used to end at the exclusive bound
    `(k, "\u{10FFFF}")`).  In the sorted pending list the keys with syllables `k` are contiguous and
    start at the first key `≥ (k, "")`, so the scan is the filter. -/
def btreeRange (bt : List (PKey × Val)) (k : Key) : List Phrase :=
  (bt.filter (fun e => e.1.1 == k)).map (fun e => mkPhrase e.1.2 e.2)

/-- `self.btree.contains_key(&key)` -/
def btHas (bt : List (PKey × Val)) (k : PKey) : Bool := bt.any (fun e => e.1 == k)

def btEntries (bt : List (PKey × Val)) : List Entry := bt.map (fun e => (e.1.1, mkPhrase e.1.2 e.2))

/-- `entries_iter`: snapshot entries that have no pending entry of the same key (fix 8e6d504, F10), then
    the pending entries, minus tombstones keyed by the entry -/
def entries (s : State) : List Entry :=
  ((Trie.entries s.snap).filter (fun e => !(btHas s.btree (e.1, e.2.text))) ++ btEntries s.btree).filter
    (fun e => !(s.grave.contains (e.1, e.2.text)))

/-- `entries_iter_for`.

    *Exact* strategy: snapshot lookup minus the phrases that have a pending entry *keyed by the query*
    (fix 8e6d504, F10: a pending entry replaces the persisted one), then the pending range, minus
    tombstones *keyed by the query* — for an exact lookup the query IS the key of every candidate.

    *Prefix* strategy (fix c3d9fb2, F36): the merged view `entries_iter()` — every filter keyed by the
    ENTRY's own key — restricted to the keys that match the query per syllable
    (`key.len() == query.len() && zip.all(starts_with)`; a `Vec<Syllable>` holds `NonZeroU16`s, so the
    `n == 0` guard `Trie`'s predicate carries — and `fuzzyMatch` with it — is vacuous here), phrases only.
    The persisted candidates come in the order of `Trie::entries()`; restricted to keys of ONE length that
    is the file order the model's `Trie.entries` lists (`C09.fuzzy_order_is_file_order`). -/
def entriesIterFor (s : State) (k : Key) : Strategy → List Phrase
  | .standard =>
    ((Trie.lookupAll s.snap k .standard).filter (fun p => !(btHas s.btree (k, p.text))) ++ btreeRange s.btree k).filter
      (fun p => !(s.grave.contains (k, p.text)))
  | .fuzzyPartialPrefix => ((entries s).filter (fun e => Trie.fuzzyMatch e.1 k)).map (·.2)

/-- `lookup_all_phrases` -/
def lookupAll (s : State) (k : Key) (st : Strategy) : List Phrase := dedup (entriesIterFor s k st)

/-- `lookup_first_n_phrases` -/
def lookupFirstN (s : State) (k : Key) (n : Nat) (st : Strategy) : List Phrase :=
  (dedup (entriesIterFor s k st)).take n

/-- `BTreeMap::insert` -/
def btInsert (bt : List (PKey × Val)) (k : PKey) (v : Val) : List (PKey × Val) :=
  place (fun a b => pkeyLt a.1 b.1) (k, v) (bt.filter (fun e => e.1 != k))

/-- `BTreeMap::remove` -/
def btErase (bt : List (PKey × Val)) (k : PKey) : List (PKey × Val) := bt.filter (fun e => e.1 != k)

/-- `BTreeSet::insert` -/
def graveInsert (g : List PKey) (k : PKey) : List PKey := if g.contains k then g else k :: g

/-- `BTreeSet::remove` -/
def graveErase (g : List PKey) (k : PKey) : List PKey := g.filter (fun x => x != k)

/-- `add_phrase` is rejected iff the exact lookup already yields the text -/
def addOk (s : State) (k : Key) (t : Text) : Bool :=
  !((entriesIterFor s k .standard).any (fun p => p.text == t))

/-- insert into the pending tree, lifting a tombstone (shared tail of `add_phrase`/`update_phrase`) -/
def put (s : State) (k : PKey) (v : Val) : State :=
  { s with grave := graveErase s.grave k, btree := btInsert s.btree k v, dirty := true }

/-- `checkpoint()` -/
def checkpoint (s : State) : State :=
  if s.inflight.isSome then s
  else if !s.fileBacked || !s.dirty then s
  else { s with inflight := some (Trie.build (entries s)), dirty := false }

/-- `sync()`, called when the writer (if any) has finished -/
def sync (s : State) : State :=
  match s.inflight with
  | some t =>
    if s.dirty then { s with inflight := none, file := t }
    else { s with inflight := none, file := t, snap := t, btree := [], grave := [] }
  | none => if s.fileBacked then { s with snap := s.file } else s

/-- `Drop` (sync, flush, join) followed by `TrieBuf::open` of the same path; not meaningful for an
    in-memory dictionary (left unchanged there, never exercised) -/
def closeOpen (s : State) : State :=
  if s.fileBacked then
    let s1 := checkpoint (sync s)
    let f := match s1.inflight with
      | some t => t
      | none => s1.file
    { initFile with snap := f, file := f }
  else s

def apply (s : State) : Op → State
  | .add k t f tm => if addOk s k t then put s (k, t) (f, tm.getD 0) else s
  | .update k t f tm => put s (k, t) (f, tm)
  | .remove k t => { s with btree := btErase s.btree (k, t), grave := graveInsert s.grave (k, t), dirty := true }
  | .flush => checkpoint s
  | .reopen => sync s
  | .closeOpen => closeOpen s

def run (s : State) (ops : List Op) : State := ops.foldl apply s

/-! ### The abstraction -/

/-- value of `(k, t)` in a trie file -/
def baseGet (t : List Leaf) (k : PKey) : Option Val :=
  (t.find? (fun l => l.1 == k.1)).bind (fun l => (l.2.find? (fun p => p.text == k.2)).map valOf)

/-- value of a pending key -/
def btGet (bt : List (PKey × Val)) (k : PKey) : Option Val := (bt.find? (fun e => e.1 == k)).map (·.2)

/-- the map a state denotes when `base` is taken as the persisted layer: a tombstone hides the key,
    else the pending value wins, else the persisted value -/
def absOver (base : List Leaf) (s : State) : MapSpec.Map :=
  fun k => if s.grave.contains k then none else (btGet s.btree k).or (baseGet base k)

/-- the map a `TrieBuf` denotes -/
def abs (s : State) : MapSpec.Map := absOver s.snap s

/-- to the read-only interface used by the conversion / editor models -/
def toDict (s : State) : Dict := { lookup := fun k st => lookupAll s k st }

end TrieBuf

namespace Layered

/-- `Layered::add_phrase` / `update_phrase` do not forward an empty phrase to the user layer (they log
    "BUG! added phrase is empty" and return `Ok`); everything else is forwarded unchanged -/
def forwarded : Op → Bool
  | .add _ t _ _ => !t.isEmpty
  | .update _ t _ _ => !t.isEmpty
  | _ => true

/-- a `DictionaryMut` call on a `Layered` whose user layer is a `TrieBuf` -/
def applyUser (u : TrieBuf.State) (op : Op) : TrieBuf.State := if forwarded op then TrieBuf.apply u op else u

def runUser (u : TrieBuf.State) (ops : List Op) : TrieBuf.State := ops.foldl applyUser u

end Layered

end Chewing
