import Chewing.Model.Der
import Chewing.Model.Dict
import Chewing.Model.Syllable
import Chewing.Model.TrieValidate
/-!
Model of `src/dictionary/trie.rs`: `TrieBuilder` (insert, write) and `Trie` (open, lookup for both
strategies, entries, about), at the level of the **bytes** of the file.

Builder.  The Rust arena (`Vec<TrieBuilderNode>` + ids) represents a tree; the model is that tree
in first-child / next-sibling form (`Forest`): children in insertion order (`children.push`), each
node with its optional leaf (`leaf_id`), each leaf with its phrase vector in insertion order with
in-place replacement (`insert`).  Arena ids influence the output only through the stable child sort
by syllable, and sibling syllables are distinct, so the tree determines the bytes; the byte-for-byte
correspondence run validates this abstraction on every check.

`write`.  The Rust loop is `while !queue.is_empty() { for _ in 0..queue.len() { pop_front … push_back } }`;
the inner `for` only groups iterations, so the model is the plain FIFO loop `writeLoop` (fuel = number
of nodes; `Proofs/TrieLayout.lean: write_isSome` shows it never runs out).  The counter `child_begin` runs along.  Record fields are
written as the code does: `child_begin as u32`, `data_begin as u32` (wrapping casts, `% 2^32`), and
— since the `fix:` commit for finding F13 — `u16::try_from(child_len)?`, `u16::try_from(data_len)?`
(error = `none`).  `Document::encode_msg` refuses documents longer than `Length::MAX`.

Phrase sort.  `slice::sort_by` is a stable sort; since the comparator is a total preorder (after the
`fix:` commit that made it one — before, mixed leaves of more than 20 phrases could make `sort_by`
panic) every stable sort returns the same list, so the model uses insertion from the right
(`insertion_sort_shift_left`, literally what std runs for ≤ 20 elements).

Reader.  `lookup_all_phrases` (= `lookup_first_n_phrases(…, usize::MAX, …)`, so the `first` cut-off
never fires), `entries()` (the explicit-stack DFS, one `round` per refill of `results`), `about()`.
`bail_if_oob!` = return the empty vector / end the iteration; `Syllable::try_from(syl_u16).unwrap()` on a
syllable field that is not a valid code (`validCode`, the values `try_from` accepts since the repair of C13's F47;
zero is one of the rejected values) = panic.  The fuzzy predicate is
`if n == 0 { false } else if let Ok(s) = Syllable::try_from(n) { s.starts_with(*syl) } else { false }`.
-/
namespace Chewing.TrieCodec
open Chewing Chewing.Der

/-- `DictionaryInfo` -/
structure Info where
  name : Text := []
  copyright : Text := []
  license : Text := []
  version : Text := []
  software : Text := []
deriving Repr, DecidableEq, BEq, Inhabited

/-! ### builder -/

/-- the children of a node, in insertion order: syllable, leaf (`leaf_id` → phrases), grandchildren -/
inductive Forest where
  | nil
  | cons (syl : Nat) (leaf : Option (List Phrase)) (sub : Forest) (next : Forest)
deriving Repr, Inhabited

/-- a node without its syllable: (leaf, children) -/
abbrev NodeData := Option (List Phrase) × Forest

structure Builder where
  /-- leaf of the root (entries with the empty key) -/
  leaf : Option (List Phrase) := none
  kids : Forest := .nil
  info : Info := {}
deriving Repr, Inhabited

/-- `insert`: replace the first phrase with the same text, else push -/
def upsert : List Phrase → Phrase → List Phrase
  | [], p => [p]
  | q :: qs, p => if q.text = p.text then p :: qs else q :: upsert qs p

/-- the child with syllable `s` modified by `g`; a new child `g (none, nil)` is pushed if there is none
    (`find_or_insert_internal`, one level) -/
def Forest.modify (s : Nat) (g : NodeData → NodeData) : Forest → Forest
  | .nil => .cons s (g (none, .nil)).1 (g (none, .nil)).2 .nil
  | .cons s' l sub next =>
    if s' = s then .cons s' (g (l, sub)).1 (g (l, sub)).2 next
    else .cons s' l sub (next.modify s g)

def insertNode : List Nat → Phrase → NodeData → NodeData
  | [], p, nd => (some (upsert (nd.1.getD []) p), nd.2)
  | s :: rest, p, nd => (nd.1, nd.2.modify s (insertNode rest p))

def Builder.insert (b : Builder) (key : List Nat) (p : Phrase) : Builder :=
  let nd := insertNode key p (b.leaf, b.kids)
  { b with leaf := nd.1, kids := nd.2 }

def Builder.setInfo (b : Builder) (i : Info) : Builder := { b with info := i }

/-- `set_info` then the inserts in order -/
def Builder.ofEntries (info : Info) (es : List Entry) : Builder :=
  es.foldl (fun b e => b.insert e.1 e.2) { info := info }

/-- the child with syllable `s` -/
def Forest.child (s : Nat) : Forest → Option NodeData
  | .nil => none
  | .cons s' l sub next => if s' = s then some (l, sub) else next.child s

/-- the phrase vector of the leaf at `key` -/
def findNode : List Nat → NodeData → Option (List Phrase)
  | [], nd => nd.1
  | s :: rest, nd =>
    match nd.2.child s with
    | none => none
    | some nd' => findNode rest nd'

def Builder.find (b : Builder) (key : List Nat) : Option (List Phrase) := findNode key (b.leaf, b.kids)

/-! ### write -/

/-- a queued arena node: an internal node (the root has syllable 0) or a leaf -/
inductive Item where
  | node (syl : Nat) (leaf : Option (List Phrase)) (sub : Forest)
  | leaf (ps : List Phrase)
deriving Repr, Inhabited

def Item.syl : Item → Nat
  | .node s _ _ => s
  | .leaf _ => 0

def Forest.toItems : Forest → List Item
  | .nil => []
  | .cons s l sub next => .node s l sub :: next.toItems

/-- number of arena nodes below a child list -/
def Forest.size : Forest → Nat
  | .nil => 0
  | .cons _ l sub next => 1 + (if l.isSome then 1 else 0) + sub.size + next.size

def Item.size : Item → Nat
  | .node _ l sub => 1 + (if l.isSome then 1 else 0) + sub.size
  | .leaf _ => 1

/-- `insert_tail`: `x` enters the sorted prefix (held reversed) from the right -/
def insTail {α : Type} (lt : α → α → Bool) (x : α) : List α → List α
  | [] => [x]
  | y :: ys => if lt x y then y :: insTail lt x ys else x :: y :: ys

/-- stable `sort_by`, `lt a b` = "`compare(a, b) == Less`" -/
def sortBy {α : Type} (lt : α → α → Bool) (l : List α) : List α :=
  (l.foldl (fun acc x => insTail lt x acc) []).reverse

/-- `str::cmp` on the UTF-8 bytes -/
def lexLt : List Nat → List Nat → Bool
  | _, [] => false
  | [], _ :: _ => true
  | a :: as, b :: bs => if a < b then true else if b < a then false else lexLt as bs

/-- the comparator of `write`, as "`a` sorts strictly before `b`" (`compare(a, b) == Less`):
    single characters are equal among themselves and go before longer phrases; longer phrases by
    descending frequency, then descending UTF-8 order -/
def phraseLt (a b : Phrase) : Bool :=
  if a.text.length = 1 ∧ b.text.length = 1 then false
  else if a.text.length = 1 then true
  else if b.text.length = 1 then false
  else if a.freq = b.freq then lexLt (utf8Enc b.text) (utf8Enc a.text)
  else b.freq < a.freq

def sortLeaf (ps : List Phrase) : List Phrase := sortBy phraseLt ps

/-- `Phrase::encode` -/
def encPhrase (p : Phrase) : Bytes :=
  encSeq (encUtf8 p.text ++ encUint 4 p.freq ++ encCtx0U64 p.lastUsed)

def encPhrases (ps : List Phrase) : Bytes := ps.flatMap encPhrase

/-- the queue entry of a node's leaf (`leaf_id`) -/
def leafItem : Option (List Phrase) → List Item
  | some ps => [Item.leaf ps]
  | none => []

/-- the queue entries a node contributes: its leaf first, then its children sorted by syllable -/
def kidsOf (l : Option (List Phrase)) (sub : Forest) : List Item :=
  leafItem l ++ sortBy (fun a b => decide (a.syl < b.syl)) sub.toItems

/-- an index record: (u32 field, u16 field, u16 field) -/
abbrev Rec := Nat × Nat × Nat

def u16be (n : Nat) : Bytes := [n / 256 % 256, n % 256]
def u32be (n : Nat) : Bytes := [n / 16777216 % 256, n / 65536 % 256, n / 256 % 256, n % 256]
def recBytes (r : Rec) : Bytes := u32be r.1 ++ u16be r.2.1 ++ u16be r.2.2

/-- the BFS of `write`; `none` = the function returns `Err` (or fuel exhausted, which
    `write` never does: `write_isSome`) -/
def writeLoop : Nat → List Item → Nat → List Rec → Bytes → Option (List Rec × Bytes)
  | _, [], _, dict, data => some (dict, data)
  | 0, _ :: _, _, _, _ => none
  | fuel + 1, .node s l sub :: q, cb, dict, data =>
    let kids := kidsOf l sub
    if kids.length ≥ 65536 then none
    else writeLoop fuel (q ++ kids) (cb + kids.length) (dict ++ [(cb % 4294967296, kids.length, s)]) data
  | fuel + 1, .leaf ps :: q, cb, dict, data =>
    let enc := encPhrases (sortLeaf ps)
    if enc.length ≥ 65536 then none
    else writeLoop fuel q cb (dict ++ [(data.length % 4294967296, enc.length, 0)]) (data ++ enc)

/-- "CHEW" -/
def magic : Text := [67, 72, 69, 87]

def encInfo (i : Info) : Bytes :=
  encSeq (encUtf8 i.name ++ encUtf8 i.copyright ++ encUtf8 i.license ++ encUtf8 i.version ++ encUtf8 i.software)

/-- `TrieFileRef::encode_value` -/
def docBody (info : Info) (index data : Bytes) : Bytes :=
  encUtf8 magic ++ encUint 1 0 ++ encInfo info ++ encOctets index ++ encSeq data

def Builder.root (b : Builder) : Item := .node 0 b.leaf b.kids

/-- the two buffers of `write` -/
def Builder.buffers (b : Builder) : Option (List Rec × Bytes) :=
  writeLoop b.root.size [b.root] 1 [] []

/-- `TrieBuilder::write`: the bytes written, `none` = `Err` -/
def Builder.write (b : Builder) : Option Bytes :=
  match b.buffers with
  | none => none
  | some (dict, data) =>
    let doc := encSeq (docBody b.info (dict.flatMap recBytes) data)
    if doc.length ≤ maxLen then some doc else none

/-! ### reader -/

/-- `struct Trie` (without path and the unused fuzzy flag) -/
structure Trie where
  info : Info
  index : Bytes
  data : Bytes
deriving Repr, DecidableEq, Inhabited

def decInfo : Bytes → Option (Info × Bytes) :=
  decSeq fun inner =>
    match decUtf8 inner with
    | none => none
    | some (name, r1) =>
    match decUtf8 r1 with
    | none => none
    | some (copyright, r2) =>
    match decUtf8 r2 with
    | none => none
    | some (license, r3) =>
    match decUtf8 r3 with
    | none => none
    | some (version, r4) =>
    match decUtf8 r4 with
    | none => none
    | some (software, r5) => some ({ name, copyright, license, version, software }, r5)

/-- `TrieFileRef::decode_value` inside the outer SEQUENCE -/
def decBody (inner : Bytes) : Option (Trie × Bytes) :=
  match decUtf8 inner with
  | none => none
  | some (m, r1) =>
  match decUint 1 r1 with
  | none => none
  | some (v, r2) =>
  if m ≠ magic ∨ v ≠ 0 then none else
  match decInfo r2 with
  | none => none
  | some (info, r3) =>
  match decOctets r3 with
  | none => none
  | some (index, r4) =>
  match decSeq (fun d => some (d, [])) r4 with
  | none => none
  | some (data, r5) => some ({ info, index, data }, r5)

/-- the 8 bytes at `off` as (u32, u16, u16) -/
def viewAt (dict : Bytes) (off : Nat) : Rec :=
  let s := (dict.drop off).take 8
  (fromBE (s.take 4), fromBE ((s.drop 4).take 2), fromBE (s.drop 6))

/-- the complete 8-byte records of the index (`index.len() / 8` of them; a trailing partial record is ignored) -/
def parseRecs (index : Bytes) : List Rec := (List.range (index.length / 8)).map fun i => viewAt index (i * 8)

/-- `validate_index(index, phrase_seq.len()).is_ok()` (`Model/TrieValidate.lean`): the index is a tree laid out in
    breadth-first order — the structural check `read_from` runs since the repair of F16 / F17 -/
def validIndex (index data : Bytes) : Bool := TrieValidate.validate (parseRecs index) data.length

/-- `Trie::new` / `TrieOpenOptions::read_from`: `Document::try_from` + `decode_msg`, then `validate_index` -/
def openTrie (bytes : Bytes) : Option Trie :=
  if bytes.length > maxLen then none else
  match decSeq decBody bytes with
  | some (t, []) => if validIndex t.index t.data then some t else none
  | _ => none

/-- `Phrase::decode` -/
def decPhrase : Bytes → Option (Phrase × Bytes) :=
  decSeq fun inner =>
    match decUtf8 inner with
    | none => none
    | some (text, r1) =>
    match decUint 4 r1 with
    | none => none
    | some (freq, r2) =>
    match decCtx0U64 r2 with
    | none => none
    | some (lastUsed, r3) => some ({ text, freq, lastUsed }, r3)

def decPhrasesFuel : Nat → Bytes → List Phrase
  | _, [] => []
  | 0, _ :: _ => []
  | f + 1, b :: bs =>
    match decPhrase (b :: bs) with
    | none => []
    | some (p, r) => p :: decPhrasesFuel f r

/-- `PhrasesIter`: records until the slice is exhausted or one fails to decode
    (every record consumes at least one byte, so the fuel is never the reason to stop) -/
def decPhrases (bs : Bytes) : List Phrase := decPhrasesFuel bs.length bs

def cbOf (v : Rec) : Nat := v.1 * 8
def ceOf (v : Rec) : Nat := (v.1 + v.2.1) * 8

/-- `bail_if_oob!` fires -/
def oob (b e len : Nat) : Bool := b ≥ e || e > len

/-- `dict[child_begin..child_end].chunks_exact(8)` (after the bounds check) -/
def childViews (dict : Bytes) (v : Rec) : List Rec :=
  (List.range v.2.1).map fun j => viewAt dict ((v.1 + j) * 8)

def matchSyl (st : Strategy) (n syl : Nat) : Bool :=
  match st with
  | .standard => n == syl
  | .fuzzyPartialPrefix => n != 0 && validCode n && startsWith n syl

/-- one syllable over all threads, `none` = `bail_if_oob!` -/
def stepThreads (dict : Bytes) (st : Strategy) (syl : Nat) : List Rec → Option (List Rec)
  | [] => some []
  | v :: vs =>
    if oob (cbOf v) (ceOf v) dict.length then none else
    match stepThreads dict st syl vs with
    | none => none
    | some r => some ((childViews dict v).filter (fun n => matchSyl st n.2.2 syl) ++ r)

/-- all syllables; `none` = the function returns the empty vector -/
def walk (dict : Bytes) (st : Strategy) : List Nat → List Rec → Option (List Rec)
  | [], th => some th
  | s :: rest, th =>
    match stepThreads dict st s th with
    | none => none
    | some th' => if th'.isEmpty then none else walk dict st rest th'

def dataSlice (data : Bytes) (leaf : Rec) : Bytes := (data.drop leaf.1).take leaf.2.1

/-- "collect result from all threads" -/
def collect (dict data : Bytes) : List Rec → List Phrase → List Phrase
  | [], acc => acc
  | v :: vs, acc =>
    if oob (cbOf v) (ceOf v) dict.length then [] else
    if oob 0 8 (dict.length - cbOf v) then [] else
    let leaf := viewAt dict (cbOf v)
    if leaf.2.2 ≠ 0 then collect dict data vs acc else
    if oob leaf.1 (leaf.1 + leaf.2.1) data.length then [] else
    collect dict data vs (acc ++ decPhrases (dataSlice data leaf))

/-- `lookup_all_phrases` -/
def lookupAll (t : Trie) (key : List Nat) (st : Strategy) : List Phrase :=
  if oob 0 8 t.index.length then [] else
  let root := viewAt t.index 0
  if cbOf root = ceOf root then [] else
  match walk t.index st key [root] with
  | none => []
  | some th => collect t.index t.data th []

/-- "collect result from all threads" with the cut-off of `lookup_first_n_phrases`: after a leaf has
    been appended, `if result.len() > first { break }` — the loop itself holds whole leaves; the
    caller truncates (`result.truncate(first)` after the loop, `lookupFirstN`) -/
def collectN (dict data : Bytes) (first : Nat) : List Rec → List Phrase → List Phrase
  | [], acc => acc
  | v :: vs, acc =>
    if oob (cbOf v) (ceOf v) dict.length then [] else
    if oob 0 8 (dict.length - cbOf v) then [] else
    let leaf := viewAt dict (cbOf v)
    if leaf.2.2 ≠ 0 then collectN dict data first vs acc else
    if oob leaf.1 (leaf.1 + leaf.2.1) data.length then [] else
    let acc' := acc ++ decPhrases (dataSlice data leaf)
    if acc'.length > first then acc' else collectN dict data first vs acc'

/-- `lookup_first_n_phrases` (the trait's required method; `lookupAll` is the case `first = usize::MAX`,
    where neither the cut-off nor the truncation can fire): the loop `collectN`, then
    `result.truncate(first)` (the early `bail_if_oob!` returns are empty vectors) -/
def lookupFirstN (t : Trie) (key : List Nat) (first : Nat) (st : Strategy) : List Phrase :=
  if oob 0 8 t.index.length then [] else
  let root := viewAt t.index 0
  if cbOf root = ceOf root then [] else
  match walk t.index st key [root] with
  | none => []
  | some th => (collectN t.index t.data first th []).take first

/-- `lookup_first_phrase` (provided method): `lookup_first_n_phrases(…, 1, …).into_iter().next()` -/
def lookupFirst (t : Trie) (key : List Nat) (st : Strategy) : Option Phrase :=
  (lookupFirstN t key 1 st).head?

/-! ### entries() -/

/-- an element of `results`: key (syllable codes) and the decoded leaf -/
abbrev Found := List Nat × List Phrase

/-- descend until a node that has only a leaf; `syls` is the syllable stack, top first.
    `.ok none` = `iter_bail_if_oob!` (the iteration ends) -/
def descend (dict data : Bytes) : Nat → Rec → List (List Rec) → List Nat → List Found →
    Outcome (Option (List (List Rec) × List Nat × List Found))
  | 0, _, _, _, _ => .outOfFuel
  | f + 1, node, stack, syls, results =>
    if oob (cbOf node) (ceOf node) dict.length then .ok none else
    match childViews dict node with
    | [] => .panic "no-child"
    | first :: more =>
      if first.2.2 == 0 then
        if oob first.1 (first.1 + first.2.1) data.length then .ok none else
        if syls.any (fun s => !validCode s) then .panic "syllable-invalid" else
        let results' := (syls.reverse, decPhrases (dataSlice data first)) :: results
        match more with
        | [] => .ok (some (stack, syls, results'))
        | second :: more' => descend dict data f second (more' :: stack) (second.2.2 :: syls) results'
      else descend dict data f first (more :: stack) (first.2.2 :: syls) results

/-- ascend until a sibling is left; `none` = `done` -/
def ascend : List (List Rec) → List Nat → Option (Rec × List (List Rec) × List Nat)
  | [], _ => none
  | [] :: stack, syls => ascend stack syls.tail
  | (next :: it) :: stack, syls => some (next, it :: stack, next.2.2 :: syls.tail)

/-- the rounds of the iterator: each yields its `results` top first -/
def entriesLoop (dict data : Bytes) : Nat → Rec → List (List Rec) → List Nat → Outcome (List Found)
  | 0, _, _, _ => .outOfFuel
  | f + 1, node, stack, syls =>
    match descend dict data (dict.length + 1) node stack syls [] with
    | .panic s => .panic s
    | .outOfFuel => .outOfFuel
    | .ok none => .ok []
    | .ok (some (stack', syls', results)) =>
      match ascend stack' syls' with
      | none => .ok results
      | some (node', stack'', syls'') =>
        match entriesLoop dict data f node' stack'' syls'' with
        | .ok more => .ok (results ++ more)
        | o => o

/-- `entries()` collected: (key, phrase) in iteration order -/
def entries (t : Trie) : Outcome (List Entry) :=
  if t.index.length < 8 then .ok [] else
  let root := viewAt t.index 0
  if cbOf root = ceOf root then .ok [] else
  match entriesLoop t.index t.data (t.index.length + 1) root [] [] with
  | .ok fs => .ok (fs.flatMap fun f => f.2.map fun p => (f.1, p))
  | .panic s => .panic s
  | .outOfFuel => .outOfFuel

/-- `about()` -/
def about (t : Trie) : Info := t.info

end Chewing.TrieCodec
