import Chewing.Model.Basic
import Chewing.Model.Syllable
/-!
Model of `validate_index` of `src/dictionary/trie.rs` (the structural check `Trie::new` /
`TrieOpenOptions::read_from` runs on the decoded index before a `Trie` is returned — the repair of
findings F16 / F17), shared by the two models of the trie reader: `Model/TrieCodec.lean` (C11, bytes)
and `Model/TrieWalk.lean` (C12, index tables).

An index record is the triple (u32 field, u16 field, u16 field) = (child begin, child count,
syllable) of a node, (data begin, data length, 0) of a leaf.  Record 0 is the root; a record other
than the root is a node iff its syllable field is non-zero.  The Rust loop

```
let mut next = 1;
for i in 0..count {
    if i == 0 || syllable(i) != 0 {
        if i != 0 && Syllable::try_from(syllable(i)).is_err() { return Err }      // since the repair of C13's F47
        if begin < next || begin <= i || end > count { return Err }
        for child in begin + 1..end { if syllable(child) == 0 { return Err } }
        next = end;
    } else if end > data_len { return Err }
}
```

is `scan` (the arithmetic is done in `u64`: `begin + len` cannot overflow) together with `sylsOk`: the syllable
check of a node record reads nothing but that record and does not touch `next`, and nothing in the loop can panic,
so "no record fails a check" is the conjunction of the structural scan and the per-record syllable check.
-/
namespace Chewing.TrieValidate

/-- (u32 field, u16 field, u16 field) -/
abbrev Rec3 := Nat × Nat × Nat

/-- the syllable field of record `j` (`record(child)`; only evaluated for `j < count`) -/
def sylAt (recs : List Rec3) (j : Nat) : Nat := (recs.getD j (0, 0, 0)).2.2

/-- the inner loop: some record of `begin + 1 .. end` is a leaf record -/
def zeroInside (recs : List Rec3) (a b : Nat) : Bool :=
  (List.range' (a + 1) (b - 1)).any fun j => sylAt recs j == 0

/-- the outer loop from record `i` on (`rest` = the records `i ..`), `next` as in the code -/
def scan (recs : List Rec3) (dataLen : Nat) : List Rec3 → Nat → Nat → Bool
  | [], _, _ => true
  | (a, b, s) :: rest, i, next =>
    if i == 0 || s != 0 then
      if a < next || a ≤ i || recs.length < a + b then false
      else if zeroInside recs a b then false
      else scan recs dataLen rest (i + 1) (a + b)
    else if dataLen < a + b then false
    else scan recs dataLen rest (i + 1) next

/-- the syllable check of the outer loop: the syllable field of every node record other than the root is a value
    `Syllable::try_from` accepts (`Chewing.validCode`; leaf records have the field 0) -/
def sylsOk (recs : List Rec3) : Bool := (recs.drop 1).all fun r => r.2.2 == 0 || validCode r.2.2

/-- `validate_index(index, data_len).is_ok()` over the complete records of the index -/
def validate (recs : List Rec3) (dataLen : Nat) : Bool := scan recs dataLen recs 0 1 && sylsOk recs

end Chewing.TrieValidate
