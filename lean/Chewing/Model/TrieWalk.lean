import Chewing.Model.Basic
import Chewing.Model.TrieValidate
/-!
Model of the *traversal* code of `src/dictionary/trie.rs` over the index table of a trie file
(C12): `lookup_first_n_phrases` (the per-syllable thread sets, `bail_if_oob!`) and `entries()`
(the depth-first walk with an explicit stack, `iter_bail_if_oob!`).

The two uses of the `der` crate are parameters, as DESIGN §8 C12 "Staging" describes:

* decoding the outer document yields the index bytes and the phrase bytes — here the model starts
  from the index bytes (`parseIndex`) and the length of the phrase bytes (`dataLen`);
* `PhrasesIter` over `data[db..de]` is the function `leaf db de : List P` (`P` = whatever a phrase
  record decodes to).  Nothing in this file inspects `P`.

An index record is 8 bytes: `u32` begin, `u16` length, `u16` syllable (big endian).  Offsets are
kept in *records*: the Rust guards compare byte offsets `8*x` against `dict.len()`; with
`n = dict.len() / 8` complete records, `8*e > dict.len() ↔ e > n` and `8*b ≥ 8*e ↔ b ≥ e`
(`saturating_add` on a 64-bit `usize` cannot saturate for a `u32` plus a `u16`).

Rust panics are values: every slice expression goes through a checked accessor.
The build profile modelled is the one the checks (and the repository's tests) use:
`debug_assert!`s are on.
-/
namespace Chewing.TrieWalk

/-- one 8-byte index record -/
structure Rec where
  a : Nat      -- child begin (record index)  /  data begin (byte offset in the phrase bytes)
  b : Nat      -- child count                 /  data length
  s : Nat      -- syllable                    /  reserved zero (leaf)
deriving Repr, DecidableEq, BEq, Inhabited

def be (l : List Nat) : Nat := l.foldl (fun acc x => acc * 256 + x) 0

/-- `chunks_exact(8)` of the index bytes (a trailing partial chunk is ignored) -/
def parseIndex : List Nat → List Rec
  | b0 :: b1 :: b2 :: b3 :: b4 :: b5 :: b6 :: b7 :: rest =>
    { a := be [b0, b1, b2, b3], b := be [b4, b5], s := be [b6, b7] } :: parseIndex rest
  | _ => []

/-- the decoded file as the traversal code sees it -/
structure Tbl (P : Type) where
  recs : List Rec
  dataLen : Nat
  leaf : Nat → Nat → List P

variable {P : Type}

def Tbl.n (t : Tbl P) : Nat := t.recs.length
def Tbl.get (t : Tbl P) (i : Nat) : Rec := t.recs.getD i default

/-- the records as the triples `validate_index` reads -/
def Tbl.rec3 (t : Tbl P) : List TrieValidate.Rec3 := t.recs.map fun r => (r.a, r.b, r.s)

/-- `validate_index(index, data.len()).is_ok()`: what `Trie::new` / `TrieOpenOptions::read_from` require of the
    decoded index before they return a `Trie` (repair of F16 / F17; `Model/TrieValidate.lean`).  Every
    traversal below runs on a table that passed it; the theorems of `Props/C12.lean` assume nothing else. -/
def validate (t : Tbl P) : Bool := TrieValidate.validate t.rec3 t.dataLen

/-- a node view together with its record index -/
abbrev Node := Nat × Rec

/-- the condition of `bail_if_oob!` / `iter_bail_if_oob!` -/
def oob (b e len : Nat) : Bool := decide (b ≥ e) || decide (e > len)

/-- `dict[cb..ce].chunks_exact(8).map(TrieNodeView)` (record units) -/
def sliceRecs (t : Tbl P) (cb ce : Nat) : Outcome (List Node) :=
  if cb ≤ ce ∧ ce ≤ t.n then .ok ((List.range' cb (ce - cb)).map fun i => (i, t.get i))
  else .panic "trie:index-slice-out-of-range"

/-- `&data[db..de]` then `PhrasesIter` -/
def sliceData (t : Tbl P) (db de : Nat) : Outcome (List P) :=
  if db ≤ de ∧ de ≤ t.dataLen then .ok (t.leaf db de) else .panic "trie:data-slice-out-of-range"

/-- `&dict[cb..]`, `bail_if_oob!(0, 8, leaf_data.len())`, `leaf_data[..8]`:
    `none` = bail -/
def leafAt (t : Tbl P) (cb : Nat) : Outcome (Option Rec) :=
  if cb > t.n then .panic "trie:index-slice-start-out-of-range"
  else if cb = t.n then .ok none
  else .ok (some (t.get cb))

/-! ### `lookup_first_n_phrases` -/

/-- one round of the thread loop for one query syllable; `none` = `return vec![]` -/
def expand (t : Tbl P) (pred : Nat → Bool) : List Node → Outcome (Option (List Node))
  | [] => .ok (some [])
  | nd :: rest =>
    if oob nd.2.a (nd.2.a + nd.2.b) t.n then .ok none
    else
      match sliceRecs t nd.2.a (nd.2.a + nd.2.b) with
      | .ok cs =>
        match expand t pred rest with
        | .ok (some more) => .ok (some (cs.filter (fun c => pred c.2.s) ++ more))
        | other => other
      | .panic s => .panic s
      | .outOfFuel => .outOfFuel

/-- the `for syl in syllables` loop; `none` = `return vec![]` -/
def walk (t : Tbl P) (pred : Nat → Nat → Bool) : List Nat → List Node → Outcome (Option (List Node))
  | [], th => .ok (some th)
  | syl :: q, th =>
    match expand t (fun n => pred n syl) th with
    | .ok (some th') => if th'.isEmpty then .ok none else walk t pred q th'
    | other => other

/-- "Collect result from all threads"; `none` = `return vec![]` -/
def collect (t : Tbl P) (first : Nat) : List Node → List P → Outcome (Option (List P))
  | [], acc => .ok (some acc)
  | nd :: rest, acc =>
    if oob nd.2.a (nd.2.a + nd.2.b) t.n then .ok none
    else
      match leafAt t nd.2.a with
      | .ok none => .ok none
      | .ok (some lf) =>
        if lf.s != 0 then collect t first rest acc
        else if oob lf.a (lf.a + lf.b) t.dataLen then .ok none
        else
          match sliceData t lf.a (lf.a + lf.b) with
          | .ok ps =>
            let acc' := acc ++ ps
            if acc'.length > first then .ok (some acc') else collect t first rest acc'
          | .panic s => .panic s
          | .outOfFuel => .outOfFuel
      | .panic s => .panic s
      | .outOfFuel => .outOfFuel

/-- the thread set after the query (`none` = an early `return vec![]`) -/
def threads (t : Tbl P) (pred : Nat → Nat → Bool) (q : List Nat) : Outcome (Option (List Node)) :=
  if oob 0 1 t.n then .ok none
  else
    let root := t.get 0
    if root.b == 0 then .ok none          -- `child_begin() == child_end()`: empty dictionary
    else walk t pred q [(0, root)]

/-- `Trie::lookup_first_n_phrases(syllables, first, strategy)`; `pred n syl` is the strategy's
    `search_predicate` (query syllables are `NonZeroU16`, so its `debug_assert!` cannot fire) -/
def lookup (t : Tbl P) (pred : Nat → Nat → Bool) (first : Nat) (q : List Nat) : Outcome (List P) :=
  match threads t pred q with
  | .ok none => .ok []
  | .ok (some th) =>
    match collect t first th [] with
    | .ok none => .ok []
    | .ok (some r) => .ok (r.take first)      -- `result.truncate(first)` (repair of F11)
    | .panic s => .panic s
    | .outOfFuel => .outOfFuel
  | .panic s => .panic s
  | .outOfFuel => .outOfFuel

/-! ### `entries()` — the closure of `iter::from_fn`, one loop iteration per machine tick -/

/-- a `chunks_exact` iterator over the records `cur .. end_` -/
structure Frame where
  cur : Nat
  end_ : Nat
deriving Repr, DecidableEq, BEq

inductive Phase where
  | callStart   -- top of the closure
  | descend     -- "descend until find a leaf node"
  | ascend      -- "ascend until we can go down again"
  | callEnd     -- the final `results.pop()`
  | finished    -- the iterator returned `None`
deriving Repr, DecidableEq, BEq

structure ESt (P : Type) where
  phase : Phase
  node : Nat                            -- record index of the current node view
  stack : List Frame                    -- head = top
  syls : List Nat                       -- head = last pushed
  results : List (List Nat × List P)    -- head = top
  done : Bool
  out : List (List Nat × List P)        -- emitted so far, head = last emitted

/-- `child_iter.next()`: the record index of the next child view -/
def Frame.next (f : Frame) : Option (Nat × Frame) :=
  if f.cur < f.end_ then some (f.cur, { f with cur := f.cur + 1 }) else none

def ESt.finish (st : ESt P) : ESt P := { st with phase := .finished }

/-- one loop iteration of the closure -/
def tick (t : Tbl P) (st : ESt P) : Outcome (ESt P) :=
  match st.phase with
  | .finished => .ok st
  | .callStart =>
    match st.results with
    | r :: rs => .ok { st with results := rs, out := r :: st.out }      -- `return results.pop()`
    | [] => if st.done then .ok st.finish else .ok { st with phase := .descend }
  | .descend =>
    let nd := t.get st.node
    if oob nd.a (nd.a + nd.b) t.n then .ok st.finish                    -- `return None`
    else
      match sliceRecs t nd.a (nd.a + nd.b) with
      | .panic s => .panic s
      | .outOfFuel => .outOfFuel
      | .ok _ =>
        let it : Frame := { cur := nd.a, end_ := nd.a + nd.b }
        match it.next with
        | none => .panic "trie:expect-at-least-one-child"
        | some (first, it1) =>
          if (t.get first).s == 0 then
            -- found a leaf syllable node
            match leafAt t nd.a with
            | .panic s => .panic s
            | .outOfFuel => .outOfFuel
            | .ok none => .panic "trie:leaf-slice-out-of-range"      -- `leaf_data[..8]` on a short slice
            | .ok (some lf) =>
              if oob lf.a (lf.a + lf.b) t.dataLen then .ok st.finish
              else if st.syls.any (fun s => !validCode s) then
                .panic "trie:invalid-syllable-unwrap"   -- `Syllable::try_from(syl_u16).unwrap()`: zero or (since F47) out of range
              else
                match sliceData t lf.a (lf.a + lf.b) with
                | .panic s => .panic s
                | .outOfFuel => .outOfFuel
                | .ok ps =>
                  let st1 := { st with results := (st.syls.reverse, ps) :: st.results }
                  match it1.next with
                  | none => .ok { st1 with phase := .ascend }                 -- `break`
                  | some (second, it2) =>
                    .ok { st1 with node := second, syls := (t.get second).s :: st.syls, stack := it2 :: st.stack }
          else
            .ok { st with node := first, syls := (t.get first).s :: st.syls, stack := it1 :: st.stack }
  | .ascend =>
    match st.stack with
    | [] => .ok { st with done := true, phase := .callEnd }
    | f :: rest =>
      let syls := st.syls.tail                                             -- `syllables.pop()`
      match f.next with
      | some (nx, f') =>
        if (t.get nx).s == 0 then .panic "trie:debug-assert-zero-syllable"   -- `debug_assert_ne!(next.syllable(), 0)`
        else .ok { st with node := nx, stack := f' :: rest, syls := (t.get nx).s :: syls, phase := .callEnd }
      | none => .ok { st with stack := rest, syls := syls }
  | .callEnd =>
    match st.results with
    | r :: rs => .ok { st with results := rs, out := r :: st.out, phase := .callStart }
    | [] => .ok st.finish

def run (t : Tbl P) : Nat → ESt P → Outcome (ESt P)
  | 0, st => if st.phase == .finished then .ok st else .outOfFuel
  | fuel + 1, st =>
    if st.phase == .finished then .ok st
    else
      match tick t st with
      | .ok st' => run t fuel st'
      | .panic s => .panic s
      | .outOfFuel => .outOfFuel

/-- state after the prologue of `entries()`; `none` = `iter::empty()` -/
def entriesInit (t : Tbl P) : Option (ESt P) :=
  if t.n < 1 then none
  else
    let root := t.get 0
    if root.b == 0 then none
    else some { phase := .callStart, node := 0, stack := [], syls := [], results := [], done := false, out := [] }

/-- `Trie::entries()` drained, as leaf groups `(syllables, phrases)` in iteration order, with
    `fuel` loop iterations -/
def entriesFuel (t : Tbl P) (fuel : Nat) : Outcome (List (List Nat × List P)) :=
  match entriesInit t with
  | none => .ok []
  | some st =>
    match run t fuel st with
    | .ok st' => .ok st'.out.reverse
    | .panic s => .panic s
    | .outOfFuel => .outOfFuel

/-- the flattened `(syllables, phrase)` list `entries()` yields -/
def flatten (gs : List (List Nat × List P)) : List (List Nat × P) :=
  gs.flatMap fun g => g.2.map fun p => (g.1, p)

end Chewing.TrieWalk
