import Chewing.Model.Basic
import Chewing.Model.Syllable
/-!
Model of `src/dictionary/uhash.rs` — the readers of the legacy user-phrase store `uhash.dat`
(C12, C19).  File contents are `List Nat` (bytes); a Rust panic is `Outcome.panic`, an `io::Error`
is `Except.error ()`.

* `loadBin`  = `try_load_bin`  : signature `CBiH`, 4 bytes of lifetime (`size_of::<c_int>() = 4`),
  then 125-byte records; integers are native endian = little endian on the platform the check
  runs on.  Every slice / index expression of the Rust code goes through `idx` / `slice`, which
  panic exactly when Rust does.
* `loadText` = `try_load_text` : `BufRead::lines`, `split_ascii_whitespace`, `str::parse`.
* `recBinOrig` is the record decoder of the *unrepaired* snapshot (before the `fix:` commits for
  F14/F15/F39), kept to state the refutation witnesses (its syllable conversion is the current one).
* A syllable field goes through `Syllable::try_from(u16)` (`syl_u16.try_into().or(Err(invalid_data()))?`):
  since the repair of C13's F47 that is `Chewing.validCode` — zero AND every value outside the ranges of
  the four component fields make the whole load fail with `InvalidData` (before: zero only).
-/
namespace Chewing.Uhash

/-- one imported record: key syllables, phrase (UTF-8 bytes), user frequency, recent time -/
structure Rec where
  syls : List Nat
  phrase : List Nat
  freq : Nat
  time : Nat
deriving Repr, DecidableEq, BEq, Inhabited

def binFieldSize : Nat := 125
def binSig : List Nat := [0x43, 0x42, 0x69, 0x48]     -- "CBiH"
def cIntSize : Nat := 4

/-- `buf[i]` -/
def idx (buf : List Nat) (i : Nat) : Outcome Nat :=
  match buf[i]? with
  | some v => .ok v
  | none => .panic "uhash:index-out-of-bounds"

/-- `&buf[a..b]` -/
def slice (buf : List Nat) (a b : Nat) : Outcome (List Nat) :=
  if a ≤ b ∧ b ≤ buf.length then .ok ((buf.drop a).take (b - a)) else .panic "uhash:slice-out-of-range"

/-- little-endian value of a byte list -/
def leVal : List Nat → Nat
  | [] => 0
  | b :: rest => b + 256 * leVal rest

/-- `i32::from_ne_bytes(buf[o..o+4])` as (negative?, value as u32) -/
def i32At (buf : List Nat) (o : Nat) : Outcome (Bool × Nat) :=
  match slice buf o (o + 4) with
  | .ok bs => .ok (decide (bs.getD 3 0 ≥ 128), leVal bs)
  | .panic s => .panic s
  | .outOfFuel => .outOfFuel

/-! ### UTF-8 (what `str::from_utf8` accepts: Unicode Table 3-7) -/

def isCont (b : Nat) : Bool := 0x80 ≤ b && b ≤ 0xBF

/-- one step of the UTF-8 acceptor.  States: 0 = between characters; 1, 2, 3 = that many
    continuation bytes still expected; 4 = after `E0` (next `A0..BF`), 5 = after `ED` (next `80..9F`),
    6 = after `F0` (next `90..BF`), 7 = after `F4` (next `80..8F`); `none` = rejected -/
def utf8Step (st : Option Nat) (b : Nat) : Option Nat :=
  match st with
  | none => none
  | some 0 =>
    if b < 0x80 then some 0
    else if 0xC2 ≤ b && b ≤ 0xDF then some 1
    else if b == 0xE0 then some 4
    else if b == 0xED then some 5
    else if 0xE1 ≤ b && b ≤ 0xEF then some 2
    else if b == 0xF0 then some 6
    else if b == 0xF4 then some 7
    else if 0xF1 ≤ b && b ≤ 0xF3 then some 3
    else none
  | some 1 => if isCont b then some 0 else none
  | some 2 => if isCont b then some 1 else none
  | some 3 => if isCont b then some 2 else none
  | some 4 => if 0xA0 ≤ b && b ≤ 0xBF then some 1 else none
  | some 5 => if 0x80 ≤ b && b ≤ 0x9F then some 1 else none
  | some 6 => if 0x90 ≤ b && b ≤ 0xBF then some 2 else none
  | some 7 => if 0x80 ≤ b && b ≤ 0x8F then some 2 else none
  | some _ => none

def validUtf8 (l : List Nat) : Bool := l.foldl utf8Step (some 0) == some 0

/-- `s.chars().count()` of valid UTF-8 -/
def charCount (bs : List Nat) : Nat := (bs.filter (fun b => !isCont b)).length

/-! ### Binary format -/

/-- result of decoding one 125-byte record -/
inductive RecRes where
  | skip                 -- `continue`
  | fail                 -- `return Err(invalid_data())` (a value `Syllable::try_from` rejects)
  | item (r : Rec)
deriving Repr, DecidableEq, BEq

/-- the `for _ in 0..len` loop: syllables at `base, base+2, …`; `none` = a value that is not a syllable
    (`Syllable::try_from` fails: zero or out of range) -/
def readSyls (buf : List Nat) : Nat → Nat → Outcome (Option (List Nat))
  | 0, _ => .ok (some [])
  | n + 1, base =>
    match slice buf base (base + 2) with
    | .ok bs =>
      let v := leVal bs
      if !validCode v then .ok none
      else
        match readSyls buf n (base + 2) with
        | .ok (some rest) => .ok (some (v :: rest))
        | other => other
    | .panic s => .panic s
    | .outOfFuel => .outOfFuel

/-- body of the record loop of `try_load_bin` (repaired code) -/
def recBin (buf : List Nat) : Outcome RecRes := do
  let (n0, userFreq) ← i32At buf 0
  let (n1, recentTime) ← i32At buf 4
  let (n2, _) ← i32At buf 8
  let (n3, _) ← i32At buf 12
  if n0 || n1 || n2 || n3 then return .skip
  let len ← idx buf 16
  if 17 + 2 * len + 1 ≥ binFieldSize then return .skip           -- fix F14
  let nbytes ← idx buf (17 + 2 * len)
  if len == 0 || nbytes == 0 then return .skip                   -- fix F39
  let first ← idx buf (17 + 2 * len + 1)
  if first == 0 then return .skip
  match ← readSyls buf len 17 with
  | none => return .fail
  | some syls =>
    let base := 17 + 2 * len
    let bytes ← idx buf base
    if base + bytes + 1 > binFieldSize then return .skip          -- fix F15
    let ph ← slice buf (base + 1) (base + bytes + 1)
    if !validUtf8 ph then return .skip
    return .item { syls := syls, phrase := ph, freq := userFreq, time := recentTime }

/-- the same loop body in the unrepaired snapshot (no bounds checks, no empty-record check) -/
def recBinOrig (buf : List Nat) : Outcome RecRes := do
  let (n0, userFreq) ← i32At buf 0
  let (n1, recentTime) ← i32At buf 4
  let (n2, _) ← i32At buf 8
  let (n3, _) ← i32At buf 12
  if n0 || n1 || n2 || n3 then return .skip
  let len ← idx buf 16
  let first ← idx buf (17 + 2 * len + 1)
  if first == 0 then return .skip
  match ← readSyls buf len 17 with
  | none => return .fail
  | some syls =>
    let base := 17 + 2 * len
    let bytes ← idx buf base
    let ph ← slice buf (base + 1) (base + bytes + 1)
    if !validUtf8 ph then return .skip
    return .item { syls := syls, phrase := ph, freq := userFreq, time := recentTime }

/-- the record loop: `read_exact` of 125 bytes fails on a short tail -> `break` -/
def binLoop (recf : List Nat → Outcome RecRes) : Nat → List Nat → Outcome (Except Unit (List Rec))
  | 0, _ => .outOfFuel
  | fuel + 1, rest =>
    if rest.length < binFieldSize then .ok (.ok [])
    else
      match recf (rest.take binFieldSize) with
      | .ok .skip => binLoop recf fuel (rest.drop binFieldSize)
      | .ok .fail => .ok (.error ())
      | .ok (.item r) =>
        match binLoop recf fuel (rest.drop binFieldSize) with
        | .ok (.ok rs) => .ok (.ok (r :: rs))
        | other => other
      | .panic s => .panic s
      | .outOfFuel => .outOfFuel

/-- `try_load_bin` with an arbitrary record decoder; the loop is given `|b| + 1` iterations of
    fuel (`binLoop_fuel` shows this is never exhausted) -/
def loadBinWith (recf : List Nat → Outcome RecRes) (b : List Nat) : Outcome (Except Unit (List Rec)) :=
  if b.length < 4 then .ok (.error ())
  else if b.take 4 != binSig then .ok (.error ())
  else if (b.drop 4).length < cIntSize then .ok (.error ())
  else binLoop recf (b.length + 1) (b.drop (4 + cIntSize))

def loadBin (b : List Nat) : Outcome (Except Unit (List Rec)) := loadBinWith recBin b
def loadBinOrig (b : List Nat) : Outcome (Except Unit (List Rec)) := loadBinWith recBinOrig b

/-! ### Text format -/

/-- `BufRead::lines`: pieces terminated by `\n` (the terminator and one preceding `\r` removed),
    plus a final unterminated piece if non-empty -/
def linesAux : List Nat → List Nat → List (List Nat)
  | [], cur => if cur.isEmpty then [] else [cur.reverse]
  | b :: rest, cur =>
    if b == 10 then
      (match cur with
       | 13 :: c => c.reverse
       | c => c.reverse) :: linesAux rest []
    else linesAux rest (b :: cur)

def lines (b : List Nat) : List (List Nat) := linesAux b []

def isAsciiWs (b : Nat) : Bool := b == 32 || b == 9 || b == 10 || b == 12 || b == 13

/-- `str::split_ascii_whitespace` -/
def splitWsAux : List Nat → List Nat → List (List Nat)
  | [], cur => if cur.isEmpty then [] else [cur.reverse]
  | b :: rest, cur =>
    if isAsciiWs b then
      if cur.isEmpty then splitWsAux rest [] else cur.reverse :: splitWsAux rest []
    else splitWsAux rest (b :: cur)

def splitWs (l : List Nat) : List (List Nat) := splitWsAux l []

def isDigit (b : Nat) : Bool := 48 ≤ b && b ≤ 57

def digitsVal (ds : List Nat) : Nat := ds.foldl (fun acc d => acc * 10 + (d - 48)) 0

/-- `str::parse::<uN>()` with `max = 2^N - 1`: optional `+`, at least one digit, digits only -/
def parseUnsigned (max : Nat) (tok : List Nat) : Option Nat :=
  let ds := match tok with
    | 43 :: r => r
    | t => t
  if ds.isEmpty || !ds.all isDigit then none
  else
    let v := digitsVal ds
    if v ≤ max then some v else none

/-- `str::parse::<i64>()` accepted? (the value is discarded) -/
def parseI64Ok (tok : List Nat) : Bool :=
  match tok with
  | 43 :: r => !r.isEmpty && r.all isDigit && decide (digitsVal r ≤ 2 ^ 63 - 1)
  | 45 :: r => !r.isEmpty && r.all isDigit && decide (digitsVal r ≤ 2 ^ 63)
  | t => !t.isEmpty && t.all isDigit && decide (digitsVal t ≤ 2 ^ 63 - 1)

def u16Max : Nat := 65535
def u32Max : Nat := 4294967295
def u64Max : Nat := 18446744073709551615

/-- `n_chars` syllable columns, each a `u16` that `Syllable::try_from` accepts -/
def textSyls : Nat → List (List Nat) → Option (List Nat × List (List Nat))
  | 0, cols => some ([], cols)
  | n + 1, cols =>
    match cols with
    | [] => none
    | c :: rest =>
      match parseUnsigned u16Max c with
      | none => none
      | some v =>
        if !validCode v then none
        else
          match textSyls n rest with
          | none => none
          | some (ss, rest') => some (v :: ss, rest')

/-- one record line; `none` = `Err(invalid_data())` -/
def textLine (line : List Nat) : Option Rec :=
  if !validUtf8 line then none
  else
    match splitWs line with
    | [] => none
    | phrase :: cols =>
      match textSyls (charCount phrase) cols with
      | none => none
      | some (syls, rest) =>
        match rest with
        | f :: t :: m :: o :: _ =>
          match parseUnsigned u32Max f, parseUnsigned u64Max t, parseUnsigned u32Max m, parseUnsigned u32Max o with
          | some f, some t, some _, some _ => some { syls := syls, phrase := phrase, freq := f, time := t }
          | _, _, _, _ => none
        | _ => none

def textLines : List (List Nat) → Option (List Rec)
  | [] => some []
  | l :: rest =>
    match textLine l with
    | none => none
    | some r =>
      match textLines rest with
      | none => none
      | some rs => some (r :: rs)

/-- header check of the repaired code: the lifetime is parsed as `i64` -/
def lifetimeOk (l : List Nat) : Bool := validUtf8 l && parseI64Ok l
/-- header check of the unrepaired snapshot: `c_ushort` (F26) -/
def lifetimeOkOrig (l : List Nat) : Bool := validUtf8 l && (parseUnsigned u16Max l).isSome

def loadTextWith (hdr : List Nat → Bool) (b : List Nat) : Outcome (Except Unit (List Rec)) :=
  match lines b with
  | [] => .ok (.error ())
  | first :: rest =>
    if !hdr first then .ok (.error ())
    else
      match textLines rest with
      | none => .ok (.error ())
      | some rs => .ok (.ok rs)

def loadText (b : List Nat) : Outcome (Except Unit (List Rec)) := loadTextWith lifetimeOk b
def loadTextOrig (b : List Nat) : Outcome (Except Unit (List Rec)) := loadTextWith lifetimeOkOrig b

/-- `try_load_bin(&input).or_else(|_| { input.rewind()?; try_load_text(&input) })` -/
def loadUhash (b : List Nat) : Outcome (Except Unit (List Rec)) :=
  match loadBin b with
  | .ok (.ok rs) => .ok (.ok rs)
  | .ok (.error _) => loadText b
  | .panic s => .panic s
  | .outOfFuel => .outOfFuel

def loadUhashOrig (b : List Nat) : Outcome (Except Unit (List Rec)) :=
  match loadBinOrig b with
  | .ok (.ok rs) => .ok (.ok rs)
  | .ok (.error _) => loadTextOrig b
  | .panic s => .panic s
  | .outOfFuel => .outOfFuel

end Chewing.Uhash
