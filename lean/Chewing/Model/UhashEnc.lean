import Chewing.Model.Uhash
/-!
The WRITER side of the legacy binary `uhash.dat`: what the legacy engine stored (C19).  Used by the
round-trip theorem `loadUhash (encodeBin lifetime rs) = liveRecs rs` (`Proofs/UhashBin.lean`) and
compared with the harness generator's own encoder on every generated store (`loader encbin`).
-/
namespace Chewing.Uhash

/-! ### a stored record of the legacy hash file -/

/-- a record as the legacy engine stored it: key, phrase bytes, the four 32-bit fields
    (userfreq, recentTime, maxfreq, origfreq; raw `u32` images — a value ≥ 2^31 is a negative `int`)
    and the "removed" mark (first phrase byte overwritten by NUL) -/
structure GRec where
  syls : List Nat
  phrase : List Nat
  fields : List Nat
  deleted : Bool
deriving Repr, DecidableEq

def le16 (s : Nat) : List Nat := [s % 256, s / 256]
def le32 (x : Nat) : List Nat := [x % 256, x / 256 % 256, x / 65536 % 256, x / 16777216 % 256]

/-- 1..11 syllables (16-bit codes `Syllable::try_from` accepts — `validCode`; a stored value that is not a syllable
    makes the importer reject the whole file), a non-empty valid UTF-8 phrase that fits the record
    and does not start with NUL, four 32-bit fields -/
def GRec.Valid (g : GRec) : Prop :=
  1 ≤ g.syls.length ∧ g.syls.length ≤ 11 ∧ (∀ s ∈ g.syls, validCode s = true ∧ s < 65536) ∧
  g.phrase ≠ [] ∧ g.phrase.head? ≠ some 0 ∧ (∀ b ∈ g.phrase, b < 256) ∧ validUtf8 g.phrase = true ∧
  17 + 2 * g.syls.length + 1 + g.phrase.length ≤ binFieldSize ∧
  g.fields.length = 4 ∧ (∀ x ∈ g.fields, x < 4294967296)

instance (g : GRec) : Decidable g.Valid := by unfold GRec.Valid; exact inferInstance

def GRec.live (g : GRec) : Bool := !g.deleted && g.fields.all (· < 2147483648)

def GRec.toRec (g : GRec) : Rec :=
  { syls := g.syls, phrase := g.phrase, freq := g.fields.getD 0 0, time := g.fields.getD 1 0 }

def liveRecs (rs : List GRec) : List Rec := (rs.filter GRec.live).map GRec.toRec

/-- the 125-byte record -/
def encRec (g : GRec) : List Nat :=
  let body := g.fields.flatMap le32 ++ [g.syls.length] ++ g.syls.flatMap le16 ++ [g.phrase.length] ++
    (if g.deleted then 0 :: g.phrase.tail else g.phrase)
  body ++ List.replicate (binFieldSize - body.length) 0

/-- the file: signature, 4 bytes of lifetime, the records -/
def encodeBin (lifetime : List Nat) (rs : List GRec) : List Nat := binSig ++ lifetime ++ rs.flatMap encRec

end Chewing.Uhash
