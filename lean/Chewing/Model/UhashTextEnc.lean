import Chewing.Model.UhashEnc
/-!
The WRITER side of the legacy TEXT `uhash.dat` (C19): the grammar of the repository fixture
`tests/data/golden-uhash-text.dat` = `"6\n策試 10268 8708 9999 6 9999 9231\n"`, which is what the harness
generator `enc_text` (`harness/src/bin/legacy.rs`) writes:

    format!("{}\n", lifetime)                                   -- i64 decimal: '-' for negatives, no '+', no leading zero
    for every LIVE record:  phrase bytes, " {u16}" per syllable, " {f0} {f1} {f2} {f3}\n"

The text format has no "removed" mark and cannot hold a negative field (the reader parses `u32`/`u64`, a `-` rejects the
whole file), so only live records (`GRec.live`: not removed, all four fields < 2^31) are written; their field values are
the raw `u32` images = the `i32` values.  Used by `loadUhash_encodeText` (`Proofs/UhashText.lean`) and compared byte for
byte with the generator's encoder on every generated text store (`loader enctext`).
-/
namespace Chewing.Uhash

/-! ### decimal printing (`{}` of an unsigned / signed integer) -/

/-- decimal digits (ASCII) of `n`, most significant first; at most `fuel` digits are produced (fuel recursion so
    that the kernel and `decide` evaluate it) -/
def natToDigitsFuel : Nat → Nat → List Nat
  | 0, _ => [48]
  | fuel + 1, n => if n < 10 then [48 + n] else natToDigitsFuel fuel (n / 10) ++ [48 + n % 10]

/-- `format!("{}", n)`: "0" for 0, no leading zero -/
def natToDigits (n : Nat) : List Nat := natToDigitsFuel (n + 1) n

/-- `format!("{}", z)` of a signed integer: `-` (45) prefix for negatives, no `+` -/
def intToDigits : Int → List Nat
  | .ofNat n => natToDigits n
  | .negSucc n => 45 :: natToDigits (n + 1)

/-! ### records and the file -/

/-- one record line without its terminator: phrase, `" {}"` per syllable, `" {}"` per field -/
def encTextLine (g : GRec) : List Nat :=
  g.phrase ++ (g.syls.flatMap (fun s => 32 :: natToDigits s) ++ g.fields.flatMap (fun x => 32 :: natToDigits x))

/-- the file `enc_text` writes: header line, then one line per LIVE record, every line `\n`-terminated -/
def encodeText (lifetime : Int) (rs : List GRec) : List Nat :=
  intToDigits lifetime ++ 10 :: (rs.filter GRec.live).flatMap (fun g => encTextLine g ++ [10])

/-- line terminator: `\n` or `\r\n` -/
def eol (crlf : Bool) : List Nat := if crlf then [13, 10] else [10]

/-- variations the reader also accepts: `\r\n` line ends (also after the header) and `pad` trailing blanks after
    every record line (never after the header: `str::parse::<i64>` does not trim) -/
def encodeTextWith (crlf : Bool) (pad : Nat) (lifetime : Int) (rs : List GRec) : List Nat :=
  intToDigits lifetime ++ (eol crlf ++
    (rs.filter GRec.live).flatMap (fun g => encTextLine g ++ (List.replicate pad 32 ++ eol crlf)))

/-- what the TEXT format can express (and the reader reads back): 1..11 syllables that `Syllable::try_from` accepts, a
    valid UTF-8 phrase with EXACTLY one character per syllable (the reader derives the number of syllable columns from
    the phrase's character count) and WITHOUT an ASCII white-space byte (9, 10, 12, 13, 32: the column separator), four
    32-bit fields.  No 125-byte fit is required.  (`loadUhash_encodeText` uses neither `≤ 11` nor `b < 256`.) -/
def GRec.TextValid (g : GRec) : Prop :=
  1 ≤ g.syls.length ∧ g.syls.length ≤ 11 ∧ (∀ s ∈ g.syls, validCode s = true ∧ s < 65536) ∧
  (∀ b ∈ g.phrase, b < 256) ∧ validUtf8 g.phrase = true ∧ charCount g.phrase = g.syls.length ∧
  (∀ b ∈ g.phrase, isAsciiWs b = false) ∧
  g.fields.length = 4 ∧ (∀ x ∈ g.fields, x < 4294967296)

instance (g : GRec) : Decidable g.TextValid := by unfold GRec.TextValid; exact inferInstance

end Chewing.Uhash
