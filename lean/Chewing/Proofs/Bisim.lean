/-!
# Lifting an exhaustive transition comparison to all input lists

Two deterministic machines over the same observable state (`step : σ → ι → Option (ο × σ)`, `none` = panic)
that agree on every transition out of a set of states which contains the initial state and is closed under
the FIRST machine's steps produce equal runs on every input list (over the compared input alphabet).
The premise is exactly what an exhaustive BFS correspondence run establishes (first machine = the
implementation explored through `clone()`, second = the model; the set = the visited states; closure = the
work list ran empty; agreement = zero DIFF lines).
-/
namespace Chewing

/-- run a machine from `s` over a list of inputs: (output, state after) per step; `none` = a step panics -/
def runM {σ ι ο : Type} (step : σ → ι → Option (ο × σ)) : σ → List ι → Option (List (ο × σ))
  | _, [] => some []
  | s, i :: is =>
    match step s i with
    | none => none
    | some (o, s') => (runM step s' is).map fun tr => (o, s') :: tr

theorem bisim_lift {σ ι ο : Type} (f g : σ → ι → Option (ο × σ)) (S : σ → Prop) (I : ι → Prop)
    (hclosed : ∀ s i o s', S s → I i → f s i = some (o, s') → S s')
    (hagree : ∀ s i, S s → I i → f s i = g s i) :
    ∀ (is : List ι) (s : σ), S s → (∀ i ∈ is, I i) → runM f s is = runM g s is := by
  intro is
  induction is with
  | nil => intro s _ _; rfl
  | cons i is ih =>
    intro s hs hI
    have hi : I i := hI i (List.mem_cons_self ..)
    have hI' : ∀ j ∈ is, I j := fun j hj => hI j (List.mem_cons_of_mem _ hj)
    unfold runM
    rw [← hagree s i hs hi]
    cases hf : f s i with
    | none => rfl
    | some p =>
      obtain ⟨o, s'⟩ := p
      simp only
      rw [ih s' (hclosed s i o s' hs hi hf) hI']

/-- every state a run goes through lies in the closed set -/
theorem runM_states {σ ι ο : Type} (f : σ → ι → Option (ο × σ)) (S : σ → Prop) (I : ι → Prop)
    (hclosed : ∀ s i o s', S s → I i → f s i = some (o, s') → S s') :
    ∀ (is : List ι) (s : σ) (tr : List (ο × σ)), S s → (∀ i ∈ is, I i) → runM f s is = some tr →
      ∀ x ∈ tr, S x.2 := by
  intro is
  induction is with
  | nil => intro s tr _ _ h x hx; simp [runM] at h; subst h; cases hx
  | cons i is ih =>
    intro s tr hs hI h x hx
    have hi : I i := hI i (List.mem_cons_self ..)
    have hI' : ∀ j ∈ is, I j := fun j hj => hI j (List.mem_cons_of_mem _ hj)
    unfold runM at h
    cases hf : f s i with
    | none => simp [hf] at h
    | some p =>
      obtain ⟨o, s'⟩ := p
      simp only [hf] at h
      have hs' := hclosed s i o s' hs hi hf
      cases hr : runM f s' is with
      | none => simp [hr] at h
      | some tr' =>
        simp [hr] at h
        subst h
        rcases List.mem_cons.mp hx with rfl | hx'
        · exact hs'
        · exact ih s' tr' hs' hI' hr x hx'

end Chewing
