import Chewing.Proofs.Enum
/-! Bit-mask identities on 16-bit values, each checked by the kernel on all 65536 values. -/
namespace Chewing

theorem and_511_tbl : all16 (fun c => Nat.beq (c &&& 511) (c % 512)) = true := by decide +kernel
theorem and_511 {c : Nat} (hc : c < 65536) : c &&& 511 = c % 512 :=
  Nat.eq_of_beq_eq_true (all16_spec and_511_tbl hc)

theorem and_65151_tbl : all16 (fun c => Nat.beq (c &&& 65151) (c - (c / 128 % 4) * 128)) = true := by decide +kernel
theorem and_65151 {c : Nat} (hc : c < 65536) : c &&& 65151 = c - (c / 128 % 4) * 128 :=
  Nat.eq_of_beq_eq_true (all16_spec and_65151_tbl hc)

theorem and_65415_tbl : all16 (fun c => Nat.beq (c &&& 65415) (c - (c / 8 % 16) * 8)) = true := by decide +kernel
theorem and_65415 {c : Nat} (hc : c < 65536) : c &&& 65415 = c - (c / 8 % 16) * 8 :=
  Nat.eq_of_beq_eq_true (all16_spec and_65415_tbl hc)

theorem and_65528_tbl : all16 (fun c => Nat.beq (c &&& 65528) (c - c % 8)) = true := by decide +kernel
theorem and_65528 {c : Nat} (hc : c < 65536) : c &&& 65528 = c - c % 8 :=
  Nat.eq_of_beq_eq_true (all16_spec and_65528_tbl hc)

end Chewing
