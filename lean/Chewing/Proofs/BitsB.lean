import Chewing.Proofs.Enum
/-! Bit-mask identities on 16-bit values, each checked by the kernel on all 65536 values. -/
namespace Chewing

theorem and_32383_tbl : all16 (fun c => Nat.beq (c &&& 32383) (c % 32768 - (c / 128 % 4) * 128)) = true := by decide +kernel
theorem and_32383 {c : Nat} (hc : c < 65536) : c &&& 32383 = c % 32768 - (c / 128 % 4) * 128 :=
  Nat.eq_of_beq_eq_true (all16_spec and_32383_tbl hc)

theorem and_32647_tbl : all16 (fun c => Nat.beq (c &&& 32647) (c % 32768 - (c / 8 % 16) * 8)) = true := by decide +kernel
theorem and_32647 {c : Nat} (hc : c < 65536) : c &&& 32647 = c % 32768 - (c / 8 % 16) * 8 :=
  Nat.eq_of_beq_eq_true (all16_spec and_32647_tbl hc)

theorem and_32760_tbl : all16 (fun c => Nat.beq (c &&& 32760) (c % 32768 - c % 8)) = true := by decide +kernel
theorem and_32760 {c : Nat} (hc : c < 65536) : c &&& 32760 = c % 32768 - c % 8 :=
  Nat.eq_of_beq_eq_true (all16_spec and_32760_tbl hc)

theorem and_32256_tbl : all16 (fun c => Nat.beq (c &&& 32256) ((c / 512 % 64) * 512)) = true := by decide +kernel
theorem and_32256 {c : Nat} (hc : c < 65536) : c &&& 32256 = (c / 512 % 64) * 512 :=
  Nat.eq_of_beq_eq_true (all16_spec and_32256_tbl hc)

end Chewing
