import Chewing.Proofs.Enum
/-! Bit-mask identities on 16-bit values, each checked by the kernel on all 65536 values. -/
namespace Chewing

theorem and_384_tbl : all16 (fun c => Nat.beq (c &&& 384) ((c / 128 % 4) * 128)) = true := by decide +kernel
theorem and_384 {c : Nat} (hc : c < 65536) : c &&& 384 = (c / 128 % 4) * 128 :=
  Nat.eq_of_beq_eq_true (all16_spec and_384_tbl hc)

theorem and_120_tbl : all16 (fun c => Nat.beq (c &&& 120) ((c / 8 % 16) * 8)) = true := by decide +kernel
theorem and_120 {c : Nat} (hc : c < 65536) : c &&& 120 = (c / 8 % 16) * 8 :=
  Nat.eq_of_beq_eq_true (all16_spec and_120_tbl hc)

theorem and_7_tbl : all16 (fun c => Nat.beq (c &&& 7) (c % 8)) = true := by decide +kernel
theorem and_7 {c : Nat} (hc : c < 65536) : c &&& 7 = c % 8 :=
  Nat.eq_of_beq_eq_true (all16_spec and_7_tbl hc)

end Chewing
