import Chewing.Proofs.Enum
/-! Bit-mask identity on 16-bit values for the empty-marker bit, checked by the kernel on all 65536 values. -/
namespace Chewing

theorem and_32768_tbl : all16 (fun c => Nat.beq (c &&& 32768) ((c / 32768) * 32768)) = true := by decide +kernel
theorem and_32768 {c : Nat} (hc : c < 65536) : c &&& 32768 = (c / 32768) * 32768 :=
  Nat.eq_of_beq_eq_true (all16_spec and_32768_tbl hc)

end Chewing
