import Chewing.Proofs.C01Jump
/-!
C01, part 9: one public operation of the editor (`Editor.apply`): returns and re-establishes `EditorInv`.
-/
namespace Chewing.C01
open Chewing Chewing.C04 Chewing.C05 Chewing.C06

variable {D L : Type} {env : Env D L} {G : D → Prop} {w : Prop}

theorem select_tail_ok (hE : EnvOK env G) {sh : Shared D L} {st : St} (h : ShInv env G w sh) (hs : StInv env w sh st) :
    OkAnd (fun x => EditorInv env G w x.1)
      (match (if (st == .entering || st == .enteringSyllable) && sh.last == .absorb then Shared.tryAutoCommit env sh else .ok sh) with
        | .ok sh => (.ok ({ shared := sh, state := st }, sh.last != .bell) : Outcome (Editor D L × Bool))
        | .panic p => .panic p
        | .outOfFuel => .outOfFuel) := by
  by_cases hc : ((st == .entering || st == .enteringSyllable) && sh.last == .absorb) = true
  · rw [if_pos hc]
    obtain ⟨sh2, hq, hi2, _⟩ := tryAutoCommit_ok hE h
    rw [hq]
    have hst : st = .entering ∨ st = .enteringSyllable := by
      simp only [Bool.and_eq_true, Bool.or_eq_true] at hc
      exact hc.1.imp eq_of_beq eq_of_beq
    rcases hst with rfl | rfl <;> exact .ok ⟨hi2, trivial⟩
  · rw [if_neg hc]
    exact .ok ⟨h, hs⟩

theorem select_api_ok (hE : EnvOK env G) {e : Editor D L} (hi : EditorInv env G w e) (n : Nat) : OkAnd (fun x => EditorInv env G w x.1) (e.select env n) := by
  unfold Editor.select
  split
  · next s hst =>
    have hs : SelInv env w e.shared s := by have := hi.st; rw [hst] at this; exact this
    obtain ⟨⟨s', sh', t⟩, hq, h1, h2, h3⟩ := select_ok hE hi.sh hs n
    rw [hq]
    cases t with
    | toState st =>
      exact select_tail_ok hE (sh := { sh' with last := .absorb }) (st := st) (h1.congr rfl rfl rfl rfl rfl rfl)
        ((h3 st rfl).same rfl rfl)
    | spin b =>
      exact select_tail_ok hE (sh := { sh' with last := b }) (st := .selecting s') (h1.congr rfl rfl rfl rfl rfl rfl)
        (StInv.same (st := .selecting s') (h2 b rfl) rfl rfl)
  · exact .ok hi

/-- `Editor::revalidate_selecting` (F32 repair, the last step of the option / layout / dictionary calls):
    under the invariant `total_page()` answers, and clamping the page / closing an empty list keeps the invariant -/
theorem revalidate_ok (hE : EnvOK env G) {e : Editor D L} (hi : EditorInv env G w e) :
    OkAnd (EditorInv env G w) (e.revalidate env) := by
  unfold Editor.revalidate
  split
  · next s hst =>
    have hs : SelInv env w e.shared s := by have := hi.st; rw [hst] at this; exact this
    obtain ⟨tp, hq, _⟩ := totalPage_ok hE hi.sh hs
    rw [hq]
    dsimp only
    split
    · exact .ok ⟨cancel_inv hi.sh, trivial⟩
    · split
      · exact .ok ⟨hi.sh, hs.page _⟩
      · exact .ok hi
  · exact .ok hi

/-- **one operation**: it returns (no panic, no exhausted fuel) and the invariant holds again -/
theorem apply_ok (hE : EnvOK env G) {e : Editor D L} (hi : EditorInv env G w e) (op : Op L) (hv : OpValid op)
    (hk : w → ¬ Known env e op) : OkAnd (EditorInv env G w) (e.apply env op) := by
  cases op with
  | key ev =>
    have hpk : OkAnd (fun x => EditorInv env G w x.1) (e.processKey env ev) := by
      cases hst : e.state with
      | selecting s =>
        exact processKey_selecting_of hE hst ev (selectingNext_ok hE (preamble_inv hi.sh) (selInv_preamble hi hst) ev)
      | entering => exact processKey_ok hE hi (fun s hs => by rw [hst] at hs; cases hs) ev
      | enteringSyllable => exact processKey_ok hE hi (fun s hs => by rw [hst] at hs; cases hs) ev
      | highlighting m => exact processKey_ok hE hi (fun s hs => by rw [hst] at hs; cases hs) ev
    obtain ⟨⟨e', b⟩, hq, h1⟩ := hpk
    simp only [Editor.apply]; rw [hq]; exact .ok h1
  | select n =>
    obtain ⟨⟨e', b⟩, hq, h1⟩ := select_api_ok hE hi n
    simp only [Editor.apply]; rw [hq]; exact .ok h1
  | startSelecting =>
    obtain ⟨⟨e', b⟩, hq, h1⟩ := startSelecting_api_ok hE hi
    simp only [Editor.apply]; rw [hq]; exact .ok h1
  | cancelSelecting => exact .ok (cancelSelecting_api_ok hi)
  | commit =>
    obtain ⟨⟨e', b⟩, hq, h1⟩ := commit_api_ok hE hi
    simp only [Editor.apply]; rw [hq]; exact .ok h1
  | clear => exact .ok (clear_api_ok hi)
  | ack => exact .ok ⟨hi.sh.congr rfl rfl rfl rfl rfl rfl, hi.st.same rfl rfl⟩
  | clearSyl =>
    exact .ok (leaveIfEmpty_inv ⟨hi.sh.congr rfl rfl rfl rfl rfl rfl, hi.st.same rfl rfl⟩)
  | setOptions o =>
    have hk : w → _ := fun hw => Classical.not_not.mp (hk hw)
    refine revalidate_ok hE (leaveIfEmpty_inv ?_)
    have hsh : ∀ sh1 : Shared D L, sh1.dict = e.shared.dict → sh1.com = e.shared.com → sh1.engine = e.shared.engine →
        sh1.symSel = e.shared.symSel → ShInv env G w { sh1 with options := o } := by
      intro sh1 hd hcm he hsy
      refine ⟨hd ▸ hi.sh.good, hcm ▸ hi.sh.ced, ?_, ?_, hv, hsy ▸ hi.sh.symOK⟩
      · intro hw c hcc
        have hcc' : Sym.syl c ∈ e.shared.com.inner.symbols := by
          have : sh1.com.inner.symbols = e.shared.com.inner.symbols := by rw [hcm]
          exact this ▸ hcc
        show env.hasPhrase sh1.dict [c] (engStrategy sh1.engine) = true ∧ env.hasPhrase sh1.dict [c] o.lookupStrategy = true
        rw [hd, he]
        exact ⟨(hi.sh.word hw c hcc').1, (hk hw).1 c hcc'⟩
      · intro hw
        show o.lookupStrategy = .fuzzyPartialPrefix → engStrategy sh1.engine = .fuzzyPartialPrefix
        rw [he]; exact (hk hw).2
    by_cases hlm : (e.shared.options.languageMode != o.languageMode) = true
    · exact ⟨by rw [if_pos hlm]; exact hsh _ rfl rfl rfl rfl, by rw [if_pos hlm]; exact hi.st.same rfl rfl⟩
    · exact ⟨by rw [if_neg hlm]; exact hsh _ rfl rfl rfl rfl, by rw [if_neg hlm]; exact hi.st.same rfl rfl⟩
  | setLayout l =>
    exact revalidate_ok hE (leaveIfEmpty_inv ⟨hi.sh.congr rfl rfl rfl rfl rfl rfl, hi.st.same rfl rfl⟩)
  | setEngine k =>
    have hk : w → _ := fun hw => Classical.not_not.mp (hk hw)
    refine .ok ⟨⟨hi.sh.good, hi.sh.ced, ?_, (fun hw => (hk hw).2), hi.sh.perPage, hi.sh.symOK⟩, hi.st.same rfl rfl⟩
    intro hw c hcc
    exact ⟨(hk hw).1 c hcc, (hi.sh.word hw c hcc).2⟩
  | learn k p =>
    obtain ⟨⟨sh, b⟩, hq, h1, hkp⟩ := learnPhrase_ok hE hi.sh k p
    simp only [Editor.apply]
    rw [hq]
    exact revalidate_ok hE ⟨h1, hi.st.congr (by rw [hkp.com]) (by rw [hkp.com]) hkp.mono⟩
  | unlearn k p =>
    have hk : w → _ := fun hw => Classical.not_not.mp (hk hw)
    refine revalidate_ok hE ⟨⟨hE.remove_good _ _ _ hi.sh.good, hi.sh.ced, ?_, hi.sh.coupled, hi.sh.perPage, hi.sh.symOK⟩, ?_⟩
    · intro hw c hcc
      exact ⟨(hk hw).1 c hcc, (hk hw).2.1 c hcc⟩
    · exact stInv_unlearn hi (fun hw => (hk hw).2.2) rfl rfl
  | jump which =>
    obtain ⟨⟨e', b⟩, hq, h1⟩ := jump_api_ok hi which
    simp only [Editor.apply]; rw [hq]; exact .ok h1

end Chewing.C01
