import Chewing.Proofs.C01Shared
import Chewing.Props.C03
/-!
C01 ↔ C03: the conversion-engine model of C03 (`Conv.convert`, all three engines) satisfies the hypothesis
`EnvOK.convert_ok` that the C01 theorems make about `env.convert` — on buffers of at most 128 symbols and
dictionaries with frequencies up to 2^23 (`ScoreBound`, the `i32` score arithmetic of the debug profile).
-/
namespace Chewing.C01
open Chewing Chewing.Conv

/-- `EngineKind` of the editor model ↦ `Engine` of the conversion model -/
def toEngine : EngineKind → Engine
  | .simple => .simple
  | .chewing => .chewing
  | .fuzzy => .fuzzy

theorem toEngine_strategy (k : EngineKind) : (toEngine k).strategy = engStrategy k := by
  cases k <;> rfl

/-- **the engines of C03 deliver what `EnvOK.convert_ok` asks for** -/
theorem convert_ok_of_C03 {pick : Nat → List Path → Nat} (hp : PickInRange pick) {d : Dict} (hd : NoEmptyKey d)
    (hw : WellFormed d) (hf : ∀ strat key, ∀ p ∈ d.lookup key strat, p.freq ≤ 8388608)
    (k : EngineKind) {c : Composition} (hc : CompValid c) (hlen : c.symbols.length ≤ 128)
    (hword : ∀ x, Sym.syl x ∈ c.symbols → (d.lookup [x] (engStrategy k)).head?.isSome = true) :
    OkAnd (fun paths => paths ≠ [] ∧ ∀ p ∈ paths, PathOK c p) (Conv.convert pick (toEngine k) d c) := by
  have hhas : HasWord d (toEngine k).strategy c := by
    intro x hx
    rw [toEngine_strategy]
    have := hword x hx
    intro he
    rw [he] at this
    cases this
  have hsb : ScoreBound d (toEngine k).strategy c := ⟨hlen, hf _⟩
  obtain ⟨alts, hq, hne⟩ := C03.nonempty_result hp hc hd hhas hsb
  refine ⟨alts, hq, hne, ?_⟩
  intro p hpm
  refine ⟨C03.alt_chain hc hd hq p hpm, C03.one_char_per_symbol hc hd hw ?_ hq p hpm⟩
  intro hs
  have : (toEngine k).strategy = .standard := by rw [hs]; rfl
  rw [← this]
  exact hhas

end Chewing.C01
