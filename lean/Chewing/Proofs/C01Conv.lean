import Chewing.Proofs.C01Shared
import Chewing.Props.C03
/-!
C01 ↔ C03: the conversion-engine model of C03 (`Conv.convert`, all three engines) satisfies the hypothesis
`EnvOK.convert_ok` / `convert_len` that the C01 theorems make about `env.convert` — on buffers of at most 128 symbols and
dictionaries with frequencies up to 2^23 (`ScoreBound`, the `i32` score arithmetic of the debug profile).
-/
namespace Chewing.C01
open Chewing Chewing.Conv

/-- `EngineKind` of the editor model ↦ `Engine` of the conversion model -/
def toEngine : EngineKind → Engine
  | .simple => .simple
  | .chewing => .chewing
  | .fuzzy => .fuzzy

theorem toEngine_strategy (k : EngineKind) : (toEngine k).strategy = engStrategy k := by
  cases k <;> rfl

/-- **the engines of C03 deliver what `EnvOK.convert_ok` asks for**: on EVERY valid composition (with or
    without a word per syllable) at least one alternative, each a chain over `0..len` whose texts have at least
    one character per symbol — `hn`: no buffered syllable has the empty spelling (`spell 0 = []`; no keyboard
    layout produces the syllable code 0) -/
theorem convert_ok_of_C03 {pick : Nat → List Path → Nat} (hp : PickInRange pick) {d : Dict}
    (hw : WellFormed d) (hf : ∀ strat key, ∀ p ∈ d.lookup key strat, p.freq ≤ 8388608)
    (k : EngineKind) {c : Composition} (hc : CompValid c) (hlen : c.symbols.length ≤ 128) (hn : SpellNonempty c) :
    OkAnd (fun paths => paths ≠ [] ∧ ∀ p ∈ paths, PathW c p) (Conv.convert pick (toEngine k) d c) := by
  have hsb : ScoreBound d (toEngine k).strategy c := ⟨hlen, hf _⟩
  obtain ⟨alts, hq, hne⟩ := C03.nonempty_result hp hc hsb
  exact ⟨alts, hq, hne, fun p hpm =>
    ⟨C03.alt_chain hc hq p hpm, C03.text_at_least_one_per_symbol hc hw hn hq p hpm⟩⟩

/-- **… and `EnvOK.convert_len`**: exactly one character per symbol when every syllable has a word under the
    engine's strategy -/
theorem convert_len_of_C03 {pick : Nat → List Path → Nat} {d : Dict} (hw : WellFormed d)
    (k : EngineKind) {c : Composition} (hc : CompValid c)
    (hword : ∀ x, Sym.syl x ∈ c.symbols → (d.lookup [x] (engStrategy k)).head?.isSome = true)
    {paths : List (List Interval)} (hq : Conv.convert pick (toEngine k) d c = .ok paths) :
    ∀ p ∈ paths, ∀ iv ∈ p, iv.text.length = iv.stop - iv.start := by
  have hhas : HasWord d (toEngine k).strategy c := by
    intro x hx
    rw [toEngine_strategy]
    have := hword x hx
    intro he
    rw [he] at this
    cases this
  exact fun p hpm => C03.one_char_per_symbol hc hw hhas hq p hpm

end Chewing.C01
