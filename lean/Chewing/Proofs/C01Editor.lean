import Chewing.Proofs.C01Entering
import Chewing.Props.C06
/-!
C01, part 5: the editor level.  `process_keyevent` (preamble, the state's `next`, auto-commit, dictionary
flush) and the other public entry points re-establish `EditorInv` and never panic / run out of fuel —
for every key in the states `Entering`, `EnteringSyllable`, `Highlighting`, and for every entry point
that is not a key / `select` / `jump_*` under an open candidate list.
-/
namespace Chewing.C01
open Chewing Chewing.C04 Chewing.C05 Chewing.C06

variable {D L : Type} {env : Env D L} {G : D → Prop} {w : Prop}

/-- **the reachable-state invariant of the editor**, in two strengths (see `ShInv`): `EditorInv env G False`
    is the safety invariant every operation keeps, `EditorInv env G True` adds "every buffered syllable has a
    word under every active lookup strategy", kept outside the class `Known` -/
structure EditorInv (env : Env D L) (G : D → Prop) (w : Prop) (e : Editor D L) : Prop where
  sh : ShInv env G w e.shared
  st : StInv env w e.shared e.state

/-- `StInv` under a change of fields the selector invariant does not read -/
theorem StInv.same {sh sh' : Shared D L} {st : St} (h : StInv env w sh st) (hc : sh'.com = sh.com)
    (hd : sh'.dict = sh.dict) : StInv env w sh' st :=
  h.congr (by rw [hc]) (by rw [hc]) (fun c s hh => by rw [hd]; exact hh)

/-! ## `process_keyevent` -/

theorem tail_ok (hE : EnvOK env G) {sh : Shared D L} {st : St} (h : ShInv env G w sh) (hs : StInv env w sh st) :
    OkAnd (fun x => EditorInv env G w x.1) (tail env sh st) := by
  have key : ∀ sh2 : Shared D L, ShInv env G w sh2 → StInv env w sh2 st →
      EditorInv env G w { shared := if sh2.dirty > 0 then { sh2 with dict := env.reopenFlush sh2.dict, dirty := 0 } else sh2,
                            state := st } := by
    intro sh2 h2 hs2
    split
    · exact ⟨(h2.setDict (hE.flush_good _ h2.good) (hE.flush_mono _)).congr rfl rfl rfl rfl rfl rfl,
        hs2.congr rfl rfl (hE.flush_mono _)⟩
    · exact ⟨h2, hs2⟩
  unfold tail
  by_cases hc : ((st == .entering || st == .enteringSyllable) && sh.last == .absorb) = true
  · rw [if_pos hc]
    obtain ⟨sh2, hq, hi2, _⟩ := tryAutoCommit_ok hE h
    rw [hq]
    have hst : st = .entering ∨ st = .enteringSyllable := by
      simp only [Bool.and_eq_true, Bool.or_eq_true] at hc
      exact hc.1.imp eq_of_beq eq_of_beq
    rcases hst with rfl | rfl <;> exact .ok (key sh2 hi2 trivial)
  · rw [if_neg hc]
    exact .ok (key sh h hs)

theorem preamble_inv {sh : Shared D L} (h : ShInv env G w sh) : ShInv env G w (preamble sh) :=
  h.congr rfl rfl rfl rfl rfl rfl

theorem applyTrans_ok {sh : Shared D L} {st : St} {t : Trans} (h : ShInv env G w sh) (hs0 : StInv env w sh st)
    (hs : ∀ s, t = .toState s → StInv env w sh s) :
    ShInv env G w (applyTrans sh st t).1 ∧ StInv env w (applyTrans sh st t).1 (applyTrans sh st t).2 := by
  cases t with
  | toState s => exact ⟨h.congr rfl rfl rfl rfl rfl rfl, (hs s rfl).same rfl rfl⟩
  | spin b => exact ⟨h.congr rfl rfl rfl rfl rfl rfl, hs0.same rfl rfl⟩

/-- the state machine part of a key, outside an open candidate list -/
theorem dispatch_ok (hE : EnvOK env G) {e : Editor D L} (hi : EditorInv env G w e) (hns : ∀ s, e.state ≠ .selecting s)
    (ev : KeyEvent) : OkAnd (fun x => ShInv env G w x.1 ∧ StInv env w x.1 x.2) (dispatch env e ev) := by
  have h0 := preamble_inv hi.sh
  unfold dispatch
  split
  · obtain ⟨⟨sh', t⟩, hq, hsh, hst⟩ := enteringNext_ok hE h0 ev
    rw [hq]
    exact .ok (applyTrans_ok hsh trivial hst)
  · obtain ⟨⟨sh', t⟩, hq, hsh, hst⟩ := enteringSyllableNext_ok hE h0 ev
    rw [hq]
    exact .ok (applyTrans_ok hsh trivial hst)
  · next s hs => exact absurd hs (hns s)
  · next m _ =>
    obtain ⟨⟨sh', m', t⟩, hq, hsh, hst⟩ := highlightingNext_ok hE m h0 ev
    rw [hq]
    exact .ok (applyTrans_ok hsh trivial hst)

/-- **a key event** in `Entering`, `EnteringSyllable` or `Highlighting` -/
theorem processKey_ok (hE : EnvOK env G) {e : Editor D L} (hi : EditorInv env G w e) (hns : ∀ s, e.state ≠ .selecting s)
    (ev : KeyEvent) : OkAnd (fun x => EditorInv env G w x.1) (e.processKey env ev) := by
  rw [processKey_eq]
  obtain ⟨⟨sh, st⟩, hq, h1, h2⟩ := dispatch_ok hE hi hns ev
  rw [hq]
  exact tail_ok hE h1 h2

/-! ## the other entry points -/

theorem leaveIfEmpty_inv {e : Editor D L} (hi : EditorInv env G w e) : EditorInv env G w (Editor.leaveIfEmpty env e) := by
  unfold Editor.leaveIfEmpty
  split
  · exact ⟨hi.sh, trivial⟩
  · exact hi

theorem startSelecting_api_ok (hE : EnvOK env G) {e : Editor D L} (hi : EditorInv env G w e) :
    OkAnd (fun x => EditorInv env G w x.1) (e.startSelecting env) := by
  unfold Editor.startSelecting
  dsimp only
  have fin : ∀ (sh : Shared D L) (t : Trans), ShInv env G w sh → StInv env w sh e.state → (∀ s, t = .toState s → StInv env w sh s) →
      EditorInv env G w (Editor.leaveIfEmpty env { shared := (applyTrans sh e.state t).1, state := (applyTrans sh e.state t).2 }) :=
    fun sh t h1 h2 h3 => leaveIfEmpty_inv ⟨(applyTrans_ok h1 h2 h3).1, (applyTrans_ok h1 h2 h3).2⟩
  cases hst : e.state with
  | entering =>
    dsimp only
    obtain ⟨⟨sh, t⟩, hq, h1, h2⟩ := startSelecting_ok hi.sh
    rw [hq]
    have := fin sh t h1 (by rw [hst]; trivial) h2
    rw [hst] at this
    exact .ok this
  | enteringSyllable =>
    dsimp only
    obtain ⟨⟨sh, t⟩, hq, h1, h2⟩ := startSelecting_ok (sh := { e.shared with syl := env.clearSyl e.shared.syl })
      (hi.sh.congr rfl rfl rfl rfl rfl rfl)
    rw [hq]
    have := fin sh t h1 (by rw [hst]; trivial) h2
    rw [hst] at this
    exact .ok this
  | selecting s =>
    dsimp only
    have := fin e.shared (.spin .bell) hi.sh hi.st (fun s hs => by cases hs)
    rw [hst] at this
    exact .ok this
  | highlighting m =>
    dsimp only
    have := fin e.shared (.spin .bell) hi.sh hi.st (fun s hs => by cases hs)
    rw [hst] at this
    exact .ok this

theorem cancelSelecting_api_ok {e : Editor D L} (hi : EditorInv env G w e) : EditorInv env G w e.cancelSelecting.1 := by
  unfold Editor.cancelSelecting
  split
  · refine ⟨?_, trivial⟩
    exact (hi.sh.setComSame (ced_popCursor hi.sh.ced) (by rw [popCursor_inner])).congr rfl rfl rfl rfl rfl rfl
  · exact hi

theorem commit_api_ok (hE : EnvOK env G) {e : Editor D L} (hi : EditorInv env G w e) :
    OkAnd (fun x => EditorInv env G w x.1) (e.commit env) := by
  unfold Editor.commit
  split
  · exact .ok hi
  · next hc =>
    have hst : e.state = .entering := by
      simp only [Bool.or_eq_true, not_or, Bool.not_eq_true, bne_eq_false_iff_eq] at hc
      exact hc.1
    obtain ⟨sh, hq, h1, _⟩ := commit_ok hE hi.sh
    rw [hq]
    exact .ok ⟨h1, by show StInv env w sh e.state; rw [hst]; trivial⟩

theorem clear_api_ok {e : Editor D L} (hi : EditorInv env G w e) : EditorInv env G w (e.clear env) := by
  refine ⟨⟨hi.sh.good, ced_clear hi.sh.ced, ?_, hi.sh.coupled, hi.sh.perPage, hi.sh.symOK⟩, trivial⟩
  intro _ c hc
  simp [Editor.clear, Shared.clear, CompEditor.clear, Composition.clear] at hc

theorem learn_api_ok (hE : EnvOK env G) {e : Editor D L} (hi : EditorInv env G w e) (k : List Nat) (p : Text) :
    OkAnd (EditorInv env G w) ((Shared.learnPhrase env e.shared k p).map fun (sh, _) => { e with shared := sh }) := by
  obtain ⟨⟨sh, b⟩, hq, h1, hk⟩ := learnPhrase_ok hE hi.sh k p
  rw [hq]
  exact .ok ⟨h1, hi.st.congr (by rw [hk.com]) (by rw [hk.com]) hk.mono⟩

/-! ## findings: the operations that can leave the invariant (F02, F03) -/

/-- every buffered syllable has a word under strategy `s` in dictionary `d` -/
def WordsUnder (env : Env D L) (d : D) (c : Composition) (s : Strategy) : Prop :=
  ∀ k, Sym.syl k ∈ c.symbols → env.hasPhrase d [k] s = true

/-- the lookup strategy of an open phrase selector -/
def selStrategy : St → Option Strategy
  | .selecting s =>
    match s.sel with
    | .phrase p => some p.strategy
    | _ => none
  | _ => none

/-- **the word-losing operations (the former known class F02 / F03), state based** — no longer a crash class:
    since the repair every operation is safe from every reachable state (`apply_ok` at strength `False`); the
    predicate now only delimits where the clause "every buffered syllable has a word" (strength `True`) may be
    lost: after the operation some buffered syllable has no word
    under an active lookup strategy (the engine's, the editor's, an open selector's) — reachable only by
    removing a phrase or by changing the lookup strategy / engine — or prefix lookup is configured
    without the prefix-matching engine (possible through the Rust API only: the C API sets both) -/
def Known (env : Env D L) (e : Editor D L) : Op L → Prop
  | .unlearn k p =>
    ¬ (WordsUnder env (env.removePhrase e.shared.dict k p) e.shared.com.inner (engStrategy e.shared.engine) ∧
       WordsUnder env (env.removePhrase e.shared.dict k p) e.shared.com.inner e.shared.options.lookupStrategy ∧
       ∀ s, selStrategy e.state = some s → WordsUnder env (env.removePhrase e.shared.dict k p) e.shared.com.inner s)
  | .setOptions o =>
    ¬ (WordsUnder env e.shared.dict e.shared.com.inner o.lookupStrategy ∧
       (o.lookupStrategy = .fuzzyPartialPrefix → engStrategy e.shared.engine = .fuzzyPartialPrefix))
  | .setEngine k =>
    ¬ (WordsUnder env e.shared.dict e.shared.com.inner (engStrategy k) ∧
       (e.shared.options.lookupStrategy = .fuzzyPartialPrefix → engStrategy k = .fuzzyPartialPrefix))
  | _ => False

/-- arguments the C layer validates before they reach the editor (`candidates_per_page` in 1..10) -/
def OpValid : Op L → Prop
  | .setOptions o => 0 < o.candidatesPerPage
  | _ => True

theorem stInv_unlearn {e : Editor D L} (hi : EditorInv env G w e) {d : D}
    (hw : w → ∀ s, selStrategy e.state = some s → WordsUnder env d e.shared.com.inner s) {sh' : Shared D L}
    (hc : sh'.com = e.shared.com) (hd : sh'.dict = d) : StInv env w sh' e.state := by
  have hst := hi.st
  cases hs : e.state with
  | selecting s =>
    rw [hs] at hst hw
    obtain ⟨h1, h2⟩ := hst
    refine ⟨?_, fun ha => by rw [hc]; exact h2 ha⟩
    split
    · next p hp =>
      rw [hp] at h1
      exact ⟨h1.com.trans (by rw [hc]), h1.lt, h1.le, h1.syl, fun hw0 c hcm => by
        rw [hd]; exact hw hw0 p.strategy (by simp only [selStrategy, hp]) c (by rw [← h1.com]; exact hcm), h1.anchor⟩
    · next y hp => rw [hp] at h1; exact h1
    · next sym hp => rw [hp] at h1; exact h1
  | entering => trivial
  | enteringSyllable => trivial
  | highlighting m => trivial

end Chewing.C01
