import Chewing.Proofs.C01PhraseSel
/-!
C01, part 4: the arms of `Entering::next`, `EnteringSyllable::next` and `Highlighting::next`, and the
functions that open a candidate list: none panics, none runs out of fuel, each re-establishes the
invariant (and the selector invariant when a list opens).
-/
namespace Chewing.C01
open Chewing Chewing.C04 Chewing.C05

variable {D L : Type} {env : Env D L} {G : D → Prop} {w : Prop}

/-- a state's `next` returned, the shared invariant holds again, and a state it switches to satisfies
    its invariant -/
def StepOK (env : Env D L) (G : D → Prop) (w : Prop) (r : StepRes D L) : Prop :=
  OkAnd (fun x => ShInv env G w x.1 ∧ ∀ s, x.2 = .toState s → StInv env w x.1 s) r

theorem stepOK_spin {sh : Shared D L} (h : ShInv env G w sh) (b : KB) : StepOK env G w (.ok (sh, .spin b)) :=
  ⟨_, rfl, h, fun s hs => by cases hs⟩

theorem stepOK_to {sh : Shared D L} (h : ShInv env G w sh) (st : St) (hs : StInv env w sh st) :
    StepOK env G w (.ok (sh, .toState st)) :=
  ⟨_, rfl, h, fun s hh => by cases hh; exact hs⟩

/-- close a `spin` leaf from a proof of the invariant of the new shared state -/
macro "spin_of " h:term : tactic => `(tactic| (apply stepOK_spin; exact $h))
/-- close a `toState` leaf whose target state has a trivial invariant -/
macro "to_of " h:term : tactic => `(tactic| (apply stepOK_to <;> first | exact $h | trivial))

theorem stepOK_ite {c : Prop} [Decidable c] {a b : StepRes D L} (h1 : StepOK env G w a) (h2 : StepOK env G w b) :
    StepOK env G w (if c then a else b) := by
  split <;> assumption

/-- `CedPost` for several inserted characters -/
def CedPostC (e e' : CompEditor) : Prop :=
  CedInv e' ∧ ∀ s ∈ e'.inner.symbols, s ∈ e.inner.symbols ∨ s.isSyl = false

theorem ShInv.setComC {sh : Shared D L} (h : ShInv env G w sh) {c : CompEditor} (hp : CedPostC sh.com c) :
    ShInv env G w { sh with com := c } := by
  refine ⟨h.good, hp.1, ?_, h.coupled, h.perPage, h.symOK⟩
  intro hw x hx
  rcases hp.2 _ hx with hm | hm
  · exact h.word hw x hm
  · cases hm

theorem CedPost.toC {e e' : CompEditor} {x : Option Sym} (h : CedPost e x e') (hx : ∀ s, x = some s → s.isSyl = false) :
    CedPostC e e' :=
  ⟨h.1, fun s hs => (h.2 s hs).imp id (fun hh => hx s hh)⟩

theorem stepOK_withCom_absorb {sh : Shared D L} (h : ShInv env G w sh) {r : Outcome CompEditor}
    (hr : OkAnd (CedPostC sh.com) r) : StepOK env G w (withCom sh r fun sh => .ok (sh, .spin .absorb)) := by
  obtain ⟨c, rfl, hp⟩ := hr
  spin_of (h.setComC hp)

theorem insertChr_ok {e : CompEditor} (hi : CedInv e) (ch : Nat) : OkAnd (CedPostC e) (e.insert (.chr ch)) :=
  (ced_insert hi (.chr ch)).mono fun _ hp => hp.toC (fun s hs => by cases hs; rfl)

theorem insertChars_ok (cs : List Nat) : ∀ {e : CompEditor}, CedInv e → OkAnd (CedPostC e) (insertChars e cs) := by
  induction cs with
  | nil => intro e hi; exact .ok ⟨hi, fun s hs => .inl hs⟩
  | cons c cs ih =>
    intro e hi
    obtain ⟨e1, h1, hp1⟩ := insertChr_ok hi c
    simp only [insertChars]
    rw [h1]
    obtain ⟨e2, h2, hp2⟩ := ih hp1.1
    exact ⟨e2, h2, hp2.1, fun s hs => (hp2.2 s hs).elim (fun hh => hp1.2 s hh) .inr⟩

/-! ## characters -/

theorem commitOrInsert_ok {sh : Shared D L} (h : ShInv env G w sh) (ch : Nat) : StepOK env G w (commitOrInsert sh ch) := by
  unfold commitOrInsert
  split
  · spin_of (h.congr rfl rfl rfl rfl rfl rfl)
  · exact stepOK_withCom_absorb h (insertChr_ok h.ced ch)

theorem inputChar_ok {sh : Shared D L} (h : ShInv env G w sh) (ev : KeyEvent) : StepOK env G w (inputChar sh ev) := by
  unfold inputChar fullOrBell
  repeat' split
  all_goals first
    | exact commitOrInsert_ok h _
    | spin_of h

theorem chineseFallback_ok {sh : Shared D L} (h : ShInv env G w sh) (ev : KeyEvent) :
    StepOK env G w (chineseFallback sh ev) := by
  unfold chineseFallback
  repeat' split
  all_goals first
    | exact stepOK_withCom_absorb h (insertChr_ok h.ced _)
    | exact inputChar_ok h _
    | spin_of h

/-! ## opening a candidate list -/

theorem selInv_newSymbol (sh sh' : Shared D L) (hy : SymWF sh.symSel) : SelInv env w sh' (newSymbol sh) :=
  ⟨hy, fun h => by cases h⟩

/-- the menu of a well-formed symbol selector answers (the open category is an existing table) -/
theorem symMenu_ok {y : SymSel} (hy : SymWF y) : ∃ l, y.menu = .ok l := by
  unfold SymSel.menu
  split
  · next c hc =>
    have hlt := hy.cur c hc
    rw [List.getElem?_eq_getElem hlt]
    exact ⟨_, rfl⟩
  · exact ⟨_, rfl⟩

/-- `open_symbol` (FX1 repair): the symbol table opened, or — an empty table — the request ignored -/
theorem openSymbol_ok {sh : Shared D L} (h : ShInv env G w sh) : StepOK env G w (openSymbol env sh) := by
  obtain ⟨l, hl⟩ := symMenu_ok h.symOK
  have hc : Selecting.candidates env (newSymbol sh) sh = .ok l := hl
  unfold openSymbol
  rw [hc]
  cases l with
  | nil => exact stepOK_spin h _
  | cons a l => exact stepOK_to h _ (selInv_newSymbol sh sh h.symOK)

theorem forSelect_clamp {e : CompEditor} {sym : Sym} (h : e.symbolForSelect = some sym) :
    e.pushCursor.clampCursor.inner = e.inner ∧
    e.pushCursor.clampCursor.cursor < e.inner.symbols.length ∧
    e.inner.symbols[e.pushCursor.clampCursor.cursor]? = some sym := by
  unfold CompEditor.symbolForSelect at h
  obtain ⟨h1, h2⟩ := symbol?_some h
  simp only [CompEditor.isEob, Composition.len, beq_iff_eq] at h1 h2
  by_cases hc : e.inner.symbols.length = e.cursor
  · rw [if_pos hc] at h1 h2
    have : e.pushCursor.clampCursor = { e.pushCursor with cursor := e.cursor - 1 } := by
      unfold CompEditor.clampCursor
      rw [if_pos (show e.pushCursor.cursor = e.pushCursor.inner.len from hc.symm)]
      rfl
    rw [this]
    exact ⟨rfl, h1, h2⟩
  · rw [if_neg hc] at h1 h2
    have : e.pushCursor.clampCursor = e.pushCursor := by
      unfold CompEditor.clampCursor
      rw [if_neg (show ¬ e.pushCursor.cursor = e.pushCursor.inner.len from fun hh => hc hh.symm)]
    rw [this]
    exact ⟨rfl, h1, h2⟩

/-- what `new_phrase` returns on a syllable: the saved + clamped cursor and a phrase selector satisfying its invariant -/
theorem newPhrase_eq {sh : Shared D L} (h : ShInv env G w sh) {k : Nat} (hs : sh.com.symbolForSelect = some (.syl k)) :
    ∃ p, newPhrase env sh = .ok ({ sh with com := sh.com.pushCursor.clampCursor },
        .toState (.selecting { pageNo := 0, action := .replace, sel := .phrase p })) ∧
      ShInv env G w { sh with com := sh.com.pushCursor.clampCursor } ∧
      PhraseOK env w { sh with com := sh.com.pushCursor.clampCursor } p := by
  obtain ⟨c1, c2, c3⟩ := forSelect_clamp hs
  have hced : CedInv sh.com.pushCursor.clampCursor := ced_clampCursor (ced_pushCursor h.ced)
  unfold newPhrase
  dsimp only
  obtain ⟨p, hq, p1, p2, p3, p4, p5, p6, _, _⟩ := init_ok (env := env) (!sh.options.phraseChoiceRearward) sh.options.lookupStrategy
    sh.com.pushCursor.clampCursor.inner sh.com.pushCursor.clampCursor.cursor sh.dict
    (by rw [c1]; exact c2) ⟨k, by rw [c1]; exact c3⟩
  rw [hq]
  refine ⟨p, rfl, h.setComSame hced (by rw [c1]), ?_⟩
  refine ⟨p1, p3, by rw [p1]; exact p4, by rw [p1]; exact p5, ?_, p6⟩
  intro hw c hc
  rw [p2]
  rw [p1, c1] at hc
  exact (h.word hw c hc).2

theorem newPhrase_ok {sh : Shared D L} (h : ShInv env G w sh) {k : Nat} (hs : sh.com.symbolForSelect = some (.syl k)) :
    StepOK env G w (newPhrase env sh) := by
  obtain ⟨p, hq, hi, hp⟩ := newPhrase_eq h hs
  rw [hq]
  exact stepOK_to hi _ ⟨hp, fun _ => .inl ⟨p, rfl⟩⟩

/-- the candidate query of a phrase selector satisfying its invariant answers (the `unwrap()`s on the symbol
    under a one-symbol range find a syllable) -/
theorem phraseCandidates_returns {sh : Shared D L} {p : PhraseSel} (hp : PhraseOK env w sh p) :
    ∃ cs, PhraseSel.candidates env p sh.dict sh.syl = .ok cs := by
  unfold PhraseSel.candidates
  rw [sliceSyms_ok (Nat.le_of_lt hp.lt) hp.le]
  dsimp only
  split
  · obtain ⟨k, hk⟩ := hp.syl p.begin_ (Nat.le_refl _) hp.lt
    have hlt : p.begin_ < p.com.symbols.length := Nat.lt_of_lt_of_le hp.lt hp.le
    rw [symbol?_lt hlt, hk]
    exact ⟨_, rfl⟩
  · exact ⟨_, rfl⟩

/-- `open_phrase`: the list `new_phrase` built, or — without candidates — the saved cursor restored and the
    request ignored -/
theorem openPhrase_ok {sh : Shared D L} (h : ShInv env G w sh) {k : Nat} (hs : sh.com.symbolForSelect = some (.syl k)) :
    StepOK env G w (openPhrase env sh) := by
  obtain ⟨p, hq, hi, hp⟩ := newPhrase_eq h hs
  obtain ⟨cs, hc⟩ := phraseCandidates_returns hp
  unfold openPhrase
  rw [hq]
  dsimp only
  unfold Selecting.candidates
  dsimp only
  rw [hc]
  cases cs with
  | nil =>
    apply stepOK_spin
    have hcur := cursor_le_of_symbolForSelect hs
    have : Shared.cancelSelecting { sh with com := sh.com.pushCursor.clampCursor } = sh := by
      unfold Shared.cancelSelecting; simp only [pop_push_clamp _ hcur]
    rw [this]; exact h
  | cons a l => exact stepOK_to hi _ ⟨hp, fun _ => .inl ⟨p, rfl⟩⟩

theorem specialMenu_chr (ch : Nat) : ∃ l, specialMenu (.chr ch) = .ok l := by
  unfold specialMenu specialFindCategory
  dsimp only
  split
  · exact ⟨_, rfl⟩
  · exact ⟨_, rfl⟩
  · next hh => cases hh
  · next hh => cases hh

theorem newSpecialSymbol_ok {sh : Shared D L} (h : ShInv env G w sh) {ch : Nat}
    (hs : sh.com.symbolForSelect = some (.chr ch)) : StepOK env G w (newSpecialSymbol sh (.chr ch)) := by
  obtain ⟨c1, c2, c3⟩ := forSelect_clamp hs
  have hced : CedInv sh.com.pushCursor.clampCursor := ced_clampCursor (ced_pushCursor h.ced)
  have hsh := h.setComSame hced (by rw [c1])
  have hrepl : ∃ x, ({ sh with com := sh.com.pushCursor.clampCursor } : Shared D L).com.inner.symbols[
      ({ sh with com := sh.com.pushCursor.clampCursor } : Shared D L).com.cursor]? = some (Sym.chr x) :=
    ⟨ch, by show sh.com.pushCursor.clampCursor.inner.symbols[_]? = _; rw [c1]; exact c3⟩
  obtain ⟨l, hl⟩ := specialMenu_chr ch
  unfold newSpecialSymbol
  dsimp only
  rw [hl]
  cases l with
  | nil => exact stepOK_to hsh _ ⟨h.symOK, fun _ => .inr hrepl⟩
  | cons a l => exact stepOK_to hsh _ ⟨rfl, fun _ => .inr hrepl⟩

/-- `open_special_symbol` (FX1 repair): the list `new_special_symbol` built, or — without candidates — the
    saved cursor restored and the request ignored -/
theorem openSpecialSymbol_ok {sh : Shared D L} (h : ShInv env G w sh) {ch : Nat}
    (hs : sh.com.symbolForSelect = some (.chr ch)) : StepOK env G w (openSpecialSymbol env sh (.chr ch)) := by
  obtain ⟨⟨sh1, t1⟩, hq, hi, ht⟩ := newSpecialSymbol_ok (env := env) (G := G) (w := w) h hs
  obtain ⟨hsh1, hsel⟩ := newSpecialSymbol_shape hq
  have hcur := cursor_le_of_symbolForSelect hs
  have hcancel : Shared.cancelSelecting sh1 = sh := by
    rw [hsh1]; unfold Shared.cancelSelecting; simp only [pop_push_clamp _ hcur]
  have key : ∀ s, t1 = .toState (.selecting s) → StepOK env G w (openSpecialSymbol env sh (.chr ch)) := by
    intro s hts
    subst hts
    have hsi : SelInv env w sh1 s := ht _ rfl
    have hcand : ∃ cs, Selecting.candidates env s sh1 = .ok cs := by
      unfold Selecting.candidates
      have h1 := hsi.sel
      split
      · next p hp =>
        rcases hsel with hh | hh <;> (injection hh with hh; injection hh with hh; rw [hh] at hp; cases hp)
      · next y hy => rw [hy] at h1; exact symMenu_ok h1
      · next sym hy =>
        rw [hy] at h1
        cases sym with
        | syl k => simp [Sym.isSyl] at h1
        | chr c => exact specialMenu_chr c
    obtain ⟨cs, hcs⟩ := hcand
    unfold openSpecialSymbol
    rw [hq]
    dsimp only
    rw [hcs]
    cases cs with
    | nil => apply stepOK_spin; rw [hcancel]; exact h
    | cons a l => exact stepOK_to hi _ hsi
  rcases hsel with hh | hh
  · exact key _ hh
  · exact key _ hh

theorem startSelecting_ok {sh : Shared D L} (h : ShInv env G w sh) : StepOK env G w (startSelecting env sh) := by
  unfold startSelecting
  split
  · next sym hs =>
    cases sym with
    | syl k => simp only [Sym.isSyl, if_true]; exact openPhrase_ok h hs
    | chr ch => simp only [Sym.isSyl]; exact openSpecialSymbol_ok h hs
  · spin_of h

theorem startSelectingOrInputSpace_ok {sh : Shared D L} (h : ShInv env G w sh) :
    StepOK env G w (startSelectingOrInputSpace env sh) := by
  unfold startSelectingOrInputSpace
  split
  · next sym hs =>
    cases sym with
    | syl k => simp only [Sym.isSyl, if_true]; exact openPhrase_ok h hs
    | chr ch => simp only [Sym.isSyl]; exact openSpecialSymbol_ok h hs
  · split
    · spin_of (h.congr rfl rfl rfl rfl rfl rfl)
    · spin_of h

/-! ## `Entering` -/

theorem enteringDefault_ok {sh : Shared D L} (h : ShInv env G w sh) (ev : KeyEvent) :
    StepOK env G w (enteringDefault env sh ev) := by
  have hsyl : ∀ l : L, ShInv env G w { sh with syl := l } := fun l => h.congr rfl rfl rfl rfl rfl rfl
  unfold enteringDefault
  repeat' split
  all_goals first
    | exact openSymbol_ok h
    | exact inputChar_ok h _
    | exact stepOK_withCom_absorb h (insertChars_ok _ h.ced)
    | exact stepOK_withCom_absorb h (insertChr_ok h.ced _)
    | to_of (hsyl _)
    | spin_of (hsyl _)
    | spin_of h
    | exact chineseFallback_ok (hsyl _) _
    | exact chineseFallback_ok h _

theorem enteringBackspace_ok {sh : Shared D L} (h : ShInv env G w sh) : StepOK env G w (enteringBackspace sh) := by
  unfold enteringBackspace
  split
  · spin_of h
  · exact stepOK_withCom_absorb h ((ced_removeBefore h.ced).mono fun _ hp => hp.toC (fun s hs => by cases hs))

theorem learnTrans_ok {sh : Shared D L} {r : Outcome (Shared D L × Bool)}
    (hr : OkAnd (fun x => ShInv env G w x.1 ∧ Keeps env sh x.1) r) : StepOK env G w (learnTrans r) := by
  obtain ⟨⟨sh', b⟩, rfl, hi, _⟩ := hr
  exact stepOK_spin hi _

theorem enteringCtrlDigit_ok (hE : EnvOK env G) {sh : Shared D L} (h : ShInv env G w sh) (c : Nat) :
    StepOK env G w (enteringCtrlDigit env sh c) := by
  unfold enteringCtrlDigit
  split
  · exact openSymbol_ok h
  · dsimp only
    split
    · exact learnTrans_ok (learnInRangeNotify_ok hE h _ _ (by omega))
    · split
      · exact learnTrans_ok (learnInRangeNotify_ok hE h _ _ (by omega))
      · spin_of (h.congr rfl rfl rfl rfl rfl rfl)

theorem enteringTabInside_ok (hE : EnvOK env G) {sh : Shared D L} (h : ShInv env G w sh) :
    StepOK env G w (enteringTabInside env sh) := by
  obtain ⟨ivs, hq, _⟩ := conversion_ok hE h
  unfold enteringTabInside
  rw [hq]
  dsimp only
  split
  · exact stepOK_withCom_absorb h ((ced_insertGap h.ced .glue (by decide) (.inl rfl)).mono
      fun _ hp => hp.toC (fun s hs => by cases hs))
  · exact stepOK_withCom_absorb h ((ced_insertGap h.ced .brk (by decide) (.inr rfl)).mono
      fun _ hp => hp.toC (fun s hs => by cases hs))

theorem enteringDel_ok {sh : Shared D L} (h : ShInv env G w sh) : StepOK env G w (enteringDel sh) := by
  unfold enteringDel
  split
  · spin_of h
  · next he =>
    have hlt : sh.com.cursor < sh.com.inner.symbols.length := by
      have := h.ced.cur
      simp only [CompEditor.isEob, Composition.len, beq_iff_eq] at he
      omega
    exact stepOK_withCom_absorb h ((ced_removeAfter h.ced hlt).mono fun _ hp => hp.toC (fun s hs => by cases hs))

theorem enteringShiftLeft_ok {sh : Shared D L} (h : ShInv env G w sh) : StepOK env G w (enteringShiftLeft sh) := by
  unfold enteringShiftLeft
  split
  · spin_of h
  · to_of h

theorem enteringShiftRight_ok {sh : Shared D L} (h : ShInv env G w sh) : StepOK env G w (enteringShiftRight sh) := by
  unfold enteringShiftRight
  split
  · spin_of h
  · to_of h

theorem enteringEnter_ok (hE : EnvOK env G) {sh : Shared D L} (h : ShInv env G w sh) :
    StepOK env G w (enteringEnter env sh) := by
  obtain ⟨sh', hq, hi, _⟩ := commit_ok hE h
  unfold enteringEnter
  rw [hq]
  exact stepOK_spin hi _

theorem enteringEsc_ok {sh : Shared D L} (h : ShInv env G w sh) : StepOK env G w (enteringEsc sh) := by
  unfold enteringEsc
  split
  · apply stepOK_spin
    refine ⟨h.good, ced_clear h.ced, ?_, h.coupled, h.perPage, h.symOK⟩
    intro _ c hc; simp [CompEditor.clear, Composition.clear] at hc
  · spin_of h

/-- **`Entering::next`**: every arm returns and re-establishes the invariant -/
theorem enteringNext_ok (hE : EnvOK env G) {sh : Shared D L} (h : ShInv env G w sh) (ev : KeyEvent) :
    StepOK env G w (enteringNext env sh ev) := by
  unfold enteringNext
  repeat' (with_reducible apply stepOK_ite)
  all_goals first
    | exact enteringBackspace_ok h
    | exact enteringCtrlDigit_ok hE h _
    | exact enteringTabInside_ok hE h
    | exact enteringDel_ok h
    | exact enteringShiftLeft_ok h
    | exact enteringShiftRight_ok h
    | exact enteringEnter_ok hE h
    | exact enteringEsc_ok h
    | exact commitOrInsert_ok h _
    | exact enteringDefault_ok h _
    | exact startSelecting_ok h
    | exact startSelectingOrInputSpace_ok h
    | spin_of h
    | spin_of (h.congr rfl rfl rfl rfl rfl rfl)
    | spin_of (h.setComSame (ced_moveToBeginning h.ced) rfl)
    | spin_of (h.setComSame (ced_moveLeft h.ced) rfl)
    | spin_of (h.setComSame (ced_moveRight h.ced) rfl)
    | spin_of (h.setComSame (ced_moveToEnd h.ced) rfl)

/-! ## `EnteringSyllable` -/

/-- a syllable that has a word under the editor's lookup strategy has one under the engine's strategy -/
theorem word_both (hE : EnvOK env G) {sh : Shared D L} (h : ShInv env G w sh) (hw0 : w) {k : Nat}
    (hw : env.hasPhrase sh.dict [k] sh.options.lookupStrategy = true) :
    env.hasPhrase sh.dict [k] (engStrategy sh.engine) = true ∧ env.hasPhrase sh.dict [k] sh.options.lookupStrategy = true := by
  refine ⟨?_, hw⟩
  cases hl : sh.options.lookupStrategy with
  | fuzzyPartialPrefix => rw [h.coupled hw0 hl, ← hl]; exact hw
  | standard =>
    rw [hl] at hw
    cases he : engStrategy sh.engine with
    | standard => exact hw
    | fuzzyPartialPrefix => exact hE.std_fuzzy _ _ h.good hw

theorem insertSyl_ok {sh : Shared D L} (h : ShInv env G w sh) {k : Nat}
    (hw : w → env.hasPhrase sh.dict [k] (engStrategy sh.engine) = true ∧ env.hasPhrase sh.dict [k] sh.options.lookupStrategy = true) :
    OkAnd (fun c => ShInv env G w { sh with com := c } ∧ 0 < c.cursor ∧ c.inner.symbols[c.cursor - 1]? = some (Sym.syl k))
      (sh.com.insert (.syl k)) := by
  obtain ⟨c, hq, hp⟩ := ced_insert h.ced (.syl k)
  refine ⟨c, hq, h.setComIns hp (fun hw' k' hk => by cases hk; exact hw hw'), ?_⟩
  have hf := insert_at_cursor sh.com (.syl k) c hq
  simp only [CompEditor.symbols] at hf
  obtain ⟨f1, f2, _, f4⟩ := hf
  refine ⟨by omega, ?_⟩
  rw [f1, f2, Nat.add_sub_cancel]
  have : (List.take sh.com.cursor sh.com.inner.symbols).length = sh.com.cursor := by
    rw [List.length_take]; omega
  rw [List.append_assoc, List.getElem?_append_right (by omega), this, Nat.sub_self]
  rfl

theorem newPhraseSimple_ok {sh : Shared D L} (h : ShInv env G w sh) {k : Nat} (h0 : 0 < sh.com.cursor)
    (hs : sh.com.inner.symbols[sh.com.cursor - 1]? = some (Sym.syl k)) : StepOK env G w (newPhraseSimple sh) := by
  unfold newPhraseSimple
  dsimp only
  obtain ⟨p, hq, p1, p2, p3, p4, p5, p6⟩ := initSingleWord_ok sh.options.lookupStrategy sh.com.pushCursor.inner
    sh.com.pushCursor.cursor h0 h.ced.cur ⟨k, hs⟩
  rw [hq]
  refine stepOK_to (h.setComSame (ced_pushCursor h.ced) rfl) _ ⟨?_, fun _ => .inl ⟨p, rfl⟩⟩
  show PhraseOK env w _ p
  refine ⟨p1, p3, by rw [p1]; exact p4, by rw [p1]; exact p5, ?_, p6⟩
  intro hw c hc
  rw [p2]
  rw [p1] at hc
  exact (h.word hw c hc).2

theorem syllableAnswer_ok (hE : EnvOK env G) {sh : Shared D L} (h : ShInv env G w sh) (beh : LayoutBeh) :
    StepOK env G w (syllableAnswer env sh beh) := by
  have hsyl : ∀ l : L, ShInv env G w { sh with syl := l } := fun l => h.congr rfl rfl rfl rfl rfl rfl
  unfold syllableAnswer
  split
  · split
    · to_of h
    · spin_of h
  · next s =>
    split
    · next hw =>
      obtain ⟨c, hq, hi, _⟩ := insertSyl_ok h (fun hw0 => word_both hE h hw0 hw)
      unfold withCom
      rw [hq]
      exact stepOK_spin hi _
    · spin_of h
  · split
    · next hw =>
      obtain ⟨c, hq, hi, c0, c1⟩ := insertSyl_ok h (fun hw0 => word_both hE h hw0 hw)
      unfold withCom
      rw [hq]
      dsimp only
      split
      · exact newPhraseSimple_ok (sh := { sh with com := c, syl := env.clearSyl (env.clearSyl sh.syl) })
          (hi.congr rfl rfl rfl rfl rfl rfl) c0 c1
      · to_of (hi.congr rfl rfl rfl rfl rfl rfl)
    · to_of (hsyl _)
  · spin_of h

/-- **`EnteringSyllable::next`** -/
theorem enteringSyllableNext_ok (hE : EnvOK env G) {sh : Shared D L} (h : ShInv env G w sh) (ev : KeyEvent) :
    StepOK env G w (enteringSyllableNext env sh ev) := by
  have hsyl : ∀ l : L, ShInv env G w { sh with syl := l } := fun l => h.congr rfl rfl rfl rfl rfl rfl
  unfold enteringSyllableNext
  repeat' split
  all_goals first
    | spin_of (hsyl _)
    | to_of (hsyl _)
    | to_of (h.congr rfl rfl rfl rfl rfl rfl)
    | exact syllableAnswer_ok hE (hsyl _) _
    | skip
  -- Esc with `esc_clear_all_buffer`
  all_goals
    apply stepOK_to
    · refine ⟨h.good, ced_clear h.ced, ?_, h.coupled, h.perPage, h.symOK⟩
      intro _ c hc; simp [CompEditor.clear, Composition.clear] at hc
    · trivial

/-! ## `Highlighting` -/

theorem highlightingNext_ok (hE : EnvOK env G) (m : Nat) {sh : Shared D L} (h : ShInv env G w sh) (ev : KeyEvent) :
    OkAnd (fun x => ShInv env G w x.1 ∧ ∀ s, x.2.2 = .toState s → StInv env w x.1 s) (highlightingNext env m sh ev) := by
  unfold highlightingNext
  dsimp only
  split
  · exact .ok ⟨h.congr rfl rfl rfl rfl rfl rfl, fun s hs => by cases hs; trivial⟩
  · split
    · exact .ok ⟨h, fun s hs => by cases hs⟩
    · split
      · exact .ok ⟨h, fun s hs => by cases hs⟩
      · split
        · have h1 : ShInv env G w { sh with com := sh.com.moveCursor m } := h.setComSame (ced_moveCursor h.ced m) rfl
          obtain ⟨⟨sh', b⟩, hq, hi, _⟩ := learnInRangeNotify_ok hE h1 (min m sh.com.cursor) (max m sh.com.cursor)
            (by omega)
          rw [hq]
          exact .ok ⟨hi, fun s hs => by cases hs; trivial⟩
        · exact .ok ⟨h, fun s hs => by cases hs; trivial⟩

end Chewing.C01
