import Chewing.Props.C05
import Chewing.Model.Editor
import Chewing.Model.ConversionSpec
/-!
C01, part 1: the invariants (composition, cursor, "every buffered syllable has a word under every
active strategy"), the explicit hypotheses on the environment, and no-panic + invariant-preservation
lemmas for the `CompositionEditor` methods the editor calls.
-/
namespace Chewing.C01
open Chewing Chewing.C04 Chewing.C05

variable {D L : Type}

/-- the lookup strategy a conversion engine works with (`FuzzyChewingEngine` = prefix matching) -/
def engStrategy : EngineKind → Strategy
  | .fuzzy => .fuzzyPartialPrefix
  | _ => .standard

/-! ## Results: "returns a value, and the value satisfies `P`" -/

/-- the call returns (no panic, fuel not exhausted) and its value satisfies `P` -/
def OkAnd {α : Type} (P : α → Prop) (r : Outcome α) : Prop := ∃ a, r = .ok a ∧ P a

theorem OkAnd.mono {α : Type} {P Q : α → Prop} {r : Outcome α} (h : OkAnd P r) (hpq : ∀ a, P a → Q a) :
    OkAnd Q r := by
  obtain ⟨a, h1, h2⟩ := h; exact ⟨a, h1, hpq a h2⟩

theorem OkAnd.ok {α : Type} {P : α → Prop} {a : α} (h : P a) : OkAnd P (.ok a) := ⟨a, rfl, h⟩

theorem OkAnd.not_panic {α : Type} {P : α → Prop} {r : Outcome α} (h : OkAnd P r) :
    (∀ s, r ≠ .panic s) ∧ r ≠ .outOfFuel := by
  obtain ⟨a, rfl, _⟩ := h
  exact ⟨fun s h => (by cases h), fun h => (by cases h)⟩

/-! ## The composition invariant (C04) and the cursor invariant (C05), bundled -/

/-- `CompInv` + one character per selected symbol + selections over syllables only -/
structure CInv (c : Composition) : Prop where
  comp : CompInv c
  text : TextInv c
  syl : SylInv c

/-- invariant of the `CompositionEditor` -/
structure CedInv (e : CompEditor) : Prop where
  inner : CInv e.inner
  cur : e.cursor ≤ e.inner.symbols.length

theorem CedInv.cursorInv {e : CompEditor} (h : CedInv e) : CursorInv e := ⟨h.inner.comp.len_eq, h.cur⟩

theorem cinv_new : CInv {} := ⟨inv_new, fun _ h => (by cases h), fun _ h => (by cases h)⟩

theorem cedInv_new : CedInv {} := ⟨cinv_new, Nat.le_refl _⟩

/-- one `Composition` call keeps the bundle, given the three (unchecked) preconditions -/
theorem cinv_apply {c c' : Composition} {op : CompOp} (hi : CInv c) (h : c.apply op = .ok c')
    (hv : ValidOp c op) (ht : ∀ t, op = .pushSelection t → t.text.length = t.stop - t.start)
    (hs : ValidOpSyl c op) : CInv c' :=
  ⟨inv_preserved c op c' hi.comp hv h,
   textInv_preserved c op c' hi.text ht (fun s hs => Nat.le_of_lt (hi.comp.sel_nonempty s hs)) h,
   sylInv_preserved c op c' hi.comp hi.syl hs h⟩

/-- what a `CompositionEditor` method must be called with (beyond its `assert!`s) -/
def CedValid (e : CompEditor) : CedOp → Prop
  | .select iv => ValidSelection e.inner iv ∧ iv.text.length = iv.stop - iv.start ∧ AllSyl e.inner iv.start iv.stop
  | .replace x => (∃ k, x = Sym.syl k) ∨ ∀ s ∈ e.inner.selections, ¬ (s.start ≤ e.cursor ∧ e.cursor < s.stop)
  | _ => True

theorem run_nil_ok {c c' : Composition} (h : c.run [] = .ok c') : c' = c := by
  simp only [Composition.run] at h; cases h; rfl

theorem run_one_ok {c c' : Composition} {op : CompOp} (h : c.run [op] = .ok c') : c.apply op = .ok c' := by
  simp only [Composition.run] at h
  split at h
  · next c1 h1 => cases h; exact h1
  · cases h
  · cases h

/-- every `CompositionEditor` method that returns keeps the invariant -/
theorem ced_apply_inv {e e' : CompEditor} {op : CedOp} (hi : CedInv e) (hv : CedValid e op)
    (h : e.apply op = .ok e') : CedInv e' := by
  refine ⟨?_, (cursor_le_len_step e op e' hi.cursorInv h).2⟩
  have hr := ced_inner e op e' h
  have hin := hi.inner
  cases op with
  | pushCursor => rw [run_nil_ok hr]; exact hin
  | popCursor => rw [run_nil_ok hr]; exact hin
  | clampCursor => rw [run_nil_ok hr]; exact hin
  | moveCursor n => rw [run_nil_ok hr]; exact hin
  | moveToEnd => rw [run_nil_ok hr]; exact hin
  | moveToBeginning => rw [run_nil_ok hr]; exact hin
  | moveLeft => rw [run_nil_ok hr]; exact hin
  | moveRight => rw [run_nil_ok hr]; exact hin
  | clear =>
    exact cinv_apply hin (run_one_ok hr) trivial (fun t h => by cases h) trivial
  | removeFront n =>
    exact cinv_apply hin (run_one_ok hr) trivial (fun t h => by cases h) trivial
  | removeAfterCursor =>
    exact cinv_apply hin (run_one_ok hr) trivial (fun t h => by cases h) trivial
  | removeBeforeCursor =>
    simp only [compOps] at hr
    split at hr
    · rw [run_nil_ok hr]; exact hin
    · exact cinv_apply hin (run_one_ok hr) trivial (fun t h => by cases h) trivial
  | insert x =>
    exact cinv_apply hin (run_one_ok hr) trivial (fun t h => by cases h) trivial
  | insertGlue =>
    simp only [compOps] at hr
    split at hr
    · rw [run_nil_ok hr]; exact hin
    · exact cinv_apply hin (run_one_ok hr) trivial (fun t h => by cases h) trivial
  | insertBreak =>
    simp only [compOps] at hr
    split at hr
    · rw [run_nil_ok hr]; exact hin
    · exact cinv_apply hin (run_one_ok hr) trivial (fun t h => by cases h) trivial
  | replace x =>
    exact cinv_apply hin (run_one_ok hr) trivial (fun t h => by cases h) hv
  | select iv =>
    exact cinv_apply hin (run_one_ok hr) hv.1 (fun t h => by cases h; exact hv.2.1) hv.2.2

/-! ### the methods the editor calls: total under the invariant, invariant kept, symbols accounted for -/

/-- post-condition shape: the new editor satisfies the invariant and every symbol of its buffer was
    there before or is `x` -/
def CedPost (e : CompEditor) (x : Option Sym) (e' : CompEditor) : Prop :=
  CedInv e' ∧ ∀ s ∈ e'.inner.symbols, s ∈ e.inner.symbols ∨ x = some s

theorem ced_insert {e : CompEditor} (hi : CedInv e) (x : Sym) : OkAnd (CedPost e (some x)) (e.insert x) := by
  obtain ⟨e', h⟩ := insert_total e x hi.cursorInv
  refine ⟨e', h, ced_apply_inv (op := .insert x) hi trivial h, ?_⟩
  have hf := (insert_at_cursor e x e' h).1
  simp only [CompEditor.symbols] at hf
  intro s hs
  rw [hf] at hs
  simp only [List.mem_append, List.mem_cons, List.not_mem_nil, or_false] at hs
  rcases hs with (hs | hs) | hs
  · exact .inl (List.mem_of_mem_take hs)
  · exact .inr (by rw [hs])
  · exact .inl (List.mem_of_mem_drop hs)

theorem ced_removeBefore {e : CompEditor} (hi : CedInv e) : OkAnd (CedPost e none) e.removeBeforeCursor := by
  obtain ⟨e', h⟩ := backspace_total e hi.inner.comp hi.cursorInv
  refine ⟨e', h, ced_apply_inv (op := .removeBeforeCursor) hi trivial h, ?_⟩
  have hf := backspace_frame e e' h
  simp only [CompEditor.symbols] at hf
  intro s hs
  rcases Nat.eq_zero_or_pos e.cursor with h0 | h0
  · rw [hf.1 h0] at hs; exact .inl hs
  · rw [(hf.2 h0).1] at hs
    simp only [List.mem_append] at hs
    rcases hs with hs | hs
    · exact .inl (List.mem_of_mem_take hs)
    · exact .inl (List.mem_of_mem_drop hs)

theorem ced_removeAfter {e : CompEditor} (hi : CedInv e) (hlt : e.cursor < e.inner.symbols.length) :
    OkAnd (CedPost e none) e.removeAfterCursor := by
  obtain ⟨e', h⟩ := (delete_ok_iff e hi.inner.comp).mpr hlt
  refine ⟨e', h, ced_apply_inv (op := .removeAfterCursor) hi trivial h, ?_⟩
  have hf := (delete_frame e e' h).2.1
  simp only [CompEditor.symbols] at hf
  intro s hs
  rw [hf] at hs
  simp only [List.mem_append] at hs
  rcases hs with hs | hs
  · exact .inl (List.mem_of_mem_take hs)
  · exact .inl (List.mem_of_mem_drop hs)

theorem ced_insertGap {e : CompEditor} (hi : CedInv e) (g : Gap) (hg : g ≠ .begin) (hgb : g = .glue ∨ g = .brk) :
    OkAnd (CedPost e none) (e.insertGap g) := by
  obtain ⟨e', h⟩ := insert_gap_total e g hg hi.cursorInv
  rcases hgb with rfl | rfl
  · have ha : e.apply .insertGlue = .ok e' := h
    refine ⟨e', h, ced_apply_inv (op := .insertGlue) hi trivial ha, ?_⟩
    have hf := (gap_select_frame e .insertGlue e' (.inl rfl) ha).1
    simp only [CompEditor.symbols] at hf
    intro s hs; rw [hf] at hs; exact .inl hs
  · have ha : e.apply .insertBreak = .ok e' := h
    refine ⟨e', h, ced_apply_inv (op := .insertBreak) hi trivial ha, ?_⟩
    have hf := (gap_select_frame e .insertBreak e' (.inr (.inl rfl)) ha).1
    simp only [CompEditor.symbols] at hf
    intro s hs; rw [hf] at hs; exact .inl hs

theorem ced_removeFront {e : CompEditor} (hi : CedInv e) (n : Nat) (hn : n ≤ e.inner.symbols.length) :
    OkAnd (CedPost e none) (e.removeFront n) := by
  obtain ⟨e', h⟩ := (remove_front_ok_iff e n hi.inner.comp).mpr hn
  refine ⟨e', h, ced_apply_inv (op := .removeFront n) hi trivial h, ?_⟩
  have hf := (remove_front_frame e n e' h).2.1
  simp only [CompEditor.symbols] at hf
  intro s hs; rw [hf] at hs; exact .inl (List.mem_of_mem_drop hs)

theorem ced_replace {e : CompEditor} (hi : CedInv e) (x : Sym) (hlt : e.cursor < e.inner.symbols.length)
    (hv : CedValid e (.replace x)) : OkAnd (CedPost e (some x)) (e.replace x) := by
  obtain ⟨e', h⟩ := (replace_ok_iff e x hi.inner.comp.len_eq).mpr hlt
  refine ⟨e', h, ced_apply_inv (op := .replace x) hi hv h, ?_⟩
  have hf := (replace_frame e x e' h).2.1
  simp only [CompEditor.symbols] at hf
  intro s hs
  rw [hf] at hs
  simp only [List.mem_append, List.mem_cons, List.not_mem_nil, or_false] at hs
  rcases hs with (hs | hs) | hs
  · exact .inl (List.mem_of_mem_take hs)
  · exact .inr (by rw [hs])
  · exact .inl (List.mem_of_mem_drop hs)

theorem ced_select {e : CompEditor} (hi : CedInv e) (iv : Interval) (hne : iv.text ≠ [])
    (hv : CedValid e (.select iv)) : OkAnd (CedPost e none) (e.select iv) := by
  have hok : ∃ e', e.select iv = .ok e' := by
    simp only [CompEditor.select, if_neg hne]
    rw [pushSelection_ok.mpr ⟨hi.inner.comp.len_eq, hv.1.2, rfl⟩]
    exact ⟨_, rfl⟩
  obtain ⟨e', h⟩ := hok
  have ha : e.apply (.select iv) = .ok e' := h
  refine ⟨e', h, ced_apply_inv hi hv ha, ?_⟩
  have hf := (gap_select_frame e (.select iv) e' (.inr (.inr ⟨iv, rfl⟩)) ha).1
  simp only [CompEditor.symbols] at hf
  intro s hs; rw [hf] at hs; exact .inl hs

/-- the methods that only move the cursor or touch the cursor stack -/
theorem ced_pure {e : CompEditor} (hi : CedInv e) (op : CedOp) (e' : CompEditor)
    (hop : e.apply op = .ok e') (hv : CedValid e op) (hs : e'.inner.symbols = e.inner.symbols) : CedPost e none e' :=
  ⟨ced_apply_inv hi hv hop, fun s h => .inl (by rw [← hs]; exact h)⟩

theorem ced_pushCursor {e : CompEditor} (hi : CedInv e) : CedInv e.pushCursor :=
  ced_apply_inv (op := .pushCursor) hi trivial rfl
theorem ced_popCursor {e : CompEditor} (hi : CedInv e) : CedInv e.popCursor :=
  ced_apply_inv (op := .popCursor) hi trivial rfl
theorem ced_clampCursor {e : CompEditor} (hi : CedInv e) : CedInv e.clampCursor :=
  ced_apply_inv (op := .clampCursor) hi trivial rfl
theorem ced_moveCursor {e : CompEditor} (hi : CedInv e) (n : Nat) : CedInv (e.moveCursor n) :=
  ced_apply_inv (op := .moveCursor n) hi trivial rfl
theorem ced_moveToEnd {e : CompEditor} (hi : CedInv e) : CedInv e.moveToEnd :=
  ced_apply_inv (op := .moveToEnd) hi trivial rfl
theorem ced_moveToBeginning {e : CompEditor} (hi : CedInv e) : CedInv e.moveToBeginning :=
  ced_apply_inv (op := .moveToBeginning) hi trivial rfl
theorem ced_moveLeft {e : CompEditor} (hi : CedInv e) : CedInv e.moveLeft :=
  ced_apply_inv (op := .moveLeft) hi trivial rfl
theorem ced_moveRight {e : CompEditor} (hi : CedInv e) : CedInv e.moveRight :=
  ced_apply_inv (op := .moveRight) hi trivial rfl
theorem ced_clear {e : CompEditor} (hi : CedInv e) : CedInv e.clear :=
  ced_apply_inv (op := .clear) hi trivial rfl

theorem pushCursor_inner (e : CompEditor) : e.pushCursor.inner = e.inner := rfl
theorem popCursor_inner (e : CompEditor) : e.popCursor.inner = e.inner := by
  unfold CompEditor.popCursor; split <;> rfl
theorem clampCursor_inner (e : CompEditor) : e.clampCursor.inner = e.inner := by
  unfold CompEditor.clampCursor; split <;> rfl

/-! ## Bridge to the precondition of the conversion engines (C03) -/

theorem slice_mem {c : Composition} {a b : Nat} {sym : Sym} (h : sym ∈ Conv.slice c a b) :
    ∃ j, a ≤ j ∧ j < b ∧ c.symbols[j]? = some sym := by
  unfold Conv.slice at h
  obtain ⟨i, hi, he⟩ := List.getElem_of_mem h
  simp only [List.length_take, List.length_drop] at hi
  refine ⟨a + i, by omega, by omega, ?_⟩
  rw [List.getElem_take, List.getElem_drop] at he
  rw [← he]
  exact List.getElem?_eq_getElem _

/-- the editor's invariant implies what the engines need (`CompValid`, C03's hypothesis) -/
theorem compValid_of_cinv {c : Composition} (h : CInv c) : Conv.CompValid c := by
  refine ⟨h.comp.len_eq, ?_, sel_pairwise_not_intersect h.comp⟩
  intro x hx
  refine ⟨h.comp.sel_nonempty x hx, h.comp.sel_in x hx, h.text x hx, ?_, ?_⟩
  · intro sym hs
    obtain ⟨j, h1, h2, h3⟩ := slice_mem hs
    obtain ⟨k, hk⟩ := h.syl x hx j h1 h2
    rw [hk] at h3; cases h3; rfl
  · unfold Conv.hasBreakInside
    rw [List.any_eq_false]
    intro i hi
    simp only [List.mem_range'_1] at hi
    have := h.comp.sel_no_break x hx i (by omega) (by omega)
    simp only [decide_eq_true_eq]
    unfold Conv.gapAt
    split
    · exact this
    · intro hh; cases hh

end Chewing.C01
