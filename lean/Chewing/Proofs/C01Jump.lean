import Chewing.Proofs.C01Next
/-!
C01, part 10: `jump_to_{first,last,next,prev}_selection_point` while a phrase candidate list is open
(`chewing_cand_list_{first,last,next,prev}`).  The searches `next_selection_point` / `prev_selection_point`
terminate without panic and stay on the run of syllables around the position the list was opened at
(`Anchor`); `jump_to_last_selection_point` shrinks the range at most `end - begin - 1` times;
`jump_to_first_selection_point` is `init` again from that position.
-/
namespace Chewing.C01
open Chewing Chewing.C04 Chewing.C05 Chewing.C06

variable {D L : Type} {env : Env D L} {G : D → Prop} {w : Prop}

/-! ## `next_selection_point` -/

/-- what `next_selection_point` answers from the range `b..e`: a strictly shorter non-empty range inside it
    that keeps the anchored end -/
def NextPt (s : PhraseSel) (b e : Nat) (r : Option (Nat × Nat)) : Prop :=
  ∀ b' e', r = some (b', e') → b ≤ b' ∧ b' < e' ∧ e' ≤ e ∧ e' - b' < e - b ∧
    (s.forward = true → b' = b) ∧ (s.forward = false → e' = e)

/-- fuel sufficiency: every round shortens the range by one symbol, a one-symbol range ends the search -/
theorem nsp_go_ok (d : D) (s : PhraseSel) : ∀ (fuel b e : Nat), b < e → e ≤ s.com.symbols.length → e - b ≤ fuel →
    OkAnd (NextPt s b e) (PhraseSel.nextSelectionPoint.go env s d fuel b e) := by
  intro fuel
  induction fuel with
  | zero => intro b e h1 _ h3; omega
  | succ fuel ih =>
    intro b e h1 h2 h3
    simp only [PhraseSel.nextSelectionPoint.go]
    by_cases hf : s.forward = true
    · rw [if_pos hf, if_neg (by simp only [beq_iff_eq]; omega)]
      by_cases hb : b = e - 1
      · rw [if_pos (by simp only [beq_iff_eq]; exact hb)]
        exact .ok (fun _ _ h => by cases h)
      · rw [if_neg (by simp only [beq_iff_eq]; exact hb)]
        rw [rangeHasPhrase_ok s d (by omega) (by omega)]
        cases hp : env.hasPhrase d (sylPrefix (List.take (e - 1 - b) (List.drop b s.com.symbols))) s.strategy with
        | true =>
          refine .ok ?_
          intro b' e' h
          injection h with h; injection h with hb' he'
          subst hb' he'
          exact ⟨Nat.le_refl _, by omega, by omega, by omega, (fun _ => rfl), (fun hh => by rw [hf] at hh; cases hh)⟩
        | false =>
          dsimp only
          obtain ⟨r, hq, hr⟩ := ih b (e - 1) (by omega) (by omega) (by omega)
          refine ⟨r, hq, ?_⟩
          intro b' e' h
          obtain ⟨a1, a2, a3, a4, a5, _⟩ := hr b' e' h
          exact ⟨a1, a2, by omega, by omega, a5, (fun hh => by rw [hf] at hh; cases hh)⟩
    · rw [if_neg hf]
      by_cases hb : b + 1 = e
      · rw [if_pos (by simp only [beq_iff_eq]; exact hb)]
        exact .ok (fun _ _ h => by cases h)
      · rw [if_neg (by simp only [beq_iff_eq]; exact hb)]
        rw [rangeHasPhrase_ok s d (by omega) h2]
        cases hp : env.hasPhrase d (sylPrefix (List.take (e - (b + 1)) (List.drop (b + 1) s.com.symbols))) s.strategy with
        | true =>
          refine .ok ?_
          intro b' e' h
          injection h with h; injection h with hb' he'
          subst hb' he'
          exact ⟨by omega, by omega, Nat.le_refl _, by omega, (fun hh => absurd hh hf), (fun _ => rfl)⟩
        | false =>
          dsimp only
          obtain ⟨r, hq, hr⟩ := ih (b + 1) e (by omega) h2 (by omega)
          refine ⟨r, hq, ?_⟩
          intro b' e' h
          obtain ⟨a1, a2, a3, a4, _, a6⟩ := hr b' e' h
          exact ⟨by omega, a2, a3, by omega, (fun hh => absurd hh hf), a6⟩

/-- **`next_selection_point`**: no panic, terminates within the fuel `len + 2` -/
theorem nextSelectionPoint_ok (d : D) (s : PhraseSel) (hr : RangeOK s) :
    OkAnd (NextPt s s.begin_ s.end_) (PhraseSel.nextSelectionPoint env s d) := by
  unfold PhraseSel.nextSelectionPoint
  exact nsp_go_ok d s _ _ _ hr.lt hr.le (by simp only [Composition.len]; have := hr.le; omega)

/-- moving to the answer of `next_selection_point` keeps the selector well formed -/
theorem nextPt_range {s : PhraseSel} (hr : RangeOK s) {b e : Nat} (h : NextPt s s.begin_ s.end_ (some (b, e))) :
    RangeOK { s with begin_ := b, end_ := e } ∧ Keep s { s with begin_ := b, end_ := e } ∧ e - b < s.end_ - s.begin_ := by
  obtain ⟨a1, a2, a3, a4, a5, a6⟩ := h b e rfl
  refine ⟨⟨a2, Nat.le_trans a3 hr.le, fun j h1 h2 => hr.syl j (Nat.le_trans a1 h1) (Nat.lt_of_lt_of_le h2 a3)⟩,
    ⟨rfl, rfl, rfl, a5, a6⟩, a4⟩

/-! ## `jump_to_last_selection_point` -/

/-- what a range move of an open selector keeps -/
structure JumpPost (s s' : PhraseSel) : Prop where
  strategy : s'.strategy = s.strategy
  range : RangeOK s'
  keep : Keep s s'

/-- fuel sufficiency: every round shortens the range -/
theorem jumpToLast_go_ok (d : D) : ∀ (fuel : Nat) (s : PhraseSel), RangeOK s → s.end_ - s.begin_ ≤ fuel →
    OkAnd (JumpPost s) (PhraseSel.jumpToLast.go env d fuel s) := by
  intro fuel
  induction fuel with
  | zero => intro s hr h; have := hr.lt; omega
  | succ fuel ih =>
    intro s hr h
    simp only [PhraseSel.jumpToLast.go]
    obtain ⟨r, hq, hp⟩ := nextSelectionPoint_ok (env := env) d s hr
    rw [hq]
    cases r with
    | none => exact .ok ⟨rfl, hr, Keep.refl _⟩
    | some be =>
      obtain ⟨b, e⟩ := be
      dsimp only
      obtain ⟨hr', hk, hlt⟩ := nextPt_range hr hp
      obtain ⟨s', hq', hj⟩ := ih { s with begin_ := b, end_ := e } hr' (by show e - b ≤ fuel; omega)
      exact ⟨s', hq', ⟨hj.strategy, hj.range, hk.trans hj.keep⟩⟩

theorem jumpToLast_ok (d : D) (s : PhraseSel) (hr : RangeOK s) : OkAnd (JumpPost s) (PhraseSel.jumpToLast env s d) := by
  unfold PhraseSel.jumpToLast
  exact jumpToLast_go_ok d _ s hr (by simp only [Composition.len]; have := hr.le; omega)

/-! ## `prev_selection_point` -/

/-- what `prev_selection_point` answers from the range `b..e`: a longer range that keeps the anchored end
    and does not pass the break points around `orig` -/
def PrevPt (s : PhraseSel) (b e : Nat) (r : Option (Nat × Nat)) : Prop :=
  ∀ b' e', r = some (b', e') → b' ≤ b ∧ e ≤ e' ∧ e' ≤ s.com.symbols.length ∧
    (s.forward = true → b' = b ∧ e' ≤ s.nextBreakPoint s.orig) ∧
    (s.forward = false → e' = e ∧ s.afterPreviousBreakPoint s.orig ≤ b')

/-- fuel sufficiency: every round lengthens the range by one symbol towards the end (forward) or the
    beginning (rearward) of the buffer, where the search ends -/
theorem psp_go_ok (d : D) (s : PhraseSel) : ∀ (fuel b e : Nat), b ≤ e → e ≤ s.com.symbols.length →
    (s.forward = true → s.com.symbols.length - e < fuel) → (s.forward = false → b < fuel) →
    OkAnd (PrevPt s b e) (PhraseSel.prevSelectionPoint.go env s d fuel b e) := by
  intro fuel
  induction fuel with
  | zero =>
    intro b e _ _ h3 h4
    cases hf : s.forward with
    | true => have := h3 hf; omega
    | false => have := h4 hf; omega
  | succ fuel ih =>
    intro b e h1 h2 h3 h4
    simp only [PhraseSel.prevSelectionPoint.go]
    by_cases hf : s.forward = true
    · rw [if_pos hf]
      by_cases he : e = s.com.len
      · rw [if_pos (by simp only [beq_iff_eq]; exact he)]
        exact .ok (fun _ _ h => by cases h)
      · rw [if_neg (by simp only [beq_iff_eq]; exact he)]
        have he' : e < s.com.symbols.length := by simp only [Composition.len] at he; omega
        split
        · exact .ok (fun _ _ h => by cases h)
        · next hnb =>
          rw [rangeHasPhrase_ok s d (by omega) (by omega)]
          cases hp : env.hasPhrase d (sylPrefix (List.take (e + 1 - b) (List.drop b s.com.symbols))) s.strategy with
          | true =>
            refine .ok ?_
            intro b' e' h
            injection h with h; injection h with hb' he''
            subst hb' he''
            exact ⟨Nat.le_refl _, by omega, by omega, (fun _ => ⟨rfl, by omega⟩), (fun hh => by rw [hf] at hh; cases hh)⟩
          | false =>
            dsimp only
            obtain ⟨r, hq, hr⟩ := ih b (e + 1) (by omega) (by omega) (fun _ => by have := h3 hf; omega)
              (fun hh => by rw [hf] at hh; cases hh)
            refine ⟨r, hq, ?_⟩
            intro b' e' h
            obtain ⟨a1, a2, a3, a4, _⟩ := hr b' e' h
            exact ⟨a1, by omega, a3, a4, (fun hh => by rw [hf] at hh; cases hh)⟩
    · rw [if_neg hf]
      have hff : s.forward = false := by cases hx : s.forward <;> simp_all
      by_cases hb : b = 0
      · rw [if_pos (by simp only [beq_iff_eq]; exact hb)]
        exact .ok (fun _ _ h => by cases h)
      · rw [if_neg (by simp only [beq_iff_eq]; exact hb)]
        split
        · exact .ok (fun _ _ h => by cases h)
        · next hnb =>
          rw [rangeHasPhrase_ok s d (by omega) h2]
          cases hp : env.hasPhrase d (sylPrefix (List.take (e - (b - 1)) (List.drop (b - 1) s.com.symbols))) s.strategy with
          | true =>
            refine .ok ?_
            intro b' e' h
            injection h with h; injection h with hb' he''
            subst hb' he''
            exact ⟨by omega, Nat.le_refl _, h2, (fun hh => absurd hh hf), (fun _ => ⟨rfl, by omega⟩)⟩
          | false =>
            dsimp only
            obtain ⟨r, hq, hr⟩ := ih (b - 1) e (by omega) h2 (fun hh => absurd hh hf) (fun _ => by have := h4 hff; omega)
            refine ⟨r, hq, ?_⟩
            intro b' e' h
            obtain ⟨a1, a2, a3, _, a5⟩ := hr b' e' h
            exact ⟨by omega, a2, a3, (fun hh => absurd hh hf), a5⟩

/-- **`prev_selection_point`**: no panic, terminates within the fuel `len + 2` -/
theorem prevSelectionPoint_ok (d : D) (s : PhraseSel) (hr : RangeOK s) :
    OkAnd (PrevPt s s.begin_ s.end_) (PhraseSel.prevSelectionPoint env s d) := by
  unfold PhraseSel.prevSelectionPoint
  have := hr.lt; have := hr.le
  exact psp_go_ok d s _ _ _ (by omega) hr.le (fun _ => by simp only [Composition.len]; omega)
    (fun _ => by simp only [Composition.len]; omega)

/-- the symbol at the anchor is a syllable -/
theorem anchor_syl {s : PhraseSel} (hr : RangeOK s) (ha : Anchor s) : ∃ k, s.com.symbols[s.orig]? = some (Sym.syl k) := by
  cases hf : s.forward with
  | true => rw [← ha.fw hf]; exact hr.syl _ (Nat.le_refl _) hr.lt
  | false =>
    have he := ha.rw hf
    exact hr.syl s.orig (by have := hr.lt; omega) (by omega)

/-- moving to the answer of `prev_selection_point` keeps the selector well formed: the longer range still
    lies on the run of syllables around the anchor -/
theorem prevPt_range {s : PhraseSel} (hr : RangeOK s) (ha : Anchor s) {b e : Nat}
    (h : PrevPt s s.begin_ s.end_ (some (b, e))) :
    RangeOK { s with begin_ := b, end_ := e } ∧ Keep s { s with begin_ := b, end_ := e } := by
  obtain ⟨a1, a2, a3, a4, a5⟩ := h b e rfl
  have hlt := hr.lt
  cases hf : s.forward with
  | true =>
    obtain ⟨hb, hn⟩ := a4 hf
    obtain ⟨_, _, n3, _⟩ := nbp_spec s (c := s.orig) (Nat.le_of_lt ha.orig_lt)
    have hbo := ha.fw hf
    refine ⟨⟨by show b < e; omega, a3, ?_⟩, ⟨rfl, hf.symm, rfl, (fun _ => hb), (fun hh => by rw [hf] at hh; cases hh)⟩⟩
    intro j h1 h2
    exact n3 j (by have : b ≤ j := h1; omega) (by have : j < e := h2; omega)
  | false =>
    obtain ⟨he, hn⟩ := a5 hf
    obtain ⟨_, p2⟩ := apbp_spec s (c := s.orig) (Nat.le_of_lt ha.orig_lt)
    have heo := ha.rw hf
    refine ⟨⟨by show b < e; omega, a3, ?_⟩, ⟨rfl, hf.symm, rfl, (fun hh => by rw [hf] at hh; cases hh), (fun _ => he)⟩⟩
    intro j h1 h2
    have h1' : b ≤ j := h1
    have h2' : j < e := h2
    rcases Nat.lt_or_ge j s.orig with h3 | h3
    · exact p2 j (by omega) h3
    · have hj : j = s.orig := by omega
      have hsy := anchor_syl hr ha
      rw [hj]
      exact hsy

/-! ## the four jumps at the API -/

theorem PhraseOK.range {sh : Shared D L} {p : PhraseSel} (h : PhraseOK env w sh p) : RangeOK p := ⟨h.lt, h.le, h.syl⟩

theorem PhraseOK.move {sh : Shared D L} {p p' : PhraseSel} (h : PhraseOK env w sh p) (hs : p'.strategy = p.strategy)
    (hr : RangeOK p') (hk : Keep p p') : PhraseOK env w sh p' :=
  ⟨hk.com.trans h.com, hr.lt, hr.le, hr.syl, (fun hw c hc => by rw [hs]; exact h.word hw c (by rw [← hk.com]; exact hc)),
   h.anchor.keep hk⟩

/-- **`jump_to_{first,last,next,prev}_selection_point`** (`chewing_cand_list_{first,last,next,prev}`) in every
    state — also while a phrase candidate list is open: returns, and the invariant holds again -/
theorem jump_api_ok {e : Editor D L} (hi : EditorInv env G w e) (which : Nat) :
    OkAnd (fun x => EditorInv env G w x.1) (e.jump env which) := by
  unfold Editor.jump
  split
  · next s hst =>
    have hs : SelInv env w e.shared s := by have := hi.st; rw [hst] at this; exact this
    split
    · next p hp =>
      have hpo : PhraseOK env w e.shared p := by have := hs.sel; rw [hp] at this; exact this
      -- the editor with the selector moved to a well-formed range
      have fin : ∀ p' : PhraseSel, PhraseOK env w e.shared p' →
          EditorInv env G w { e with state := .selecting { s with sel := .phrase p', pageNo := 0 } } :=
        fun p' hp' => ⟨hi.sh, ⟨hp', fun _ => .inl ⟨p', rfl⟩⟩⟩
      dsimp only
      split
      · -- first: `init` again from the anchor
        obtain ⟨p', hq, q1, q2, q3, q4, q5, q6, _, _⟩ := init_ok (env := env) p.forward p.strategy p.com p.orig e.shared.dict
          hpo.anchor.orig_lt (anchor_syl hpo.range hpo.anchor)
        rw [hq]
        exact .ok (fin p' ⟨q1.trans hpo.com, q3, by rw [q1]; exact q4, by rw [q1]; exact q5,
          (fun hw c hc => by rw [q2]; rw [q1] at hc; exact hpo.word hw c hc), q6⟩)
      · -- last
        obtain ⟨p', hq, hj⟩ := jumpToLast_ok (env := env) e.shared.dict p hpo.range
        rw [hq]
        exact .ok (fin p' (hpo.move hj.strategy hj.range hj.keep))
      · -- next
        obtain ⟨r, hq, hr⟩ := nextSelectionPoint_ok (env := env) e.shared.dict p hpo.range
        rw [hq]
        cases r with
        | none => exact .ok hi
        | some be =>
          obtain ⟨b, en⟩ := be
          obtain ⟨hr', hk, _⟩ := nextPt_range hpo.range hr
          exact .ok (fin _ (hpo.move rfl hr' hk))
      · -- prev
        obtain ⟨r, hq, hr⟩ := prevSelectionPoint_ok (env := env) e.shared.dict p hpo.range
        rw [hq]
        cases r with
        | none => exact .ok hi
        | some be =>
          obtain ⟨b, en⟩ := be
          obtain ⟨hr', hk⟩ := prevPt_range hpo.range hpo.anchor hr
          exact .ok (fin _ (hpo.move rfl hr' hk))
    · exact .ok hi
  · exact .ok hi

end Chewing.C01
