import Chewing.Proofs.C01Select
/-!
C01, part 8: `PhraseSelector::next` (Down / Space on the last page) terminates without panic: a bounded loop
over ranges that stay non-empty runs of syllables; without any range that has a phrase it returns to the
range it started from (F03 repair).
Then Down/Space, j/k (`retarget`) and the whole of `Selecting::next` for lists that are not symbol tables.
-/
namespace Chewing.C01
open Chewing Chewing.C04 Chewing.C05 Chewing.C06

variable {D L : Type} {env : Env D L} {G : D → Prop} {w : Prop}

/-- the part of `PhraseOK` that does not mention the shared state -/
structure RangeOK (s : PhraseSel) : Prop where
  lt : s.begin_ < s.end_
  le : s.end_ ≤ s.com.symbols.length
  syl : AllSyl s.com s.begin_ s.end_

/-- what `next` keeps -/
structure NextPost (s s' : PhraseSel) : Prop where
  com : s'.com = s.com
  strategy : s'.strategy = s.strategy
  range : RangeOK s'
  keep : Keep s s'

/-- **`PhraseSelector::next`**: the bounded loop (`for _ in 0..len`): every round moves to a range that is again
    a non-empty run of syllables anchored like the one before (one symbol shorter, or — wrapping around —
    up to the break point); it ends at the first range with a phrase, or after the last round back on the
    range it started from.  No dictionary hypothesis (F03 repair: the loop used to spin forever when no
    range had a phrase). -/
theorem next_go_ok (d : D) (s : PhraseSel) (hrs : RangeOK s) : ∀ (fuel : Nat) (t : PhraseSel), RangeOK t →
    t.com = s.com → t.strategy = s.strategy → Keep s t →
    OkAnd (NextPost s) (PhraseSel.next.go env s d fuel t) := by
  intro fuel
  induction fuel with
  | zero =>
    intro t hr hc hst hk
    simp only [PhraseSel.next.go]
    exact .ok ⟨hc, hst,
      ⟨hrs.lt, (by show s.end_ ≤ t.com.symbols.length; rw [hc]; exact hrs.le),
       (by show AllSyl t.com s.begin_ s.end_; rw [hc]; exact hrs.syl)⟩,
      ⟨hc, hk.forward, hk.orig, (fun _ => rfl), (fun _ => rfl)⟩⟩
  | succ fuel ih =>
    intro t hr hc hst hk
    -- the range tried in this round
    have step : ∀ t' : PhraseSel, RangeOK t' → t'.com = t.com → t'.strategy = t.strategy → Keep t t' →
        OkAnd (NextPost s) (match PhraseSel.rangeHasPhrase env t' d t'.begin_ t'.end_ with
          | .ok true => .ok t'
          | .ok false => PhraseSel.next.go env s d fuel t'
          | .panic p => .panic p
          | .outOfFuel => .outOfFuel) := by
      intro t' hr' hc' hst' hk'
      rw [rangeHasPhrase_ok _ d (Nat.le_of_lt hr'.lt) hr'.le]
      cases env.hasPhrase d (sylPrefix (List.take (t'.end_ - t'.begin_) (List.drop t'.begin_ t'.com.symbols))) t'.strategy with
      | true => exact .ok ⟨hc'.trans hc, hst'.trans hst, hr', hk.trans hk'⟩
      | false => exact ih t' hr' (hc'.trans hc) (hst'.trans hst) (hk.trans hk')
    simp only [PhraseSel.next.go]
    by_cases hf : t.forward = true
    · rw [if_pos hf, if_neg (by simp only [beq_iff_eq]; have := hr.lt; omega)]
      try dsimp only
      by_cases hwrap : t.begin_ = t.end_ - 1
      · rw [if_pos (by simp only [beq_iff_eq]; exact hwrap)]
        obtain ⟨n1, n2, n3, n4⟩ := nbp_spec t (c := t.begin_) (by have := hr.le; have := hr.lt; omega)
        have n4 := n4 (hr.syl t.begin_ (Nat.le_refl _) hr.lt)
        exact step { t with end_ := t.nextBreakPoint t.begin_ } ⟨n4, n2, n3⟩ rfl rfl (Keep.setEnd hf _)
      · rw [if_neg (by simp only [beq_iff_eq]; exact hwrap)]
        exact step { t with end_ := t.end_ - 1 }
          ⟨by show t.begin_ < t.end_ - 1; have := hr.lt; omega,
           by show t.end_ - 1 ≤ t.com.symbols.length; have := hr.le; omega,
           fun j a b => hr.syl j a (by have : j < t.end_ - 1 := b; omega)⟩ rfl rfl (Keep.setEnd hf _)
    · rw [if_neg hf]
      try dsimp only
      by_cases hwrap : t.begin_ + 1 = t.end_
      · rw [if_pos (by simp only [beq_iff_eq]; exact hwrap)]
        obtain ⟨a1, a2⟩ := apbp_spec t (c := t.begin_ + 1 - 1) (by have := hr.le; have := hr.lt; omega)
        have hall : AllSyl t.com (t.afterPreviousBreakPoint (t.begin_ + 1 - 1)) t.end_ := by
          intro j h1 h2
          rcases Nat.lt_or_ge j (t.begin_ + 1 - 1) with h3 | h3
          · exact a2 j h1 h3
          · exact hr.syl j (by omega) h2
        exact step { t with begin_ := t.afterPreviousBreakPoint (t.begin_ + 1 - 1) }
          ⟨by show t.afterPreviousBreakPoint (t.begin_ + 1 - 1) < t.end_; omega, hr.le, hall⟩ rfl rfl (Keep.setBegin hf _)
      · rw [if_neg (by simp only [beq_iff_eq]; exact hwrap)]
        exact step { t with begin_ := t.begin_ + 1 }
          ⟨by show t.begin_ + 1 < t.end_; have := hr.lt; omega, hr.le,
           fun j a b => hr.syl j (by have : t.begin_ + 1 ≤ j := a; omega) b⟩ rfl rfl (Keep.setBegin hf _)

/-- **`PhraseSelector::next`** -/
theorem next_ok (d : D) (s : PhraseSel) (hr : RangeOK s) : OkAnd (NextPost s) (PhraseSel.next env s d) := by
  unfold PhraseSel.next
  exact next_go_ok d s hr _ s hr rfl rfl (Keep.refl s)

/-! ## Down / Space -/

theorem selDownSpace_ok (hE : EnvOK env G) {sh : Shared D L} (h : ShInv env G w sh) {s : Selecting}
    (hs : SelInv env w sh s) : SelResOK env G w (selDownSpace env s sh) := by
  obtain ⟨tp, hq, _⟩ := totalPage_ok hE h hs
  unfold selDownSpace
  rw [hq]
  dsimp only
  split
  · exact .ok ⟨h, fun _ _ => hs.page _, fun st hst => (by cases hst)⟩
  · have h1 := hs.sel
    split
    · next p hp =>
      rw [hp] at h1
      obtain ⟨p', hq', hn⟩ := next_ok (env := env) sh.dict p ⟨h1.lt, h1.le, h1.syl⟩
      rw [hq']
      refine .ok ⟨h, fun _ _ => ⟨?_, fun _ => .inl ⟨p', rfl⟩⟩, fun st hst => (by cases hst)⟩
      show PhraseOK env w sh p'
      exact ⟨hn.com.trans h1.com, hn.range.lt, hn.range.le, hn.range.syl, fun hw c hc => by
        rw [hn.strategy]; exact h1.word hw c (by rw [← hn.com]; exact hc), h1.anchor.keep hn.keep⟩
    · next hns =>
      refine .ok ⟨h, fun _ _ => ⟨?_, fun ha => ?_⟩, fun st hst => (by cases hst)⟩
      · exact hs.sel
      · exact hs.repl ha

/-! ## j / k -/

theorem retarget_ok {sh : Shared D L} (h : ShInv env G w sh) (s : Selecting)
    (hlt : sh.com.cursor < sh.com.inner.symbols.length) :
    OkAnd (fun x => ShInv env G w x.1 ∧ ∃ s', x.2 = .toState (.selecting s') ∧ SelInv env w x.1 s') (retarget env s sh) := by
  unfold retarget
  have hsym : sh.com.symbol? = some (sh.com.inner.symbols[sh.com.cursor]) := by
    unfold CompEditor.symbol?
    rw [symbol?_lt hlt, List.getElem?_eq_getElem hlt]
  rw [hsym]
  dsimp only
  cases hx : sh.com.inner.symbols[sh.com.cursor] with
  | syl k =>
    simp only [Sym.isSyl, if_true]
    have hk : sh.com.inner.symbols[sh.com.cursor]? = some (Sym.syl k) := by rw [List.getElem?_eq_getElem hlt, hx]
    obtain ⟨p, hq, p1, p2, p3, p4, p5, p6, _, _⟩ := init_ok (env := env) (!sh.options.phraseChoiceRearward) sh.options.lookupStrategy
      sh.com.inner sh.com.cursor sh.dict hlt ⟨k, hk⟩
    rw [hq]
    refine .ok ⟨h, _, rfl, ?_, fun _ => .inl ⟨p, rfl⟩⟩
    show PhraseOK env w sh p
    exact ⟨p1, p3, by rw [p1]; exact p4, by rw [p1]; exact p5, (fun hw c hc => by rw [p2]; rw [p1] at hc; exact (h.word hw c hc).2), p6⟩
  | chr ch =>
    simp only [Sym.isSyl]
    have hk : sh.com.inner.symbols[sh.com.cursor]? = some (Sym.chr ch) := by rw [List.getElem?_eq_getElem hlt, hx]
    -- (C07 fix) a symbol without special-symbol candidates gets the symbol table, the others their own list
    obtain ⟨l, hl⟩ := specialMenu_chr ch
    rw [hl]
    cases l with
    | nil => exact .ok ⟨h, _, rfl, h.symOK, fun _ => .inr ⟨ch, hk⟩⟩
    | cons a as => exact .ok ⟨h, _, rfl, rfl, fun _ => .inr ⟨ch, hk⟩⟩

/-- the end of the `j` / `k` arms: a list without candidates is closed (saved cursor restored) -/
theorem closeIfEmpty_ok (hE : EnvOK env G) {r : SelRes D L} (h : ShInv env G w r.shared) (hs : SelInv env w r.shared r.sel)
    (ht : r.trans = .spin .absorb) : SelResOK env G w (closeIfEmpty env r) := by
  obtain ⟨tp, hq, _⟩ := totalPage_ok hE h hs
  unfold closeIfEmpty
  rw [hq]
  dsimp only
  split
  · exact .ok ⟨cancel_inv h, fun b hb => (by cases hb), fun st hst => (by cases hst; trivial)⟩
  · exact .ok ⟨h, fun _ _ => hs, fun st hst => (by rw [ht] at hst; cases hst)⟩

theorem selMove_ok (hE : EnvOK env G) {sh : Shared D L} (h : ShInv env G w sh) {s : Selecting} (hs : SelInv env w sh s) (isJ : Bool) :
    SelResOK env G w (selMove env s sh isJ) := by
  unfold selMove
  split
  · exact .ok ⟨h, fun _ _ => hs, fun st hst => (by cases hst)⟩
  · next hne =>
    have hpos : 0 < sh.com.inner.symbols.length := by
      simp only [CompEditor.isEmpty, Composition.isEmpty, Composition.len, beq_iff_eq] at hne; omega
    have hbegin : (match s.sel with | .phrase p => p.begin_ | _ => sh.com.cursor) ≤ sh.com.inner.symbols.length := by
      have h1 := hs.sel
      split
      · next p hp => rw [hp] at h1; have := h1.lt; have := h1.le; rw [h1.com] at this; omega
      · exact h.ced.cur
    have hJ : ∀ b, b ≤ sh.com.inner.symbols.length → (sh.com.moveCursor (b - 1)).cursor < sh.com.inner.symbols.length := by
      intro b hb
      show min (b - 1) sh.com.inner.len < _
      simp only [Composition.len]; omega
    have hK : ∀ b, ((sh.com.moveCursor (b + 1)).clampCursor).cursor < sh.com.inner.symbols.length := by
      intro b
      unfold CompEditor.clampCursor
      split
      · next he =>
        show (sh.com.moveCursor (b + 1)).cursor - 1 < _
        simp only [CompEditor.moveCursor, Composition.len] at he ⊢; omega
      · next he =>
        show (sh.com.moveCursor (b + 1)).cursor < _
        simp only [CompEditor.moveCursor, Composition.len] at he ⊢; omega
    dsimp only
    have key : ∀ com : CompEditor, CedInv com → com.inner = sh.com.inner → com.cursor < sh.com.inner.symbols.length →
        SelResOK env G w (match retarget env s { sh with com := com } with
          | .ok (sh', .toState (.selecting s')) => closeIfEmpty env ⟨sh', s', .spin .absorb⟩
          | .ok (sh', _) => closeIfEmpty env ⟨sh', s, .spin .absorb⟩
          | .panic q => .panic q
          | .outOfFuel => .outOfFuel) := by
      intro com hc hin hcur
      have h1 : ShInv env G w { sh with com := com } := h.setComSame hc (by rw [hin])
      obtain ⟨⟨sh', t⟩, hq, hi, s', ht, hs'⟩ := retarget_ok h1 s (by show com.cursor < com.inner.symbols.length; rw [hin]; exact hcur)
      rw [hq]
      simp only at ht
      subst ht
      exact closeIfEmpty_ok hE (r := ⟨sh', s', .spin .absorb⟩) hi hs' rfl
    cases isJ with
    | true =>
      simp only [if_true]
      exact key _ (ced_moveCursor h.ced _) rfl (hJ _ hbegin)
    | false =>
      simp only [Bool.false_eq_true, if_false]
      exact key _ (ced_clampCursor (ced_moveCursor h.ced _)) (clampCursor_inner _) (hK _)

/-! ## digits, and all of `Selecting::next` for lists that are not symbol tables -/

theorem selDigit_ok (hE : EnvOK env G) {sh : Shared D L} (h : ShInv env G w sh) {s : Selecting}
    (hs : SelInv env w sh s) (c : Nat) : SelResOK env G w (selDigit env s sh c) := by
  obtain ⟨⟨s', sh', t⟩, hq, h1, h2, h3⟩ := select_ok hE h hs (c - 1)
  unfold selDigit
  rw [hq]
  exact .ok ⟨h1, h2, h3⟩

theorem selectingNext_ok (hE : EnvOK env G) {sh : Shared D L} {s : Selecting} (h : ShInv env G w sh)
    (hs : SelInv env w sh s) (ev : KeyEvent) : SelResOK env G w (selectingNext env s sh ev) := by
  have leafSpin : ∀ b, SelResOK env G w (.ok ⟨sh, s, .spin b⟩) :=
    fun b => .ok ⟨h, fun _ _ => hs, fun st hst => (by cases hst)⟩
  have leafTo : ∀ sh' : Shared D L, ShInv env G w sh' → SelResOK env G w (.ok ⟨sh', s, .toState .entering⟩) :=
    fun sh' h' => .ok ⟨h', fun b hb => (by cases hb), fun st hst => (by cases hst; trivial)⟩
  unfold selectingNext
  refine selResOK_ite (fun _ => leafSpin _) fun _ => ?_
  refine selResOK_ite (fun _ => leafTo _ (cancel_inv h)) fun _ => ?_
  refine selResOK_ite (fun _ => leafTo _ (cancel_inv (h.congr rfl rfl rfl rfl rfl rfl))) fun _ => ?_
  refine selResOK_ite (fun _ => leafTo _ (cancel_inv h)) fun _ => ?_
  refine selResOK_ite (fun _ => selDownSpace_ok hE h hs) fun _ => ?_
  refine selResOK_ite (fun _ => selMove_ok hE h hs _) fun _ => ?_
  refine selResOK_ite (fun _ => selMove_ok hE h hs _) fun _ => ?_
  refine selResOK_ite (fun _ => selPrevPage_ok hE h hs) fun _ => ?_
  refine selResOK_ite (fun _ => selNextPage_ok hE h hs) fun _ => ?_
  refine selResOK_ite (fun _ => selDigit_ok hE h hs _) fun _ => ?_
  refine selResOK_ite (fun _ => ?_) fun _ => ?_
  · refine leafTo _ ?_
    exact (cancel_inv h).setComSame (ced_popCursor (cancel_inv h).ced) (by rw [popCursor_inner])
  · exact selResOK_ite (fun _ => leafSpin _) (fun _ => leafSpin _)

end Chewing.C01
