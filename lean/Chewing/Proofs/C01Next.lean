import Chewing.Proofs.C01Select
/-!
C01, part 8: `PhraseSelector::next` (Down / Space on the last page) terminates without panic: the range
shrinks towards the single syllable at its fixed end, which has a word; it wraps around at most once.
Then Down/Space, j/k (`retarget`) and the whole of `Selecting::next` for lists that are not symbol tables.
-/
namespace Chewing.C01
open Chewing Chewing.C04 Chewing.C05 Chewing.C06

variable {D L : Type} {env : Env D L} {G : D → Prop}

/-- the part of `PhraseOK` that does not mention the shared state -/
structure RangeOK (s : PhraseSel) : Prop where
  lt : s.begin_ < s.end_
  le : s.end_ ≤ s.com.symbols.length
  syl : AllSyl s.com s.begin_ s.end_

/-- what `next` keeps -/
structure NextPost (s s' : PhraseSel) : Prop where
  com : s'.com = s.com
  strategy : s'.strategy = s.strategy
  range : RangeOK s'

theorem single_true (d : D) (s : PhraseSel) (hr : RangeOK s) (h1 : s.end_ = s.begin_ + 1)
    (hw : ∀ c, Sym.syl c ∈ s.com.symbols → env.hasPhrase d [c] s.strategy = true) :
    PhraseSel.rangeHasPhrase env s d s.begin_ s.end_ = .ok true := by
  obtain ⟨k, hk⟩ := hr.syl s.begin_ (Nat.le_refl _) hr.lt
  rw [h1]
  exact rangeHasPhrase_single s d hk (hw k (mem_of_getElem? hk)) (by have := hr.le; omega)

/-- the shrinking phase (no wrap-around): at least two syllables in the range -/
theorem next_go_shrink (d : D) : ∀ (fuel : Nat) (s : PhraseSel), RangeOK s → s.begin_ + 2 ≤ s.end_ →
    s.end_ - s.begin_ ≤ fuel + 1 → (∀ c, Sym.syl c ∈ s.com.symbols → env.hasPhrase d [c] s.strategy = true) →
    OkAnd (NextPost s) (PhraseSel.next.go env d fuel s) := by
  intro fuel
  induction fuel with
  | zero => intro s hr h2 h3 _; omega
  | succ fuel ih =>
    intro s hr h2 h3 hw
    simp only [PhraseSel.next.go]
    by_cases hf : s.forward = true
    · rw [if_pos hf, if_neg (by simp only [beq_iff_eq]; omega)]
      try dsimp only
      rw [if_neg (by simp only [beq_iff_eq]; omega)]
      have hr' : RangeOK { s with end_ := s.end_ - 1 } :=
        ⟨by show s.begin_ < s.end_ - 1; omega, by show s.end_ - 1 ≤ s.com.symbols.length; have := hr.le; omega,
         fun j a b => hr.syl j a (by have : j < s.end_ - 1 := b; omega)⟩
      rw [rangeHasPhrase_ok _ d (by show s.begin_ ≤ s.end_ - 1; omega) hr'.le]
      cases hb : env.hasPhrase d (sylPrefix (List.take (s.end_ - 1 - s.begin_) (List.drop s.begin_ s.com.symbols))) s.strategy with
      | true => exact .ok ⟨rfl, rfl, hr'⟩
      | false =>
        dsimp only
        have hlong : s.begin_ + 2 ≤ s.end_ - 1 := by
          rcases Nat.lt_or_ge (s.begin_ + 1) (s.end_ - 1) with hh | hh
          · omega
          · exfalso
            have := single_true (env := env) d { s with end_ := s.end_ - 1 } hr' (by show s.end_ - 1 = s.begin_ + 1; omega) hw
            rw [rangeHasPhrase_ok _ d (by show s.begin_ ≤ s.end_ - 1; omega) hr'.le] at this
            injection this with this
            rw [this] at hb; cases hb
        obtain ⟨s', hq, hp⟩ := ih { s with end_ := s.end_ - 1 } hr' hlong (by show s.end_ - 1 - s.begin_ ≤ fuel + 1; omega) hw
        exact ⟨s', hq, ⟨hp.com, hp.strategy, hp.range⟩⟩
    · rw [if_neg hf]
      try dsimp only
      rw [if_neg (by simp only [beq_iff_eq]; omega)]
      have hr' : RangeOK { s with begin_ := s.begin_ + 1 } :=
        ⟨by show s.begin_ + 1 < s.end_; omega, hr.le,
         fun j a b => hr.syl j (by have : s.begin_ + 1 ≤ j := a; omega) b⟩
      rw [rangeHasPhrase_ok _ d (by show s.begin_ + 1 ≤ s.end_; omega) hr'.le]
      cases hb : env.hasPhrase d (sylPrefix (List.take (s.end_ - (s.begin_ + 1)) (List.drop (s.begin_ + 1) s.com.symbols))) s.strategy with
      | true => exact .ok ⟨rfl, rfl, hr'⟩
      | false =>
        dsimp only
        have hlong : s.begin_ + 1 + 2 ≤ s.end_ := by
          rcases Nat.lt_or_ge (s.begin_ + 2) s.end_ with hh | hh
          · omega
          · exfalso
            have := single_true (env := env) d { s with begin_ := s.begin_ + 1 } hr' (by show s.end_ = s.begin_ + 1 + 1; omega) hw
            rw [rangeHasPhrase_ok _ d (by show s.begin_ + 1 ≤ s.end_; omega) hr'.le] at this
            injection this with this
            rw [this] at hb; cases hb
        obtain ⟨s', hq, hp⟩ := ih { s with begin_ := s.begin_ + 1 } hr' hlong (by show s.end_ - (s.begin_ + 1) ≤ fuel + 1; omega) hw
        exact ⟨s', hq, ⟨hp.com, hp.strategy, hp.range⟩⟩

/-- **`PhraseSelector::next`** -/
theorem next_ok (d : D) (s : PhraseSel) (hr : RangeOK s)
    (hw : ∀ c, Sym.syl c ∈ s.com.symbols → env.hasPhrase d [c] s.strategy = true) :
    OkAnd (NextPost s) (PhraseSel.next env s d) := by
  unfold PhraseSel.next
  rcases Nat.lt_or_ge (s.begin_ + 1) s.end_ with hlong | hshort
  · exact next_go_shrink d _ s hr (by omega) (by simp only [Composition.len]; have := hr.le; omega) hw
  · have he : s.end_ = s.begin_ + 1 := by have := hr.lt; omega
    -- one wrap-around step, then the shrinking phase
    obtain ⟨f, hf4, hfge⟩ : ∃ f, 2 * s.com.len + 4 = f + 1 ∧ 2 * s.com.len + 3 ≤ f := ⟨_, rfl, Nat.le_refl _⟩
    rw [hf4]
    simp only [PhraseSel.next.go]
    by_cases hf : s.forward = true
    · rw [if_pos hf, if_neg (by simp only [beq_iff_eq]; omega)]
      try dsimp only
      rw [if_pos (by simp only [beq_iff_eq]; omega)]
      obtain ⟨n1, n2, n3, n4⟩ := nbp_spec s (c := s.begin_) (by have := hr.le; omega)
      have n4 := n4 (hr.syl s.begin_ (Nat.le_refl _) hr.lt)
      have hr' : RangeOK { s with end_ := s.nextBreakPoint s.begin_ } := ⟨n4, n2, n3⟩
      rw [rangeHasPhrase_ok _ d (by show s.begin_ ≤ s.nextBreakPoint s.begin_; omega) hr'.le]
      cases hb : env.hasPhrase d (sylPrefix (List.take (s.nextBreakPoint s.begin_ - s.begin_) (List.drop s.begin_ s.com.symbols))) s.strategy with
      | true => exact .ok ⟨rfl, rfl, hr'⟩
      | false =>
        dsimp only
        have hlong : s.begin_ + 2 ≤ s.nextBreakPoint s.begin_ := by
          rcases Nat.lt_or_ge (s.begin_ + 1) (s.nextBreakPoint s.begin_) with hh | hh
          · omega
          · exfalso
            have := single_true (env := env) d { s with end_ := s.nextBreakPoint s.begin_ } hr'
              (by show s.nextBreakPoint s.begin_ = s.begin_ + 1; omega) hw
            rw [rangeHasPhrase_ok _ d (by show s.begin_ ≤ s.nextBreakPoint s.begin_; omega) hr'.le] at this
            injection this with this
            rw [this] at hb; cases hb
        obtain ⟨s', hq, hp⟩ := next_go_shrink (env := env) d f { s with end_ := s.nextBreakPoint s.begin_ } hr' hlong
          (by show s.nextBreakPoint s.begin_ - s.begin_ ≤ f + 1; simp only [Composition.len] at hfge; omega) hw
        exact ⟨s', hq, ⟨hp.com, hp.strategy, hp.range⟩⟩
    · rw [if_neg hf]
      try dsimp only
      rw [if_pos (by simp only [beq_iff_eq]; omega)]
      obtain ⟨a1, a2⟩ := apbp_spec s (c := s.begin_ + 1 - 1) (by have := hr.le; omega)
      have hall : AllSyl s.com (s.afterPreviousBreakPoint (s.begin_ + 1 - 1)) s.end_ := by
        intro j h1 h2
        rcases Nat.lt_or_ge j (s.begin_ + 1 - 1) with h3 | h3
        · exact a2 j h1 h3
        · exact hr.syl j (by omega) h2
      have hr' : RangeOK { s with begin_ := s.afterPreviousBreakPoint (s.begin_ + 1 - 1) } :=
        ⟨by show s.afterPreviousBreakPoint (s.begin_ + 1 - 1) < s.end_; omega, hr.le, hall⟩
      rw [rangeHasPhrase_ok _ d (by show s.afterPreviousBreakPoint (s.begin_ + 1 - 1) ≤ s.end_; omega) hr'.le]
      cases hb : env.hasPhrase d (sylPrefix (List.take (s.end_ - s.afterPreviousBreakPoint (s.begin_ + 1 - 1))
          (List.drop (s.afterPreviousBreakPoint (s.begin_ + 1 - 1)) s.com.symbols))) s.strategy with
      | true => exact .ok ⟨rfl, rfl, hr'⟩
      | false =>
        dsimp only
        have hlong : s.afterPreviousBreakPoint (s.begin_ + 1 - 1) + 2 ≤ s.end_ := by
          rcases Nat.lt_or_ge (s.afterPreviousBreakPoint (s.begin_ + 1 - 1) + 1) s.end_ with hh | hh
          · omega
          · exfalso
            have := single_true (env := env) d { s with begin_ := s.afterPreviousBreakPoint (s.begin_ + 1 - 1) } hr'
              (by show s.end_ = s.afterPreviousBreakPoint (s.begin_ + 1 - 1) + 1; omega) hw
            rw [rangeHasPhrase_ok _ d (by show s.afterPreviousBreakPoint (s.begin_ + 1 - 1) ≤ s.end_; omega) hr'.le] at this
            injection this with this
            rw [this] at hb; cases hb
        obtain ⟨s', hq, hp⟩ := next_go_shrink (env := env) d f
          { s with begin_ := s.afterPreviousBreakPoint (s.begin_ + 1 - 1) } hr' hlong
          (by show s.end_ - s.afterPreviousBreakPoint (s.begin_ + 1 - 1) ≤ f + 1
              simp only [Composition.len] at hfge; have := hr.le; omega) hw
        exact ⟨s', hq, ⟨hp.com, hp.strategy, hp.range⟩⟩

end Chewing.C01
