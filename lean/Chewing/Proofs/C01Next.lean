import Chewing.Proofs.C01Select
/-!
C01, part 8: `PhraseSelector::next` (Down / Space on the last page) terminates without panic: the range
shrinks towards the single syllable at its fixed end, which has a word; it wraps around at most once.
Then Down/Space, j/k (`retarget`) and the whole of `Selecting::next` for lists that are not symbol tables.
-/
namespace Chewing.C01
open Chewing Chewing.C04 Chewing.C05 Chewing.C06

variable {D L : Type} {env : Env D L} {G : D → Prop}

/-- the part of `PhraseOK` that does not mention the shared state -/
structure RangeOK (s : PhraseSel) : Prop where
  lt : s.begin_ < s.end_
  le : s.end_ ≤ s.com.symbols.length
  syl : AllSyl s.com s.begin_ s.end_

/-- what `next` keeps -/
structure NextPost (s s' : PhraseSel) : Prop where
  com : s'.com = s.com
  strategy : s'.strategy = s.strategy
  range : RangeOK s'
  keep : Keep s s'

theorem single_true (d : D) (s : PhraseSel) (hr : RangeOK s) (h1 : s.end_ = s.begin_ + 1)
    (hw : ∀ c, Sym.syl c ∈ s.com.symbols → env.hasPhrase d [c] s.strategy = true) :
    PhraseSel.rangeHasPhrase env s d s.begin_ s.end_ = .ok true := by
  obtain ⟨k, hk⟩ := hr.syl s.begin_ (Nat.le_refl _) hr.lt
  rw [h1]
  exact rangeHasPhrase_single s d hk (hw k (mem_of_getElem? hk)) (by have := hr.le; omega)

/-- the shrinking phase (no wrap-around): at least two syllables in the range -/
theorem next_go_shrink (d : D) : ∀ (fuel : Nat) (s : PhraseSel), RangeOK s → s.begin_ + 2 ≤ s.end_ →
    s.end_ - s.begin_ ≤ fuel + 1 → (∀ c, Sym.syl c ∈ s.com.symbols → env.hasPhrase d [c] s.strategy = true) →
    OkAnd (NextPost s) (PhraseSel.next.go env d fuel s) := by
  intro fuel
  induction fuel with
  | zero => intro s hr h2 h3 _; omega
  | succ fuel ih =>
    intro s hr h2 h3 hw
    simp only [PhraseSel.next.go]
    by_cases hf : s.forward = true
    · rw [if_pos hf, if_neg (by simp only [beq_iff_eq]; omega)]
      try dsimp only
      rw [if_neg (by simp only [beq_iff_eq]; omega)]
      have hr' : RangeOK { s with end_ := s.end_ - 1 } :=
        ⟨by show s.begin_ < s.end_ - 1; omega, by show s.end_ - 1 ≤ s.com.symbols.length; have := hr.le; omega,
         fun j a b => hr.syl j a (by have : j < s.end_ - 1 := b; omega)⟩
      rw [rangeHasPhrase_ok _ d (by show s.begin_ ≤ s.end_ - 1; omega) hr'.le]
      cases hb : env.hasPhrase d (sylPrefix (List.take (s.end_ - 1 - s.begin_) (List.drop s.begin_ s.com.symbols))) s.strategy with
      | true => exact .ok ⟨rfl, rfl, hr', Keep.setEnd hf _⟩
      | false =>
        dsimp only
        have hlong : s.begin_ + 2 ≤ s.end_ - 1 := by
          rcases Nat.lt_or_ge (s.begin_ + 1) (s.end_ - 1) with hh | hh
          · omega
          · exfalso
            have := single_true (env := env) d { s with end_ := s.end_ - 1 } hr' (by show s.end_ - 1 = s.begin_ + 1; omega) hw
            rw [rangeHasPhrase_ok _ d (by show s.begin_ ≤ s.end_ - 1; omega) hr'.le] at this
            injection this with this
            rw [this] at hb; cases hb
        obtain ⟨s', hq, hp⟩ := ih { s with end_ := s.end_ - 1 } hr' hlong (by show s.end_ - 1 - s.begin_ ≤ fuel + 1; omega) hw
        exact ⟨s', hq, ⟨hp.com, hp.strategy, hp.range, (Keep.setEnd hf _).trans hp.keep⟩⟩
    · rw [if_neg hf]
      try dsimp only
      rw [if_neg (by simp only [beq_iff_eq]; omega)]
      have hr' : RangeOK { s with begin_ := s.begin_ + 1 } :=
        ⟨by show s.begin_ + 1 < s.end_; omega, hr.le,
         fun j a b => hr.syl j (by have : s.begin_ + 1 ≤ j := a; omega) b⟩
      rw [rangeHasPhrase_ok _ d (by show s.begin_ + 1 ≤ s.end_; omega) hr'.le]
      cases hb : env.hasPhrase d (sylPrefix (List.take (s.end_ - (s.begin_ + 1)) (List.drop (s.begin_ + 1) s.com.symbols))) s.strategy with
      | true => exact .ok ⟨rfl, rfl, hr', Keep.setBegin hf _⟩
      | false =>
        dsimp only
        have hlong : s.begin_ + 1 + 2 ≤ s.end_ := by
          rcases Nat.lt_or_ge (s.begin_ + 2) s.end_ with hh | hh
          · omega
          · exfalso
            have := single_true (env := env) d { s with begin_ := s.begin_ + 1 } hr' (by show s.end_ = s.begin_ + 1 + 1; omega) hw
            rw [rangeHasPhrase_ok _ d (by show s.begin_ + 1 ≤ s.end_; omega) hr'.le] at this
            injection this with this
            rw [this] at hb; cases hb
        obtain ⟨s', hq, hp⟩ := ih { s with begin_ := s.begin_ + 1 } hr' hlong (by show s.end_ - (s.begin_ + 1) ≤ fuel + 1; omega) hw
        exact ⟨s', hq, ⟨hp.com, hp.strategy, hp.range, (Keep.setBegin hf _).trans hp.keep⟩⟩

/-- **`PhraseSelector::next`** -/
theorem next_ok (d : D) (s : PhraseSel) (hr : RangeOK s)
    (hw : ∀ c, Sym.syl c ∈ s.com.symbols → env.hasPhrase d [c] s.strategy = true) :
    OkAnd (NextPost s) (PhraseSel.next env s d) := by
  unfold PhraseSel.next
  rcases Nat.lt_or_ge (s.begin_ + 1) s.end_ with hlong | hshort
  · exact next_go_shrink d _ s hr (by omega) (by simp only [Composition.len]; have := hr.le; omega) hw
  · have he : s.end_ = s.begin_ + 1 := by have := hr.lt; omega
    -- one wrap-around step, then the shrinking phase
    obtain ⟨f, hf4, hfge⟩ : ∃ f, 2 * s.com.len + 4 = f + 1 ∧ 2 * s.com.len + 3 ≤ f := ⟨_, rfl, Nat.le_refl _⟩
    rw [hf4]
    simp only [PhraseSel.next.go]
    by_cases hf : s.forward = true
    · rw [if_pos hf, if_neg (by simp only [beq_iff_eq]; omega)]
      try dsimp only
      rw [if_pos (by simp only [beq_iff_eq]; omega)]
      obtain ⟨n1, n2, n3, n4⟩ := nbp_spec s (c := s.begin_) (by have := hr.le; omega)
      have n4 := n4 (hr.syl s.begin_ (Nat.le_refl _) hr.lt)
      have hr' : RangeOK { s with end_ := s.nextBreakPoint s.begin_ } := ⟨n4, n2, n3⟩
      rw [rangeHasPhrase_ok _ d (by show s.begin_ ≤ s.nextBreakPoint s.begin_; omega) hr'.le]
      cases hb : env.hasPhrase d (sylPrefix (List.take (s.nextBreakPoint s.begin_ - s.begin_) (List.drop s.begin_ s.com.symbols))) s.strategy with
      | true => exact .ok ⟨rfl, rfl, hr', Keep.setEnd hf _⟩
      | false =>
        dsimp only
        have hlong : s.begin_ + 2 ≤ s.nextBreakPoint s.begin_ := by
          rcases Nat.lt_or_ge (s.begin_ + 1) (s.nextBreakPoint s.begin_) with hh | hh
          · omega
          · exfalso
            have := single_true (env := env) d { s with end_ := s.nextBreakPoint s.begin_ } hr'
              (by show s.nextBreakPoint s.begin_ = s.begin_ + 1; omega) hw
            rw [rangeHasPhrase_ok _ d (by show s.begin_ ≤ s.nextBreakPoint s.begin_; omega) hr'.le] at this
            injection this with this
            rw [this] at hb; cases hb
        obtain ⟨s', hq, hp⟩ := next_go_shrink (env := env) d f { s with end_ := s.nextBreakPoint s.begin_ } hr' hlong
          (by show s.nextBreakPoint s.begin_ - s.begin_ ≤ f + 1; simp only [Composition.len] at hfge; omega) hw
        exact ⟨s', hq, ⟨hp.com, hp.strategy, hp.range, (Keep.setEnd hf _).trans hp.keep⟩⟩
    · rw [if_neg hf]
      try dsimp only
      rw [if_pos (by simp only [beq_iff_eq]; omega)]
      obtain ⟨a1, a2⟩ := apbp_spec s (c := s.begin_ + 1 - 1) (by have := hr.le; omega)
      have hall : AllSyl s.com (s.afterPreviousBreakPoint (s.begin_ + 1 - 1)) s.end_ := by
        intro j h1 h2
        rcases Nat.lt_or_ge j (s.begin_ + 1 - 1) with h3 | h3
        · exact a2 j h1 h3
        · exact hr.syl j (by omega) h2
      have hr' : RangeOK { s with begin_ := s.afterPreviousBreakPoint (s.begin_ + 1 - 1) } :=
        ⟨by show s.afterPreviousBreakPoint (s.begin_ + 1 - 1) < s.end_; omega, hr.le, hall⟩
      rw [rangeHasPhrase_ok _ d (by show s.afterPreviousBreakPoint (s.begin_ + 1 - 1) ≤ s.end_; omega) hr'.le]
      cases hb : env.hasPhrase d (sylPrefix (List.take (s.end_ - s.afterPreviousBreakPoint (s.begin_ + 1 - 1))
          (List.drop (s.afterPreviousBreakPoint (s.begin_ + 1 - 1)) s.com.symbols))) s.strategy with
      | true => exact .ok ⟨rfl, rfl, hr', Keep.setBegin hf _⟩
      | false =>
        dsimp only
        have hlong : s.afterPreviousBreakPoint (s.begin_ + 1 - 1) + 2 ≤ s.end_ := by
          rcases Nat.lt_or_ge (s.afterPreviousBreakPoint (s.begin_ + 1 - 1) + 1) s.end_ with hh | hh
          · omega
          · exfalso
            have := single_true (env := env) d { s with begin_ := s.afterPreviousBreakPoint (s.begin_ + 1 - 1) } hr'
              (by show s.end_ = s.afterPreviousBreakPoint (s.begin_ + 1 - 1) + 1; omega) hw
            rw [rangeHasPhrase_ok _ d (by show s.afterPreviousBreakPoint (s.begin_ + 1 - 1) ≤ s.end_; omega) hr'.le] at this
            injection this with this
            rw [this] at hb; cases hb
        obtain ⟨s', hq, hp⟩ := next_go_shrink (env := env) d f
          { s with begin_ := s.afterPreviousBreakPoint (s.begin_ + 1 - 1) } hr' hlong
          (by show s.end_ - s.afterPreviousBreakPoint (s.begin_ + 1 - 1) ≤ f + 1
              simp only [Composition.len] at hfge; have := hr.le; omega) hw
        exact ⟨s', hq, ⟨hp.com, hp.strategy, hp.range, (Keep.setBegin hf _).trans hp.keep⟩⟩

/-! ## Down / Space -/

theorem selDownSpace_ok (hE : EnvOK env G) {sh : Shared D L} (h : ShInv env G sh) {s : Selecting}
    (hs : SelInv env sh s) : SelResOK env G (selDownSpace env s sh) := by
  obtain ⟨tp, hq, _⟩ := totalPage_ok hE h hs
  unfold selDownSpace
  rw [hq]
  dsimp only
  split
  · exact .ok ⟨h, fun _ _ => hs.page _, fun st hst => (by cases hst)⟩
  · have h1 := hs.sel
    split
    · next p hp =>
      rw [hp] at h1
      obtain ⟨p', hq', hn⟩ := next_ok (env := env) sh.dict p ⟨h1.lt, h1.le, h1.syl⟩ h1.word
      rw [hq']
      refine .ok ⟨h, fun _ _ => ⟨?_, fun _ => .inl ⟨p', rfl⟩⟩, fun st hst => (by cases hst)⟩
      show PhraseOK env sh p'
      exact ⟨hn.com.trans h1.com, hn.range.lt, hn.range.le, hn.range.syl, fun c hc => by
        rw [hn.strategy]; exact h1.word c (by rw [← hn.com]; exact hc), h1.anchor.keep hn.keep⟩
    · next hns =>
      refine .ok ⟨h, fun _ _ => ⟨?_, fun ha => ?_⟩, fun st hst => (by cases hst)⟩
      · exact hs.sel
      · exact hs.repl ha

/-! ## j / k -/

theorem retarget_ok {sh : Shared D L} (h : ShInv env G sh) (s : Selecting)
    (hlt : sh.com.cursor < sh.com.inner.symbols.length) :
    OkAnd (fun x => ShInv env G x.1 ∧ ∃ s', x.2 = .toState (.selecting s') ∧ SelInv env x.1 s') (retarget env s sh) := by
  unfold retarget
  have hsym : sh.com.symbol? = some (sh.com.inner.symbols[sh.com.cursor]) := by
    unfold CompEditor.symbol?
    rw [symbol?_lt hlt, List.getElem?_eq_getElem hlt]
  rw [hsym]
  dsimp only
  cases hx : sh.com.inner.symbols[sh.com.cursor] with
  | syl k =>
    simp only [Sym.isSyl, if_true]
    have hk : sh.com.inner.symbols[sh.com.cursor]? = some (Sym.syl k) := by rw [List.getElem?_eq_getElem hlt, hx]
    obtain ⟨p, hq, p1, p2, p3, p4, p5, p6, _, _⟩ := init_ok (env := env) (!sh.options.phraseChoiceRearward) sh.options.lookupStrategy
      sh.com.inner sh.com.cursor sh.dict hlt ⟨k, hk⟩ (fun c hc => (h.word c hc).2)
    rw [hq]
    refine .ok ⟨h, _, rfl, ?_, fun _ => .inl ⟨p, rfl⟩⟩
    show PhraseOK env sh p
    exact ⟨p1, p3, by rw [p1]; exact p4, by rw [p1]; exact p5, (fun c hc => by rw [p2]; rw [p1] at hc; exact (h.word c hc).2), p6⟩
  | chr ch =>
    simp only [Sym.isSyl]
    have hk : sh.com.inner.symbols[sh.com.cursor]? = some (Sym.chr ch) := by rw [List.getElem?_eq_getElem hlt, hx]
    -- (C07 fix) a symbol without special-symbol candidates gets the symbol table, the others their own list
    obtain ⟨l, hl⟩ := specialMenu_chr ch
    rw [hl]
    cases l with
    | nil => exact .ok ⟨h, _, rfl, h.symOK, fun _ => .inr ⟨ch, hk⟩⟩
    | cons a as => exact .ok ⟨h, _, rfl, rfl, fun _ => .inr ⟨ch, hk⟩⟩

theorem selMove_ok {sh : Shared D L} (h : ShInv env G sh) {s : Selecting} (hs : SelInv env sh s) (isJ : Bool) :
    SelResOK env G (selMove env s sh isJ) := by
  unfold selMove
  split
  · exact .ok ⟨h, fun _ _ => hs, fun st hst => (by cases hst)⟩
  · next hne =>
    have hpos : 0 < sh.com.inner.symbols.length := by
      simp only [CompEditor.isEmpty, Composition.isEmpty, Composition.len, beq_iff_eq] at hne; omega
    have hbegin : (match s.sel with | .phrase p => p.begin_ | _ => sh.com.cursor) ≤ sh.com.inner.symbols.length := by
      have h1 := hs.sel
      split
      · next p hp => rw [hp] at h1; have := h1.lt; have := h1.le; rw [h1.com] at this; omega
      · exact h.ced.cur
    have hJ : ∀ b, b ≤ sh.com.inner.symbols.length → (sh.com.moveCursor (b - 1)).cursor < sh.com.inner.symbols.length := by
      intro b hb
      show min (b - 1) sh.com.inner.len < _
      simp only [Composition.len]; omega
    have hK : ∀ b, ((sh.com.moveCursor (b + 1)).clampCursor).cursor < sh.com.inner.symbols.length := by
      intro b
      unfold CompEditor.clampCursor
      split
      · next he =>
        show (sh.com.moveCursor (b + 1)).cursor - 1 < _
        simp only [CompEditor.moveCursor, Composition.len] at he ⊢; omega
      · next he =>
        show (sh.com.moveCursor (b + 1)).cursor < _
        simp only [CompEditor.moveCursor, Composition.len] at he ⊢; omega
    dsimp only
    have key : ∀ com : CompEditor, CedInv com → com.inner = sh.com.inner → com.cursor < sh.com.inner.symbols.length →
        SelResOK env G (match retarget env s { sh with com := com } with
          | .ok (sh', .toState (.selecting s')) => .ok ⟨sh', s', .spin .absorb⟩
          | .ok (sh', _) => .ok ⟨sh', s, .spin .absorb⟩
          | .panic q => .panic q
          | .outOfFuel => .outOfFuel) := by
      intro com hc hin hcur
      have h1 : ShInv env G { sh with com := com } := h.setComSame hc (by rw [hin])
      obtain ⟨⟨sh', t⟩, hq, hi, s', ht, hs'⟩ := retarget_ok h1 s (by show com.cursor < com.inner.symbols.length; rw [hin]; exact hcur)
      rw [hq]
      simp only at ht
      subst ht
      exact .ok ⟨hi, fun _ _ => hs', fun st hst => (by cases hst)⟩
    cases isJ with
    | true =>
      simp only [if_true]
      exact key _ (ced_moveCursor h.ced _) rfl (hJ _ hbegin)
    | false =>
      simp only [Bool.false_eq_true, if_false]
      exact key _ (ced_clampCursor (ced_moveCursor h.ced _)) (clampCursor_inner _) (hK _)

/-! ## digits, and all of `Selecting::next` for lists that are not symbol tables -/

theorem selDigit_ok (hE : EnvOK env G) {sh : Shared D L} (h : ShInv env G sh) {s : Selecting}
    (hs : SelInv env sh s) (c : Nat) : SelResOK env G (selDigit env s sh c) := by
  obtain ⟨⟨s', sh', t⟩, hq, h1, h2, h3⟩ := select_ok hE h hs (c - 1)
  unfold selDigit
  rw [hq]
  exact .ok ⟨h1, h2, h3⟩

theorem selectingNext_ok (hE : EnvOK env G) {sh : Shared D L} {s : Selecting} (h : ShInv env G sh)
    (hs : SelInv env sh s) (ev : KeyEvent) : SelResOK env G (selectingNext env s sh ev) := by
  have leafSpin : ∀ b, SelResOK env G (.ok ⟨sh, s, .spin b⟩) :=
    fun b => .ok ⟨h, fun _ _ => hs, fun st hst => (by cases hst)⟩
  have leafTo : ∀ sh' : Shared D L, ShInv env G sh' → SelResOK env G (.ok ⟨sh', s, .toState .entering⟩) :=
    fun sh' h' => .ok ⟨h', fun b hb => (by cases hb), fun st hst => (by cases hst; trivial)⟩
  unfold selectingNext
  refine selResOK_ite (fun _ => leafSpin _) fun _ => ?_
  refine selResOK_ite (fun _ => leafTo _ (cancel_inv h)) fun _ => ?_
  refine selResOK_ite (fun _ => leafTo _ (cancel_inv (h.congr rfl rfl rfl rfl rfl rfl))) fun _ => ?_
  refine selResOK_ite (fun _ => leafTo _ (cancel_inv h)) fun _ => ?_
  refine selResOK_ite (fun _ => selDownSpace_ok hE h hs) fun _ => ?_
  refine selResOK_ite (fun _ => selMove_ok h hs _) fun _ => ?_
  refine selResOK_ite (fun _ => selMove_ok h hs _) fun _ => ?_
  refine selResOK_ite (fun _ => selPrevPage_ok hE h hs) fun _ => ?_
  refine selResOK_ite (fun _ => selNextPage_ok hE h hs) fun _ => ?_
  refine selResOK_ite (fun _ => selDigit_ok hE h hs _) fun _ => ?_
  refine selResOK_ite (fun _ => ?_) fun _ => ?_
  · refine leafTo _ ?_
    exact (cancel_inv h).setComSame (ced_popCursor (cancel_inv h).ced) (by rw [popCursor_inner])
  · exact selResOK_ite (fun _ => leafSpin _) (fun _ => leafSpin _)

end Chewing.C01
