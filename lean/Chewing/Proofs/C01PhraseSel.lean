import Chewing.Proofs.C01Shared
/-!
C01, part 3: the phrase selector.  Break-point searches stay inside the buffer and inside a run of
syllables; `PhraseSelector::init` / `init_single_word` terminate without panic (the shrinking loop stops
at the latest at the single syllable under the cursor — with or without a word for it, since the F02 / F03
repair) and establish the selector invariant `PhraseOK`.
-/
namespace Chewing.C01
open Chewing Chewing.C04 Chewing.C05

variable {D L : Type} (env : Env D L) (G : D → Prop) (w : Prop)

/-- how the range of a phrase selector hangs on the position `orig` it was opened at (`init` /
    `init_single_word`; `next` and the four `jump_to_*_selection_point` keep it): `orig` is a position of
    the buffer, the range starts there when choosing forward and ends right after it when choosing
    rearward — so `jump_to_first_selection_point` (re-`init` from `orig`) and `prev_selection_point` (grow
    up to the break point around `orig`) stay on the run of syllables the range lies in -/
structure Anchor (p : PhraseSel) : Prop where
  orig_lt : p.orig < p.com.symbols.length
  fw : p.forward = true → p.begin_ = p.orig
  rw : p.forward = false → p.end_ = p.orig + 1

/-- what every range move of an open selector (`next`, the jumps) keeps: direction and origin, and the
    anchored end of the range -/
structure Keep (s s' : PhraseSel) : Prop where
  com : s'.com = s.com
  forward : s'.forward = s.forward
  orig : s'.orig = s.orig
  fwb : s.forward = true → s'.begin_ = s.begin_
  rwe : s.forward = false → s'.end_ = s.end_

theorem Keep.refl (s : PhraseSel) : Keep s s := ⟨rfl, rfl, rfl, fun _ => rfl, fun _ => rfl⟩

theorem Keep.setEnd {s : PhraseSel} (hf : s.forward = true) (x : Nat) : Keep s { s with end_ := x } :=
  ⟨rfl, rfl, rfl, (fun _ => rfl), (fun hh => by rw [hf] at hh; cases hh)⟩

theorem Keep.setBegin {s : PhraseSel} (hf : ¬ s.forward = true) (x : Nat) : Keep s { s with begin_ := x } :=
  ⟨rfl, rfl, rfl, (fun hh => absurd hh hf), (fun _ => rfl)⟩

theorem Keep.trans {a b c : PhraseSel} (h1 : Keep a b) (h2 : Keep b c) : Keep a c :=
  ⟨h2.com.trans h1.com, h2.forward.trans h1.forward, h2.orig.trans h1.orig,
   (fun hh => (h2.fwb (h1.forward.trans hh)).trans (h1.fwb hh)),
   (fun hh => (h2.rwe (h1.forward.trans hh)).trans (h1.rwe hh))⟩

theorem Anchor.keep {s s' : PhraseSel} (h : Anchor s) (hk : Keep s s') : Anchor s' :=
  ⟨by rw [hk.orig, hk.com]; exact h.orig_lt,
   (fun hh => by rw [hk.fwb (hk.forward ▸ hh), hk.orig]; exact h.fw (hk.forward ▸ hh)),
   (fun hh => by rw [hk.rwe (hk.forward ▸ hh), hk.orig]; exact h.rw (hk.forward ▸ hh))⟩

/-- invariant of an open phrase selector -/
structure PhraseOK (sh : Shared D L) (p : PhraseSel) : Prop where
  com : p.com = sh.com.inner
  lt : p.begin_ < p.end_
  le : p.end_ ≤ p.com.symbols.length
  syl : AllSyl p.com p.begin_ p.end_
  /-- (strength `w`) the selector's own lookup strategy is an active strategy: every buffered syllable has a
      word under it -/
  word : w → ∀ c, Sym.syl c ∈ p.com.symbols → env.hasPhrase sh.dict [c] p.strategy = true
  /-- the range is anchored at the position the list was opened at -/
  anchor : Anchor p

/-- invariant of an open candidate list -/
structure SelInv (sh : Shared D L) (s : Selecting) : Prop where
  sel : match s.sel with
    | .phrase p => PhraseOK env w sh p
    | .symbol y => SymWF y
    | .special sym => sym.isSyl = false
  /-- a list that replaces the symbol under the cursor sits on a non-syllable symbol -/
  repl : s.action = .replace → (∃ p, s.sel = .phrase p) ∨ ∃ ch, sh.com.inner.symbols[sh.com.cursor]? = some (Sym.chr ch)

/-- invariant attached to the editor state -/
def StInv (sh : Shared D L) : St → Prop
  | .selecting s => SelInv env w sh s
  | _ => True

variable {env G w}

theorem PhraseOK.congr {sh sh' : Shared D L} {p : PhraseSel} (h : PhraseOK env w sh p) (hc : sh'.com.inner = sh.com.inner)
    (hm : ∀ c s, env.hasPhrase sh.dict [c] s = true → env.hasPhrase sh'.dict [c] s = true) : PhraseOK env w sh' p :=
  ⟨h.com.trans hc.symm, h.lt, h.le, h.syl, fun hw c hcm => hm _ _ (h.word hw c hcm), h.anchor⟩

theorem StInv.congr {sh sh' : Shared D L} {st : St} (h : StInv env w sh st) (hc : sh'.com.inner = sh.com.inner)
    (hcur : sh'.com.cursor = sh.com.cursor)
    (hm : ∀ c s, env.hasPhrase sh.dict [c] s = true → env.hasPhrase sh'.dict [c] s = true) : StInv env w sh' st := by
  cases st with
  | selecting s =>
    obtain ⟨h1, h2⟩ := h
    refine ⟨?_, ?_⟩
    · split
      · next p hp => rw [hp] at h1; exact PhraseOK.congr h1 hc hm
      · next y hp => rw [hp] at h1; exact h1
      · next sym hp => rw [hp] at h1; exact h1
    · intro ha; rw [hc, hcur]; exact h2 ha
  | entering => trivial
  | enteringSyllable => trivial
  | highlighting m => trivial

/-! ## symbols and slices -/

theorem symbol?_lt {c : Composition} {i : Nat} (h : i < c.symbols.length) : c.symbol? i = c.symbols[i]? := by
  unfold Composition.symbol? Composition.len
  rw [if_neg (by omega)]

theorem symbol?_some {c : Composition} {i : Nat} {sym : Sym} (h : c.symbol? i = some sym) :
    i < c.symbols.length ∧ c.symbols[i]? = some sym := by
  unfold Composition.symbol? Composition.len at h
  split at h
  · cases h
  · exact ⟨by omega, h⟩

theorem mem_of_getElem? {α : Type} {l : List α} {i : Nat} {a : α} (h : l[i]? = some a) : a ∈ l :=
  List.mem_of_getElem? h

theorem slice_one {syms : List Sym} {b : Nat} {x : Sym} (h : syms[b]? = some x) :
    (syms.drop b).take (b + 1 - b) = [x] := by
  have hb : b < syms.length := by
    rcases Nat.lt_or_ge b syms.length with h1 | h1
    · exact h1
    · rw [List.getElem?_eq_none h1] at h; cases h
  rw [List.drop_eq_getElem_cons hb, show b + 1 - b = 1 by omega]
  rw [List.getElem?_eq_getElem hb] at h
  cases h
  rfl

/-- the range query of the selectors, for a range inside the buffer -/
theorem rangeHasPhrase_ok (s : PhraseSel) (d : D) {b e : Nat} (h1 : b ≤ e) (h2 : e ≤ s.com.symbols.length) :
    PhraseSel.rangeHasPhrase env s d b e =
      .ok (env.hasPhrase d (sylPrefix ((s.com.symbols.drop b).take (e - b))) s.strategy) := by
  unfold PhraseSel.rangeHasPhrase
  rw [sliceSyms_ok h1 h2]

/-- a one-syllable range has a phrase whenever that syllable has a word -/
theorem rangeHasPhrase_single (s : PhraseSel) (d : D) {b : Nat} {k : Nat} (hs : s.com.symbols[b]? = some (Sym.syl k))
    (hw : env.hasPhrase d [k] s.strategy = true) (hb : b + 1 ≤ s.com.symbols.length) :
    PhraseSel.rangeHasPhrase env s d b (b + 1) = .ok true := by
  rw [rangeHasPhrase_ok s d (by omega) hb, slice_one hs]
  simp only [sylPrefix]
  rw [hw]

/-! ## break points -/

theorem nbp_go_spec (s : PhraseSel) : ∀ (fuel c : Nat), c ≤ s.com.symbols.length → s.com.symbols.length - c < fuel →
    c ≤ PhraseSel.nextBreakPoint.go s fuel c ∧ PhraseSel.nextBreakPoint.go s fuel c ≤ s.com.symbols.length ∧
    AllSyl s.com c (PhraseSel.nextBreakPoint.go s fuel c) ∧
    ((∃ k, s.com.symbols[c]? = some (Sym.syl k)) → c < PhraseSel.nextBreakPoint.go s fuel c) := by
  intro fuel
  induction fuel with
  | zero => intro c _ h; omega
  | succ fuel ih =>
    intro c hc hf
    simp only [PhraseSel.nextBreakPoint.go]
    split
    · next heq =>
      simp only [Composition.len, beq_iff_eq] at heq
      refine ⟨Nat.le_refl _, hc, fun j h1 h2 => by omega, ?_⟩
      rintro ⟨k, hk⟩
      rw [List.getElem?_eq_none (by omega)] at hk; cases hk
    · next hne =>
      simp only [Composition.len, beq_iff_eq] at hne
      have hlt : c < s.com.symbols.length := by omega
      rw [symbol?_lt hlt, List.getElem?_eq_getElem hlt]
      dsimp only
      split
      · next hns =>
        refine ⟨Nat.le_refl _, hc, fun j h1 h2 => by omega, ?_⟩
        rintro ⟨k, hk⟩
        injection hk with hk
        rw [hk] at hns
        simp [Sym.isSyl] at hns
      · next hsy =>
        obtain ⟨a1, a2, a3, _⟩ := ih (c + 1) (by omega) (by omega)
        refine ⟨by omega, a2, ?_, fun _ => by omega⟩
        intro j h1 h2
        rcases Nat.eq_or_lt_of_le h1 with rfl | h1'
        · cases hx : s.com.symbols[c] with
          | syl k => exact ⟨k, by rw [List.getElem?_eq_getElem hlt, hx]⟩
          | chr k => rw [hx] at hsy; simp [Sym.isSyl] at hsy
        · exact a3 j (by omega) h2

theorem nbp_spec (s : PhraseSel) {c : Nat} (hc : c ≤ s.com.symbols.length) :
    c ≤ s.nextBreakPoint c ∧ s.nextBreakPoint c ≤ s.com.symbols.length ∧ AllSyl s.com c (s.nextBreakPoint c) ∧
    ((∃ k, s.com.symbols[c]? = some (Sym.syl k)) → c < s.nextBreakPoint c) := by
  unfold PhraseSel.nextBreakPoint
  exact nbp_go_spec s _ c hc (by simp only [Composition.len]; omega)

theorem apbp_go_spec (s : PhraseSel) : ∀ (fuel c : Nat), c ≤ s.com.symbols.length →
    PhraseSel.afterPreviousBreakPoint.go s fuel c ≤ c ∧
    AllSyl s.com (PhraseSel.afterPreviousBreakPoint.go s fuel c) c := by
  intro fuel
  induction fuel with
  | zero => intro c _; simp only [PhraseSel.afterPreviousBreakPoint.go]; exact ⟨Nat.le_refl _, fun j h1 h2 => by omega⟩
  | succ fuel ih =>
    intro c hc
    simp only [PhraseSel.afterPreviousBreakPoint.go]
    split
    · exact ⟨Nat.zero_le _, fun j h1 h2 => by next h0 => simp only [beq_iff_eq] at h0; omega⟩
    · next h0 =>
      simp only [beq_iff_eq] at h0
      split
      · exact ⟨Nat.le_refl _, fun j h1 h2 => by omega⟩
      · split
        · exact ⟨Nat.le_refl _, fun j h1 h2 => by omega⟩
        · have hlt : c - 1 < s.com.symbols.length := by omega
          rw [symbol?_lt hlt, List.getElem?_eq_getElem hlt]
          dsimp only
          split
          · exact ⟨Nat.le_refl _, fun j h1 h2 => by omega⟩
          · next hsy =>
            obtain ⟨a1, a2⟩ := ih (c - 1) (by omega)
            refine ⟨by omega, ?_⟩
            intro j h1 h2
            rcases Nat.lt_or_ge j (c - 1) with h3 | h3
            · exact a2 j h1 h3
            · have : j = c - 1 := by omega
              subst this
              cases hx : s.com.symbols[c - 1] with
              | syl k => exact ⟨k, by rw [List.getElem?_eq_getElem hlt, hx]⟩
              | chr k => rw [hx] at hsy; simp [Sym.isSyl] at hsy

theorem apbp_spec (s : PhraseSel) {c : Nat} (hc : c ≤ s.com.symbols.length) :
    s.afterPreviousBreakPoint c ≤ c ∧ AllSyl s.com (s.afterPreviousBreakPoint c) c := by
  unfold PhraseSel.afterPreviousBreakPoint
  exact apbp_go_spec s _ c hc

/-! ## the shrinking loop of `init` -/

/-- what `init` keeps of the selector it starts from -/
structure SameSel (s s' : PhraseSel) : Prop where
  com : s'.com = s.com
  strategy : s'.strategy = s.strategy
  forward : s'.forward = s.forward
  orig : s'.orig = s.orig
  b1 : s.begin_ ≤ s'.begin_
  b2 : s'.begin_ < s'.end_
  b3 : s'.end_ ≤ s.end_
  /-- choosing forward the loop only moves the end, choosing rearward only the beginning -/
  fwb : s.forward = true → s'.begin_ = s.begin_
  rwe : s.forward = false → s'.end_ = s.end_

theorem initLoop_ok (d : D) : ∀ (fuel : Nat) (s : PhraseSel), s.begin_ < s.end_ → s.end_ ≤ s.com.symbols.length →
    AllSyl s.com s.begin_ s.end_ →
    s.end_ - s.begin_ ≤ fuel → OkAnd (SameSel s) (PhraseSel.initLoop env s d fuel) := by
  intro fuel
  induction fuel with
  | zero => intro s h1 _ _ h5; omega
  | succ fuel ih =>
    intro s h1 h2 h3 h5
    simp only [PhraseSel.initLoop]
    rw [if_neg (by omega), if_neg (by simp only [Composition.len]; omega), if_neg (by simp only [beq_iff_eq]; omega)]
    rw [rangeHasPhrase_ok s d (by omega) h2]
    cases hfalse : env.hasPhrase d (sylPrefix ((s.com.symbols.drop s.begin_).take (s.end_ - s.begin_))) s.strategy with
    | true => exact .ok ⟨rfl, rfl, rfl, rfl, Nat.le_refl _, h1, Nat.le_refl _, fun _ => rfl, fun _ => rfl⟩
    | false =>
      dsimp only
      -- a one-syllable range ends the loop (F02 / F03 repair: with or without a word for it)
      obtain ⟨k, hk⟩ := h3 s.begin_ (Nat.le_refl _) h1
      rw [symbol?_lt (by omega), hk]
      simp only [Sym.isSyl, Bool.and_true, beq_iff_eq]
      split
      · exact .ok ⟨rfl, rfl, rfl, rfl, Nat.le_refl _, h1, Nat.le_refl _, fun _ => rfl, fun _ => rfl⟩
      next hone =>
      have hlong : s.begin_ + 1 < s.end_ := by omega
      split
      · next hfw =>
        obtain ⟨s', hq, hs⟩ := ih { s with end_ := s.end_ - 1 } (by show s.begin_ < s.end_ - 1; omega)
          (by show s.end_ - 1 ≤ s.com.symbols.length; omega) (fun j a b => h3 j a (by show j < s.end_; have : j < s.end_ - 1 := b; omega))
          (by show s.end_ - 1 - s.begin_ ≤ fuel; omega)
        exact ⟨s', hq, ⟨hs.com, hs.strategy, hs.forward, hs.orig, hs.b1, hs.b2, by have := hs.b3; simp only at this; omega,
          hs.fwb, (fun hh => by rw [hh] at hfw; cases hfw)⟩⟩
      · next hfw =>
        obtain ⟨s', hq, hs⟩ := ih { s with begin_ := s.begin_ + 1 } (by show s.begin_ + 1 < s.end_; omega)
          h2 (fun j a b => h3 j (by have : s.begin_ + 1 ≤ j := a; omega) b)
          (by show s.end_ - (s.begin_ + 1) ≤ fuel; omega)
        exact ⟨s', hq, ⟨hs.com, hs.strategy, hs.forward, hs.orig, by have := hs.b1; simp only at this; omega, hs.b2, hs.b3,
          fun hh => absurd hh hfw, hs.rwe⟩⟩

/-- **`PhraseSelector::init`** at a syllable inside the buffer: no panic, the loop terminates, and the
    selector covers a non-empty run of syllables inside the buffer -/
theorem init_ok (forward : Bool) (strategy : Strategy) (com : Composition) (cursor : Nat) (d : D)
    (hlt : cursor < com.symbols.length) (hsyl : ∃ k, com.symbols[cursor]? = some (Sym.syl k)) :
    OkAnd (fun p => p.com = com ∧ p.strategy = strategy ∧ p.begin_ < p.end_ ∧ p.end_ ≤ com.symbols.length ∧
        AllSyl com p.begin_ p.end_ ∧ Anchor p ∧ p.forward = forward ∧ p.orig = cursor)
      (PhraseSel.init env forward strategy com cursor d) := by
  unfold PhraseSel.init
  dsimp only
  split
  · next hfw =>
    rw [if_neg (by simp only [Composition.len, beq_iff_eq]; omega)]
    rw [if_neg (by simp only [Composition.len, beq_iff_eq]; omega)]
    let s0 : PhraseSel := { begin_ := 0, end_ := com.len, forward := forward, orig := cursor, strategy := strategy, com := com }
    obtain ⟨n1, n2, n3, n4⟩ := nbp_spec s0 (c := cursor) (Nat.le_of_lt hlt)
    have n4 := n4 hsyl
    obtain ⟨p, hq, hs⟩ := initLoop_ok (env := env) d (com.len + 2)
      { s0 with begin_ := cursor, end_ := s0.nextBreakPoint cursor } n4 n2 n3
      (by show s0.nextBreakPoint cursor - cursor ≤ com.len + 2; simp only [Composition.len]; have : s0.nextBreakPoint cursor ≤ com.symbols.length := n2; omega)
    have hpf : p.forward = forward := hs.forward
    have hpo : p.orig = cursor := hs.orig
    have hpb : p.begin_ = cursor := hs.fwb hfw
    refine ⟨p, hq, hs.com, hs.strategy, hs.b2, Nat.le_trans hs.b3 n2, ?_, ?_, hpf, hpo⟩
    · intro j a b
      exact n3 j (Nat.le_trans hs.b1 a) (Nat.lt_of_lt_of_le b hs.b3)
    · exact ⟨(by rw [hpo, hs.com]; exact hlt), (fun _ => by rw [hpb, hpo]), (fun hh => by rw [hpf, hfw] at hh; cases hh)⟩
  · next hfw =>
    let s0 : PhraseSel := { begin_ := 0, end_ := com.len, forward := forward, orig := cursor, strategy := strategy, com := com }
    obtain ⟨a1, a2⟩ := apbp_spec s0 (c := cursor) (Nat.le_of_lt hlt)
    have hmin : min (cursor + 1) com.len = cursor + 1 := by simp only [Composition.len]; omega
    rw [hmin]
    have hall : AllSyl com (s0.afterPreviousBreakPoint cursor) (cursor + 1) := by
      intro j h1 h2
      rcases Nat.lt_or_ge j cursor with h3 | h3
      · exact a2 j h1 h3
      · have : j = cursor := by omega
        subst this; exact hsyl
    obtain ⟨p, hq, hs⟩ := initLoop_ok (env := env) d (com.len + 2)
      { s0 with end_ := cursor + 1, begin_ := s0.afterPreviousBreakPoint cursor }
      (by show s0.afterPreviousBreakPoint cursor < cursor + 1; omega) (by show cursor + 1 ≤ com.symbols.length; omega) hall
      (by show cursor + 1 - s0.afterPreviousBreakPoint cursor ≤ com.len + 2; simp only [Composition.len]; omega)
    have hpf : p.forward = forward := hs.forward
    have hpo : p.orig = cursor := hs.orig
    have hfw' : forward = false := by cases forward <;> simp_all
    have hpe : p.end_ = cursor + 1 := hs.rwe hfw'
    refine ⟨p, hq, hs.com, hs.strategy, hs.b2, ?_, ?_, ?_, hpf, hpo⟩
    · have := hs.b3; simp only at this; omega
    · intro j a b
      exact hall j (Nat.le_trans hs.b1 a) (Nat.lt_of_lt_of_le b hs.b3)
    · exact ⟨(by rw [hpo, hs.com]; exact hlt), (fun hh => by rw [hpf, hfw'] at hh; cases hh), (fun _ => by rw [hpe, hpo])⟩

/-- **`init_single_word`** right after a syllable was inserted before the cursor -/
theorem initSingleWord_ok (strategy : Strategy) (com : Composition) (cursor : Nat)
    (h0 : 0 < cursor) (hle : cursor ≤ com.symbols.length) (hsyl : ∃ k, com.symbols[cursor - 1]? = some (Sym.syl k)) :
    OkAnd (fun p => p.com = com ∧ p.strategy = strategy ∧ p.begin_ < p.end_ ∧ p.end_ ≤ com.symbols.length ∧
        AllSyl com p.begin_ p.end_ ∧ Anchor p)
      (PhraseSel.initSingleWord strategy com cursor) := by
  unfold PhraseSel.initSingleWord
  have hmin : min cursor com.len = cursor := by simp only [Composition.len]; omega
  dsimp only
  rw [hmin, if_neg (by simp only [beq_iff_eq]; omega)]
  refine .ok ⟨rfl, rfl, by show cursor - 1 < cursor; omega, hle, ?_,
    ⟨(by show cursor - 1 < com.symbols.length; omega), (fun hh => by cases hh), (fun _ => by show cursor = cursor - 1 + 1; omega)⟩⟩
  intro j a b
  have : j = cursor - 1 := by
    have a' : cursor - 1 ≤ j := a
    have b' : j < cursor := b
    omega
  subst this; exact hsyl

end Chewing.C01
