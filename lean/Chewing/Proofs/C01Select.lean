import Chewing.Proofs.C01Selecting
/-!
C01, part 7: candidate lists of phrase selectors and special-symbol selectors: `candidates`,
`total_page`, paging keys and `Selecting::select` (digits, `Editor::select`).  A chosen phrase is a valid
selection (non-empty, inside the buffer, one character per syllable, over syllables only), so the
composition invariant survives the choice.
-/
namespace Chewing.C01
open Chewing Chewing.C04 Chewing.C05 Chewing.C06

variable {D L : Type} {env : Env D L} {G : D → Prop} {w : Prop}

/-- the list is not a symbol *table* (`SymbolSelector`, whose tables come from `symbols.dat`) -/
def selNoTable (s : Selecting) : Prop := ∀ y, s.sel ≠ .symbol y

theorem allSyl_slice {c : Composition} {b e : Nat} (h : AllSyl c b e) :
    ((c.symbols.drop b).take (e - b)).any (fun s => !s.isSyl) = false := by
  rw [List.any_eq_false]
  intro x hx
  obtain ⟨j, h1, h2, h3⟩ := slice_mem (c := c) (a := b) (b := e) hx
  obtain ⟨k, hk⟩ := h j h1 h2
  rw [hk] at h3; cases h3
  simp [Sym.isSyl]

theorem phraseCandidates_ok (hE : EnvOK env G) {sh : Shared D L} (h : ShInv env G w sh) {p : PhraseSel}
    (hp : PhraseOK env w sh p) :
    OkAnd (fun cs => ∀ t ∈ cs, t.length = p.end_ - p.begin_) (PhraseSel.candidates env p sh.dict sh.syl) := by
  unfold PhraseSel.candidates
  rw [sliceSyms_ok (Nat.le_of_lt hp.lt) hp.le]
  dsimp only
  have hbase : ∀ t ∈ (env.lookupAll sh.dict (sylPrefix ((p.com.symbols.drop p.begin_).take (p.end_ - p.begin_))) p.strategy).map (·.text),
      t.length = p.end_ - p.begin_ := by
    intro t ht
    obtain ⟨ph, hph, rfl⟩ := List.mem_map.mp ht
    rw [hE.wf _ h.good _ _ ph hph, sylPrefix_length_of_all (allSyl_slice hp.syl)]
    simp only [List.length_take, List.length_drop]
    have := hp.le; have := hp.lt
    omega
  split
  · next h1 =>
    simp only [beq_iff_eq] at h1
    obtain ⟨k, hk⟩ := hp.syl p.begin_ (Nat.le_refl _) hp.lt
    have hlt : p.begin_ < p.com.symbols.length := Nat.lt_of_lt_of_le hp.lt hp.le
    rw [symbol?_lt hlt, hk]
    refine .ok ?_
    intro t ht
    rcases List.mem_append.mp ht with ht | ht
    · exact hbase t ht
    · obtain ⟨a, _, hta⟩ := List.mem_flatMap.mp ht
      obtain ⟨ph, hph, rfl⟩ := List.mem_map.mp hta
      rw [hE.wf _ h.good _ _ ph hph, h1]
      rfl
  · exact .ok hbase

/-! ## symbol tables -/

theorem symSelect_ok {y : SymSel} (hy : SymWF y) (n : Nat) :
    OkAnd (fun r => SymWF r.2 ∧ ∀ sym, r.1 = some sym → sym.isSyl = false) (y.select n) := by
  unfold SymSel.select
  split
  · next hc =>
    split
    · exact .ok ⟨hy, fun sym hh => (by cases hh)⟩
    · next name hcat =>
      have hmem : (name, none) ∈ y.category := List.mem_of_getElem? hcat
      have hne := hy.leaf name hmem
      cases name with
      | nil => exact absurd rfl hne
      | cons ch rest =>
        refine .ok ⟨⟨fun c hh => (by cases hh), hy.leaf, hy.idx⟩, fun sym hh => ?_⟩
        simp only [List.head?_cons, Option.some.injEq] at hh
        rw [← hh]; rfl
    · next name i hcat =>
      have hmem : (name, some i) ∈ y.category := List.mem_of_getElem? hcat
      refine .ok ⟨⟨fun c hh => ?_, hy.leaf, hy.idx⟩, fun sym hh => (by cases hh)⟩
      simp only [Option.some.injEq] at hh
      rw [← hh]; exact hy.idx name i hmem
  · next c hc =>
    have hlt := hy.cur c hc
    rw [List.getElem?_eq_getElem hlt]
    refine .ok ⟨⟨fun c' hh => (by cases hh), hy.leaf, hy.idx⟩, fun sym hh => ?_⟩
    cases hx : (y.table[c])[n]? with
    | none => rw [hx] at hh; cases hh
    | some v => rw [hx] at hh; simp only [Option.map_some, Option.some.injEq] at hh; rw [← hh]; rfl

theorem candidates_ok (hE : EnvOK env G) {sh : Shared D L} (h : ShInv env G w sh) {s : Selecting}
    (hs : SelInv env w sh s) : OkAnd (fun _ => True) (Selecting.candidates env s sh) := by
  unfold Selecting.candidates
  have h1 := hs.sel
  split
  · next p hp => rw [hp] at h1; exact (phraseCandidates_ok hE h h1).mono (fun _ _ => trivial)
  · next y hy => rw [hy] at h1; obtain ⟨l, hl⟩ := symMenu_ok h1; rw [hl]; exact .ok trivial
  · next sym hy =>
    rw [hy] at h1
    cases sym with
    | syl k => simp [Sym.isSyl] at h1
    | chr ch => obtain ⟨l, hl⟩ := specialMenu_chr ch; rw [hl]; exact .ok trivial

theorem totalPage_ok (hE : EnvOK env G) {sh : Shared D L} (h : ShInv env G w sh) {s : Selecting}
    (hs : SelInv env w sh s) : OkAnd (fun _ => True) (Selecting.totalPage env s sh) := by
  obtain ⟨cs, hq, _⟩ := candidates_ok hE h hs
  unfold Selecting.totalPage
  rw [hq]
  dsimp only
  rw [if_neg (by have := h.perPage; simp only [beq_iff_eq]; omega)]
  exact .ok trivial

/-- changing the page number keeps the list invariant -/
theorem SelInv.page {sh : Shared D L} {s : Selecting} (hs : SelInv env w sh s) (n : Nat) :
    SelInv env w sh { s with pageNo := n } := ⟨hs.sel, hs.repl⟩

theorem selPrevPage_ok (hE : EnvOK env G) {sh : Shared D L} (h : ShInv env G w sh) {s : Selecting}
    (hs : SelInv env w sh s) : SelResOK env G w (selPrevPage env s sh) := by
  unfold selPrevPage
  split
  · exact .ok ⟨h, fun _ _ => hs.page _, fun st hst => (by cases hst)⟩
  · obtain ⟨tp, hq, _⟩ := totalPage_ok hE h hs
    rw [hq]
    exact .ok ⟨h, fun _ _ => hs.page _, fun st hst => (by cases hst)⟩

theorem selNextPage_ok (hE : EnvOK env G) {sh : Shared D L} (h : ShInv env G w sh) {s : Selecting}
    (hs : SelInv env w sh s) : SelResOK env G w (selNextPage env s sh) := by
  obtain ⟨tp, hq, _⟩ := totalPage_ok hE h hs
  unfold selNextPage
  rw [hq]
  dsimp only
  split
  · exact .ok ⟨h, fun _ _ => hs.page _, fun st hst => (by cases hst)⟩
  · exact .ok ⟨h, fun _ _ => hs.page _, fun st hst => (by cases hst)⟩

/-! ## choosing a candidate -/

/-- result of `Selecting::select` -/
def SelectOK (env : Env D L) (G : D → Prop) (w : Prop) (r : Outcome (Selecting × Shared D L × Trans)) : Prop :=
  OkAnd (fun x => ShInv env G w x.2.1 ∧ (∀ b, x.2.2 = .spin b → SelInv env w x.2.1 x.1) ∧
    ∀ st, x.2.2 = .toState st → StInv env w x.2.1 st) r

theorem select_ok (hE : EnvOK env G) {sh : Shared D L} (h : ShInv env G w sh) {s : Selecting}
    (hs : SelInv env w sh s) (n : Nat) : SelectOK env G w (Selecting.select env s sh n) := by
  have hpop : ∀ c : CompEditor, CedPostC sh.com c → ShInv env G w { sh with com := c.popCursor } := by
    intro c hc
    have h1 := h.setComC hc
    exact (h1.setComSame (ced_popCursor h1.ced) (by rw [popCursor_inner])).congr rfl rfl rfl rfl rfl rfl
  have hins : ∀ x : Nat, OkAnd (fun c => ShInv env G w { sh with com := c.popCursor }) (sh.com.insert (.chr x)) :=
    fun x => (insertChr_ok h.ced x).mono (fun c hc => hpop c hc)
  have hrep : ∀ x : Nat, s.action = .replace → (∀ p, s.sel ≠ .phrase p) →
      OkAnd (fun c => ShInv env G w { sh with com := c.popCursor }) (sh.com.replace (.chr x)) := by
    intro x hact hnp
    obtain ⟨ch', hch'⟩ : ∃ ch', sh.com.inner.symbols[sh.com.cursor]? = some (Sym.chr ch') := by
      rcases hs.repl hact with ⟨p, hp⟩ | hh
      · exact absurd hp (hnp p)
      · exact hh
    have hlt : sh.com.cursor < sh.com.inner.symbols.length := by
      rcases Nat.lt_or_ge sh.com.cursor sh.com.inner.symbols.length with hh | hh
      · exact hh
      · rw [List.getElem?_eq_none hh] at hch'; cases hch'
    have hv : CedValid sh.com (.replace (.chr x)) := by
      refine .inr ?_
      intro sel hsel hcov
      obtain ⟨k, hk⟩ := h.ced.inner.syl sel hsel sh.com.cursor hcov.1 hcov.2
      rw [hk] at hch'; cases hch'
    exact (ced_replace h.ced (.chr x) hlt hv).mono (fun c hpc => hpop c (hpc.toC (fun s hs => by cases hs; rfl)))
  have h1 := hs.sel
  unfold Selecting.select
  dsimp only
  -- the bounds check of the C07 fixes: the list is computed (never a panic under the invariant); an index
  -- at or beyond its length is answered with a bell and changes nothing
  obtain ⟨listed, hlisted, _⟩ := candidates_ok hE h hs
  rw [hlisted]
  dsimp only
  split
  · exact .ok ⟨h, fun _ _ => hs, fun st hst => (by cases hst)⟩
  split
  · next p hp =>
    rw [hp] at h1
    obtain ⟨cands, hq, hlen⟩ := phraseCandidates_ok hE h h1
    rw [hq]
    dsimp only
    split
    · next phrase hph =>
      have hmem : phrase ∈ cands := List.mem_of_getElem? hph
      have hl := hlen phrase hmem
      have hne : (p.interval phrase).text ≠ [] := by
        intro he
        have : phrase.length = 0 := by simp only [PhraseSel.interval] at he; rw [he]; rfl
        have := h1.lt; omega
      have hv : CedValid sh.com (.select (p.interval phrase)) := by
        refine ⟨⟨h1.lt, ?_⟩, hl, ?_⟩
        · show p.end_ ≤ sh.com.inner.symbols.length; rw [← h1.com]; exact h1.le
        · show AllSyl sh.com.inner p.begin_ p.end_; rw [← h1.com]; exact h1.syl
      obtain ⟨c, hqc, hpc⟩ := ced_select h.ced (p.interval phrase) hne hv
      rw [hqc]
      dsimp only
      have hc1 := hpop c (hpc.toC (fun s hs => by cases hs))
      refine .ok ⟨?_, fun b hb => (by cases hb), fun st hst => (by cases hst; trivial)⟩
      split
      · exact (hc1.setComSame (ced_moveRight hc1.ced) rfl).congr rfl rfl rfl rfl rfl rfl
      · exact hc1
    · exact .ok ⟨h, fun _ _ => hs, fun st hst => (by cases hst)⟩
  · next y hy =>
    rw [hy] at h1
    obtain ⟨⟨osym, y'⟩, hqy, hy', hchr⟩ := symSelect_ok h1 (Selecting.offset s sh n)
    rw [hqy]
    cases osym with
    | none =>
      -- a category: its sub-table opens; one without symbols closes the list (FX1 repair)
      dsimp only
      obtain ⟨l', hl'⟩ := symMenu_ok hy'
      rw [hl']
      cases l' with
      | nil => exact .ok ⟨cancel_inv h, fun b hb => (by cases hb), fun st hst => (by cases hst; trivial)⟩
      | cons a l' =>
        exact .ok ⟨h, fun _ _ => ⟨hy', fun ha => (hs.repl ha).imp (fun ⟨p, hp⟩ => by rw [hy] at hp; cases hp) id⟩,
          fun st hst => (by cases hst)⟩
    | some sym =>
      dsimp only
      cases sym with
      | syl k => have := hchr _ rfl; simp [Sym.isSyl] at this
      | chr x =>
        cases hact : s.action with
        | insert =>
          dsimp only
          obtain ⟨c, hqc, hc⟩ := hins x
          rw [hqc]
          simp only [Outcome.map]
          exact .ok ⟨hc, fun b hb => (by cases hb), fun st hst => (by cases hst; trivial)⟩
        | replace =>
          dsimp only
          obtain ⟨c, hqc, hc⟩ := hrep x hact (fun p hp => by rw [hy] at hp; cases hp)
          rw [hqc]
          simp only [Outcome.map]
          exact .ok ⟨hc, fun b hb => (by cases hb), fun st hst => (by cases hst; trivial)⟩
  · next sym hy =>
    rw [hy] at h1
    cases sym with
    | syl k => simp [Sym.isSyl] at h1
    | chr ch =>
      obtain ⟨l, hl⟩ : ∃ l, specialSelect (.chr ch) (Selecting.offset s sh n) = .ok l := by
        unfold specialSelect specialFindCategory
        dsimp only
        split
        · exact ⟨_, rfl⟩
        · exact ⟨_, rfl⟩
        · next hh => cases hh
        · next hh => cases hh
      rw [hl]
      cases l with
      | none => exact .ok ⟨h, fun _ _ => ⟨by rw [hy]; rfl, hs.repl⟩, fun st hst => (by cases hst)⟩
      | some out =>
        dsimp only
        have hout : ∃ x, out = .chr x := by
          unfold specialSelect specialFindCategory at hl
          dsimp only at hl
          split at hl
          · injection hl with hl
            cases hx : ((_ : List Nat).drop 1)[Selecting.offset s sh n]? with
            | none => rw [hx] at hl; cases hl
            | some v => rw [hx] at hl; cases hl; exact ⟨v, rfl⟩
          · cases hl
          · cases hl
          · cases hl
        obtain ⟨x, rfl⟩ := hout
        cases hact : s.action with
        | insert =>
          dsimp only
          obtain ⟨c, hqc, hc⟩ := hins x
          rw [hqc]
          exact .ok ⟨hc, fun b hb => (by cases hb), fun st hst => (by cases hst; trivial)⟩
        | replace =>
          dsimp only
          obtain ⟨c, hqc, hc⟩ := hrep x hact (fun p hp => by rw [hy] at hp; cases hp)
          rw [hqc]
          exact .ok ⟨hc, fun b hb => (by cases hb), fun st hst => (by cases hst; trivial)⟩

end Chewing.C01
