import Chewing.Proofs.C01Editor
/-!
C01, part 6: keys under an open candidate list — the arms of `Selecting::next` that do not consult the
candidates (modifier combinations, Backspace, CapsLock, Up, Esc, Del, every key without a meaning there).
The remaining arms (Down/Space, j/k, page keys, digits) are named by `selHardKey`.
-/
namespace Chewing.C01
open Chewing Chewing.C04 Chewing.C05 Chewing.C06

variable {D L : Type} {env : Env D L} {G : D → Prop}

/-- the keys whose arm of `Selecting::next` reads or changes the candidate list -/
def selHardKey (ev : KeyEvent) : Bool :=
  !(ev.mods.ctrl || ev.mods.shift) && !(ev.code == KC.backspace) && !(ev.code == KC.unknown && ev.mods.capslock) &&
  !(ev.code == KC.up) &&
  (ev.code == KC.down || ev.code == KC.space || ev.code == KC.j || ev.code == KC.k || ev.code == KC.left ||
   ev.code == KC.pageUp || ev.code == KC.right || ev.code == KC.pageDown || isDigitCode ev.code)

/-- result of `Selecting::next`: invariant of the shared state, of the list if it stays open, and of the
    state it switches to -/
def SelResOK (env : Env D L) (G : D → Prop) (r : Outcome (SelRes D L)) : Prop :=
  OkAnd (fun x => ShInv env G x.shared ∧ (∀ b, x.trans = .spin b → SelInv env x.shared x.sel) ∧
    ∀ st, x.trans = .toState st → StInv env x.shared st) r

theorem selResOK_ite {c : Prop} [Decidable c] {a b : Outcome (SelRes D L)} (h1 : c → SelResOK env G a)
    (h2 : ¬ c → SelResOK env G b) : SelResOK env G (if c then a else b) := by
  split
  · next h => exact h1 h
  · next h => exact h2 h

theorem cancel_inv {sh : Shared D L} (h : ShInv env G sh) : ShInv env G (Shared.cancelSelecting sh) :=
  h.setComSame (ced_popCursor h.ced) (by rw [popCursor_inner])

theorem selectingNext_easy {sh : Shared D L} {s : Selecting} (h : ShInv env G sh) (hs : SelInv env sh s)
    (ev : KeyEvent) (hkey : selHardKey ev = false) : SelResOK env G (selectingNext env s sh ev) := by
  have leafSpin : ∀ b, SelResOK env G (.ok ⟨sh, s, .spin b⟩) :=
    fun b => .ok ⟨h, fun _ _ => hs, fun st hst => (by cases hst)⟩
  have leafTo : ∀ sh' : Shared D L, ShInv env G sh' → SelResOK env G (.ok ⟨sh', s, .toState .entering⟩) :=
    fun sh' h' => .ok ⟨h', fun b hb => (by cases hb), fun st hst => (by cases hst; trivial)⟩
  unfold selectingNext
  refine selResOK_ite (fun _ => leafSpin _) fun c1 => ?_
  refine selResOK_ite (fun _ => leafTo _ (cancel_inv h)) fun c2 => ?_
  refine selResOK_ite (fun _ => leafTo _ (cancel_inv (h.congr rfl rfl rfl rfl rfl))) fun c3 => ?_
  refine selResOK_ite (fun _ => leafTo _ (cancel_inv h)) fun c4 => ?_
  have hard : ∀ {P : Prop}, (ev.code == KC.down || ev.code == KC.space || ev.code == KC.j || ev.code == KC.k ||
      ev.code == KC.left || ev.code == KC.pageUp || ev.code == KC.right || ev.code == KC.pageDown ||
      isDigitCode ev.code) = true → P := by
    intro P hh
    exfalso
    unfold selHardKey at hkey
    rw [hh] at hkey
    simp only [Bool.and_true, Bool.and_eq_false_iff, Bool.not_eq_false'] at hkey
    rcases hkey with ((hkey | hkey) | hkey) | hkey
    · exact c1 hkey
    · exact c2 hkey
    · exact c3 hkey
    · exact c4 hkey
  refine selResOK_ite (fun c => hard (by simp only [Bool.or_eq_true] at c ⊢; rcases c with c | c <;> simp [c])) fun _ => ?_
  refine selResOK_ite (fun c => hard (by simp [c])) fun _ => ?_
  refine selResOK_ite (fun c => hard (by simp [c])) fun _ => ?_
  refine selResOK_ite (fun c => hard (by simp only [Bool.or_eq_true] at c ⊢; rcases c with c | c <;> simp [c])) fun _ => ?_
  refine selResOK_ite (fun c => hard (by simp only [Bool.or_eq_true] at c ⊢; rcases c with c | c <;> simp [c])) fun _ => ?_
  refine selResOK_ite (fun c => hard (by simp [c])) fun _ => ?_
  refine selResOK_ite (fun _ => ?_) fun _ => ?_
  · refine leafTo _ ?_
    exact (cancel_inv h).setComSame (ced_popCursor (cancel_inv h).ced) (by rw [popCursor_inner])
  · exact selResOK_ite (fun _ => leafSpin _) (fun _ => leafSpin _)

/-- `process_keyevent` under an open candidate list, for the keys of `selectingNext_easy` -/
theorem processKey_selecting_easy (hE : EnvOK env G) {e : Editor D L} (hi : EditorInv env G e) {s : Selecting}
    (hst : e.state = .selecting s) (ev : KeyEvent) (hkey : selHardKey ev = false) :
    OkAnd (fun x => EditorInv env G x.1) (e.processKey env ev) := by
  rw [processKey_eq]
  have h0 := preamble_inv hi.sh
  have hs0 : SelInv env (preamble e.shared) s := by
    have := hi.st
    rw [hst] at this
    exact StInv.same (st := .selecting s) this rfl rfl
  obtain ⟨x, hq, h1, h2, h3⟩ := selectingNext_easy h0 hs0 ev hkey
  unfold dispatch
  rw [hst]
  dsimp only
  rw [hq]
  simp only [Outcome.map]
  cases ht : x.trans with
  | toState st =>
    simp only [applyTrans]
    exact tail_ok hE (sh := { x.shared with last := .absorb }) (st := st) (h1.congr rfl rfl rfl rfl rfl)
      ((h3 st ht).same rfl rfl)
  | spin b =>
    simp only [applyTrans]
    exact tail_ok hE (sh := { x.shared with last := b }) (st := .selecting x.sel) (h1.congr rfl rfl rfl rfl rfl)
      (StInv.same (st := .selecting x.sel) (h2 b ht) rfl rfl)

/-- what this package's theorem covers so far: everything except, **while a candidate list is open**,
    `select(n)`, `jump_*` and the keys whose arm reads or changes the list (`selHardKey`: Down, Space, j, k,
    Left, Right, PageUp, PageDown, digits — without Ctrl/Shift) -/
def Covered (e : Editor D L) : Op L → Prop
  | .key ev => ∀ s, e.state = .selecting s → selHardKey ev = false
  | .select _ => ∀ s, e.state ≠ .selecting s
  | .jump _ => ∀ s, e.state ≠ .selecting s
  | _ => True

/-- **one operation**: it returns (no panic, no exhausted fuel) and the invariant holds again -/
theorem apply_ok (hE : EnvOK env G) {e : Editor D L} (hi : EditorInv env G e) (op : Op L) (hv : OpValid op)
    (hk : ¬ Known env e op) (hc : Covered e op) : OkAnd (EditorInv env G) (e.apply env op) := by
  cases op with
  | key ev =>
    have hpk : OkAnd (fun x => EditorInv env G x.1) (e.processKey env ev) := by
      cases hst : e.state with
      | selecting s => exact processKey_selecting_easy hE hi hst ev (hc s hst)
      | entering => exact processKey_ok hE hi (fun s hs => by rw [hst] at hs; cases hs) ev
      | enteringSyllable => exact processKey_ok hE hi (fun s hs => by rw [hst] at hs; cases hs) ev
      | highlighting m => exact processKey_ok hE hi (fun s hs => by rw [hst] at hs; cases hs) ev
    obtain ⟨⟨e', b⟩, hq, h1⟩ := hpk
    simp only [Editor.apply]; rw [hq]; exact .ok h1
  | select n =>
    simp only [Editor.apply, Editor.select]
    split
    · next s hs => exact absurd hs (hc s)
    · exact .ok hi
  | startSelecting =>
    obtain ⟨⟨e', b⟩, hq, h1⟩ := startSelecting_api_ok hE hi
    simp only [Editor.apply]; rw [hq]; exact .ok h1
  | cancelSelecting => exact .ok (cancelSelecting_api_ok hi)
  | commit =>
    obtain ⟨⟨e', b⟩, hq, h1⟩ := commit_api_ok hE hi
    simp only [Editor.apply]; rw [hq]; exact .ok h1
  | clear => exact .ok (clear_api_ok hi)
  | ack => exact .ok ⟨hi.sh.congr rfl rfl rfl rfl rfl, hi.st.same rfl rfl⟩
  | clearSyl =>
    exact .ok (leaveIfEmpty_inv ⟨hi.sh.congr rfl rfl rfl rfl rfl, hi.st.same rfl rfl⟩)
  | setOptions o =>
    simp only [Known, Classical.not_not] at hk
    refine .ok (leaveIfEmpty_inv ?_)
    have hsh : ∀ sh1 : Shared D L, sh1.dict = e.shared.dict → sh1.com = e.shared.com → sh1.engine = e.shared.engine →
        ShInv env G { sh1 with options := o } := by
      intro sh1 hd hcm he
      refine ⟨hd ▸ hi.sh.good, hcm ▸ hi.sh.ced, ?_, ?_, hv⟩
      · intro c hcc
        have hcc' : Sym.syl c ∈ e.shared.com.inner.symbols := by
          have : sh1.com.inner.symbols = e.shared.com.inner.symbols := by rw [hcm]
          exact this ▸ hcc
        show env.hasPhrase sh1.dict [c] (engStrategy sh1.engine) = true ∧ env.hasPhrase sh1.dict [c] o.lookupStrategy = true
        rw [hd, he]
        exact ⟨(hi.sh.word c hcc').1, hk.1 c hcc'⟩
      · show o.lookupStrategy = .fuzzyPartialPrefix → engStrategy sh1.engine = .fuzzyPartialPrefix
        rw [he]; exact hk.2
    by_cases hlm : (e.shared.options.languageMode != o.languageMode) = true
    · exact ⟨by rw [if_pos hlm]; exact hsh _ rfl rfl rfl, by rw [if_pos hlm]; exact hi.st.same rfl rfl⟩
    · exact ⟨by rw [if_neg hlm]; exact hsh _ rfl rfl rfl, by rw [if_neg hlm]; exact hi.st.same rfl rfl⟩
  | setLayout l =>
    exact .ok (leaveIfEmpty_inv ⟨hi.sh.congr rfl rfl rfl rfl rfl, hi.st.same rfl rfl⟩)
  | setEngine k =>
    simp only [Known, Classical.not_not] at hk
    refine .ok ⟨⟨hi.sh.good, hi.sh.ced, ?_, hk.2, hi.sh.perPage⟩, hi.st.same rfl rfl⟩
    intro c hcc
    exact ⟨hk.1 c hcc, (hi.sh.word c hcc).2⟩
  | learn k p => exact learn_api_ok hE hi k p
  | unlearn k p =>
    simp only [Known, Classical.not_not] at hk
    refine .ok ⟨⟨hE.remove_good _ _ _ hi.sh.good, hi.sh.ced, ?_, hi.sh.coupled, hi.sh.perPage⟩, ?_⟩
    · intro c hcc
      exact ⟨hk.1 c hcc, hk.2.1 c hcc⟩
    · exact stInv_unlearn hi hk.2.2 rfl rfl
  | jump w =>
    simp only [Editor.apply, Editor.jump]
    split
    · next s hs => exact absurd hs (hc s)
    · exact .ok hi

end Chewing.C01
