import Chewing.Proofs.C01Editor
/-!
C01, part 6: keys under an open candidate list — the arms of `Selecting::next` that do not consult the
candidates (modifier combinations, Backspace, CapsLock, Up, Esc, Del, every key without a meaning there).
The remaining arms (Down/Space, j/k, page keys, digits) are named by `selHardKey`.
-/
namespace Chewing.C01
open Chewing Chewing.C04 Chewing.C05 Chewing.C06

variable {D L : Type} {env : Env D L} {G : D → Prop} {w : Prop}

/-- the keys whose arm of `Selecting::next` reads or changes the candidate list -/
def selHardKey (ev : KeyEvent) : Bool :=
  !(ev.mods.ctrl || ev.mods.shift) && !(ev.code == KC.backspace) && !(ev.code == KC.unknown && ev.mods.capslock) &&
  !(ev.code == KC.up) &&
  (ev.code == KC.down || ev.code == KC.space || ev.code == KC.j || ev.code == KC.k || ev.code == KC.left ||
   ev.code == KC.pageUp || ev.code == KC.right || ev.code == KC.pageDown || isDigitCode ev.code)

/-- result of `Selecting::next`: invariant of the shared state, of the list if it stays open, and of the
    state it switches to -/
def SelResOK (env : Env D L) (G : D → Prop) (w : Prop) (r : Outcome (SelRes D L)) : Prop :=
  OkAnd (fun x => ShInv env G w x.shared ∧ (∀ b, x.trans = .spin b → SelInv env w x.shared x.sel) ∧
    ∀ st, x.trans = .toState st → StInv env w x.shared st) r

theorem selResOK_ite {c : Prop} [Decidable c] {a b : Outcome (SelRes D L)} (h1 : c → SelResOK env G w a)
    (h2 : ¬ c → SelResOK env G w b) : SelResOK env G w (if c then a else b) := by
  split
  · next h => exact h1 h
  · next h => exact h2 h

theorem cancel_inv {sh : Shared D L} (h : ShInv env G w sh) : ShInv env G w (Shared.cancelSelecting sh) :=
  h.setComSame (ced_popCursor h.ced) (by rw [popCursor_inner])

theorem selectingNext_easy {sh : Shared D L} {s : Selecting} (h : ShInv env G w sh) (hs : SelInv env w sh s)
    (ev : KeyEvent) (hkey : selHardKey ev = false) : SelResOK env G w (selectingNext env s sh ev) := by
  have leafSpin : ∀ b, SelResOK env G w (.ok ⟨sh, s, .spin b⟩) :=
    fun b => .ok ⟨h, fun _ _ => hs, fun st hst => (by cases hst)⟩
  have leafTo : ∀ sh' : Shared D L, ShInv env G w sh' → SelResOK env G w (.ok ⟨sh', s, .toState .entering⟩) :=
    fun sh' h' => .ok ⟨h', fun b hb => (by cases hb), fun st hst => (by cases hst; trivial)⟩
  unfold selectingNext
  refine selResOK_ite (fun _ => leafSpin _) fun c1 => ?_
  refine selResOK_ite (fun _ => leafTo _ (cancel_inv h)) fun c2 => ?_
  refine selResOK_ite (fun _ => leafTo _ (cancel_inv (h.congr rfl rfl rfl rfl rfl rfl))) fun c3 => ?_
  refine selResOK_ite (fun _ => leafTo _ (cancel_inv h)) fun c4 => ?_
  have hard : ∀ {P : Prop}, (ev.code == KC.down || ev.code == KC.space || ev.code == KC.j || ev.code == KC.k ||
      ev.code == KC.left || ev.code == KC.pageUp || ev.code == KC.right || ev.code == KC.pageDown ||
      isDigitCode ev.code) = true → P := by
    intro P hh
    exfalso
    unfold selHardKey at hkey
    rw [hh] at hkey
    simp only [Bool.and_true, Bool.and_eq_false_iff, Bool.not_eq_false'] at hkey
    rcases hkey with ((hkey | hkey) | hkey) | hkey
    · exact c1 hkey
    · exact c2 hkey
    · exact c3 hkey
    · exact c4 hkey
  refine selResOK_ite (fun c => hard (by simp only [Bool.or_eq_true] at c ⊢; rcases c with c | c <;> simp [c])) fun _ => ?_
  refine selResOK_ite (fun c => hard (by simp [c])) fun _ => ?_
  refine selResOK_ite (fun c => hard (by simp [c])) fun _ => ?_
  refine selResOK_ite (fun c => hard (by simp only [Bool.or_eq_true] at c ⊢; rcases c with c | c <;> simp [c])) fun _ => ?_
  refine selResOK_ite (fun c => hard (by simp only [Bool.or_eq_true] at c ⊢; rcases c with c | c <;> simp [c])) fun _ => ?_
  refine selResOK_ite (fun c => hard (by simp [c])) fun _ => ?_
  refine selResOK_ite (fun _ => ?_) fun _ => ?_
  · refine leafTo _ ?_
    exact (cancel_inv h).setComSame (ced_popCursor (cancel_inv h).ced) (by rw [popCursor_inner])
  · exact selResOK_ite (fun _ => leafSpin _) (fun _ => leafSpin _)

/-- `process_keyevent` under an open candidate list, given that the state's `next` is fine -/
theorem processKey_selecting_of (hE : EnvOK env G) {e : Editor D L} {s : Selecting}
    (hst : e.state = .selecting s) (ev : KeyEvent)
    (hsel : SelResOK env G w (selectingNext env s (preamble e.shared) ev)) :
    OkAnd (fun x => EditorInv env G w x.1) (e.processKey env ev) := by
  rw [processKey_eq]
  obtain ⟨x, hq, h1, h2, h3⟩ := hsel
  unfold dispatch
  rw [hst]
  dsimp only
  rw [hq]
  simp only [Outcome.map]
  cases ht : x.trans with
  | toState st =>
    simp only [applyTrans]
    exact tail_ok hE (sh := { x.shared with last := .absorb }) (st := st) (h1.congr rfl rfl rfl rfl rfl rfl)
      ((h3 st ht).same rfl rfl)
  | spin b =>
    simp only [applyTrans]
    exact tail_ok hE (sh := { x.shared with last := b }) (st := .selecting x.sel) (h1.congr rfl rfl rfl rfl rfl rfl)
      (StInv.same (st := .selecting x.sel) (h2 b ht) rfl rfl)

theorem selInv_preamble {e : Editor D L} (hi : EditorInv env G w e) {s : Selecting} (hst : e.state = .selecting s) :
    SelInv env w (preamble e.shared) s := by
  have := hi.st
  rw [hst] at this
  exact StInv.same (st := .selecting s) this rfl rfl

end Chewing.C01
