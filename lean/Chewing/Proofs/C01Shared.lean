import Chewing.Proofs.C01Inv
import Chewing.Proofs.ConvDisplay
/-!
C01, part 2: hypotheses on the environment (`EnvOK`), the invariant of `SharedState` (`ShInv`), and
no-panic + preservation for the `SharedState` methods: `conversion`, `display`, `learn_phrase`,
`learn_phrase_in_range_*`, `auto_learn`, `commit`, `try_auto_commit`.
-/
namespace Chewing.C01
open Chewing Chewing.C04 Chewing.C05

variable {D L : Type} (env : Env D L) (G : D → Prop) (w : Prop)

/-- what the conversion result looks like on a buffer whose syllables all have a word: a chain of
    non-empty intervals from 0 to the buffer length, one character per covered symbol (C03: `alt_chain`,
    `one_char_per_symbol`) -/
def PathOK (c : Composition) (p : List Interval) : Prop :=
  Conv.IvChain 0 c.symbols.length p ∧ ∀ iv ∈ p, iv.text.length = iv.stop - iv.start

/-- … and on ANY valid buffer (C03: `alt_chain`, `text_at_least_one_per_symbol`): the same chain; an
    interval's text has at least one character per covered symbol (a syllable without a word is shown as its
    Bopomofo spelling, one to four characters) -/
def PathW (c : Composition) (p : List Interval) : Prop :=
  Conv.IvChain 0 c.symbols.length p ∧ ∀ iv ∈ p, iv.stop - iv.start ≤ iv.text.length

theorem PathOK.weak {c : Composition} {p : List Interval} (h : PathOK c p) : PathW c p :=
  ⟨h.1, fun iv hm => Nat.le_of_eq (h.2 iv hm).symm⟩

/-- **explicit hypotheses on the environment** (dictionary, conversion engines, estimator).  `G` is
    "this dictionary value is well formed" (the statement quantifies over contexts with well-formed
    dictionaries). -/
structure EnvOK : Prop where
  /-- every phrase has one character per syllable of its key (F27 is about the compiler not checking it) -/
  wf : ∀ d, G d → ∀ k s, ∀ p ∈ env.lookupAll d k s, p.text.length = k.length
  /-- an exact match is also a prefix match -/
  std_fuzzy : ∀ d c, G d → env.hasPhrase d [c] .standard = true → env.hasPhrase d [c] .fuzzyPartialPrefix = true
  /-- adding a well-sized phrase keeps the dictionary well formed and removes no word -/
  add_good : ∀ d k p d', G d → env.addPhrase d k p = some d' → p.text.length = k.length → G d'
  add_mono : ∀ d k p d', env.addPhrase d k p = some d' →
    ∀ c s, env.hasPhrase d [c] s = true → env.hasPhrase d' [c] s = true
  update_good : ∀ d k p f t, G d → p.text.length = k.length → G (env.updatePhrase d k p f t)
  update_mono : ∀ d k p f t c s, env.hasPhrase d [c] s = true → env.hasPhrase (env.updatePhrase d k p f t) [c] s = true
  flush_good : ∀ d, G d → G (env.reopenFlush d)
  flush_mono : ∀ d c s, env.hasPhrase d [c] s = true → env.hasPhrase (env.reopenFlush d) [c] s = true
  /-- removing a phrase keeps the dictionary well formed (it may of course remove the last word of a syllable) -/
  remove_good : ∀ d k t, G d → G (env.removePhrase d k t)
  /-- C03 (`nonempty_result`, `alt_chain`, `text_at_least_one_per_symbol`, `fuel_suffices`): on EVERY valid
      composition — with or without a word for each syllable, since the F02 / F03 repair — every engine
      returns at least one alternative, each a chain over `0..len` whose texts have at least one character
      per symbol -/
  convert_ok : ∀ k d c, G d → Conv.CompValid c →
    OkAnd (fun paths => paths ≠ [] ∧ ∀ p ∈ paths, PathW c p) (env.convert k d c)
  /-- C03 (`one_char_per_symbol`): when every syllable has a word under the engine's strategy, exactly one
      character per symbol -/
  convert_len : ∀ k d c paths, G d → Conv.CompValid c →
    (∀ x, Sym.syl x ∈ c.symbols → env.hasPhrase d [x] (engStrategy k) = true) →
    env.convert k d c = .ok paths → ∀ p ∈ paths, ∀ iv ∈ p, iv.text.length = iv.stop - iv.start
  /-- the frequency estimate does not overflow on the editor path (C08: Δt = 0 there) -/
  estimate_ok : ∀ t f m, ∃ v, env.estimate t f m = .ok v

/-- well-formedness of a symbol selector (the tables of `symbols.dat` as loaded, plus the open category):
    a leaf category has a non-empty name, a table category points to an existing table (after the `as u8`
    cast), an open category is an existing table -/
structure SymWF (y : SymSel) : Prop where
  cur : ∀ c, y.cursor = some c → c < y.table.length
  leaf : ∀ name, (name, none) ∈ y.category → name ≠ []
  idx : ∀ name i, (name, some i) ∈ y.category → i % 256 < y.table.length

/-- **invariant of the shared state**, in two strengths: `w = False` is the SAFETY invariant (kept by every
    operation; enough for no-panic / no-hang since the F02 / F03 repair), `w = True` adds the clause `word`
    (kept by every operation outside the class `Known`; what the one-character-per-symbol properties need) -/
structure ShInv (sh : Shared D L) : Prop where
  good : G sh.dict
  ced : CedInv sh.com
  /-- (strength `w`) every buffered syllable has a word under the engine's strategy and under the editor's
      lookup strategy -/
  word : w → ∀ c, Sym.syl c ∈ sh.com.inner.symbols →
    env.hasPhrase sh.dict [c] (engStrategy sh.engine) = true ∧ env.hasPhrase sh.dict [c] sh.options.lookupStrategy = true
  /-- (strength `w`) prefix lookup is only configured together with the fuzzy engine (the C API sets both at
      once; only needed to carry `word` from the editor's strategy to the engine's) -/
  coupled : w → sh.options.lookupStrategy = .fuzzyPartialPrefix → engStrategy sh.engine = .fuzzyPartialPrefix
  perPage : 0 < sh.options.candidatesPerPage
  /-- the symbol tables the editor was created with are well formed -/
  symOK : SymWF sh.symSel

variable {env G w}

/-- the invariant only reads `dict`, `com`, `engine` and two options -/
theorem ShInv.congr {sh sh' : Shared D L} (h : ShInv env G w sh) (hd : sh'.dict = sh.dict) (hc : sh'.com = sh.com)
    (he : sh'.engine = sh.engine) (hl : sh'.options.lookupStrategy = sh.options.lookupStrategy)
    (hp : sh'.options.candidatesPerPage = sh.options.candidatesPerPage)
    (hy : sh'.symSel = sh.symSel) : ShInv env G w sh' := by
  refine ⟨hd ▸ h.good, hc ▸ h.ced, ?_, ?_, hp ▸ h.perPage, hy ▸ h.symOK⟩
  · intro hw c hcm; rw [hd, he, hl]; rw [hc] at hcm; exact h.word hw c hcm
  · rw [hl, he]; exact h.coupled

/-- a new composition editor whose symbols were all there before -/
theorem ShInv.setCom {sh : Shared D L} (h : ShInv env G w sh) {c : CompEditor} (hp : CedPost sh.com none c) :
    ShInv env G w { sh with com := c } := by
  refine ⟨h.good, hp.1, ?_, h.coupled, h.perPage, h.symOK⟩
  intro hw x hx
  rcases hp.2 _ hx with hm | hm
  · exact h.word hw x hm
  · cases hm

/-- … or are the new symbol `x`, which (if a syllable) has its words -/
theorem ShInv.setComIns {sh : Shared D L} (h : ShInv env G w sh) {c : CompEditor} {x : Sym} (hp : CedPost sh.com (some x) c)
    (hx : w → ∀ k, x = .syl k → env.hasPhrase sh.dict [k] (engStrategy sh.engine) = true ∧
      env.hasPhrase sh.dict [k] sh.options.lookupStrategy = true) :
    ShInv env G w { sh with com := c } := by
  refine ⟨h.good, hp.1, ?_, h.coupled, h.perPage, h.symOK⟩
  intro hw y hy
  rcases hp.2 _ hy with hm | hm
  · exact h.word hw y hm
  · cases hm; exact hx hw y rfl

/-- the buffer is only re-read: cursor moves, cursor stack -/
theorem ShInv.setComSame {sh : Shared D L} (h : ShInv env G w sh) {c : CompEditor} (hc : CedInv c)
    (hs : c.inner.symbols = sh.com.inner.symbols) : ShInv env G w { sh with com := c } :=
  h.setCom ⟨hc, fun s hm => .inl (hs ▸ hm)⟩

/-- a new dictionary value that is well formed and lost no single-syllable word -/
theorem ShInv.setDict {sh : Shared D L} (h : ShInv env G w sh) {d : D} (hg : G d)
    (hm : ∀ c s, env.hasPhrase sh.dict [c] s = true → env.hasPhrase d [c] s = true) :
    ShInv env G w { sh with dict := d } :=
  ⟨hg, h.ced, fun hw c hc => ⟨hm _ _ (h.word hw c hc).1, hm _ _ (h.word hw c hc).2⟩, h.coupled, h.perPage, h.symOK⟩

/-- a new dictionary value that is well formed, whatever happened to its words: the safety invariant only -/
theorem ShInv.setDictAny {sh : Shared D L} (h : ShInv env G False sh) {d : D} (hg : G d) :
    ShInv env G False { sh with dict := d } :=
  ⟨hg, h.ced, fun hw => hw.elim, fun hw => hw.elim, h.perPage, h.symOK⟩

/-- the safety invariant is the word-free part of the full one -/
theorem ShInv.safe {sh : Shared D L} (h : ShInv env G w sh) : ShInv env G False sh :=
  ⟨h.good, h.ced, fun hw => hw.elim, fun hw => hw.elim, h.perPage, h.symOK⟩

/-- what dictionary-only methods keep -/
structure Keeps (env : Env D L) (sh sh' : Shared D L) : Prop where
  com : sh'.com = sh.com
  engine : sh'.engine = sh.engine
  options : sh'.options = sh.options
  symSel : sh'.symSel = sh.symSel
  syl : sh'.syl = sh.syl
  mono : ∀ c s, env.hasPhrase sh.dict [c] s = true → env.hasPhrase sh'.dict [c] s = true

theorem Keeps.refl (sh : Shared D L) : Keeps env sh sh := ⟨rfl, rfl, rfl, rfl, rfl, fun _ _ h => h⟩

theorem Keeps.trans {a b c : Shared D L} (h1 : Keeps env a b) (h2 : Keeps env b c) : Keeps env a c :=
  ⟨h2.com.trans h1.com, h2.engine.trans h1.engine, h2.options.trans h1.options, h2.symSel.trans h1.symSel,
   h2.syl.trans h1.syl, fun x s h => h2.mono x s (h1.mono x s h)⟩

/-! ## `conversion` / `display` -/

theorem conversion_pick {P : List Interval → Prop} (sh : Shared D L) {paths : List (List Interval)}
    (hp : env.convert sh.engine sh.dict sh.com.inner = .ok paths) (hne : paths ≠ []) (hall : ∀ p ∈ paths, P p) :
    OkAnd P (Shared.conversion env sh) := by
  unfold Shared.conversion
  rw [hp]
  dsimp only
  have hl : 0 < paths.length := List.length_pos_iff.mpr hne
  split
  · split
    · next h0 => simp only [beq_iff_eq] at h0; omega
    · have hlt : sh.nth % paths.length < paths.length := Nat.mod_lt _ hl
      rw [List.getElem?_eq_getElem hlt]
      exact ⟨_, rfl, hall _ (List.getElem_mem _)⟩
  · cases paths with
    | nil => exact absurd rfl hne
    | cons p ps => exact ⟨p, rfl, hall p (List.mem_cons_self ..)⟩

/-- `conversion` returns on every state satisfying the safety invariant (no `unwrap()` on "no path") -/
theorem conversion_ok (hE : EnvOK env G) {sh : Shared D L} (h : ShInv env G w sh) :
    OkAnd (PathW sh.com.inner) (Shared.conversion env sh) := by
  obtain ⟨paths, hp, hne, hall⟩ := hE.convert_ok sh.engine sh.dict sh.com.inner h.good
    (compValid_of_cinv h.ced.inner)
  exact conversion_pick sh hp hne hall

/-- … with one character per symbol when every buffered syllable has a word -/
theorem conversion_exact (hE : EnvOK env G) {sh : Shared D L} (h : ShInv env G True sh) :
    OkAnd (PathOK sh.com.inner) (Shared.conversion env sh) := by
  obtain ⟨paths, hp, hne, hall⟩ := hE.convert_ok sh.engine sh.dict sh.com.inner h.good
    (compValid_of_cinv h.ced.inner)
  exact conversion_pick sh hp hne (fun p hm => ⟨(hall p hm).1,
    hE.convert_len _ _ _ _ h.good (compValid_of_cinv h.ced.inner) (fun x hx => (h.word trivial x hx).1) hp p hm⟩)

theorem display_length_ge {a b : Nat} {l : List Interval} (h : Conv.IvChain a b l)
    (hl : ∀ iv ∈ l, iv.stop - iv.start ≤ iv.text.length) : b - a ≤ (Conv.display l).length := by
  induction l generalizing a with
  | nil => cases h; simp
  | cons x r ih =>
    obtain ⟨h1, h2, h3⟩ := h
    rw [Conv.display_cons, List.length_append]
    have := ih h3 (fun iv hm => hl iv (List.mem_cons_of_mem _ hm))
    have := hl x (List.mem_cons_self ..)
    have := h3.le
    omega

theorem display_ok (hE : EnvOK env G) {sh : Shared D L} (h : ShInv env G w sh) :
    OkAnd (fun t => sh.com.inner.symbols.length ≤ t.length) (Shared.display env sh) := by
  obtain ⟨p, hp, hc, ht⟩ := conversion_ok hE h
  unfold Shared.display
  rw [hp]
  refine ⟨_, rfl, ?_⟩
  have := display_length_ge hc ht
  simpa [Conv.display] using this

/-! ## `learn_phrase` -/

theorem estimate_ne_panic (hE : EnvOK env G) (t f m : Nat) (q : String) : env.estimate t f m ≠ .panic q := by
  obtain ⟨v, hv⟩ := hE.estimate_ok t f m; rw [hv]; intro h; cases h

theorem estimate_ne_fuel (hE : EnvOK env G) (t f m : Nat) : env.estimate t f m ≠ .outOfFuel := by
  obtain ⟨v, hv⟩ := hE.estimate_ok t f m; rw [hv]; intro h; cases h

theorem learnPhrase_ok (hE : EnvOK env G) {sh : Shared D L} (h : ShInv env G w sh) (k : List Nat) (p : Text) :
    OkAnd (fun r => ShInv env G w r.1 ∧ Keeps env sh r.1) (Shared.learnPhrase env sh k p) := by
  unfold Shared.learnPhrase
  split
  · exact .ok ⟨h, Keeps.refl _⟩
  · next hlen =>
    have hlen : p.length = k.length := by
      simp only [bne_iff_ne, ne_eq, Decidable.not_not] at hlen; exact hlen.symm
    dsimp only
    split
    · split
      · next d hd =>
        exact .ok ⟨h.setDict (hE.add_good _ _ _ _ h.good hd hlen) (hE.add_mono _ _ _ _ hd),
          ⟨rfl, rfl, rfl, rfl, rfl, hE.add_mono _ _ _ _ hd⟩⟩
      · exact .ok ⟨h, Keeps.refl _⟩
    · have hup : ∀ v, ShInv env G w { sh with
          dict := env.updatePhrase sh.dict k { text := p, freq :=
            (((env.lookupAll sh.dict k .standard).find? (fun q => q.text == p)).map (·.freq)).getD 0 } v sh.time,
          dirty := sh.dirty + 1 } := fun v =>
        (h.setDict (hE.update_good _ _ _ _ _ h.good hlen) (fun c s hh => hE.update_mono _ _ _ _ _ c s hh)).congr
          rfl rfl rfl rfl rfl rfl
      split
      · exact .ok ⟨hup _, ⟨rfl, rfl, rfl, rfl, rfl, fun c s hh => hE.update_mono _ _ _ _ _ c s hh⟩⟩
      · next q hq => exact absurd hq (estimate_ne_panic hE _ _ _ _)
      · next hq => exact absurd hq (estimate_ne_fuel hE _ _ _)

/-! ## slices -/

theorem sliceSyms_ok {syms : List Sym} {b e : Nat} (h1 : b ≤ e) (h2 : e ≤ syms.length) :
    sliceSyms syms b e = .ok ((syms.drop b).take (e - b)) := by
  unfold sliceSyms
  rw [if_neg (by omega), if_neg (by omega)]

theorem sylPrefix_length_of_all {l : List Sym} (h : l.any (fun s => !s.isSyl) = false) :
    (sylPrefix l).length = l.length := by
  induction l with
  | nil => rfl
  | cons x r ih =>
    simp only [List.any_cons, Bool.or_eq_false_iff] at h
    cases x with
    | syl c => simp only [sylPrefix, List.length_cons]; rw [ih h.2]
    | chr c => simp [Sym.isSyl] at h

/-! ## `learn_phrase_in_range_*` (Ctrl+digit, Enter on a highlight) -/

theorem learnInRangeQuiet_ok (hE : EnvOK env G) {sh : Shared D L} (h : ShInv env G w sh) (a b : Nat) (hab : a ≤ b) :
    OkAnd (fun r => ShInv env G w r.1 ∧ Keeps env sh r.1) (Shared.learnInRangeQuiet env sh a b) := by
  unfold Shared.learnInRangeQuiet
  split
  · exact .ok ⟨h, Keeps.refl _⟩
  · next hb =>
    have hb : b ≤ sh.com.inner.symbols.length := by
      simp only [CompEditor.len, Composition.len] at hb; omega
    rw [show sh.com.symbols = sh.com.inner.symbols from rfl, sliceSyms_ok hab hb]
    dsimp only
    split
    · exact .ok ⟨h, Keeps.refl _⟩
    · next hall =>
      obtain ⟨disp, hd, hdl⟩ := display_ok hE h
      rw [hd]
      dsimp only
      split
      · exact .ok ⟨h, Keeps.refl _⟩
      · split
        · next d hadd =>
          have hlen : ((disp.drop a).take (b - a)).length =
              (sylPrefix ((sh.com.inner.symbols.drop a).take (b - a))).length := by
            rw [sylPrefix_length_of_all (by simpa using hall)]
            simp only [List.length_take, List.length_drop]
            omega
          refine .ok ⟨?_, ⟨rfl, rfl, rfl, rfl, rfl, hE.add_mono _ _ _ _ hadd⟩⟩
          exact (h.setDict (hE.add_good _ _ _ _ h.good hadd hlen) (hE.add_mono _ _ _ _ hadd)).congr rfl rfl rfl rfl rfl rfl
        · exact .ok ⟨h, Keeps.refl _⟩

theorem learnInRangeNotify_ok (hE : EnvOK env G) {sh : Shared D L} (h : ShInv env G w sh) (a b : Nat) (hab : a ≤ b) :
    OkAnd (fun r => ShInv env G w r.1 ∧ Keeps env sh r.1) (Shared.learnInRangeNotify env sh a b) := by
  obtain ⟨⟨sh', res⟩, hq, hi, hk⟩ := learnInRangeQuiet_ok hE h a b hab
  unfold Shared.learnInRangeNotify
  rw [hq]
  cases res with
  | ok phrase => exact .ok ⟨hi.congr rfl rfl rfl rfl rfl rfl, ⟨hk.com, hk.engine, hk.options, hk.symSel, hk.syl, hk.mono⟩⟩
  | error msg => exact .ok ⟨hi.congr rfl rfl rfl rfl rfl rfl, ⟨hk.com, hk.engine, hk.options, hk.symSel, hk.syl, hk.mono⟩⟩

/-! ## `auto_learn` -/

theorem autoLearn_flush_ok (hE : EnvOK env G) {sh : Shared D L} (h : ShInv env G w sh) (pending : Text) (syls : List Sym) :
    OkAnd (fun sh' => ShInv env G w sh' ∧ Keeps env sh sh') (Shared.autoLearn.flush env sh pending syls) := by
  unfold Shared.autoLearn.flush
  split
  · exact .ok ⟨h, Keeps.refl _⟩
  · obtain ⟨⟨sh', b⟩, hq, hi, hk⟩ := learnPhrase_ok hE h (sylPrefix syls) pending
    rw [hq]
    exact .ok ⟨hi, hk⟩

theorem autoLearn_go_ok (hE : EnvOK env G) (ivs : List Interval) :
    ∀ (sh : Shared D L) (a : Nat) (pending : Text) (syls : List Sym), ShInv env G w sh →
      Conv.IvChain a sh.com.inner.symbols.length ivs →
      OkAnd (fun sh' => ShInv env G w sh' ∧ Keeps env sh sh') (Shared.autoLearn.go env sh ivs pending syls) := by
  induction ivs with
  | nil =>
    intro sh a pending syls h _
    simp only [Shared.autoLearn.go]
    exact autoLearn_flush_ok hE h pending syls
  | cons iv rest ih =>
    intro sh a pending syls h hch
    obtain ⟨h1, h2, h3⟩ := hch
    have hle := h3.le
    simp only [Shared.autoLearn.go]
    rw [if_neg (by omega)]
    have hsl : sliceSyms sh.com.symbols iv.start iv.stop = .ok ((sh.com.inner.symbols.drop iv.start).take (iv.stop - iv.start)) :=
      sliceSyms_ok (by omega) hle
    split
    · rw [hsl]
      exact ih sh iv.stop _ _ h h3
    · obtain ⟨sh1, hq, hi1, hk1⟩ := autoLearn_flush_ok hE h pending syls
      rw [hq]
      dsimp only
      have hlen1 : sh1.com.inner.symbols.length = sh.com.inner.symbols.length := by rw [hk1.com]
      split
      · have hsl1 : sliceSyms sh1.com.symbols iv.start iv.stop =
            .ok ((sh1.com.inner.symbols.drop iv.start).take (iv.stop - iv.start)) :=
          sliceSyms_ok (by omega) (by show iv.stop ≤ sh1.com.inner.symbols.length; rw [hlen1]; exact hle)
        rw [hsl1]
        dsimp only
        obtain ⟨⟨sh2, b⟩, hq2, hi2, hk2⟩ := learnPhrase_ok hE hi1
          (sylPrefix ((sh1.com.inner.symbols.drop iv.start).take (iv.stop - iv.start))) iv.text
        rw [hq2]
        dsimp only
        have hlen2 : sh2.com.inner.symbols.length = sh.com.inner.symbols.length := by rw [hk2.com, hk1.com]
        exact (ih sh2 iv.stop [] [] hi2 (by rw [hlen2]; exact h3)).mono
          (fun sh' hh => ⟨hh.1, (hk1.trans hk2).trans hh.2⟩)
      · exact (ih sh1 iv.stop [] [] hi1 (by rw [hlen1]; exact h3)).mono
          (fun sh' hh => ⟨hh.1, hk1.trans hh.2⟩)

/-! ## `commit` -/

theorem commit_ok (hE : EnvOK env G) {sh : Shared D L} (h : ShInv env G w sh) :
    OkAnd (fun sh' => ShInv env G w sh' ∧ sh'.com = sh.com.clear ∧ sh'.engine = sh.engine ∧ sh'.options = sh.options ∧
        sh'.symSel = sh.symSel ∧ sh'.syl = sh.syl ∧
        ∀ c s, env.hasPhrase sh.dict [c] s = true → env.hasPhrase sh'.dict [c] s = true)
      (Shared.commit env sh) := by
  obtain ⟨ivs, hq, hc, _⟩ := conversion_ok hE h
  unfold Shared.commit
  rw [hq]
  dsimp only
  have key : ∀ sh1 : Shared D L, ShInv env G w sh1 → Keeps env sh sh1 →
      ShInv env G w { sh1 with commitBuf := ivs.flatMap (·.text), com := sh1.com.clear, nth := 0, last := .commit } := by
    intro sh1 hi1 hk1
    refine ⟨hi1.good, ced_clear hi1.ced, ?_, hi1.coupled, hi1.perPage, hi1.symOK⟩
    intro _ c hc; simp [CompEditor.clear, Composition.clear] at hc
  have h0 : ShInv env G w { sh with commitBuf := [] } := h.congr rfl rfl rfl rfl rfl rfl
  have hlearn : OkAnd (fun sh1 => ShInv env G w sh1 ∧ Keeps env sh sh1)
      (if !sh.options.disableAutoLearnPhrase then Shared.autoLearn env { sh with commitBuf := [] } ivs
       else .ok { sh with commitBuf := [] }) := by
    split
    · obtain ⟨sh1, hq1, hi1, hk1⟩ := autoLearn_go_ok hE ivs { sh with commitBuf := [] } 0 [] [] h0 hc
      unfold Shared.autoLearn
      rw [hq1]
      exact .ok ⟨hi1, ⟨hk1.com, hk1.engine, hk1.options, hk1.symSel, hk1.syl, hk1.mono⟩⟩
    · exact .ok ⟨h0, ⟨rfl, rfl, rfl, rfl, rfl, fun _ _ hh => hh⟩⟩
  obtain ⟨sh1, hq1, hi1, hk⟩ := hlearn
  rw [hq1]
  refine .ok ⟨key sh1 hi1 hk, ?_, hk.engine, hk.options, hk.symSel, hk.syl, hk.mono⟩
  show sh1.com.clear = sh.com.clear
  rw [hk.com]

/-! ## `try_auto_commit` -/

theorem autoCommitTake_ok (len th : Nat) (ivs : List Interval) :
    ∀ (a : Nat) (buf : Text), Conv.IvChain a len ivs →
      OkAnd (fun r => r.2 ≤ len) (Shared.autoCommitTake len th ivs buf a) := by
  induction ivs with
  | nil => intro a buf h; simp only [Shared.autoCommitTake]; exact .ok (by cases h; exact Nat.le_refl _)
  | cons iv rest ih =>
    intro a buf h
    obtain ⟨h1, h2, h3⟩ := h
    have hle := h3.le
    simp only [Shared.autoCommitTake]
    rw [if_neg (by omega)]
    have hr : a + iv.len = iv.stop := by simp only [Interval.len]; omega
    rw [hr, if_neg (by omega)]
    split
    · exact .ok hle
    · exact ih iv.stop _ h3

theorem tryAutoCommit_ok (hE : EnvOK env G) {sh : Shared D L} (h : ShInv env G w sh) :
    OkAnd (fun sh' => ShInv env G w sh' ∧ sh'.dict = sh.dict ∧ sh'.engine = sh.engine ∧ sh'.options = sh.options ∧
        sh'.symSel = sh.symSel ∧ sh'.syl = sh.syl ∧ sh'.dirty = sh.dirty)
      (Shared.tryAutoCommit env sh) := by
  unfold Shared.tryAutoCommit
  dsimp only
  split
  · exact .ok ⟨h, rfl, rfl, rfl, rfl, rfl, rfl⟩
  · obtain ⟨ivs, hq, hc, _⟩ := conversion_ok hE h
    rw [hq]
    dsimp only
    obtain ⟨⟨buf, remove⟩, hq2, hr⟩ := autoCommitTake_ok sh.com.len sh.options.autoCommitThreshold ivs 0 [] hc
    rw [hq2]
    dsimp only
    obtain ⟨com, hq3, hp⟩ := ced_removeFront h.ced remove hr
    rw [hq3]
    exact .ok ⟨(h.setCom hp).congr rfl rfl rfl rfl rfl rfl, rfl, rfl, rfl, rfl, rfl, rfl⟩

end Chewing.C01
