import Chewing.Model.CStr
/-!
# Lemmas about UTF-8 and `copy_cstr` (C15)

* `decode_encode`            — `utf8Decode (utf8Encode cs) = some cs` for every list of scalar values;
* `floorBoundary_encode`     — stepping back to a character boundary inside `utf8Encode cs` always lands
                               on the end of a whole-character prefix `cs.take k`, the longest that fits;
* `cText_append_zeros`       — reading a buffer `t ++ 0…0` (at least one NUL, no NUL in `t`) gives `t`.
-/
namespace Chewing.CStr

/-! ## shape of one encoded character -/

theorem encChar_shape (c : Nat) (hc : c < 0x110000) :
    ∃ b0 tl, encChar c = b0 :: tl ∧ ¬ IsCont b0 ∧ (∀ b ∈ tl, IsCont b) ∧ tl.length ≤ 3 := by
  unfold encChar
  split
  · exact ⟨c, [], rfl, by unfold IsCont; omega, by simp, by simp⟩
  split
  · refine ⟨_, _, rfl, by unfold IsCont; omega, ?_, by simp⟩
    intro b hb; simp at hb; subst hb; unfold IsCont; omega
  split
  · refine ⟨_, _, rfl, by unfold IsCont; omega, ?_, by simp⟩
    intro b hb; simp at hb; rcases hb with hb | hb <;> subst hb <;> unfold IsCont <;> omega
  · refine ⟨_, _, rfl, by unfold IsCont; omega, ?_, by simp⟩
    intro b hb; simp at hb; rcases hb with hb | hb | hb <;> subst hb <;> unfold IsCont <;> omega

theorem encChar_ne_nil (c : Nat) : encChar c ≠ [] := by
  unfold encChar
  split
  · simp
  split
  · simp
  split <;> simp

theorem encChar_nonzero (c : Nat) (h0 : c ≠ 0) : ∀ b ∈ encChar c, b ≠ 0 := by
  unfold encChar
  intro b hb
  split at hb
  · simp at hb; omega
  split at hb
  · simp at hb; omega
  split at hb
  · simp at hb; omega
  · simp at hb; omega

theorem encChar_length_pos (c : Nat) : 0 < (encChar c).length := by
  cases h : encChar c with
  | nil => exact absurd h (encChar_ne_nil c)
  | cons _ _ => simp

theorem utf8Encode_append (a b : List Nat) : utf8Encode (a ++ b) = utf8Encode a ++ utf8Encode b := by
  induction a with
  | nil => rfl
  | cons c cs ih => simp [utf8Encode, ih]

theorem utf8Encode_nonzero (cs : List Nat) (h : ∀ c ∈ cs, c ≠ 0) : ∀ b ∈ utf8Encode cs, b ≠ 0 := by
  induction cs with
  | nil => intro b hb; simp [utf8Encode] at hb
  | cons c cs ih =>
    intro b hb
    simp only [utf8Encode, List.mem_append] at hb
    rcases hb with hb | hb
    · exact encChar_nonzero c (h c (by simp)) b hb
    · exact ih (fun x hx => h x (by simp [hx])) b hb

/-! ## round trip -/

theorem decode_encChar_append (c : Nat) (hc : IsScalar c) (rest : List Nat) :
    utf8Decode (encChar c ++ rest) = (utf8Decode rest).map (c :: ·) := by
  unfold IsScalar at hc
  unfold encChar
  split
  · rename_i h
    show utf8Decode (c :: rest) = _
    rw [utf8Decode.eq_def]; simp only []; rw [if_pos h]
  split
  · rename_i h1 h2
    show utf8Decode ((0xC0 + c / 64) :: (0x80 + c % 64) :: rest) = _
    rw [utf8Decode.eq_def]; simp only []
    rw [if_neg (by omega), if_neg (by omega), if_pos (by omega)]
    rw [if_pos (by unfold IsCont; omega)]
    have : (0xC0 + c / 64 - 0xC0) * 64 + (0x80 + c % 64 - 0x80) = c := by omega
    rw [this]
  split
  · rename_i h1 h2 h3
    show utf8Decode ((0xE0 + c / 4096) :: (0x80 + c / 64 % 64) :: (0x80 + c % 64) :: rest) = _
    rw [utf8Decode.eq_def]; simp only []
    rw [if_neg (by omega), if_neg (by omega), if_neg (by omega), if_pos (by omega)]
    have e : (0xE0 + c / 4096 - 0xE0) * 4096 + (0x80 + c / 64 % 64 - 0x80) * 64 + (0x80 + c % 64 - 0x80) = c := by
      omega
    rw [e, if_pos (by unfold IsCont; omega)]
  · rename_i h1 h2 h3
    show utf8Decode ((0xF0 + c / 262144) :: (0x80 + c / 4096 % 64) :: (0x80 + c / 64 % 64) :: (0x80 + c % 64) :: rest) = _
    rw [utf8Decode.eq_def]; simp only []
    rw [if_neg (by omega), if_neg (by omega), if_neg (by omega), if_neg (by omega), if_pos (by omega)]
    have e : (0xF0 + c / 262144 - 0xF0) * 262144 + (0x80 + c / 4096 % 64 - 0x80) * 4096
        + (0x80 + c / 64 % 64 - 0x80) * 64 + (0x80 + c % 64 - 0x80) = c := by omega
    rw [e, if_pos (by unfold IsCont; omega)]

/-- **round trip**: decoding the encoding of any list of scalar values gives the list back -/
theorem decode_encode (cs : List Nat) (h : ∀ c ∈ cs, IsScalar c) : utf8Decode (utf8Encode cs) = some cs := by
  induction cs with
  | nil => rfl
  | cons c cs ih =>
    rw [utf8Encode, decode_encChar_append c (h c (by simp)), ih (fun x hx => h x (by simp [hx]))]
    rfl

theorem valid_encode (cs : List Nat) (h : ∀ c ∈ cs, IsScalar c) : ValidUtf8 (utf8Encode cs) := by
  unfold ValidUtf8; rw [decode_encode cs h]; rfl

theorem IsScalar.lt {c : Nat} (h : IsScalar c) : c < 0x110000 := by unfold IsScalar at h; omega

/-! ## character boundaries -/

/-- a byte string that is empty or starts with a non-continuation byte -/
def StartsClean (s : List Nat) : Prop := ∀ b, s.head? = some b → ¬ IsCont b

theorem startsClean_encode (cs : List Nat) (h : ∀ c ∈ cs, c < 0x110000) : StartsClean (utf8Encode cs) := by
  cases cs with
  | nil => intro b hb; simp [utf8Encode] at hb
  | cons c cs =>
    obtain ⟨b0, tl, e, hb0, _, _⟩ := encChar_shape c (h c (by simp))
    intro b hb
    simp [utf8Encode, e] at hb
    subst hb; exact hb0

theorem floorBoundary_le (s : List Nat) (n : Nat) : floorBoundary s n ≤ n := by
  induction n with
  | zero => simp [floorBoundary]
  | succ n ih => unfold floorBoundary; split <;> omega

/-- inside the first character the search goes back to 0 -/
theorem floorBoundary_in_first (b0 : Nat) (tl s' : List Nat) (htl : ∀ b ∈ tl, IsCont b) (n : Nat)
    (hn : n ≤ tl.length) : floorBoundary (b0 :: tl ++ s') n = 0 := by
  induction n with
  | zero => rfl
  | succ n ih =>
    have hlt : n < tl.length := by omega
    have hget : (b0 :: tl ++ s')[n + 1]? = some tl[n] := by
      simp [List.getElem?_append_left hlt]
    have hc : IsCont tl[n] := htl _ (List.getElem_mem hlt)
    unfold floorBoundary
    have : isBoundary (b0 :: tl ++ s') (n + 1) = false := by
      unfold isBoundary
      rw [if_neg (by omega), hget]
      simp [hc]
    rw [this]
    simpa using ih (by omega)

/-- behind a complete prefix `p` the search is the search in the rest, shifted -/
theorem floorBoundary_shift (p s' : List Nat) (hp : 0 < p.length) (hs : StartsClean s') (m : Nat)
    (hm : m ≤ s'.length) : floorBoundary (p ++ s') (p.length + m) = p.length + floorBoundary s' m := by
  induction m with
  | zero =>
    obtain ⟨k, hk⟩ : ∃ k, p.length = k + 1 := ⟨p.length - 1, by omega⟩
    have hb : isBoundary (p ++ s') (k + 1) = true := by
      unfold isBoundary
      rw [if_neg (by omega)]
      have : (p ++ s')[k + 1]? = s'[0]? := by
        rw [← hk, List.getElem?_append_right (Nat.le_refl _)]; simp
      rw [this]
      cases s' with
      | nil => simp [hk]
      | cons b r =>
        have := hs b (by simp)
        simp [this]
    simp only [Nat.add_zero, floorBoundary]
    rw [hk, floorBoundary, hb]; simp
  | succ m ih =>
    have e1 : p.length + (m + 1) = (p.length + m) + 1 := by omega
    have hb : isBoundary (p ++ s') (p.length + m + 1) = isBoundary s' (m + 1) := by
      unfold isBoundary
      rw [if_neg (by omega), if_neg (by omega)]
      have : (p ++ s')[p.length + m + 1]? = s'[m + 1]? := by
        rw [List.getElem?_append_right (by omega)]
        congr 1; omega
      rw [this]
      cases s'[m + 1]? with
      | none => simp only [List.length_append]; rw [Bool.eq_iff_iff]; simp only [beq_iff_eq]; omega
      | some b => rfl
    rw [e1, floorBoundary, hb]
    conv => rhs; rw [floorBoundary]
    cases hbb : isBoundary s' (m + 1)
    · simpa using ih (by omega)
    · simp; omega

theorem floorBoundary_length (s : List Nat) : floorBoundary s s.length = s.length := by
  cases h : s.length with
  | zero => rfl
  | succ n =>
    unfold floorBoundary
    have : isBoundary s (n + 1) = true := by
      unfold isBoundary
      rw [if_neg (by omega)]
      have : s[n + 1]? = none := by rw [List.getElem?_eq_none_iff]; omega
      rw [this]; simp [h]
    rw [this]; rfl

/-- **Landing on a whole-character prefix.**  In the encoding of `cs`, stepping back from any `n ≤ len` to a
character boundary lands exactly at the end of the longest whole-character prefix `cs.take k` of at most `n` bytes. -/
theorem floorBoundary_encode (cs : List Nat) (h : ∀ c ∈ cs, c < 0x110000) (n : Nat)
    (hn : n ≤ (utf8Encode cs).length) :
    ∃ k, k ≤ cs.length ∧ floorBoundary (utf8Encode cs) n = (utf8Encode (cs.take k)).length ∧
      (k = cs.length ∨ n < (utf8Encode (cs.take (k + 1))).length) := by
  induction cs generalizing n with
  | nil =>
    simp [utf8Encode] at hn; subst hn
    exact ⟨0, by simp, rfl, Or.inl rfl⟩
  | cons c cs ih =>
    obtain ⟨b0, tl, e, hb0, htl, _⟩ := encChar_shape c (h c (by simp))
    have hcs : ∀ x ∈ cs, x < 0x110000 := fun x hx => h x (by simp [hx])
    by_cases hlt : n ≤ tl.length
    · refine ⟨0, by simp, ?_, Or.inr ?_⟩
      · simp only [utf8Encode, e, List.take_zero, List.length_nil]
        exact floorBoundary_in_first b0 tl _ htl n hlt
      · simp [utf8Encode, e]; omega
    · have hplen : (encChar c).length = tl.length + 1 := by rw [e]; simp
      obtain ⟨m, hm⟩ : ∃ m, n = (encChar c).length + m := ⟨n - (encChar c).length, by omega⟩
      have hm' : m ≤ (utf8Encode cs).length := by
        simp only [utf8Encode, List.length_append] at hn; omega
      obtain ⟨k, hk, hfl, hmax⟩ := ih hcs m hm'
      refine ⟨k + 1, by simp; omega, ?_, ?_⟩
      · simp only [utf8Encode, List.take_succ_cons, List.length_append]
        rw [hm, floorBoundary_shift _ _ (by omega) (startsClean_encode cs hcs) m hm', hfl]
      · rcases hmax with hmax | hmax
        · left; simp [hmax]
        · right
          simp only [utf8Encode, List.take_succ_cons, List.length_append]
          omega

theorem take_encode_prefix (cs : List Nat) (k : Nat) :
    (utf8Encode cs).take (utf8Encode (cs.take k)).length = utf8Encode (cs.take k) := by
  conv => lhs; rw [← List.take_append_drop k cs, utf8Encode_append]
  simp

/-! ## reading a C string -/

theorem cText_append_zeros (t : List Nat) (ht : ∀ b ∈ t, b ≠ 0) (m : Nat) :
    cText (t ++ List.replicate (m + 1) 0) = some t := by
  induction t with
  | nil => simp [List.replicate_succ, cText]
  | cons b r ih =>
    have hb : b ≠ 0 := ht b (by simp)
    simp only [List.cons_append, cText, if_neg hb]
    rw [ih (fun x hx => ht x (by simp [hx]))]; rfl

/-- a reader stops at the first NUL whatever follows it -/
theorem cText_append_zero_cons (t : List Nat) (ht : ∀ b ∈ t, b ≠ 0) (rest : List Nat) :
    cText (t ++ 0 :: rest) = some t := by
  induction t with
  | nil => simp [cText]
  | cons b r ih =>
    have hb : b ≠ 0 := ht b (by simp)
    simp only [List.cons_append, cText, if_neg hb]
    rw [ih (fun x hx => ht x (by simp [hx]))]; rfl

theorem cText_none_of_nonzero (t : List Nat) (ht : ∀ b ∈ t, b ≠ 0) : cText t = none := by
  induction t with
  | nil => rfl
  | cons b r ih =>
    simp only [cText, if_neg (ht b (by simp))]
    rw [ih (fun x hx => ht x (by simp [hx]))]; rfl

theorem heapCstr_text (s : List Nat) (hs : ∀ b ∈ s, b ≠ 0) :
    ∃ buf, heapCstr s = some buf ∧ cText buf = some s := by
  refine ⟨s ++ [0], ?_, ?_⟩
  · unfold heapCstr; rw [if_neg]; intro h0; exact hs 0 h0 rfl
  · exact cText_append_zeros s hs 0

end Chewing.CStr
