import Chewing.Proofs.CliQuoted
/-!
The malformed-source stream: exactly which lines `parse_line` accepts (hence which ones the compiler
reports).  A line is accepted iff
1. it has two non-empty delimiter-separated fields,
2. the first strips to a non-empty phrase without comma / whitespace,
3. the second strips to a `u32` (looked at for every phrase, with or without `--keep-word-freq`),
4. every syllable field — the separator-split fields after the first two, stripped, the empty ones dropped, up
   to the first one starting with `#` — is a Bopomofo syllable in order,
5. there is at least one syllable field, and as many as the phrase has characters.
(2, 3 for one-character phrases and 5 are the fixes of F27.)
-/
namespace Chewing.Cli
open Chewing Gen List

/-- the syllable fields of a line as `parse_line` sees them -/
def sylFields (l : Text) : List Text :=
  (normToks ((tokens sylSep l).drop 2)).takeWhile (fun s => s.head? != some cliComment)

theorem parseSylsN_ok_iff : ∀ ts : List Text, (∃ v, parseSylsN ts = .ok v) ↔
    ∀ s ∈ ts.takeWhile (fun s => s.head? != some cliComment), ∃ c, Chewing.parse s = .ok c
  | [] => by simp [parseSylsN]
  | s :: ts => by
    have ih := parseSylsN_ok_iff ts
    unfold parseSylsN
    by_cases hc : (s.head? == some cliComment) = true
    · have : (s.head? != some cliComment) = false := by simp [bne, hc]
      simp [hc, List.takeWhile, this]
    · have hne : (s.head? != some cliComment) = true := by simp [bne, hc]
      simp only [hc, List.takeWhile, hne]
      cases hp : Chewing.parse s with
      | error e =>
        constructor
        · rintro ⟨v, hv⟩
          cases e <;> cases hv
        · intro h
          obtain ⟨c, hc'⟩ := h s List.mem_cons_self
          rw [hp] at hc'; cases hc'
      | ok v =>
        simp only
        constructor
        · rintro ⟨w, hw⟩
          intro x hx
          rcases List.mem_cons.mp hx with rfl | hx
          · exact ⟨v, hp⟩
          · apply ih.mp _ x hx
            cases hr : parseSylsN ts with
            | ok vs => exact ⟨vs, rfl⟩
            | error e => rw [hr] at hw; cases hw
        · intro h
          obtain ⟨vs, hvs⟩ := ih.mpr (fun x hx => h x (List.mem_cons_of_mem _ hx))
          exact ⟨v :: vs, by rw [hvs]; simp⟩

/-- the syllable loop fails with one of two causes -/
theorem parseSylsN_error_cause : ∀ (ts : List Text) (e : LineErr), parseSylsN ts = .error e →
    e = .bopomofo ∨ e = .syllable
  | [], e, h => by cases h
  | s :: ts, e, h => by
    unfold parseSylsN at h
    by_cases hc : (s.head? == some cliComment) = true
    · simp [hc] at h
    · simp only [hc] at h
      cases hp : Chewing.parse s with
      | error be =>
        rw [hp] at h
        cases be <;> (cases h; simp)
      | ok v =>
        rw [hp] at h
        simp only at h
        cases hr : parseSylsN ts with
        | ok vs => rw [hr] at h; cases h
        | error e2 =>
          rw [hr] at h
          cases h
          exact parseSylsN_error_cause ts _ hr

/-- the syllable loop yields one syllable per field -/
theorem parseSylsN_length : ∀ (ts : List Text) (v : List Nat), parseSylsN ts = .ok v →
    v.length = (ts.takeWhile (fun s => s.head? != some cliComment)).length
  | [], v, h => by simp [parseSylsN] at h; subst h; rfl
  | s :: ts, v, h => by
    unfold parseSylsN at h
    by_cases hc : (s.head? == some cliComment) = true
    · have : (s.head? != some cliComment) = false := by simp [bne, hc]
      simp only [hc, if_true] at h
      have := Except.ok.inj h
      subst this
      simp [List.takeWhile, this]
    · have hne : (s.head? != some cliComment) = true := by simp [bne, hc]
      simp only [hc] at h
      cases hp : Chewing.parse s with
      | error be => rw [hp] at h; cases be <;> cases h
      | ok x =>
        rw [hp] at h
        simp only at h
        cases hr : parseSylsN ts with
        | error e => rw [hr] at h; cases h
        | ok vs =>
          rw [hr] at h
          have := Except.ok.inj h
          subst this
          simp [List.takeWhile, hne, parseSylsN_length ts vs hr]

theorem parseSyls_length {l : Text} {syls : List Nat} (h : parseSyls ((tokens sylSep l).drop 2) = .ok syls) :
    syls.length = (sylFields l).length := by
  rw [parseSyls_norm] at h
  exact parseSylsN_length _ _ h

theorem parseFreq_ok_iff (keep : Bool) (p f0 : Text) (fs : List Text) :
    (∃ n, parseFreq keep p (f0 :: fs) = .ok n) ↔ ∃ f1, fs.head? = some f1 ∧ (parseU32 (trimQ f1)).isSome = true := by
  constructor
  · rintro ⟨n, hn⟩
    obtain ⟨f1, m, h1, h2, _⟩ := parseFreq_ok_iff'.mp hn
    exact ⟨f1, h1, by simp [h2]⟩
  · rintro ⟨f1, h1, h2⟩
    obtain ⟨m, hm⟩ := Option.isSome_iff_exists.mp h2
    exact ⟨_, parseFreq_ok_iff'.mpr ⟨f1, m, h1, hm, rfl⟩⟩

/-- **accepted_iff** — exactly the lines `parse_line` accepts (the same with and without `--keep-word-freq`) -/
theorem accepted_iff (d : Nat) (keep : Bool) (l : Text) :
    (∃ r, parseLine d keep l = .ok r) ↔
      ∃ f0 f1 fs, tokens (· == d) l = f0 :: f1 :: fs ∧
        trimQ f0 ≠ [] ∧ (∀ c ∈ trimQ f0, sylSep c = false) ∧ (parseU32 (trimQ f1)).isSome = true ∧
        (∀ s ∈ sylFields l, ∃ c, Chewing.parse s = .ok c) ∧
        sylFields l ≠ [] ∧ (sylFields l).length = (trimQ f0).length := by
  constructor
  · rintro ⟨r, hr⟩
    obtain ⟨f0, fs, n, syls, ht, hne, hsep, hf, hs, hsne, hlen, _⟩ := parseLine_ok_iff.mp hr
    obtain ⟨f1, hf1, hu⟩ := (parseFreq_ok_iff keep (trimQ f0) f0 fs).mp ⟨n, hf⟩
    cases fs with
    | nil => simp at hf1
    | cons g1 rest =>
      simp at hf1; subst hf1
      have hL := parseSyls_length hs
      refine ⟨f0, g1, rest, ht, hne, hsep, hu, ?_, ?_, by rw [← hL]; exact hlen⟩
      · unfold sylFields
        apply (parseSylsN_ok_iff _).mp
        exact ⟨syls, by rw [← parseSyls_norm]; exact hs⟩
      · intro e
        rw [e] at hL
        exact hsne (List.eq_nil_of_length_eq_zero hL)
  · rintro ⟨f0, f1, fs, ht, hne, hsep, hu, hall, hsne, hlen⟩
    obtain ⟨n, hn⟩ := (parseFreq_ok_iff keep (trimQ f0) f0 (f1 :: fs)).mpr ⟨f1, rfl, hu⟩
    obtain ⟨syls, hsy⟩ := (parseSylsN_ok_iff _).mpr hall
    rw [← parseSyls_norm] at hsy
    have hL := parseSyls_length hsy
    refine ⟨_, parseLine_ok_iff.mpr ⟨f0, f1 :: fs, n, syls, ht, hne, hsep, hn, hsy, ?_, by rw [hL]; exact hlen, rfl⟩⟩
    intro e
    rw [e] at hL
    exact hsne (List.eq_nil_of_length_eq_zero hL.symm)

/-- a line is either accepted or rejected with one cause (the function is total) -/
theorem rejected_iff_not_accepted (d : Nat) (keep : Bool) (l : Text) :
    (∃ e, parseLine d keep l = .error e) ↔ ¬ ∃ r, parseLine d keep l = .ok r := by
  cases h : parseLine d keep l with
  | ok r => simp
  | error e => simp

/-- acceptance does not depend on `--keep-word-freq` (since the fix of F27 `word-freq-unchecked`) -/
theorem accepted_keep_irrelevant (d : Nat) (k k' : Bool) (l : Text) :
    (∃ r, parseLine d k l = .ok r) ↔ ∃ r, parseLine d k' l = .ok r := by
  rw [accepted_iff, accepted_iff]

/-- why a rejected line is rejected -/
theorem rejected_cause (d : Nat) (keep : Bool) (l : Text) (e : LineErr) (h : parseLine d keep l = .error e) :
    (e = .noPhrase → tokens (· == d) l = []) ∧
    (e = .emptyPhrase → ∃ f0 fs, tokens (· == d) l = f0 :: fs ∧ trimQ f0 = []) ∧
    (e = .phraseSep → ∃ f0 fs, tokens (· == d) l = f0 :: fs ∧ ∃ c ∈ trimQ f0, sylSep c = true) ∧
    (e = .noFreq → ∃ f0, tokens (· == d) l = [f0]) ∧
    (e = .badFreq → ∃ f0 f1 fs, tokens (· == d) l = f0 :: f1 :: fs ∧ parseU32 (trimQ f1) = none) ∧
    (e = .bopomofo ∨ e = .syllable → ∃ s ∈ sylFields l, ∃ e', Chewing.parse s = .error e') ∧
    (e = .noSyllables → sylFields l = []) ∧
    (e = .lengthMismatch → ∃ f0 fs, tokens (· == d) l = f0 :: fs ∧ (sylFields l).length ≠ (trimQ f0).length) ∧
    e ≠ .invalidUtf8 := by
  unfold parseLine at h
  cases ht : tokens (· == d) l with
  | nil =>
    rw [ht] at h
    cases h
    simp
  | cons f0 fs =>
    rw [ht] at h
    simp only [phraseSep_eq] at h
    by_cases he : (trimQ f0).isEmpty = true
    · simp only [he, if_true] at h
      cases h
      have : trimQ f0 = [] := List.isEmpty_iff.mp he
      simp [this]
    · simp only [he, Bool.false_eq_true, if_false] at h
      by_cases hs : (trimQ f0).any sylSep = true
      · simp only [hs, if_true] at h
        cases h
        obtain ⟨c, hc, hcs⟩ := List.any_eq_true.mp hs
        simp
        exact ⟨c, hc, hcs⟩
      · simp only [hs, Bool.false_eq_true, if_false] at h
        cases hf : parseFreq keep (trimQ f0) (f0 :: fs) with
        | error e' =>
          rw [hf] at h
          cases h
          unfold parseFreq at hf
          cases fs with
          | nil =>
            simp at hf
            subst hf
            simp
          | cons f1 rest =>
            simp only [List.getElem?_cons_succ, List.getElem?_cons_zero] at hf
            cases hu : parseU32 (trimQ f1) with
            | some n => rw [hu] at hf; cases hf
            | none =>
              rw [hu] at hf
              cases hf
              simp
              exact ⟨f0, f1, ⟨rfl, rfl⟩, hu⟩
        | ok n =>
          rw [hf] at h
          cases hsy : parseSyls ((tokens sylSep l).drop 2) with
          | error e' =>
            rw [hsy] at h
            cases h
            have hno : ¬ ∀ s ∈ sylFields l, ∃ c, Chewing.parse s = .ok c := by
              intro hall
              unfold sylFields at hall
              obtain ⟨v, hv⟩ := (parseSylsN_ok_iff _).mpr hall
              rw [← parseSyls_norm, hsy] at hv
              cases hv
            have hex : ∃ s ∈ sylFields l, ∃ e', Chewing.parse s = .error e' := by
              apply Classical.byContradiction
              intro hn
              apply hno
              intro s hs'
              cases hp : Chewing.parse s with
              | ok c => exact ⟨c, rfl⟩
              | error e'' => exact absurd ⟨s, hs', e'', hp⟩ hn
            have hsyl : e = .bopomofo ∨ e = .syllable := by
              rw [parseSyls_norm] at hsy
              exact parseSylsN_error_cause _ _ hsy
            rcases hsyl with h1 | h1 <;> (subst h1; simp; exact hex)
          | ok syls =>
            rw [hsy] at h
            simp only at h
            have hL := parseSyls_length hsy
            by_cases h0 : syls.isEmpty = true
            · simp only [h0, if_true] at h
              cases h
              have : syls = [] := List.isEmpty_iff.mp h0
              rw [this] at hL
              simp
              exact List.eq_nil_of_length_eq_zero hL.symm
            · simp only [h0, Bool.false_eq_true, if_false] at h
              by_cases hl : (syls.length != (trimQ f0).length) = true
              · simp only [hl, if_true] at h
                cases h
                simp
                rw [← hL]
                simpa using hl
              · simp only [hl, Bool.false_eq_true, if_false] at h
                cases h

end Chewing.Cli
