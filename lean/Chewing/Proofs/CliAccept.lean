import Chewing.Proofs.CliQuoted
/-!
The malformed-source stream: exactly which lines `parse_line` accepts (hence which ones the compiler
reports).  A line is accepted iff
1. it has a non-empty delimiter-separated field (the phrase, after stripping quotes — possibly empty),
2. the phrase is one character long and `--keep-word-freq` is off, **or** there is a second such field that
   strips to a `u32`,
3. every syllable field — the separator-split fields after the first two, stripped, the empty ones dropped, up
   to the first one starting with `#` — is a Bopomofo syllable in order.
Nothing else is looked at: not the number of syllables (F27 `no-syllables`, `length-mismatch`), not whether
the phrase is empty (`empty-phrase`), not the frequency of a one-character phrase (`word-freq-unchecked`).
-/
namespace Chewing.Cli
open Chewing Gen List

/-- the syllable fields of a line as `parse_line` sees them -/
def sylFields (l : Text) : List Text :=
  (normToks ((tokens sylSep l).drop 2)).takeWhile (fun s => s.head? != some cliComment)

theorem parseSylsN_ok_iff : ∀ ts : List Text, (∃ v, parseSylsN ts = .ok v) ↔
    ∀ s ∈ ts.takeWhile (fun s => s.head? != some cliComment), ∃ c, Chewing.parse s = .ok c
  | [] => by simp [parseSylsN]
  | s :: ts => by
    have ih := parseSylsN_ok_iff ts
    unfold parseSylsN
    by_cases hc : (s.head? == some cliComment) = true
    · have : (s.head? != some cliComment) = false := by simp [bne, hc]
      simp [hc, List.takeWhile, this]
    · have hne : (s.head? != some cliComment) = true := by simp [bne, hc]
      simp only [hc, List.takeWhile, hne]
      cases hp : Chewing.parse s with
      | error e =>
        constructor
        · rintro ⟨v, hv⟩
          cases e <;> cases hv
        · intro h
          obtain ⟨c, hc'⟩ := h s List.mem_cons_self
          rw [hp] at hc'; cases hc'
      | ok v =>
        simp only
        constructor
        · rintro ⟨w, hw⟩
          intro x hx
          rcases List.mem_cons.mp hx with rfl | hx
          · exact ⟨v, hp⟩
          · apply ih.mp _ x hx
            cases hr : parseSylsN ts with
            | ok vs => exact ⟨vs, rfl⟩
            | error e => rw [hr] at hw; cases hw
        · intro h
          obtain ⟨vs, hvs⟩ := ih.mpr (fun x hx => h x (List.mem_cons_of_mem _ hx))
          exact ⟨v :: vs, by rw [hvs]; simp⟩

/-- the syllable loop fails with one of two causes -/
theorem parseSylsN_error_cause : ∀ (ts : List Text) (e : LineErr), parseSylsN ts = .error e →
    e = .bopomofo ∨ e = .syllable
  | [], e, h => by cases h
  | s :: ts, e, h => by
    unfold parseSylsN at h
    by_cases hc : (s.head? == some cliComment) = true
    · simp [hc] at h
    · simp only [hc] at h
      cases hp : Chewing.parse s with
      | error be =>
        rw [hp] at h
        cases be <;> (cases h; simp)
      | ok v =>
        rw [hp] at h
        simp only at h
        cases hr : parseSylsN ts with
        | ok vs => rw [hr] at h; cases h
        | error e2 =>
          rw [hr] at h
          cases h
          exact parseSylsN_error_cause ts _ hr

theorem parseFreq_ok_iff (keep : Bool) (p f0 : Text) (fs : List Text) :
    (∃ n, parseFreq keep p (f0 :: fs) = .ok n) ↔
      (p.length = 1 ∧ keep = false) ∨ ∃ f1, fs.head? = some f1 ∧ (parseU32 (trimQ f1)).isSome = true := by
  unfold parseFreq
  by_cases hw : (p.length == 1 && !keep) = true
  · have : p.length = 1 ∧ keep = false := by simpa using hw
    simp [hw, this]
  · have hn : ¬ (p.length = 1 ∧ keep = false) := by simpa using hw
    simp only [hw, hn, false_or]
    cases fs with
    | nil => simp
    | cons f1 rest =>
      simp only [List.getElem?_cons_succ, List.getElem?_cons_zero, List.head?_cons, Option.some.injEq, exists_eq_left']
      cases hu : parseU32 (trimQ f1) with
      | none => simp
      | some n => simp

/-- **accepted_iff** — exactly the lines `parse_line` accepts -/
theorem accepted_iff (d : Nat) (keep : Bool) (l : Text) :
    (∃ r, parseLine d keep l = .ok r) ↔
      ∃ f0 fs, tokens (· == d) l = f0 :: fs ∧
        (((trimQ f0).length = 1 ∧ keep = false) ∨ ∃ f1, fs.head? = some f1 ∧ (parseU32 (trimQ f1)).isSome = true) ∧
        ∀ s ∈ sylFields l, ∃ c, Chewing.parse s = .ok c := by
  unfold parseLine sylFields
  cases ht : tokens (· == d) l with
  | nil => simp
  | cons f0 fs =>
    simp only
    rw [← parseSylsN_ok_iff, ← parseSyls_norm]
    constructor
    · rintro ⟨r, hr⟩
      refine ⟨f0, fs, rfl, ?_, ?_⟩
      · apply (parseFreq_ok_iff keep (trimQ f0) f0 fs).mp
        cases hf : parseFreq keep (trimQ f0) (f0 :: fs) with
        | ok n => exact ⟨n, rfl⟩
        | error e => rw [hf] at hr; cases hr
      · cases hf : parseFreq keep (trimQ f0) (f0 :: fs) with
        | error e => rw [hf] at hr; cases hr
        | ok n =>
          rw [hf] at hr
          cases hs : parseSyls ((tokens sylSep l).drop 2) with
          | ok v => exact ⟨v, rfl⟩
          | error e => rw [hs] at hr; cases hr
    · rintro ⟨g0, gs, hg, hfreq, v, hv⟩
      obtain ⟨rfl, rfl⟩ := List.cons.inj hg
      obtain ⟨n, hn⟩ := (parseFreq_ok_iff keep (trimQ f0) f0 fs).mpr hfreq
      exact ⟨_, by rw [hn, hv]⟩

/-- a line is either accepted or rejected with one cause (the function is total) -/
theorem rejected_iff_not_accepted (d : Nat) (keep : Bool) (l : Text) :
    (∃ e, parseLine d keep l = .error e) ↔ ¬ ∃ r, parseLine d keep l = .ok r := by
  cases h : parseLine d keep l with
  | ok r => simp
  | error e => simp

/-- why a rejected line is rejected -/
theorem rejected_cause (d : Nat) (keep : Bool) (l : Text) (e : LineErr) (h : parseLine d keep l = .error e) :
    (e = .noPhrase → tokens (· == d) l = []) ∧
    (e = .noFreq → ∃ f0, tokens (· == d) l = [f0]) ∧
    (e = .badFreq → ∃ f0 f1 fs, tokens (· == d) l = f0 :: f1 :: fs ∧ parseU32 (trimQ f1) = none) ∧
    (e = .bopomofo ∨ e = .syllable → ∃ s ∈ sylFields l, ∃ e', Chewing.parse s = .error e') := by
  have hacc := accepted_iff d keep l
  unfold parseLine at h
  cases ht : tokens (· == d) l with
  | nil =>
    rw [ht] at h
    cases h
    simp
  | cons f0 fs =>
    rw [ht] at h
    simp only at h
    cases hf : parseFreq keep (trimQ f0) (f0 :: fs) with
    | error e' =>
      rw [hf] at h
      cases h
      unfold parseFreq at hf
      split at hf
      · cases hf
      · cases fs with
        | nil =>
          simp at hf
          subst hf
          simp
        | cons f1 rest =>
          simp only [List.getElem?_cons_succ, List.getElem?_cons_zero] at hf
          cases hu : parseU32 (trimQ f1) with
          | some n => rw [hu] at hf; cases hf
          | none =>
            rw [hu] at hf
            cases hf
            exact ⟨fun h => (by cases h), fun h => (by cases h), fun _ => ⟨f0, f1, rest, rfl, hu⟩,
              fun h => (by rcases h with h | h <;> cases h)⟩
    | ok n =>
      rw [hf] at h
      cases hs : parseSyls ((tokens sylSep l).drop 2) with
      | ok v => rw [hs] at h; cases h
      | error e' =>
        rw [hs] at h
        cases h
        -- the syllable loop failed: some syllable field does not parse
        have hno : ¬ ∀ s ∈ sylFields l, ∃ c, Chewing.parse s = .ok c := by
          intro hall
          unfold sylFields at hall
          obtain ⟨v, hv⟩ := (parseSylsN_ok_iff _).mpr hall
          rw [← parseSyls_norm, hs] at hv
          cases hv
        have hex : ∃ s ∈ sylFields l, ∃ e', Chewing.parse s = .error e' := by
          apply Classical.byContradiction
          intro hn
          apply hno
          intro s hs'
          cases hp : Chewing.parse s with
          | ok c => exact ⟨c, rfl⟩
          | error e'' => exact absurd ⟨s, hs', e'', hp⟩ hn
        have hsyl : e = .bopomofo ∨ e = .syllable := by
          rw [parseSyls_norm] at hs
          exact parseSylsN_error_cause _ _ hs
        refine ⟨?_, ?_, ?_, fun _ => hex⟩
        · intro he; rcases hsyl with h1 | h1 <;> rw [h1] at he <;> cases he
        · intro he; rcases hsyl with h1 | h1 <;> rw [h1] at he <;> cases he
        · intro he; rcases hsyl with h1 | h1 <;> rw [h1] at he <;> cases he

end Chewing.Cli
