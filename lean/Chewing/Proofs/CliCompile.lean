import Chewing.Proofs.CliParse
import Chewing.Proofs.CliSql
/-!
The compiler loop: which lines are reported, what is inserted, and what happens to a dump that is
compiled again.
-/
namespace Chewing.Cli
open Chewing Gen List

/-- the lines `run` parses: with `--csv` the first one is skipped -/
def body (f : Flags) (src : List Text) : List Text := if f.csv then src.drop 1 else src

/-- 0-based index in the file of the first line of `body` -/
def bodyStart (f : Flags) : Nat := if f.csv then 1 else 0

def okRec (f : Flags) (l : Text) : Option Rec :=
  match parseLine f.delim f.keep l with
  | .ok r => some r
  | .error _ => none

/-- the records of the lines that parse, in file order -/
def validRecs (f : Flags) (src : List Text) : List Rec := (body f src).filterMap (okRec f)


/-- after the header position nothing is skipped any more -/
theorem parseAll_noskip (f : Flags) : ∀ (ls : List Text) (idx : Nat), (f.csv = true → 1 ≤ idx) →
    (parseAll f idx ls).1 = ls.filterMap (okRec f) ∧
    ∀ j e, (j, e) ∈ (parseAll f idx ls).2 ↔
      ∃ i l, ls[i]? = some l ∧ j = idx + i ∧ parseLine f.delim f.keep l = .error e
  | [], idx, _ => by simp [parseAll]
  | l :: ls, idx, h => by
    obtain ⟨ih1, ih2⟩ := parseAll_noskip f ls (idx + 1) (fun c => by have := h c; omega)
    have hskip : (f.csv && idx == 0) = false := by
      cases hc : f.csv with
      | false => rfl
      | true => have := h hc; simp; omega
    have hpa : parseAll f idx (l :: ls) =
        match parseLine f.delim f.keep l with
        | .ok r => (r :: (parseAll f (idx + 1) ls).1, (parseAll f (idx + 1) ls).2)
        | .error e => ((parseAll f (idx + 1) ls).1, (idx, e) :: (parseAll f (idx + 1) ls).2) := by
      rw [parseAll]
      simp only [hskip]
      rfl
    rw [hpa]
    cases hp : parseLine f.delim f.keep l with
    | ok r =>
      refine ⟨by simp [ih1, okRec, hp], ?_⟩
      intro j e
      show (j, e) ∈ (parseAll f (idx + 1) ls).2 ↔ _
      rw [ih2]
      constructor
      · rintro ⟨i, l', h1, h2, h3⟩
        exact ⟨i + 1, l', by simpa using h1, by omega, h3⟩
      · rintro ⟨i, l', h1, h2, h3⟩
        cases i with
        | zero =>
          simp at h1; subst h1; rw [hp] at h3; cases h3
        | succ i => exact ⟨i, l', by simpa using h1, by omega, h3⟩
    | error e0 =>
      refine ⟨by simp [ih1, okRec, hp], ?_⟩
      intro j e
      show (j, e) ∈ (idx, e0) :: (parseAll f (idx + 1) ls).2 ↔ _
      rw [List.mem_cons, ih2]
      constructor
      · rintro (heq | ⟨i, l', h1, h2, h3⟩)
        · cases heq
          exact ⟨0, l, by simp, by omega, hp⟩
        · exact ⟨i + 1, l', by simpa using h1, by omega, h3⟩
      · rintro ⟨i, l', h1, h2, h3⟩
        cases i with
        | zero =>
          simp at h1; subst h1; rw [hp] at h3
          cases h3
          exact Or.inl (by simp [h2])
        | succ i => exact Or.inr ⟨i, l', by simpa using h1, by omega, h3⟩

/-- `parseAll` from the top of the file = the body lines, numbered from `bodyStart` -/
theorem parseAll_top (f : Flags) (src : List Text) :
    (parseAll f 0 src).1 = validRecs f src ∧
    ∀ j e, (j, e) ∈ (parseAll f 0 src).2 ↔
      ∃ i l, (body f src)[i]? = some l ∧ j = bodyStart f + i ∧ parseLine f.delim f.keep l = .error e := by
  cases hc : f.csv with
  | false =>
    have := parseAll_noskip f src 0 (fun c => by rw [hc] at c; exact Bool.noConfusion c)
    simpa [validRecs, body, bodyStart, hc] using this
  | true =>
    cases src with
    | nil => simp [parseAll, validRecs, body, hc]
    | cons l ls =>
      have := parseAll_noskip f ls 1 (fun _ => Nat.le_refl 1)
      have hp : parseAll f 0 (l :: ls) = parseAll f 1 ls := by
        rw [parseAll]
        simp [hc]
      rw [hp]
      simpa [validRecs, body, bodyStart, hc] using this

theorem compileRun_inserted (f : Flags) (src : List Text) :
    (compileRun f src).inserted =
      if (compileRun f src).reported ≠ [] ∧ f.skip = false then none else some (validRecs f src) := by
  unfold compileRun
  rw [← (parseAll_top f src).1]
  cases h : (parseAll f 0 src).2 with
  | nil => simp
  | cons e es => cases hs : f.skip <;> simp

/-- exactly the failing body lines are reported, each with its 1-based line number -/
theorem mem_reported (f : Flags) (src : List Text) (n : Nat) (e : LineErr) :
    (n, e) ∈ (compileRun f src).reported ↔
      ∃ i l, (body f src)[i]? = some l ∧ n = bodyStart f + i + 1 ∧ parseLine f.delim f.keep l = .error e := by
  unfold compileRun
  simp only [List.mem_map]
  constructor
  · rintro ⟨⟨j, e'⟩, hm, heq⟩
    simp only [Prod.mk.injEq] at heq
    obtain ⟨rfl, rfl⟩ := heq
    obtain ⟨i, l, h1, h2, h3⟩ := ((parseAll_top f src).2 j e').mp hm
    exact ⟨i, l, h1, by omega, h3⟩
  · rintro ⟨i, l, h1, h2, h3⟩
    exact ⟨(bodyStart f + i, e), ((parseAll_top f src).2 _ _).mpr ⟨i, l, h1, rfl, h3⟩, by simp [h2]⟩

/-- line `i` (0-based) of the file, seen from the body -/
theorem body_get (f : Flags) (src : List Text) (i : Nat) (h : f.csv = true → i ≠ 0) :
    ∃ k, i = bodyStart f + k ∧ (body f src)[k]? = src[i]? := by
  cases hc : f.csv with
  | false => exact ⟨i, by simp [bodyStart, hc], by simp [body, hc]⟩
  | true =>
    have := h hc
    refine ⟨i - 1, by simp [bodyStart, hc]; omega, ?_⟩
    simp only [body, hc, if_true, List.getElem?_drop]
    congr 1; omega

/-! ### a dump compiled again -/

theorem parseLine_zeroFreq {d : Nat} {keep : Bool} {l : Text} {r : Rec} (h : parseLine d keep l = .ok r) :
    zeroFreq keep r = r := by
  obtain ⟨f0, fs, n, syls, _, _, _, hf, _, _, _, rfl⟩ := parseLine_ok_iff.mp h
  obtain ⟨f1, m, _, _, rfl⟩ := parseFreq_ok_iff'.mp hf
  unfold zeroFreq
  by_cases hw : ((trimQ f0).length == 1 && !keep) = true <;> simp [hw]

theorem validRecs_zeroFreq {f : Flags} {src : List Text} {r : Rec} (h : r ∈ validRecs f src) :
    zeroFreq f.keep r = r := by
  obtain ⟨l, _, hl⟩ := List.mem_filterMap.mp h
  unfold okRec at hl
  split at hl
  · rename_i r' hp
    cases hl
    exact parseLine_zeroFreq hp
  · cases hl

/-- records that dump and parse back unchanged under the flag `keep` -/
def Dumpable (keep : Bool) (r : Rec) : Prop := WellFormedRecord r ∧ zeroFreq keep r = r

theorem filterMap_dumpLine (f : Flags) (hc : f.csv = false) : ∀ es : List Rec, (∀ r ∈ es, Dumpable f.keep r) →
    (es.map dumpLine).filterMap (okRec f) = es ∧
    ∀ l ∈ es.map dumpLine, ∀ e, parseLine f.delim f.keep l ≠ .error e
  | [], _ => by simp
  | r :: es, h => by
    obtain ⟨ih1, ih2⟩ := filterMap_dumpLine f hc es (fun x hx => h x (List.mem_cons_of_mem _ hx))
    have hr := h r (List.mem_cons_self)
    have hd : f.delim = cliSsvDelim := by simp [Flags.delim, hc]
    have hp : parseLine f.delim f.keep (dumpLine r) = .ok r := by
      rw [hd, parse_dump_ssv f.keep r hr.1, hr.2]
    refine ⟨by simp [okRec, hp, ih1], ?_⟩
    intro l hl e
    rcases List.mem_cons.mp hl with rfl | hl
    · rw [hp]; exact fun c => by cases c
    · exact ih2 l hl e

theorem filterMap_dumpCsvLine (f : Flags) (hc : f.csv = true) : ∀ es : List Rec, (∀ r ∈ es, Dumpable f.keep r) →
    (es.map dumpCsvLine).filterMap (okRec f) = es ∧
    ∀ l ∈ es.map dumpCsvLine, ∀ e, parseLine f.delim f.keep l ≠ .error e
  | [], _ => by simp
  | r :: es, h => by
    obtain ⟨ih1, ih2⟩ := filterMap_dumpCsvLine f hc es (fun x hx => h x (List.mem_cons_of_mem _ hx))
    have hr := h r (List.mem_cons_self)
    have hd : f.delim = cliCsvDelim := by simp [Flags.delim, hc]
    have hp : parseLine f.delim f.keep (dumpCsvLine r) = .ok r := by
      rw [hd, parse_dump_csv f.keep r hr.1, hr.2]
    refine ⟨by simp [okRec, hp, ih1], ?_⟩
    intro l hl e
    rcases List.mem_cons.mp hl with rfl | hl
    · rw [hp]; exact fun c => by cases c
    · exact ih2 l hl e

/-- compiling the dump of dumpable entries reports nothing and inserts exactly those entries, in
    dump order (plain dump read without `--csv`, CSV dump read with it) -/
theorem compileRun_dump (f : Flags) (es : List Rec) (h : ∀ r ∈ es, Dumpable f.keep r) :
    compileRun f (dump f.csv es) = { reported := [], inserted := some es } := by
  have hbody : body f (dump f.csv es) = if f.csv then es.map dumpCsvLine else es.map dumpLine := by
    cases hc : f.csv <;> simp [body, dump, hc]
  have hv : validRecs f (dump f.csv es) = es ∧
      ∀ l ∈ body f (dump f.csv es), ∀ e, parseLine f.delim f.keep l ≠ .error e := by
    unfold validRecs
    rw [hbody]
    cases hc : f.csv with
    | false => simpa [hc] using filterMap_dumpLine f hc es h
    | true => simpa [hc] using filterMap_dumpCsvLine f hc es h
  have hrep : (compileRun f (dump f.csv es)).reported = [] := by
    apply List.eq_nil_iff_forall_not_mem.mpr
    rintro ⟨n, e⟩ hm
    obtain ⟨i, l, h1, _, h3⟩ := (mem_reported f _ n e).mp hm
    exact hv.2 l (List.mem_of_getElem? h1) e h3
  have hins := compileRun_inserted f (dump f.csv es)
  rw [hrep] at hins
  simp only [ne_eq, not_true_eq_false, false_and, if_false] at hins
  rw [hv.1] at hins
  cases hcr : compileRun f (dump f.csv es) with
  | mk rep ins =>
    rw [hcr] at hrep hins
    simp only at hrep hins
    rw [hrep, hins]

end Chewing.Cli
