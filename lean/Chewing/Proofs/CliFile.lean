import Chewing.Proofs.CliSource
import Chewing.Proofs.CliQuoted
/-!
Whole source files of well-formed lines: every line parses, so the compiler reports nothing and inserts
the records in file order; the text goes through `writeln!` / `BufRead::lines` unchanged (LF or CRLF).
-/
namespace Chewing.Cli
open Chewing Gen List

/-- one source line in free style (see `renderLine`) and the record it stands for -/
structure SrcLine where
  /-- quotes around the phrase / the frequency -/
  qp : Bool
  qf : Bool
  /-- one pair of quotes around the syllables and the comment (`"鑰匙",668,"ㄧㄠˋ ㄔˊ # not official"`) -/
  qs : Bool
  /-- the runs of delimiters after the phrase and after the frequency, the run between syllables -/
  g1 : Text
  g2 : Text
  gs : Text
  /-- optional comment: the separators before `#` and the text after it -/
  cm : Option (Text × Text)
  r : Rec

def SrcLine.text (l : SrcLine) : Text := renderLineQ l.qp l.qf l.qs l.g1 l.g2 l.gs l.cm l.r

/-- the line is well formed for the delimiter `d` -/
def SrcLine.OK (d : Nat) (l : SrcLine) : Prop :=
  WellFormedRecord l.r ∧ (l.g1 ≠ [] ∧ ∀ c ∈ l.g1, c = d) ∧ (l.g2 ≠ [] ∧ ∀ c ∈ l.g2, c = d) ∧
  (l.gs ≠ [] ∧ AllSep sylSep l.gs) ∧ ∀ gc c, l.cm = some (gc, c) → gc ≠ [] ∧ AllSep sylSep gc

/-- the lines of a source file: with `--csv` any first line `hdr` is the header -/
def sourceLines (f : Flags) (hdr : Text) (ls : List SrcLine) : List Text :=
  if f.csv then hdr :: ls.map SrcLine.text else ls.map SrcLine.text

/-- the records the compiler makes of them -/
def sourceRecs (f : Flags) (ls : List SrcLine) : List Rec := ls.map fun l => zeroFreq f.keep l.r

theorem delim_sylSep (f : Flags) : sylSep f.delim = true := by
  cases hc : f.csv <;> simp [Flags.delim, hc] <;> decide

/-- line by line, `ls` parse to `rs` -/
inductive AllParse (f : Flags) : List Text → List Rec → Prop
  | nil : AllParse f [] []
  | cons {l : Text} {r : Rec} {ls : List Text} {rs : List Rec} :
      parseLine f.delim f.keep l = .ok r → AllParse f ls rs → AllParse f (l :: ls) (r :: rs)

/-- if every body line parses, nothing is reported and the records are inserted in file order -/
theorem compileRun_of_parsed (f : Flags) (src : List Text) (recs : List Rec)
    (h : AllParse f (body f src) recs) :
    compileRun f src = { reported := [], inserted := some recs } := by
  have hv : (body f src).filterMap (okRec f) = recs ∧
      ∀ l ∈ body f src, ∀ e, parseLine f.delim f.keep l ≠ .error e := by
    generalize body f src = b at h
    induction h with
    | nil => simp
    | cons hp _ ih =>
      refine ⟨by simp [okRec, hp, ih.1], ?_⟩
      intro l hl e
      rcases List.mem_cons.mp hl with rfl | hl
      · rw [hp]; exact fun c => by cases c
      · exact ih.2 l hl e
  have hrep : (compileRun f src).reported = [] := by
    apply List.eq_nil_iff_forall_not_mem.mpr
    rintro ⟨n, e⟩ hm
    obtain ⟨i, l, h1, _, h3⟩ := (mem_reported f _ n e).mp hm
    exact hv.2 l (List.mem_of_getElem? h1) e h3
  have hins := compileRun_inserted f src
  rw [hrep] at hins
  simp only [ne_eq, not_true_eq_false, false_and, if_false] at hins
  unfold validRecs at hins
  rw [hv.1] at hins
  cases hcr : compileRun f src with
  | mk rep ins =>
    rw [hcr] at hrep hins
    simp only at hrep hins
    rw [hrep, hins]

/-- **a file of well-formed lines compiles**: nothing is reported, every line's record is inserted, in
    file order, with the one-character frequency rule applied -/
theorem compileRun_wellformed (f : Flags) (hdr : Text) (ls : List SrcLine) (h : ∀ l ∈ ls, l.OK f.delim) :
    compileRun f (sourceLines f hdr ls) = { reported := [], inserted := some (sourceRecs f ls) } := by
  apply compileRun_of_parsed
  have hb : body f (sourceLines f hdr ls) = ls.map SrcLine.text := by
    cases hc : f.csv <;> simp [body, sourceLines, hc]
  rw [hb]
  unfold sourceRecs
  clear hb
  induction ls with
  | nil => exact .nil
  | cons l ls ih =>
    obtain ⟨h1, h2, h3, h4, h5⟩ := h l List.mem_cons_self
    exact .cons (parse_renderLineQ f.delim f.keep l.qp l.qf l.qs l.g1 l.g2 l.gs l.cm l.r h1 (delim_sylSep f) h2 h3 h4 h5)
      (ih fun x hx => h x (List.mem_cons_of_mem _ hx))

/-! ### the frequency rule and well-formedness -/

theorem zeroFreq_wellFormed {keep : Bool} {r : Rec} (h : WellFormedRecord r) : WellFormedRecord (zeroFreq keep r) := by
  unfold zeroFreq
  split
  · obtain ⟨hp, _, hs⟩ := wellFormed_iff.mp h
    exact wellFormed_iff.mpr ⟨hp, by simp, hs⟩
  · exact h

theorem zeroFreq_idem (keep : Bool) (r : Rec) : zeroFreq keep (zeroFreq keep r) = zeroFreq keep r := by
  unfold zeroFreq
  by_cases h : (r.phrase.length == 1 && !keep) = true <;> simp [h]

/-- what comes out of a file of well-formed lines dumps and reads back unchanged -/
theorem sourceRecs_dumpable (f : Flags) (ls : List SrcLine) (h : ∀ l ∈ ls, l.OK f.delim) :
    ∀ r ∈ sourceRecs f ls, Dumpable f.keep r := by
  intro r hr
  obtain ⟨l, hl, rfl⟩ := List.mem_map.mp hr
  exact ⟨zeroFreq_wellFormed (h l hl).1, zeroFreq_idem _ _⟩

/-! ### line endings -/

/-- a text line that survives `writeln!` / `BufRead::lines` -/
def FileLine (l : Text) : Prop := (∀ c ∈ l, c ≠ 10) ∧ l.getLast? ≠ some 13

/-- the same file with CRLF line ends -/
def writeLinesCrlf (ls : List Text) : Text := ls.flatMap (· ++ [13, 10])

/-- `BufRead::lines` drops the carriage return of a CRLF line end -/
theorem readLines_writeLinesCrlf : ∀ (ls : List Text), (∀ l ∈ ls, ∀ c ∈ l, c ≠ 10) →
    readLines (writeLinesCrlf ls) = ls
  | [], _ => by simp [readLines, writeLinesCrlf, readLines.go]
  | l :: ls, h => by
    have hl := h l (List.mem_cons_self)
    have ih := readLines_writeLinesCrlf ls (fun x hx => h x (List.mem_cons_of_mem _ hx))
    have hw : writeLinesCrlf (l :: ls) = (l ++ [13]) ++ 10 :: writeLinesCrlf ls := by simp [writeLinesCrlf]
    unfold readLines at ih ⊢
    rw [hw, readLines_go_line (l ++ [13]) [] _ (by
      intro c hc
      rcases List.mem_append.mp hc with hc | hc
      · exact hl c hc
      · simp at hc; omega), ih]
    congr 1
    simp [finishLine]

/-- a final line without line end is still a line -/
theorem readLines_no_final_newline (ls : List Text) (l : Text) (h : ∀ x ∈ ls, FileLine x) (hl : ∀ c ∈ l, c ≠ 10)
    (hne : l ≠ []) : readLines (writeLines ls ++ l) = ls ++ [l] := by
  induction ls with
  | nil =>
    simp only [writeLines, List.flatMap_nil, List.nil_append]
    unfold readLines
    have : ∀ (l acc : Text), (∀ c ∈ l, c ≠ 10) → readLines.go l acc =
        if (l.reverse ++ acc).isEmpty then [] else [(l.reverse ++ acc).reverse] := by
      intro l
      induction l with
      | nil => intro acc _; simp [readLines.go]
      | cons c cs ih =>
        intro acc h
        have hc : c ≠ 10 := h c List.mem_cons_self
        rw [readLines.go]
        simp only [beq_iff_eq, hc, if_false]
        rw [ih (c :: acc) (fun x hx => h x (List.mem_cons_of_mem _ hx))]
        simp
    rw [this l [] hl]
    simp [hne]
  | cons x xs ih =>
    have hx := h x List.mem_cons_self
    have ih' := ih (fun y hy => h y (List.mem_cons_of_mem _ hy))
    have hw : writeLines (x :: xs) ++ l = x ++ 10 :: (writeLines xs ++ l) := by simp [writeLines]
    have h1 := readLines_writeLines [x] (by intro y hy; simp at hy; subst hy; exact hx)
    unfold readLines at ih' h1 ⊢
    rw [hw, readLines_go_line x [] _ hx.1, ih']
    have hw1 : writeLines [x] = x ++ 10 :: [] := by simp [writeLines]
    rw [hw1, readLines_go_line x [] [] hx.1] at h1
    simp only [readLines.go, List.isEmpty_nil, if_true] at h1
    have := List.cons.inj h1
    rw [this.1]
    rfl

end Chewing.Cli
