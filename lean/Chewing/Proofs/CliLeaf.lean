import Chewing.Proofs.CliSql
/-!
What the model assumes of `slice::sort_by` in `TrieBuilder::write`, reduced for the leaves of well-formed
sources (all phrases of a leaf have as many characters as the key has syllables):

* a leaf of one-character phrases is left in insertion order by *any* stable sort — the comparator says
  `Equal` for every pair (`phraseSort_single`);
* on a leaf of longer phrases the comparator is a total order (frequency descending, then
  text descending), so the sorted leaf is the same for *any* sorting algorithm (`phraseSort_multi_unique`).

Only leaves mixing one-character and longer phrases (a syllable / character count mismatch, F27) depend on the
algorithm (there the model is the insertion sort std uses for short slices).
-/
namespace Chewing.Cli
open Chewing Gen List

theorem adjOK_of_all_false {α : Type} {lt : α → α → Bool} : ∀ {l : List α},
    (∀ a ∈ l, ∀ b ∈ l, lt a b = false) → AdjOK lt l
  | [], _ => trivial
  | [_], _ => trivial
  | a :: b :: rest, h =>
    ⟨h a (by simp) b (by simp), adjOK_of_all_false (fun x hx y hy => h x (by simp [hx]) y (by simp [hy]))⟩

/-- a list in which nothing is `Less` than anything is returned unchanged -/
theorem stableSort_of_all_equal {α : Type} {lt : α → α → Bool} {l : List α}
    (h : ∀ a ∈ l, ∀ b ∈ l, lt a b = false) : stableSort lt l = l := by
  unfold stableSort
  have hadj : AdjOK lt l.reverse := adjOK_of_all_false (fun a ha b hb => h a (by simpa using ha) b (by simpa using hb))
  have := foldl_insertRev_of_adjOK lt l.reverse hadj
  rw [List.reverse_reverse] at this
  rw [this, List.reverse_reverse]

/-- **a leaf of one-character phrases keeps its insertion order** -/
theorem phraseSort_single {ps : List PF} (h : ∀ p ∈ ps, p.1.length = 1) : phraseSort ps = ps := by
  apply stableSort_of_all_equal
  intro a ha b hb
  simp [phraseLess, phraseLessM, h a ha, h b hb]

/-- on phrases longer than one character: frequency descending, then text descending -/
theorem phraseLess_multi {a b : PF} (ha : a.1.length ≠ 1) (hb : b.1.length ≠ 1) :
    phraseLess a b = if a.2 == b.2 then textLt b.1 a.1 else decide (b.2 < a.2) := by
  simp [phraseLess, phraseLessM, ha, hb]

/-- "not after": `b` is not `Less` than `a` -/
def notAfter (a b : PF) : Prop := phraseLess b a = false

theorem notAfter_trans {a b c : PF} (ha : a.1.length ≠ 1) (hb : b.1.length ≠ 1) (hc : c.1.length ≠ 1)
    (h1 : notAfter a b) (h2 : notAfter b c) : notAfter a c := by
  unfold notAfter at *
  rw [phraseLess_multi hb ha] at h1
  rw [phraseLess_multi hc hb] at h2
  rw [phraseLess_multi hc ha]
  by_cases e1 : b.2 = a.2
  · by_cases e2 : c.2 = b.2
    · have e3 : c.2 = a.2 := e2.trans e1
      simp only [e1, e2, e3, beq_self_eq_true, if_true] at h1 h2 ⊢
      -- text: ¬ a < b, ¬ b < c ⊢ ¬ a < c
      exact textLe_trans h2 h1
    · have : ¬ c.2 = a.2 := fun e => e2 (e.trans e1.symm)
      simp only [e1, beq_self_eq_true, if_true] at h1
      have e2' : (c.2 == b.2) = false := by simpa using e2
      have e3' : (c.2 == a.2) = false := by simpa using this
      simp only [e2'] at h2
      simp only [e3']
      simp at h2 ⊢; omega
  · have e1' : (b.2 == a.2) = false := by simpa using e1
    simp only [e1'] at h1
    by_cases e2 : c.2 = b.2
    · have : ¬ c.2 = a.2 := fun e => e1 (e2.symm.trans e)
      have e3' : (c.2 == a.2) = false := by simpa using this
      simp only [e3']
      simp at h1 ⊢; omega
    · have e2' : (c.2 == b.2) = false := by simpa using e2
      simp only [e2'] at h2
      by_cases e3 : c.2 = a.2
      · simp at h1 h2; omega
      · have e3' : (c.2 == a.2) = false := by simpa using e3
        simp only [e3']
        simp at h1 h2 ⊢; omega

theorem notAfter_antisymm {a b : PF} (ha : a.1.length ≠ 1) (hb : b.1.length ≠ 1)
    (h1 : notAfter a b) (h2 : notAfter b a) : a = b := by
  unfold notAfter at *
  rw [phraseLess_multi hb ha] at h1
  rw [phraseLess_multi ha hb] at h2
  by_cases e : a.2 = b.2
  · simp only [e, beq_self_eq_true, if_true] at h1 h2
    have : a.1 = b.1 := by
      rcases textLt_tri a.1 b.1 with h | h | h
      · rw [h] at h1; cases h1
      · exact h
      · rw [h] at h2; cases h2
    exact Prod.ext this e
  · have e' : (a.2 == b.2) = false := by simpa using e
    have e'' : (b.2 == a.2) = false := by simpa using fun h : b.2 = a.2 => e h.symm
    simp only [e', e''] at h1 h2
    simp at h1 h2; omega

/-- no adjacent inversion + transitivity = sorted -/
theorem pairwise_of_adjOK : ∀ {l : List PF}, (∀ p ∈ l, p.1.length ≠ 1) → AdjOK phraseLess l →
    l.Pairwise (fun a b => phraseLess a b = false)
  | [], _, _ => List.Pairwise.nil
  | [_], _, _ => by simp
  | a :: b :: rest, hm, h => by
    have ih := pairwise_of_adjOK (fun p hp => hm p (List.mem_cons_of_mem _ hp)) h.2
    refine List.pairwise_cons.mpr ⟨?_, ih⟩
    intro c hc
    rcases List.mem_cons.mp hc with rfl | hc
    · exact h.1
    · -- a is not less than b, b is not less than c (c after b in this list)
      have hbc := (List.pairwise_cons.mp ih).1 c hc
      exact notAfter_trans (a := c) (b := b) (c := a) (hm c (by simp [hc])) (hm b (by simp)) (hm a (by simp)) hbc h.1

/-- the sorted leaf is sorted: nothing is `Less` than something before it -/
theorem phraseSort_sorted {ps : List PF} (hm : ∀ p ∈ ps, p.1.length ≠ 1) :
    (phraseSort ps).Pairwise (fun a b => phraseLess b a = false) := by
  unfold phraseSort stableSort
  have hadj := foldl_insertRev_adjOK phraseLess_asymm ps [] trivial
  have hperm := foldl_insertRev_perm phraseLess ps []
  have hm' : ∀ p ∈ ps.foldl (fun rev x => insertRev phraseLess x rev) [], p.1.length ≠ 1 :=
    fun p hp => hm p (by simpa using hperm.mem_iff.mp hp)
  have := pairwise_of_adjOK hm' hadj
  exact List.pairwise_reverse.mpr this

/-- **on a leaf of longer phrases every sorting algorithm gives the same leaf**: any
    permutation of the leaf in which nothing is `Less` than something before it is the model's `phraseSort` -/
theorem phraseSort_multi_unique {ps qs : List PF} (hm : ∀ p ∈ ps, p.1.length ≠ 1) (hperm : qs ~ ps)
    (hsorted : qs.Pairwise (fun a b => phraseLess b a = false)) : qs = phraseSort ps := by
  apply Perm.eq_of_pairwise (le := fun a b => phraseLess b a = false)
  · intro a b ha hb h1 h2
    exact notAfter_antisymm (hm a (hperm.mem_iff.mp ha)) (hm b ((phraseSort_perm ps).mem_iff.mp hb)) h1 h2
  · exact hsorted
  · exact phraseSort_sorted hm
  · exact hperm.trans (phraseSort_perm ps).symm

end Chewing.Cli
