import Chewing.Proofs.CliText
/-!
`parse_line` reads back what `dump` writes: the well-formedness predicate on records and the
one-line round trip for both dump formats.
-/
namespace Chewing.Cli
open Chewing Gen

/-- a syllable the dumper spells with at least one symbol and the parser reads back -/
def sylOK (c : Nat) : Bool := decide (Chewing.parse (spell c) = .ok c) && !(spell c).isEmpty

/-- a phrase that is one field for every splitter of `parse_line`: not empty, no comma or
    whitespace inside, no quote at either end -/
def phraseOK (p : Text) : Bool :=
  !p.isEmpty && p.head? != some cliQuote && p.getLast? != some cliQuote && p.all (fun c => !sylSep c)

def wellFormed (r : Rec) : Bool :=
  phraseOK r.phrase && decide (r.freq < 4294967296) && r.syls.all sylOK &&
  !r.syls.isEmpty && r.syls.length == r.phrase.length

/-- the records the round trip is stated for (decidable) -/
def WellFormedRecord (r : Rec) : Prop := wellFormed r = true

instance (r : Rec) : Decidable (WellFormedRecord r) := by unfold WellFormedRecord; infer_instance

/-- the one-character frequency rule of the compiler -/
def zeroFreq (keep : Bool) (r : Rec) : Rec :=
  if r.phrase.length == 1 && !keep then { r with freq := 0 } else r

theorem wellFormed_iff {r : Rec} : WellFormedRecord r ↔
    (r.phrase ≠ [] ∧ r.phrase.head? ≠ some cliQuote ∧ r.phrase.getLast? ≠ some cliQuote ∧
      (∀ c ∈ r.phrase, sylSep c = false)) ∧ r.freq < 4294967296 ∧
    (∀ c ∈ r.syls, Chewing.parse (spell c) = .ok c ∧ spell c ≠ []) ∧
    r.syls ≠ [] ∧ r.syls.length = r.phrase.length := by
  simp [WellFormedRecord, wellFormed, phraseOK, sylOK, and_assoc]

/-- the characters rejected in a phrase are the separators of the syllable fields (both literals of the
    source are regenerated) -/
theorem phraseSep_eq : phraseSep = sylSep := rfl

/-- **what `parse_line` accepts, field by field**: a first delimiter field that strips to a non-empty phrase
    without comma / whitespace, a frequency, syllable fields that parse to at least one syllable, as many
    as the phrase has characters -/
theorem parseLine_ok_iff {d : Nat} {keep : Bool} {l : Text} {r : Rec} :
    parseLine d keep l = .ok r ↔
      ∃ f0 fs n syls, tokens (· == d) l = f0 :: fs ∧ trimQ f0 ≠ [] ∧ (∀ c ∈ trimQ f0, sylSep c = false) ∧
        parseFreq keep (trimQ f0) (f0 :: fs) = .ok n ∧ parseSyls ((tokens sylSep l).drop 2) = .ok syls ∧
        syls ≠ [] ∧ syls.length = (trimQ f0).length ∧ r = ⟨trimQ f0, n, syls⟩ := by
  unfold parseLine
  cases ht : tokens (· == d) l with
  | nil => simp
  | cons f0 fs =>
    simp only [phraseSep_eq]
    by_cases he : (trimQ f0).isEmpty = true
    · have : trimQ f0 = [] := List.isEmpty_iff.mp he
      simp [this]
    · have hne : trimQ f0 ≠ [] := fun e => he (by simp [e])
      simp only [he, Bool.false_eq_true, if_false]
      by_cases hs : (trimQ f0).any sylSep = true
      · simp only [hs, if_true]
        constructor
        · intro h; cases h
        · rintro ⟨g0, gs, n, syls, hg, _, hsep, _⟩
          obtain ⟨rfl, rfl⟩ := List.cons.inj hg
          obtain ⟨c, hc, hcs⟩ := List.any_eq_true.mp hs
          rw [hsep c hc] at hcs; cases hcs
      · have hsep : ∀ c ∈ trimQ f0, sylSep c = false := by
          intro c hc
          cases hcs : sylSep c with
          | false => rfl
          | true => exact absurd (List.any_eq_true.mpr ⟨c, hc, hcs⟩) hs
        simp only [hs, Bool.false_eq_true, if_false]
        cases hf : parseFreq keep (trimQ f0) (f0 :: fs) with
        | error e =>
          constructor
          · intro h; cases h
          · rintro ⟨g0, gs, n, syls, hg, _, _, hfr, _⟩
            obtain ⟨rfl, rfl⟩ := List.cons.inj hg
            rw [hf] at hfr; cases hfr
        | ok n =>
          cases hp : parseSyls ((tokens sylSep l).drop 2) with
          | error e =>
            constructor
            · intro h; cases h
            · rintro ⟨g0, gs, n', syls, hg, _, _, _, hsy, _⟩
              cases hsy
          | ok syls =>
            simp only
            by_cases h0 : syls.isEmpty = true
            · have : syls = [] := List.isEmpty_iff.mp h0
              simp only [h0, if_true]
              constructor
              · intro h; cases h
              · rintro ⟨g0, gs, n', syls', hg, _, _, _, hsy, hne', _⟩
                cases hsy
                exact absurd this hne'
            · have hsne : syls ≠ [] := fun e => h0 (by simp [e])
              simp only [h0, Bool.false_eq_true, if_false]
              by_cases hl : (syls.length != (trimQ f0).length) = true
              · simp only [hl, if_true]
                constructor
                · intro h; cases h
                · rintro ⟨g0, gs, n', syls', hg, _, _, _, hsy, _, hlen, _⟩
                  obtain ⟨rfl, rfl⟩ := List.cons.inj hg
                  cases hsy
                  simp [hlen] at hl
              · have hlen : syls.length = (trimQ f0).length := by simpa using hl
                simp only [hl, Bool.false_eq_true, if_false]
                constructor
                · intro h
                  exact ⟨f0, fs, n, syls, rfl, hne, hsep, hf, rfl, hsne, hlen, (Except.ok.inj h).symm⟩
                · rintro ⟨g0, gs, n', syls', hg, _, _, hfr, hsy, _, _, rfl⟩
                  obtain ⟨rfl, rfl⟩ := List.cons.inj hg
                  rw [hf] at hfr
                  cases hfr; cases hsy
                  rfl

/-- the frequency: the second field as a `u32`, zeroed for a one-character phrase unless kept -/
theorem parseFreq_ok_iff' {keep : Bool} {p f0 : Text} {fs : List Text} {n : Nat} :
    parseFreq keep p (f0 :: fs) = .ok n ↔
      ∃ f1 m, fs.head? = some f1 ∧ parseU32 (trimQ f1) = some m ∧ n = if p.length == 1 && !keep then 0 else m := by
  unfold parseFreq
  cases fs with
  | nil => simp
  | cons f1 rest =>
    simp only [List.getElem?_cons_succ, List.getElem?_cons_zero, List.head?_cons, Option.some.injEq]
    cases hu : parseU32 (trimQ f1) with
    | none =>
      constructor
      · intro h; cases h
      · rintro ⟨g1, m', rfl, hm, _⟩
        rw [hu] at hm; cases hm
    | some m =>
      constructor
      · intro h; exact ⟨f1, m, rfl, hu, (Except.ok.inj h).symm⟩
      · rintro ⟨g1, m', rfl, hm, rfl⟩
        rw [hu] at hm; cases hm; rfl

/-! ### spelled syllables contain no separator, quote or comment character -/

theorem go_chars : ∀ (s : List Nat) (bld : Builder) (v : Nat), parse.go bld s = .ok v →
    ∀ c ∈ s, (bopoOfChar c).isSome = true
  | [], _, _, _ => by simp
  | c :: cs, bld, v, h => by
    unfold parse.go at h
    cases hb : bopoOfChar c with
    | none => simp [hb] at h
    | some b =>
      simp only [hb] at h
      cases hi : bld.insert b with
      | error e => simp [hi] at h
      | ok bld' =>
        simp only [hi] at h
        intro x hx
        rcases List.mem_cons.mp hx with rfl | hx
        · simp [hb]
        · exact go_chars cs bld' v h x hx

theorem bopo_table_plain :
    bopoFromChar.all (fun p => !sylSep p.1 && p.1 != cliQuote && p.1 != cliComment) = true := by decide

theorem bopoChar_plain {c : Nat} (h : (bopoOfChar c).isSome = true) :
    sylSep c = false ∧ c ≠ cliQuote ∧ c ≠ cliComment := by
  unfold bopoOfChar at h
  cases hf : bopoFromChar.find? (fun p => p.1 == c) with
  | none => simp [hf] at h
  | some p =>
    have hm := List.mem_of_find?_eq_some hf
    have hp := List.find?_some hf
    have := List.all_eq_true.mp bopo_table_plain p hm
    have e : p.1 = c := by simpa using hp
    rw [e] at this
    simpa [and_assoc] using this

theorem spell_plain {c : Nat} (h : sylOK c = true) :
    Chewing.parse (spell c) = .ok c ∧ spell c ≠ [] ∧
    ∀ x ∈ spell c, sylSep x = false ∧ x ≠ cliQuote ∧ x ≠ cliComment := by
  simp [sylOK] at h
  refine ⟨h.1, h.2, ?_⟩
  intro x hx
  have := h.1
  unfold Chewing.parse at this
  exact bopoChar_plain (go_chars _ _ _ this x hx)

/-- the syllable fields of a dumped record parse back to its syllables -/
theorem parseSyls_spell : ∀ (syls : List Nat), (∀ c ∈ syls, sylOK c = true) →
    parseSyls (syls.map spell) = .ok syls
  | [], _ => rfl
  | c :: cs, h => by
    obtain ⟨hp, hne, hpl⟩ := spell_plain (h c (List.mem_cons_self))
    have ih := parseSyls_spell cs (fun x hx => h x (List.mem_cons_of_mem _ hx))
    have ht : trimQ (spell c) = spell c := trimQ_of_noquote (fun x hx => (hpl x hx).2.1)
    have hhead : ((spell c).head? == some cliComment) = false := by
      cases hs : spell c with
      | nil => exact absurd hs hne
      | cons a as =>
        have := (hpl a (by rw [hs]; exact List.mem_cons_self)).2.2
        simpa using this
    have hemp : (spell c).isEmpty = false := by
      cases hs : spell c with
      | nil => exact absurd hs hne
      | cons a as => rfl
    simp only [List.map_cons, parseSyls, ht, hemp, hhead, hp, ih]
    simp

theorem spelled_tokens {sep : Nat → Bool} (hsep : ∀ x, sylSep x = false → sep x = false) (syls : List Nat)
    (h : ∀ c ∈ syls, sylOK c = true) : ∀ t ∈ syls.map spell, SepFree sep t ∧ t ≠ [] := by
  intro t ht
  obtain ⟨c, hc, rfl⟩ := List.mem_map.mp ht
  obtain ⟨_, hne, hpl⟩ := spell_plain (h c hc)
  exact ⟨fun x hx => hsep x (hpl x hx).1, hne⟩

/-! ### one line -/

theorem sylSep_of_ws {c : Nat} (h : isWs c = true) : sylSep c = true := by simp [sylSep, h]

/-- generic form: phrase, frequency and syllables joined by single separator characters
    `d` (a delimiter that is also a syllable separator) and `j` (a syllable separator) -/
theorem parseLine_joined (delim d j : Nat) (keep : Bool) (r : Rec) (h : WellFormedRecord r)
    (hdd : d = delim) (hds : sylSep d = true) (hjs : sylSep j = true) (hdelim : sylSep delim = true) :
    parseLine delim keep (r.phrase ++ [d] ++ decimal r.freq ++ [d] ++ joinWith [j] (r.syls.map spell))
      = .ok (zeroFreq keep r) := by
  obtain ⟨⟨pne, ph, pl, psep⟩, hf, hs, hsne, hslen⟩ := wellFormed_iff.mp h
  have hsyl : ∀ c ∈ r.syls, sylOK c = true := by
    intro c hc
    have := hs c hc
    simp [sylOK, this.1, this.2]
  obtain ⟨dv, dd, dne⟩ := decimal_spec hf
  subst hdd
  -- the line, right-nested
  have hline : r.phrase ++ [d] ++ decimal r.freq ++ [d] ++ joinWith [j] (r.syls.map spell)
      = r.phrase ++ d :: (decimal r.freq ++ d :: joinWith [j] (r.syls.map spell)) := by
    simp [List.append_assoc]
  rw [hline]
  -- delimiter-separated fields
  have pfree1 : SepFree (· == d) r.phrase := by
    intro c hc
    have h1 := psep c hc
    have : c ≠ d := by
      intro e; subst e; rw [hdelim] at h1; exact Bool.noConfusion h1
    simpa using this
  have dfree1 : SepFree (· == d) (decimal r.freq) := by
    intro c hc
    have h1 := (isDigit_not_sep (dd c hc)).1
    have : c ≠ d := by
      intro e; subst e; rw [hdelim] at h1; exact Bool.noConfusion h1
    simpa using this
  have t1 : tokens (· == d) (r.phrase ++ d :: (decimal r.freq ++ d :: joinWith [j] (r.syls.map spell)))
      = r.phrase :: decimal r.freq :: tokens (· == d) (joinWith [j] (r.syls.map spell)) := by
    rw [tokens_append_sep _ pfree1 pne (by simp), tokens_append_sep _ dfree1 dne (by simp)]
  -- syllable-separated fields
  have pfree2 : SepFree sylSep r.phrase := psep
  have dfree2 : SepFree sylSep (decimal r.freq) := fun c hc => (isDigit_not_sep (dd c hc)).1
  have t2 : tokens sylSep (r.phrase ++ d :: (decimal r.freq ++ d :: joinWith [j] (r.syls.map spell)))
      = r.phrase :: decimal r.freq :: r.syls.map spell := by
    rw [tokens_append_sep _ pfree2 pne hds, tokens_append_sep _ dfree2 dne hds,
      tokens_joinWith hjs _ (spelled_tokens (fun _ hx => hx) r.syls hsyl)]
  have tp : trimQ r.phrase = r.phrase := trimQ_eq ph pl
  have td : trimQ (decimal r.freq) = decimal r.freq :=
    trimQ_of_noquote (fun c hc => (isDigit_not_sep (dd c hc)).2.1)
  apply parseLine_ok_iff.mpr
  refine ⟨r.phrase, _, (zeroFreq keep r).freq, r.syls, t1, by rw [tp]; exact pne, by rw [tp]; exact psep, ?_, ?_,
    hsne, by rw [tp]; exact hslen, ?_⟩
  · rw [tp]
    apply parseFreq_ok_iff'.mpr
    refine ⟨decimal r.freq, r.freq, rfl, by rw [td]; exact parseU32_decimal hf, ?_⟩
    unfold zeroFreq
    by_cases hw : (r.phrase.length == 1 && !keep) = true <;> simp [hw]
  · rw [t2]
    simp only [List.drop_succ_cons, List.drop_zero]
    exact parseSyls_spell r.syls hsyl
  · rw [tp]
    unfold zeroFreq
    by_cases hw : (r.phrase.length == 1 && !keep) = true <;> simp [hw]

/-- `parse_line(' ', dump line)` -/
theorem parse_dump_ssv (keep : Bool) (r : Rec) (h : WellFormedRecord r) :
    parseLine cliSsvDelim keep (dumpLine r) = .ok (zeroFreq keep r) := by
  have := parseLine_joined cliSsvDelim 32 32 keep r h rfl (by decide) (by decide) (by decide)
  simpa [dumpLine, dumpSsvSep1, dumpSsvSep2, dumpSsvJoin] using this

/-- `parse_line(',', dump --csv line)` -/
theorem parse_dump_csv (keep : Bool) (r : Rec) (h : WellFormedRecord r) :
    parseLine cliCsvDelim keep (dumpCsvLine r) = .ok (zeroFreq keep r) := by
  have := parseLine_joined cliCsvDelim 44 12288 keep r h rfl (by decide) (by decide) (by decide)
  simpa [dumpCsvLine, dumpCsvSep1, dumpCsvSep2, dumpCsvJoin] using this

/-! ### source lines in other styles -/

/-- token-level reading of `parse_line`: whatever the separators, quotes and trailing comment, a line whose
    first two delimiter fields strip to the phrase and a `u32`, and whose remaining syllable fields parse to
    `syls`, parses to that record -/
theorem parseLine_of_tokens {d : Nat} {keep : Bool} {line fp ff p : Text} {rest1 : List Text} {f : Nat}
    {syls : List Nat} (h1 : tokens (· == d) line = fp :: ff :: rest1) (hp : trimQ fp = p)
    (hf : parseU32 (trimQ ff) = some f) (hs : parseSyls ((tokens sylSep line).drop 2) = .ok syls)
    (hpne : p ≠ []) (hpsep : ∀ c ∈ p, sylSep c = false) (hsne : syls ≠ []) (hlen : syls.length = p.length) :
    parseLine d keep line = .ok (zeroFreq keep ⟨p, f, syls⟩) := by
  apply parseLine_ok_iff.mpr
  subst hp
  refine ⟨fp, _, (zeroFreq keep ⟨trimQ fp, f, syls⟩).freq, syls, h1, hpne, hpsep, ?_, hs, hsne, hlen, ?_⟩
  · apply parseFreq_ok_iff'.mpr
    refine ⟨ff, f, rfl, hf, ?_⟩
    unfold zeroFreq
    by_cases hw : ((trimQ fp).length == 1 && !keep) = true <;> simp [hw]
  · unfold zeroFreq
    by_cases hw : ((trimQ fp).length == 1 && !keep) = true <;> simp [hw]

/-- a field starting with `#` ends the record -/
theorem parseSyls_comment {t : Text} (cm : List Text) (h : (trimQ t).head? = some cliComment) :
    parseSyls (t :: cm) = .ok [] := by
  unfold parseSyls
  have hne : (trimQ t).isEmpty = false := by
    cases ht : trimQ t with
    | nil => rw [ht] at h; cases h
    | cons a as => rfl
  simp [hne, h]

theorem parseSyls_spell_append : ∀ (syls : List Nat), (∀ c ∈ syls, sylOK c = true) → ∀ (cm : List Text),
    parseSyls cm = .ok [] → parseSyls (syls.map spell ++ cm) = .ok syls
  | [], _, cm, h => by simpa using h
  | c :: cs, h, cm, hcm => by
    obtain ⟨hp, hne, hpl⟩ := spell_plain (h c (List.mem_cons_self))
    have ih := parseSyls_spell_append cs (fun x hx => h x (List.mem_cons_of_mem _ hx)) cm hcm
    have ht : trimQ (spell c) = spell c := trimQ_of_noquote (fun x hx => (hpl x hx).2.1)
    have hhead : ((spell c).head? == some cliComment) = false := by
      cases hs : spell c with
      | nil => exact absurd hs hne
      | cons a as =>
        have := (hpl a (by rw [hs]; exact List.mem_cons_self)).2.2
        simpa using this
    have hemp : (spell c).isEmpty = false := by
      cases hs : spell c with
      | nil => exact absurd hs hne
      | cons a as => rfl
    simp only [List.map_cons, List.cons_append, parseSyls, ht, hemp, hhead, hp, ih]
    simp

/-- a source line in free style: optional quotes around the phrase and the frequency, runs of delimiters
    between the fields, any run of commas / whitespace between the syllables, optionally (after commas /
    whitespace) a `#` comment of arbitrary text -/
def renderTail (gs : Text) (cm : Option (Text × Text)) (r : Rec) : Text :=
  match cm with
  | none => joinWith gs (r.syls.map spell)
  | some (gc, c) => joinWith gs (r.syls.map spell) ++ gc ++ cliComment :: c

def renderLine (qp qf : Bool) (g1 g2 gs : Text) (cm : Option (Text × Text)) (r : Rec) : Text :=
  quoteIf qp r.phrase ++ g1 ++ (quoteIf qf (decimal r.freq) ++ g2 ++ renderTail gs cm r)

theorem quote_not_sep : sylSep cliQuote = false := by decide
theorem comment_not_sep : sylSep cliComment = false := by decide

theorem quoteIf_sepfree {sep : Nat → Bool} (hq : sep cliQuote = false) (b : Bool) {s : Text} (h : SepFree sep s) :
    SepFree sep (quoteIf b s) := by
  cases b with
  | false => exact h
  | true =>
    intro c hc
    simp only [quoteIf, if_true, List.mem_cons, List.mem_append, List.mem_singleton] at hc
    rcases hc with rfl | hc | hc
    · exact hq
    · exact h c hc
    · simp at hc; subst hc; exact hq

theorem quoteIf_ne_nil (b : Bool) {s : Text} (h : s ≠ []) : quoteIf b s ≠ [] := by
  cases b <;> simp [quoteIf, h]

/-- **a well-formed record written in free style parses to the record** (one-character frequency rule
    applied), for any delimiter that is itself a syllable separator (`' '` and `','` are) -/
theorem parse_renderLine (d : Nat) (keep : Bool) (qp qf : Bool) (g1 g2 gs : Text) (cm : Option (Text × Text))
    (r : Rec) (h : WellFormedRecord r) (hd : sylSep d = true)
    (hg1 : g1 ≠ [] ∧ ∀ c ∈ g1, c = d) (hg2 : g2 ≠ [] ∧ ∀ c ∈ g2, c = d)
    (hgs : gs ≠ [] ∧ AllSep sylSep gs) (hcm : ∀ gc c, cm = some (gc, c) → gc ≠ [] ∧ AllSep sylSep gc) :
    parseLine d keep (renderLine qp qf g1 g2 gs cm r) = .ok (zeroFreq keep r) := by
  obtain ⟨⟨pne, ph, pl, psep⟩, hf, hs, hsne, hslen⟩ := wellFormed_iff.mp h
  have hsyl : ∀ c ∈ r.syls, sylOK c = true := by
    intro c hc
    have := hs c hc
    simp [sylOK, this.1, this.2]
  obtain ⟨dv, dd, dne⟩ := decimal_spec hf
  have hqd : ((cliQuote == d) = false) := by
    have : cliQuote ≠ d := by
      intro e; rw [← e, quote_not_sep] at hd; cases hd
    simpa using this
  -- separators seen by both splitters
  have g1d : AllSep (· == d) g1 := fun c hc => by simp [hg1.2 c hc]
  have g2d : AllSep (· == d) g2 := fun c hc => by simp [hg2.2 c hc]
  have g1s : AllSep sylSep g1 := fun c hc => by rw [hg1.2 c hc]; exact hd
  have g2s : AllSep sylSep g2 := fun c hc => by rw [hg2.2 c hc]; exact hd
  have pfreeS : SepFree sylSep r.phrase := psep
  have pfreeD : SepFree (· == d) r.phrase := by
    intro c hc
    have h1 := psep c hc
    have : c ≠ d := by intro e; subst e; rw [hd] at h1; cases h1
    simpa using this
  have dfreeS : SepFree sylSep (decimal r.freq) := fun c hc => (isDigit_not_sep (dd c hc)).1
  have dfreeD : SepFree (· == d) (decimal r.freq) := by
    intro c hc
    have h1 := dfreeS c hc
    have : c ≠ d := by intro e; subst e; rw [hd] at h1; cases h1
    simpa using this
  have PS := quoteIf_sepfree quote_not_sep qp pfreeS
  have PD := quoteIf_sepfree (sep := (· == d)) hqd qp pfreeD
  have FS := quoteIf_sepfree quote_not_sep qf dfreeS
  have FD := quoteIf_sepfree (sep := (· == d)) hqd qf dfreeD
  have Pne := quoteIf_ne_nil qp pne
  have Fne := quoteIf_ne_nil qf dne
  have tp : trimQ (quoteIf qp r.phrase) = r.phrase := trimQ_quoteIf qp ph pl
  have td : trimQ (quoteIf qf (decimal r.freq)) = decimal r.freq := by
    apply trimQ_quoteIf
    · intro e; exact (isDigit_not_sep (dd _ (List.mem_of_mem_head? e))).2.1 rfl
    · intro e; exact (isDigit_not_sep (dd _ (List.mem_of_mem_getLast? e))).2.1 rfl
  unfold renderLine
  refine parseLine_of_tokens (fp := quoteIf qp r.phrase) (ff := quoteIf qf (decimal r.freq))
    (rest1 := tokens (· == d) (renderTail gs cm r)) ?_ tp (by rw [td]; exact parseU32_decimal hf) ?_
    pne psep hsne hslen
  · rw [tokens_append_gap _ PD Pne g1d hg1.1, tokens_append_gap _ FD Fne g2d hg2.1]
  · rw [tokens_append_gap _ PS Pne g1s hg1.1, tokens_append_gap _ FS Fne g2s hg2.1]
    simp only [List.drop_succ_cons, List.drop_zero]
    have hst := spelled_tokens (sep := sylSep) (fun _ hx => hx) r.syls hsyl
    unfold renderTail
    cases cm with
    | none =>
      simp only
      rw [tokens_joinWith_gap hgs.2 hgs.1 _ hst]
      exact parseSyls_spell r.syls hsyl
    | some gcc =>
      obtain ⟨gc, c⟩ := gcc
      obtain ⟨hgc1, hgc2⟩ := hcm gc c rfl
      simp only
      rw [tokens_joinWith_gap_append hgs.2 hgs.1 hgc2 hgc1 _ _ hst]
      obtain ⟨w, rest, hw⟩ := tokens_head (sep := sylSep) c comment_not_sep
      rw [hw]
      apply parseSyls_spell_append r.syls hsyl
      exact parseSyls_comment rest (trimQ_head w (by decide))

end Chewing.Cli
