import Chewing.Proofs.CliText
/-!
`parse_line` reads back what `dump` writes: the well-formedness predicate on records and the
one-line round trip for both dump formats.
-/
namespace Chewing.Cli
open Chewing Gen

/-- a syllable the dumper spells with at least one symbol and the parser reads back -/
def sylOK (c : Nat) : Bool := decide (Chewing.parse (spell c) = .ok c) && !(spell c).isEmpty

/-- a phrase that is one field for every splitter of `parse_line`: not empty, no comma or
    whitespace inside, no quote at either end -/
def phraseOK (p : Text) : Bool :=
  !p.isEmpty && p.head? != some cliQuote && p.getLast? != some cliQuote && p.all (fun c => !sylSep c)

def wellFormed (r : Rec) : Bool :=
  phraseOK r.phrase && decide (r.freq < 4294967296) && r.syls.all sylOK

/-- the records the round trip is stated for (decidable) -/
def WellFormedRecord (r : Rec) : Prop := wellFormed r = true

instance (r : Rec) : Decidable (WellFormedRecord r) := by unfold WellFormedRecord; infer_instance

/-- the one-character frequency rule of the compiler -/
def zeroFreq (keep : Bool) (r : Rec) : Rec :=
  if r.phrase.length == 1 && !keep then { r with freq := 0 } else r

theorem wellFormed_iff {r : Rec} : WellFormedRecord r ↔
    (r.phrase ≠ [] ∧ r.phrase.head? ≠ some cliQuote ∧ r.phrase.getLast? ≠ some cliQuote ∧
      (∀ c ∈ r.phrase, sylSep c = false)) ∧ r.freq < 4294967296 ∧
    ∀ c ∈ r.syls, Chewing.parse (spell c) = .ok c ∧ spell c ≠ [] := by
  simp [WellFormedRecord, wellFormed, phraseOK, sylOK, and_assoc]

/-! ### spelled syllables contain no separator, quote or comment character -/

theorem go_chars : ∀ (s : List Nat) (bld : Builder) (v : Nat), parse.go bld s = .ok v →
    ∀ c ∈ s, (bopoOfChar c).isSome = true
  | [], _, _, _ => by simp
  | c :: cs, bld, v, h => by
    unfold parse.go at h
    cases hb : bopoOfChar c with
    | none => simp [hb] at h
    | some b =>
      simp only [hb] at h
      cases hi : bld.insert b with
      | error e => simp [hi] at h
      | ok bld' =>
        simp only [hi] at h
        intro x hx
        rcases List.mem_cons.mp hx with rfl | hx
        · simp [hb]
        · exact go_chars cs bld' v h x hx

theorem bopo_table_plain :
    bopoFromChar.all (fun p => !sylSep p.1 && p.1 != cliQuote && p.1 != cliComment) = true := by decide

theorem bopoChar_plain {c : Nat} (h : (bopoOfChar c).isSome = true) :
    sylSep c = false ∧ c ≠ cliQuote ∧ c ≠ cliComment := by
  unfold bopoOfChar at h
  cases hf : bopoFromChar.find? (fun p => p.1 == c) with
  | none => simp [hf] at h
  | some p =>
    have hm := List.mem_of_find?_eq_some hf
    have hp := List.find?_some hf
    have := List.all_eq_true.mp bopo_table_plain p hm
    have e : p.1 = c := by simpa using hp
    rw [e] at this
    simpa [and_assoc] using this

theorem spell_plain {c : Nat} (h : sylOK c = true) :
    Chewing.parse (spell c) = .ok c ∧ spell c ≠ [] ∧
    ∀ x ∈ spell c, sylSep x = false ∧ x ≠ cliQuote ∧ x ≠ cliComment := by
  simp [sylOK] at h
  refine ⟨h.1, h.2, ?_⟩
  intro x hx
  have := h.1
  unfold Chewing.parse at this
  exact bopoChar_plain (go_chars _ _ _ this x hx)

/-- the syllable fields of a dumped record parse back to its syllables -/
theorem parseSyls_spell : ∀ (syls : List Nat), (∀ c ∈ syls, sylOK c = true) →
    parseSyls (syls.map spell) = .ok syls
  | [], _ => rfl
  | c :: cs, h => by
    obtain ⟨hp, hne, hpl⟩ := spell_plain (h c (List.mem_cons_self))
    have ih := parseSyls_spell cs (fun x hx => h x (List.mem_cons_of_mem _ hx))
    have ht : trimQ (spell c) = spell c := trimQ_of_noquote (fun x hx => (hpl x hx).2.1)
    have hhead : ((spell c).head? == some cliComment) = false := by
      cases hs : spell c with
      | nil => exact absurd hs hne
      | cons a as =>
        have := (hpl a (by rw [hs]; exact List.mem_cons_self)).2.2
        simpa using this
    have hemp : (spell c).isEmpty = false := by
      cases hs : spell c with
      | nil => exact absurd hs hne
      | cons a as => rfl
    simp only [List.map_cons, parseSyls, ht, hemp, hhead, hp, ih]
    simp

theorem spelled_tokens {sep : Nat → Bool} (hsep : ∀ x, sylSep x = false → sep x = false) (syls : List Nat)
    (h : ∀ c ∈ syls, sylOK c = true) : ∀ t ∈ syls.map spell, SepFree sep t ∧ t ≠ [] := by
  intro t ht
  obtain ⟨c, hc, rfl⟩ := List.mem_map.mp ht
  obtain ⟨_, hne, hpl⟩ := spell_plain (h c hc)
  exact ⟨fun x hx => hsep x (hpl x hx).1, hne⟩

/-! ### one line -/

theorem sylSep_of_ws {c : Nat} (h : isWs c = true) : sylSep c = true := by simp [sylSep, h]

/-- generic form: phrase, frequency and syllables joined by single separator characters
    `d` (a delimiter that is also a syllable separator) and `j` (a syllable separator) -/
theorem parseLine_joined (delim d j : Nat) (keep : Bool) (r : Rec) (h : WellFormedRecord r)
    (hdd : d = delim) (hds : sylSep d = true) (hjs : sylSep j = true) (hdelim : sylSep delim = true) :
    parseLine delim keep (r.phrase ++ [d] ++ decimal r.freq ++ [d] ++ joinWith [j] (r.syls.map spell))
      = .ok (zeroFreq keep r) := by
  obtain ⟨⟨pne, ph, pl, psep⟩, hf, hs⟩ := wellFormed_iff.mp h
  have hsyl : ∀ c ∈ r.syls, sylOK c = true := by
    intro c hc
    have := hs c hc
    simp [sylOK, this.1, this.2]
  obtain ⟨dv, dd, dne⟩ := decimal_spec hf
  subst hdd
  -- the line, right-nested
  have hline : r.phrase ++ [d] ++ decimal r.freq ++ [d] ++ joinWith [j] (r.syls.map spell)
      = r.phrase ++ d :: (decimal r.freq ++ d :: joinWith [j] (r.syls.map spell)) := by
    simp [List.append_assoc]
  rw [hline]
  -- delimiter-separated fields
  have pfree1 : SepFree (· == d) r.phrase := by
    intro c hc
    have h1 := psep c hc
    have : c ≠ d := by
      intro e; subst e; rw [hdelim] at h1; exact Bool.noConfusion h1
    simpa using this
  have dfree1 : SepFree (· == d) (decimal r.freq) := by
    intro c hc
    have h1 := (isDigit_not_sep (dd c hc)).1
    have : c ≠ d := by
      intro e; subst e; rw [hdelim] at h1; exact Bool.noConfusion h1
    simpa using this
  have t1 : tokens (· == d) (r.phrase ++ d :: (decimal r.freq ++ d :: joinWith [j] (r.syls.map spell)))
      = r.phrase :: decimal r.freq :: tokens (· == d) (joinWith [j] (r.syls.map spell)) := by
    rw [tokens_append_sep _ pfree1 pne (by simp), tokens_append_sep _ dfree1 dne (by simp)]
  -- syllable-separated fields
  have pfree2 : SepFree sylSep r.phrase := psep
  have dfree2 : SepFree sylSep (decimal r.freq) := fun c hc => (isDigit_not_sep (dd c hc)).1
  have t2 : tokens sylSep (r.phrase ++ d :: (decimal r.freq ++ d :: joinWith [j] (r.syls.map spell)))
      = r.phrase :: decimal r.freq :: r.syls.map spell := by
    rw [tokens_append_sep _ pfree2 pne hds, tokens_append_sep _ dfree2 dne hds,
      tokens_joinWith hjs _ (spelled_tokens (fun _ hx => hx) r.syls hsyl)]
  have tp : trimQ r.phrase = r.phrase := trimQ_eq ph pl
  have td : trimQ (decimal r.freq) = decimal r.freq :=
    trimQ_of_noquote (fun c hc => (isDigit_not_sep (dd c hc)).2.1)
  unfold parseLine
  simp only [t1, t2]
  simp only [List.drop_succ_cons, List.drop_zero, parseSyls_spell r.syls hsyl, tp]
  have hfreq : parseFreq keep r.phrase
      (r.phrase :: decimal r.freq :: tokens (· == d) (joinWith [j] (r.syls.map spell)))
      = .ok (zeroFreq keep r).freq := by
    unfold parseFreq zeroFreq
    by_cases hw : (r.phrase.length == 1 && !keep) = true
    · simp [hw]
    · simp [hw, td, parseU32_decimal hf]
  simp only [hfreq]
  unfold zeroFreq
  by_cases hw : (r.phrase.length == 1 && !keep) = true
  · simp [hw]
  · simp [hw]

/-- `parse_line(' ', dump line)` -/
theorem parse_dump_ssv (keep : Bool) (r : Rec) (h : WellFormedRecord r) :
    parseLine cliSsvDelim keep (dumpLine r) = .ok (zeroFreq keep r) := by
  have := parseLine_joined cliSsvDelim 32 32 keep r h rfl (by decide) (by decide) (by decide)
  simpa [dumpLine, dumpSsvSep1, dumpSsvSep2, dumpSsvJoin] using this

/-- `parse_line(',', dump --csv line)` -/
theorem parse_dump_csv (keep : Bool) (r : Rec) (h : WellFormedRecord r) :
    parseLine cliCsvDelim keep (dumpCsvLine r) = .ok (zeroFreq keep r) := by
  have := parseLine_joined cliCsvDelim 44 12288 keep r h rfl (by decide) (by decide) (by decide)
  simpa [dumpCsvLine, dumpCsvSep1, dumpCsvSep2, dumpCsvJoin] using this

end Chewing.Cli
