import Chewing.Proofs.CliParse
/-!
Quoted syllable fields — the CSV style of the repository's own unit test
`"鑰匙",668,"ㄧㄠˋ ㄔˊ # not official"`: one pair of quotes around everything after the frequency.

`parse_line` never looks at a syllable field before `trim_matches('"')`, and drops fields that are empty after
it; so a quote put in front of the first field and one put after the last field of *any* text change nothing
(`parseSyls_tokens_quoted`).  `renderLineQ` / `parse_renderLineQ` extend the free-style line of `CliParse`
by this option.
-/
namespace Chewing.Cli
open Chewing Gen List

/-! ### `trim_matches('"')` and one more quote -/

theorem trimQ_cons_quote (f : Text) : trimQ (cliQuote :: f) = trimQ f := by
  unfold trimQ
  simp [List.dropWhile]

theorem dropWhile_append_quote : ∀ f : Text,
    (f ++ [cliQuote]).dropWhile (· == cliQuote) =
      if f.dropWhile (· == cliQuote) = [] then [] else f.dropWhile (· == cliQuote) ++ [cliQuote]
  | [] => by simp [List.dropWhile]
  | c :: f => by
    by_cases hc : (c == cliQuote) = true
    · simp only [List.cons_append, List.dropWhile, hc]
      exact dropWhile_append_quote f
    · simp [List.dropWhile, hc]

theorem trimQ_append_quote (f : Text) : trimQ (f ++ [cliQuote]) = trimQ f := by
  unfold trimQ
  rw [dropWhile_append_quote]
  by_cases h : f.dropWhile (· == cliQuote) = []
  · simp [h]
  · simp only [h, if_false, List.reverse_append, List.reverse_cons, List.reverse_nil, List.nil_append,
      List.singleton_append]
    simp [List.dropWhile]

/-! ### fields of a text with one more non-separator character at either end -/

theorem fields_cons_nonsep {sep : Nat → Bool} {q : Nat} (hq : sep q = false) (s : Text) :
    ∃ f fs, fields sep s = f :: fs ∧ fields sep (q :: s) = (q :: f) :: fs := by
  cases hf : fields sep s with
  | nil => exact absurd hf (fields_ne_nil sep s)
  | cons f fs => exact ⟨f, fs, rfl, by simp [fields, hq, hf]⟩

theorem fields_append_nonsep {sep : Nat → Bool} {q : Nat} (hq : sep q = false) : ∀ s : Text,
    ∃ fs f, fields sep s = fs ++ [f] ∧ fields sep (s ++ [q]) = fs ++ [f ++ [q]]
  | [] => ⟨[], [], by simp [fields], by simp [fields, hq]⟩
  | c :: s => by
    obtain ⟨fs, f, h1, h2⟩ := fields_append_nonsep hq s
    by_cases hc : sep c = true
    · exact ⟨[] :: fs, f, by simp [fields, hc, h1], by simp [fields, hc, h2]⟩
    · cases fs with
      | nil => exact ⟨[], c :: f, by simp [fields, hc, h1], by simp [fields, hc, h2]⟩
      | cons g gs => exact ⟨(c :: g) :: gs, f, by simp [fields, hc, h1], by simp [fields, hc, h2]⟩

/-! ### `parse_line` sees the syllable fields only stripped, and only the non-empty ones -/

/-- the fields as the syllable loop sees them -/
def normToks (ts : List Text) : List Text := (ts.map trimQ).filter (fun t => !t.isEmpty)

/-- the syllable loop on such fields -/
def parseSylsN : List Text → Except LineErr (List Nat)
  | [] => .ok []
  | s :: ts =>
    if s.head? == some cliComment then .ok []
    else match Chewing.parse s with
      | .error .invalid => .error .bopomofo
      | .error _ => .error .syllable
      | .ok v =>
        match parseSylsN ts with
        | .ok vs => .ok (v :: vs)
        | .error e => .error e

theorem parseSyls_norm : ∀ ts : List Text, parseSyls ts = parseSylsN (normToks ts)
  | [] => rfl
  | t :: ts => by
    have ih := parseSyls_norm ts
    unfold parseSyls
    by_cases he : (trimQ t).isEmpty = true
    · have : normToks (t :: ts) = normToks ts := by simp [normToks, he]
      simp only [he, if_true, this]
      exact ih
    · have : normToks (t :: ts) = trimQ t :: normToks ts := by simp [normToks, he]
      rw [this, parseSylsN, ← ih]
      simp only [he]
      rfl

theorem normToks_tokens (sep : Nat → Bool) (s : Text) :
    normToks (tokens sep s) = ((fields sep s).map trimQ).filter (fun t => !t.isEmpty) := by
  unfold normToks tokens
  induction fields sep s with
  | nil => rfl
  | cons f fs ih =>
    cases f with
    | nil => simpa [trimQ] using ih
    | cons c cs => simp only [List.filter_cons, List.map_cons, List.isEmpty_cons, Bool.not_false, if_true]; rw [ih]

/-- **one pair of quotes around any text changes nothing for the syllable loop** -/
theorem parseSyls_tokens_quoted {sep : Nat → Bool} (hq : sep cliQuote = false) (s : Text) :
    parseSyls (tokens sep (cliQuote :: (s ++ [cliQuote]))) = parseSyls (tokens sep s) := by
  rw [parseSyls_norm, parseSyls_norm, normToks_tokens, normToks_tokens]
  obtain ⟨fs, f, h1, h2⟩ := fields_append_nonsep hq s
  obtain ⟨f', fs', h3, h4⟩ := fields_cons_nonsep hq (s ++ [cliQuote])
  rw [h4]
  have e1 : (((cliQuote :: f') :: fs').map trimQ) = (f' :: fs').map trimQ := by
    simp [trimQ_cons_quote]
  rw [e1, ← h3, h2, h1]
  simp [trimQ_append_quote]

/-! ### the free-style line with optionally quoted syllables -/

/-- `renderLine` with the option `qs`: one pair of quotes around the syllables and the comment -/
def renderLineQ (qp qf qs : Bool) (g1 g2 gs : Text) (cm : Option (Text × Text)) (r : Rec) : Text :=
  quoteIf qp r.phrase ++ g1 ++ (quoteIf qf (decimal r.freq) ++ g2 ++ quoteIf qs (renderTail gs cm r))

theorem renderLineQ_false (qp qf : Bool) (g1 g2 gs : Text) (cm : Option (Text × Text)) (r : Rec) :
    renderLineQ qp qf false g1 g2 gs cm r = renderLine qp qf g1 g2 gs cm r := rfl

theorem parseSyls_renderTail (gs : Text) (cm : Option (Text × Text)) (r : Rec)
    (hsyl : ∀ c ∈ r.syls, sylOK c = true) (hgs : gs ≠ [] ∧ AllSep sylSep gs)
    (hcm : ∀ gc c, cm = some (gc, c) → gc ≠ [] ∧ AllSep sylSep gc) :
    parseSyls (tokens sylSep (renderTail gs cm r)) = .ok r.syls := by
  have hst := spelled_tokens (sep := sylSep) (fun _ hx => hx) r.syls hsyl
  unfold renderTail
  cases cm with
  | none =>
    simp only
    rw [tokens_joinWith_gap hgs.2 hgs.1 _ hst]
    exact parseSyls_spell r.syls hsyl
  | some gcc =>
    obtain ⟨gc, c⟩ := gcc
    obtain ⟨hgc1, hgc2⟩ := hcm gc c rfl
    simp only
    rw [tokens_joinWith_gap_append hgs.2 hgs.1 hgc2 hgc1 _ _ hst]
    obtain ⟨w, rest, hw⟩ := tokens_head (sep := sylSep) c comment_not_sep
    rw [hw]
    apply parseSyls_spell_append r.syls hsyl
    exact parseSyls_comment rest (trimQ_head w (by decide))

/-- **a well-formed record in free style, syllables quoted or not, parses to the record** -/
theorem parse_renderLineQ (d : Nat) (keep : Bool) (qp qf qs : Bool) (g1 g2 gs : Text) (cm : Option (Text × Text))
    (r : Rec) (h : WellFormedRecord r) (hd : sylSep d = true)
    (hg1 : g1 ≠ [] ∧ ∀ c ∈ g1, c = d) (hg2 : g2 ≠ [] ∧ ∀ c ∈ g2, c = d)
    (hgs : gs ≠ [] ∧ AllSep sylSep gs) (hcm : ∀ gc c, cm = some (gc, c) → gc ≠ [] ∧ AllSep sylSep gc) :
    parseLine d keep (renderLineQ qp qf qs g1 g2 gs cm r) = .ok (zeroFreq keep r) := by
  obtain ⟨⟨pne, ph, pl, psep⟩, hf, hs, hsne, hslen⟩ := wellFormed_iff.mp h
  have hsyl : ∀ c ∈ r.syls, sylOK c = true := by
    intro c hc
    have := hs c hc
    simp [sylOK, this.1, this.2]
  obtain ⟨dv, dd, dne⟩ := decimal_spec hf
  have hqd : ((cliQuote == d) = false) := by
    have : cliQuote ≠ d := by
      intro e; rw [← e, quote_not_sep] at hd; cases hd
    simpa using this
  have g1d : AllSep (· == d) g1 := fun c hc => by simp [hg1.2 c hc]
  have g2d : AllSep (· == d) g2 := fun c hc => by simp [hg2.2 c hc]
  have g1s : AllSep sylSep g1 := fun c hc => by rw [hg1.2 c hc]; exact hd
  have g2s : AllSep sylSep g2 := fun c hc => by rw [hg2.2 c hc]; exact hd
  have pfreeS : SepFree sylSep r.phrase := psep
  have pfreeD : SepFree (· == d) r.phrase := by
    intro c hc
    have h1 := psep c hc
    have : c ≠ d := by intro e; subst e; rw [hd] at h1; cases h1
    simpa using this
  have dfreeS : SepFree sylSep (decimal r.freq) := fun c hc => (isDigit_not_sep (dd c hc)).1
  have dfreeD : SepFree (· == d) (decimal r.freq) := by
    intro c hc
    have h1 := dfreeS c hc
    have : c ≠ d := by intro e; subst e; rw [hd] at h1; cases h1
    simpa using this
  have PS := quoteIf_sepfree quote_not_sep qp pfreeS
  have PD := quoteIf_sepfree (sep := (· == d)) hqd qp pfreeD
  have FS := quoteIf_sepfree quote_not_sep qf dfreeS
  have FD := quoteIf_sepfree (sep := (· == d)) hqd qf dfreeD
  have Pne := quoteIf_ne_nil qp pne
  have Fne := quoteIf_ne_nil qf dne
  have tp : trimQ (quoteIf qp r.phrase) = r.phrase := trimQ_quoteIf qp ph pl
  have td : trimQ (quoteIf qf (decimal r.freq)) = decimal r.freq := by
    apply trimQ_quoteIf
    · intro e; exact (isDigit_not_sep (dd _ (List.mem_of_mem_head? e))).2.1 rfl
    · intro e; exact (isDigit_not_sep (dd _ (List.mem_of_mem_getLast? e))).2.1 rfl
  unfold renderLineQ
  refine parseLine_of_tokens (fp := quoteIf qp r.phrase) (ff := quoteIf qf (decimal r.freq))
    (rest1 := tokens (· == d) (quoteIf qs (renderTail gs cm r))) ?_ tp (by rw [td]; exact parseU32_decimal hf) ?_
    pne psep hsne hslen
  · rw [tokens_append_gap _ PD Pne g1d hg1.1, tokens_append_gap _ FD Fne g2d hg2.1]
  · rw [tokens_append_gap _ PS Pne g1s hg1.1, tokens_append_gap _ FS Fne g2s hg2.1]
    simp only [List.drop_succ_cons, List.drop_zero]
    cases qs with
    | false => exact parseSyls_renderTail gs cm r hsyl hgs hcm
    | true =>
      show parseSyls (tokens sylSep (cliQuote :: (renderTail gs cm r ++ [cliQuote]))) = _
      rw [parseSyls_tokens_quoted quote_not_sep]
      exact parseSyls_renderTail gs cm r hsyl hgs hcm

end Chewing.Cli
