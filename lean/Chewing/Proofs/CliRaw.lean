import Chewing.Proofs.CliCompile
/-!
Source files as bytes.  A line that is not valid UTF-8 is a malformed line like any other (fix of F45):
`BufRead::lines` yields `Err(InvalidData)` for it and goes on with the next line; `run` collects it with its
number.  The byte-level run `compileRaw` has the same shape as the text-level run `compileRun` (the lemmas
below are those of `CliCompile` for `parseRawLine` instead of `parse_line`); if no line the loop reads is
invalid it *is* the text-level run.
-/
namespace Chewing.Cli
open Chewing Gen List

/-- line `i` is read by the loop (it is not the skipped CSV header) and is not valid UTF-8 -/
def InvalidAt (f : Flags) (src : RawLines) (i : Nat) : Prop := src[i]? = some none ∧ (f.csv = true → i ≠ 0)

/-- the lines `run` looks at: with `--csv` the first one is skipped unread -/
def rawBody (f : Flags) (src : RawLines) : RawLines := if f.csv then src.drop 1 else src

def okRawRec (f : Flags) (l : Option Text) : Option Rec :=
  match parseRawLine f l with
  | .ok r => some r
  | .error _ => none

/-- the records of the lines that are valid UTF-8 and parse, in file order -/
def validRawRecs (f : Flags) (src : RawLines) : List Rec := (rawBody f src).filterMap (okRawRec f)

/-- after the header position nothing is skipped any more -/
theorem parseAllRaw_noskip (f : Flags) : ∀ (ls : RawLines) (idx : Nat), (f.csv = true → 1 ≤ idx) →
    (parseAllRaw f idx ls).1 = ls.filterMap (okRawRec f) ∧
    ∀ j e, (j, e) ∈ (parseAllRaw f idx ls).2 ↔
      ∃ i l, ls[i]? = some l ∧ j = idx + i ∧ parseRawLine f l = .error e
  | [], idx, _ => by simp [parseAllRaw]
  | l :: ls, idx, h => by
    obtain ⟨ih1, ih2⟩ := parseAllRaw_noskip f ls (idx + 1) (fun c => by have := h c; omega)
    have hskip : (f.csv && idx == 0) = false := by
      cases hc : f.csv with
      | false => rfl
      | true => have := h hc; simp; omega
    have hpa : parseAllRaw f idx (l :: ls) =
        match parseRawLine f l with
        | .ok r => (r :: (parseAllRaw f (idx + 1) ls).1, (parseAllRaw f (idx + 1) ls).2)
        | .error e => ((parseAllRaw f (idx + 1) ls).1, (idx, e) :: (parseAllRaw f (idx + 1) ls).2) := by
      rw [parseAllRaw]
      simp only [hskip]
      rfl
    rw [hpa]
    cases hp : parseRawLine f l with
    | ok r =>
      refine ⟨by simp [ih1, okRawRec, hp], ?_⟩
      intro j e
      show (j, e) ∈ (parseAllRaw f (idx + 1) ls).2 ↔ _
      rw [ih2]
      constructor
      · rintro ⟨i, l', h1, h2, h3⟩
        exact ⟨i + 1, l', by simpa using h1, by omega, h3⟩
      · rintro ⟨i, l', h1, h2, h3⟩
        cases i with
        | zero =>
          simp at h1; subst h1; rw [hp] at h3; cases h3
        | succ i => exact ⟨i, l', by simpa using h1, by omega, h3⟩
    | error e0 =>
      refine ⟨by simp [ih1, okRawRec, hp], ?_⟩
      intro j e
      show (j, e) ∈ (idx, e0) :: (parseAllRaw f (idx + 1) ls).2 ↔ _
      rw [List.mem_cons, ih2]
      constructor
      · rintro (heq | ⟨i, l', h1, h2, h3⟩)
        · cases heq
          exact ⟨0, l, by simp, by omega, hp⟩
        · exact ⟨i + 1, l', by simpa using h1, by omega, h3⟩
      · rintro ⟨i, l', h1, h2, h3⟩
        cases i with
        | zero =>
          simp at h1; subst h1; rw [hp] at h3
          cases h3
          exact Or.inl (by simp [h2])
        | succ i => exact Or.inr ⟨i, l', by simpa using h1, by omega, h3⟩

/-- `parseAllRaw` from the top of the file = the rawBody lines, numbered from `bodyStart` -/
theorem parseAllRaw_top (f : Flags) (src : RawLines) :
    (parseAllRaw f 0 src).1 = validRawRecs f src ∧
    ∀ j e, (j, e) ∈ (parseAllRaw f 0 src).2 ↔
      ∃ i l, (rawBody f src)[i]? = some l ∧ j = bodyStart f + i ∧ parseRawLine f l = .error e := by
  cases hc : f.csv with
  | false =>
    have := parseAllRaw_noskip f src 0 (fun c => by rw [hc] at c; exact Bool.noConfusion c)
    simpa [validRawRecs, rawBody, bodyStart, hc] using this
  | true =>
    cases src with
    | nil => simp [parseAllRaw, validRawRecs, rawBody, hc]
    | cons l ls =>
      have := parseAllRaw_noskip f ls 1 (fun _ => Nat.le_refl 1)
      have hp : parseAllRaw f 0 (l :: ls) = parseAllRaw f 1 ls := by
        rw [parseAllRaw]
        simp [hc]
      rw [hp]
      simpa [validRawRecs, rawBody, bodyStart, hc] using this

theorem compileRaw_inserted (f : Flags) (src : RawLines) :
    (compileRaw f src).inserted =
      if (compileRaw f src).reported ≠ [] ∧ f.skip = false then none else some (validRawRecs f src) := by
  unfold compileRaw
  rw [← (parseAllRaw_top f src).1]
  cases h : (parseAllRaw f 0 src).2 with
  | nil => simp
  | cons e es => cases hs : f.skip <;> simp

/-- exactly the failing rawBody lines are reported, each with its 1-based line number -/
theorem mem_raw_reported (f : Flags) (src : RawLines) (n : Nat) (e : LineErr) :
    (n, e) ∈ (compileRaw f src).reported ↔
      ∃ i l, (rawBody f src)[i]? = some l ∧ n = bodyStart f + i + 1 ∧ parseRawLine f l = .error e := by
  unfold compileRaw
  simp only [List.mem_map]
  constructor
  · rintro ⟨⟨j, e'⟩, hm, heq⟩
    simp only [Prod.mk.injEq] at heq
    obtain ⟨rfl, rfl⟩ := heq
    obtain ⟨i, l, h1, h2, h3⟩ := ((parseAllRaw_top f src).2 j e').mp hm
    exact ⟨i, l, h1, by omega, h3⟩
  · rintro ⟨i, l, h1, h2, h3⟩
    exact ⟨(bodyStart f + i, e), ((parseAllRaw_top f src).2 _ _).mpr ⟨i, l, h1, rfl, h3⟩, by simp [h2]⟩

/-- line `i` (0-based) of the file, seen from the rawBody -/
theorem rawBody_get (f : Flags) (src : RawLines) (i : Nat) (h : f.csv = true → i ≠ 0) :
    ∃ k, i = bodyStart f + k ∧ (rawBody f src)[k]? = src[i]? := by
  cases hc : f.csv with
  | false => exact ⟨i, by simp [bodyStart, hc], by simp [rawBody, hc]⟩
  | true =>
    have := h hc
    refine ⟨i - 1, by simp [bodyStart, hc]; omega, ?_⟩
    simp only [rawBody, hc, if_true, List.getElem?_drop]
    congr 1; omega


/-- the text the loop sees for a line (an invalid CSV header, which is skipped unread, counts as empty) -/
def rawText (l : Option Text) : Text := l.getD []

theorem parseAllRaw_valid (f : Flags) : ∀ (ls : RawLines) (idx : Nat),
    (∀ k, ¬ (ls[k]? = some none ∧ (f.csv = true → idx + k ≠ 0))) →
    parseAllRaw f idx ls = parseAll f idx (ls.map rawText)
  | [], _, _ => by simp [parseAllRaw, parseAll]
  | l :: ls, idx, h => by
    have ih := parseAllRaw_valid f ls (idx + 1) (fun k c => h (k + 1) ⟨by simpa using c.1, fun hc => by have := c.2 hc; omega⟩)
    rw [parseAllRaw, List.map_cons, parseAll]
    by_cases hskip : (f.csv && idx == 0) = true
    · simp only [hskip, if_true]; exact ih
    · simp only [hskip, Bool.false_eq_true, if_false]
      cases l with
      | none =>
        exfalso
        apply h 0
        refine ⟨by simp, fun hc h0 => hskip ?_⟩
        simp only [Nat.add_zero] at h0
        simp [hc, h0]
      | some t =>
        simp only [parseRawLine, rawText, Option.getD_some, ih]

/-- if no line the loop reads is invalid, the byte-level run is the text-level run -/
theorem compileRaw_valid (f : Flags) (src : RawLines) (h : ∀ i, ¬ InvalidAt f src i) :
    compileRaw f src = compileRun f (src.map rawText) := by
  unfold compileRaw compileRun
  rw [parseAllRaw_valid f src 0 (fun k c => h k ⟨c.1, by simpa using c.2⟩)]

/-- an invalid line the loop reads is reported with its 1-based number, cause `invalidUtf8` -/
theorem invalid_reported (f : Flags) (src : RawLines) (i : Nat) (h : InvalidAt f src i) :
    (i + 1, LineErr.invalidUtf8) ∈ (compileRaw f src).reported := by
  obtain ⟨k, hk, hb⟩ := rawBody_get f src i h.2
  exact (mem_raw_reported f src (i + 1) _).mpr ⟨k, none, by rw [hb, h.1], by omega, rfl⟩

end Chewing.Cli
