import Chewing.Proofs.CliCompile
/-!
Source files as bytes: a line that is not valid UTF-8 (finding F45).  `run` stops at the first such line it
reads; if there is none the byte-level run is the text-level run all other theorems are about.
-/
namespace Chewing.Cli
open Chewing List

/-- line `i` is read with `line?` (it is not the skipped CSV header) and is not valid UTF-8 -/
def InvalidAt (f : Flags) (src : RawLines) (i : Nat) : Prop := src[i]? = some none ∧ (f.csv = true → i ≠ 0)

theorem firstInvalid_spec (f : Flags) : ∀ (ls : RawLines) (idx : Nat),
    (∀ i, firstInvalid f idx ls = some i ↔
      ∃ k, i = idx + k ∧ ls[k]? = some none ∧ (f.csv = true → i ≠ 0) ∧
        ∀ j < k, ¬ (ls[j]? = some none ∧ (f.csv = true → idx + j ≠ 0)))
  | [], idx => by simp [firstInvalid]
  | l :: ls, idx => by
    intro i
    have ih := firstInvalid_spec f ls (idx + 1) i
    unfold firstInvalid
    by_cases hskip : (f.csv && idx == 0) = true
    · have hc : f.csv = true ∧ idx = 0 := by simpa using hskip
      simp only [hskip, if_true]
      rw [ih]
      constructor
      · rintro ⟨k, rfl, h1, h2, h3⟩
        refine ⟨k + 1, by omega, by simpa using h1, h2, ?_⟩
        intro j hj
        cases j with
        | zero => intro c; exact c.2 hc.1 (by omega)
        | succ j =>
          have := h3 j (by omega)
          intro c; apply this
          exact ⟨by simpa using c.1, fun hh => by have := c.2 hh; omega⟩
      · rintro ⟨k, rfl, h1, h2, h3⟩
        cases k with
        | zero => exact absurd (by omega) (h2 hc.1)
        | succ k =>
          refine ⟨k, by omega, by simpa using h1, h2, ?_⟩
          intro j hj c
          apply h3 (j + 1) (by omega)
          exact ⟨by simpa using c.1, fun hh => by have := c.2 hh; omega⟩
    · simp only [hskip, Bool.false_eq_true, if_false]
      have hns : f.csv = true → idx ≠ 0 := by
        intro hc h0; apply hskip; simp [hc, h0]
      cases l with
      | none =>
        simp only [Option.some.injEq]
        constructor
        · rintro rfl
          exact ⟨0, rfl, by simp, hns, by intro j hj; omega⟩
        · rintro ⟨k, rfl, h1, h2, h3⟩
          cases k with
          | zero => rfl
          | succ k => exact absurd ⟨by simp, by simpa using hns⟩ (h3 0 (by omega))
      | some t =>
        simp only
        rw [ih]
        constructor
        · rintro ⟨k, rfl, h1, h2, h3⟩
          refine ⟨k + 1, by omega, by simpa using h1, h2, ?_⟩
          intro j hj
          cases j with
          | zero => intro c; simp at c
          | succ j =>
            have := h3 j (by omega)
            intro c; apply this
            exact ⟨by simpa using c.1, fun hh => by have := c.2 hh; omega⟩
        · rintro ⟨k, rfl, h1, h2, h3⟩
          cases k with
          | zero => simp at h1
          | succ k =>
            refine ⟨k, by omega, by simpa using h1, h2, ?_⟩
            intro j hj c
            apply h3 (j + 1) (by omega)
            exact ⟨by simpa using c.1, fun hh => by have := c.2 hh; omega⟩

/-- the run stops with the I/O error at line `i` iff `i` is the first invalid line it reads -/
theorem compileRaw_ioError_iff (f : Flags) (src : RawLines) (i : Nat) :
    compileRaw f src = .ioError i ↔ InvalidAt f src i ∧ ∀ j < i, ¬ InvalidAt f src j := by
  have h := firstInvalid_spec f src 0 i
  simp only [Nat.zero_add] at h
  unfold compileRaw
  constructor
  · intro hc
    cases hf : firstInvalid f 0 src with
    | none => rw [hf] at hc; cases hc
    | some k =>
      rw [hf] at hc
      cases hc
      obtain ⟨k, rfl, h1, h2, h3⟩ := h.mp hf
      exact ⟨⟨h1, h2⟩, fun j hj c => h3 j hj ⟨c.1, c.2⟩⟩
  · rintro ⟨⟨h1, h2⟩, h3⟩
    rw [h.mpr ⟨i, rfl, h1, h2, fun j hj c => h3 j hj ⟨c.1, c.2⟩⟩]

theorem firstInvalid_none (f : Flags) : ∀ (ls : RawLines) (idx : Nat), firstInvalid f idx ls = none →
    ∀ k, ¬ (ls[k]? = some none ∧ (f.csv = true → idx + k ≠ 0))
  | [], _, _, k => by simp
  | l :: ls, idx, h, k => by
    unfold firstInvalid at h
    by_cases hskip : (f.csv && idx == 0) = true
    · have hc : f.csv = true ∧ idx = 0 := by simpa using hskip
      simp only [hskip, if_true] at h
      cases k with
      | zero => intro c; exact c.2 hc.1 (by omega)
      | succ k =>
        intro c
        exact firstInvalid_none f ls (idx + 1) h k ⟨by simpa using c.1, fun hh => by have := c.2 hh; omega⟩
    · simp only [hskip, Bool.false_eq_true, if_false] at h
      cases l with
      | none => cases h
      | some t =>
        simp only at h
        cases k with
        | zero => intro c; simp at c
        | succ k =>
          intro c
          exact firstInvalid_none f ls (idx + 1) h k ⟨by simpa using c.1, fun hh => by have := c.2 hh; omega⟩

/-- the run gets through the file iff no line it reads is invalid; it is then the text-level run -/
theorem compileRaw_ran_iff (f : Flags) (src : RawLines) :
    (∃ r, compileRaw f src = .ran r) ↔ ∀ i, ¬ InvalidAt f src i := by
  unfold compileRaw
  cases hf : firstInvalid f 0 src with
  | some k =>
    obtain ⟨k', e, h1, h2, _⟩ := (firstInvalid_spec f src 0 k).mp hf
    simp only [Nat.zero_add] at e
    subst e
    constructor
    · rintro ⟨r, hr⟩; cases hr
    · intro h; exact absurd ⟨h1, h2⟩ (h k)
  | none =>
    constructor
    · intro _ i hi
      exact firstInvalid_none f src 0 hf i ⟨hi.1, by simpa using hi.2⟩
    · intro _; exact ⟨_, rfl⟩

theorem compileRaw_valid (f : Flags) (src : RawLines) (h : ∀ i, ¬ InvalidAt f src i) :
    compileRaw f src = .ran (compileRun f (src.map (·.getD []))) := by
  obtain ⟨r, hr⟩ := (compileRaw_ran_iff f src).mpr h
  unfold compileRaw at hr ⊢
  cases hf : firstInvalid f 0 src with
  | some k => rw [hf] at hr; cases hr
  | none => rfl

end Chewing.Cli
