import Chewing.Model.Cli
/-!
Order lemmas of the back-end models: insertion sort (`insSort`) is a sorted permutation and hence
depends only on the *set* of (distinct) keys; the visiting order `trieOrder` is a permutation and
idempotent; the stable leaf sort (`stableSort`) is a permutation and idempotent for every
asymmetric comparator (in particular `phraseLess`, which is not a total order on mixed leaves).
-/
namespace Chewing.Cli
open Chewing List

/-! ### insertion sort -/

theorem insertLe_perm {α : Type} (le : α → α → Bool) (x : α) : ∀ l : List α, insertLe le x l ~ x :: l
  | [] => Perm.refl _
  | y :: ys => by
    unfold insertLe
    by_cases h : le x y = true
    · simp [h]
    · simp only [h]
      exact ((insertLe_perm le x ys).cons y).trans (Perm.swap x y ys)

theorem insSort_perm {α : Type} (le : α → α → Bool) : ∀ l : List α, insSort le l ~ l
  | [] => Perm.refl _
  | x :: xs => by
    have ih := insSort_perm le xs
    show insertLe le x (insSort le xs) ~ x :: xs
    exact (insertLe_perm le x _).trans (ih.cons x)

theorem insertLe_pairwise {α : Type} {le : α → α → Bool}
    (tot : ∀ a b, le a b = true ∨ le b a = true) (tr : ∀ a b c, le a b = true → le b c = true → le a c = true)
    (x : α) : ∀ l : List α, l.Pairwise (fun a b => le a b = true) →
      (insertLe le x l).Pairwise (fun a b => le a b = true)
  | [], _ => by simp [insertLe]
  | y :: ys, h => by
    unfold insertLe
    have hy := List.pairwise_cons.mp h
    by_cases hxy : le x y = true
    · simp only [hxy, if_true]
      refine List.pairwise_cons.mpr ⟨?_, h⟩
      intro z hz
      rcases List.mem_cons.mp hz with rfl | hz
      · exact hxy
      · exact tr _ _ _ hxy (hy.1 z hz)
    · simp only [hxy]
      refine List.pairwise_cons.mpr ⟨?_, insertLe_pairwise tot tr x ys hy.2⟩
      intro z hz
      have := (insertLe_perm le x ys).mem_iff.mp hz
      rcases List.mem_cons.mp this with rfl | hz
      · rcases tot z y with h1 | h1
        · exact absurd h1 hxy
        · exact h1
      · exact hy.1 z hz

theorem insSort_pairwise {α : Type} {le : α → α → Bool}
    (tot : ∀ a b, le a b = true ∨ le b a = true) (tr : ∀ a b c, le a b = true → le b c = true → le a c = true) :
    ∀ l : List α, (insSort le l).Pairwise (fun a b => le a b = true)
  | [] => by simp [insSort]
  | x :: xs => by
    show (insertLe le x (insSort le xs)).Pairwise _
    exact insertLe_pairwise tot tr x _ (insSort_pairwise tot tr xs)

/-- sorting is determined by the multiset when the order is antisymmetric on it -/
theorem insSort_congr {α : Type} {le : α → α → Bool}
    (tot : ∀ a b, le a b = true ∨ le b a = true) (tr : ∀ a b c, le a b = true → le b c = true → le a c = true)
    {l₁ l₂ : List α} (anti : ∀ a b, a ∈ l₁ → b ∈ l₁ → le a b = true → le b a = true → a = b)
    (p : l₁ ~ l₂) : insSort le l₁ = insSort le l₂ := by
  apply Perm.eq_of_pairwise (le := fun a b => le a b = true)
  · intro a b ha hb
    exact anti a b ((insSort_perm le l₁).mem_iff.mp ha) (p.mem_iff.mpr ((insSort_perm le l₂).mem_iff.mp hb))
  · exact insSort_pairwise tot tr l₁
  · exact insSort_pairwise tot tr l₂
  · exact (insSort_perm le l₁).trans (p.trans (insSort_perm le l₂).symm)

/-- a sorted list is left alone -/
theorem insSort_of_pairwise {α : Type} {le : α → α → Bool} :
    ∀ {l : List α}, l.Pairwise (fun a b => le a b = true) → insSort le l = l
  | [], _ => rfl
  | x :: xs, h => by
    have hx := List.pairwise_cons.mp h
    show insertLe le x (insSort le xs) = x :: xs
    rw [insSort_of_pairwise hx.2]
    cases xs with
    | nil => rfl
    | cons y ys => simp [insertLe, hx.1 y (List.mem_cons_self)]

/-! ### the key order -/

theorem keyLe_total : ∀ a b : Key, keyLe a b = true ∨ keyLe b a = true
  | [], _ => Or.inl (by simp [keyLe])
  | _ :: _, [] => Or.inr (by simp [keyLe])
  | a :: as, b :: bs => by
    simp only [keyLe, Bool.or_eq_true, Bool.and_eq_true, decide_eq_true_eq, beq_iff_eq]
    rcases Nat.lt_trichotomy a b with h | h | h
    · exact Or.inl (Or.inl h)
    · subst h
      rcases keyLe_total as bs with h | h
      · exact Or.inl (Or.inr ⟨rfl, h⟩)
      · exact Or.inr (Or.inr ⟨rfl, h⟩)
    · exact Or.inr (Or.inl h)

theorem keyLe_antisymm : ∀ a b : Key, keyLe a b = true → keyLe b a = true → a = b
  | [], [], _, _ => rfl
  | [], _ :: _, _, h => by simp [keyLe] at h
  | _ :: _, [], h, _ => by simp [keyLe] at h
  | a :: as, b :: bs, h1, h2 => by
    simp only [keyLe, Bool.or_eq_true, Bool.and_eq_true, decide_eq_true_eq, beq_iff_eq] at h1 h2
    rcases h1 with h1 | ⟨e, h1⟩
    · rcases h2 with h2 | ⟨e2, _⟩ <;> omega
    · subst e
      rcases h2 with h2 | ⟨_, h2⟩
      · omega
      · rw [keyLe_antisymm as bs h1 h2]

theorem keyLe_trans : ∀ a b c : Key, keyLe a b = true → keyLe b c = true → keyLe a c = true
  | [], _, _, _, _ => by simp [keyLe]
  | _ :: _, [], _, h, _ => by simp [keyLe] at h
  | _ :: _, _ :: _, [], _, h => by simp [keyLe] at h
  | a :: as, b :: bs, c :: cs, h1, h2 => by
    simp only [keyLe, Bool.or_eq_true, Bool.and_eq_true, decide_eq_true_eq, beq_iff_eq] at h1 h2 ⊢
    rcases h1 with h1 | ⟨e1, h1⟩
    · rcases h2 with h2 | ⟨e2, _⟩
      · exact Or.inl (by omega)
      · exact Or.inl (by omega)
    · subst e1
      rcases h2 with h2 | ⟨e2, h2⟩
      · exact Or.inl h2
      · exact Or.inr ⟨e2, keyLe_trans as bs cs h1 h2⟩

theorem sortKeys_congr {k₁ k₂ : List Key} (p : k₁ ~ k₂) : insSort keyLe k₁ = insSort keyLe k₂ :=
  insSort_congr keyLe_total keyLe_trans (fun a b _ _ => keyLe_antisymm a b) p

/-! ### the visiting order -/

theorem runs_flatten : ∀ l : List Key, (runs l).flatten = l
  | [] => rfl
  | x :: xs => by
    have ih := runs_flatten xs
    unfold runs
    split
    · rename_i y ys rs hr
      rw [hr] at ih
      split
      · simpa using ih
      · simpa using ih
    · rename_i rs hr
      simp [ih]

theorem flatMap_reverse_perm : ∀ ls : List (List Key), ls.flatMap List.reverse ~ ls.flatten
  | [] => Perm.refl _
  | l :: ls => by
    simp only [List.flatMap_cons, List.flatten_cons]
    exact (List.reverse_perm l).append (flatMap_reverse_perm ls)

theorem trieOrder_perm (ks : List Key) : trieOrder ks ~ ks := by
  unfold trieOrder
  refine (flatMap_reverse_perm _).trans ?_
  rw [runs_flatten]
  exact insSort_perm keyLe ks

/-- the visiting order depends only on the set of keys -/
theorem trieOrder_congr {k₁ k₂ : List Key} (p : k₁ ~ k₂) : trieOrder k₁ = trieOrder k₂ := by
  unfold trieOrder
  rw [sortKeys_congr p]

theorem trieOrder_idem (ks : List Key) : trieOrder (trieOrder ks) = trieOrder ks :=
  trieOrder_congr (trieOrder_perm ks)

/-! ### the stable leaf sort -/

/-- no adjacent inversion, on the reversed list -/
def AdjOK {α : Type} (lt : α → α → Bool) : List α → Prop
  | [] => True
  | [_] => True
  | a :: b :: rest => lt a b = false ∧ AdjOK lt (b :: rest)

theorem insertRev_perm {α : Type} (lt : α → α → Bool) (x : α) : ∀ l : List α, insertRev lt x l ~ x :: l
  | [] => Perm.refl _
  | y :: ys => by
    unfold insertRev
    by_cases h : lt x y = true
    · simp only [h, if_true]
      exact ((insertRev_perm lt x ys).cons y).trans (Perm.swap x y ys)
    · simp [h]

theorem foldl_insertRev_perm {α : Type} (lt : α → α → Bool) :
    ∀ (l acc : List α), l.foldl (fun rev x => insertRev lt x rev) acc ~ l ++ acc
  | [], acc => by simp
  | x :: xs, acc => by
    simp only [List.foldl_cons]
    refine (foldl_insertRev_perm lt xs _).trans ?_
    refine ((insertRev_perm lt x acc).append_left xs).trans ?_
    simpa using (List.perm_middle (a := x) (l₁ := xs) (l₂ := acc))

theorem stableSort_perm {α : Type} (lt : α → α → Bool) (l : List α) : stableSort lt l ~ l := by
  unfold stableSort
  refine (List.reverse_perm _).trans ?_
  simpa using foldl_insertRev_perm lt l []

theorem insertRev_adjOK {α : Type} {lt : α → α → Bool} (asym : ∀ a b, lt a b = true → lt b a = false)
    (x : α) : ∀ l : List α, AdjOK lt l → AdjOK lt (insertRev lt x l)
  | [], _ => by simp [insertRev, AdjOK]
  | [y], _ => by
    unfold insertRev
    by_cases h : lt x y = true
    · simp [h, insertRev, AdjOK, asym x y h]
    · simp [h, AdjOK]
  | y :: z :: rest, h => by
    have ih := insertRev_adjOK asym x (z :: rest) h.2
    unfold insertRev
    by_cases hxy : lt x y = true
    · simp only [hxy, if_true]
      unfold insertRev at ih ⊢
      by_cases hxz : lt x z = true
      · simp only [hxz, if_true] at ih ⊢
        exact ⟨h.1, ih⟩
      · simp only [hxz] at ih ⊢
        exact ⟨asym x y hxy, ih⟩
    · simp only [hxy]
      exact ⟨by simpa using hxy, h⟩

theorem foldl_insertRev_adjOK {α : Type} {lt : α → α → Bool} (asym : ∀ a b, lt a b = true → lt b a = false) :
    ∀ (l acc : List α), AdjOK lt acc → AdjOK lt (l.foldl (fun rev x => insertRev lt x rev) acc)
  | [], _, h => h
  | x :: xs, acc, h => foldl_insertRev_adjOK asym xs _ (insertRev_adjOK asym x acc h)

/-- sorting the real order of a list without adjacent inversions gives it back -/
theorem foldl_insertRev_of_adjOK {α : Type} (lt : α → α → Bool) :
    ∀ rev : List α, AdjOK lt rev → rev.reverse.foldl (fun r x => insertRev lt x r) [] = rev
  | [], _ => rfl
  | [x], _ => rfl
  | x :: y :: rest, h => by
    have ih := foldl_insertRev_of_adjOK lt (y :: rest) h.2
    rw [List.reverse_cons, List.foldl_append, ih]
    simp [insertRev, h.1]

/-- the stable sort is idempotent for every asymmetric comparator -/
theorem stableSort_idem {α : Type} {lt : α → α → Bool} (asym : ∀ a b, lt a b = true → lt b a = false)
    (l : List α) : stableSort lt (stableSort lt l) = stableSort lt l := by
  unfold stableSort
  have h := foldl_insertRev_adjOK asym l [] trivial
  rw [foldl_insertRev_of_adjOK lt _ h]

theorem textLt_asymm : ∀ a b : Text, textLt a b = true → textLt b a = false
  | _, [], h => by simp [textLt] at h
  | [], _ :: _, _ => by simp [textLt]
  | a :: as, b :: bs, h => by
    simp only [textLt, Bool.or_eq_true, Bool.and_eq_true, decide_eq_true_eq, beq_iff_eq] at h
    simp only [textLt, Bool.or_eq_false_iff, Bool.and_eq_false_iff, decide_eq_false_iff_not]
    rcases h with h | ⟨e, h⟩
    · exact ⟨by omega, Or.inl (by simp; omega)⟩
    · subst e
      exact ⟨by omega, Or.inr (textLt_asymm as bs h)⟩

theorem phraseLessM_asymm (mode : Nat) (a b : PF) (h : phraseLessM mode a b = true) : phraseLessM mode b a = false := by
  unfold phraseLessM at h ⊢
  by_cases h11 : (a.1.length == 1 && b.1.length == 1) = true
  · simp [h11] at h
  · have h11' : (b.1.length == 1 && a.1.length == 1) = false := by
      rw [Bool.and_comm]; simpa using h11
    simp only [h11, h11'] at h ⊢
    by_cases h1 : (a.1.length == 1 || b.1.length == 1) = true
    · have h1' : (b.1.length == 1 || a.1.length == 1) = true := by rw [Bool.or_comm]; exact h1
      simp only [h1, h1', if_true] at h ⊢
      by_cases hm : (mode == 0) = true
      · simp only [hm, if_true] at h ⊢
        simp at h ⊢; omega
      · simp only [hm] at h ⊢
        simp at h h11 ⊢
        intro hb; exact h11 h hb
    · have h1' : (b.1.length == 1 || a.1.length == 1) = false := by
        rw [Bool.or_comm]; simpa using h1
      simp only [h1, h1'] at h ⊢
      by_cases hf : (a.2 == b.2) = true
      · have hf' : (b.2 == a.2) = true := by simp at hf ⊢; omega
        simp only [hf, hf', if_true] at h ⊢
        exact textLt_asymm _ _ h
      · have hf' : (b.2 == a.2) = false := by simp at hf ⊢; omega
        simp only [hf, hf'] at h ⊢
        simp at h ⊢; omega

/-- whichever of the two arms the source has, the comparator is asymmetric (all the proofs need) -/
theorem phraseLess_asymm (a b : PF) (h : phraseLess a b = true) : phraseLess b a = false :=
  phraseLessM_asymm Gen.trieMixedCmp a b h

theorem phraseSort_idem (ps : List PF) : phraseSort (phraseSort ps) = phraseSort ps :=
  stableSort_idem phraseLess_asymm ps

theorem phraseSort_perm (ps : List PF) : phraseSort ps ~ ps := stableSort_perm phraseLess ps

end Chewing.Cli
