import Chewing.Proofs.CliCompile
import Chewing.Props.C13
/-!
From the source text to the hypotheses of the round trip:
* whatever `parse_line` accepts has a `u32` frequency, a phrase without quotes at either end, and —
  if the line does not contain the first-tone mark (F18) — syllables that spell and parse back (C13);
* the lines `dump` writes survive `writeln!` / `BufRead::lines`.
-/
namespace Chewing.Cli
open Chewing Gen List

/-! ### characters of fields -/

theorem mem_of_mem_fields {sep : Nat → Bool} : ∀ {s : Text} {f : Text} {c : Nat}, f ∈ fields sep s → c ∈ f → c ∈ s
  | [], f, c, hf, hc => by
    simp [fields] at hf; subst hf; cases hc
  | x :: xs, f, c, hf, hc => by
    unfold fields at hf
    by_cases hx : sep x = true
    · simp only [hx, if_true, List.mem_cons] at hf
      rcases hf with rfl | hf
      · cases hc
      · exact List.mem_cons_of_mem _ (mem_of_mem_fields hf hc)
    · cases hfs : fields sep xs with
      | nil => exact absurd hfs (fields_ne_nil sep xs)
      | cons g gs =>
        simp only [hx, hfs] at hf
        rcases List.mem_cons.mp hf with hf | hf
        · subst hf
          rcases List.mem_cons.mp hc with hc | hc
          · subst hc; exact List.mem_cons_self
          · exact List.mem_cons_of_mem _ (mem_of_mem_fields (by rw [hfs]; exact List.mem_cons_self) hc)
        · exact List.mem_cons_of_mem _ (mem_of_mem_fields (by rw [hfs]; exact List.mem_cons_of_mem _ hf) hc)

theorem mem_of_mem_tokens {sep : Nat → Bool} {s t : Text} {c : Nat} (ht : t ∈ tokens sep s) (hc : c ∈ t) : c ∈ s :=
  mem_of_mem_fields (List.mem_filter.mp ht).1 hc

theorem mem_of_mem_trimQ {t : Text} {c : Nat} (h : c ∈ trimQ t) : c ∈ t := by
  unfold trimQ at h
  have h1 := List.mem_reverse.mp h
  have h2 := (List.dropWhile_sublist _).subset h1
  have h3 := List.mem_reverse.mp h2
  exact (List.dropWhile_sublist _).subset h3

theorem dropWhile_head_not {p : Nat → Bool} : ∀ {l : Text} {x : Nat}, (l.dropWhile p).head? = some x → p x = false
  | [], _, h => by simp at h
  | c :: cs, x, h => by
    by_cases hc : p c = true
    · simp only [List.dropWhile, hc] at h
      exact dropWhile_head_not h
    · simp only [List.dropWhile, hc] at h
      simp at h; subst h
      simpa using hc

theorem dropWhile_getLast {p : Nat → Bool} : ∀ {l : Text} {x : Nat},
    (l.dropWhile p).getLast? = some x → l.getLast? = some x
  | [], _, h => by simp at h
  | c :: cs, x, h => by
    by_cases hc : p c = true
    · simp only [List.dropWhile, hc] at h
      have ih := dropWhile_getLast h
      cases cs with
      | nil => simp at ih
      | cons d ds => simpa using ih
    · simpa [List.dropWhile, hc] using h

/-- what `trim_matches('"')` returns has no quote at either end -/
theorem trimQ_ends (t : Text) : (trimQ t).head? ≠ some cliQuote ∧ (trimQ t).getLast? ≠ some cliQuote := by
  unfold trimQ
  constructor
  · intro h
    rw [List.head?_reverse] at h
    have h1 := dropWhile_getLast h
    rw [List.getLast?_reverse] at h1
    have := dropWhile_head_not h1
    simp at this
  · intro h
    rw [List.getLast?_reverse] at h
    have := dropWhile_head_not h
    simp at this

/-! ### what the parser accepts -/

theorem parseU32_lt {s : Text} {n : Nat} (h : parseU32 s = some n) : n < 4294967296 := by
  unfold parseU32 at h
  simp only at h
  generalize (if (s.head? == some 43) = true then s.tail else s) = ds at h
  by_cases h1 : ds.isEmpty = true
  · simp [h1] at h
  · by_cases h2 : ds.all isDigit = true
    · by_cases h3 : digitsVal ds < 4294967296
      · simp only [h1, h2, h3, if_true] at h
        simp at h
        omega
      · simp [h1, h2, h3] at h
    · simp [h1, h2] at h

theorem parseFreq_lt {keep : Bool} {p : Text} {fs : List Text} {n : Nat} (h : parseFreq keep p fs = .ok n) :
    n < 4294967296 := by
  unfold parseFreq at h
  split at h
  · cases h
  · split at h
    · rename_i m hm
      have hlt := parseU32_lt hm
      have := Except.ok.inj h
      subst this
      split <;> omega
    · cases h

/-- every syllable the parser produces from a field without the first-tone mark spells and parses
    back (C13 `spell_parse`) -/
theorem parsed_sylOK {s : List Nat} {v : Nat} (hp : Chewing.parse s = .ok v) (hne : s ≠ [])
    (hno : ∀ c ∈ s, c ≠ 713) : sylOK v = true := by
  obtain ⟨hc, hs⟩ := C13.spell_parse hp hno
  simp [sylOK, hs, hp, hne]

theorem parseSyls_sylOK : ∀ (ts : List Text) (syls : List Nat), parseSyls ts = .ok syls →
    (∀ t ∈ ts, ∀ c ∈ t, c ≠ 713) → ∀ v ∈ syls, sylOK v = true
  | [], syls, h, _ => by
    simp [parseSyls] at h; subst h; simp
  | t :: ts, syls, h, hno => by
    unfold parseSyls at h
    simp only at h
    split at h
    · exact parseSyls_sylOK ts syls h (fun t' ht' => hno t' (List.mem_cons_of_mem _ ht'))
    · rename_i hemp
      split at h
      · cases h; simp
      · split at h
        · cases h
        · cases h
        · rename_i v hv
          split at h
          · rename_i vs hvs
            cases h
            intro x hx
            rcases List.mem_cons.mp hx with rfl | hx
            · apply parsed_sylOK hv
              · intro e; rw [e] at hemp; exact hemp rfl
              · intro c hc
                exact hno t (List.mem_cons_self) c (mem_of_mem_trimQ hc)
            · exact parseSyls_sylOK ts vs hvs (fun t' ht' => hno t' (List.mem_cons_of_mem _ ht')) x hx
          · cases h

/-- **whatever `parse_line` accepts from a line without the first-tone mark is a well-formed record**
    (since the fixes of F27 the parser itself checks that the phrase is not empty and contains no comma /
    whitespace, that there is a syllable, and one syllable per character) -/
theorem parsed_wellFormed {d : Nat} {keep : Bool} {l : Text} {r : Rec} (h : parseLine d keep l = .ok r)
    (hno : ∀ c ∈ l, c ≠ 713) : WellFormedRecord r := by
  obtain ⟨f0, fs, n, syls, _, hne, hsep, hf, hs, hsne, hlen, rfl⟩ := parseLine_ok_iff.mp h
  have hso := parseSyls_sylOK _ _ hs (fun t ht c hc =>
    hno c (mem_of_mem_tokens (List.mem_of_mem_drop ht) hc))
  have he := trimQ_ends f0
  apply wellFormed_iff.mpr
  refine ⟨⟨hne, he.1, he.2, hsep⟩, parseFreq_lt hf, ?_, hsne, hlen⟩
  intro c hc
  have := hso c hc
  simpa [sylOK] using this

/-! ### the dump as a file -/

theorem readLines_go_line : ∀ (l : Text) (acc rest : Text), (∀ c ∈ l, c ≠ 10) →
    readLines.go (l ++ 10 :: rest) acc = finishLine (l.reverse ++ acc) :: readLines.go rest []
  | [], acc, rest, _ => by
    simp only [List.nil_append, List.reverse_nil]
    rw [readLines.go]
    simp
  | c :: l, acc, rest, h => by
    have hc : c ≠ 10 := h c (List.mem_cons_self)
    have ih := readLines_go_line l (c :: acc) rest (fun x hx => h x (List.mem_cons_of_mem _ hx))
    rw [List.cons_append, readLines.go]
    simp only [beq_iff_eq, hc, if_false]
    rw [ih]
    simp

/-- `BufRead::lines` gives back the lines `writeln!` wrote, if no line contains a line feed or ends in a
    carriage return -/
theorem readLines_writeLines : ∀ (ls : List Text), (∀ l ∈ ls, (∀ c ∈ l, c ≠ 10) ∧ l.getLast? ≠ some 13) →
    readLines (writeLines ls) = ls
  | [], _ => by simp [readLines, writeLines, readLines.go]
  | l :: ls, h => by
    have hl := h l (List.mem_cons_self)
    have ih := readLines_writeLines ls (fun x hx => h x (List.mem_cons_of_mem _ hx))
    have hw : writeLines (l :: ls) = l ++ 10 :: writeLines ls := by simp [writeLines]
    unfold readLines at ih ⊢
    rw [hw, readLines_go_line l [] _ hl.1, ih]
    congr 1
    simp only [List.append_nil]
    have : l.reverse.head? ≠ some 13 := by rw [List.head?_reverse]; exact hl.2
    unfold finishLine
    cases hr : l.reverse with
    | nil => simp [List.reverse_eq_nil_iff.mp hr]
    | cons a as =>
      rw [hr] at this
      have ha : a ≠ 13 := fun e => this (by simp [e])
      have hl' : l = (a :: as).reverse := by rw [← hr, List.reverse_reverse]
      split
      · rename_i acc' heq
        cases heq
        exact absurd rfl ha
      · rw [hl']

theorem mem_joinWith {g : Text} : ∀ {ts : List Text} {c : Nat}, c ∈ joinWith g ts → c ∈ g ∨ ∃ t ∈ ts, c ∈ t
  | [], c, h => by simp [joinWith] at h
  | [t], c, h => by
    simp only [joinWith] at h
    exact Or.inr ⟨t, List.mem_cons_self, h⟩
  | t :: t' :: rest, c, h => by
    simp only [joinWith, List.mem_append] at h
    rcases h with (h | h) | h
    · exact Or.inr ⟨t, List.mem_cons_self, h⟩
    · exact Or.inl h
    · rcases mem_joinWith h with h | ⟨x, hx, hc⟩
      · exact Or.inl h
      · exact Or.inr ⟨x, List.mem_cons_of_mem _ hx, hc⟩

theorem not_sep_not_eol {c : Nat} (h : sylSep c = false) : c ≠ 10 ∧ c ≠ 13 := by
  constructor <;> (intro e; subst e; revert h; decide)

/-- no dumped line contains a line feed or a carriage return -/
theorem dump_line_chars {r : Rec} (h : WellFormedRecord r) :
    (∀ c ∈ dumpLine r, c ≠ 10 ∧ c ≠ 13) ∧ (∀ c ∈ dumpCsvLine r, c ≠ 10 ∧ c ≠ 13) := by
  obtain ⟨⟨_, _, _, psep⟩, hf, hs, _, _⟩ := wellFormed_iff.mp h
  obtain ⟨_, dd, _⟩ := decimal_spec hf
  have hsyl : ∀ c ∈ r.syls, sylOK c = true := by
    intro c hc
    have := hs c hc
    simp [sylOK, this.1, this.2]
  have hj : ∀ (g : Text), (∀ c ∈ g, c ≠ 10 ∧ c ≠ 13) → ∀ c ∈ joinWith g (r.syls.map spell), c ≠ 10 ∧ c ≠ 13 := by
    intro g hg c hc
    rcases mem_joinWith hc with hc | ⟨t, ht, hc⟩
    · exact hg c hc
    · obtain ⟨v, hv, rfl⟩ := List.mem_map.mp ht
      exact not_sep_not_eol ((spell_plain (hsyl v hv)).2.2 c hc).1
  have hd : ∀ c ∈ decimal r.freq, c ≠ 10 ∧ c ≠ 13 := fun c hc => not_sep_not_eol (isDigit_not_sep (dd c hc)).1
  have hp : ∀ c ∈ r.phrase, c ≠ 10 ∧ c ≠ 13 := fun c hc => not_sep_not_eol (psep c hc)
  constructor
  · intro c hc
    simp only [dumpLine, dumpSsvSep1, dumpSsvSep2, List.mem_append] at hc
    rcases hc with (((hc | hc) | hc) | hc) | hc
    · exact hp c hc
    · simp at hc; subst hc; decide
    · exact hd c hc
    · simp at hc; subst hc; decide
    · exact hj dumpSsvJoin (by decide) c hc
  · intro c hc
    simp only [dumpCsvLine, dumpCsvSep1, dumpCsvSep2, List.mem_append] at hc
    rcases hc with (((hc | hc) | hc) | hc) | hc
    · exact hp c hc
    · simp at hc; subst hc; decide
    · exact hd c hc
    · simp at hc; subst hc; decide
    · exact hj dumpCsvJoin (by decide) c hc

/-- **the dump written to a file and read back line by line is the dump** -/
theorem dump_file_roundtrip (csv : Bool) (es : List Rec) (h : ∀ r ∈ es, WellFormedRecord r) :
    readLines (writeLines (dump csv es)) = dump csv es := by
  apply readLines_writeLines
  intro l hl
  have key : ∀ c ∈ l, c ≠ 10 ∧ c ≠ 13 := by
    cases csv with
    | false =>
      simp only [dump, Bool.false_eq_true, if_false, List.mem_map] at hl
      obtain ⟨r, hr, rfl⟩ := hl
      exact (dump_line_chars (h r hr)).1
    | true =>
      simp only [dump, if_true, List.mem_cons, List.mem_map] at hl
      rcases hl with rfl | ⟨r, hr, rfl⟩
      · decide
      · exact (dump_line_chars (h r hr)).2
  exact ⟨fun c hc => (key c hc).1, fun e => (key 13 (List.mem_of_mem_getLast? e)).2 rfl⟩

end Chewing.Cli
