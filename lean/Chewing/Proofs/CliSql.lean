import Chewing.Proofs.CliTrie
/-!
The SQLite back end at the level of rows: the table holds the last record of every
(syllables, phrase) pair; `entries()` (primary-key order) survives dump + recompile unchanged.
The hidden `sort_id` column does not (finding F34): see `Props/C20.lean`.
-/
namespace Chewing.Cli
open Chewing List

def rowRec (r : Row) : Rec := { phrase := r.phrase, freq := r.freq, syls := r.key }

/-- same primary key -/
def SameKP (a b : Row) : Prop := a.key = b.key ∧ a.phrase = b.phrase

/-- the primary key is unique -/
def SqlInv (rows : List Row) : Prop := rows.Pairwise (fun a b => ¬ SameKP a b)

instance (a b : Row) : Decidable (SameKP a b) := by unfold SameKP; infer_instance

/-! ### `INSERT OR REPLACE` -/

theorem sqlUpsert_new : ∀ (rows : List Row) (r : Row), (∀ q ∈ rows, ¬ SameKP q r) → sqlUpsert rows r = rows ++ [r]
  | [], _, _ => rfl
  | q :: rest, r, h => by
    have hq : ¬ (q.key = r.key ∧ q.phrase = r.phrase) := h q (List.mem_cons_self)
    simp [sqlUpsert, hq, sqlUpsert_new rest r (fun x hx => h x (List.mem_cons_of_mem _ hx))]

theorem mem_sqlUpsert : ∀ {rows : List Row} {r x : Row}, SqlInv rows →
    (x ∈ sqlUpsert rows r ↔ x = r ∨ (x ∈ rows ∧ ¬ SameKP x r))
  | [], r, x, _ => by simp [sqlUpsert]
  | q :: rest, r, x, hinv => by
    have hc := List.pairwise_cons.mp hinv
    unfold sqlUpsert
    by_cases hq : q.key = r.key ∧ q.phrase = r.phrase
    · simp only [hq, and_self, if_true, List.mem_cons]
      constructor
      · rintro (h | h)
        · exact Or.inl h
        · refine Or.inr ⟨Or.inr h, ?_⟩
          intro c
          exact hc.1 x h ⟨hq.1.trans c.1.symm, hq.2.trans c.2.symm⟩
      · rintro (h | ⟨h | h, hne⟩)
        · exact Or.inl h
        · exact absurd (h ▸ hq) hne
        · exact Or.inr h
    · simp only [hq, if_false]
      rw [List.mem_cons, List.mem_cons, mem_sqlUpsert (rows := rest) (r := r) (x := x) hc.2]
      constructor
      · rintro (h | h | ⟨h, hne⟩)
        · exact Or.inr ⟨Or.inl h, h ▸ hq⟩
        · exact Or.inl h
        · exact Or.inr ⟨Or.inr h, hne⟩
      · rintro (h | ⟨h | h, hne⟩)
        · exact Or.inr (Or.inl h)
        · exact Or.inl h
        · exact Or.inr (Or.inr ⟨h, hne⟩)

theorem sqlUpsert_inv : ∀ {rows : List Row} (r : Row), SqlInv rows → SqlInv (sqlUpsert rows r)
  | [], r, _ => by simp [sqlUpsert, SqlInv]
  | q :: rest, r, hinv => by
    have hc := List.pairwise_cons.mp hinv
    unfold sqlUpsert
    by_cases hq : q.key = r.key ∧ q.phrase = r.phrase
    · simp only [hq, and_self, if_true]
      refine List.pairwise_cons.mpr ⟨?_, hc.2⟩
      intro x hx c
      exact hc.1 x hx ⟨hq.1.trans c.1, hq.2.trans c.2⟩
    · simp only [hq, if_false]
      refine List.pairwise_cons.mpr ⟨?_, sqlUpsert_inv r hc.2⟩
      intro x hx
      rcases (mem_sqlUpsert hc.2).mp hx with rfl | ⟨hx, _⟩
      · exact hq
      · exact hc.1 x hx

/-- the row `sqlInsert` writes -/
def newRow (m : SqlM) (r : Rec) : Row :=
  { key := r.syls, phrase := r.phrase, freq := r.freq,
    sortId := if r.syls.length == 1 then m.sortId + 1 else 0 }

theorem sqlInsert_rows (m : SqlM) (r : Rec) : (sqlInsert m r).rows = sqlUpsert m.rows (newRow m r) := by
  unfold sqlInsert newRow
  by_cases h : (r.syls.length == 1) = true <;> simp [h]

theorem rowRec_newRow (m : SqlM) (r : Rec) : rowRec (newRow m r) = r := rfl

theorem foldl_sqlInsert_inv : ∀ (rs : List Rec) {m : SqlM}, SqlInv m.rows → SqlInv (rs.foldl sqlInsert m).rows
  | [], _, h => h
  | r :: rs, m, h => foldl_sqlInsert_inv rs (by rw [sqlInsert_rows]; exact sqlUpsert_inv _ h)

theorem sqlBuild_inv (rs : List Rec) : SqlInv (sqlBuild rs).rows :=
  foldl_sqlInsert_inv rs (by simp [SqlInv])

/-! ### contents -/

def SameRec (a b : Rec) : Prop := a.syls = b.syls ∧ a.phrase = b.phrase

theorem mem_recs_sqlInsert {m : SqlM} {r x : Rec} (hinv : SqlInv m.rows) :
    x ∈ (sqlInsert m r).rows.map rowRec ↔ x = r ∨ (x ∈ m.rows.map rowRec ∧ ¬ SameRec x r) := by
  rw [sqlInsert_rows]
  simp only [List.mem_map, mem_sqlUpsert hinv]
  constructor
  · rintro ⟨row, (rfl | ⟨h, hne⟩), rfl⟩
    · exact Or.inl rfl
    · exact Or.inr ⟨⟨row, h, rfl⟩, hne⟩
  · rintro (rfl | ⟨⟨row, h, rfl⟩, hne⟩)
    · exact ⟨newRow m x, Or.inl rfl, rfl⟩
    · exact ⟨row, Or.inr ⟨h, hne⟩, rfl⟩

theorem mem_sqlBuild (rs : List Rec) (x : Rec) : x ∈ (sqlBuild rs).rows.map rowRec ↔ LastWins rs x := by
  revert x
  induction rs using list_rev_ind with
  | nil => intro x; simp [sqlBuild, LastWins]
  | snoc rs r ih =>
    intro x
    have hb : sqlBuild (rs ++ [r]) = sqlInsert (sqlBuild rs) r := by simp [sqlBuild, List.foldl_append]
    rw [hb, mem_recs_sqlInsert (sqlBuild_inv rs), lastWins_snoc, ih]
    constructor
    · rintro (h | ⟨h, hne⟩)
      · exact Or.inl h
      · exact Or.inr ⟨h, fun c => hne ⟨c.1.symm, c.2.symm⟩⟩
    · rintro (h | ⟨h, hne⟩)
      · exact Or.inl h
      · exact Or.inr ⟨h, fun c => hne ⟨c.1.symm, c.2.symm⟩⟩

theorem sqlEntries_eq (m : SqlM) : sqlEntries m = (insSort rowLe m.rows).map rowRec := rfl

/-- **the dump of a compiled SQLite file lists exactly the last record of every (syllables, phrase)** -/
theorem mem_sql_entries_iff (rs : List Rec) (x : Rec) : x ∈ sqlEntries (sqlBuild rs) ↔ LastWins rs x := by
  rw [sqlEntries_eq, ← mem_sqlBuild]
  exact ((insSort_perm rowLe _).map rowRec).mem_iff

/-! ### the primary-key order -/

theorem textLt_irrefl : ∀ a : Text, textLt a a = false
  | [] => rfl
  | a :: as => by simp [textLt, textLt_irrefl as]

theorem textLt_tri : ∀ a b : Text, textLt a b = true ∨ a = b ∨ textLt b a = true
  | [], [] => Or.inr (Or.inl rfl)
  | [], _ :: _ => Or.inl rfl
  | _ :: _, [] => Or.inr (Or.inr rfl)
  | a :: as, b :: bs => by
    simp only [textLt, Bool.or_eq_true, Bool.and_eq_true, decide_eq_true_eq, beq_iff_eq, List.cons.injEq]
    rcases Nat.lt_trichotomy a b with h | h | h
    · exact Or.inl (Or.inl h)
    · subst h
      rcases textLt_tri as bs with h | h | h
      · exact Or.inl (Or.inr ⟨rfl, h⟩)
      · exact Or.inr (Or.inl ⟨rfl, h⟩)
      · exact Or.inr (Or.inr (Or.inr ⟨rfl, h⟩))
    · exact Or.inr (Or.inr (Or.inl h))

theorem textLt_trans : ∀ a b c : Text, textLt a b = true → textLt b c = true → textLt a c = true
  | _, _, [], _, h => by simp [textLt] at h
  | _, [], _ :: _, h, _ => by simp [textLt] at h
  | [], _ :: _, _ :: _, _, _ => rfl
  | a :: as, b :: bs, c :: cs, h1, h2 => by
    simp only [textLt, Bool.or_eq_true, Bool.and_eq_true, decide_eq_true_eq, beq_iff_eq] at h1 h2 ⊢
    rcases h1 with h1 | ⟨e1, h1⟩
    · rcases h2 with h2 | ⟨e2, _⟩
      · exact Or.inl (by omega)
      · exact Or.inl (by omega)
    · subst e1
      rcases h2 with h2 | ⟨e2, h2⟩
      · exact Or.inl h2
      · exact Or.inr ⟨e2, textLt_trans as bs cs h1 h2⟩

/-- `a ≤ b` for texts -/
theorem textLe_trans {a b c : Text} (h1 : textLt b a = false) (h2 : textLt c b = false) : textLt c a = false := by
  rcases textLt_tri a b with h | h | h
  · rcases textLt_tri b c with h' | h' | h'
    · exact textLt_asymm _ _ (textLt_trans _ _ _ h h')
    · subst h'; exact textLt_asymm _ _ h
    · rw [h'] at h2; exact Bool.noConfusion h2
  · subst h; exact h2
  · rw [h] at h1; exact Bool.noConfusion h1

theorem rowLe_total (a b : Row) : rowLe a b = true ∨ rowLe b a = true := by
  unfold rowLe
  rcases textLt_tri (keyBytes a.key) (keyBytes b.key) with h | h | h
  · simp [h]
  · rcases textLt_tri a.phrase b.phrase with h' | h' | h'
    · left; simp [h, textLt_asymm _ _ h']
    · left; simp [h, h', textLt_irrefl]
    · right; simp [h, textLt_asymm _ _ h']
  · simp [h]

theorem rowLe_trans (a b c : Row) (h1 : rowLe a b = true) (h2 : rowLe b c = true) : rowLe a c = true := by
  unfold rowLe at h1 h2 ⊢
  simp only [Bool.or_eq_true, Bool.and_eq_true, beq_iff_eq, Bool.not_eq_true'] at h1 h2 ⊢
  rcases h1 with h1 | ⟨e1, h1⟩
  · rcases h2 with h2 | ⟨e2, _⟩
    · exact Or.inl (textLt_trans _ _ _ h1 h2)
    · exact Or.inl (e2 ▸ h1)
  · rcases h2 with h2 | ⟨e2, h2⟩
    · exact Or.inl (e1 ▸ h2)
    · exact Or.inr ⟨e1.trans e2, textLe_trans h1 h2⟩

/-! ### building from the enumerated entries -/

def DistinctRecs (l : List Rec) : Prop := l.Pairwise (fun a b => ¬ SameRec a b)

theorem foldl_sqlInsert_fresh : ∀ (E : List Rec) (m : SqlM), DistinctRecs (m.rows.map rowRec ++ E) →
    (E.foldl sqlInsert m).rows.map rowRec = m.rows.map rowRec ++ E
  | [], m, _ => by simp
  | r :: E, m, h => by
    have hnew : ∀ q ∈ m.rows, ¬ SameKP q (newRow m r) := by
      intro q hq c
      have := (List.pairwise_append.mp h).2.2 (rowRec q) (List.mem_map_of_mem (f := rowRec) hq) r (List.mem_cons_self)
      exact this c
    have hrows : (sqlInsert m r).rows = m.rows ++ [newRow m r] := by
      rw [sqlInsert_rows, sqlUpsert_new _ _ hnew]
    simp only [List.foldl_cons]
    rw [foldl_sqlInsert_fresh E (sqlInsert m r)]
    · rw [hrows]; simp [rowRec_newRow]
    · rw [hrows]
      simpa [rowRec_newRow, DistinctRecs] using h

theorem rowLe_rec (a b : Row) (a' b' : Row) (ha : rowRec a = rowRec a') (hb : rowRec b = rowRec b') :
    rowLe a b = rowLe a' b' := by
  cases a; cases b; cases a'; cases b'
  simp only [rowRec, Rec.mk.injEq] at ha hb
  obtain ⟨rfl, rfl, rfl⟩ := ha
  obtain ⟨rfl, rfl, rfl⟩ := hb
  rfl

/-- order on records that `rowLe` induces -/
def recLe (a b : Rec) : Bool :=
  rowLe ⟨a.syls, a.phrase, a.freq, 0⟩ ⟨b.syls, b.phrase, b.freq, 0⟩

theorem rowLe_eq_recLe (a b : Row) : rowLe a b = recLe (rowRec a) (rowRec b) := rfl

/-- **SQLite round trip of `entries()`, dump order included** -/
theorem sql_roundtrip {m : SqlM} (hinv : SqlInv m.rows) :
    sqlEntries (sqlBuild (sqlEntries m)) = sqlEntries m := by
  have hsorted : (insSort rowLe m.rows).Pairwise (fun a b => rowLe a b = true) :=
    insSort_pairwise rowLe_total rowLe_trans m.rows
  have hperm := insSort_perm rowLe m.rows
  have hinv' : SqlInv (insSort rowLe m.rows) :=
    hinv.perm hperm.symm (fun {x y} h c => h ⟨c.1.symm, c.2.symm⟩)
  -- the enumerated entries are distinct and sorted
  have hdist : DistinctRecs (sqlEntries m) := by
    rw [sqlEntries_eq]
    exact List.pairwise_map.mpr (hinv'.imp (fun {a b} h => h))
  have hE : (sqlBuild (sqlEntries m)).rows.map rowRec = sqlEntries m := by
    have := foldl_sqlInsert_fresh (sqlEntries m) { rows := [], sortId := 0 } (by simpa using hdist)
    simpa [sqlBuild] using this
  have hs2 : ((sqlBuild (sqlEntries m)).rows).Pairwise (fun a b => rowLe a b = true) := by
    have h1 : ((sqlBuild (sqlEntries m)).rows.map rowRec).Pairwise (fun a b => recLe a b = true) := by
      rw [hE, sqlEntries_eq]
      exact List.pairwise_map.mpr (hsorted.imp (fun {a b} h => by rw [← rowLe_eq_recLe]; exact h))
    exact (List.pairwise_map.mp h1).imp (fun {a b} h => by rw [rowLe_eq_recLe]; exact h)
  rw [sqlEntries_eq (sqlBuild _), insSort_of_pairwise hs2, hE]

end Chewing.Cli
