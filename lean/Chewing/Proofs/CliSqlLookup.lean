import Chewing.Proofs.CliSql
/-!
Lookup order of the SQLite back end after dump + recompile: unchanged for every key that does not
consist of exactly one syllable (rows of such keys all carry `sort_id` 0, so the order is a function of
the set of rows).  One-syllable keys are the exact class of finding F34.
-/
namespace Chewing.Cli
open Chewing List

/-! ### the lookup order -/

theorem lookupLe_total (a b : Row) : lookupLe a b = true ∨ lookupLe b a = true := by
  unfold lookupLe
  rcases Nat.lt_trichotomy a.sortId b.sortId with h | h | h
  · left; simp [h]
  · rcases Nat.lt_trichotomy a.freq b.freq with h' | h' | h'
    · right; simp [h, h']
    · rcases textLt_tri a.phrase b.phrase with h'' | h'' | h''
      · right; simp [h, h', textLt_asymm _ _ h'']
      · left; simp [h, h', h'', textLt_irrefl]
      · left; simp [h, h', textLt_asymm _ _ h'']
    · left; simp [h, h']
  · right; simp [h]

theorem lookupLe_trans (a b c : Row) (h1 : lookupLe a b = true) (h2 : lookupLe b c = true) :
    lookupLe a c = true := by
  unfold lookupLe at h1 h2 ⊢
  simp only [Bool.or_eq_true, Bool.and_eq_true, decide_eq_true_eq, beq_iff_eq, Bool.not_eq_true'] at h1 h2 ⊢
  rcases h1 with h1 | ⟨e1, h1⟩
  · rcases h2 with h2 | ⟨e2, _⟩
    · exact Or.inl (by omega)
    · exact Or.inl (by omega)
  · rcases h2 with h2 | ⟨e2, h2⟩
    · exact Or.inl (by omega)
    · refine Or.inr ⟨by omega, ?_⟩
      rcases h1 with h1 | ⟨f1, h1⟩
      · rcases h2 with h2 | ⟨f2, _⟩
        · exact Or.inl (by omega)
        · exact Or.inl (by omega)
      · rcases h2 with h2 | ⟨f2, h2⟩
        · exact Or.inl (by omega)
        · exact Or.inr ⟨by omega, textLe_trans h2 h1⟩

theorem lookupLe_antisymm (a b : Row) (hk : a.key = b.key) (h1 : lookupLe a b = true) (h2 : lookupLe b a = true) :
    a = b := by
  unfold lookupLe at h1 h2
  simp only [Bool.or_eq_true, Bool.and_eq_true, decide_eq_true_eq, beq_iff_eq, Bool.not_eq_true'] at h1 h2
  have hs : a.sortId = b.sortId := by
    rcases h1 with h1 | ⟨e1, _⟩
    · rcases h2 with h2 | ⟨e2, _⟩ <;> omega
    · exact e1
  have h1' := h1.resolve_left (by omega)
  have h2' := h2.resolve_left (by omega)
  have hf : a.freq = b.freq := by
    rcases h1'.2 with h | ⟨e, _⟩
    · rcases h2'.2 with h' | ⟨e', _⟩ <;> omega
    · exact e
  have hp1 := (h1'.2.resolve_left (by omega)).2
  have hp2 := (h2'.2.resolve_left (by omega)).2
  have hp : a.phrase = b.phrase := by
    rcases textLt_tri a.phrase b.phrase with h | h | h
    · rw [h] at hp1; cases hp1
    · exact h
    · rw [h] at hp2; cases hp2
  cases a; cases b
  simp only at hk hs hf hp
  subst hk hs hf hp
  rfl

/-! ### rows of keys that are not a single syllable -/

/-- `sort_id` is 0 unless the key has exactly one syllable -/
def SortIdInv (rows : List Row) : Prop := ∀ r ∈ rows, r.key.length ≠ 1 → r.sortId = 0

theorem foldl_sqlInsert_sortId : ∀ (rs : List Rec) {m : SqlM}, SqlInv m.rows → SortIdInv m.rows →
    SortIdInv (rs.foldl sqlInsert m).rows
  | [], _, _, h => h
  | r :: rs, m, hinv, h => by
    apply foldl_sqlInsert_sortId rs (by rw [sqlInsert_rows]; exact sqlUpsert_inv _ hinv)
    intro row hrow hlen
    rw [sqlInsert_rows] at hrow
    rcases (mem_sqlUpsert hinv).mp hrow with rfl | ⟨hrow, _⟩
    · have : (r.syls.length == 1) = false := by simpa [newRow] using hlen
      simp [newRow, this]
    · exact h row hrow hlen

theorem sqlBuild_sortId (rs : List Rec) : SortIdInv (sqlBuild rs).rows :=
  foldl_sqlInsert_sortId rs (by simp [SqlInv]) (by simp [SortIdInv])

theorem sqlInv_nodup {rows : List Row} (h : SqlInv rows) : rows.Nodup :=
  h.imp (fun {a b} (hne : ¬ SameKP a b) (e : a = b) => hne (by subst e; exact ⟨rfl, rfl⟩))

theorem row_eq_of_rec {a b : Row} (h : rowRec a = rowRec b) (hs : a.sortId = b.sortId) : a = b := by
  cases a; cases b
  simp only [rowRec, Rec.mk.injEq] at h
  simp only at hs
  obtain ⟨rfl, rfl, rfl⟩ := h
  subst hs
  rfl

/-- **SQLite lookup order survives dump + recompile for every key that is not one syllable long** -/
theorem sql_roundtrip_lookup (rs : List Rec) (k : Key) (hk : k.length ≠ 1) :
    sqlLookup (sqlBuild (sqlEntries (sqlBuild rs))) k = sqlLookup (sqlBuild rs) k := by
  have hinv1 := sqlBuild_inv rs
  have hinv2 := sqlBuild_inv (sqlEntries (sqlBuild rs))
  have hs1 := sqlBuild_sortId rs
  have hs2 := sqlBuild_sortId (sqlEntries (sqlBuild rs))
  -- the two tables hold the same records
  have hmem : ∀ x : Rec, x ∈ (sqlBuild (sqlEntries (sqlBuild rs))).rows.map rowRec ↔ x ∈ (sqlBuild rs).rows.map rowRec := by
    intro x
    rw [mem_sqlBuild, mem_sqlBuild]
    constructor
    · intro h
      have h1 : x ∈ sqlEntries (sqlBuild (sqlEntries (sqlBuild rs))) := (mem_sql_entries_iff _ x).mpr h
      rw [sql_roundtrip hinv1] at h1
      exact (mem_sql_entries_iff rs x).mp h1
    · intro h
      have h1 : x ∈ sqlEntries (sqlBuild rs) := (mem_sql_entries_iff rs x).mpr h
      rw [← sql_roundtrip hinv1] at h1
      exact (mem_sql_entries_iff _ x).mp h1
  have hperm : (sqlBuild (sqlEntries (sqlBuild rs))).rows.filter (fun r => r.key == k) ~
      (sqlBuild rs).rows.filter (fun r => r.key == k) := by
    apply (List.perm_ext_iff_of_nodup ((sqlInv_nodup hinv2).filter _) ((sqlInv_nodup hinv1).filter _)).mpr
    intro row
    simp only [List.mem_filter, beq_iff_eq]
    constructor
    · rintro ⟨hrow, hkey⟩
      obtain ⟨row', hrow', heq⟩ := List.mem_map.mp ((hmem (rowRec row)).mp (List.mem_map_of_mem (f := rowRec) hrow))
      have hkey' : row'.key = k := by
        have := congrArg Rec.syls heq
        simpa [rowRec, hkey] using this
      have : row' = row := row_eq_of_rec heq (by
        rw [hs1 row' hrow' (by rw [hkey']; exact hk), hs2 row hrow (by rw [hkey]; exact hk)])
      exact ⟨this ▸ hrow', hkey⟩
    · rintro ⟨hrow, hkey⟩
      obtain ⟨row', hrow', heq⟩ := List.mem_map.mp ((hmem (rowRec row)).mpr (List.mem_map_of_mem (f := rowRec) hrow))
      have hkey' : row'.key = k := by
        have := congrArg Rec.syls heq
        simpa [rowRec, hkey] using this
      have : row' = row := row_eq_of_rec heq (by
        rw [hs2 row' hrow' (by rw [hkey']; exact hk), hs1 row hrow (by rw [hkey]; exact hk)])
      exact ⟨this ▸ hrow', hkey⟩
  unfold sqlLookup
  rw [insSort_congr lookupLe_total lookupLe_trans ?_ hperm]
  intro a b ha hb h1 h2
  have ka : a.key = k := by simpa using (List.mem_filter.mp ha).2
  have kb : b.key = k := by simpa using (List.mem_filter.mp hb).2
  exact lookupLe_antisymm a b (ka.trans kb.symm) h1 h2

end Chewing.Cli
