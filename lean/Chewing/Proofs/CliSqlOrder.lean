import Chewing.Proofs.CliSqlLookup
/-!
Finding F34, exactly: what the SQLite file compiled from a dump answers for a **one-syllable key**.

`dump` enumerates the table in primary-key order (key blob, phrase text); compiling that text assigns
`sort_id` 1, 2, 3, … in this order; `lookup` orders by `sort_id` first.  Hence the recompiled file lists the
phrases of a one-syllable key in ascending order of their text, whatever the original order was
(`sql_recompiled_lookup_single`), and the lookup order survives iff it was ascending by text already
(`sql_single_lookup_preserved_iff`).
-/
namespace Chewing.Cli
open Chewing List

/-- ascending by phrase text (bytewise) -/
def pfLe (a b : PF) : Bool := !textLt b.1 a.1

def rowPF (r : Row) : PF := (r.phrase, r.freq)

theorem pfLe_total (a b : PF) : pfLe a b = true ∨ pfLe b a = true := by
  unfold pfLe
  rcases textLt_tri a.1 b.1 with h | h | h
  · left; simp [textLt_asymm _ _ h]
  · left; simp [h, textLt_irrefl]
  · right; simp [textLt_asymm _ _ h]

theorem pfLe_trans (a b c : PF) (h1 : pfLe a b = true) (h2 : pfLe b c = true) : pfLe a c = true := by
  unfold pfLe at h1 h2 ⊢
  simp only [Bool.not_eq_true'] at h1 h2 ⊢
  exact textLe_trans h1 h2

/-- the rows written when records none of which is in the table yet are inserted, starting with the
    running `sort_id` `sid` -/
def freshRows : Nat → List Rec → List Row
  | _, [] => []
  | sid, r :: rs => newRow ⟨[], sid⟩ r :: freshRows (if r.syls.length == 1 then sid + 1 else sid) rs

theorem sqlInsert_sortId (m : SqlM) (r : Rec) :
    (sqlInsert m r).sortId = if r.syls.length == 1 then m.sortId + 1 else m.sortId := rfl

theorem foldl_sqlInsert_freshRows : ∀ (E : List Rec) (m : SqlM), DistinctRecs (m.rows.map rowRec ++ E) →
    (E.foldl sqlInsert m).rows = m.rows ++ freshRows m.sortId E
  | [], m, _ => by simp [freshRows]
  | r :: E, m, h => by
    have hnew : ∀ q ∈ m.rows, ¬ SameKP q (newRow m r) := by
      intro q hq c
      have := (List.pairwise_append.mp h).2.2 (rowRec q) (List.mem_map_of_mem (f := rowRec) hq) r (List.mem_cons_self)
      exact this c
    have hrows : (sqlInsert m r).rows = m.rows ++ [newRow m r] := by
      rw [sqlInsert_rows, sqlUpsert_new _ _ hnew]
    simp only [List.foldl_cons]
    rw [foldl_sqlInsert_freshRows E (sqlInsert m r), hrows, sqlInsert_sortId]
    · simp [freshRows, newRow]
    · rw [hrows]
      simpa [rowRec_newRow, DistinctRecs] using h

theorem freshRows_recs : ∀ (E : List Rec) (sid : Nat), (freshRows sid E).map rowRec = E
  | [], _ => rfl
  | r :: E, sid => by simp [freshRows, rowRec_newRow, freshRows_recs E]

theorem freshRows_lower : ∀ (E : List Rec) (sid : Nat), ∀ row ∈ freshRows sid E, row.key.length = 1 → sid < row.sortId
  | [], _, row, h, _ => by simp [freshRows] at h
  | r :: E, sid, row, h, hl => by
    simp only [freshRows, List.mem_cons] at h
    rcases h with rfl | h
    · have : (r.syls.length == 1) = true := by simpa [newRow] using hl
      simp [newRow, this]
    · have := freshRows_lower E _ row h hl
      split at this <;> omega

theorem freshRows_increasing : ∀ (E : List Rec) (sid : Nat),
    (freshRows sid E).Pairwise (fun a b => a.key.length = 1 → b.key.length = 1 → a.sortId < b.sortId)
  | [], _ => by simp [freshRows]
  | r :: E, sid => by
    simp only [freshRows]
    refine List.pairwise_cons.mpr ⟨?_, freshRows_increasing E _⟩
    intro b hb ha hbl
    have h1 := freshRows_lower E _ b hb hbl
    have : (r.syls.length == 1) = true := by simpa [newRow] using ha
    simp only [this, if_true] at h1
    simp [newRow, this]
    exact h1

/-- two rows of a table with the same key and phrase are the same row -/
theorem sqlInv_unique : ∀ {rows : List Row}, SqlInv rows → ∀ {a b : Row}, a ∈ rows → b ∈ rows → SameKP a b → a = b
  | [], _, _, _, ha, _, _ => by cases ha
  | x :: xs, h, a, b, ha, hb, hs => by
    have hx := List.pairwise_cons.mp h
    rcases List.mem_cons.mp ha with e1 | ha'
    · rcases List.mem_cons.mp hb with e2 | hb'
      · rw [e1, e2]
      · rw [e1] at hs; exact absurd hs (hx.1 b hb')
    · rcases List.mem_cons.mp hb with e2 | hb'
      · rw [e2] at hs; exact absurd ⟨hs.1.symm, hs.2.symm⟩ (hx.1 a ha')
      · exact sqlInv_unique hx.2 ha' hb' hs

/-- **F34, exactly** — after dump + recompile a one-syllable key lists its phrases in ascending order of
    their text -/
theorem sql_recompiled_lookup_single (rs : List Rec) (k : Key) (hk : k.length = 1) :
    sqlLookup (sqlBuild (sqlEntries (sqlBuild rs))) k = insSort pfLe (sqlLookup (sqlBuild rs) k) := by
  have hinv := sqlBuild_inv rs
  generalize sqlBuild rs = m at hinv ⊢
  have hsorted : (insSort rowLe m.rows).Pairwise (fun a b => rowLe a b = true) :=
    insSort_pairwise rowLe_total rowLe_trans m.rows
  have hperm := insSort_perm rowLe m.rows
  have hinvS : SqlInv (insSort rowLe m.rows) :=
    hinv.perm hperm.symm (fun {x y} h c => h ⟨c.1.symm, c.2.symm⟩)
  have hdist : DistinctRecs (sqlEntries m) := by
    rw [sqlEntries_eq]
    exact List.pairwise_map.mpr (hinvS.imp (fun {a b} h => h))
  -- the rows of the recompiled table
  have hrows : (sqlBuild (sqlEntries m)).rows = freshRows 0 (sqlEntries m) := by
    have := foldl_sqlInsert_freshRows (sqlEntries m) { rows := [], sortId := 0 } (by simpa using hdist)
    simpa [sqlBuild] using this
  -- the rows of key `k` are already in lookup order …
  have hF2 : ((freshRows 0 (sqlEntries m)).filter (fun r => r.key == k)).Pairwise (fun a b => lookupLe a b = true) := by
    have h1 := (freshRows_increasing (sqlEntries m) 0).filter (fun r => r.key == k)
    refine h1.imp_of_mem ?_
    intro a b ha hb hab
    have ka : a.key = k := by simpa using (List.mem_filter.mp ha).2
    have kb : b.key = k := by simpa using (List.mem_filter.mp hb).2
    have := hab (by rw [ka]; exact hk) (by rw [kb]; exact hk)
    simp [lookupLe, this]
  -- … and are the rows of key `k` of the sorted original table
  have hmapF : ((freshRows 0 (sqlEntries m)).filter (fun r => r.key == k)).map rowPF =
      ((insSort rowLe m.rows).filter (fun r => r.key == k)).map rowPF := by
    have e1 : ∀ l : List Row, (l.filter (fun r => r.key == k)).map rowPF =
        (((l.map rowRec).filter (fun x => x.syls == k))).map (fun x => (x.phrase, x.freq)) := by
      intro l
      rw [List.filter_map, List.map_map]
      rfl
    rw [e1, e1, freshRows_recs, sqlEntries_eq]
  unfold sqlLookup
  rw [hrows, insSort_of_pairwise hF2]
  show _ = insSort pfLe ((insSort lookupLe (m.rows.filter (fun r => r.key == k))).map rowPF)
  show ((freshRows 0 (sqlEntries m)).filter (fun r => r.key == k)).map rowPF = _
  rw [hmapF]
  symm
  apply Perm.eq_of_pairwise (le := fun a b => pfLe a b = true)
  · -- antisymmetry on the phrases of one key
    intro a b ha hb h1 h2
    have ha' : a ∈ ((insSort rowLe m.rows).filter (fun r => r.key == k)).map rowPF := by
      have p : insSort pfLe ((insSort lookupLe (m.rows.filter (fun r => r.key == k))).map rowPF) ~
          ((insSort rowLe m.rows).filter (fun r => r.key == k)).map rowPF :=
        (insSort_perm pfLe _).trans (((insSort_perm lookupLe _).trans (hperm.symm.filter _)).map rowPF)
      exact p.mem_iff.mp ha
    obtain ⟨ra, hra, rfl⟩ := List.mem_map.mp ha'
    obtain ⟨rb, hrb, rfl⟩ := List.mem_map.mp hb
    have ka : ra.key = k := by simpa using (List.mem_filter.mp hra).2
    have kb : rb.key = k := by simpa using (List.mem_filter.mp hrb).2
    have hp : ra.phrase = rb.phrase := by
      unfold pfLe rowPF at h1 h2
      simp only [Bool.not_eq_true'] at h1 h2
      rcases textLt_tri ra.phrase rb.phrase with h | h | h
      · rw [h] at h2; cases h2
      · exact h
      · rw [h] at h1; cases h1
    have := sqlInv_unique hinvS (List.mem_filter.mp hra).1 (List.mem_filter.mp hrb).1 ⟨ka.trans kb.symm, hp⟩
    rw [this]
  · exact insSort_pairwise pfLe_total pfLe_trans _
  · -- the sorted table restricted to `k` is ascending by phrase
    apply List.Pairwise.map rowPF (R := fun a b => a.key = k ∧ b.key = k ∧ rowLe a b = true)
    · rintro a b ⟨ka, kb, h⟩
      unfold rowLe at h
      rw [ka, kb] at h
      simpa [pfLe, rowPF, textLt_irrefl] using h
    · refine (hsorted.filter (fun r => r.key == k)).imp_of_mem ?_
      intro a b ha hb h
      exact ⟨by simpa using (List.mem_filter.mp ha).2, by simpa using (List.mem_filter.mp hb).2, h⟩
  · exact (insSort_perm pfLe _).trans (((insSort_perm lookupLe _).trans (hperm.symm.filter _)).map rowPF)

/-- the lookup order of a one-syllable key survives dump + recompile **iff** it was ascending by phrase
    text already -/
theorem sql_single_lookup_preserved_iff (rs : List Rec) (k : Key) (hk : k.length = 1) :
    sqlLookup (sqlBuild (sqlEntries (sqlBuild rs))) k = sqlLookup (sqlBuild rs) k ↔
      (sqlLookup (sqlBuild rs) k).Pairwise (fun a b => pfLe a b = true) := by
  rw [sql_recompiled_lookup_single rs k hk]
  constructor
  · intro h
    rw [← h]
    exact insSort_pairwise pfLe_total pfLe_trans _
  · exact insSort_of_pairwise

end Chewing.Cli
