import Chewing.Proofs.CliParse
import Chewing.Proofs.SyllableDecode
/-!
The syllables the dictionary compiler stores are `Syllable` values: every code `parse_line` obtains comes from the
spelling parser, whose results `Syllable::try_from` accepts (`go_tup6` / `validCode_encode`, C13's `parse_valid`).
This discharges the syllable clause of `CliTrieLink.ValidRec` (C20 ↔ C11) for compiled records.
-/
namespace Chewing.Cli
open Chewing

theorem parse_code_valid {s : List Nat} {v : Nat} (hp : Chewing.parse s = .ok v) :
    0 < v ∧ v < 65536 ∧ validCode v = true := by
  unfold Chewing.parse at hp
  obtain ⟨i, m, r, t, ht, rfl⟩ := go_tup6 s absOk_new hp
  exact ⟨encode_pos, encode_lt ht, validCode_encode ht⟩

theorem parseSyls_valid : ∀ (ts : List Text) (syls : List Nat), parseSyls ts = .ok syls →
    ∀ s ∈ syls, 0 < s ∧ s < 65536 ∧ validCode s = true
  | [], syls, h => by
    simp only [parseSyls] at h
    cases h
    intro s hs; cases hs
  | t :: ts, syls, h => by
    simp only [parseSyls] at h
    split at h
    · exact parseSyls_valid ts syls h
    · split at h
      · cases h; intro s hs; cases hs
      · split at h
        · cases h
        · cases h
        · rename_i v hv
          split at h
          · rename_i vs hvs
            cases h
            intro s hs
            rcases List.mem_cons.mp hs with rfl | hs
            · exact parse_code_valid hv
            · exact parseSyls_valid ts vs hvs s hs
          · cases h

/-- every syllable of a record `parse_line` accepts is a `Syllable` value -/
theorem parseLine_syls_valid {d : Nat} {keep : Bool} {l : Text} {r : Rec} (h : parseLine d keep l = .ok r) :
    ∀ s ∈ r.syls, 0 < s ∧ s < 65536 ∧ validCode s = true := by
  obtain ⟨f0, fs, n, syls, -, -, -, -, hs, -, -, rfl⟩ := parseLine_ok_iff.mp h
  exact parseSyls_valid _ syls hs

end Chewing.Cli
