import Chewing.Model.Cli
/-!
Lemmas about the text primitives of the CLI model: `fields` / `tokens` on separator-free pieces,
`trimQ`, `decimal` / `parseU32`, `joinWith`.
-/
namespace Chewing.Cli
open Chewing Gen

/-- no character of `a` is a separator -/
def SepFree (sep : Nat → Bool) (a : Text) : Prop := ∀ c ∈ a, sep c = false

theorem SepFree.tail {sep : Nat → Bool} {c : Nat} {a : Text} (h : SepFree sep (c :: a)) : SepFree sep a :=
  fun x hx => h x (List.mem_cons_of_mem _ hx)

theorem fields_sepfree {sep : Nat → Bool} {a : Text} (h : SepFree sep a) : fields sep a = [a] := by
  induction a with
  | nil => rfl
  | cons c a ih =>
    have hc : sep c = false := h c (List.mem_cons_self)
    simp [fields, hc, ih h.tail]

theorem fields_append_sep {sep : Nat → Bool} {a : Text} {d : Nat} (b : Text) (h : SepFree sep a)
    (hd : sep d = true) : fields sep (a ++ d :: b) = a :: fields sep b := by
  induction a with
  | nil => simp [fields, hd]
  | cons c a ih =>
    have hc : sep c = false := h c (List.mem_cons_self)
    simp [fields, hc, ih h.tail]

theorem tokens_nil (sep : Nat → Bool) : tokens sep [] = [] := by simp [tokens, fields]

theorem tokens_sepfree {sep : Nat → Bool} {a : Text} (h : SepFree sep a) (hne : a ≠ []) :
    tokens sep a = [a] := by
  cases a with
  | nil => exact absurd rfl hne
  | cons c a => simp [tokens, fields_sepfree h]

theorem tokens_append_sep {sep : Nat → Bool} {a : Text} {d : Nat} (b : Text) (h : SepFree sep a)
    (hne : a ≠ []) (hd : sep d = true) : tokens sep (a ++ d :: b) = a :: tokens sep b := by
  cases a with
  | nil => exact absurd rfl hne
  | cons c a =>
    rw [tokens, fields_append_sep b h hd]
    simp [tokens]

theorem tokens_sep_cons {sep : Nat → Bool} {d : Nat} (b : Text) (hd : sep d = true) :
    tokens sep (d :: b) = tokens sep b := by
  simp [tokens, fields, hd]

/-- the pieces come back when they are joined by a separator character -/
theorem tokens_joinWith {sep : Nat → Bool} {d : Nat} (hd : sep d = true) :
    ∀ (ts : List Text), (∀ t ∈ ts, SepFree sep t ∧ t ≠ []) → tokens sep (joinWith [d] ts) = ts
  | [], _ => by simp [joinWith, tokens_nil]
  | [t], h => by
    have := h t (List.mem_cons_self)
    simp [joinWith, tokens_sepfree this.1 this.2]
  | t :: t' :: rest, h => by
    have ht := h t (List.mem_cons_self)
    have ih := tokens_joinWith hd (t' :: rest) (fun x hx => h x (List.mem_cons_of_mem _ hx))
    have : joinWith [d] (t :: t' :: rest) = t ++ d :: joinWith [d] (t' :: rest) := by
      simp [joinWith]
    rw [this, tokens_append_sep _ ht.1 ht.2 hd, ih]

/-! ### `trim_matches('"')` -/

theorem dropWhile_head {p : Nat → Bool} : ∀ {s : Text}, (∀ a, s.head? = some a → p a = false) → s.dropWhile p = s
  | [], _ => rfl
  | c :: cs, h => by simp [List.dropWhile, h c rfl]

theorem trimQ_eq {s : Text} (h1 : s.head? ≠ some cliQuote) (h2 : s.getLast? ≠ some cliQuote) : trimQ s = s := by
  unfold trimQ
  have a : s.dropWhile (· == cliQuote) = s := by
    apply dropWhile_head
    intro a ha
    have : a ≠ cliQuote := fun e => h1 (e ▸ ha)
    simpa using this
  rw [a]
  have b : s.reverse.dropWhile (· == cliQuote) = s.reverse := by
    apply dropWhile_head
    intro a ha
    rw [List.head?_reverse] at ha
    have : a ≠ cliQuote := fun e => h2 (e ▸ ha)
    simpa using this
  rw [b, List.reverse_reverse]

theorem trimQ_of_noquote {s : Text} (h : ∀ c ∈ s, c ≠ cliQuote) : trimQ s = s := by
  apply trimQ_eq
  · intro e
    exact h _ (List.mem_of_mem_head? e) rfl
  · intro e
    exact h _ (List.mem_of_mem_getLast? e) rfl

/-! ### decimal numbers -/

theorem digitsVal_append (a : Text) (d : Nat) : digitsVal (a ++ [d]) = digitsVal a * 10 + (d - 48) := by
  simp [digitsVal, List.foldl_append]

theorem decimalF_spec : ∀ (fuel n : Nat), n < 10 ^ fuel → 0 < fuel →
    digitsVal (decimalF fuel n) = n ∧ (∀ c ∈ decimalF fuel n, isDigit c = true) ∧ decimalF fuel n ≠ []
  | 0, _, _, h0 => absurd h0 (by omega)
  | fuel + 1, n, hn, _ => by
    unfold decimalF
    by_cases h : n < 10
    · simp only [h, if_true]
      refine ⟨by simp [digitsVal], ?_, by simp⟩
      intro c hc
      simp at hc
      subst hc
      simp [isDigit]; omega
    · simp only [h, if_false]
      have hf : 0 < fuel := by
        rcases Nat.eq_zero_or_pos fuel with rfl | hp
        · simp at hn; omega
        · exact hp
      have hlt : n / 10 < 10 ^ fuel := by
        rw [Nat.pow_succ] at hn
        omega
      obtain ⟨v, dg, _⟩ := decimalF_spec fuel (n / 10) hlt hf
      refine ⟨?_, ?_, by simp⟩
      · rw [digitsVal_append, v]; omega
      · intro c hc
        rcases List.mem_append.mp hc with hc | hc
        · exact dg c hc
        · simp at hc
          subst hc
          simp [isDigit]; omega

theorem decimal_spec {n : Nat} (hn : n < 4294967296) :
    digitsVal (decimal n) = n ∧ (∀ c ∈ decimal n, isDigit c = true) ∧ decimal n ≠ [] :=
  decimalF_spec 20 n (by omega) (by omega)

theorem parseU32_digits {s : Text} (hd : ∀ c ∈ s, isDigit c = true) (hne : s ≠ []) :
    parseU32 s = if digitsVal s < 4294967296 then some (digitsVal s) else none := by
  cases s with
  | nil => exact absurd rfl hne
  | cons c cs =>
    have hc : isDigit c = true := hd c (List.mem_cons_self)
    have h43 : c ≠ 43 := by
      intro e; subst e; simp [isDigit] at hc
    have hall : (c :: cs).all isDigit = true := List.all_eq_true.mpr hd
    unfold parseU32
    simp only [List.head?_cons]
    have : (some c == some 43) = false := by simpa using h43
    simp only [this]
    simp [hall]

theorem parseU32_decimal {n : Nat} (hn : n < 4294967296) : parseU32 (decimal n) = some n := by
  obtain ⟨v, dg, ne⟩ := decimal_spec hn
  rw [parseU32_digits dg ne, v]
  simp [hn]

theorem isDigit_not_sep {c : Nat} (h : isDigit c = true) : sylSep c = false ∧ c ≠ cliQuote ∧ c ≠ cliSsvDelim ∧ c ≠ cliCsvDelim := by
  simp [isDigit] at h
  refine ⟨?_, ?_, ?_, ?_⟩
  · simp [sylSep, isWs, cliSylSep]; omega
  · simp [cliQuote]; omega
  · simp [cliSsvDelim]; omega
  · simp [cliCsvDelim]; omega

/-! ### runs of separators, optional quotes, comments -/

/-- every character of `g` is a separator -/
def AllSep (sep : Nat → Bool) (g : Text) : Prop := ∀ c ∈ g, sep c = true

theorem tokens_allsep_append {sep : Nat → Bool} : ∀ {g : Text} (b : Text), AllSep sep g →
    tokens sep (g ++ b) = tokens sep b
  | [], _, _ => rfl
  | c :: g, b, h => by
    rw [List.cons_append, tokens_sep_cons _ (h c (List.mem_cons_self))]
    exact tokens_allsep_append b (fun x hx => h x (List.mem_cons_of_mem _ hx))

/-- a separator-free piece followed by a non-empty run of separators -/
theorem tokens_append_gap {sep : Nat → Bool} {a g : Text} (b : Text) (h : SepFree sep a) (hne : a ≠ [])
    (hg : AllSep sep g) (hgne : g ≠ []) : tokens sep (a ++ g ++ b) = a :: tokens sep b := by
  cases g with
  | nil => exact absurd rfl hgne
  | cons d g =>
    have : a ++ d :: g ++ b = a ++ d :: (g ++ b) := by simp
    rw [this, tokens_append_sep _ h hne (hg d (List.mem_cons_self)),
      tokens_allsep_append b (fun x hx => hg x (List.mem_cons_of_mem _ hx))]

/-- pieces joined by one and the same non-empty run of separators -/
theorem tokens_joinWith_gap {sep : Nat → Bool} {g : Text} (hg : AllSep sep g) (hgne : g ≠ []) :
    ∀ (ts : List Text), (∀ t ∈ ts, SepFree sep t ∧ t ≠ []) → tokens sep (joinWith g ts) = ts
  | [], _ => by simp [joinWith, tokens_nil]
  | [t], h => by
    have := h t (List.mem_cons_self)
    simp [joinWith, tokens_sepfree this.1 this.2]
  | t :: t' :: rest, h => by
    have ht := h t (List.mem_cons_self)
    have ih := tokens_joinWith_gap hg hgne (t' :: rest) (fun x hx => h x (List.mem_cons_of_mem _ hx))
    have : joinWith g (t :: t' :: rest) = t ++ g ++ joinWith g (t' :: rest) := by simp [joinWith]
    rw [this, tokens_append_gap _ ht.1 ht.2 hg hgne, ih]

/-- … followed by another run of separators and more text -/
theorem tokens_joinWith_gap_append {sep : Nat → Bool} {g g' : Text} (hg : AllSep sep g) (hgne : g ≠ [])
    (hg' : AllSep sep g') (hgne' : g' ≠ []) (b : Text) :
    ∀ (ts : List Text), (∀ t ∈ ts, SepFree sep t ∧ t ≠ []) →
      tokens sep (joinWith g ts ++ g' ++ b) = ts ++ tokens sep b
  | [], _ => by simp [joinWith, tokens_allsep_append b hg']
  | [t], h => by
    have := h t (List.mem_cons_self)
    simp only [joinWith, List.singleton_append]
    rw [tokens_append_gap _ this.1 this.2 hg' hgne']
  | t :: t' :: rest, h => by
    have ht := h t (List.mem_cons_self)
    have ih := tokens_joinWith_gap_append hg hgne hg' hgne' b (t' :: rest)
      (fun x hx => h x (List.mem_cons_of_mem _ hx))
    have : joinWith g (t :: t' :: rest) ++ g' ++ b = t ++ g ++ (joinWith g (t' :: rest) ++ g' ++ b) := by
      simp [joinWith]
    rw [this, tokens_append_gap _ ht.1 ht.2 hg hgne, ih]
    rfl

theorem fields_ne_nil (sep : Nat → Bool) : ∀ s : Text, fields sep s ≠ []
  | [] => by simp [fields]
  | c :: cs => by
    unfold fields
    split
    · simp
    · split <;> simp

/-- a text starting with a non-separator: its first token starts with that character -/
theorem tokens_head {sep : Nat → Bool} {x : Nat} (c : Text) (hx : sep x = false) :
    ∃ w rest, tokens sep (x :: c) = (x :: w) :: rest := by
  cases hf : fields sep c with
  | nil => exact absurd hf (fields_ne_nil sep c)
  | cons f fs => exact ⟨f, fs.filter (fun f => !f.isEmpty), by simp [tokens, fields, hx, hf]⟩

theorem dropWhile_append_single {p : Nat → Bool} {x : Nat} (hx : p x = false) :
    ∀ a : Text, (a ++ [x]).dropWhile p = a.dropWhile p ++ [x]
  | [] => by simp [List.dropWhile, hx]
  | c :: a => by
    by_cases hc : p c = true
    · simp [List.dropWhile, hc, dropWhile_append_single hx a]
    · simp [List.dropWhile, hc]

/-- stripping quotes keeps a first character that is not a quote -/
theorem trimQ_head {x : Nat} (w : Text) (hx : x ≠ cliQuote) : (trimQ (x :: w)).head? = some x := by
  unfold trimQ
  have hq : ((x == cliQuote) = false) := by simpa using hx
  have h1 : (x :: w).dropWhile (· == cliQuote) = x :: w := by simp [List.dropWhile, hq]
  rw [h1, List.reverse_cons, dropWhile_append_single (p := (· == cliQuote)) hq, List.reverse_append]
  simp

/-- `"s"` and `s` strip to `s` -/
def quoteIf (b : Bool) (s : Text) : Text := if b then cliQuote :: (s ++ [cliQuote]) else s

theorem trimQ_quoteIf (b : Bool) {s : Text} (h1 : s.head? ≠ some cliQuote) (h2 : s.getLast? ≠ some cliQuote) :
    trimQ (quoteIf b s) = s := by
  cases b with
  | false => exact trimQ_eq h1 h2
  | true =>
    cases s with
    | nil => decide
    | cons c cs =>
      have hc : ((c == cliQuote) = false) := by
        have : c ≠ cliQuote := fun e => h1 (by simp [e])
        simpa using this
      unfold quoteIf trimQ
      simp only [if_true]
      have hd : (cliQuote :: (c :: cs ++ [cliQuote])).dropWhile (· == cliQuote) = c :: cs ++ [cliQuote] := by
        simp [List.dropWhile, hc]
      rw [hd]
      have hr : (c :: cs ++ [cliQuote]).reverse.dropWhile (· == cliQuote) = (c :: cs).reverse := by
        rw [List.reverse_append]
        have : (c :: cs).reverse.dropWhile (· == cliQuote) = (c :: cs).reverse := by
          apply dropWhile_head
          intro a ha
          rw [List.head?_reverse] at ha
          have : a ≠ cliQuote := fun e => h2 (e ▸ ha)
          simpa using this
        simp only [List.reverse_cons, List.reverse_nil, List.nil_append, List.singleton_append] at this ⊢
        simp [List.dropWhile, this]
      rw [hr, List.reverse_reverse]

end Chewing.Cli
