import Chewing.Proofs.CliSort
/-!
The trie back end at the level of entry lists: invariant of the builder, what the built trie
contains (the last record of every (syllables, phrase) pair), and the round trip
`entries (build (entries m)) = entries m` including order.
-/
namespace Chewing.Cli
open Chewing List

def mkRec (k : Key) (pf : PF) : Rec := { phrase := pf.1, freq := pf.2, syls := k }

def keysOf (m : TrieM) : List Key := m.map (·.1)

/-- distinct keys; every leaf non-empty with distinct phrase texts -/
def TrieInv (m : TrieM) : Prop :=
  (keysOf m).Nodup ∧ ∀ e ∈ m, (e.2.map (·.1)).Nodup ∧ e.2 ≠ []

theorem flatMap_congr' {α β : Type} {l : List α} {f g : α → List β} (h : ∀ x ∈ l, f x = g x) :
    l.flatMap f = l.flatMap g := by
  induction l with
  | nil => rfl
  | cons a l ih =>
    simp only [List.flatMap_cons]
    rw [h a (List.mem_cons_self), ih (fun x hx => h x (List.mem_cons_of_mem _ hx))]

/-! ### `upsert` -/

theorem upsert_new : ∀ (ps : List PF) (p : Text) (f : Nat), p ∉ ps.map (·.1) → upsert ps p f = ps ++ [(p, f)]
  | [], _, _, _ => rfl
  | (q, g) :: rest, p, f, h => by
    have hq : q ≠ p := fun e => h (by simp [e])
    have hr : p ∉ rest.map (·.1) := fun e => h (by simp [e])
    simp [upsert, hq, upsert_new rest p f hr]

theorem upsert_texts : ∀ (ps : List PF) (p : Text) (f : Nat),
    (upsert ps p f).map (·.1) = if p ∈ ps.map (·.1) then ps.map (·.1) else ps.map (·.1) ++ [p]
  | [], _, _ => by simp [upsert]
  | (q, g) :: rest, p, f => by
    by_cases hq : q = p
    · subst hq; simp [upsert]
    · have ih := upsert_texts rest p f
      have hq' : ¬ p = q := fun e => hq e.symm
      have hmem : (p ∈ ((q, g) :: rest).map (·.1)) ↔ p ∈ rest.map (·.1) := by
        simp only [List.map_cons, List.mem_cons]
        exact ⟨fun h => h.resolve_left hq', Or.inr⟩
      unfold upsert
      simp only [hq, if_false, List.map_cons, ih]
      by_cases hm : p ∈ rest.map (·.1)
      · rw [if_pos hm, if_pos (List.mem_cons_of_mem _ hm)]
      · rw [if_neg hm, if_neg (fun h => (List.mem_cons.mp h).elim hq' hm)]
        rfl

theorem upsert_ne_nil (ps : List PF) (p : Text) (f : Nat) : upsert ps p f ≠ [] := by
  cases ps with
  | nil => simp [upsert]
  | cons q rest =>
    obtain ⟨q, g⟩ := q
    unfold upsert
    split <;> simp

theorem upsert_nodup {ps : List PF} (h : (ps.map (·.1)).Nodup) (p : Text) (f : Nat) :
    ((upsert ps p f).map (·.1)).Nodup := by
  rw [upsert_texts]
  split
  · exact h
  · rename_i hm
    exact List.nodup_append.mpr ⟨h, by simp, by
      intro a ha b hb
      simp at hb; subst hb
      exact fun e => hm (e ▸ ha)⟩

/-- membership after `upsert`: the new pair, and the old ones with another text -/
theorem mem_upsert : ∀ {ps : List PF} {p : Text} {f : Nat} {x : PF}, (ps.map (·.1)).Nodup →
    (x ∈ upsert ps p f ↔ x = (p, f) ∨ (x ∈ ps ∧ x.1 ≠ p))
  | [], p, f, x, _ => by simp [upsert]
  | (q, g) :: rest, p, f, x, hn => by
    have hn' := List.nodup_cons.mp (show (q :: rest.map (·.1)).Nodup from hn)
    unfold upsert
    by_cases hq : q = p
    · subst hq
      simp only [if_true, List.mem_cons]
      constructor
      · rintro (h | h)
        · exact Or.inl h
        · refine Or.inr ⟨Or.inr h, ?_⟩
          intro e
          exact hn'.1 (e ▸ List.mem_map_of_mem (f := (·.1)) h)
      · rintro (h | ⟨h | h, hne⟩)
        · exact Or.inl h
        · exact absurd (by rw [h]) hne
        · exact Or.inr h
    · simp only [hq, if_false]
      rw [List.mem_cons, List.mem_cons, mem_upsert (ps := rest) (p := p) (f := f) (x := x) hn'.2]
      constructor
      · rintro (h | h | ⟨h, hne⟩)
        · exact Or.inr ⟨Or.inl h, by rw [h]; exact hq⟩
        · exact Or.inl h
        · exact Or.inr ⟨Or.inr h, hne⟩
      · rintro (h | ⟨h | h, hne⟩)
        · exact Or.inr (Or.inl h)
        · exact Or.inl h
        · exact Or.inr (Or.inr ⟨h, hne⟩)

/-! ### `trieInsert` -/

theorem trieInsert_new : ∀ (m : TrieM) (r : Rec), r.syls ∉ keysOf m →
    trieInsert m r = m ++ [(r.syls, [(r.phrase, r.freq)])]
  | [], _, _ => rfl
  | (k, ps) :: rest, r, h => by
    have hk : k ≠ r.syls := fun e => h (by simp [keysOf, e])
    have hr : r.syls ∉ keysOf rest := fun e => h (by simp [keysOf] at e ⊢; exact Or.inr e)
    simp [trieInsert, hk, trieInsert_new rest r hr]

theorem trieInsert_last : ∀ (acc : TrieM) (k : Key) (ps : List PF) (r : Rec), r.syls = k → k ∉ keysOf acc →
    trieInsert (acc ++ [(k, ps)]) r = acc ++ [(k, upsert ps r.phrase r.freq)]
  | [], k, ps, r, hk, _ => by simp [trieInsert, hk]
  | (k', ps') :: rest, k, ps, r, hk, h => by
    have hne : k' ≠ r.syls := fun e => h (by simp [keysOf, e, hk])
    have hr : k ∉ keysOf rest := fun e => h (by simp [keysOf] at e ⊢; exact Or.inr e)
    simp [trieInsert, hne, trieInsert_last rest k ps r hk hr]

theorem keysOf_trieInsert : ∀ (m : TrieM) (r : Rec),
    keysOf (trieInsert m r) = if r.syls ∈ keysOf m then keysOf m else keysOf m ++ [r.syls]
  | [], r => by simp [trieInsert, keysOf]
  | (k, ps) :: rest, r => by
    by_cases hk : k = r.syls
    · subst hk; simp [trieInsert, keysOf]
    · have ih := keysOf_trieInsert rest r
      have hk' : ¬ r.syls = k := fun e => hk e.symm
      unfold trieInsert
      simp only [hk, if_false]
      show k :: keysOf (trieInsert rest r) = _
      rw [ih]
      by_cases hm : r.syls ∈ keysOf rest
      · rw [if_pos hm, if_pos (show r.syls ∈ keysOf ((k, ps) :: rest) from List.mem_cons_of_mem _ hm)]
        rfl
      · rw [if_neg hm, if_neg (show r.syls ∉ keysOf ((k, ps) :: rest) from
          fun h => (List.mem_cons.mp h).elim hk' hm)]
        rfl

/-- what a leaf of the builder holds after an insert -/
theorem mem_trieInsert : ∀ {m : TrieM} {r : Rec} {k : Key} {pf : PF}, TrieInv m →
    ((∃ ps, (k, ps) ∈ trieInsert m r ∧ pf ∈ ps) ↔
      (k = r.syls ∧ pf = (r.phrase, r.freq)) ∨
      ((∃ ps, (k, ps) ∈ m ∧ pf ∈ ps) ∧ ¬ (k = r.syls ∧ pf.1 = r.phrase)))
  | [], r, k, pf, _ => by
    simp only [trieInsert, List.mem_singleton, Prod.mk.injEq, List.not_mem_nil, false_and, exists_false, or_false]
    constructor
    · rintro ⟨ps, ⟨rfl, rfl⟩, h⟩
      exact ⟨rfl, by simpa using h⟩
    · rintro ⟨rfl, rfl⟩
      exact ⟨_, ⟨rfl, rfl⟩, by simp⟩
  | (k', ps') :: rest, r, k, pf, hinv => by
    have hn := List.nodup_cons.mp (show (k' :: keysOf rest).Nodup from hinv.1)
    have hinv' : TrieInv rest := ⟨hn.2, fun e he => hinv.2 e (List.mem_cons_of_mem _ he)⟩
    have hps' := (hinv.2 (k', ps') (List.mem_cons_self)).1
    unfold trieInsert
    by_cases hk : k' = r.syls
    · subst hk
      simp only [if_true, List.mem_cons, Prod.mk.injEq]
      constructor
      · rintro ⟨ps, (⟨rfl, rfl⟩ | h), hpf⟩
        · rcases (mem_upsert hps').mp hpf with h | ⟨h, hne⟩
          · exact Or.inl ⟨rfl, h⟩
          · exact Or.inr ⟨⟨ps', Or.inl ⟨rfl, rfl⟩, h⟩, fun c => hne c.2⟩
        · refine Or.inr ⟨⟨ps, Or.inr h, hpf⟩, ?_⟩
          rintro ⟨rfl, _⟩
          exact hn.1 (List.mem_map_of_mem (f := (·.1)) h)
      · rintro (⟨rfl, rfl⟩ | ⟨⟨ps, (⟨rfl, rfl⟩ | h), hpf⟩, hne⟩)
        · exact ⟨_, Or.inl ⟨rfl, rfl⟩, (mem_upsert hps').mpr (Or.inl rfl)⟩
        · exact ⟨_, Or.inl ⟨rfl, rfl⟩, (mem_upsert hps').mpr (Or.inr ⟨hpf, fun c => hne ⟨rfl, c⟩⟩)⟩
        · exact ⟨ps, Or.inr h, hpf⟩
    · simp only [hk, if_false, List.mem_cons, Prod.mk.injEq]
      have ih := mem_trieInsert (m := rest) (r := r) (k := k) (pf := pf) hinv'
      constructor
      · rintro ⟨ps, (⟨rfl, rfl⟩ | h), hpf⟩
        · exact Or.inr ⟨⟨ps, Or.inl ⟨rfl, rfl⟩, hpf⟩, fun c => hk c.1⟩
        · rcases ih.mp ⟨ps, h, hpf⟩ with h | ⟨⟨ps2, h2, hpf2⟩, hne⟩
          · exact Or.inl h
          · exact Or.inr ⟨⟨ps2, Or.inr h2, hpf2⟩, hne⟩
      · rintro (h | ⟨⟨ps, (⟨rfl, rfl⟩ | h), hpf⟩, hne⟩)
        · obtain ⟨ps, h1, h2⟩ := ih.mpr (Or.inl h)
          exact ⟨ps, Or.inr h1, h2⟩
        · exact ⟨ps, Or.inl ⟨rfl, rfl⟩, hpf⟩
        · obtain ⟨ps2, h1, h2⟩ := ih.mpr (Or.inr ⟨⟨ps, h, hpf⟩, hne⟩)
          exact ⟨ps2, Or.inr h1, h2⟩

theorem trieInsert_inv : ∀ {m : TrieM} (r : Rec), TrieInv m → TrieInv (trieInsert m r)
  | [], r, _ => by
    simp [trieInsert, TrieInv, keysOf]
  | (k, ps) :: rest, r, hinv => by
    have hn := List.nodup_cons.mp (show (k :: keysOf rest).Nodup from hinv.1)
    have hinv' : TrieInv rest := ⟨hn.2, fun e he => hinv.2 e (List.mem_cons_of_mem _ he)⟩
    refine ⟨?_, ?_⟩
    · rw [keysOf_trieInsert]
      split
      · exact hinv.1
      · rename_i hm
        exact List.nodup_append.mpr ⟨hinv.1, by simp, by
          intro a ha b hb
          simp at hb; subst hb
          exact fun e => hm (e ▸ ha)⟩
    · unfold trieInsert
      by_cases hk : k = r.syls
      · simp only [hk, if_true]
        intro e he
        rcases List.mem_cons.mp he with rfl | he
        · exact ⟨upsert_nodup (hinv.2 (k, ps) (List.mem_cons_self)).1 _ _, upsert_ne_nil _ _ _⟩
        · exact hinv.2 e (List.mem_cons_of_mem _ he)
      · simp only [hk, if_false]
        intro e he
        rcases List.mem_cons.mp he with rfl | he
        · exact hinv.2 (k, ps) (List.mem_cons_self)
        · exact (trieInsert_inv r hinv').2 e he

theorem foldl_trieInsert_inv : ∀ (rs : List Rec) {m : TrieM}, TrieInv m → TrieInv (rs.foldl trieInsert m)
  | [], _, h => h
  | r :: rs, _, h => foldl_trieInsert_inv rs (trieInsert_inv r h)

theorem trieBuild_inv (rs : List Rec) : TrieInv (trieBuild rs) :=
  foldl_trieInsert_inv rs ⟨by simp [keysOf], by simp⟩

/-! ### `lookup` -/

theorem lookup_of_mem : ∀ {m : TrieM} {k : Key} {ps : List PF}, (keysOf m).Nodup → (k, ps) ∈ m → lookup m k = ps
  | (k', ps') :: rest, k, ps, hn, h => by
    have hn' := List.nodup_cons.mp (show (k' :: keysOf rest).Nodup from hn)
    unfold lookup
    rcases List.mem_cons.mp h with h | h
    · cases h; simp
    · have hne : k' ≠ k := fun e => hn'.1 (e ▸ List.mem_map_of_mem (f := (·.1)) h)
      have : ((k' == k) = false) := by simpa using hne
      simp only [List.find?_cons, this]
      exact lookup_of_mem hn'.2 h

theorem lookup_map (S : Key → List PF) : ∀ (O : List Key) {k : Key}, k ∈ O →
    lookup (O.map fun k => (k, S k)) k = S k
  | k' :: rest, k, h => by
    unfold lookup
    by_cases e : k' = k
    · subst e; simp
    · have : ((k' == k) = false) := by simpa using e
      simp only [List.map_cons, List.find?_cons, this]
      exact lookup_map S rest ((List.mem_cons.mp h).resolve_left (fun c => e c.symm))

theorem lookup_none {m : TrieM} {k : Key} (h : k ∉ keysOf m) : lookup m k = [] := by
  unfold lookup
  have : m.find? (fun e => e.1 == k) = none := by
    apply List.find?_eq_none.mpr
    intro e he
    have hm : e.1 ∈ keysOf m := List.mem_map_of_mem (f := (·.1)) he
    have : e.1 ≠ k := fun c => h (c ▸ hm)
    simpa using this
  rw [this]

theorem list_rev_ind {α : Type} {P : List α → Prop} (nil : P []) (snoc : ∀ l a, P l → P (l ++ [a])) :
    ∀ l, P l := by
  have h : ∀ l : List α, P l.reverse := by
    intro l
    induction l with
    | nil => simpa using nil
    | cons a l ih => rw [List.reverse_cons]; exact snoc _ _ ih
  intro l
  simpa using h l.reverse

theorem exists_of_mem_keys {m : TrieM} {k : Key} (h : k ∈ keysOf m) : ∃ ps, (k, ps) ∈ m := by
  obtain ⟨e, he, rfl⟩ := List.mem_map.mp h
  exact ⟨e.2, he⟩

/-! ### building from grouped entries -/

theorem foldl_group_tail : ∀ (Q P : List PF) (acc : TrieM) (k : Key), k ∉ keysOf acc →
    ((P ++ Q).map (·.1)).Nodup →
    (Q.map (mkRec k)).foldl trieInsert (acc ++ [(k, P)]) = acc ++ [(k, P ++ Q)]
  | [], P, acc, k, _, _ => by simp
  | q :: Q, P, acc, k, hk, hn => by
    have hq : q.1 ∉ P.map (·.1) := by
      intro hm
      rw [List.map_append] at hn
      have := (List.nodup_append.mp hn).2.2 _ hm q.1 (by simp)
      exact this rfl
    have hn' : (((P ++ [q]) ++ Q).map (·.1)).Nodup := by simpa using hn
    simp only [List.map_cons, List.foldl_cons]
    rw [trieInsert_last acc k P (mkRec k q) rfl hk]
    show List.foldl trieInsert (acc ++ [(k, upsert P q.1 q.2)]) _ = _
    rw [upsert_new P q.1 q.2 hq, foldl_group_tail Q (P ++ [q]) acc k hk hn']
    simp

theorem foldl_group (Q : List PF) (acc : TrieM) (k : Key) (hk : k ∉ keysOf acc)
    (hn : (Q.map (·.1)).Nodup) (hne : Q ≠ []) :
    (Q.map (mkRec k)).foldl trieInsert acc = acc ++ [(k, Q)] := by
  cases Q with
  | nil => exact absurd rfl hne
  | cons q Q =>
    simp only [List.map_cons, List.foldl_cons]
    rw [trieInsert_new acc (mkRec k q) hk]
    exact foldl_group_tail Q [q] acc k hk hn

theorem foldl_groups (S : Key → List PF) : ∀ (O : List Key) (acc : TrieM), O.Nodup →
    (∀ k ∈ O, k ∉ keysOf acc) → (∀ k ∈ O, ((S k).map (·.1)).Nodup ∧ S k ≠ []) →
    (O.flatMap fun k => (S k).map (mkRec k)).foldl trieInsert acc = acc ++ O.map fun k => (k, S k)
  | [], acc, _, _, _ => by simp
  | k :: O, acc, hn, hd, hs => by
    have hn' := List.nodup_cons.mp hn
    simp only [List.flatMap_cons, List.foldl_append, List.map_cons]
    rw [foldl_group (S k) acc k (hd k (List.mem_cons_self)) (hs k (List.mem_cons_self)).1
      (hs k (List.mem_cons_self)).2]
    rw [foldl_groups S O (acc ++ [(k, S k)]) hn'.2]
    · simp
    · intro k' hk' hm
      simp only [keysOf, List.map_append, List.map_cons, List.map_nil, List.mem_append, List.mem_singleton] at hm
      rcases hm with hm | hm
      · exact hd k' (List.mem_cons_of_mem _ hk') hm
      · exact hn'.1 (hm ▸ hk')
    · exact fun k' hk' => hs k' (List.mem_cons_of_mem _ hk')

/-! ### the round trip -/

theorem trieEntries_eq (m : TrieM) :
    trieEntries m = (trieOrder (keysOf m)).flatMap fun k => (phraseSort (lookup m k)).map (mkRec k) := rfl

/-- the leaves of the visiting order are well-formed groups -/
theorem groups_ok {m : TrieM} (hinv : TrieInv m) :
    ∀ k ∈ trieOrder (keysOf m), ((phraseSort (lookup m k)).map (·.1)).Nodup ∧ phraseSort (lookup m k) ≠ [] := by
  intro k hk
  have hk' : k ∈ keysOf m := (trieOrder_perm _).mem_iff.mp hk
  obtain ⟨ps, hps⟩ := exists_of_mem_keys hk'
  rw [lookup_of_mem hinv.1 hps]
  have := hinv.2 _ hps
  have p := phraseSort_perm ps
  refine ⟨(p.map (·.1)).nodup_iff.mpr this.1, ?_⟩
  intro e
  rw [e] at p
  exact this.2 p.symm.eq_nil

/-- inserting the enumerated entries into a fresh builder gives one leaf per key, in the order
    and with the contents of the enumeration -/
theorem trieBuild_entries {m : TrieM} (hinv : TrieInv m) :
    trieBuild (trieEntries m) = (trieOrder (keysOf m)).map fun k => (k, phraseSort (lookup m k)) := by
  have hn : (trieOrder (keysOf m)).Nodup := (trieOrder_perm _).nodup_iff.mpr hinv.1
  have := foldl_groups (fun k => phraseSort (lookup m k)) (trieOrder (keysOf m)) [] hn
    (by simp [keysOf]) (groups_ok hinv)
  simpa [trieBuild, trieEntries_eq] using this

/-- **trie round trip, order included** -/
theorem trie_roundtrip {m : TrieM} (hinv : TrieInv m) :
    trieEntries (trieBuild (trieEntries m)) = trieEntries m := by
  rw [trieBuild_entries hinv, trieEntries_eq, trieEntries_eq]
  have hk : keysOf ((trieOrder (keysOf m)).map fun k => (k, phraseSort (lookup m k))) = trieOrder (keysOf m) := by
    simp [keysOf, List.map_map, Function.comp_def]
  rw [hk, trieOrder_idem]
  apply flatMap_congr'
  intro k hk
  rw [lookup_map (fun k => phraseSort (lookup m k)) _ hk, phraseSort_idem]

/-- … and the stored order of every leaf (the lookup order) is the same as well -/
theorem trie_roundtrip_lookup {m : TrieM} (hinv : TrieInv m) (k : Key) :
    trieLookup (trieBuild (trieEntries m)) k = trieLookup m k := by
  unfold trieLookup
  rw [trieBuild_entries hinv]
  by_cases hk : k ∈ trieOrder (keysOf m)
  · rw [lookup_map (fun k => phraseSort (lookup m k)) _ hk, phraseSort_idem]
  · have h1 : lookup ((trieOrder (keysOf m)).map fun k => (k, phraseSort (lookup m k))) k = [] := by
      apply lookup_none
      simpa [keysOf, List.map_map, Function.comp_def] using hk
    have h2 : lookup m k = [] := lookup_none (fun c => hk ((trieOrder_perm _).mem_iff.mpr c))
    rw [h1, h2]

/-! ### what the dump of a built trie contains -/

/-- `x` is in `rs` and no later record has the same syllables and phrase -/
def LastWins (rs : List Rec) (x : Rec) : Prop :=
  ∃ pre post, rs = pre ++ x :: post ∧ ∀ y ∈ post, ¬ (y.syls = x.syls ∧ y.phrase = x.phrase)

theorem lastWins_snoc {rs : List Rec} {r x : Rec} :
    LastWins (rs ++ [r]) x ↔ x = r ∨ (LastWins rs x ∧ ¬ (r.syls = x.syls ∧ r.phrase = x.phrase)) := by
  constructor
  · rintro ⟨pre, post, e, h⟩
    rcases List.eq_nil_or_concat post with rfl | ⟨post', y, rfl⟩
    · have := List.append_inj' (t₁ := [r]) (t₂ := [x]) (by simpa using e) rfl
      exact Or.inl (by simpa using this.2.symm)
    · have e' : rs ++ [r] = (pre ++ x :: post') ++ [y] := by simpa using e
      have := List.append_inj' e' rfl
      obtain ⟨h1, h2⟩ := this
      have hy : r = y := by simpa using h2
      subst hy
      refine Or.inr ⟨⟨pre, post', h1, fun z hz => h z (by simp [hz])⟩, h r (by simp)⟩
  · rintro (rfl | ⟨⟨pre, post, rfl, h⟩, hne⟩)
    · exact ⟨rs, [], rfl, by simp⟩
    · refine ⟨pre, post ++ [r], by simp, ?_⟩
      intro y hy
      rcases List.mem_append.mp hy with hy | hy
      · exact h y hy
      · simp at hy; subst hy; exact hne

/-- the leaves of the builder hold exactly the last record of every (syllables, phrase) pair -/
theorem mem_foldl_trieInsert : ∀ (rs : List Rec) (k : Key) (pf : PF),
    (∃ ps, (k, ps) ∈ trieBuild rs ∧ pf ∈ ps) ↔ LastWins rs (mkRec k pf) := by
  intro rs
  induction rs using list_rev_ind with
  | nil =>
    intro k pf
    simp [trieBuild, LastWins]
  | snoc rs r ih =>
    intro k pf
    have hb : trieBuild (rs ++ [r]) = trieInsert (trieBuild rs) r := by simp [trieBuild, List.foldl_append]
    rw [hb, mem_trieInsert (trieBuild_inv rs), lastWins_snoc, ih]
    constructor
    · rintro (⟨rfl, rfl⟩ | ⟨h, hne⟩)
      · exact Or.inl rfl
      · exact Or.inr ⟨h, fun c => hne ⟨c.1.symm, c.2.symm⟩⟩
    · rintro (h | ⟨h, hne⟩)
      · left
        cases r
        simp only [mkRec, Rec.mk.injEq] at h
        obtain ⟨h1, h2, h3⟩ := h
        subst h1 h2 h3
        exact ⟨rfl, rfl⟩
      · exact Or.inr ⟨h, fun c => hne ⟨c.1.symm, c.2.symm⟩⟩

theorem mem_trieEntries {m : TrieM} (hinv : TrieInv m) (x : Rec) :
    x ∈ trieEntries m ↔ ∃ ps, (x.syls, ps) ∈ m ∧ (x.phrase, x.freq) ∈ ps := by
  rw [trieEntries_eq]
  simp only [List.mem_flatMap, List.mem_map]
  constructor
  · rintro ⟨k, hk, pf, hpf, rfl⟩
    have hk' : k ∈ keysOf m := (trieOrder_perm _).mem_iff.mp hk
    obtain ⟨ps, hps⟩ := exists_of_mem_keys hk'
    rw [lookup_of_mem hinv.1 hps] at hpf
    exact ⟨ps, hps, (phraseSort_perm ps).mem_iff.mp hpf⟩
  · rintro ⟨ps, hps, hpf⟩
    refine ⟨x.syls, (trieOrder_perm _).mem_iff.mpr (List.mem_map_of_mem (f := (·.1)) hps), (x.phrase, x.freq), ?_, rfl⟩
    rw [lookup_of_mem hinv.1 hps]
    exact (phraseSort_perm ps).mem_iff.mpr hpf

/-- **the dump of a compiled trie lists exactly the last record of every (syllables, phrase)** -/
theorem mem_trie_entries_iff (rs : List Rec) (x : Rec) :
    x ∈ trieEntries (trieBuild rs) ↔ LastWins rs x := by
  rw [mem_trieEntries (trieBuild_inv rs), mem_foldl_trieInsert]
  rfl

end Chewing.Cli
