import Chewing.Proofs.TrieLink
import Chewing.Proofs.Utf8Order
import Chewing.Proofs.CliTrie
import Chewing.Proofs.CliLeaf
/-!
# CliTrieLink — C20's entry-list model of the trie back end is C11's byte-level file

C20 (`Model/Cli.lean`) models the trie file the compiler builds at the level of entry lists:
`trieBuild` (insert = replace the same (key, text) in place, else append), `trieLookup` (the leaf,
stably sorted by the comparator of `write`), `trieEntries`.  Here these are derived from C11's
byte-level model for the **concrete file** `TrieBuilder::write` produces:

* `lookup_trieBuild` — C20's builder holds, for every key, the phrase vector of C11's reference map
  (`C11.insert_semantics` / `builder_is_map`: last record per (syllables, phrase) wins, in place);
* `phraseLess_ofPhrase` — C20's transcription of the comparator (code points, `Gen.trieMixedCmp` arm)
  is C11's (UTF-8 bytes) on Rust strings (`Utf8Order.lexLt_utf8Enc`);
* `phraseSort_map` — C20's leaf sort is C11's `sortLeaf`; `tp_phraseLess`, `leaf_sort_any_stable` — the
  comparator is a total preorder on Rust strings, so **every** stable sort returns the model's leaf:
  the former assumption "std's insertion sort for ≤ 20 elements" on mixed leaves is discharged;
* **`trie_backend_is_C11`** — for the bytes written from the compiler's records: the file opens, the
  real reader's exact lookup of every key is C20's `dictLookup .trie`, and `entries()` yields exactly
  the records of C20's `entries .trie` (as a set; the enumeration *order* is proved by C11 only up to
  permutation and stays validated by correspondence).
-/
namespace Chewing.CliTrieLink
open Chewing Chewing.Cli Chewing.StableSort

/-- a compiler record as a `TrieBuilder::insert` call (`Phrase::new(phrase, freq)`: no timestamp) -/
def toEntry (r : Cli.Rec) : Entry := (r.syls, { text := r.phrase, freq := r.freq })
/-- what C20's model keeps of a phrase -/
def ofPhrase (p : Phrase) : PF := (p.text, p.freq)
def toPhrase (pf : PF) : Phrase := { text := pf.1, freq := pf.2 }
/-- an enumerated entry as the record `dump` prints -/
def ofEntry (e : Entry) : Cli.Rec := { phrase := e.2.text, freq := e.2.freq, syls := e.1 }

/-- a record as the Rust types constrain it: `Syllable`s — non-zero `u16` codes that `Syllable::try_from` accepts
    (`validCode`: the invariant of the type since the repair of C13's finding F47, required by C11's `ValidEntry`;
    the compiler obtains its syllables from the spelling parser, which yields such codes only) —, a `String`,
    a `u32` -/
def ValidRec (r : Cli.Rec) : Prop :=
  (∀ s ∈ r.syls, 0 < s ∧ s < 65536 ∧ validCode s = true) ∧ (∀ c ∈ r.phrase, Der.IsScalar c) ∧ r.freq < 2 ^ 32

theorem validEntry_toEntry {r : Cli.Rec} (h : ValidRec r) : TrieCodec.ValidEntry (toEntry r) :=
  ⟨h.1, h.2.1, h.2.2, fun _ e => by cases e⟩

/-! ## insert semantics -/

theorem upsert_map (ps : List Phrase) (p : Phrase) :
    (TrieCodec.upsert ps p).map ofPhrase = Cli.upsert (ps.map ofPhrase) p.text p.freq := by
  induction ps with
  | nil => rfl
  | cons q qs ih =>
    simp only [TrieCodec.upsert, List.map_cons, ofPhrase, Cli.upsert]
    by_cases e : q.text = p.text
    · simp [e, ofPhrase]
    · simp only [e, if_false, List.map_cons]
      rw [← ih]
      rfl

theorem lookup_trieInsert (m : TrieM) (r : Cli.Rec) (k : Key) :
    Cli.lookup (trieInsert m r) k = if k = r.syls then Cli.upsert (Cli.lookup m k) r.phrase r.freq else Cli.lookup m k := by
  induction m with
  | nil =>
    simp only [trieInsert, Cli.lookup, List.find?_cons, List.find?_nil]
    by_cases e : k = r.syls
    · subst e; simp [Cli.upsert]
    · have : (r.syls == k) = false := by simpa using fun c => e c.symm
      simp [this, e]
  | cons x rest ih =>
    obtain ⟨k0, ps⟩ := x
    simp only [trieInsert]
    by_cases e0 : k0 = r.syls
    · simp only [e0, if_true]
      by_cases e : k = r.syls
      · subst e; simp [Cli.lookup]
      · have hb : (r.syls == k) = false := by simpa using fun c => e c.symm
        simp [Cli.lookup, hb, e]
    · simp only [e0, if_false]
      by_cases e1 : k0 = k
      · subst e1
        have : ¬ k0 = r.syls := e0
        simp [Cli.lookup, this]
      · have hb : (k0 == k) = false := by simpa using e1
        have h1 : Cli.lookup ((k0, ps) :: trieInsert rest r) k = Cli.lookup (trieInsert rest r) k := by
          simp [Cli.lookup, hb]
        have h2 : Cli.lookup ((k0, ps) :: rest) k = Cli.lookup rest k := by simp [Cli.lookup, hb]
        rw [h1, h2]
        exact ih

/-- **insert semantics**: C20's builder holds for every key the phrase vector of C11's reference map
    (`C11.builder_is_map`) -/
theorem lookup_trieBuild (rs : List Cli.Rec) (k : Key) :
    Cli.lookup (trieBuild rs) k = ((TrieCodec.refFind (rs.map toEntry) k).getD []).map ofPhrase := by
  unfold trieBuild TrieCodec.refFind
  have key : ∀ (rs : List Cli.Rec) (m : TrieM) (acc : Option (List Phrase)),
      Cli.lookup m k = (acc.getD []).map ofPhrase →
      Cli.lookup (rs.foldl trieInsert m) k =
        (((rs.map toEntry).foldl (fun acc e => if e.1 = k then some (TrieCodec.upsert (acc.getD []) e.2) else acc) acc).getD []).map ofPhrase := by
    intro rs
    induction rs with
    | nil => intro m acc h; exact h
    | cons r rs ih =>
      intro m acc h
      simp only [List.foldl_cons, List.map_cons]
      apply ih
      rw [lookup_trieInsert]
      by_cases e : k = r.syls
      · have e' : (toEntry r).1 = k := e.symm
        rw [if_pos e, if_pos e', h]
        simp only [Option.getD_some]
        rw [upsert_map]
        rfl
      · have e' : ¬ (toEntry r).1 = k := fun c => e c.symm
        rw [if_neg e, if_neg e', h]
  exact key rs [] none rfl

/-! ## the comparator and the leaf sort -/

theorem textLt_eq_lexLt (a b : Text) (ha : ∀ c ∈ a, Der.IsScalar c) (hb : ∀ c ∈ b, Der.IsScalar c) :
    Cli.textLt a b = TrieCodec.lexLt (Der.utf8Enc a) (Der.utf8Enc b) :=
  (Utf8Order.lexLt_utf8Enc a b (fun c hc => Utf8Order.scalar_lt (ha c hc)) (fun c hc => Utf8Order.scalar_lt (hb c hc))).symm

/-- C20's transcription of the comparator of `TrieBuilder::write` (with the arm regenerated from the
    source, `Gen.trieMixedCmp`) is C11's on Rust strings -/
theorem phraseLess_ofPhrase (a b : Phrase) (ha : ∀ c ∈ a.text, Der.IsScalar c) (hb : ∀ c ∈ b.text, Der.IsScalar c) :
    phraseLess (ofPhrase a) (ofPhrase b) = TrieCodec.phraseLt a b := by
  unfold phraseLess phraseLessM TrieCodec.phraseLt ofPhrase
  have hm : (Gen.trieMixedCmp == 0) = false := by decide
  by_cases h1 : a.text.length = 1 <;> by_cases h2 : b.text.length = 1
  · simp [h1, h2]
  · simp [h1, h2, hm]
  · simp [h1, h2, hm]
  · have e1 : (a.text.length == 1) = false := by simpa using h1
    have e2 : (b.text.length == 1) = false := by simpa using h2
    simp only [e1, e2, Bool.and_self, Bool.or_self, Bool.false_eq_true, if_false, h1, h2, false_and]
    by_cases hf : a.freq = b.freq
    · have e3 : (a.freq == b.freq) = true := by simpa using hf
      rw [if_pos hf]
      simp only [e3, if_true]
      exact textLt_eq_lexLt _ _ hb ha
    · have e3 : (a.freq == b.freq) = false := by simpa using hf
      rw [if_neg hf]
      simp only [e3, Bool.false_eq_true, if_false]

/-- **C20's leaf = C11's leaf** -/
theorem phraseSort_map (ps : List Phrase) (hv : ∀ p ∈ ps, ∀ c ∈ p.text, Der.IsScalar c) :
    phraseSort (ps.map ofPhrase) = (TrieCodec.sortLeaf ps).map ofPhrase := by
  unfold phraseSort TrieCodec.sortLeaf
  rw [stableSort_eq_sortBy]
  exact sortBy_map TrieCodec.phraseLt phraseLess ofPhrase ps
    (fun a ha b hb => phraseLess_ofPhrase a b (hv a ha) (hv b hb))

/-- phrases that are Rust strings -/
def ValidPF (pf : PF) : Prop := ∀ c ∈ pf.1, Der.IsScalar c

/-- the comparator of C20's model is a total preorder on Rust strings (pulled back from C11's
    `comparator_total_preorder`) -/
theorem tp_phraseLess : TPOn phraseLess ValidPF :=
  TPOn.pullback TrieLink.tp_phraseLt phraseLess ValidPF toPhrase (fun _ _ => trivial)
    (fun a b ha hb => phraseLess_ofPhrase (toPhrase a) (toPhrase b) ha hb)

/-- **every stable sort gives the model's leaf** — also for leaves mixing one-character and longer
    phrases: a list that is sorted by the comparator and keeps every class of equally-ranked phrases in
    insertion order is `phraseSort ps` -/
theorem leaf_sort_any_stable (ps r : List PF) (hps : ∀ p ∈ ps, ValidPF p) (hr : ∀ p ∈ r, ValidPF p)
    (hs : Sorted phraseLess r) (hst : StableOf phraseLess ValidPF ps r) : r = phraseSort ps := by
  unfold phraseSort
  rw [stableSort_eq_sortBy]
  exact stable_sort_is_sortBy tp_phraseLess ps r hps hr hs hst

/-! ## the concrete file -/

theorem mem_trieEntries_lookup {m : TrieM} (hinv : TrieInv m) (x : Cli.Rec) :
    x ∈ trieEntries m ↔ (x.phrase, x.freq) ∈ Cli.lookup m x.syls := by
  rw [mem_trieEntries hinv]
  constructor
  · rintro ⟨ps, h1, h2⟩
    rw [lookup_of_mem hinv.1 h1]; exact h2
  · intro h
    by_cases hk : x.syls ∈ keysOf m
    · obtain ⟨ps, hps⟩ := exists_of_mem_keys hk
      rw [lookup_of_mem hinv.1 hps] at h
      exact ⟨ps, hps, h⟩
    · rw [lookup_none hk] at h; cases h

/-- **C20's trie back end is C11's byte-level file.**  `rs` are the records the compiler inserts (valid
    for the Rust types), `bytes` what `TrieBuilder::write` produced for them.  Then `Trie::new` opens the
    bytes with the metadata written, and for the real reader
    * `lookup_all_phrases(key)` of every key of non-zero syllables is, as (text, frequency) pairs,
      C20's `dictLookup .trie rs key` — same phrases, same order;
    * `entries()` enumerates exactly the records of C20's `entries .trie rs`. -/
theorem trie_backend_is_C11 (info : TrieCodec.Info) (hinfo : TrieCodec.ValidInfo info) (rs : List Cli.Rec)
    (hv : ∀ r ∈ rs, ValidRec r) (bytes : Der.Bytes)
    (hw : (TrieCodec.Builder.ofEntries info (rs.map toEntry)).write = some bytes) :
    ∃ tr, TrieCodec.openTrie bytes = some tr ∧ TrieCodec.about tr = info ∧
      (∀ k, C11.ValidKey k → (TrieCodec.lookupAll tr k .standard).map ofPhrase = dictLookup .trie rs k) ∧
      ∃ ents, TrieCodec.entries tr = .ok ents ∧ ∀ x, x ∈ ents.map ofEntry ↔ x ∈ Cli.entries .trie rs := by
  have hve : ∀ e ∈ rs.map toEntry, TrieCodec.ValidEntry e := by
    intro e he
    obtain ⟨r, hr, rfl⟩ := List.mem_map.mp he
    exact validEntry_toEntry (hv r hr)
  have hvi : C11.ValidInput info (rs.map toEntry) := ⟨hinfo, hve⟩
  have hscalar : ∀ k, ∀ p ∈ (TrieCodec.refFind (rs.map toEntry) k).getD [], ∀ c ∈ p.text, Der.IsScalar c := by
    intro k p hp
    exact (hve _ (TrieLink.mem_refFind hp)).2.1
  obtain ⟨tr, hopen, hlook⟩ := C11.lookup_correct info _ hvi bytes hw
  obtain ⟨t2, ho2, habout⟩ := C11.info_roundtrip info _ hvi bytes hw
  obtain ⟨t3, ho3, groups, ⟨hgnd, hgmem⟩, hent⟩ := C11.entries_correct info _ hvi bytes hw
  have e2 : t2 = tr := Option.some.inj (ho2.symm.trans hopen)
  have e3 : t3 = tr := Option.some.inj (ho3.symm.trans hopen)
  rw [e2] at habout
  rw [e3] at hent
  refine ⟨tr, hopen, habout, ?_, _, hent, ?_⟩
  · intro k hk
    rw [hlook k hk]
    show (TrieCodec.sortLeaf ((TrieCodec.refFind (rs.map toEntry) k).getD [])).map ofPhrase = trieLookup (trieBuild rs) k
    unfold trieLookup
    rw [lookup_trieBuild, phraseSort_map _ (hscalar k)]
  · intro x
    show _ ↔ x ∈ trieEntries (trieBuild rs)
    rw [mem_trieEntries_lookup (trieBuild_inv rs), lookup_trieBuild]
    simp only [List.mem_map, List.mem_flatMap]
    constructor
    · rintro ⟨e, ⟨g, hg, p, hp, rfl⟩, rfl⟩
      obtain ⟨k, ps⟩ := g
      have hr : TrieCodec.refFind (rs.map toEntry) k = some ps := ((hgmem k ps).mp hg).1
      refine ⟨p, ?_, rfl⟩
      simp only [ofEntry]
      rw [hr]
      exact TrieCodec.mem_sortBy.mp hp
    · rintro ⟨p, hp, hpx⟩
      cases hr : TrieCodec.refFind (rs.map toEntry) x.syls with
      | none => rw [hr] at hp; cases hp
      | some ps =>
        rw [hr] at hp
        refine ⟨(x.syls, p), ⟨(x.syls, ps), (hgmem _ _).mpr ⟨hr, trivial⟩, p, TrieCodec.mem_sortBy.mpr hp, rfl⟩, ?_⟩
        simp only [ofPhrase, Prod.mk.injEq] at hpx
        cases x
        simp only [ofEntry] at hpx ⊢
        rw [hpx.1, hpx.2]

end Chewing.CliTrieLink
