import Chewing.Proofs.CliTrieLink
/-!
# CliTrieOrder — the dump ORDER of the trie back end is the real reader's

`Proofs/CliTrieLink.lean` derives C20's entry-list model of the trie back end from C11's byte-level file up
to the order in which `Trie::entries()` visits the keys.  With C11's `entries_order` (the enumeration of a
written file as an equation between lists) the last gap closes: for the bytes `TrieBuilder::write` produced
from the compiler's records, the real reader's `entries()` **is** the model's `entries .trie rs` — same
records, same order (`trie_entries_exact`), hence `chewing-cli dump` prints the model's lines in the model's
order (`trie_dump_exact`).
-/
namespace Chewing.CliTrieLink
open Chewing Chewing.Cli

theorem mem_keysOf_foldl (k : Key) : ∀ (rs : List Cli.Rec) (m : TrieM),
    k ∈ keysOf (rs.foldl trieInsert m) ↔ k ∈ keysOf m ∨ k ∈ rs.map (·.syls) := by
  intro rs
  induction rs with
  | nil => intro m; simp
  | cons r rs ih =>
    intro m
    simp only [List.foldl_cons, List.map_cons, List.mem_cons]
    rw [ih, keysOf_trieInsert]
    by_cases hm : r.syls ∈ keysOf m
    · rw [if_pos hm]
      constructor
      · rintro (h | h)
        · exact Or.inl h
        · exact Or.inr (Or.inr h)
      · rintro (h | h | h)
        · exact Or.inl h
        · exact Or.inl (h ▸ hm)
        · exact Or.inr h
    · rw [if_neg hm]
      simp only [List.mem_append, List.mem_singleton]
      constructor
      · rintro ((h | h) | h)
        · exact Or.inl h
        · exact Or.inr (Or.inl h)
        · exact Or.inr (Or.inr h)
      · rintro (h | h | h)
        · exact Or.inl (Or.inl h)
        · exact Or.inl (Or.inr h)
        · exact Or.inr h

/-- the keys of C20's builder are the keys of the inserted records -/
theorem mem_keysOf_trieBuild (rs : List Cli.Rec) (k : Key) : k ∈ keysOf (trieBuild rs) ↔ k ∈ rs.map (·.syls) := by
  unfold trieBuild
  rw [mem_keysOf_foldl]
  simp [keysOf]

/-- **the enumeration of the concrete file IS the model's**: `rs` the records the compiler inserts (valid for
    the Rust types), `bytes` what `TrieBuilder::write` produced for them; then `Trie::new` opens the bytes and the
    real reader's `entries()` yields, as records, exactly the list `entries .trie rs` of C20's model — the keys in
    the order `trieOrder` (no longer "up to permutation"), under each key the leaf in written order -/
theorem trie_entries_exact (info : TrieCodec.Info) (hinfo : TrieCodec.ValidInfo info) (rs : List Cli.Rec)
    (hv : ∀ r ∈ rs, ValidRec r) (bytes : Der.Bytes)
    (hw : (TrieCodec.Builder.ofEntries info (rs.map toEntry)).write = some bytes) :
    ∃ tr, TrieCodec.openTrie bytes = some tr ∧
      ∃ ents, TrieCodec.entries tr = .ok ents ∧ ents.map ofEntry = Cli.entries .trie rs := by
  have hve : ∀ e ∈ rs.map toEntry, TrieCodec.ValidEntry e := by
    intro e he
    obtain ⟨r, hr, rfl⟩ := List.mem_map.mp he
    exact validEntry_toEntry (hv r hr)
  have hvi : C11.ValidInput info (rs.map toEntry) := ⟨hinfo, hve⟩
  have hscalar : ∀ k, ∀ p ∈ (TrieCodec.refFind (rs.map toEntry) k).getD [], ∀ c ∈ p.text, Der.IsScalar c := by
    intro k p hp
    exact (hve _ (TrieLink.mem_refFind hp)).2.1
  obtain ⟨tr, hopen, hent⟩ := C11.entries_order info (rs.map toEntry) hvi bytes hw (keysOf (trieBuild rs))
    (trieBuild_inv rs).1 (fun k => by
      rw [mem_keysOf_trieBuild, C11.inserted_some_iff, List.map_map]
      rfl)
  refine ⟨tr, hopen, _, hent, ?_⟩
  show _ = trieEntries (trieBuild rs)
  rw [trieEntries_eq, List.map_flatMap]
  refine Cli.flatMap_congr' (fun k _ => ?_)
  rw [lookup_trieBuild, phraseSort_map _ (hscalar k), List.map_map, List.map_map]
  rfl

/-- … so the lines `chewing-cli dump` prints for that file are the model's, in the model's order -/
theorem trie_dump_exact (info : TrieCodec.Info) (hinfo : TrieCodec.ValidInfo info) (rs : List Cli.Rec)
    (hv : ∀ r ∈ rs, ValidRec r) (bytes : Der.Bytes)
    (hw : (TrieCodec.Builder.ofEntries info (rs.map toEntry)).write = some bytes) (csv : Bool) :
    ∃ tr ents, TrieCodec.openTrie bytes = some tr ∧ TrieCodec.entries tr = .ok ents ∧
      Cli.dump csv (ents.map ofEntry) = Cli.dump csv (Cli.entries .trie rs) := by
  obtain ⟨tr, ho, ents, he, heq⟩ := trie_entries_exact info hinfo rs hv bytes hw
  exact ⟨tr, ents, ho, he, by rw [heq]⟩

end Chewing.CliTrieLink
