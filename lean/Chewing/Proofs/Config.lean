import Chewing.Model.Config
/-!
Lemmas about the configuration model (C16): field access, the write-back of `set_int`, context-free
row checks that the kernel evaluates over the generated tables, and frame lemmas (which call touches
which part of the context).
-/
namespace Chewing.Config
open Chewing Chewing.Gen.Cfg

-- ---------------------------------------------------------------------------------------------
-- association lists

theorem assoc_mem {α β : Type} [DecidableEq α] {a : α} {b : β} {l : List (α × β)}
    (h : assoc a l = some b) : (a, b) ∈ l := by
  induction l with
  | nil => simp [assoc] at h
  | cons p es ih =>
    obtain ⟨k, x⟩ := p
    unfold assoc at h
    split at h
    · next hk => cases h; subst hk; exact List.mem_cons_self
    · exact List.mem_cons_of_mem _ (ih h)

theorem assoc_none {α β : Type} [DecidableEq α] {a : α} {l : List (α × β)}
    (h : a ∉ l.map Prod.fst) : assoc a l = none := by
  induction l with
  | nil => rfl
  | cons p es ih =>
    obtain ⟨k, x⟩ := p
    simp only [List.map_cons, List.mem_cons, not_or] at h
    unfold assoc
    rw [if_neg h.1]
    exact ih h.2

theorem assoc_key_mem {α β : Type} [DecidableEq α] {a : α} {b : β} {l : List (α × β)}
    (h : assoc a l = some b) : a ∈ l.map Prod.fst :=
  List.mem_map.mpr ⟨(a, b), assoc_mem h, rfl⟩

-- ---------------------------------------------------------------------------------------------
-- option fields

theorem Options.get_set_eq (o : Options) (i v : Nat) (h : i < nFields) : (o.set i v).get i = v := by
  unfold nFields at h
  match i, h with
  | 0, _ | 1, _ | 2, _ | 3, _ | 4, _ | 5, _ | 6, _ | 7, _ | 8, _ | 9, _ | 10, _ | 11, _ | 12, _ | 13, _ => rfl

theorem Options.get_set_ne (o : Options) (i j v : Nat) (h : i ≠ j) : (o.set i v).get j = o.get j := by
  unfold Options.set
  split <;> (unfold Options.get; split <;> first | rfl | omega)

/-- the last value written to field `f`, if any -/
def lastWrite (f : Nat) : List (Nat × Nat) → Option Nat
  | [] => none
  | (g, x) :: ws =>
    match lastWrite f ws with
    | some y => some y
    | none => if g = f then some x else none

theorem lastWrite_cons (f g x : Nat) (ws : List (Nat × Nat)) :
    lastWrite f ((g, x) :: ws) =
      match lastWrite f ws with
      | some y => some y
      | none => if g = f then some x else none := rfl

theorem get_applyWrites (ws : List (Nat × Nat)) (o : Options) (f : Nat)
    (hws : ∀ w ∈ ws, w.1 < nFields) :
    (applyWrites ws o).get f = (lastWrite f ws).getD (o.get f) := by
  induction ws generalizing o with
  | nil => rfl
  | cons w ws ih =>
    obtain ⟨g, x⟩ := w
    have hws' : ∀ w ∈ ws, w.1 < nFields := fun w hw => hws w (List.mem_cons_of_mem _ hw)
    have hg : g < nFields := hws (g, x) List.mem_cons_self
    show (applyWrites ws (o.set g x)).get f = _
    rw [ih _ hws', lastWrite_cons]
    cases hl : lastWrite f ws with
    | some y => rfl
    | none =>
      by_cases hgf : g = f
      · subst hgf; simp [Options.get_set_eq _ _ _ hg]
      · simp [hgf, Options.get_set_ne _ _ _ _ hgf]

theorem lastWrite_none {f : Nat} {ws : List (Nat × Nat)} (h : f ∉ ws.map Prod.fst) : lastWrite f ws = none := by
  induction ws with
  | nil => rfl
  | cons w ws ih =>
    obtain ⟨g, x⟩ := w
    simp only [List.map_cons, List.mem_cons, not_or] at h
    rw [lastWrite_cons, ih h.2]
    simp [Ne.symm h.1]

-- ---------------------------------------------------------------------------------------------
-- set_int / get_int

def decode : GetRule → Nat → Int
  | .cast, x => x
  | .enum arms, x => (assoc x arms).getD illTyped

theorem readRule_eq (f : Nat) (g : GetRule) (c : Ctx) : readRule f g c = decode g (c.opts.get f) := by
  cases g <;> rfl

/-- what `get_int name` returns after the field writes `ws`, when `ws` determines it -/
def readAfter (name : String) (ws : List (Nat × Nat)) : Option Int :=
  (assoc name getIntArms).bind fun (f, g) => (lastWrite f ws).map (decode g)

/-- context-free check of one (option, value): accepted, and the getter then returns the value -/
def rowRoundTrip (name : String) (v : Int) : Bool :=
  match setIntEffect name v with
  | some (ws, _) => ws.all (fun w => decide (w.1 < nFields)) && (readAfter name ws == some v)
  | none => false

theorem setInt_of_none {name : String} {v : Int} (c : Ctx) (h : setIntEffect name v = none) :
    setInt name v c = (c, ERROR) := by
  unfold setInt; rw [h]

theorem setInt_of_some {name : String} {v : Int} {ws : List (Nat × Nat)} {e : Option Nat} (c : Ctx)
    (h : setIntEffect name v = some (ws, e)) :
    setInt name v c = ({ c with opts := applyWrites ws c.opts, engine := e.getD c.engine }, OK) := by
  unfold setInt; rw [h]

theorem rowRoundTrip_sound {name : String} {v : Int} (h : rowRoundTrip name v = true) (c : Ctx) :
    (setInt name v c).2 = OK ∧ getInt name (setInt name v c).1 = v := by
  unfold rowRoundTrip at h
  cases he : setIntEffect name v with
  | none => rw [he] at h; cases h
  | some p =>
    obtain ⟨ws, e⟩ := p
    rw [he] at h
    simp only [Bool.and_eq_true, List.all_eq_true, decide_eq_true_eq, beq_iff_eq] at h
    obtain ⟨hws, hr⟩ := h
    rw [setInt_of_some c he]
    refine ⟨rfl, ?_⟩
    unfold readAfter at hr
    unfold getInt
    cases hg : assoc name getIntArms with
    | none => rw [hg] at hr; cases hr
    | some q =>
      obtain ⟨f, g⟩ := q
      rw [hg] at hr
      simp only [Option.bind_some, Option.map_eq_some_iff] at hr
      obtain ⟨x, hx, hd⟩ := hr
      show readRule f g _ = v
      rw [readRule_eq]
      show decode g ((applyWrites ws c.opts).get f) = v
      rw [get_applyWrites ws c.opts f hws, hx]
      exact hd

/-- the fields an arm can write (independent of the value) -/
def ruleFields (f : Nat) : SetRule → List Nat
  | .engine _ => [lookupStrategyField, f]
  | _ => [f]

theorem ruleEffect_fields {f : Nat} {rule : SetRule} {v : Int} {ws : List (Nat × Nat)} {e : Option Nat}
    (h : ruleEffect f rule v = some (ws, e)) : ∀ w ∈ ws, w.1 ∈ ruleFields f rule := by
  cases rule with
  | bool =>
    simp only [ruleEffect] at h
    split at h
    · simp only [Option.some.injEq, Prod.mk.injEq] at h
      obtain ⟨rfl, _⟩ := h
      intro w hw; simp at hw; subst hw; simp [ruleFields]
    · simp at h
  | num rej =>
    simp only [ruleEffect] at h
    split at h
    · simp at h
    · simp only [Option.some.injEq, Prod.mk.injEq] at h
      obtain ⟨rfl, _⟩ := h
      intro w hw; simp at hw; subst hw; simp [ruleFields]
  | enum arms =>
    simp only [ruleEffect, Option.map_eq_some_iff, Prod.mk.injEq] at h
    obtain ⟨var, _, rfl, _⟩ := h
    intro w hw; simp at hw; subst hw; simp [ruleFields]
  | engine arms =>
    simp only [ruleEffect, Option.map_eq_some_iff, Prod.mk.injEq] at h
    obtain ⟨⟨e', s, k⟩, _, rfl, _⟩ := h
    intro w hw; simp at hw
    rcases hw with rfl | rfl <;> simp [ruleFields]

/-- table check: the getter of every *other* option reads a field that the setter of `name` never writes -/
def framesOK : Bool :=
  setIntArms.all fun (n, f, rule) =>
    getIntArms.all fun (n', f', _) => n' == n || !(ruleFields f rule).contains f'

theorem getInt_setInt_other (h : framesOK = true) {name name' : String} (hne : name' ≠ name) (v : Int) (c : Ctx) :
    getInt name' (setInt name v c).1 = getInt name' c := by
  cases he : setIntEffect name v with
  | none => rw [setInt_of_none c he]
  | some p =>
    obtain ⟨ws, e⟩ := p
    rw [setInt_of_some c he]
    unfold getInt
    cases hg : assoc name' getIntArms with
    | none => rfl
    | some q =>
      obtain ⟨f', g⟩ := q
      show readRule f' g _ = readRule f' g c
      rw [readRule_eq, readRule_eq]
      show decode g ((applyWrites ws c.opts).get f') = _
      -- the row of `name`
      unfold setIntEffect at he
      split at he
      · cases he
      · cases hs : assoc name setIntArms with
        | none => rw [hs] at he; cases he
        | some r =>
          obtain ⟨f, rule⟩ := r
          rw [hs] at he
          simp only [Option.bind_some] at he
          have hfields := ruleEffect_fields he
          unfold framesOK at h
          rw [List.all_eq_true] at h
          have h1 := h _ (assoc_mem hs)
          simp only [List.all_eq_true] at h1
          have h2 := h1 _ (assoc_mem hg)
          simp only [Bool.or_eq_true, beq_iff_eq, Bool.not_eq_true', hne, false_or] at h2
          have hnot : f' ∉ ws.map Prod.fst := by
            intro hm
            obtain ⟨w, hw, hwf⟩ := List.mem_map.mp hm
            have := hfields w hw
            rw [hwf] at this
            have hc : (ruleFields f rule).contains f' = true := List.contains_iff_mem.mpr this
            rw [hc] at h2; cases h2
          -- no write to f': the fold leaves it alone
          have : ∀ (ws : List (Nat × Nat)) (o : Options), f' ∉ ws.map Prod.fst → (applyWrites ws o).get f' = o.get f' := by
            intro ws
            induction ws with
            | nil => intro o _; rfl
            | cons w ws ih =>
              intro o hn
              obtain ⟨g', x⟩ := w
              simp only [List.map_cons, List.mem_cons, not_or] at hn
              show (applyWrites ws (o.set g' x)).get f' = _
              rw [ih _ hn.2, Options.get_set_ne _ _ _ _ (Ne.symm hn.1)]
          rw [this ws c.opts hnot]

-- frame: set_int touches only `opts` and `engine`
theorem setInt_kbCompat (name : String) (v : Int) (c : Ctx) : (setInt name v c).1.kbCompat = c.kbCompat := by
  unfold setInt; split <;> rfl
theorem setInt_keyboard (name : String) (v : Int) (c : Ctx) : (setInt name v c).1.keyboard = c.keyboard := by
  unfold setInt; split <;> rfl
theorem setInt_syl (name : String) (v : Int) (c : Ctx) : (setInt name v c).1.syl = c.syl := by
  unfold setInt; split <;> rfl
theorem setInt_selKeys (name : String) (v : Int) (c : Ctx) : (setInt name v c).1.selKeys = c.selKeys := by
  unfold setInt; split <;> rfl

theorem legacySet_kb (fn : String) (v : Int) (c : Ctx) :
    (legacySet fn v c).kbCompat = c.kbCompat ∧ (legacySet fn v c).keyboard = c.keyboard ∧
    (legacySet fn v c).syl = c.syl ∧ (legacySet fn v c).selKeys = c.selKeys := by
  unfold legacySet
  split
  · exact ⟨setInt_kbCompat _ _ _, setInt_keyboard _ _ _, setInt_syl _ _ _, setInt_selKeys _ _ _⟩
  · exact ⟨rfl, rfl, rfl, rfl⟩

-- ---------------------------------------------------------------------------------------------
-- integer ranges as lists (to let the kernel enumerate a documented range)

def intRange (lo hi : Int) : List Int := (List.range (hi + 1 - lo).toNat).map fun (i : Nat) => lo + (i : Int)

theorem mem_intRange {lo hi v : Int} (h1 : lo ≤ v) (h2 : v ≤ hi) : v ∈ intRange lo hi := by
  unfold intRange
  refine List.mem_map.mpr ⟨(v - lo).toNat, List.mem_range.mpr ?_, ?_⟩ <;> omega

-- ---------------------------------------------------------------------------------------------
-- selection keys

theorem utf8Size_ascii (s : Text) (h : ∀ x ∈ s, x < 128) : utf8Size s = s.length := by
  induction s with
  | nil => rfl
  | cons x xs ih =>
    have hx : x < 128 := h x List.mem_cons_self
    have := ih fun y hy => h y (List.mem_cons_of_mem _ hy)
    unfold utf8Size at *
    simp only [List.map_cons, List.sum_cons, List.length_cons, this]
    unfold utf8Len
    rw [if_pos (by omega)]
    omega

theorem utf8Size_ge_length (s : Text) : s.length ≤ utf8Size s := by
  induction s with
  | nil => exact Nat.le_refl _
  | cons x xs ih =>
    unfold utf8Size at *
    simp only [List.map_cons, List.sum_cons, List.length_cons]
    have : 1 ≤ utf8Len x := by unfold utf8Len; split <;> (try split) <;> (try split) <;> omega
    omega

theorem padKeys_of_length (ks : List Int) (h : ks.length = maxSelKey) : padKeys ks = ks := by
  unfold padKeys
  rw [List.take_append_of_le_length (by omega), List.take_of_length_le (by omega)]

theorem selKeysText_ofNat (s : Text) (h : ∀ x ∈ s, x < 128) :
    (s.map Int.ofNat).map (fun k => (k % 256).toNat) = s := by
  induction s with
  | nil => rfl
  | cons x xs ih =>
    have hx : x < 128 := h x List.mem_cons_self
    simp only [List.map_cons]
    rw [ih fun y hy => h y (List.mem_cons_of_mem _ hy)]
    congr 1
    show ((x : Int) % 256).toNat = x
    omega

end Chewing.Config
