import Chewing.Model.ConversionSpec
/-!
Basic lemmas for the conversion proofs: slices, gaps, interval chains.
-/
namespace Chewing.Conv

/-! ### slices -/

theorem mem_slice_iff {c : Composition} {s e : Nat} {sym : Sym} :
    sym ∈ slice c s e ↔ ∃ i, s ≤ i ∧ i < e ∧ c.symbols[i]? = some sym := by
  unfold slice
  rw [List.mem_iff_getElem?]
  constructor
  · rintro ⟨j, hj⟩
    rw [List.getElem?_take] at hj
    split at hj
    · rw [List.getElem?_drop] at hj
      exact ⟨s + j, by omega, by omega, hj⟩
    · cases hj
  · rintro ⟨i, h1, h2, h3⟩
    refine ⟨i - s, ?_⟩
    rw [List.getElem?_take, if_pos (by omega), List.getElem?_drop]
    rw [show s + (i - s) = i by omega]
    exact h3

theorem slice_length {c : Composition} {s e : Nat} (h : e ≤ c.symbols.length) :
    (slice c s e).length = e - s := by
  unfold slice
  rw [List.length_take, List.length_drop]
  omega

theorem slice_getElem? {c : Composition} {s e j : Nat} :
    (slice c s e)[j]? = if j < e - s then c.symbols[s + j]? else none := by
  unfold slice
  rw [List.getElem?_take]
  split
  · rw [List.getElem?_drop]
  · rfl

theorem sylPrefix_length_of_all {l : List Sym} (h : ∀ sym ∈ l, sym.isSyl = true) :
    (sylPrefix l).length = l.length := by
  induction l with
  | nil => rfl
  | cons x r ih =>
    cases x with
    | syl k =>
      simp only [sylPrefix, List.length_cons]
      rw [ih (fun sym hs => h sym (List.mem_cons_of_mem _ hs))]
    | chr cp =>
      have := h (.chr cp) (List.mem_cons_self ..)
      simp [Sym.isSyl] at this

/-! ### breaks -/

theorem hasBreakInside_eq_false_iff {c : Composition} {s e : Nat} :
    hasBreakInside c s e = false ↔ ∀ i, s < i → i < e → gapAt c i ≠ some Gap.brk := by
  unfold hasBreakInside
  rw [List.any_eq_false]
  constructor
  · intro h i h1 h2
    have := h i (List.mem_range'_1.mpr ⟨by omega, by omega⟩)
    simpa using this
  · intro h i hi
    have := List.mem_range'_1.mp hi
    simpa using h i (by omega) (by omega)

/-! ### interval predicates -/

theorem intersectRange_eq_true {x : Interval} {s e : Nat} :
    x.intersectRange s e = true ↔ max x.start s < min x.stop e := by
  simp [Interval.intersectRange]

theorem isContainedBy_eq_true {x : Interval} {s e : Nat} :
    x.isContainedBy s e = true ↔ s ≤ x.start ∧ x.stop ≤ e := by
  simp [Interval.isContainedBy]

theorem intersect_comm (a b : Interval) : a.intersect b = b.intersect a := by
  simp only [Interval.intersect, Interval.intersectRange, Nat.max_comm a.start, Nat.min_comm a.stop]

theorem intersect_eq_false {a b : Interval} : a.intersect b = false ↔ ¬ (max a.start b.start < min a.stop b.stop) := by
  simp [Interval.intersect, Interval.intersectRange]

theorem slice_one {c : Composition} {i : Nat} {sym : Sym} (h : c.symbols[i]? = some sym) : slice c i (i + 1) = [sym] := by
  obtain ⟨hi, rfl⟩ := List.getElem?_eq_some_iff.mp h
  unfold slice
  rw [List.drop_eq_getElem_cons hi, show i + 1 - i = 1 by omega]
  rfl

/-! ### interval chains -/

theorem IvChain.le {a b : Nat} {l : List Interval} (h : IvChain a b l) : a ≤ b := by
  induction l generalizing a with
  | nil => exact Nat.le_of_eq h
  | cons x r ih =>
    obtain ⟨h1, h2, h3⟩ := h
    have := ih h3
    omega

theorem IvChain.append {a m b : Nat} {l₁ l₂ : List Interval} (h₁ : IvChain a m l₁) (h₂ : IvChain m b l₂) :
    IvChain a b (l₁ ++ l₂) := by
  induction l₁ generalizing a with
  | nil => cases h₁; exact h₂
  | cons x r ih =>
    obtain ⟨h1, h2, h3⟩ := h₁
    exact ⟨h1, h2, ih h3⟩

theorem IvChain.append_single {a m : Nat} {l : List Interval} {x : Interval} (h : IvChain a m l)
    (hs : x.start = m) (hlt : x.start < x.stop) : IvChain a x.stop (l ++ [x]) :=
  h.append ⟨hs, hlt, rfl⟩

theorem IvChain.split_last {a b : Nat} {l : List Interval} {x : Interval} (h : IvChain a b (l ++ [x])) :
    IvChain a x.start l ∧ x.start < x.stop ∧ x.stop = b := by
  induction l generalizing a with
  | nil =>
    obtain ⟨h1, h2, h3⟩ := h
    exact ⟨h1.symm, h2, h3⟩
  | cons y r ih =>
    obtain ⟨h1, h2, h3⟩ := h
    obtain ⟨i1, i2, i3⟩ := ih h3
    exact ⟨⟨h1, h2, i1⟩, i2, i3⟩

/-- every position of `[a, b)` lies in exactly one interval of a chain; existence: -/
theorem IvChain.covers {a b : Nat} {l : List Interval} (h : IvChain a b l) {i : Nat} (h1 : a ≤ i) (h2 : i < b) :
    ∃ iv ∈ l, iv.start ≤ i ∧ i < iv.stop := by
  induction l generalizing a with
  | nil => cases h; omega
  | cons x r ih =>
    obtain ⟨e1, e2, e3⟩ := h
    by_cases hi : i < x.stop
    · exact ⟨x, List.mem_cons_self .., by omega, hi⟩
    · obtain ⟨iv, hm, hiv⟩ := ih e3 (by omega)
      exact ⟨iv, List.mem_cons_of_mem _ hm, hiv⟩

theorem IvChain.mem_bounds {a b : Nat} {l : List Interval} (h : IvChain a b l) {iv : Interval} (hm : iv ∈ l) :
    a ≤ iv.start ∧ iv.start < iv.stop ∧ iv.stop ≤ b := by
  induction l generalizing a with
  | nil => cases hm
  | cons x r ih =>
    obtain ⟨e1, e2, e3⟩ := h
    rcases List.mem_cons.mp hm with rfl | hm
    · exact ⟨by omega, e2, e3.le⟩
    · have := ih e3 hm
      omega

/-- the spelled-out tiling contract follows from the chain form -/
theorem IvChain.tiling {n : Nat} {p : List Interval} (h : IvChain 0 n p) : Tiling p n := by
  refine ⟨fun iv hm => (h.mem_bounds hm).2.1, ?_, ?_, ?_⟩
  · intro i hi
    suffices ∀ (a b : Nat) (l : List Interval), IvChain a b l → ∀ i (h : i + 1 < l.length), l[i].stop = l[i + 1].start by
      exact this 0 n p h i hi
    intro a b l
    induction l generalizing a with
    | nil => intro _ i h; simp at h
    | cons x r ih =>
      intro hc i hi
      obtain ⟨e1, e2, e3⟩ := hc
      cases i with
      | zero =>
        cases r with
        | nil => simp at hi
        | cons y r' => exact e3.1.symm
      | succ j =>
        simp only [List.getElem_cons_succ]
        exact ih _ e3 j (by simpa using hi)
  · cases p with
    | nil => rfl
    | cons x r => exact h.1
  · suffices ∀ (a b : Nat) (l : List Interval), IvChain a b l → (l.getLast?.map (·.stop)).getD a = b by
      exact this 0 n p h
    intro a b l
    induction l generalizing a with
    | nil => intro hc; exact hc
    | cons x r ih =>
      intro hc
      obtain ⟨e1, e2, e3⟩ := hc
      have := ih _ e3
      cases r with
      | nil => simpa using this
      | cons y r' =>
        rw [List.getLast?_cons_cons, ← this]
        have hne : (y :: r').getLast? = some ((y :: r').getLast (by simp)) := List.getLast?_eq_some_getLast _
        rw [hne]; rfl

end Chewing.Conv
