import Chewing.Proofs.ConvGlue
/-!
Soundness of `ChewingEngine::convert` (any strategy, any pick oracle): every alternative is the glue
fold of a chain of graph edges from `0` to `len`, hence a chain of intervals satisfying the invariants.
-/
namespace Chewing.Conv

/-- shape of every alternative -/
theorem convertChewing_shape {pick : Nat → List Path → Nat} {d : Dict} {strat : Strategy} {c : Composition}
    {alts : List (List Interval)} (h : convertChewing pick d strat c = .ok alts) :
    ∀ alt ∈ alts, (c.symbols.length = 0 ∧ alt = []) ∨
      ∃ es path, findIntervals d strat c = .ok es ∧ IsChain es 0 c.symbols.length path ∧ alt = gluePath c path := by
  intro alt halt
  unfold convertChewing at h
  split at h
  · rename_i h0
    cases Outcome.ok.inj h
    simp only [List.mem_singleton] at halt
    exact Or.inl ⟨h0, halt⟩
  · split at h
    · rename_i paths hraw
      unfold rawPaths at hraw
      split at hraw
      · rename_i es hes
        have hchain := findKPaths_chain hraw
        unfold finishPaths at h
        split at h
        · cases h
        · split at h
          · rename_i sorted hsorted
            cases Outcome.ok.inj h
            obtain ⟨path, hp, rfl⟩ := List.mem_map.mp halt
            have := trimPaths_sub path ((sortPaths_mem hsorted path).mp hp)
            exact Or.inr ⟨es, path, hes, hchain path this, rfl⟩
          · cases h
          · cases h
      · cases hraw
      · cases hraw
    · cases h
    · cases h

theorem convertChewing_inv1 {pick : Nat → List Path → Nat} {d : Dict} {strat : Strategy} {c : Composition}
    {alts : List (List Interval)} (hc : CompValid c)
    (h : convertChewing pick d strat c = .ok alts) :
    ∀ alt ∈ alts, IvChain 0 c.symbols.length alt ∧ ∀ iv ∈ alt, IvInv1 d strat c iv := by
  intro alt halt
  rcases convertChewing_shape h alt halt with ⟨h0, rfl⟩ | ⟨es, path, hes, hchain, rfl⟩
  · exact ⟨h0.symm, fun _ hm => by cases hm⟩
  · have hedge := fun e he => findIntervals_edge hes (edge := e) he
    have hlt : ∀ e ∈ es, e.start < e.stop := fun e he => (hedge e he).1.lt
    refine gluePath_spec (fun a b ha hb pa pb hg hm la lb => inv1_merge a b ha hb pa pb hg hm la lb)
      (hchain.toIvChain hlt) ?_
    intro iv hiv
    obtain ⟨e, he, rfl⟩ := List.mem_map.mp hiv
    have hE := hchain.mem he
    exact edge_inv1 (hedge e hE).1 (hlt e hE) (hedge e hE).2.2.2 hc

theorem convertChewing_inv2 {pick : Nat → List Path → Nat} {d : Dict} {strat : Strategy} {c : Composition}
    {alts : List (List Interval)} (hc : CompValid c) (hw : WellFormed d) (hh : HasWord d strat c)
    (h : convertChewing pick d strat c = .ok alts) :
    ∀ alt ∈ alts, ∀ iv ∈ alt, IvInv2 c iv := by
  intro alt halt
  rcases convertChewing_shape h alt halt with ⟨h0, rfl⟩ | ⟨es, path, hes, hchain, rfl⟩
  · exact fun _ hm => by cases hm
  · have hedge := fun e he => findIntervals_edge hes (edge := e) he
    have hlt : ∀ e ∈ es, e.start < e.stop := fun e he => (hedge e he).1.lt
    have := gluePath_spec (P := fun iv => IvInv1 d strat c iv ∧ IvInv2 c iv) (c := c)
      (fun a b ha hb pa pb hg hm la lb =>
        ⟨inv1_merge a b ha.1 hb.1 pa pb hg hm la lb, inv2_merge hc a b ha hb hm la lb⟩)
      (hchain.toIvChain hlt) (by
        intro iv hiv
        obtain ⟨e, he, rfl⟩ := List.mem_map.mp hiv
        have hE := hchain.mem he
        exact ⟨edge_inv1 (hedge e hE).1 (hlt e hE) (hedge e hE).2.2.2 hc,
          edge_inv2 (hedge e hE).1 (hlt e hE) (hedge e hE).2.2.2 hc hw hh⟩)
    exact fun iv hiv => (this.2 iv hiv).2

/-- the exact text shape of every interval, with or without a word per syllable -/
theorem convertChewing_inv3 {pick : Nat → List Path → Nat} {d : Dict} {strat : Strategy} {c : Composition}
    {alts : List (List Interval)} (hc : CompValid c) (hw : WellFormed d)
    (h : convertChewing pick d strat c = .ok alts) :
    ∀ alt ∈ alts, ∀ iv ∈ alt, IvInv3 d strat c iv := by
  intro alt halt
  rcases convertChewing_shape h alt halt with ⟨h0, rfl⟩ | ⟨es, path, hes, hchain, rfl⟩
  · exact fun _ hm => by cases hm
  · have hedge := fun e he => findIntervals_edge hes (edge := e) he
    have hlt : ∀ e ∈ es, e.start < e.stop := fun e he => (hedge e he).1.lt
    have := gluePath_spec (P := fun iv => IvInv3 d strat c iv) (c := c)
      (fun a b ha hb _ _ hg hm la lb => inv3_merge a b ha hb hg hm la lb)
      (hchain.toIvChain hlt) (by
        intro iv hiv
        obtain ⟨e, he, rfl⟩ := List.mem_map.mp hiv
        have hE := hchain.mem he
        exact edge_inv3 (hedge e hE).1 (hlt e hE) (hedge e hE).2.2.2 hc hw)
    exact this.2

end Chewing.Conv
