import Chewing.Proofs.ConvBasic
/-!
The displayed string of a tiling whose intervals have one character per symbol: every interval's text
sits over its own symbols.
-/
namespace Chewing.Conv

theorem display_cons (x : Interval) (r : List Interval) : display (x :: r) = x.text ++ display r := by
  simp [display]

theorem display_length {a b : Nat} {l : List Interval} (h : IvChain a b l)
    (hl : ∀ iv ∈ l, iv.text.length = iv.stop - iv.start) : (display l).length = b - a := by
  induction l generalizing a with
  | nil => cases h; simp [display]
  | cons x r ih =>
    obtain ⟨h1, h2, h3⟩ := h
    rw [display_cons, List.length_append, ih h3 (fun iv hm => hl iv (List.mem_cons_of_mem _ hm)),
      hl x (List.mem_cons_self ..)]
    have := h3.le
    omega

theorem display_at {a b : Nat} {l : List Interval} (h : IvChain a b l)
    (hl : ∀ iv ∈ l, iv.text.length = iv.stop - iv.start) {iv : Interval} (hm : iv ∈ l) :
    ((display l).drop (iv.start - a)).take (iv.stop - iv.start) = iv.text := by
  induction l generalizing a with
  | nil => cases hm
  | cons x r ih =>
    obtain ⟨h1, h2, h3⟩ := h
    have hx := hl x (List.mem_cons_self ..)
    rw [display_cons]
    rcases List.mem_cons.mp hm with rfl | hm
    · rw [h1, Nat.sub_self, List.drop_zero, ← h1, ← hx, List.take_left']
      rfl
    · have hb := h3.mem_bounds hm
      rw [List.drop_append, List.drop_eq_nil_of_le (by omega), List.nil_append, hx,
        show iv.start - a - (x.stop - x.start) = iv.start - x.stop by omega]
      exact ih h3 (fun iv hm => hl iv (List.mem_cons_of_mem _ hm)) hm

/-- the text shown over `[iv.start + k, iv.start + k + m)` is the corresponding part of `iv.text` -/
theorem textAt_sub {n : Nat} {l : List Interval} (h : IvChain 0 n l)
    (hl : ∀ iv ∈ l, iv.text.length = iv.stop - iv.start) {iv : Interval} (hm : iv ∈ l) {k m : Nat}
    (hkm : k + m ≤ iv.stop - iv.start) :
    textAt l (iv.start + k) (iv.start + k + m) = (iv.text.drop k).take m := by
  have hat := display_at h hl hm
  rw [Nat.sub_zero] at hat
  unfold textAt
  rw [show iv.start + k + m - (iv.start + k) = m by omega, ← List.drop_drop, List.take_drop, ← hat,
    List.take_drop (i := m) (j := k), List.take_take, Nat.min_eq_left hkm]

theorem textAt_interval {n : Nat} {l : List Interval} (h : IvChain 0 n l)
    (hl : ∀ iv ∈ l, iv.text.length = iv.stop - iv.start) {iv : Interval} (hm : iv ∈ l) :
    textAt l iv.start iv.stop = iv.text := by
  have := textAt_sub h hl hm (k := 0) (m := iv.stop - iv.start) (by omega)
  have hb := h.mem_bounds hm
  rw [Nat.add_zero, show iv.start + (iv.stop - iv.start) = iv.stop by omega, List.drop_zero, ← hl iv hm,
    List.take_length] at this
  exact this

end Chewing.Conv
