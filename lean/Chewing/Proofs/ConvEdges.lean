import Chewing.Proofs.ConvBasic
/-!
What `find_best_phrase` / `find_intervals` guarantee about every edge of the interval graph.
-/
namespace Chewing.Conv

/-- what `find_best_phrase` guarantees about an edge it returns -/
structure EdgeOK (d : Dict) (strat : Strategy) (c : Composition) (e : Edge) : Prop where
  nonempty : slice c e.start e.stop ≠ []
  noBreak : hasBreakInside c e.start e.stop = false
  noConflict : selConflict c e.start e.stop = false
  kind : (∃ cp, e.phrase = .chr cp ∧ slice c e.start e.stop = [Sym.chr cp]) ∨
    (∃ p, e.phrase = .phrase p ∧ (∀ sym ∈ slice c e.start e.stop, sym.isSyl = true) ∧
      ((p ∈ d.lookup (sylPrefix (slice c e.start e.stop)) strat ∧
          phraseOk e.start e.stop p c.selections = .ok true) ∨
        (∃ x ∈ c.selections, e.start = x.start ∧ e.stop = x.stop ∧
          p = { text := x.text, freq := 0, lastUsed := none }) ∨
        (∃ k, slice c e.start e.stop = [Sym.syl k] ∧ p = { text := spell k, freq := 0, lastUsed := none } ∧
          pickBest c.selections e.start e.stop (d.lookup [k] strat) none = .ok none ∧
          forcedSel c e.start e.stop = none)))

theorem pickBest_some {sels : List Interval} {s e : Nat} {ps : List Phrase} {best : Option Phrase} {p : Phrase}
    (h : pickBest sels s e ps best = .ok (some p)) :
    best = some p ∨ (p ∈ ps ∧ phraseOk s e p sels = .ok true) := by
  induction ps generalizing best with
  | nil =>
    simp only [pickBest] at h
    exact Or.inl (Outcome.ok.inj h)
  | cons q qs ih =>
    unfold pickBest at h
    split at h
    · rename_i hq
      cases best with
      | none =>
        simp only [if_true] at h
        rcases ih h with h1 | ⟨h1, h2⟩
        · cases h1
          exact Or.inr ⟨List.mem_cons_self .., hq⟩
        · exact Or.inr ⟨List.mem_cons_of_mem _ h1, h2⟩
      | some b =>
        simp only at h
        split at h
        · rcases ih h with h1 | ⟨h1, h2⟩
          · cases h1
            exact Or.inr ⟨List.mem_cons_self .., hq⟩
          · exact Or.inr ⟨List.mem_cons_of_mem _ h1, h2⟩
        · rcases ih h with h1 | ⟨h1, h2⟩
          · exact Or.inl h1
          · exact Or.inr ⟨List.mem_cons_of_mem _ h1, h2⟩
    · rcases ih h with h1 | ⟨h1, h2⟩
      · exact Or.inl h1
      · exact Or.inr ⟨List.mem_cons_of_mem _ h1, h2⟩
    · cases h
    · cases h

theorem forcedSel_some {c : Composition} {s e : Nat} {p : Phrase} (h : forcedSel c s e = some p) :
    ∃ x ∈ c.selections, s = x.start ∧ e = x.stop ∧ p = { text := x.text, freq := 0, lastUsed := none } := by
  unfold forcedSel at h
  rw [Option.map_eq_some_iff] at h
  obtain ⟨x, hx, rfl⟩ := h
  have hm := List.mem_of_find?_eq_some hx
  have hp := List.find?_some hx
  simp only [Bool.and_eq_true, decide_eq_true_eq] at hp
  exact ⟨x, hm, hp.1, hp.2, rfl⟩

theorem spelledSyl_some {l : List Sym} {p : Phrase} (h : spelledSyl l = some p) :
    ∃ k, l = [Sym.syl k] ∧ p = { text := spell k, freq := 0, lastUsed := none } := by
  unfold spelledSyl at h
  split at h
  · exact ⟨_, rfl, (Option.some.inj h).symm⟩
  · cases h

theorem findBestPhrase_ok {d : Dict} {strat : Strategy} {c : Composition} {s e : Nat} {ph : PPhrase}
    (h : findBestPhrase d strat c s e = .ok (some ph)) : EdgeOK d strat c ⟨s, e, ph⟩ := by
  unfold findBestPhrase at h
  split at h
  · cases h
  rename_i hne
  split at h
  · cases h
  rename_i hb
  split at h
  · cases h
  rename_i hc
  have hne' : slice c s e ≠ [] := by simpa using hne
  have hb' : hasBreakInside c s e = false := by simpa using hb
  have hc' : selConflict c s e = false := by simpa using hc
  refine ⟨hne', hb', hc', ?_⟩
  split at h
  · rename_i cp hs
    cases h
    exact Or.inl ⟨cp, rfl, hs⟩
  · rename_i syms hns
    split at h
    · cases h
    rename_i hany
    have hall : ∀ sym ∈ slice c s e, sym.isSyl = true := by
      simpa using hany
    split at h
    · rename_i p hp
      cases h
      rcases pickBest_some hp with h1 | ⟨h1, h2⟩
      · cases h1
      · exact Or.inr ⟨p, rfl, hall, Or.inl ⟨h1, h2⟩⟩
    · rename_i hp
      have h := Outcome.ok.inj h
      rw [Option.map_eq_some_iff] at h
      obtain ⟨p, hp', rfl⟩ := h
      cases hf : forcedSel c s e with
      | some q =>
        rw [hf] at hp'
        cases hp'
        exact Or.inr ⟨_, rfl, hall, Or.inr (Or.inl (forcedSel_some hf))⟩
      | none =>
        rw [hf] at hp'
        obtain ⟨k, hk, rfl⟩ := spelledSyl_some (by simpa using hp')
        refine Or.inr ⟨_, rfl, hall, Or.inr (Or.inr ⟨k, hk, rfl, ?_, rfl⟩)⟩
        rw [hk] at hp
        exact hp
    · cases h
    · cases h

theorem mem_pairs {n b e : Nat} : (b, e) ∈ pairs n ↔ b < n ∧ b ≤ e ∧ e ≤ n := by
  unfold pairs
  simp only [List.mem_flatMap, List.mem_range, List.mem_map, List.mem_range'_1, Prod.mk.injEq]
  constructor
  · rintro ⟨b', hb, e', ⟨h1, h2⟩, rfl, rfl⟩
    omega
  · rintro ⟨h1, h2, h3⟩
    exact ⟨b, h1, e, ⟨h2, by omega⟩, rfl, rfl⟩

theorem collectEdges_mem {d : Dict} {strat : Strategy} {c : Composition} {ps : List (Nat × Nat)} {es : List Edge}
    (h : collectEdges d strat c ps = .ok es) {edge : Edge} (hm : edge ∈ es) :
    (edge.start, edge.stop) ∈ ps ∧ findBestPhrase d strat c edge.start edge.stop = .ok (some edge.phrase) := by
  induction ps generalizing es with
  | nil =>
    simp only [collectEdges] at h
    cases Outcome.ok.inj h
    cases hm
  | cons q qs ih =>
    obtain ⟨b, e⟩ := q
    unfold collectEdges at h
    split at h
    · rename_i r hr
      split at h
      · rename_i es' hes
        have h := Outcome.ok.inj h
        subst h
        cases r with
        | none =>
          obtain ⟨i1, i2⟩ := ih hes hm
          exact ⟨List.mem_cons_of_mem _ i1, i2⟩
        | some ph =>
          rcases List.mem_cons.mp hm with rfl | hm
          · exact ⟨List.mem_cons_self .., hr⟩
          · obtain ⟨i1, i2⟩ := ih hes hm
            exact ⟨List.mem_cons_of_mem _ i1, i2⟩
      · cases h
      · cases h
    · cases h
    · cases h

theorem collectEdges_complete {d : Dict} {strat : Strategy} {c : Composition} {ps : List (Nat × Nat)} {es : List Edge}
    (h : collectEdges d strat c ps = .ok es) {b e : Nat} {ph : PPhrase} (hm : (b, e) ∈ ps)
    (hf : findBestPhrase d strat c b e = .ok (some ph)) : (⟨b, e, ph⟩ : Edge) ∈ es := by
  induction ps generalizing es with
  | nil => cases hm
  | cons q qs ih =>
    obtain ⟨b', e'⟩ := q
    unfold collectEdges at h
    split at h
    · rename_i r hr
      split at h
      · rename_i es' hes
        have h := Outcome.ok.inj h
        subst h
        rcases List.mem_cons.mp hm with heq | hm
        · cases heq
          rw [hf] at hr
          cases Outcome.ok.inj hr
          exact List.mem_cons_self ..
        · have := ih hes hm
          cases r with
          | none => exact this
          | some _ => exact List.mem_cons_of_mem _ this
      · cases h
      · cases h
    · cases h
    · cases h

/-- facts about every edge of `find_intervals` -/
theorem findIntervals_edge {d : Dict} {strat : Strategy} {c : Composition} {es : List Edge}
    (h : findIntervals d strat c = .ok es) {edge : Edge} (hm : edge ∈ es) :
    EdgeOK d strat c edge ∧ edge.start < c.symbols.length ∧ edge.start ≤ edge.stop ∧ edge.stop ≤ c.symbols.length := by
  obtain ⟨h1, h2⟩ := collectEdges_mem h hm
  have := mem_pairs.mp h1
  exact ⟨findBestPhrase_ok h2, this.1, this.2.1, this.2.2⟩

theorem slice_singleton {c : Composition} {s e : Nat} {x : Sym} (h : slice c s e = [x]) :
    s < e ∧ c.symbols[s]? = some x := by
  have h0 : (slice c s e)[0]? = some x := by rw [h]; rfl
  rw [slice_getElem?] at h0
  split at h0
  · exact ⟨by omega, by simpa using h0⟩
  · cases h0

theorem slice_singleton_stop {c : Composition} {s e : Nat} {x : Sym} (h : slice c s e = [x]) (he : e ≤ c.symbols.length) :
    e = s + 1 := by
  have := slice_length (s := s) he
  rw [h] at this
  simp at this
  omega

theorem slice_empty {c : Composition} {s : Nat} : slice c s s = [] := by
  simp [slice]

/-- every edge is non-empty: `find_best_phrase` answers `None` for an empty range whatever the
    dictionary stores under the empty key (F39 repaired) -/
theorem EdgeOK.lt {d : Dict} {strat : Strategy} {c : Composition} {e : Edge} (h : EdgeOK d strat c e) :
    e.start < e.stop := by
  rcases Nat.lt_or_ge e.start e.stop with hlt | hge
  · exact hlt
  · exfalso
    apply h.nonempty
    unfold slice
    rw [show e.stop - e.start = 0 by omega]
    rfl

/-! ### a symbol that no selection covers -/

theorem validSel_text_ne {c : Composition} {x : Interval} (h : ValidSel c x) : x.text ≠ [] := by
  intro he
  have := h.textLen
  have := h.nonempty
  rw [he] at *
  simp at *
  omega

theorem pickBest_some_stays {sels : List Interval} {s e : Nat} {ps : List Phrase} {b : Phrase} {r : Option Phrase}
    (h : pickBest sels s e ps (some b) = .ok r) : r.isSome = true := by
  induction ps generalizing b with
  | nil => simp only [pickBest] at h; cases Outcome.ok.inj h; rfl
  | cons q qs ih =>
    unfold pickBest at h
    split at h
    · simp only at h
      split at h
      · exact ih h
      · exact ih h
    · exact ih h
    · cases h
    · cases h

theorem forcedSel_isSome {c : Composition} {x : Interval} (hx : x ∈ c.selections) :
    (forcedSel c x.start x.stop).isSome = true := by
  unfold forcedSel
  rw [Option.isSome_map, List.find?_isSome]
  exact ⟨x, hx, by simp⟩

theorem selConflict_false {c : Composition} {s e : Nat} (h : selConflict c s e = false) :
    ∀ x ∈ c.selections, x.intersectRange s e = true → s ≤ x.start ∧ x.stop ≤ e := by
  intro x hx hi
  unfold selConflict at h
  have := List.any_eq_false.mp h x hx
  simp only [hi, Bool.true_and, Bool.not_eq_true', Bool.not_eq_false] at this
  exact isContainedBy_eq_true.mp (by simpa using this)

theorem phraseOk_of_free {c : Composition} (hc : CompValid c) {i : Nat} (hf : Free c i) (p : Phrase) :
    ∀ sels, (∀ x ∈ sels, x ∈ c.selections) → phraseOk i (i + 1) p sels = .ok true := by
  intro sels
  induction sels with
  | nil => intro _; rfl
  | cons y ys ih =>
    intro hsub
    have hy := hsub y (List.mem_cons_self ..)
    have hv := hc.sels y hy
    have hni := List.any_eq_false.mp hf y hy
    simp only [Interval.intersectRange, decide_eq_true_eq] at hni
    unfold phraseOk
    rw [if_neg (validSel_text_ne hv), if_neg (by have := hv.nonempty; omega)]
    exact ih (fun x hx => hsub x (List.mem_cons_of_mem _ hx))

/-- when the fallback of `find_best_phrase` fires on a valid composition the syllable has no word at all
    under the strategy and no selection covers it -/
theorem fallback_facts {d : Dict} {strat : Strategy} {c : Composition} (hc : CompValid c) {i k : Nat}
    (hconf : selConflict c i (i + 1) = false) (hf : forcedSel c i (i + 1) = none)
    (hp : pickBest c.selections i (i + 1) (d.lookup [k] strat) none = .ok none) :
    d.lookup [k] strat = [] ∧ Free c i := by
  have hfree : Free c i := by
    unfold Free
    rw [List.any_eq_false]
    intro x hx hi
    have hi : x.intersectRange i (i + 1) = true := by simpa using hi
    have hcont := selConflict_false hconf x hx hi
    have hv := hc.sels x hx
    have h1 : x.start = i := by have := hv.nonempty; omega
    have h2 : x.stop = i + 1 := by have := hv.nonempty; omega
    have := forcedSel_isSome (c := c) hx
    rw [h1, h2, hf] at this
    cases this
  refine ⟨?_, hfree⟩
  cases hl : d.lookup [k] strat with
  | nil => rfl
  | cons p ps =>
    rw [hl] at hp
    unfold pickBest at hp
    rw [phraseOk_of_free hc hfree p _ (fun _ h => h)] at hp
    simp only [if_true] at hp
    have := pickBest_some_stays hp
    cases this

end Chewing.Conv
