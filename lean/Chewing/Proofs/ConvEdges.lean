import Chewing.Proofs.ConvBasic
/-!
What `find_best_phrase` / `find_intervals` guarantee about every edge of the interval graph.
-/
namespace Chewing.Conv

/-- what `find_best_phrase` guarantees about an edge it returns -/
structure EdgeOK (d : Dict) (strat : Strategy) (c : Composition) (e : Edge) : Prop where
  noBreak : hasBreakInside c e.start e.stop = false
  noConflict : selConflict c e.start e.stop = false
  kind : (∃ cp, e.phrase = .chr cp ∧ slice c e.start e.stop = [Sym.chr cp]) ∨
    (∃ p, e.phrase = .phrase p ∧ (∀ sym ∈ slice c e.start e.stop, sym.isSyl = true) ∧
      ((p ∈ d.lookup (sylPrefix (slice c e.start e.stop)) strat ∧
          phraseOk e.start e.stop p c.selections = .ok true) ∨
        (∃ x ∈ c.selections, e.start = x.start ∧ e.stop = x.stop ∧
          p = { text := x.text, freq := 0, lastUsed := none })))

theorem pickBest_some {sels : List Interval} {s e : Nat} {ps : List Phrase} {best : Option Phrase} {p : Phrase}
    (h : pickBest sels s e ps best = .ok (some p)) :
    best = some p ∨ (p ∈ ps ∧ phraseOk s e p sels = .ok true) := by
  induction ps generalizing best with
  | nil =>
    simp only [pickBest] at h
    exact Or.inl (Outcome.ok.inj h)
  | cons q qs ih =>
    unfold pickBest at h
    split at h
    · rename_i hq
      cases best with
      | none =>
        simp only [if_true] at h
        rcases ih h with h1 | ⟨h1, h2⟩
        · cases h1
          exact Or.inr ⟨List.mem_cons_self .., hq⟩
        · exact Or.inr ⟨List.mem_cons_of_mem _ h1, h2⟩
      | some b =>
        simp only at h
        split at h
        · rcases ih h with h1 | ⟨h1, h2⟩
          · cases h1
            exact Or.inr ⟨List.mem_cons_self .., hq⟩
          · exact Or.inr ⟨List.mem_cons_of_mem _ h1, h2⟩
        · rcases ih h with h1 | ⟨h1, h2⟩
          · exact Or.inl h1
          · exact Or.inr ⟨List.mem_cons_of_mem _ h1, h2⟩
    · rcases ih h with h1 | ⟨h1, h2⟩
      · exact Or.inl h1
      · exact Or.inr ⟨List.mem_cons_of_mem _ h1, h2⟩
    · cases h
    · cases h

theorem forcedSel_some {c : Composition} {s e : Nat} {p : Phrase} (h : forcedSel c s e = some p) :
    ∃ x ∈ c.selections, s = x.start ∧ e = x.stop ∧ p = { text := x.text, freq := 0, lastUsed := none } := by
  unfold forcedSel at h
  rw [Option.map_eq_some_iff] at h
  obtain ⟨x, hx, rfl⟩ := h
  have hm := List.mem_of_find?_eq_some hx
  have hp := List.find?_some hx
  simp only [Bool.and_eq_true, decide_eq_true_eq] at hp
  exact ⟨x, hm, hp.1, hp.2, rfl⟩

theorem findBestPhrase_ok {d : Dict} {strat : Strategy} {c : Composition} {s e : Nat} {ph : PPhrase}
    (h : findBestPhrase d strat c s e = .ok (some ph)) : EdgeOK d strat c ⟨s, e, ph⟩ := by
  unfold findBestPhrase at h
  split at h
  · cases h
  rename_i hb
  split at h
  · cases h
  rename_i hc
  have hb' : hasBreakInside c s e = false := by simpa using hb
  have hc' : selConflict c s e = false := by simpa using hc
  refine ⟨hb', hc', ?_⟩
  split at h
  · rename_i cp hs
    cases h
    exact Or.inl ⟨cp, rfl, hs⟩
  · rename_i syms hns
    split at h
    · cases h
    rename_i hany
    have hall : ∀ sym ∈ slice c s e, sym.isSyl = true := by
      simpa using hany
    split at h
    · rename_i p hp
      cases h
      rcases pickBest_some hp with h1 | ⟨h1, h2⟩
      · cases h1
      · exact Or.inr ⟨p, rfl, hall, Or.inl ⟨h1, h2⟩⟩
    · rename_i hp
      have h := Outcome.ok.inj h
      rw [Option.map_eq_some_iff] at h
      obtain ⟨p, hp, rfl⟩ := h
      exact Or.inr ⟨p, rfl, hall, Or.inr (forcedSel_some hp)⟩
    · cases h
    · cases h

theorem mem_pairs {n b e : Nat} : (b, e) ∈ pairs n ↔ b < n ∧ b ≤ e ∧ e ≤ n := by
  unfold pairs
  simp only [List.mem_flatMap, List.mem_range, List.mem_map, List.mem_range'_1, Prod.mk.injEq]
  constructor
  · rintro ⟨b', hb, e', ⟨h1, h2⟩, rfl, rfl⟩
    omega
  · rintro ⟨h1, h2, h3⟩
    exact ⟨b, h1, e, ⟨h2, by omega⟩, rfl, rfl⟩

theorem collectEdges_mem {d : Dict} {strat : Strategy} {c : Composition} {ps : List (Nat × Nat)} {es : List Edge}
    (h : collectEdges d strat c ps = .ok es) {edge : Edge} (hm : edge ∈ es) :
    (edge.start, edge.stop) ∈ ps ∧ findBestPhrase d strat c edge.start edge.stop = .ok (some edge.phrase) := by
  induction ps generalizing es with
  | nil =>
    simp only [collectEdges] at h
    cases Outcome.ok.inj h
    cases hm
  | cons q qs ih =>
    obtain ⟨b, e⟩ := q
    unfold collectEdges at h
    split at h
    · rename_i r hr
      split at h
      · rename_i es' hes
        have h := Outcome.ok.inj h
        subst h
        cases r with
        | none =>
          obtain ⟨i1, i2⟩ := ih hes hm
          exact ⟨List.mem_cons_of_mem _ i1, i2⟩
        | some ph =>
          rcases List.mem_cons.mp hm with rfl | hm
          · exact ⟨List.mem_cons_self .., hr⟩
          · obtain ⟨i1, i2⟩ := ih hes hm
            exact ⟨List.mem_cons_of_mem _ i1, i2⟩
      · cases h
      · cases h
    · cases h
    · cases h

theorem collectEdges_complete {d : Dict} {strat : Strategy} {c : Composition} {ps : List (Nat × Nat)} {es : List Edge}
    (h : collectEdges d strat c ps = .ok es) {b e : Nat} {ph : PPhrase} (hm : (b, e) ∈ ps)
    (hf : findBestPhrase d strat c b e = .ok (some ph)) : (⟨b, e, ph⟩ : Edge) ∈ es := by
  induction ps generalizing es with
  | nil => cases hm
  | cons q qs ih =>
    obtain ⟨b', e'⟩ := q
    unfold collectEdges at h
    split at h
    · rename_i r hr
      split at h
      · rename_i es' hes
        have h := Outcome.ok.inj h
        subst h
        rcases List.mem_cons.mp hm with heq | hm
        · cases heq
          rw [hf] at hr
          cases Outcome.ok.inj hr
          exact List.mem_cons_self ..
        · have := ih hes hm
          cases r with
          | none => exact this
          | some _ => exact List.mem_cons_of_mem _ this
      · cases h
      · cases h
    · cases h
    · cases h

/-- facts about every edge of `find_intervals` -/
theorem findIntervals_edge {d : Dict} {strat : Strategy} {c : Composition} {es : List Edge}
    (h : findIntervals d strat c = .ok es) {edge : Edge} (hm : edge ∈ es) :
    EdgeOK d strat c edge ∧ edge.start < c.symbols.length ∧ edge.start ≤ edge.stop ∧ edge.stop ≤ c.symbols.length := by
  obtain ⟨h1, h2⟩ := collectEdges_mem h hm
  have := mem_pairs.mp h1
  exact ⟨findBestPhrase_ok h2, this.1, this.2.1, this.2.2⟩

theorem slice_singleton {c : Composition} {s e : Nat} {x : Sym} (h : slice c s e = [x]) :
    s < e ∧ c.symbols[s]? = some x := by
  have h0 : (slice c s e)[0]? = some x := by rw [h]; rfl
  rw [slice_getElem?] at h0
  split at h0
  · exact ⟨by omega, by simpa using h0⟩
  · cases h0

theorem slice_singleton_stop {c : Composition} {s e : Nat} {x : Sym} (h : slice c s e = [x]) (he : e ≤ c.symbols.length) :
    e = s + 1 := by
  have := slice_length (s := s) he
  rw [h] at this
  simp at this
  omega

theorem slice_empty {c : Composition} {s : Nat} : slice c s s = [] := by
  simp [slice]

/-- every edge is non-empty, provided the dictionary has no empty key and the selections are valid -/
theorem EdgeOK.lt {d : Dict} {strat : Strategy} {c : Composition} {e : Edge} (h : EdgeOK d strat c e)
    (hd : NoEmptyKey d) (hc : CompValid c) (hle : e.start ≤ e.stop) : e.start < e.stop := by
  rcases h.kind with ⟨cp, _, hs⟩ | ⟨p, _, _, ⟨hl, _⟩ | ⟨x, hx, h1, h2, _⟩⟩
  · exact (slice_singleton hs).1
  · rcases Nat.lt_or_ge e.start e.stop with h | h
    · exact h
    · have : e.stop = e.start := by omega
      rw [this, slice_empty] at hl
      simp only [sylPrefix] at hl
      rw [hd strat] at hl
      cases hl
  · have := (hc.sels x hx).nonempty
    omega

end Chewing.Conv
