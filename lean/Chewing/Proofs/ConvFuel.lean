import Chewing.Proofs.ConvLive
/-!
The model's fuel never runs out: on a valid composition `convert` is never `Outcome.outOfFuel`, with or
without a word for every syllable, whatever the oracle answers (a panic is a different outcome).
-/
namespace Chewing.Conv

theorem chkI32_ne (site : String) (x : Int) : chkI32 site x ≠ .outOfFuel := by
  unfold chkI32; split <;> simp

theorem avg_ne (p : Path) : ruleLargestAvgWordLen p ≠ .outOfFuel := by
  unfold ruleLargestAvgWordLen
  split
  · simp
  · split
    · split <;> simp
    · simp
    · rename_i h; exact absurd h (chkI32_ne _ _)

theorem var_ne (p : Path) : ruleSmallestLenVariance p ≠ .outOfFuel := by
  unfold ruleSmallestLenVariance; split <;> simp

theorem freq_ne (p : Path) : ruleLargestFreqSum p ≠ .outOfFuel := by
  unfold ruleLargestFreqSum; split <;> simp

theorem score_ne (p : Path) : score p ≠ .outOfFuel := by
  unfold score
  split
  · split
    · split
      · split
        · split
          · split
            · split
              · split
                · exact chkI32_ne _ _
                · simp
                · rename_i h; exact absurd h (freq_ne _)
              · simp
              · rename_i h; exact absurd h (chkI32_ne _ _)
            · simp
            · rename_i h; exact absurd h (chkI32_ne _ _)
          · simp
          · rename_i h; exact absurd h (var_ne _)
        · simp
        · rename_i h; exact absurd h (chkI32_ne _ _)
      · simp
      · rename_i h; exact absurd h (chkI32_ne _ _)
    · simp
    · rename_i h; exact absurd h (avg_ne _)
  · simp
  · rename_i h; exact absurd h (chkI32_ne _ _)

theorem scoreAll_ne (paths : List Path) : scoreAll paths ≠ .outOfFuel := by
  induction paths with
  | nil => simp [scoreAll]
  | cons p ps ih =>
    unfold scoreAll
    split
    · split
      · simp
      · simp
      · rename_i h; exact absurd h ih
    · simp
    · rename_i h; exact absurd h (score_ne _)

theorem sortPaths_ne (paths : List Path) : sortPaths paths ≠ .outOfFuel := by
  unfold sortPaths
  split
  · simp
  · split
    · simp
    · simp
    · rename_i h; exact absurd h (scoreAll_ne _)

theorem finishPaths_ne (c : Composition) (paths : List Path) : finishPaths c paths ≠ .outOfFuel := by
  unfold finishPaths
  split
  · simp
  · split
    · simp
    · simp
    · rename_i h; exact absurd h (sortPaths_ne _)

theorem kLoop_ne {pick : Nat → List Path → Nat} {es : List Edge} {len : Nat} (hv : EdgesValid len es) :
    ∀ (rem kth : Nat) (ksp cands : List Path) (removed : List Nat),
      (∀ p ∈ ksp, IsChain es 0 len p) → (∀ p ∈ cands, IsChain es 0 len p) →
      kLoop pick es len rem kth ksp cands removed ≠ .outOfFuel := by
  intro rem
  induction rem with
  | zero => intro kth ksp cands removed _ _; simp [kLoop]
  | succ rem ih =>
    intro kth ksp cands removed hk hc
    unfold kLoop
    cases hlast : ksp.getLast? with
    | none => simp
    | some prev =>
      simp only
      have hprev := hk prev (List.mem_of_getLast? hlast)
      obtain ⟨r, hr⟩ := spurLoop_total hv hk hprev (List.range prev.length) cands removed
        (fun i hi => List.mem_range.mp hi)
      obtain ⟨cands', removed'⟩ := r
      rw [hr]
      simp only
      have hc' := spurLoop_chain hprev hc hr
      simp only at hc'
      split
      · simp
      · split
        · simp
        · rename_i chosen hch
          refine ih _ _ _ _ ?_ ?_
          · intro p hp
            rcases List.mem_append.mp hp with hp | hp
            · exact hk p hp
            · rw [List.mem_singleton.mp hp]; exact hc' _ (List.mem_of_getElem? hch)
          · intro p hp
            exact hc' p (List.mem_of_mem_eraseIdx hp)

theorem findKPaths_ne {pick : Nat → List Path → Nat} {es : List Edge} {len k : Nat} (hv : EdgesValid len es) :
    findKPaths pick k len es ≠ .outOfFuel := by
  unfold findKPaths
  split
  · simp
  · obtain ⟨r, hr⟩ := shortestPath_total hv [] (source := 0) (Nat.zero_le _)
    rw [hr]
    cases r with
    | none => simp
    | some p =>
      simp only
      refine kLoop_ne hv _ _ _ _ _ ?_ (fun _ h => by cases h)
      intro q hq
      rw [List.mem_singleton.mp hq]
      exact shortestPath_chain hr

/-- the fuel supplied by the model always suffices: `ChewingEngine::convert` on a valid composition is
    `ok` or a `panic`, never `outOfFuel` -/
theorem convertChewing_ne {pick : Nat → List Path → Nat} {d : Dict} {strat : Strategy} {c : Composition}
    (hc : CompValid c) : convertChewing pick d strat c ≠ .outOfFuel := by
  unfold convertChewing
  split
  · simp
  · obtain ⟨es, hes⟩ := findIntervals_total (d := d) (strat := strat) hc
    have hv := edgesValid_of_findIntervals hes
    unfold rawPaths
    rw [hes]
    simp only
    split
    · exact finishPaths_ne _ _
    · simp
    · rename_i h; exact absurd h (findKPaths_ne hv)

end Chewing.Conv
