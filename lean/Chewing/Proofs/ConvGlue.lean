import Chewing.Proofs.ConvEdges
import Chewing.Proofs.ConvPaths
/-!
`glue_fn` preserves the tiling and every per-interval invariant that is closed under merging across a
`Glue` gap; the two invariants the C03 / C04 theorems are read off from.
-/
namespace Chewing.Conv

/-- a chain held in reverse (the accumulator of the glue fold: `acc.last()` is the head) -/
def RChain : Nat → Nat → List Interval → Prop
  | a, b, [] => a = b
  | a, b, x :: r => x.stop = b ∧ x.start < x.stop ∧ RChain a x.start r

theorem RChain.reverse {a b : Nat} {r : List Interval} (h : RChain a b r) : IvChain a b r.reverse := by
  induction r generalizing b with
  | nil => exact h
  | cons x r ih =>
    obtain ⟨h1, h2, h3⟩ := h
    rw [List.reverse_cons]
    exact h1 ▸ (ih h3).append_single rfl h2

/-- the glue fold keeps the chain and any invariant `P` that survives a merge -/
theorem glue_fold {P : Interval → Prop} {c : Composition}
    (hmerge : ∀ a b : Interval, P a → P b → a.isPhrase = true → b.isPhrase = true →
      gapAt c a.stop = some Gap.glue → a.stop = b.start → a.start < a.stop → b.start < b.stop →
      P { start := a.start, stop := b.stop, isPhrase := true, text := a.text ++ b.text })
    (l : List Interval) : ∀ (racc : List Interval) (a m b : Nat), RChain a m racc → IvChain m b l →
      (∀ iv ∈ racc, P iv) → (∀ iv ∈ l, P iv) →
      RChain a b (l.foldl (glueStep c) racc) ∧ ∀ iv ∈ l.foldl (glueStep c) racc, P iv := by
  induction l with
  | nil =>
    intro racc a m b hr hl hpr _
    cases hl
    exact ⟨hr, hpr⟩
  | cons x l ih =>
    intro racc a m b hr hl hpr hpl
    obtain ⟨x1, x2, x3⟩ := hl
    have hpx : P x := hpl x (List.mem_cons_self ..)
    have hpl' : ∀ iv ∈ l, P iv := fun iv h => hpl iv (List.mem_cons_of_mem _ h)
    rw [List.foldl_cons]
    cases racc with
    | nil =>
      cases hr
      refine ih [x] _ x.stop b ⟨rfl, x2, x1.symm⟩ x3 ?_ hpl'
      intro iv hiv
      simp only [List.mem_singleton] at hiv
      exact hiv ▸ hpx
    | cons last rest =>
      obtain ⟨r1, r2, r3⟩ := hr
      have hplast : P last := hpr last (List.mem_cons_self ..)
      have hprest : ∀ iv ∈ rest, P iv := fun iv h => hpr iv (List.mem_cons_of_mem _ h)
      have hpush : RChain a x.stop (x :: last :: rest) ∧ ∀ iv ∈ x :: last :: rest, P iv := by
        refine ⟨⟨rfl, x2, ?_⟩, ?_⟩
        · rw [x1]; exact ⟨r1, r2, r3⟩
        · intro iv hiv
          rcases List.mem_cons.mp hiv with rfl | hiv
          · exact hpx
          · exact hpr iv hiv
      unfold glueStep
      simp only
      split
      · exact ih _ a x.stop b hpush.1 x3 hpush.2 hpl'
      · rename_i hph
        simp only [Bool.or_eq_true, Bool.not_eq_true', not_or, Bool.not_eq_false] at hph
        split
        · rename_i hg
          refine ih _ a x.stop b ⟨rfl, by simp only; omega, r3⟩ x3 ?_ hpl'
          intro iv hiv
          rcases List.mem_cons.mp hiv with rfl | hiv
          · exact hmerge last x hplast hpx hph.1 hph.2 hg (by omega) r2 x2
          · exact hprest iv hiv
        · exact ih _ a x.stop b hpush.1 x3 hpush.2 hpl'

theorem gluePath_spec {P : Interval → Prop} {c : Composition}
    (hmerge : ∀ a b : Interval, P a → P b → a.isPhrase = true → b.isPhrase = true →
      gapAt c a.stop = some Gap.glue → a.stop = b.start → a.start < a.stop → b.start < b.stop →
      P { start := a.start, stop := b.stop, isPhrase := true, text := a.text ++ b.text })
    {p : Path} {n : Nat} (hc : IvChain 0 n (p.map toInterval)) (hp : ∀ iv ∈ p.map toInterval, P iv) :
    IvChain 0 n (gluePath c p) ∧ ∀ iv ∈ gluePath c p, P iv := by
  obtain ⟨h1, h2⟩ := glue_fold hmerge (p.map toInterval) [] 0 0 n rfl hc (fun _ h => by cases h) hp
  refine ⟨h1.reverse, ?_⟩
  intro iv hiv
  exact h2 iv (List.mem_reverse.mp hiv)

/-- a chain of graph edges maps to a chain of intervals -/
theorem IsChain.toIvChain {E : List Edge} {a b : Nat} {p : Path} (h : IsChain E a b p)
    (hlt : ∀ e ∈ E, e.start < e.stop) : IvChain a b (p.map toInterval) := by
  induction p generalizing a with
  | nil => exact h
  | cons e r ih => exact ⟨h.2.1, hlt e h.1, ih h.2.2⟩

/-! ### the invariants -/

/-- per-interval invariant, no assumption on the dictionary at all -/
structure IvInv1 (d : Dict) (strat : Strategy) (c : Composition) (iv : Interval) : Prop where
  prov : ProvS d strat c iv
  le : iv.stop ≤ c.symbols.length
  noBreak : ∀ i, iv.start < i → i < iv.stop → gapAt c i ≠ some Gap.brk
  selCont : ∀ x ∈ c.selections, x.intersectRange iv.start iv.stop = true → iv.start ≤ x.start ∧ x.stop ≤ iv.stop
  phraseSyl : iv.isPhrase = true → ∀ i, iv.start ≤ i → i < iv.stop → ∃ k, c.symbols[i]? = some (Sym.syl k)
  nonPhrase : iv.isPhrase = false → ∃ i cp, c.symbols[i]? = some (Sym.chr cp) ∧
    iv = { start := i, stop := i + 1, isPhrase := false, text := [cp] }

/-- per-interval invariant that needs `WellFormed d`, `HasWord d strat c` and valid selections -/
structure IvInv2 (c : Composition) (iv : Interval) : Prop where
  len : iv.text.length = iv.stop - iv.start
  selAgree : ∀ x ∈ c.selections, iv.start ≤ x.start → x.stop ≤ iv.stop →
    (iv.text.drop (x.start - iv.start)).take (x.stop - x.start) = x.text

theorem allSyl_index {c : Composition} {s e : Nat} (h : ∀ sym ∈ slice c s e, sym.isSyl = true)
    (he : e ≤ c.symbols.length) : ∀ i, s ≤ i → i < e → ∃ k, c.symbols[i]? = some (Sym.syl k) := by
  intro i h1 h2
  have hi : i < c.symbols.length := by omega
  have hsome : c.symbols[i]? = some c.symbols[i] := List.getElem?_eq_getElem hi
  have := h _ (mem_slice_iff.mpr ⟨i, h1, h2, hsome⟩)
  cases hx : c.symbols[i] with
  | syl k => exact ⟨k, by rw [hsome, hx]⟩
  | chr cp => rw [hx] at this; simp [Sym.isSyl] at this

theorem edge_inv1 {d : Dict} {strat : Strategy} {c : Composition} {e : Edge} (h : EdgeOK d strat c e)
    (hlt : e.start < e.stop) (hle : e.stop ≤ c.symbols.length) (hc : CompValid c) : IvInv1 d strat c (toInterval e) := by
  obtain ⟨s, t, ph⟩ := e
  simp only at hlt hle
  have hnb := hasBreakInside_eq_false_iff.mp h.noBreak
  have hsc := selConflict_false h.noConflict
  rcases h.kind with ⟨cp, hph, hs⟩ | ⟨p, hph, hall, hsrc⟩
  · simp only at hph hs
    subst hph
    have ht := slice_singleton_stop hs hle
    subst ht
    refine ⟨?_, hle, hnb, hsc, ?_, ?_⟩
    · exact ProvS.base (Prov.chr (slice_singleton hs).2)
    · intro hp; simp [toInterval] at hp
    · intro _; exact ⟨s, cp, (slice_singleton hs).2, rfl⟩
  · simp only at hph hall hsrc
    subst hph
    refine ⟨?_, hle, hnb, hsc, fun _ => allSyl_index hall hle, fun hp => by simp [toInterval] at hp⟩
    rcases hsrc with ⟨hl, _⟩ | ⟨x, hx, h1, h2, hp⟩ | ⟨k, hs, hp, hpick, hforced⟩
    · exact ProvS.base (Prov.dict hlt hle hall hl)
    · subst hp
      subst h1 h2
      exact ProvS.base (Prov.sel hx)
    · subst hp
      have ht := slice_singleton_stop hs hle
      subst ht
      obtain ⟨hl, hfree⟩ := fallback_facts hc h.noConflict hforced hpick
      exact ProvS.spell ⟨s, k, (slice_singleton hs).2, hl, hfree, rfl⟩

theorem inv1_merge {d : Dict} {strat : Strategy} {c : Composition} (a b : Interval)
    (ha : IvInv1 d strat c a) (hb : IvInv1 d strat c b) (pa : a.isPhrase = true) (pb : b.isPhrase = true)
    (hg : gapAt c a.stop = some Gap.glue) (hm : a.stop = b.start) (la : a.start < a.stop) (lb : b.start < b.stop) :
    IvInv1 d strat c { start := a.start, stop := b.stop, isPhrase := true, text := a.text ++ b.text } := by
  obtain ⟨as, ae, ap, at'⟩ := a
  obtain ⟨bs, be, bp, bt⟩ := b
  simp only at pa pb hg hm la lb
  subst pa pb hm
  refine ⟨ProvS.glue ha.prov hb.prov hg, hb.le, ?_, ?_, ?_, fun hp => by simp at hp⟩
  · intro i h1 h2
    simp only at h1 h2
    rcases Nat.lt_trichotomy i ae with h | h | h
    · exact ha.noBreak i h1 h
    · subst h; rw [hg]; simp
    · exact hb.noBreak i h h2
  · intro x hx hi
    simp only at hi ⊢
    have hi := intersectRange_eq_true.mp hi
    by_cases hlow : max x.start as < min x.stop ae
    · have := ha.selCont x hx (intersectRange_eq_true.mpr hlow)
      simp only at this
      omega
    · have := hb.selCont x hx (intersectRange_eq_true.mpr (by simp only; omega))
      simp only at this
      omega
  · intro _ i h1 h2
    simp only at h1 h2
    by_cases h : i < ae
    · exact ha.phraseSyl rfl i h1 h
    · exact hb.phraseSyl rfl i (by simp only; omega) h2

theorem phraseOk_true {s e : Nat} {p : Phrase} {sels : List Interval} (h : phraseOk s e p sels = .ok true) :
    ∀ x ∈ sels, s ≤ x.start → x.stop ≤ e → (p.text.drop (x.start - s)).take (x.stop - x.start) = x.text := by
  induction sels with
  | nil => intro x hx; cases hx
  | cons y ys ih =>
    unfold phraseOk at h
    split at h
    · cases h
    · split at h
      · rename_i hcont
        split at h
        · cases h
        · split at h
          · cases h
          · rename_i heq
            intro x hx h1 h2
            rcases List.mem_cons.mp hx with rfl | hx
            · exact Decidable.of_not_not heq
            · exact ih h x hx h1 h2
      · rename_i hcont
        intro x hx h1 h2
        rcases List.mem_cons.mp hx with rfl | hx
        · exact absurd ⟨h1, h2⟩ hcont
        · exact ih h x hx h1 h2

theorem pairwise_mem {α : Type} {R : α → α → Prop} {l : List α} (h : l.Pairwise R) {a b : α}
    (ha : a ∈ l) (hb : b ∈ l) : a = b ∨ R a b ∨ R b a := by
  induction l with
  | nil => cases ha
  | cons x xs ih =>
    rw [List.pairwise_cons] at h
    rcases List.mem_cons.mp ha with ha' | ha'
    · rcases List.mem_cons.mp hb with hb' | hb'
      · exact Or.inl (ha'.trans hb'.symm)
      · exact Or.inr (Or.inl (ha' ▸ h.1 _ hb'))
    · rcases List.mem_cons.mp hb with hb' | hb'
      · exact Or.inr (Or.inr (hb' ▸ h.1 _ ha'))
      · exact ih h.2 ha' hb'

theorem edge_inv2 {d : Dict} {strat : Strategy} {c : Composition} {e : Edge} (h : EdgeOK d strat c e)
    (hlt : e.start < e.stop) (hle : e.stop ≤ c.symbols.length) (hc : CompValid c) (hw : WellFormed d)
    (hh : HasWord d strat c) : IvInv2 c (toInterval e) := by
  obtain ⟨s, t, ph⟩ := e
  simp only at hlt hle
  rcases h.kind with ⟨cp, hph, hs⟩ | ⟨p, hph, hall, hsrc⟩
  · simp only at hph hs
    subst hph
    have ht := slice_singleton_stop hs hle
    subst ht
    refine ⟨by simp [toInterval, PPhrase.text], ?_⟩
    intro x hx h1 h2
    simp only [toInterval] at h1 h2
    have hv := hc.sels x hx
    have h3 := hv.nonempty
    have hxs : x.start = s := by omega
    have hxe : x.stop = s + 1 := by omega
    have := hv.syllables (Sym.chr cp) (by rw [hxs, hxe, hs]; exact List.mem_singleton.mpr rfl)
    simp [Sym.isSyl] at this
  · simp only at hph hall hsrc
    subst hph
    rcases hsrc with ⟨hl, hok⟩ | ⟨x0, hx0, h1, h2, hp⟩ | ⟨k, hs, _, hpick, hforced⟩
    rotate_right
    · exfalso
      have ht := slice_singleton_stop hs hle
      subst ht
      exact hh k (List.mem_of_getElem? (slice_singleton hs).2) (fallback_facts hc h.noConflict hforced hpick).1
    · refine ⟨?_, ?_⟩
      · simp only [toInterval, PPhrase.text]
        rw [hw _ _ _ hl, sylPrefix_length_of_all hall, slice_length hle]
      · intro x hx i1 i2
        exact phraseOk_true hok x hx i1 i2
    · subst hp
      subst h1 h2
      have hv0 := hc.sels x0 hx0
      refine ⟨hv0.textLen, ?_⟩
      intro x hx i1 i2
      simp only [toInterval, PPhrase.text] at i1 i2 ⊢
      have hv := hc.sels x hx
      have h3 := hv.nonempty
      have hxx : x = x0 := by
        rcases pairwise_mem hc.disjoint hx hx0 with h | h | h
        · exact h
        · simp only [Interval.intersect, Interval.intersectRange, decide_eq_false_iff_not] at h
          omega
        · simp only [Interval.intersect, Interval.intersectRange, decide_eq_false_iff_not] at h
          omega
      subst hxx
      rw [Nat.sub_self, List.drop_zero, ← hv0.textLen, List.take_length]

/-! ### the exact text shape, without `HasWord` -/

/-- per-interval invariant that needs `WellFormed d` and valid selections but no word per syllable -/
structure IvInv3 (d : Dict) (strat : Strategy) (c : Composition) (iv : Interval) : Prop where
  shape : SpelledText d strat c iv.start iv.stop iv.text
  single : NoGlueInside c iv.start iv.stop → iv.text.length = iv.stop - iv.start ∨ Spelled d strat c iv

theorem SpelledText.plain {d : Dict} {strat : Strategy} {c : Composition} {s e : Nat} {t : Text}
    (hle : s ≤ e) (h : t.length = e - s) : SpelledText d strat c s e t := by
  induction t generalizing s with
  | nil =>
    have : s = e := by simp at h; omega
    subst this
    exact .nil
  | cons x r ih =>
    simp only [List.length_cons] at h
    exact .char (ih (by omega) (by omega))

theorem SpelledText.append {d : Dict} {strat : Strategy} {c : Composition} {s m e : Nat} {t₁ t₂ : Text}
    (h₁ : SpelledText d strat c s m t₁) (h₂ : SpelledText d strat c m e t₂) : SpelledText d strat c s e (t₁ ++ t₂) := by
  induction h₁ with
  | nil => exact h₂
  | char _ ih => exact .char (ih h₂)
  | spell a b f _ ih =>
    rw [List.append_assoc]
    exact .spell a b f (ih h₂)

theorem SpelledText.le {d : Dict} {strat : Strategy} {c : Composition} {s e : Nat} {t : Text}
    (h : SpelledText d strat c s e t) : s ≤ e := by
  induction h with
  | nil => exact Nat.le_refl _
  | char _ ih => omega
  | spell _ _ _ _ ih => omega

/-- with a word for every syllable no piece is a spelling: one character per symbol -/
theorem SpelledText.length_hasWord {d : Dict} {strat : Strategy} {c : Composition} {s e : Nat} {t : Text}
    (h : SpelledText d strat c s e t) (hw : HasWord d strat c) : t.length = e - s := by
  induction h with
  | nil => simp
  | char h ih => have := h.le; simp only [List.length_cons, ih]; omega
  | spell a b _ _ _ => exact absurd b (hw _ (List.mem_of_getElem? a))

/-- at least one character per symbol as soon as no buffered syllable has an empty spelling -/
theorem SpelledText.length_ge {d : Dict} {strat : Strategy} {c : Composition} {s e : Nat} {t : Text}
    (h : SpelledText d strat c s e t) (hn : SpellNonempty c) : e - s ≤ t.length := by
  induction h with
  | nil => simp
  | char h ih => simp only [List.length_cons]; omega
  | spell a _ _ h ih =>
    have := List.length_pos_iff.mpr (hn _ (List.mem_of_getElem? a))
    have := h.le
    simp only [List.length_append]
    omega

theorem Spelled.shape {d : Dict} {strat : Strategy} {c : Composition} {iv : Interval} (h : Spelled d strat c iv) :
    SpelledText d strat c iv.start iv.stop iv.text := by
  obtain ⟨i, k, h1, h2, h3, rfl⟩ := h
  have := SpelledText.spell (e := i + 1) h1 h2 h3 .nil
  rwa [List.append_nil] at this

/-- an edge of the graph carries one character per symbol, or it is the fallback edge -/
theorem edge_len_or_spelled {d : Dict} {strat : Strategy} {c : Composition} {e : Edge} (h : EdgeOK d strat c e)
    (hle : e.stop ≤ c.symbols.length) (hc : CompValid c) (hw : WellFormed d) :
    (toInterval e).text.length = e.stop - e.start ∨ Spelled d strat c (toInterval e) := by
  obtain ⟨s, t, ph⟩ := e
  simp only at hle
  rcases h.kind with ⟨cp, hph, hs⟩ | ⟨p, hph, hall, hsrc⟩
  · simp only at hph hs
    subst hph
    have ht := slice_singleton_stop hs hle
    subst ht
    exact Or.inl (by simp [toInterval, PPhrase.text])
  · simp only at hph hall hsrc
    subst hph
    rcases hsrc with ⟨hl, _⟩ | ⟨x0, hx0, h1, h2, hp⟩ | ⟨k, hs, hp, hpick, hforced⟩
    · left
      simp only [toInterval, PPhrase.text]
      rw [hw _ _ _ hl, sylPrefix_length_of_all hall, slice_length hle]
    · subst hp
      subst h1 h2
      exact Or.inl (hc.sels x0 hx0).textLen
    · subst hp
      have ht := slice_singleton_stop hs hle
      subst ht
      obtain ⟨hl, hfree⟩ := fallback_facts hc h.noConflict hforced hpick
      exact Or.inr ⟨s, k, (slice_singleton hs).2, hl, hfree, rfl⟩

theorem edge_inv3 {d : Dict} {strat : Strategy} {c : Composition} {e : Edge} (h : EdgeOK d strat c e)
    (hlt : e.start < e.stop) (hle : e.stop ≤ c.symbols.length) (hc : CompValid c) (hw : WellFormed d) :
    IvInv3 d strat c (toInterval e) := by
  have key := edge_len_or_spelled h hle hc hw
  refine ⟨?_, fun _ => key⟩
  rcases key with hl | hs
  · exact SpelledText.plain (Nat.le_of_lt hlt) hl
  · exact hs.shape

theorem inv3_merge {d : Dict} {strat : Strategy} {c : Composition} (a b : Interval)
    (ha : IvInv3 d strat c a) (hb : IvInv3 d strat c b) (hg : gapAt c a.stop = some Gap.glue)
    (hm : a.stop = b.start) (la : a.start < a.stop) (lb : b.start < b.stop) :
    IvInv3 d strat c { start := a.start, stop := b.stop, isPhrase := true, text := a.text ++ b.text } := by
  refine ⟨ha.shape.append (hm ▸ hb.shape), ?_⟩
  intro hng
  exact absurd hg (hng a.stop la (by simp only; omega))

theorem inv2_merge {d : Dict} {strat : Strategy} {c : Composition} (hc : CompValid c) (a b : Interval)
    (ha : IvInv1 d strat c a ∧ IvInv2 c a) (hb : IvInv1 d strat c b ∧ IvInv2 c b)
    (hm : a.stop = b.start) (la : a.start < a.stop) (lb : b.start < b.stop) :
    IvInv2 c { start := a.start, stop := b.stop, isPhrase := true, text := a.text ++ b.text } := by
  obtain ⟨as, ae, ap, at'⟩ := a
  obtain ⟨bs, be, bp, bt⟩ := b
  simp only at hm la lb
  subst hm
  have hla := ha.2.len
  have hlb := hb.2.len
  simp only at hla hlb
  refine ⟨?_, ?_⟩
  · simp only [List.length_append]; omega
  · intro x hx h1 h2
    simp only at h1 h2 ⊢
    have hv := hc.sels x hx
    have h3 := hv.nonempty
    by_cases hlow : x.start < ae
    · have := ha.1.selCont x hx (intersectRange_eq_true.mpr (by simp only; omega))
      simp only at this
      rw [List.drop_append_of_le_length (by omega), List.take_append_of_le_length (by rw [List.length_drop]; omega)]
      exact ha.2.selAgree x hx this.1 this.2
    · have := hb.1.selCont x hx (intersectRange_eq_true.mpr (by simp only; omega))
      simp only at this
      rw [List.drop_append, List.drop_eq_nil_of_le (by omega), List.nil_append, hla]
      rw [show x.start - as - (ae - as) = x.start - ae by omega]
      exact hb.2.selAgree x hx this.1 this.2

end Chewing.Conv
