import Chewing.Proofs.ConvEdges
import Chewing.Proofs.ConvPaths
/-!
`glue_fn` preserves the tiling and every per-interval invariant that is closed under merging across a
`Glue` gap; the two invariants the C03 / C04 theorems are read off from.
-/
namespace Chewing.Conv

/-- a chain held in reverse (the accumulator of the glue fold: `acc.last()` is the head) -/
def RChain : Nat → Nat → List Interval → Prop
  | a, b, [] => a = b
  | a, b, x :: r => x.stop = b ∧ x.start < x.stop ∧ RChain a x.start r

theorem RChain.reverse {a b : Nat} {r : List Interval} (h : RChain a b r) : IvChain a b r.reverse := by
  induction r generalizing b with
  | nil => exact h
  | cons x r ih =>
    obtain ⟨h1, h2, h3⟩ := h
    rw [List.reverse_cons]
    exact h1 ▸ (ih h3).append_single rfl h2

/-- the glue fold keeps the chain and any invariant `P` that survives a merge -/
theorem glue_fold {P : Interval → Prop} {c : Composition}
    (hmerge : ∀ a b : Interval, P a → P b → a.isPhrase = true → b.isPhrase = true →
      gapAt c a.stop = some Gap.glue → a.stop = b.start → a.start < a.stop → b.start < b.stop →
      P { start := a.start, stop := b.stop, isPhrase := true, text := a.text ++ b.text })
    (l : List Interval) : ∀ (racc : List Interval) (a m b : Nat), RChain a m racc → IvChain m b l →
      (∀ iv ∈ racc, P iv) → (∀ iv ∈ l, P iv) →
      RChain a b (l.foldl (glueStep c) racc) ∧ ∀ iv ∈ l.foldl (glueStep c) racc, P iv := by
  induction l with
  | nil =>
    intro racc a m b hr hl hpr _
    cases hl
    exact ⟨hr, hpr⟩
  | cons x l ih =>
    intro racc a m b hr hl hpr hpl
    obtain ⟨x1, x2, x3⟩ := hl
    have hpx : P x := hpl x (List.mem_cons_self ..)
    have hpl' : ∀ iv ∈ l, P iv := fun iv h => hpl iv (List.mem_cons_of_mem _ h)
    rw [List.foldl_cons]
    cases racc with
    | nil =>
      cases hr
      refine ih [x] _ x.stop b ⟨rfl, x2, x1.symm⟩ x3 ?_ hpl'
      intro iv hiv
      simp only [List.mem_singleton] at hiv
      exact hiv ▸ hpx
    | cons last rest =>
      obtain ⟨r1, r2, r3⟩ := hr
      have hplast : P last := hpr last (List.mem_cons_self ..)
      have hprest : ∀ iv ∈ rest, P iv := fun iv h => hpr iv (List.mem_cons_of_mem _ h)
      have hpush : RChain a x.stop (x :: last :: rest) ∧ ∀ iv ∈ x :: last :: rest, P iv := by
        refine ⟨⟨rfl, x2, ?_⟩, ?_⟩
        · rw [x1]; exact ⟨r1, r2, r3⟩
        · intro iv hiv
          rcases List.mem_cons.mp hiv with rfl | hiv
          · exact hpx
          · exact hpr iv hiv
      unfold glueStep
      simp only
      split
      · exact ih _ a x.stop b hpush.1 x3 hpush.2 hpl'
      · rename_i hph
        simp only [Bool.or_eq_true, Bool.not_eq_true', not_or, Bool.not_eq_false] at hph
        split
        · rename_i hg
          refine ih _ a x.stop b ⟨rfl, by simp only; omega, r3⟩ x3 ?_ hpl'
          intro iv hiv
          rcases List.mem_cons.mp hiv with rfl | hiv
          · exact hmerge last x hplast hpx hph.1 hph.2 hg (by omega) r2 x2
          · exact hprest iv hiv
        · exact ih _ a x.stop b hpush.1 x3 hpush.2 hpl'

theorem gluePath_spec {P : Interval → Prop} {c : Composition}
    (hmerge : ∀ a b : Interval, P a → P b → a.isPhrase = true → b.isPhrase = true →
      gapAt c a.stop = some Gap.glue → a.stop = b.start → a.start < a.stop → b.start < b.stop →
      P { start := a.start, stop := b.stop, isPhrase := true, text := a.text ++ b.text })
    {p : Path} {n : Nat} (hc : IvChain 0 n (p.map toInterval)) (hp : ∀ iv ∈ p.map toInterval, P iv) :
    IvChain 0 n (gluePath c p) ∧ ∀ iv ∈ gluePath c p, P iv := by
  obtain ⟨h1, h2⟩ := glue_fold hmerge (p.map toInterval) [] 0 0 n rfl hc (fun _ h => by cases h) hp
  refine ⟨h1.reverse, ?_⟩
  intro iv hiv
  exact h2 iv (List.mem_reverse.mp hiv)

/-- a chain of graph edges maps to a chain of intervals -/
theorem IsChain.toIvChain {E : List Edge} {a b : Nat} {p : Path} (h : IsChain E a b p)
    (hlt : ∀ e ∈ E, e.start < e.stop) : IvChain a b (p.map toInterval) := by
  induction p generalizing a with
  | nil => exact h
  | cons e r ih => exact ⟨h.2.1, hlt e h.1, ih h.2.2⟩

/-! ### the invariants -/

/-- per-interval invariant, no assumption on the dictionary beyond `NoEmptyKey` -/
structure IvInv1 (d : Dict) (strat : Strategy) (c : Composition) (iv : Interval) : Prop where
  prov : Prov d strat c iv
  le : iv.stop ≤ c.symbols.length
  noBreak : ∀ i, iv.start < i → i < iv.stop → gapAt c i ≠ some Gap.brk
  selCont : ∀ x ∈ c.selections, x.intersectRange iv.start iv.stop = true → iv.start ≤ x.start ∧ x.stop ≤ iv.stop
  phraseSyl : iv.isPhrase = true → ∀ i, iv.start ≤ i → i < iv.stop → ∃ k, c.symbols[i]? = some (Sym.syl k)
  nonPhrase : iv.isPhrase = false → ∃ i cp, c.symbols[i]? = some (Sym.chr cp) ∧
    iv = { start := i, stop := i + 1, isPhrase := false, text := [cp] }

/-- per-interval invariant that needs `WellFormed d` and valid selections -/
structure IvInv2 (c : Composition) (iv : Interval) : Prop where
  len : iv.text.length = iv.stop - iv.start
  selAgree : ∀ x ∈ c.selections, iv.start ≤ x.start → x.stop ≤ iv.stop →
    (iv.text.drop (x.start - iv.start)).take (x.stop - x.start) = x.text

theorem allSyl_index {c : Composition} {s e : Nat} (h : ∀ sym ∈ slice c s e, sym.isSyl = true)
    (he : e ≤ c.symbols.length) : ∀ i, s ≤ i → i < e → ∃ k, c.symbols[i]? = some (Sym.syl k) := by
  intro i h1 h2
  have hi : i < c.symbols.length := by omega
  have hsome : c.symbols[i]? = some c.symbols[i] := List.getElem?_eq_getElem hi
  have := h _ (mem_slice_iff.mpr ⟨i, h1, h2, hsome⟩)
  cases hx : c.symbols[i] with
  | syl k => exact ⟨k, by rw [hsome, hx]⟩
  | chr cp => rw [hx] at this; simp [Sym.isSyl] at this

theorem selConflict_false {c : Composition} {s e : Nat} (h : selConflict c s e = false) :
    ∀ x ∈ c.selections, x.intersectRange s e = true → s ≤ x.start ∧ x.stop ≤ e := by
  intro x hx hi
  unfold selConflict at h
  have := List.any_eq_false.mp h x hx
  simp only [hi, Bool.true_and, Bool.not_eq_true', Bool.not_eq_false] at this
  exact isContainedBy_eq_true.mp (by simpa using this)

theorem edge_inv1 {d : Dict} {strat : Strategy} {c : Composition} {e : Edge} (h : EdgeOK d strat c e)
    (hlt : e.start < e.stop) (hle : e.stop ≤ c.symbols.length) : IvInv1 d strat c (toInterval e) := by
  obtain ⟨s, t, ph⟩ := e
  simp only at hlt hle
  have hnb := hasBreakInside_eq_false_iff.mp h.noBreak
  have hsc := selConflict_false h.noConflict
  rcases h.kind with ⟨cp, hph, hs⟩ | ⟨p, hph, hall, hsrc⟩
  · simp only at hph hs
    subst hph
    have ht := slice_singleton_stop hs hle
    subst ht
    refine ⟨?_, hle, hnb, hsc, ?_, ?_⟩
    · exact Prov.chr (slice_singleton hs).2
    · intro hp; simp [toInterval] at hp
    · intro _; exact ⟨s, cp, (slice_singleton hs).2, rfl⟩
  · simp only at hph hall hsrc
    subst hph
    refine ⟨?_, hle, hnb, hsc, fun _ => allSyl_index hall hle, fun hp => by simp [toInterval] at hp⟩
    rcases hsrc with ⟨hl, _⟩ | ⟨x, hx, h1, h2, hp⟩
    · exact Prov.dict hlt hle hall hl
    · subst hp
      subst h1 h2
      exact Prov.sel hx

theorem inv1_merge {d : Dict} {strat : Strategy} {c : Composition} (a b : Interval)
    (ha : IvInv1 d strat c a) (hb : IvInv1 d strat c b) (pa : a.isPhrase = true) (pb : b.isPhrase = true)
    (hg : gapAt c a.stop = some Gap.glue) (hm : a.stop = b.start) (la : a.start < a.stop) (lb : b.start < b.stop) :
    IvInv1 d strat c { start := a.start, stop := b.stop, isPhrase := true, text := a.text ++ b.text } := by
  obtain ⟨as, ae, ap, at'⟩ := a
  obtain ⟨bs, be, bp, bt⟩ := b
  simp only at pa pb hg hm la lb
  subst pa pb hm
  refine ⟨Prov.glue ha.prov hb.prov hg, hb.le, ?_, ?_, ?_, fun hp => by simp at hp⟩
  · intro i h1 h2
    simp only at h1 h2
    rcases Nat.lt_trichotomy i ae with h | h | h
    · exact ha.noBreak i h1 h
    · subst h; rw [hg]; simp
    · exact hb.noBreak i h h2
  · intro x hx hi
    simp only at hi ⊢
    have hi := intersectRange_eq_true.mp hi
    by_cases hlow : max x.start as < min x.stop ae
    · have := ha.selCont x hx (intersectRange_eq_true.mpr hlow)
      simp only at this
      omega
    · have := hb.selCont x hx (intersectRange_eq_true.mpr (by simp only; omega))
      simp only at this
      omega
  · intro _ i h1 h2
    simp only at h1 h2
    by_cases h : i < ae
    · exact ha.phraseSyl rfl i h1 h
    · exact hb.phraseSyl rfl i (by simp only; omega) h2

theorem phraseOk_true {s e : Nat} {p : Phrase} {sels : List Interval} (h : phraseOk s e p sels = .ok true) :
    ∀ x ∈ sels, s ≤ x.start → x.stop ≤ e → (p.text.drop (x.start - s)).take (x.stop - x.start) = x.text := by
  induction sels with
  | nil => intro x hx; cases hx
  | cons y ys ih =>
    unfold phraseOk at h
    split at h
    · cases h
    · split at h
      · rename_i hcont
        split at h
        · cases h
        · split at h
          · cases h
          · rename_i heq
            intro x hx h1 h2
            rcases List.mem_cons.mp hx with rfl | hx
            · exact Decidable.of_not_not heq
            · exact ih h x hx h1 h2
      · rename_i hcont
        intro x hx h1 h2
        rcases List.mem_cons.mp hx with rfl | hx
        · exact absurd ⟨h1, h2⟩ hcont
        · exact ih h x hx h1 h2

theorem pairwise_mem {α : Type} {R : α → α → Prop} {l : List α} (h : l.Pairwise R) {a b : α}
    (ha : a ∈ l) (hb : b ∈ l) : a = b ∨ R a b ∨ R b a := by
  induction l with
  | nil => cases ha
  | cons x xs ih =>
    rw [List.pairwise_cons] at h
    rcases List.mem_cons.mp ha with ha' | ha'
    · rcases List.mem_cons.mp hb with hb' | hb'
      · exact Or.inl (ha'.trans hb'.symm)
      · exact Or.inr (Or.inl (ha' ▸ h.1 _ hb'))
    · rcases List.mem_cons.mp hb with hb' | hb'
      · exact Or.inr (Or.inr (hb' ▸ h.1 _ ha'))
      · exact ih h.2 ha' hb'

theorem edge_inv2 {d : Dict} {strat : Strategy} {c : Composition} {e : Edge} (h : EdgeOK d strat c e)
    (hlt : e.start < e.stop) (hle : e.stop ≤ c.symbols.length) (hc : CompValid c) (hw : WellFormed d) :
    IvInv2 c (toInterval e) := by
  obtain ⟨s, t, ph⟩ := e
  simp only at hlt hle
  rcases h.kind with ⟨cp, hph, hs⟩ | ⟨p, hph, hall, hsrc⟩
  · simp only at hph hs
    subst hph
    have ht := slice_singleton_stop hs hle
    subst ht
    refine ⟨by simp [toInterval, PPhrase.text], ?_⟩
    intro x hx h1 h2
    simp only [toInterval] at h1 h2
    have hv := hc.sels x hx
    have h3 := hv.nonempty
    have hxs : x.start = s := by omega
    have hxe : x.stop = s + 1 := by omega
    have := hv.syllables (Sym.chr cp) (by rw [hxs, hxe, hs]; exact List.mem_singleton.mpr rfl)
    simp [Sym.isSyl] at this
  · simp only at hph hall hsrc
    subst hph
    rcases hsrc with ⟨hl, hok⟩ | ⟨x0, hx0, h1, h2, hp⟩
    · refine ⟨?_, ?_⟩
      · simp only [toInterval, PPhrase.text]
        rw [hw _ _ _ hl, sylPrefix_length_of_all hall, slice_length hle]
      · intro x hx i1 i2
        exact phraseOk_true hok x hx i1 i2
    · subst hp
      subst h1 h2
      have hv0 := hc.sels x0 hx0
      refine ⟨hv0.textLen, ?_⟩
      intro x hx i1 i2
      simp only [toInterval, PPhrase.text] at i1 i2 ⊢
      have hv := hc.sels x hx
      have h3 := hv.nonempty
      have hxx : x = x0 := by
        rcases pairwise_mem hc.disjoint hx hx0 with h | h | h
        · exact h
        · simp only [Interval.intersect, Interval.intersectRange, decide_eq_false_iff_not] at h
          omega
        · simp only [Interval.intersect, Interval.intersectRange, decide_eq_false_iff_not] at h
          omega
      subst hxx
      rw [Nat.sub_self, List.drop_zero, ← hv0.textLen, List.take_length]

theorem inv2_merge {d : Dict} {strat : Strategy} {c : Composition} (hc : CompValid c) (a b : Interval)
    (ha : IvInv1 d strat c a ∧ IvInv2 c a) (hb : IvInv1 d strat c b ∧ IvInv2 c b)
    (hm : a.stop = b.start) (la : a.start < a.stop) (lb : b.start < b.stop) :
    IvInv2 c { start := a.start, stop := b.stop, isPhrase := true, text := a.text ++ b.text } := by
  obtain ⟨as, ae, ap, at'⟩ := a
  obtain ⟨bs, be, bp, bt⟩ := b
  simp only at hm la lb
  subst hm
  have hla := ha.2.len
  have hlb := hb.2.len
  simp only at hla hlb
  refine ⟨?_, ?_⟩
  · simp only [List.length_append]; omega
  · intro x hx h1 h2
    simp only at h1 h2 ⊢
    have hv := hc.sels x hx
    have h3 := hv.nonempty
    by_cases hlow : x.start < ae
    · have := ha.1.selCont x hx (intersectRange_eq_true.mpr (by simp only; omega))
      simp only at this
      rw [List.drop_append_of_le_length (by omega), List.take_append_of_le_length (by rw [List.length_drop]; omega)]
      exact ha.2.selAgree x hx this.1 this.2
    · have := hb.1.selCont x hx (intersectRange_eq_true.mpr (by simp only; omega))
      simp only at this
      rw [List.drop_append, List.drop_eq_nil_of_le (by omega), List.nil_append, hla]
      rw [show x.start - as - (ae - as) = x.start - ae by omega]
      exact hb.2.selAgree x hx this.1 this.2

end Chewing.Conv
