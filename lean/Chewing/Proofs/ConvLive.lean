import Chewing.Proofs.ConvLive1
import Chewing.Proofs.ConvLive3
/-!
Liveness of `ChewingEngine::convert`: on a valid composition the conversion does not panic, its loops
finish within the supplied fuel, and it returns at least one alternative — for every dictionary (a
syllable without a word is shown as its spelling).
-/
namespace Chewing.Conv

theorem edgesValid_of_findIntervals {d : Dict} {strat : Strategy} {c : Composition} {es : List Edge}
    (hes : findIntervals d strat c = .ok es) :
    EdgesValid c.symbols.length es := by
  intro e he
  obtain ⟨h1, _, _, h4⟩ := findIntervals_edge hes he
  exact ⟨h1.lt, h4⟩

theorem EdgeOK.freq_le {d : Dict} {strat : Strategy} {c : Composition} {e : Edge} (h : EdgeOK d strat c e) {B : Nat}
    (hb : ∀ key, ∀ p ∈ d.lookup key strat, p.freq ≤ B) : e.phrase.freq ≤ B := by
  rcases h.kind with ⟨cp, hph, _⟩ | ⟨p, hph, _, ⟨hl, _⟩ | ⟨x, _, _, _, hp⟩ | ⟨k, _, hp, _⟩⟩
  · rw [hph]; exact Nat.zero_le _
  · rw [hph]; exact hb _ p hl
  · rw [hph, hp]; exact Nat.zero_le _
  · rw [hph, hp]; exact Nat.zero_le _

/-- the raw k-shortest paths exist: no `unwrap()` on "no path" (F02), no index panic, fuel suffices -/
theorem rawPaths_live {pick : Nat → List Path → Nat} {d : Dict} {strat : Strategy} {c : Composition}
    (hpick : PickInRange pick) (hc : CompValid c) :
    ∃ es paths, findIntervals d strat c = .ok es ∧ rawPaths pick d strat c = .ok paths ∧ paths ≠ [] ∧
      trimPaths paths ≠ [] := by
  obtain ⟨es, hes⟩ := findIntervals_total (d := d) (strat := strat) hc
  have hv := edgesValid_of_findIntervals hes
  obtain ⟨p, hp⟩ := reach_zero hc hes
  obtain ⟨paths, hpaths, hne⟩ := findKPaths_total hpick (k := maxOutPaths) hv hp
  refine ⟨es, paths, hes, ?_, hne, trimPaths_ne hne⟩
  unfold rawPaths
  rw [hes]
  exact hpaths

theorem convertChewing_live {pick : Nat → List Path → Nat} {d : Dict} {strat : Strategy} {c : Composition}
    (hpick : PickInRange pick) (hc : CompValid c)
    (hb : ScoreBound d strat c) : ∃ alts, convertChewing pick d strat c = .ok alts ∧ alts ≠ [] := by
  unfold convertChewing
  by_cases h0 : c.symbols.length = 0
  · rw [if_pos h0]; exact ⟨_, rfl, by simp⟩
  · rw [if_neg h0]
    obtain ⟨es, paths, hes, hraw, hne, htrim⟩ := rawPaths_live hpick hc
    rw [hraw]
    simp only
    have hchain : ∀ p ∈ paths, IsChain es 0 c.symbols.length p := by
      unfold rawPaths at hraw
      rw [hes] at hraw
      exact findKPaths_chain hraw
    have hv := edgesValid_of_findIntervals hes
    have hscore : ∀ p ∈ trimPaths paths, ∃ s, score p = .ok s := by
      intro p hp
      exact score_total (hchain p (trimPaths_sub p hp)) (fun e he => (hv e he).1)
        (fun e he => (findIntervals_edge hes he).1.freq_le hb.2) hb.1
    obtain ⟨sorted, hsorted⟩ := sortPaths_total hscore
    unfold finishPaths
    rw [if_neg htrim, hsorted]
    refine ⟨_, rfl, ?_⟩
    intro hmap
    have hse : sorted = [] := List.map_eq_nil_iff.mp hmap
    cases hq : trimPaths paths with
    | nil => exact htrim hq
    | cons q qs =>
      have := (sortPaths_mem hsorted q).mpr (by rw [hq]; exact List.mem_cons_self ..)
      rw [hse] at this
      cases this

end Chewing.Conv
