import Chewing.Proofs.ConvGlue
/-!
Liveness, part 1: under `CompValid` `find_intervals` never panics and the graph contains an edge for
every selection and for every symbol outside the selections (a word, or the spelling of a word-less
syllable), hence a chain from `0` to `len` — for every dictionary.
-/
namespace Chewing.Conv

theorem phraseOk_total {s e : Nat} {p : Phrase} {sels : List Interval}
    (h : ∀ x ∈ sels, x.text ≠ [] ∧ x.start ≤ x.stop) : ∃ b, phraseOk s e p sels = .ok b := by
  induction sels with
  | nil => exact ⟨true, rfl⟩
  | cons y ys ih =>
    have hy := h y (List.mem_cons_self ..)
    have ih := ih (fun x hx => h x (List.mem_cons_of_mem _ hx))
    unfold phraseOk
    rw [if_neg hy.1]
    split
    · rw [if_neg (by omega)]
      split
      · exact ⟨false, rfl⟩
      · exact ih
    · exact ih

theorem pickBest_total {sels : List Interval} {s e : Nat} {ps : List Phrase} {best : Option Phrase}
    (h : ∀ x ∈ sels, x.text ≠ [] ∧ x.start ≤ x.stop) : ∃ r, pickBest sels s e ps best = .ok r := by
  induction ps generalizing best with
  | nil => exact ⟨best, rfl⟩
  | cons q qs ih =>
    obtain ⟨b, hb⟩ := phraseOk_total (s := s) (e := e) (p := q) h
    unfold pickBest
    rw [hb]
    cases b with
    | true =>
      simp only
      cases best with
      | none => simp only [if_true]; exact ih
      | some b0 => simp only; split <;> exact ih
    | false => exact ih

theorem compValid_sels {c : Composition} (hc : CompValid c) :
    ∀ x ∈ c.selections, x.text ≠ [] ∧ x.start ≤ x.stop :=
  fun x hx => ⟨validSel_text_ne (hc.sels x hx), Nat.le_of_lt (hc.sels x hx).nonempty⟩

theorem findBestPhrase_total {d : Dict} {strat : Strategy} {c : Composition} (hc : CompValid c) (s e : Nat) :
    ∃ r, findBestPhrase d strat c s e = .ok r := by
  unfold findBestPhrase
  split
  · exact ⟨none, rfl⟩
  split
  · exact ⟨none, rfl⟩
  split
  · exact ⟨none, rfl⟩
  split
  · exact ⟨_, rfl⟩
  · split
    · exact ⟨none, rfl⟩
    · obtain ⟨r, hr⟩ := pickBest_total (s := s) (e := e) (ps := d.lookup (sylPrefix (slice c s e)) strat) (best := none)
        (compValid_sels hc)
      rw [hr]
      cases r <;> exact ⟨_, rfl⟩

theorem collectEdges_total {d : Dict} {strat : Strategy} {c : Composition} (hc : CompValid c)
    (ps : List (Nat × Nat)) : ∃ es, collectEdges d strat c ps = .ok es := by
  induction ps with
  | nil => exact ⟨[], rfl⟩
  | cons q qs ih =>
    obtain ⟨b, e⟩ := q
    obtain ⟨r, hr⟩ := findBestPhrase_total (d := d) (strat := strat) hc b e
    obtain ⟨es, hes⟩ := ih
    unfold collectEdges
    rw [hr, hes]
    exact ⟨_, rfl⟩

/-- `find_intervals` never panics on a valid composition -/
theorem findIntervals_total {d : Dict} {strat : Strategy} {c : Composition} (hc : CompValid c) :
    ∃ es, findIntervals d strat c = .ok es := collectEdges_total hc _

/-! ### the edges that always exist -/

theorem selConflict_of_disjoint {c : Composition} (hc : CompValid c) {x : Interval} (hx : x ∈ c.selections) :
    selConflict c x.start x.stop = false := by
  unfold selConflict
  rw [List.any_eq_false]
  intro y hy
  simp only [Bool.and_eq_true, Bool.not_eq_true', not_and, Bool.not_eq_false]
  intro hi
  rcases pairwise_mem hc.disjoint hy hx with h | h | h
  · subst h
    exact isContainedBy_eq_true.mpr ⟨Nat.le_refl _, Nat.le_refl _⟩
  · unfold Interval.intersect at h
    rw [hi] at h
    cases h
  · unfold Interval.intersect at h
    simp only [Interval.intersectRange, decide_eq_false_iff_not, decide_eq_true_eq] at h hi
    omega

/-- the edge over exactly a selection's range exists -/
theorem edge_of_selection {d : Dict} {strat : Strategy} {c : Composition} (hc : CompValid c)
    {x : Interval} (hx : x ∈ c.selections) :
    ∃ ph, findBestPhrase d strat c x.start x.stop = .ok (some ph) := by
  have hv := hc.sels x hx
  have hne : (slice c x.start x.stop).isEmpty = false := by
    rw [List.isEmpty_eq_false_iff]
    intro he
    have := slice_length (s := x.start) hv.inRange
    rw [he] at this
    have := hv.nonempty
    simp only [List.length_nil] at *
    omega
  unfold findBestPhrase
  rw [hne, hv.noBreak, selConflict_of_disjoint hc hx]
  simp only [Bool.false_eq_true, if_false]
  split
  · exact ⟨_, rfl⟩
  · have hany : ((slice c x.start x.stop).any fun sym => !sym.isSyl) = false := by
      rw [List.any_eq_false]
      intro sym hs
      simp [hv.syllables sym hs]
    rw [hany]
    simp only [Bool.false_eq_true, if_false]
    obtain ⟨r, hr⟩ := pickBest_total (s := x.start) (e := x.stop)
      (ps := d.lookup (sylPrefix (slice c x.start x.stop)) strat) (best := none) (compValid_sels hc)
    rw [hr]
    cases r with
    | some p => exact ⟨_, rfl⟩
    | none =>
      simp only
      obtain ⟨p, hp⟩ := Option.isSome_iff_exists.mp (forcedSel_isSome (c := c) hx)
      rw [hp]
      exact ⟨_, rfl⟩

theorem hasBreakInside_single (c : Composition) (i : Nat) : hasBreakInside c i (i + 1) = false := by
  simp [hasBreakInside]

theorem selConflict_of_free {c : Composition} {i : Nat} (hf : Free c i) : selConflict c i (i + 1) = false := by
  unfold selConflict
  rw [List.any_eq_false]
  intro y hy
  have := List.any_eq_false.mp hf y hy
  simp [this]

/-- the edge over a single symbol that no selection intersects exists — whatever the dictionary holds:
    a syllable without an acceptable word falls back to its spelling (F02 / F03 repaired) -/
theorem edge_of_free {d : Dict} {strat : Strategy} {c : Composition} (hc : CompValid c)
    {i : Nat} (hi : i < c.symbols.length) (hf : Free c i) :
    ∃ ph, findBestPhrase d strat c i (i + 1) = .ok (some ph) := by
  have hsome : c.symbols[i]? = some c.symbols[i] := List.getElem?_eq_getElem hi
  have hs := slice_one hsome
  unfold findBestPhrase
  rw [hasBreakInside_single, selConflict_of_free hf, hs]
  simp only [List.isEmpty_cons, Bool.false_eq_true, if_false]
  cases hx : c.symbols[i] with
  | chr cp => exact ⟨_, rfl⟩
  | syl k =>
    simp only [List.any_cons, Sym.isSyl, Bool.not_true, List.any_nil, Bool.or_self, Bool.false_eq_true, if_false,
      sylPrefix]
    obtain ⟨r, hr⟩ := pickBest_total (s := i) (e := i + 1) (ps := d.lookup [k] strat) (best := none)
      (compValid_sels hc)
    rw [hr]
    cases r with
    | some q => exact ⟨_, rfl⟩
    | none =>
      simp only [spelledSyl]
      cases forcedSel c i (i + 1) <;> exact ⟨_, rfl⟩

/-! ### a chain from `0` to `len` exists -/

/-- no selection strictly spans position `a` -/
def Boundary (c : Composition) (a : Nat) : Prop := ∀ x ∈ c.selections, ¬ (x.start < a ∧ a < x.stop)

theorem reach_of_boundary {d : Dict} {strat : Strategy} {c : Composition} {es : List Edge}
    (hc : CompValid c) (hes : findIntervals d strat c = .ok es) :
    ∀ (n a : Nat), c.symbols.length - a = n → a ≤ c.symbols.length → Boundary c a →
      ∃ p, IsChain es a c.symbols.length p := by
  intro n
  induction n using Nat.strongRecOn with
  | _ n ih =>
    intro a hn hle hb
    rcases Nat.lt_or_ge a c.symbols.length with hlt | hge
    · cases hany : c.selections.any (fun sel => sel.intersectRange a (a + 1)) with
      | true =>
        obtain ⟨x, hx, hxi⟩ := List.any_eq_true.mp hany
        have hxi := intersectRange_eq_true.mp hxi
        have hv := hc.sels x hx
        have hxa : x.start = a := by
          have := hb x hx
          omega
        obtain ⟨ph, hph⟩ := edge_of_selection (d := d) (strat := strat) hc hx
        have hmem : (⟨x.start, x.stop, ph⟩ : Edge) ∈ es :=
          collectEdges_complete hes (mem_pairs.mpr ⟨by omega, Nat.le_of_lt hv.nonempty, hv.inRange⟩) hph
        have hb' : Boundary c x.stop := by
          intro y hy hspan
          rcases pairwise_mem hc.disjoint hy hx with h | h | h
          · subst h; omega
          · have := intersect_eq_false.mp h
            have := hv.nonempty
            omega
          · have := intersect_eq_false.mp h
            have := hv.nonempty
            omega
        obtain ⟨p, hp⟩ := ih (c.symbols.length - x.stop) (by have := hv.nonempty; omega) x.stop rfl hv.inRange hb'
        exact ⟨⟨x.start, x.stop, ph⟩ :: p, hmem, hxa, hp⟩
      | false =>
        obtain ⟨ph, hph⟩ := edge_of_free (d := d) (strat := strat) hc hlt hany
        have hmem : (⟨a, a + 1, ph⟩ : Edge) ∈ es :=
          collectEdges_complete hes (mem_pairs.mpr ⟨hlt, by omega, by omega⟩) hph
        have hb' : Boundary c (a + 1) := by
          intro y hy hspan
          have := List.any_eq_false.mp hany y hy
          simp only [Interval.intersectRange, decide_eq_true_eq] at this
          omega
        obtain ⟨p, hp⟩ := ih (c.symbols.length - (a + 1)) (by omega) (a + 1) rfl (by omega) hb'
        exact ⟨⟨a, a + 1, ph⟩ :: p, hmem, rfl, hp⟩
    · exact ⟨[], by show a = c.symbols.length; omega⟩

/-- the interval graph of a valid composition has a path from `0` to `len`, whatever the dictionary -/
theorem reach_zero {d : Dict} {strat : Strategy} {c : Composition} {es : List Edge}
    (hc : CompValid c) (hes : findIntervals d strat c = .ok es) :
    ∃ p, IsChain es 0 c.symbols.length p :=
  reach_of_boundary hc hes _ 0 rfl (Nat.zero_le _) (fun _ _ h => by omega)

end Chewing.Conv
