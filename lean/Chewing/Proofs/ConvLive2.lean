import Chewing.Proofs.ConvPaths
/-!
Liveness, part 2: `shortest_path` on a graph of valid edges (`start < end ≤ len`) never panics, its two
`while` loops finish within the fuel the model supplies, and it finds a path whenever one exists among
the edges that are not removed (BFS completeness).
-/
namespace Chewing.Conv

/-- every edge is non-empty and inside the buffer -/
def EdgesValid (len : Nat) (es : List Edge) : Prop := ∀ e ∈ es, e.start < e.stop ∧ e.stop ≤ len

theorem edgeIdx_ok {len : Nat} {e : Edge} (h1 : e.start < e.stop) (h2 : e.stop ≤ len) :
    ∃ idx, edgeIdx len e = .ok idx := by
  unfold edgeIdx
  have hmul : (e.start + 1) * len ≤ len * len := Nat.mul_le_mul_right len (by omega)
  rw [Nat.add_mul, Nat.one_mul] at hmul
  rw [if_neg (by omega), if_pos (by omega)]
  exact ⟨_, rfl⟩

def countNone : List (Option Edge) → Nat
  | [] => 0
  | none :: r => countNone r + 1
  | some _ :: r => countNone r

theorem countNone_replicate (n : Nat) : countNone (List.replicate n none) = n := by
  induction n with
  | zero => rfl
  | succ n ih => simp [List.replicate_succ, countNone, ih]

theorem countNone_set {par : List (Option Edge)} {i : Nat} {e : Edge} (h : par[i]? = some none) :
    countNone (par.set i (some e)) + 1 = countNone par := by
  induction par generalizing i with
  | nil => cases h
  | cons x r ih =>
    cases i with
    | zero =>
      simp only [List.getElem?_cons_zero, Option.some.injEq] at h
      subst h
      simp [countNone]
    | succ j =>
      simp only [List.getElem?_cons_succ] at h
      cases x with
      | none => simp only [List.set_cons_succ, countNone]; have := ih h; omega
      | some y => simp only [List.set_cons_succ, countNone]; exact ih h

/-- node `v` has a BFS parent -/
def Vis' (par : List (Option Edge)) (v : Nat) : Prop := ∃ e, par[v]? = some (some e)

/-- the edge is not marked in `removed_edges` -/
def Usable (len : Nat) (removed : List Nat) (e : Edge) : Prop := ∀ idx, edgeIdx len e = .ok idx → idx ∉ removed

/-- postcondition of the `for edge in next_edges` loop -/
structure EdgesPost (len : Nat) (removed : List Nat) (l : List Edge) (par : List (Option Edge)) (q : List Nat)
    (par' : List (Option Edge)) (q' : List Nat) (brk : Bool) : Prop where
  len' : par'.length = len + 1
  mono : ∀ (v : Nat) (e : Edge), par[v]? = some (some e) → par'[v]? = some (some e)
  fresh : ∀ (v : Nat) (e : Edge), par'[v]? = some (some e) → par[v]? = some (some e) ∨ (e ∈ l ∧ e.stop = v ∧ v ∈ q')
  qsub : ∀ v ∈ q, v ∈ q'
  qnew : ∀ v ∈ q', v ∈ q ∨ Vis' par' v
  measure : q'.length + countNone par' = q.length + countNone par
  all : brk = false → ∀ e ∈ l, Usable len removed e → Vis' par' e.stop
  hit : brk = true → Vis' par' len

theorem bfsEdges_spec {len : Nat} {removed : List Nat} {l : List Edge} {par : List (Option Edge)} {q : List Nat}
    (hl : ∀ e ∈ l, e.start < e.stop ∧ e.stop ≤ len) (hpl : par.length = len + 1) :
    ∃ par' q' brk, bfsEdges len removed l par q = .ok (par', q', brk) ∧ EdgesPost len removed l par q par' q' brk := by
  induction l generalizing par q with
  | nil =>
    refine ⟨par, q, false, rfl, hpl, fun _ _ h => h, fun _ _ h => Or.inl h, fun _ h => h, fun _ h => Or.inl h, rfl, ?_, ?_⟩
    · intro _ e he; cases he
    · intro h; cases h
  | cons e l ih =>
    have hl' : ∀ e ∈ l, e.start < e.stop ∧ e.stop ≤ len := fun x hx => hl x (List.mem_cons_of_mem _ hx)
    obtain ⟨he1, he2⟩ := hl e (List.mem_cons_self ..)
    obtain ⟨idx, hidx⟩ := edgeIdx_ok he1 he2
    unfold bfsEdges
    rw [hidx]
    simp only
    by_cases hrem : idx ∈ removed
    · rw [if_pos hrem]
      obtain ⟨par', q', brk, hr, post⟩ := ih (par := par) (q := q) hl' hpl
      refine ⟨par', q', brk, hr, post.len', post.mono, ?_, post.qsub, post.qnew, post.measure, ?_, post.hit⟩
      · intro v e' h
        rcases post.fresh v e' h with h | ⟨h1, h2, h3⟩
        · exact Or.inl h
        · exact Or.inr ⟨List.mem_cons_of_mem _ h1, h2, h3⟩
      · intro hb e' he' hu
        rcases List.mem_cons.mp he' with rfl | he'
        · exact absurd hrem (hu idx hidx)
        · exact post.all hb e' he' hu
    · rw [if_neg hrem]
      have hin : e.stop < par.length := by omega
      have hsome : par[e.stop]? = some par[e.stop] := List.getElem?_eq_getElem hin
      rw [hsome]
      simp only
      -- the state after handling `e`
      cases hslot : par[e.stop] with
      | none =>
        have hnone : par[e.stop]? = some none := by rw [hsome, hslot]
        simp only [Option.isNone_none, if_true]
        have hset : (par.set e.stop (some e))[e.stop]? = some (some e) := by
          rw [List.getElem?_set]; simp [hin]
        have mono1 : ∀ (v : Nat) (e' : Edge), par[v]? = some (some e') → (par.set e.stop (some e))[v]? = some (some e') := by
          intro v e' h
          rw [List.getElem?_set]
          split
          · rename_i heq; subst heq; rw [hnone] at h; cases h
          · exact h
        have fresh1 : ∀ (v : Nat) (e' : Edge), (par.set e.stop (some e))[v]? = some (some e') →
            par[v]? = some (some e') ∨ (e' = e ∧ v = e.stop) := by
          intro v e' h
          by_cases hve : e.stop = v
          · subst hve
            rw [hset] at h
            cases h
            exact Or.inr ⟨rfl, rfl⟩
          · rw [List.getElem?_set_ne hve] at h
            exact Or.inl h
        by_cases hend : e.stop = len
        · rw [if_pos hend]
          refine ⟨_, _, true, rfl, by simpa using hpl, mono1, ?_, fun v h => List.mem_append_left _ h, ?_, ?_, ?_, ?_⟩
          · intro v e' h
            rcases fresh1 v e' h with h | ⟨h1, h2⟩
            · exact Or.inl h
            · subst h1 h2
              exact Or.inr ⟨List.mem_cons_self .., rfl, List.mem_append_right _ (List.mem_singleton.mpr rfl)⟩
          · intro v h
            rcases List.mem_append.mp h with h | h
            · exact Or.inl h
            · rw [List.mem_singleton.mp h]; exact Or.inr ⟨e, hset⟩
          · rw [List.length_append, List.length_singleton]
            have := countNone_set (e := e) hnone
            omega
          · intro h; cases h
          · intro _; exact hend ▸ ⟨e, hset⟩
        · rw [if_neg hend]
          obtain ⟨par', q', brk, hr, post⟩ := ih (par := par.set e.stop (some e)) (q := q ++ [e.stop]) hl'
            (by simpa using hpl)
          refine ⟨par', q', brk, hr, post.len', fun v e' h => post.mono v e' (mono1 v e' h), ?_,
            fun v h => post.qsub v (List.mem_append_left _ h), ?_, ?_, ?_, post.hit⟩
          · intro v e' h
            rcases post.fresh v e' h with h | ⟨h1, h2, h3⟩
            · rcases fresh1 v e' h with h | ⟨h1, h2⟩
              · exact Or.inl h
              · subst h1 h2
                exact Or.inr ⟨List.mem_cons_self .., rfl,
                  post.qsub _ (List.mem_append_right _ (List.mem_singleton.mpr rfl))⟩
            · exact Or.inr ⟨List.mem_cons_of_mem _ h1, h2, h3⟩
          · intro v h
            rcases post.qnew v h with h | h
            · rcases List.mem_append.mp h with h | h
              · exact Or.inl h
              · rw [List.mem_singleton.mp h]; exact Or.inr ⟨e, post.mono _ _ hset⟩
            · exact Or.inr h
          · have := post.measure
            rw [List.length_append, List.length_singleton] at this
            have := countNone_set (e := e) hnone
            omega
          · intro hb e' he' hu
            rcases List.mem_cons.mp he' with rfl | he'
            · exact ⟨_, post.mono _ _ hset⟩
            · exact post.all hb e' he' hu
      | some e0 =>
        have hold : par[e.stop]? = some (some e0) := by rw [hsome, hslot]
        simp only [Option.isNone_some, Bool.false_eq_true, if_false]
        by_cases hend : e.stop = len
        · rw [if_pos hend]
          refine ⟨_, _, true, rfl, hpl, fun _ _ h => h, fun _ _ h => Or.inl h, fun _ h => h, fun _ h => Or.inl h, rfl, ?_, ?_⟩
          · intro h; cases h
          · intro _; exact hend ▸ ⟨e0, hold⟩
        · rw [if_neg hend]
          obtain ⟨par', q', brk, hr, post⟩ := ih (par := par) (q := q) hl' hpl
          refine ⟨par', q', brk, hr, post.len', post.mono, ?_, post.qsub, post.qnew, post.measure, ?_, post.hit⟩
          · intro v e' h
            rcases post.fresh v e' h with h | ⟨h1, h2, h3⟩
            · exact Or.inl h
            · exact Or.inr ⟨List.mem_cons_of_mem _ h1, h2, h3⟩
          · intro hb e' he' hu
            rcases List.mem_cons.mp he' with rfl | he'
            · exact ⟨_, post.mono _ _ hold⟩
            · exact post.all hb e' he' hu

/-- invariant of the `'bfs` loop -/
structure BfsInv (es : List Edge) (len : Nat) (removed : List Nat) (source : Nat)
    (par : List (Option Edge)) (q : List Nat) : Prop where
  len' : par.length = len + 1
  parOK : ∀ (v : Nat) (e : Edge), par[v]? = some (some e) → e ∈ es ∧ e.stop = v
  chain : ∀ (v : Nat) (e : Edge), par[v]? = some (some e) → e.start = source ∨ Vis' par e.start
  qvis : ∀ v ∈ q, v = source ∨ Vis' par v
  done : ∀ v, (v = source ∨ Vis' par v) → v ∈ q ∨ ∀ e ∈ es, e.start = v → Usable len removed e → Vis' par e.stop

/-- what the `'bfs` loop establishes -/
structure BfsPost (es : List Edge) (len : Nat) (removed : List Nat) (source : Nat) (par : List (Option Edge)) : Prop where
  len' : par.length = len + 1
  parOK : ∀ (v : Nat) (e : Edge), par[v]? = some (some e) → e ∈ es ∧ e.stop = v
  chain : ∀ (v : Nat) (e : Edge), par[v]? = some (some e) → e.start = source ∨ Vis' par e.start
  closedOrHit : (∀ v, (v = source ∨ Vis' par v) → ∀ e ∈ es, e.start = v → Usable len removed e → Vis' par e.stop) ∨
    Vis' par len

theorem bfsLoop_spec {es : List Edge} {len : Nat} {removed : List Nat} {source : Nat} (hv : EdgesValid len es) :
    ∀ (fuel : Nat) (par : List (Option Edge)) (q : List Nat), BfsInv es len removed source par q →
      q.length + countNone par ≤ fuel →
      ∃ par', bfsLoop es len removed fuel par q = .ok par' ∧ BfsPost es len removed source par' := by
  intro fuel
  induction fuel with
  | zero =>
    intro par q inv hf
    cases q with
    | nil =>
      refine ⟨par, by simp [bfsLoop], inv.len', inv.parOK, inv.chain, Or.inl ?_⟩
      intro v hvis
      rcases inv.done v hvis with h | h
      · cases h
      · exact h
    | cons n q => simp at hf
  | succ f ih =>
    intro par q inv hf
    cases q with
    | nil =>
      refine ⟨par, by simp [bfsLoop], inv.len', inv.parOK, inv.chain, Or.inl ?_⟩
      intro v hvis
      rcases inv.done v hvis with h | h
      · cases h
      · exact h
    | cons node q0 =>
      have hout : ∀ e ∈ outEdges es node, e.start < e.stop ∧ e.stop ≤ len := fun e he => hv e (outEdges_sub e he)
      obtain ⟨par', q', brk, hr, post⟩ := bfsEdges_spec (removed := removed) (q := q0) hout inv.len'
      simp only [bfsLoop]
      rw [hr]
      simp only
      have hnode : node = source ∨ Vis' par node := inv.qvis node (List.mem_cons_self ..)
      have monoVis : ∀ v, Vis' par v → Vis' par' v := fun v ⟨e, he⟩ => ⟨e, post.mono v e he⟩
      have parOK' : ∀ (v : Nat) (e : Edge), par'[v]? = some (some e) → e ∈ es ∧ e.stop = v := by
        intro v e h
        rcases post.fresh v e h with h | ⟨h1, h2, _⟩
        · exact inv.parOK v e h
        · exact ⟨outEdges_sub e h1, h2⟩
      have chain' : ∀ (v : Nat) (e : Edge), par'[v]? = some (some e) → e.start = source ∨ Vis' par' e.start := by
        intro v e h
        rcases post.fresh v e h with h | ⟨h1, _, _⟩
        · rcases inv.chain v e h with h | h
          · exact Or.inl h
          · exact Or.inr (monoVis _ h)
        · have hst : e.start = node := by simpa using (List.mem_filter.mp h1).2
          rw [hst]
          rcases hnode with h | h
          · exact Or.inl h
          · exact Or.inr (monoVis _ h)
      cases brk with
      | true =>
        simp only [if_true]
        exact ⟨par', rfl, post.len', parOK', chain', Or.inr (post.hit rfl)⟩
      | false =>
        simp only [Bool.false_eq_true, if_false]
        refine ih par' q' ⟨post.len', parOK', chain', ?_, ?_⟩ ?_
        · intro v h
          rcases post.qnew v h with h | h
          · rcases inv.qvis v (List.mem_cons_of_mem _ h) with h | h
            · exact Or.inl h
            · exact Or.inr (monoVis _ h)
          · exact Or.inr h
        · intro v hvis
          -- was `v` already visited before this iteration?
          have hcases : (v = source ∨ Vis' par v) ∨ v ∈ q' := by
            rcases hvis with h | ⟨e, he⟩
            · exact Or.inl (Or.inl h)
            · rcases post.fresh v e he with h | ⟨_, _, h3⟩
              · exact Or.inl (Or.inr ⟨e, h⟩)
              · exact Or.inr h3
          rcases hcases with hold | hq
          · rcases inv.done v hold with h | h
            · rcases List.mem_cons.mp h with rfl | h
              · right
                intro e he hst hu
                exact post.all rfl e (List.mem_filter.mpr ⟨he, by simpa using hst⟩) hu
              · exact Or.inl (post.qsub v h)
            · right
              intro e he hst hu
              exact monoVis _ (h e he hst hu)
          · exact Or.inl hq
        · have := post.measure
          simp only [List.length_cons] at hf
          omega

theorem walkBack_total {es : List Edge} {len : Nat} {par : List (Option Edge)} {source : Nat}
    (hv : EdgesValid len es) (hlen : par.length = len + 1)
    (parOK : ∀ (v : Nat) (e : Edge), par[v]? = some (some e) → e ∈ es ∧ e.stop = v) :
    ∀ (fuel node : Nat) (acc : Path), node ≤ len → node + 1 ≤ fuel → ∃ r, walkBack par source fuel node acc = .ok r := by
  intro fuel
  induction fuel with
  | zero => intro node acc _ h; omega
  | succ f ih =>
    intro node acc h1 h2
    unfold walkBack
    by_cases hs : node = source
    · rw [if_pos hs]; exact ⟨_, rfl⟩
    · rw [if_neg hs]
      simp only
      have hin : node < par.length := by omega
      rw [List.getElem?_eq_getElem hin]
      cases hslot : par[node] with
      | none => exact ⟨_, rfl⟩
      | some e =>
        simp only
        obtain ⟨he, hst⟩ := parOK node e (by rw [List.getElem?_eq_getElem hin, hslot])
        have := hv e he
        exact ih e.start (e :: acc) (by omega) (by omega)

theorem walkBack_some {es : List Edge} {len : Nat} {par : List (Option Edge)} {source : Nat}
    (hv : EdgesValid len es)
    (parOK : ∀ (v : Nat) (e : Edge), par[v]? = some (some e) → e ∈ es ∧ e.stop = v)
    (chain : ∀ (v : Nat) (e : Edge), par[v]? = some (some e) → e.start = source ∨ Vis' par e.start) :
    ∀ (fuel node : Nat) (acc : Path), node ≤ len → node + 1 ≤ fuel → (node = source ∨ Vis' par node) →
      ∃ p, walkBack par source fuel node acc = .ok (some p) := by
  intro fuel
  induction fuel with
  | zero => intro node acc _ h; omega
  | succ f ih =>
    intro node acc h1 h2 hvis
    unfold walkBack
    by_cases hs : node = source
    · rw [if_pos hs]; exact ⟨_, rfl⟩
    · rw [if_neg hs]
      simp only
      rcases hvis with h | ⟨e, he⟩
      · exact absurd h hs
      · rw [he]
        simp only
        obtain ⟨hes, hst⟩ := parOK node e he
        have := hv e hes
        exact ih e.start (e :: acc) (by omega) (by omega) (chain node e he)

theorem bfsInv_init (es : List Edge) (len : Nat) (removed : List Nat) (source : Nat) :
    BfsInv es len removed source (List.replicate (len + 1) none) [source] := by
  have hnone : ∀ (v : Nat) (e : Edge), (List.replicate (len + 1) (none : Option Edge))[v]? = some (some e) → False := by
    intro v e h
    rw [List.getElem?_replicate] at h
    split at h <;> cases h
  refine ⟨by simp, fun v e h => (hnone v e h).elim, fun v e h => (hnone v e h).elim, ?_, ?_⟩
  · intro v h; exact Or.inl (List.mem_singleton.mp h)
  · intro v h
    rcases h with h | ⟨e, he⟩
    · exact Or.inl (List.mem_singleton.mpr h)
    · exact (hnone v e he).elim

/-- `shortest_path` never panics and never runs out of the fuel the model supplies -/
theorem shortestPath_total {es : List Edge} {len : Nat} (hv : EdgesValid len es) (removed : List Nat)
    {source : Nat} (_hs : source ≤ len) : ∃ r, shortestPath es len removed source = .ok r := by
  obtain ⟨par, hpar, post⟩ := bfsLoop_spec (removed := removed) (source := source) hv (len + 2) _ _
    (bfsInv_init es len removed source) (by simp [countNone_replicate]; omega)
  unfold shortestPath
  rw [hpar]
  exact walkBack_total hv post.len' post.parOK (len + 1) len [] (Nat.le_refl _) (Nat.le_refl _)

/-- … and finds a path whenever one exists among the edges that are not removed -/
theorem shortestPath_complete {es : List Edge} {len : Nat} (hv : EdgesValid len es) (removed : List Nat)
    {source : Nat} {p : Path} (hp : IsChain es source len p) (hu : ∀ e ∈ p, Usable len removed e) :
    ∃ p', shortestPath es len removed source = .ok (some p') := by
  obtain ⟨par, hpar, post⟩ := bfsLoop_spec (removed := removed) (source := source) hv (len + 2) _ _
    (bfsInv_init es len removed source) (by simp [countNone_replicate]; omega)
  unfold shortestPath
  rw [hpar]
  refine walkBack_some hv post.parOK post.chain (len + 1) len [] (Nat.le_refl _) (Nat.le_refl _) ?_
  rcases post.closedOrHit with hclosed | hhit
  · -- the visited set is closed under usable edges: follow the chain
    suffices ∀ (a : Nat) (p : Path), IsChain es a len p → (∀ e ∈ p, Usable len removed e) →
        (a = source ∨ Vis' par a) → (len = source ∨ Vis' par len) from this source p hp hu (Or.inl rfl)
    intro a p
    induction p generalizing a with
    | nil => intro hc _ ha; cases hc; exact ha
    | cons e r ih =>
      intro hc hu ha
      obtain ⟨h1, h2, h3⟩ := hc
      exact ih e.stop h3 (fun x hx => hu x (List.mem_cons_of_mem _ hx))
        (Or.inr (hclosed a ha e h1 h2 (hu e (List.mem_cons_self ..))))
  · exact Or.inr hhit

end Chewing.Conv
