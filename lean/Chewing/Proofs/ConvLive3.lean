import Chewing.Proofs.ConvLive2
/-!
Liveness, part 3: `find_k_paths` never panics on a graph of valid edges that has a path, whatever an
in-range oracle picks; `trim_paths` keeps at least one path; the scores stay inside `i32` under
`ScoreBound`.
-/
namespace Chewing.Conv

theorem markAll_total {len : Nat} {l : List Edge} (hl : ∀ e ∈ l, e.start < e.stop ∧ e.stop ≤ len)
    (removed : List Nat) : ∃ r, markAll len l removed = .ok r := by
  induction l generalizing removed with
  | nil => exact ⟨removed, rfl⟩
  | cons e l ih =>
    obtain ⟨h1, h2⟩ := hl e (List.mem_cons_self ..)
    obtain ⟨idx, hidx⟩ := edgeIdx_ok h1 h2
    unfold markAll
    rw [hidx]
    exact ih (fun x hx => hl x (List.mem_cons_of_mem _ hx)) _

theorem spurLoop_total {es : List Edge} {len : Nat} (hv : EdgesValid len es) {ksp : List Path} {prev : Path}
    (hk : ∀ p ∈ ksp, IsChain es 0 len p) (hprev : IsChain es 0 len prev) :
    ∀ (is : List Nat) (cands : List Path) (removed : List Nat), (∀ i ∈ is, i < prev.length) →
      ∃ r, spurLoop es len ksp prev is cands removed = .ok r := by
  intro is
  induction is with
  | nil => intro cands removed _; exact ⟨_, rfl⟩
  | cons i is ih =>
    intro cands removed hi
    have hmark : ∀ e ∈ ksp.filterMap (·[i]?), e.start < e.stop ∧ e.stop ≤ len := by
      intro e he
      obtain ⟨p, hp, hpe⟩ := List.mem_filterMap.mp he
      exact hv e ((hk p hp).mem (List.mem_of_getElem? hpe))
    obtain ⟨removed', hr⟩ := markAll_total hmark removed
    have hil : i < prev.length := hi i (List.mem_cons_self ..)
    have hsome : prev[i]? = some prev[i] := List.getElem?_eq_getElem hil
    have hedge := hv _ (hprev.mem (List.getElem_mem hil))
    obtain ⟨spur, hspur⟩ := shortestPath_total hv removed' (source := prev[i].start) (by omega)
    unfold spurLoop
    rw [hr]
    simp only
    rw [hsome]
    simp only
    rw [hspur]
    exact ih _ _ (fun j hj => hi j (List.mem_cons_of_mem _ hj))

theorem kLoop_total {pick : Nat → List Path → Nat} (hpick : PickInRange pick) {es : List Edge} {len : Nat}
    (hv : EdgesValid len es) :
    ∀ (rem kth : Nat) (ksp cands : List Path) (removed : List Nat),
      (∀ p ∈ ksp, IsChain es 0 len p) → (∀ p ∈ cands, IsChain es 0 len p) → ksp ≠ [] →
      ∃ r, kLoop pick es len rem kth ksp cands removed = .ok r ∧ r ≠ [] := by
  intro rem
  induction rem with
  | zero => intro kth ksp cands removed _ _ hne; exact ⟨ksp, rfl, hne⟩
  | succ rem ih =>
    intro kth ksp cands removed hk hc hne
    unfold kLoop
    cases hlast : ksp.getLast? with
    | none => exact absurd (List.getLast?_eq_none_iff.mp hlast) hne
    | some prev =>
      simp only
      have hprev := hk prev (List.mem_of_getLast? hlast)
      obtain ⟨r, hr⟩ := spurLoop_total hv hk hprev (List.range prev.length) cands removed
        (fun i hi => List.mem_range.mp hi)
      obtain ⟨cands', removed'⟩ := r
      rw [hr]
      simp only
      have hc' := spurLoop_chain hprev hc hr
      simp only at hc'
      by_cases hemp : cands' = []
      · rw [if_pos hemp]; exact ⟨ksp, rfl, hne⟩
      · rw [if_neg hemp]
        have hin := hpick kth cands' hemp
        rw [List.getElem?_eq_getElem hin]
        simp only
        refine ih _ _ _ _ ?_ ?_ (by simp)
        · intro p hp
          rcases List.mem_append.mp hp with hp | hp
          · exact hk p hp
          · rw [List.mem_singleton.mp hp]; exact hc' _ (List.getElem_mem hin)
        · intro p hp
          exact hc' p (List.mem_of_mem_eraseIdx hp)

/-- `find_k_paths` succeeds with at least one path when the graph has a path from `0` to `len` -/
theorem findKPaths_total {pick : Nat → List Path → Nat} (hpick : PickInRange pick) {es : List Edge} {len k : Nat}
    (hv : EdgesValid len es) {p : Path} (hp : IsChain es 0 len p) :
    ∃ paths, findKPaths pick k len es = .ok paths ∧ paths ≠ [] := by
  unfold findKPaths
  have hany : (es.any fun e => decide (len ≤ e.start)) = false := by
    rw [List.any_eq_false]
    intro e he
    have := hv e he
    simp only [decide_eq_true_eq]
    omega
  rw [hany]
  simp only [Bool.false_eq_true, if_false]
  obtain ⟨p', hp'⟩ := shortestPath_complete hv [] hp (fun _ _ _ _ h => by cases h)
  rw [hp']
  simp only
  refine kLoop_total hpick hv _ _ _ _ _ ?_ (fun _ h => by cases h) (by simp)
  intro q hq
  rw [List.mem_singleton.mp hq]
  exact shortestPath_chain hp'

/-! ### `trim_paths` keeps at least one path -/

theorem trimInner_keeper_ne {cand : Path} {ps : List Path} {drop : Bool} {keeper : List Path} (h : keeper ≠ []) :
    (trimInner cand ps drop keeper).1 ≠ [] := by
  induction ps generalizing drop keeper with
  | nil => exact h
  | cons p ps ih =>
    unfold trimInner
    split
    · exact ih (by simp)
    · split
      · exact ih h
      · exact ih (by simp)

theorem trimInner_drop_ne {cand : Path} {ps : List Path} {keeper : List Path}
    (h : (trimInner cand ps false keeper).2 = true) : (trimInner cand ps false keeper).1 ≠ [] := by
  induction ps generalizing keeper with
  | nil => simp [trimInner] at h
  | cons p ps ih =>
    unfold trimInner at h ⊢
    split
    · exact trimInner_keeper_ne (by simp)
    · rename_i hc
      rw [if_neg hc] at h
      split
      · rename_i hc2
        rw [if_pos hc2] at h
        exact ih h
      · exact trimInner_keeper_ne (by simp)

theorem trimStep_ne (trimmed : List Path) (cand : Path) : trimStep trimmed cand ≠ [] := by
  unfold trimStep
  simp only
  split
  · rename_i h; exact trimInner_drop_ne h
  · simp

theorem trimPaths_ne {paths : List Path} (h : paths ≠ []) : trimPaths paths ≠ [] := by
  unfold trimPaths
  suffices ∀ (qs : List Path) (acc : List Path), qs ≠ [] → qs.foldl trimStep acc ≠ [] from this paths [] h
  intro qs
  induction qs with
  | nil => intro _ h; exact absurd rfl h
  | cons q qs ih =>
    intro acc _
    rw [List.foldl_cons]
    cases qs with
    | nil => exact trimStep_ne acc q
    | cons q' r => exact ih _ (by simp)

/-! ### the scores fit `i32` -/

theorem chkI32_ok {site : String} {x : Int} (h1 : -2147483648 ≤ x) (h2 : x ≤ 2147483647) : chkI32 site x = .ok x := by
  unfold chkI32 i32Min i32Max
  rw [if_pos ⟨h1, h2⟩]

theorem chain_len_sum {E : List Edge} {a b : Nat} {p : Path} (h : IsChain E a b p)
    (hv : ∀ e ∈ E, e.start < e.stop) : (p.map Edge.len).sum + a = b ∧ p.length + a ≤ b := by
  induction p generalizing a with
  | nil => cases h; simp
  | cons e r ih =>
    obtain ⟨h1, h2, h3⟩ := h
    obtain ⟨i1, i2⟩ := ih h3
    have := hv e h1
    simp only [List.map_cons, List.sum_cons, List.length_cons, Edge.len]
    omega

theorem absDiff_le (a b : Nat) : absDiff a b ≤ a + b := by
  unfold absDiff; split <;> omega

theorem sum_absDiff_le (x : Nat) (es : List Edge) :
    (es.map fun f => absDiff x f.len).sum ≤ es.length * x + (es.map Edge.len).sum := by
  induction es with
  | nil => simp
  | cons e r ih =>
    simp only [List.map_cons, List.sum_cons, List.length_cons]
    have := absDiff_le x e.len
    rw [Nat.add_mul, Nat.one_mul]
    omega

theorem lenVarianceSum_le (p : Path) : lenVarianceSum p ≤ p.length * (p.map Edge.len).sum := by
  induction p with
  | nil => simp [lenVarianceSum]
  | cons e r ih =>
    simp only [lenVarianceSum, List.map_cons, List.sum_cons, List.length_cons]
    have h1 := sum_absDiff_le e.len r
    rw [Nat.add_mul, Nat.one_mul, Nat.mul_add]
    omega

theorem freqSum_le (p : Path) (hf : ∀ e ∈ p, e.phrase.freq ≤ 8388608) : freqSum p ≤ p.length * 8388608 := by
  unfold freqSum
  induction p with
  | nil => simp
  | cons e r ih =>
    simp only [List.map_cons, List.sum_cons, List.length_cons]
    have h1 := hf e (List.mem_cons_self ..)
    have h2 := ih (fun x hx => hf x (List.mem_cons_of_mem _ hx))
    have h3 : e.phrase.freq / (if e.len = 1 then 512 else 1) ≤ e.phrase.freq := Nat.div_le_self _ _
    rw [Nat.add_mul, Nat.one_mul]
    omega

theorem score_total {E : List Edge} {len : Nat} {p : Path} (hc : IsChain E 0 len p)
    (hv : ∀ e ∈ E, e.start < e.stop) (hf : ∀ e ∈ E, e.phrase.freq ≤ 8388608) (hlen : len ≤ 128) :
    ∃ s, score p = .ok s := by
  obtain ⟨hsum, hn⟩ := chain_len_sum hc hv
  simp only [Nat.add_zero] at hsum hn
  have hls : ruleLargestSum p = (len : Int) := by
    unfold ruleLargestSum asI32
    rw [hsum, Nat.mod_eq_of_lt (by omega), if_pos (by omega)]
  have hvar : lenVarianceSum p ≤ 16384 := by
    have h1 := lenVarianceSum_le p
    rw [hsum] at h1
    have h2 : p.length * len ≤ 128 * 128 := Nat.mul_le_mul (by omega) hlen
    omega
  have hfs : freqSum p ≤ 1073741824 := by
    have h1 := freqSum_le p (fun e he => hf e (hc.mem he))
    have h2 : p.length * 8388608 ≤ 128 * 8388608 := Nat.mul_le_mul_right _ (by omega)
    omega
  -- the average word length term
  have havg : ∃ b : Int, ruleLargestAvgWordLen p = .ok b ∧ 0 ≤ b ∧ b ≤ 768 := by
    unfold ruleLargestAvgWordLen
    by_cases hp : p = []
    · rw [if_pos hp]; exact ⟨0, rfl, by omega, by omega⟩
    · rw [if_neg hp, hls, chkI32_ok (by omega) (by omega)]
      simp only
      rw [if_pos (by unfold i32Max; omega)]
      refine ⟨_, rfl, Int.tdiv_nonneg (by omega) (by omega), ?_⟩
      have := Int.tdiv_le_self (a := 6 * (len : Int)) (p.length : Int) (by omega)
      omega
  obtain ⟨b, hb, hb0, hb1⟩ := havg
  have hlv : ruleSmallestLenVariance p = .ok (-(lenVarianceSum p : Int)) := by
    unfold ruleSmallestLenVariance i32Max
    rw [if_pos (by omega)]
  have hfq : ruleLargestFreqSum p = .ok (freqSum p : Int) := by
    unfold ruleLargestFreqSum i32Max
    rw [if_pos (by omega)]
  unfold score
  rw [hls, chkI32_ok (by omega) (by omega)]
  simp only
  rw [hb]
  simp only
  rw [chkI32_ok (by omega) (by omega)]
  simp only
  rw [chkI32_ok (by omega) (by omega)]
  simp only
  rw [hlv]
  simp only
  rw [chkI32_ok (by omega) (by omega)]
  simp only
  rw [chkI32_ok (by omega) (by omega)]
  simp only
  rw [hfq]
  simp only
  rw [chkI32_ok (by omega) (by omega)]
  exact ⟨_, rfl⟩

theorem scoreAll_total {paths : List Path} (h : ∀ p ∈ paths, ∃ s, score p = .ok s) :
    ∃ sp, scoreAll paths = .ok sp := by
  induction paths with
  | nil => exact ⟨[], rfl⟩
  | cons p ps ih =>
    obtain ⟨s, hs⟩ := h p (List.mem_cons_self ..)
    obtain ⟨sp, hsp⟩ := ih (fun q hq => h q (List.mem_cons_of_mem _ hq))
    unfold scoreAll
    rw [hs, hsp]
    exact ⟨_, rfl⟩

theorem sortPaths_total {paths : List Path} (h : ∀ p ∈ paths, ∃ s, score p = .ok s) :
    ∃ sorted, sortPaths paths = .ok sorted := by
  unfold sortPaths
  split
  · exact ⟨_, rfl⟩
  · obtain ⟨sp, hsp⟩ := scoreAll_total h
    rw [hsp]
    exact ⟨_, rfl⟩

end Chewing.Conv
