import Chewing.Proofs.ConvBasic
/-!
Soundness of the path machinery: every path `find_k_paths` returns (for every pick oracle) is a chain
of graph edges from `0` to `len`; `trim_paths` and the sort only select / permute.
-/
namespace Chewing.Conv

/-- `p` is a chain of edges of `E` from node `a` to node `b` -/
def IsChain (E : List Edge) : Nat → Nat → Path → Prop
  | a, b, [] => a = b
  | a, b, e :: r => e ∈ E ∧ e.start = a ∧ IsChain E e.stop b r

theorem IsChain.append {E : List Edge} {a m b : Nat} {p q : Path} (h₁ : IsChain E a m p) (h₂ : IsChain E m b q) :
    IsChain E a b (p ++ q) := by
  induction p generalizing a with
  | nil => cases h₁; exact h₂
  | cons e r ih => exact ⟨h₁.1, h₁.2.1, ih h₁.2.2⟩

theorem IsChain.take {E : List Edge} {a b : Nat} {p : Path} (h : IsChain E a b p) {i : Nat} {e : Edge}
    (hi : p[i]? = some e) : IsChain E a e.start (p.take i) := by
  induction p generalizing a i with
  | nil => cases hi
  | cons x r ih =>
    cases i with
    | zero =>
      simp only [List.getElem?_cons_zero, Option.some.injEq] at hi
      subst hi
      exact h.2.1.symm
    | succ j =>
      simp only [List.getElem?_cons_succ] at hi
      exact ⟨h.1, h.2.1, ih h.2.2 hi⟩

theorem IsChain.mem {E : List Edge} {a b : Nat} {p : Path} (h : IsChain E a b p) {e : Edge} (hm : e ∈ p) : e ∈ E := by
  induction p generalizing a with
  | nil => cases hm
  | cons x r ih =>
    rcases List.mem_cons.mp hm with rfl | hm
    · exact h.1
    · exact ih h.2.2 hm

/-! ### `shortest_path` -/

/-- invariant of the BFS parent array: an entry is a graph edge ending at its index -/
def ParOK (E : List Edge) (par : List (Option Edge)) : Prop :=
  ∀ v e, par[v]? = some (some e) → e ∈ E ∧ e.stop = v

theorem ParOK.replicate (E : List Edge) (n : Nat) : ParOK E (List.replicate n none) := by
  intro v e h
  rw [List.getElem?_replicate] at h
  split at h <;> cases h

theorem ParOK.set {E : List Edge} {par : List (Option Edge)} (h : ParOK E par) {e : Edge} (he : e ∈ E) :
    ParOK E (par.set e.stop (some e)) := by
  intro v e' hv
  rw [List.getElem?_set] at hv
  split at hv
  · rename_i heq
    split at hv
    · cases hv
      exact ⟨he, heq⟩
    · cases hv
  · exact h v e' hv

theorem bfsEdges_parOK {E : List Edge} {len : Nat} {removed : List Nat} {es : List Edge}
    {par : List (Option Edge)} {q : List Nat} {r : List (Option Edge) × List Nat × Bool}
    (hes : ∀ e ∈ es, e ∈ E) (hp : ParOK E par) (h : bfsEdges len removed es par q = .ok r) : ParOK E r.1 := by
  induction es generalizing par q with
  | nil =>
    simp only [bfsEdges] at h
    cases Outcome.ok.inj h
    exact hp
  | cons e es ih =>
    unfold bfsEdges at h
    have hes' : ∀ e ∈ es, e ∈ E := fun x hx => hes x (List.mem_cons_of_mem _ hx)
    have he : e ∈ E := hes e (List.mem_cons_self ..)
    split at h
    · split at h
      · exact ih hes' hp h
      · split at h
        · cases h
        · rename_i slot _
          have hp' : ParOK E (if slot.isNone = true then par.set e.stop (some e) else par) := by
            split
            · exact hp.set he
            · exact hp
          simp only at h
          split at h
          · cases Outcome.ok.inj h
            exact hp'
          · exact ih hes' hp' h
    · cases h
    · cases h

theorem outEdges_sub {es : List Edge} {node : Nat} : ∀ e ∈ outEdges es node, e ∈ es :=
  fun _ he => (List.mem_filter.mp he).1

theorem bfsLoop_parOK {es : List Edge} {len : Nat} {removed : List Nat} {fuel : Nat}
    {par : List (Option Edge)} {q : List Nat} {r : List (Option Edge)}
    (hp : ParOK es par) (h : bfsLoop es len removed fuel par q = .ok r) : ParOK es r := by
  induction fuel generalizing par q with
  | zero =>
    cases q with
    | nil => simp only [bfsLoop] at h; cases Outcome.ok.inj h; exact hp
    | cons n q => simp [bfsLoop] at h
  | succ f ih =>
    cases q with
    | nil => simp only [bfsLoop] at h; cases Outcome.ok.inj h; exact hp
    | cons n q =>
      simp only [bfsLoop] at h
      split at h
      · rename_i par' q' brk hb
        have hp' := bfsEdges_parOK outEdges_sub hp hb
        split at h
        · cases Outcome.ok.inj h; exact hp'
        · exact ih hp' h
      · cases h
      · cases h

theorem walkBack_chain {E : List Edge} {par : List (Option Edge)} {source len fuel node : Nat} {acc p : Path}
    (hp : ParOK E par) (hacc : IsChain E node len acc) (h : walkBack par source fuel node acc = .ok (some p)) :
    IsChain E source len p := by
  induction fuel generalizing node acc with
  | zero =>
    unfold walkBack at h
    split at h
    · rename_i hn
      cases Outcome.ok.inj h
      exact hn ▸ hacc
    · cases h
  | succ f ih =>
    unfold walkBack at h
    split at h
    · rename_i hn
      cases Outcome.ok.inj h
      exact hn ▸ hacc
    · simp only at h
      split at h
      · cases h
      · cases h
      · rename_i e he
        obtain ⟨h1, h2⟩ := hp _ _ he
        exact ih (node := e.start) (acc := e :: acc) ⟨h1, rfl, h2 ▸ hacc⟩ h

/-- a path returned by `shortest_path` is a chain of graph edges from `source` to `len` -/
theorem shortestPath_chain {es : List Edge} {len : Nat} {removed : List Nat} {source : Nat} {p : Path}
    (h : shortestPath es len removed source = .ok (some p)) : IsChain es source len p := by
  unfold shortestPath at h
  split at h
  · rename_i par hpar
    exact walkBack_chain (node := len) (acc := []) (bfsLoop_parOK (ParOK.replicate es _) hpar)
      (show len = len from rfl) h
  · cases h
  · cases h

/-! ### `find_k_paths` -/

theorem spurLoop_chain {es : List Edge} {len : Nat} {ksp : List Path} {prev : Path} {is : List Nat}
    {cands : List Path} {removed : List Nat} {r : List Path × List Nat}
    (hprev : IsChain es 0 len prev) (hc : ∀ p ∈ cands, IsChain es 0 len p)
    (h : spurLoop es len ksp prev is cands removed = .ok r) : ∀ p ∈ r.1, IsChain es 0 len p := by
  induction is generalizing cands removed with
  | nil =>
    simp only [spurLoop] at h
    cases Outcome.ok.inj h
    exact hc
  | cons i is ih =>
    unfold spurLoop at h
    split at h
    · rename_i removed' _
      split at h
      · cases h
      · rename_i spurEdge hi
        split at h
        · rename_i spur hsp
          refine ih ?_ h
          cases spur with
          | none => exact hc
          | some sp =>
            simp only
            split
            · exact hc
            · intro p hp
              rcases List.mem_append.mp hp with hp | hp
              · exact hc p hp
              · simp only [List.mem_singleton] at hp
                subst hp
                exact (hprev.take hi).append (shortestPath_chain hsp)
        · cases h
        · cases h
    · cases h
    · cases h

theorem kLoop_chain {pick : Nat → List Path → Nat} {es : List Edge} {len rem kth : Nat}
    {ksp cands : List Path} {removed : List Nat} {r : List Path}
    (hk : ∀ p ∈ ksp, IsChain es 0 len p) (hc : ∀ p ∈ cands, IsChain es 0 len p)
    (h : kLoop pick es len rem kth ksp cands removed = .ok r) : ∀ p ∈ r, IsChain es 0 len p := by
  induction rem generalizing kth ksp cands removed with
  | zero =>
    simp only [kLoop] at h
    cases Outcome.ok.inj h
    exact hk
  | succ rem ih =>
    unfold kLoop at h
    split at h
    · cases h
    · rename_i prev hprev
      split at h
      · rename_i cands' removed' hs
        have hc' := spurLoop_chain (hk prev (List.mem_of_getLast? hprev)) hc hs
        simp only at hc'
        split at h
        · cases Outcome.ok.inj h
          exact hk
        · split at h
          · cases h
          · rename_i chosen hch
            refine ih ?_ ?_ h
            · intro p hp
              rcases List.mem_append.mp hp with hp | hp
              · exact hk p hp
              · simp only [List.mem_singleton] at hp
                subst hp
                exact hc' _ (List.mem_of_getElem? hch)
            · intro p hp
              exact hc' p (List.mem_of_mem_eraseIdx hp)
      · cases h
      · cases h

/-- every raw path of `find_k_paths` is a chain of graph edges from `0` to `len`, whatever the oracle picks -/
theorem findKPaths_chain {pick : Nat → List Path → Nat} {k len : Nat} {es : List Edge} {paths : List Path}
    (h : findKPaths pick k len es = .ok paths) : ∀ p ∈ paths, IsChain es 0 len p := by
  unfold findKPaths at h
  split at h
  · cases h
  · split at h
    · rename_i p hp
      refine kLoop_chain ?_ (fun _ hm => by cases hm) h
      intro q hq
      simp only [List.mem_singleton] at hq
      subst hq
      exact shortestPath_chain hp
    · cases h
    · cases h
    · cases h

/-! ### `trim_paths` and the sort select / permute -/

theorem trimInner_sub {cand : Path} {ps : List Path} {drop : Bool} {keeper : List Path} :
    ∀ p ∈ (trimInner cand ps drop keeper).1, p ∈ keeper ∨ p ∈ ps := by
  induction ps generalizing drop keeper with
  | nil => intro p hp; exact Or.inl hp
  | cons q qs ih =>
    intro p hp
    unfold trimInner at hp
    split at hp
    · rcases ih p hp with h | h
      · rcases List.mem_append.mp h with h | h
        · exact Or.inl h
        · exact Or.inr (by simp only [List.mem_singleton] at h; subst h; exact List.mem_cons_self ..)
      · exact Or.inr (List.mem_cons_of_mem _ h)
    · split at hp
      · rcases ih p hp with h | h
        · exact Or.inl h
        · exact Or.inr (List.mem_cons_of_mem _ h)
      · rcases ih p hp with h | h
        · rcases List.mem_append.mp h with h | h
          · exact Or.inl h
          · exact Or.inr (by simp only [List.mem_singleton] at h; subst h; exact List.mem_cons_self ..)
        · exact Or.inr (List.mem_cons_of_mem _ h)

theorem trimStep_sub {trimmed : List Path} {cand : Path} : ∀ p ∈ trimStep trimmed cand, p ∈ trimmed ∨ p = cand := by
  intro p hp
  unfold trimStep at hp
  simp only at hp
  split at hp
  · rcases trimInner_sub p hp with h | h
    · cases h
    · exact Or.inl h
  · rcases List.mem_append.mp hp with h | h
    · rcases trimInner_sub p h with h | h
      · cases h
      · exact Or.inl h
    · exact Or.inr (by simpa using h)

theorem trimPaths_sub {paths : List Path} : ∀ p ∈ trimPaths paths, p ∈ paths := by
  unfold trimPaths
  suffices ∀ (acc : List Path), ∀ p ∈ paths.foldl trimStep acc, p ∈ acc ∨ p ∈ paths by
    intro p hp
    rcases this [] p hp with h | h
    · cases h
    · exact h
  induction paths with
  | nil => intro acc p hp; exact Or.inl hp
  | cons q qs ih =>
    intro acc p hp
    rw [List.foldl_cons] at hp
    rcases ih _ p hp with h | h
    · rcases trimStep_sub p h with h | h
      · exact Or.inl h
      · exact Or.inr (h ▸ List.mem_cons_self ..)
    · exact Or.inr (List.mem_cons_of_mem _ h)

theorem mem_insertDesc {x y : Int × Path} {l : List (Int × Path)} : y ∈ insertDesc x l ↔ y = x ∨ y ∈ l := by
  induction l with
  | nil => simp [insertDesc]
  | cons z zs ih =>
    unfold insertDesc
    split
    · simp
    · simp only [List.mem_cons, ih]
      constructor
      · rintro (h | h | h)
        · exact Or.inr (Or.inl h)
        · exact Or.inl h
        · exact Or.inr (Or.inr h)
      · rintro (h | h | h)
        · exact Or.inr (Or.inl h)
        · exact Or.inl h
        · exact Or.inr (Or.inr h)

theorem mem_sortDesc {y : Int × Path} {l : List (Int × Path)} : y ∈ sortDesc l ↔ y ∈ l := by
  induction l with
  | nil => simp [sortDesc]
  | cons x xs ih => simp [sortDesc, mem_insertDesc, ih]

theorem scoreAll_snd {paths : List Path} {sp : List (Int × Path)} (h : scoreAll paths = .ok sp) :
    sp.map (·.2) = paths := by
  induction paths generalizing sp with
  | nil => simp only [scoreAll] at h; cases Outcome.ok.inj h; rfl
  | cons p ps ih =>
    unfold scoreAll at h
    split at h
    · split at h
      · rename_i r hr
        cases Outcome.ok.inj h
        simp [ih hr]
      · cases h
      · cases h
    · cases h
    · cases h

theorem sortPaths_mem {paths sorted : List Path} (h : sortPaths paths = .ok sorted) :
    ∀ p, p ∈ sorted ↔ p ∈ paths := by
  unfold sortPaths at h
  split at h
  · cases Outcome.ok.inj h
    intro p; rfl
  · split at h
    · rename_i sp hsp
      cases Outcome.ok.inj h
      intro p
      rw [← scoreAll_snd hsp]
      simp only [List.mem_map]
      constructor
      · rintro ⟨y, hy, rfl⟩
        exact ⟨y, mem_sortDesc.mp hy, rfl⟩
      · rintro ⟨y, hy, rfl⟩
        exact ⟨y, mem_sortDesc.mpr hy, rfl⟩
    · cases h
    · cases h

end Chewing.Conv
