import Chewing.Proofs.ConvBasic
/-!
`SimpleEngine::convert`: the sorted list of one interval per unselected symbol plus the selections is a
tiling, under `CompValid` (pairwise non-intersecting valid selections).
-/
namespace Chewing.Conv

/-- a list of non-empty intervals inside `[a, n)`, sorted by start, pairwise non-intersecting and covering
    every position of `[a, n)`, is a chain from `a` to `n` -/
theorem chain_of_sorted_cover {l : List Interval} {a n : Nat}
    (hs : l.Pairwise (fun x y => x.start ≤ y.start))
    (hd : l.Pairwise (fun x y => x.intersect y = false))
    (hb : ∀ x ∈ l, a ≤ x.start ∧ x.start < x.stop ∧ x.stop ≤ n)
    (hcov : ∀ i, a ≤ i → i < n → ∃ x ∈ l, x.start ≤ i ∧ i < x.stop)
    (han : a ≤ n) : IvChain a n l := by
  induction l generalizing a with
  | nil =>
    show a = n
    rcases Nat.lt_or_ge a n with h | h
    · obtain ⟨x, hx, _⟩ := hcov a (Nat.le_refl _) h
      cases hx
    · omega
  | cons x r ih =>
    rw [List.pairwise_cons] at hs hd
    have hbx := hb x (List.mem_cons_self ..)
    have hxa : x.start = a := by
      obtain ⟨y, hy, hy1, hy2⟩ := hcov a (Nat.le_refl _) (by omega)
      have hby := hb y hy
      rcases List.mem_cons.mp hy with rfl | hyr
      · omega
      · have h1 := hs.1 y hyr
        have h2 := intersect_eq_false.mp (hd.1 y hyr)
        omega
    refine ⟨hxa, hbx.2.1, ih hs.2 hd.2 ?_ ?_ hbx.2.2⟩
    · intro z hz
      have hbz := hb z (List.mem_cons_of_mem _ hz)
      have h1 := hs.1 z hz
      have h2 := intersect_eq_false.mp (hd.1 z hz)
      omega
    · intro i h1 h2
      obtain ⟨z, hz, hz1, hz2⟩ := hcov i (by omega) h2
      rcases List.mem_cons.mp hz with rfl | hzr
      · omega
      · exact ⟨z, hzr, hz1, hz2⟩

/-! ### the stable sort by start -/

theorem insertByStart_perm (x : Interval) (l : List Interval) : (insertByStart x l).Perm (x :: l) := by
  induction l with
  | nil => exact List.Perm.refl _
  | cons y ys ih =>
    unfold insertByStart
    split
    · exact List.Perm.refl _
    · exact ((List.Perm.cons y ih).trans (List.Perm.swap x y ys))

theorem sortByStart_perm (l : List Interval) : (sortByStart l).Perm l := by
  induction l with
  | nil => exact List.Perm.refl _
  | cons x xs ih =>
    unfold sortByStart
    exact (insertByStart_perm x _).trans (List.Perm.cons x ih)

theorem insertByStart_sorted {x : Interval} {l : List Interval}
    (h : l.Pairwise (fun a b => a.start ≤ b.start)) :
    (insertByStart x l).Pairwise (fun a b => a.start ≤ b.start) := by
  induction l with
  | nil => simp [insertByStart]
  | cons y ys ih =>
    rw [List.pairwise_cons] at h
    unfold insertByStart
    split
    · rename_i hxy
      rw [List.pairwise_cons]
      refine ⟨?_, List.pairwise_cons.mpr h⟩
      intro z hz
      rcases List.mem_cons.mp hz with rfl | hz
      · exact hxy
      · exact Nat.le_trans hxy (h.1 z hz)
    · rename_i hxy
      rw [List.pairwise_cons]
      refine ⟨?_, ih h.2⟩
      intro z hz
      rcases List.mem_cons.mp ((insertByStart_perm x ys).mem_iff.mp hz) with rfl | hz
      · omega
      · exact h.1 z hz

theorem sortByStart_sorted (l : List Interval) : (sortByStart l).Pairwise (fun a b => a.start ≤ b.start) := by
  induction l with
  | nil => simp [sortByStart]
  | cons x xs ih => exact insertByStart_sorted ih

/-! ### the unselected symbols -/

theorem simpleInterval_range (d : Dict) (sym : Sym) (i : Nat) :
    (simpleInterval d sym i).start = i ∧ (simpleInterval d sym i).stop = i + 1 := by
  cases sym <;> exact ⟨rfl, rfl⟩

theorem mem_simpleSingles {d : Dict} {c : Composition} {l : List (Sym × Nat)} {iv : Interval}
    (h : iv ∈ simpleSingles d c l) :
    ∃ sym i, (sym, i) ∈ l ∧ c.selections.any (fun sel => sel.intersectRange i (i + 1)) = false ∧
      iv = simpleInterval d sym i := by
  induction l with
  | nil => cases h
  | cons p rest ih =>
    obtain ⟨sym, i⟩ := p
    unfold simpleSingles at h
    split at h
    · obtain ⟨s', i', h1, h2⟩ := ih h
      exact ⟨s', i', List.mem_cons_of_mem _ h1, h2⟩
    · rename_i hn
      rcases List.mem_cons.mp h with rfl | h
      · exact ⟨sym, i, List.mem_cons_self .., by simpa using hn, rfl⟩
      · obtain ⟨s', i', h1, h2⟩ := ih h
        exact ⟨s', i', List.mem_cons_of_mem _ h1, h2⟩

theorem simpleSingles_complete {d : Dict} {c : Composition} {l : List (Sym × Nat)} {sym : Sym} {i : Nat}
    (hm : (sym, i) ∈ l) (hn : c.selections.any (fun sel => sel.intersectRange i (i + 1)) = false) :
    simpleInterval d sym i ∈ simpleSingles d c l := by
  induction l with
  | nil => cases hm
  | cons p rest ih =>
    obtain ⟨sym', i'⟩ := p
    unfold simpleSingles
    rcases List.mem_cons.mp hm with heq | hm
    · cases heq
      rw [hn]
      exact List.mem_cons_self ..
    · split
      · exact ih hm
      · exact List.mem_cons_of_mem _ (ih hm)

theorem simpleSingles_ge {d : Dict} {c : Composition} {l : List Sym} {k : Nat} :
    ∀ iv ∈ simpleSingles d c (l.zipIdx k), k ≤ iv.start := by
  intro iv h
  obtain ⟨sym, i, h1, _, rfl⟩ := mem_simpleSingles h
  rw [(simpleInterval_range d sym i).1]
  exact (List.mem_zipIdx h1).1

theorem simpleSingles_pairwise {d : Dict} {c : Composition} {l : List Sym} {k : Nat} :
    (simpleSingles d c (l.zipIdx k)).Pairwise (fun a b => a.stop ≤ b.start) := by
  induction l generalizing k with
  | nil => simp [simpleSingles]
  | cons x xs ih =>
    rw [List.zipIdx_cons]
    unfold simpleSingles
    split
    · exact ih
    · rw [List.pairwise_cons]
      refine ⟨?_, ih⟩
      intro b hb
      rw [(simpleInterval_range d x k).2]
      exact simpleSingles_ge b hb

/-- the list the simple engine sorts -/
def simpleList (d : Dict) (c : Composition) : List Interval := simpleSingles d c c.symbols.zipIdx ++ c.selections

theorem convertSimple_eq (d : Dict) (c : Composition) : convertSimple d c = [sortByStart (simpleList d c)] := rfl

theorem simpleList_disjoint {d : Dict} {c : Composition} (hc : CompValid c) :
    (simpleList d c).Pairwise (fun a b => a.intersect b = false) := by
  unfold simpleList
  rw [List.pairwise_append]
  refine ⟨simpleSingles_pairwise.imp ?_, hc.disjoint, ?_⟩
  · intro a b hab
    rw [intersect_eq_false]
    omega
  · intro a ha b hb
    obtain ⟨sym, i, _, hn, rfl⟩ := mem_simpleSingles ha
    rw [intersect_comm]
    have := List.any_eq_false.mp hn b hb
    obtain ⟨r1, r2⟩ := simpleInterval_range d sym i
    simp only [Interval.intersect, r1, r2]
    simpa using this

theorem simpleList_bounds {d : Dict} {c : Composition} (hc : CompValid c) :
    ∀ x ∈ simpleList d c, 0 ≤ x.start ∧ x.start < x.stop ∧ x.stop ≤ c.symbols.length := by
  intro x hx
  rcases List.mem_append.mp hx with hx | hx
  · obtain ⟨sym, i, h1, _, rfl⟩ := mem_simpleSingles hx
    obtain ⟨r1, r2⟩ := simpleInterval_range d sym i
    have := List.mem_zipIdx_iff_getElem?.mp h1
    have hi : i < c.symbols.length := by
      simp only at this
      exact (List.getElem?_eq_some_iff.mp this).1
    omega
  · have := hc.sels x hx
    exact ⟨Nat.zero_le _, this.nonempty, this.inRange⟩

theorem simpleList_cover {d : Dict} {c : Composition} :
    ∀ i, 0 ≤ i → i < c.symbols.length → ∃ x ∈ simpleList d c, x.start ≤ i ∧ i < x.stop := by
  intro i _ hi
  cases hany : c.selections.any (fun sel => sel.intersectRange i (i + 1)) with
  | true =>
    obtain ⟨x, hx, hxi⟩ := List.any_eq_true.mp hany
    have := intersectRange_eq_true.mp hxi
    exact ⟨x, List.mem_append_right _ hx, by omega, by omega⟩
  | false =>
    have hm : (c.symbols[i], i) ∈ c.symbols.zipIdx :=
      List.mem_zipIdx_iff_getElem?.mpr (List.getElem?_eq_getElem hi)
    refine ⟨_, List.mem_append_left _ (simpleSingles_complete (d := d) hm hany), ?_⟩
    obtain ⟨r1, r2⟩ := simpleInterval_range d c.symbols[i] i
    omega

/-- the single alternative of the simple engine is a chain from `0` to `len` -/
theorem convertSimple_chain {d : Dict} {c : Composition} (hc : CompValid c) :
    IvChain 0 c.symbols.length (sortByStart (simpleList d c)) := by
  have hp := sortByStart_perm (simpleList d c)
  refine chain_of_sorted_cover (sortByStart_sorted _) ?_ ?_ ?_ (Nat.zero_le _)
  · exact (hp.pairwise_iff (fun {x y} h => by rw [intersect_comm]; exact h)).mpr (simpleList_disjoint hc)
  · intro x hx
    exact simpleList_bounds hc x (hp.mem_iff.mp hx)
  · intro i h1 h2
    obtain ⟨x, hx, hxi⟩ := simpleList_cover (d := d) i h1 h2
    exact ⟨x, hp.mem_iff.mpr hx, hxi⟩

theorem mem_convertSimple {d : Dict} {c : Composition} {alt : List Interval} (h : alt ∈ convertSimple d c)
    {iv : Interval} (hiv : iv ∈ alt) : iv ∈ simpleList d c := by
  rw [convertSimple_eq, List.mem_singleton] at h
  subst h
  exact (sortByStart_perm _).mem_iff.mp hiv

end Chewing.Conv
