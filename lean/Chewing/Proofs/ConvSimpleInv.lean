import Chewing.Proofs.ConvSimple
import Chewing.Proofs.ConvDisplay
import Chewing.Proofs.ConvGlue
/-!
Per-interval facts of the simple engine's output.
-/
namespace Chewing.Conv

/-- a valid selection covers syllables only, so none intersects a character position -/
theorem no_sel_at_char {c : Composition} (hc : CompValid c) {i cp : Nat} (h : c.symbols[i]? = some (Sym.chr cp)) :
    c.selections.any (fun sel => sel.intersectRange i (i + 1)) = false := by
  rw [List.any_eq_false]
  intro x hx hi
  have hi := intersectRange_eq_true.mp (by simpa using hi)
  have := (hc.sels x hx).syllables (Sym.chr cp) (mem_slice_iff.mpr ⟨i, by omega, by omega, h⟩)
  simp [Sym.isSyl] at this

theorem simple_mem_cases {d : Dict} {c : Composition} {iv : Interval} (h : iv ∈ simpleList d c) :
    (∃ sym i, c.symbols[i]? = some sym ∧ iv = simpleInterval d sym i) ∨ iv ∈ c.selections := by
  rcases List.mem_append.mp h with h | h
  · obtain ⟨sym, i, h1, _, rfl⟩ := mem_simpleSingles h
    exact Or.inl ⟨sym, i, List.mem_zipIdx_iff_getElem?.mp h1, rfl⟩
  · exact Or.inr h

theorem simple_noBreak {d : Dict} {c : Composition} (hc : CompValid c) {iv : Interval} (h : iv ∈ simpleList d c) :
    ∀ i, iv.start < i → i < iv.stop → gapAt c i ≠ some Gap.brk := by
  rcases simple_mem_cases h with ⟨sym, i, _, rfl⟩ | hs
  · intro j h1 h2
    obtain ⟨r1, r2⟩ := simpleInterval_range d sym i
    omega
  · exact hasBreakInside_eq_false_iff.mp (hc.sels iv hs).noBreak

/-- provenance of the simple engine's intervals; the only other case is the spelling of a word-less syllable -/
theorem simple_prov {d : Dict} {c : Composition} {iv : Interval} (h : iv ∈ simpleList d c) :
    Prov d Strategy.standard c iv ∨ spellingShown d c iv := by
  rcases simple_mem_cases h with ⟨sym, i, hi, rfl⟩ | hs
  · cases sym with
    | chr cp => exact Or.inl (Prov.chr hi)
    | syl k =>
      cases hf : d.first [k] Strategy.standard with
      | none =>
        refine Or.inr ⟨k, hi, hf, ?_⟩
        simp [simpleInterval, hf]
      | some p =>
        left
        have hp : p ∈ d.lookup [k] Strategy.standard := List.mem_of_mem_head? (by simpa [Dict.first] using hf)
        have hs := slice_one hi
        have hlen : i + 1 ≤ c.symbols.length := (List.getElem?_eq_some_iff.mp hi).1
        have := Prov.dict (d := d) (strat := Strategy.standard) (c := c) (s := i) (e := i + 1) (ph := p)
          (by omega) hlen (by rw [hs]; intro sym hm; rw [List.mem_singleton.mp hm]; rfl)
          (by rw [hs]; exact hp)
        simpa [simpleInterval, hf] using this
  · have := Prov.sel (d := d) (strat := Strategy.standard) (b := iv.isPhrase) hs
    exact Or.inl this

theorem hasWord_first {d : Dict} {c : Composition} (hw : HasWord d Strategy.standard c) {i k : Nat}
    (hi : c.symbols[i]? = some (Sym.syl k)) : ∃ p, d.first [k] Strategy.standard = some p ∧ p ∈ d.lookup [k] Strategy.standard := by
  have := hw k (List.mem_of_getElem? hi)
  unfold Dict.first
  cases hl : d.lookup [k] Strategy.standard with
  | nil => exact absurd hl this
  | cons p ps => exact ⟨p, rfl, List.mem_cons_self ..⟩

theorem simple_prov_hasWord {d : Dict} {c : Composition} (hw : HasWord d Strategy.standard c) {iv : Interval}
    (h : iv ∈ simpleList d c) : Prov d Strategy.standard c iv := by
  rcases simple_prov h with hp | ⟨k, hi, hf, _⟩
  · exact hp
  · rcases simple_mem_cases h with ⟨sym, i, hi', rfl⟩ | hs
    · rw [(simpleInterval_range d sym i).1] at hi
      obtain ⟨p, hp, _⟩ := hasWord_first hw hi
      rw [hp] at hf
      cases hf
    · exact Prov.sel (b := iv.isPhrase) hs

theorem simple_len {d : Dict} {c : Composition} (hc : CompValid c) (hw : HasWord d Strategy.standard c)
    (hwf : WellFormed d) {iv : Interval} (h : iv ∈ simpleList d c) : iv.text.length = iv.stop - iv.start := by
  rcases simple_mem_cases h with ⟨sym, i, hi, rfl⟩ | hs
  · cases sym with
    | chr cp => simp [simpleInterval]
    | syl k =>
      obtain ⟨p, hp, hpl⟩ := hasWord_first hw hi
      have := hwf _ _ p hpl
      simp [simpleInterval, hp, this]
  · exact (hc.sels iv hs).textLen

theorem simple_mem_cases' {d : Dict} {c : Composition} {iv : Interval} (h : iv ∈ simpleList d c) :
    (∃ sym i, c.symbols[i]? = some sym ∧ Free c i ∧ iv = simpleInterval d sym i) ∨ iv ∈ c.selections := by
  rcases List.mem_append.mp h with h | h
  · obtain ⟨sym, i, h1, h2, rfl⟩ := mem_simpleSingles h
    exact Or.inl ⟨sym, i, List.mem_zipIdx_iff_getElem?.mp h1, h2, rfl⟩
  · exact Or.inr h

/-- an interval of the simple engine carries one character per symbol, or it is the fallback interval -/
theorem simple_len_or_spelled {d : Dict} {c : Composition} (hc : CompValid c) (hwf : WellFormed d) {iv : Interval}
    (h : iv ∈ simpleList d c) : iv.text.length = iv.stop - iv.start ∨ Spelled d Strategy.standard c iv := by
  rcases simple_mem_cases' h with ⟨sym, i, hi, hfree, rfl⟩ | hs
  · cases sym with
    | chr cp => exact Or.inl (by simp [simpleInterval])
    | syl k =>
      cases hf : d.first [k] Strategy.standard with
      | none =>
        right
        have hl : d.lookup [k] Strategy.standard = [] := by
          unfold Dict.first at hf
          exact List.head?_eq_none_iff.mp hf
        exact ⟨i, k, hi, hl, hfree, by simp [simpleInterval, hf]⟩
      | some p =>
        left
        have hp : p ∈ d.lookup [k] Strategy.standard := List.mem_of_mem_head? (by simpa [Dict.first] using hf)
        have := hwf _ _ p hp
        simp [simpleInterval, hf, this]
  · exact Or.inl (hc.sels iv hs).textLen

theorem simple_inv3 {d : Dict} {c : Composition} (hc : CompValid c) (hwf : WellFormed d) {iv : Interval}
    (h : iv ∈ simpleList d c) : IvInv3 d Strategy.standard c iv := by
  have key := simple_len_or_spelled hc hwf h
  refine ⟨?_, fun _ => key⟩
  rcases key with hl | hs
  · exact SpelledText.plain (Nat.le_of_lt (simpleList_bounds hc iv h).2.1) hl
  · exact hs.shape

/-- provenance of the simple engine's intervals without `HasWord` -/
theorem simple_provS {d : Dict} {c : Composition} {iv : Interval} (h : iv ∈ simpleList d c) :
    ProvS d Strategy.standard c iv := by
  rcases simple_prov h with hp | _
  · exact ProvS.base hp
  · rcases simple_mem_cases' h with ⟨sym, i, hi, hfree, rfl⟩ | hs
    · cases sym with
      | chr cp => exact ProvS.base (Prov.chr hi)
      | syl k =>
        cases hf : d.first [k] Strategy.standard with
        | none =>
          have hl : d.lookup [k] Strategy.standard = [] := by
            unfold Dict.first at hf
            exact List.head?_eq_none_iff.mp hf
          exact ProvS.spell ⟨i, k, hi, hl, hfree, by simp [simpleInterval, hf]⟩
        | some p =>
          rcases simple_prov h with hp | ⟨k', hi', hf', _⟩
          · exact ProvS.base hp
          · rw [(simpleInterval_range d (Sym.syl k) i).1, hi] at hi'
            cases hi'
            rw [hf] at hf'
            cases hf'
    · exact ProvS.base (Prov.sel (b := iv.isPhrase) hs)

theorem simple_char {d : Dict} {c : Composition} (hc : CompValid c) {i cp : Nat}
    (h : c.symbols[i]? = some (Sym.chr cp)) :
    ({ start := i, stop := i + 1, isPhrase := false, text := [cp] } : Interval) ∈ simpleList d c := by
  have hm : (Sym.chr cp, i) ∈ c.symbols.zipIdx := List.mem_zipIdx_iff_getElem?.mpr h
  exact List.mem_append_left _ (simpleSingles_complete (d := d) hm (no_sel_at_char hc h))

end Chewing.Conv
