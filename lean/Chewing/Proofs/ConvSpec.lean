import Chewing.Model.ConversionSpec
/-!
The dictionary preconditions are decidable checks on the entry list for dictionaries given by entries
(`Dict.ofEntries`).
-/
namespace Chewing.Conv

theorem mem_ofEntries_lookup {es : List Entry} {key : List Nat} {strat : Strategy} {p : Phrase} :
    p ∈ (Dict.ofEntries es).lookup key strat ↔ (key, p) ∈ es := by
  simp only [Dict.ofEntries, List.mem_map, List.mem_filter, beq_iff_eq]
  constructor
  · rintro ⟨e, ⟨he, hk⟩, rfl⟩
    rw [← hk]
    exact he
  · intro h
    exact ⟨(key, p), ⟨h, rfl⟩, rfl⟩

theorem noEmptyKey_ofEntries {es : List Entry} (h : ∀ e ∈ es, e.1 ≠ []) : NoEmptyKey (Dict.ofEntries es) := by
  intro strat
  rw [List.eq_nil_iff_forall_not_mem]
  intro p hp
  exact h _ (mem_ofEntries_lookup.mp hp) rfl

theorem wellFormed_ofEntries {es : List Entry} (h : ∀ e ∈ es, e.2.text.length = e.1.length) :
    WellFormed (Dict.ofEntries es) := by
  intro key strat p hp
  exact h _ (mem_ofEntries_lookup.mp hp)

theorem scoreBound_ofEntries {es : List Entry} {strat : Strategy} {c : Composition} (hl : c.symbols.length ≤ 128)
    (h : ∀ e ∈ es, e.2.freq ≤ 8388608) : ScoreBound (Dict.ofEntries es) strat c :=
  ⟨hl, fun _ _ hp => h _ (mem_ofEntries_lookup.mp hp)⟩

/-- with a word for every syllable there is no fallback interval: `ProvS` is `Prov` -/
theorem provS_hasWord {d : Dict} {strat : Strategy} {c : Composition} (hw : HasWord d strat c) {iv : Interval}
    (h : ProvS d strat c iv) : Prov d strat c iv := by
  induction h with
  | base hp => exact hp
  | spell hs =>
    obtain ⟨i, k, h1, h2, _, _⟩ := hs
    exact absurd h2 (hw k (List.mem_of_getElem? h1))
  | glue _ _ hg ih₁ ih₂ => exact Prov.glue ih₁ ih₂ hg

theorem hasWord_not_spelled {d : Dict} {strat : Strategy} {c : Composition} (hw : HasWord d strat c) {iv : Interval} :
    ¬ Spelled d strat c iv := by
  rintro ⟨i, k, h1, h2, _, _⟩
  exact hw k (List.mem_of_getElem? h1) h2

end Chewing.Conv
