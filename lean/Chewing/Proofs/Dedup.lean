import Chewing.Model.Layered
/-!
Properties of the de-duplication loop shared by `Layered` and `TrieBuf` (`dedup`):
one entry per text, at the position of the first appearance, every result is one of the candidates
and carries the highest frequency among the candidates with its text; identity on duplicate-free input.
-/
namespace Chewing

/-- texts of a phrase list -/
def texts (l : List Phrase) : List Text := l.map (·.text)

@[simp] theorem texts_nil : texts [] = [] := rfl
@[simp] theorem texts_cons (p : Phrase) (l : List Phrase) : texts (p :: l) = p.text :: texts l := rfl
@[simp] theorem texts_append (a b : List Phrase) : texts (a ++ b) = texts a ++ texts b := by simp [texts]

theorem mem_texts {t : Text} {l : List Phrase} : t ∈ texts l ↔ ∃ p ∈ l, p.text = t := by
  simp [texts]

/-- first occurrences of a list of texts -/
def firstOccStep (ts : List Text) (t : Text) : List Text := if t ∈ ts then ts else ts ++ [t]
def firstOcc (l : List Text) : List Text := l.foldl firstOccStep []

theorem phraseMax_cases (p q : Phrase) : phraseMax p q = p ∨ phraseMax p q = q := by
  unfold phraseMax; split <;> simp

theorem phraseMax_freq (p q : Phrase) : p.freq ≤ (phraseMax p q).freq ∧ q.freq ≤ (phraseMax p q).freq := by
  unfold phraseMax phraseCmp
  by_cases h1 : p.freq < q.freq
  · simp [h1]; omega
  · by_cases h2 : q.freq < p.freq
    · simp [h1, h2]; omega
    · have : p.freq = q.freq := by omega
      simp [h1, h2]
      split <;> simp [this]

theorem phraseMax_text {p q : Phrase} (h : q.text = p.text) : (phraseMax p q).text = p.text := by
  rcases phraseMax_cases p q with e | e <;> simp [e, h]

theorem any_text_iff (acc : List Phrase) (t : Text) : acc.any (fun q => q.text == t) = true ↔ t ∈ texts acc := by
  simp [texts, List.any_eq_true]

theorem texts_dedupStep (acc : List Phrase) (p : Phrase) : texts (dedupStep acc p) = firstOccStep (texts acc) p.text := by
  unfold dedupStep firstOccStep
  by_cases h : p.text ∈ texts acc
  · have h' := (any_text_iff acc p.text).mpr h
    simp only [h', h, if_true]
    simp only [texts, List.map_map]
    apply List.map_congr_left
    intro q _
    simp only [Function.comp]
    by_cases e : q.text = p.text
    · simp [e, phraseMax_text e]
    · simp [e]
  · have h' : acc.any (fun q => q.text == p.text) = false := by
      cases hh : acc.any (fun q => q.text == p.text)
      · rfl
      · exact absurd ((any_text_iff acc p.text).mp hh) h
    simp [h', h]

theorem texts_foldl_dedupStep (l acc : List Phrase) :
    texts (l.foldl dedupStep acc) = (texts l).foldl firstOccStep (texts acc) := by
  induction l generalizing acc with
  | nil => rfl
  | cons p l ih => simp [List.foldl, ih, texts_dedupStep]

/-- D4: the order of the result is the order of first appearance -/
theorem texts_dedup (l : List Phrase) : texts (dedup l) = firstOcc (texts l) := by
  unfold dedup firstOcc
  simpa using texts_foldl_dedupStep l []

theorem firstOccStep_nodup {ts : List Text} (h : ts.Nodup) (t : Text) : (firstOccStep ts t).Nodup := by
  unfold firstOccStep
  split
  · exact h
  · rename_i hn
    rw [List.nodup_append]
    refine ⟨h, by simp, ?_⟩
    intro a ha b hb
    simp at hb
    subst hb
    intro e; subst e; exact hn ha

theorem foldl_firstOccStep_nodup (l : List Text) {ts : List Text} (h : ts.Nodup) : (l.foldl firstOccStep ts).Nodup := by
  induction l generalizing ts with
  | nil => exact h
  | cons t l ih => exact ih (firstOccStep_nodup h t)

theorem firstOcc_nodup (l : List Text) : (firstOcc l).Nodup := foldl_firstOccStep_nodup l List.nodup_nil

theorem mem_firstOccStep {ts : List Text} {t x : Text} : x ∈ firstOccStep ts t ↔ x ∈ ts ∨ x = t := by
  unfold firstOccStep
  split
  · rename_i h
    constructor
    · intro hx; exact Or.inl hx
    · rintro (hx | rfl)
      · exact hx
      · exact h
  · simp

theorem mem_foldl_firstOccStep (l : List Text) {ts : List Text} {x : Text} :
    x ∈ l.foldl firstOccStep ts ↔ x ∈ ts ∨ x ∈ l := by
  induction l generalizing ts with
  | nil => simp
  | cons t l ih =>
    simp only [List.foldl, ih, mem_firstOccStep, List.mem_cons]
    constructor
    · rintro ((h | h) | h)
      · exact Or.inl h
      · exact Or.inr (Or.inl h)
      · exact Or.inr (Or.inr h)
    · rintro (h | h | h)
      · exact Or.inl (Or.inl h)
      · exact Or.inl (Or.inr h)
      · exact Or.inr h

theorem mem_firstOcc {l : List Text} {x : Text} : x ∈ firstOcc l ↔ x ∈ l := by
  unfold firstOcc; simp [mem_foldl_firstOccStep]

/-- D1: one entry per phrase text -/
theorem dedup_texts_nodup (l : List Phrase) : (texts (dedup l)).Nodup := by
  rw [texts_dedup]; exact firstOcc_nodup _

/-- D2: exactly the texts of the candidates -/
theorem mem_texts_dedup {l : List Phrase} {t : Text} : t ∈ texts (dedup l) ↔ t ∈ texts l := by
  rw [texts_dedup, mem_firstOcc]

theorem mem_dedupStep {acc : List Phrase} {p x : Phrase} (h : x ∈ dedupStep acc p) : x ∈ acc ∨ x = p := by
  unfold dedupStep at h
  split at h
  · simp only [List.mem_map] at h
    obtain ⟨q, hq, e⟩ := h
    split at e
    · rcases phraseMax_cases p q with e' | e'
      · right; rw [← e, e']
      · left; rw [← e, e']; exact hq
    · left; rw [← e]; exact hq
  · simp at h
    rcases h with h | h
    · exact Or.inl h
    · exact Or.inr h

theorem mem_foldl_dedupStep (l : List Phrase) {acc : List Phrase} {x : Phrase} (h : x ∈ l.foldl dedupStep acc) :
    x ∈ acc ∨ x ∈ l := by
  induction l generalizing acc with
  | nil => exact Or.inl h
  | cons p l ih =>
    rcases ih h with h | h
    · rcases mem_dedupStep h with h | h
      · exact Or.inl h
      · exact Or.inr (by simp [h])
    · exact Or.inr (List.mem_cons_of_mem _ h)

/-- D3a: every result is one of the candidates -/
theorem mem_of_mem_dedup {l : List Phrase} {x : Phrase} (h : x ∈ dedup l) : x ∈ l := by
  rcases mem_foldl_dedupStep l h with h | h
  · simp at h
  · exact h

/-- every phrase already collected stays represented, with at least its frequency -/
theorem dedupStep_dominates {acc : List Phrase} (p : Phrase) {q : Phrase} (h : q ∈ acc) :
    ∃ r ∈ dedupStep acc p, r.text = q.text ∧ q.freq ≤ r.freq := by
  unfold dedupStep
  split
  · by_cases e : q.text = p.text
    · refine ⟨phraseMax p q, ?_, ?_, (phraseMax_freq p q).2⟩
      · simp only [List.mem_map]
        exact ⟨q, h, by simp [e]⟩
      · rw [phraseMax_text e, e]
    · refine ⟨q, ?_, rfl, Nat.le_refl _⟩
      simp only [List.mem_map]
      exact ⟨q, h, by simp [e]⟩
  · exact ⟨q, by simp [h], rfl, Nat.le_refl _⟩

theorem dedupStep_dominates_new (acc : List Phrase) (p : Phrase) :
    ∃ r ∈ dedupStep acc p, r.text = p.text ∧ p.freq ≤ r.freq := by
  unfold dedupStep
  split
  · rename_i h
    obtain ⟨q, hq, e⟩ := mem_texts.mp ((any_text_iff acc p.text).mp h)
    refine ⟨phraseMax p q, ?_, phraseMax_text e, (phraseMax_freq p q).1⟩
    simp only [List.mem_map]
    exact ⟨q, hq, by simp [e]⟩
  · exact ⟨p, by simp, rfl, Nat.le_refl _⟩

theorem foldl_dedupStep_dominates (l : List Phrase) {acc : List Phrase} {q : Phrase} (h : q ∈ acc ∨ q ∈ l) :
    ∃ r ∈ l.foldl dedupStep acc, r.text = q.text ∧ q.freq ≤ r.freq := by
  induction l generalizing acc q with
  | nil =>
    rcases h with h | h
    · exact ⟨q, h, rfl, Nat.le_refl _⟩
    · simp at h
  | cons p l ih =>
    simp only [List.foldl]
    rcases h with h | h
    · obtain ⟨r, hr, e, f⟩ := dedupStep_dominates p h
      obtain ⟨r', hr', e', f'⟩ := ih (acc := dedupStep acc p) (q := r) (Or.inl hr)
      exact ⟨r', hr', by rw [e', e], Nat.le_trans f f'⟩
    · simp only [List.mem_cons] at h
      rcases h with h | h
      · subst h
        obtain ⟨r, hr, e, f⟩ := dedupStep_dominates_new acc q
        obtain ⟨r', hr', e', f'⟩ := ih (acc := dedupStep acc q) (q := r) (Or.inl hr)
        exact ⟨r', hr', by rw [e', e], Nat.le_trans f f'⟩
      · exact ih (Or.inr h)

/-- D3b: the entry of a text carries the highest frequency among the candidates with that text -/
theorem dedup_max {l : List Phrase} {q : Phrase} (h : q ∈ l) :
    ∃ r ∈ dedup l, r.text = q.text ∧ q.freq ≤ r.freq :=
  foldl_dedupStep_dominates l (Or.inr h)

theorem dedup_highest {l : List Phrase} {p q : Phrase} (hp : p ∈ dedup l) (hq : q ∈ l) (e : q.text = p.text) :
    q.freq ≤ p.freq := by
  obtain ⟨r, hr, er, f⟩ := dedup_max hq
  -- r and p have the same text and both are in the duplicate-free result, so r = p
  have hn := dedup_texts_nodup l
  have : r = p := by
    have h1 : r.text = p.text := by rw [er, e]
    clear f hq e er
    revert hn hp hr
    generalize dedup l = d
    intro hp hr hn
    induction d with
    | nil => simp at hp
    | cons x d ih =>
      simp only [texts_cons, List.nodup_cons] at hn
      simp only [List.mem_cons] at hp hr
      rcases hp with hp | hp <;> rcases hr with hr | hr
      · rw [hp, hr]
      · subst hp
        exact absurd (mem_texts.mpr ⟨r, hr, h1⟩) hn.1
      · subst hr
        exact absurd (mem_texts.mpr ⟨p, hp, h1.symm⟩) hn.1
      · exact ih hp hr hn.2
  rw [← this]; exact f

theorem foldl_dedupStep_of_nodup (l acc : List Phrase) (h : (texts (acc ++ l)).Nodup) :
    l.foldl dedupStep acc = acc ++ l := by
  induction l generalizing acc with
  | nil => simp
  | cons p l ih =>
    simp only [List.foldl]
    have hp : p.text ∉ texts acc := by
      simp only [texts_append, texts_cons] at h
      rw [List.nodup_append] at h
      intro hm
      exact h.2.2 _ hm _ (by simp) rfl
    have : dedupStep acc p = acc ++ [p] := by
      unfold dedupStep
      have h' : acc.any (fun q => q.text == p.text) = false := by
        cases hh : acc.any (fun q => q.text == p.text)
        · rfl
        · exact absurd ((any_text_iff acc p.text).mp hh) hp
      simp [h']
    rw [this, ih (acc ++ [p]) (by simpa using h)]
    simp

/-- D5: the loop is the identity on candidates with pairwise different texts -/
theorem dedup_of_nodup {l : List Phrase} (h : (texts l).Nodup) : dedup l = l := by
  unfold dedup
  simpa using foldl_dedupStep_of_nodup l [] (by simpa using h)

end Chewing
