import Chewing.Model.Der
/-!
Round trips of the DER shapes of the trie format: `decX (encX v ++ rest) = some (v, rest)`.
-/
namespace Chewing.Der

/-! ### big-endian integers -/

theorem fromBE_snoc (l : Bytes) (b : Nat) : fromBE (l ++ [b]) = fromBE l * 256 + b := by
  simp [fromBE, List.foldl_append]

theorem fromBE_beFixed (w v : Nat) : fromBE (beFixed w v) = v % 256 ^ w := by
  induction w generalizing v with
  | zero => simp [beFixed, fromBE, Nat.mod_one]
  | succ w ih =>
    rw [beFixed, fromBE_snoc, ih, Nat.pow_succ]
    have h1 : v % (256 ^ w * 256) = v % 256 + 256 * (v / 256 % 256 ^ w) := by
      rw [Nat.mul_comm (256 ^ w) 256, Nat.mod_mul]
    omega

theorem beFixed_length (w v : Nat) : (beFixed w v).length = w := by
  induction w generalizing v with
  | zero => rfl
  | succ w ih => simp [beFixed, ih]

theorem fromBE_cons_zero (l : Bytes) : fromBE (0 :: l) = fromBE l := by
  simp [fromBE]

theorem fromBE_stripZeros (l : Bytes) : fromBE (stripZeros l) = fromBE l := by
  induction l with
  | nil => rfl
  | cons a l ih =>
    cases l with
    | nil => cases a <;> rfl
    | cons b r =>
      cases a with
      | zero => rw [stripZeros, ih]; exact (fromBE_cons_zero _).symm
      | succ a => rfl

theorem stripZeros_length_le (l : Bytes) : (stripZeros l).length ≤ l.length := by
  induction l with
  | nil => simp [stripZeros]
  | cons a l ih =>
    cases l with
    | nil => cases a <;> simp [stripZeros]
    | cons b r =>
      cases a with
      | zero => rw [stripZeros]; simp at ih ⊢; omega
      | succ a => simp [stripZeros]

/-- a stripped non-empty string is `[0]` or starts with a non-zero byte -/
theorem stripZeros_form (l : Bytes) (h : l ≠ []) :
    ∃ b r, stripZeros l = b :: r ∧ (b = 0 → r = []) := by
  induction l with
  | nil => exact absurd rfl h
  | cons a l ih =>
    cases l with
    | nil => exact ⟨a, [], by cases a <;> rfl, fun _ => rfl⟩
    | cons b r =>
      cases a with
      | zero => rw [stripZeros]; exact ih (by simp)
      | succ a => exact ⟨a + 1, b :: r, rfl, fun h => by omega⟩

/-! ### lengths, headers -/

theorem takeN_append (a r : Bytes) : takeN a.length (a ++ r) = some (a, r) := by
  simp [takeN]

theorem takeN_append' {n : Nat} (a r : Bytes) (h : a.length = n) : takeN n (a ++ r) = some (a, r) := by
  subst h; exact takeN_append a r

theorem decLen_long (b : Nat) (lb r : Bytes) (hb : 0x81 ≤ b ∧ b ≤ 0x84) (hl : lb.length = b - 0x80)
    (hv : fromBE lb ≤ maxLen) (hi : initialOctet (fromBE lb) = some b) :
    decLen (b :: (lb ++ r)) = some (fromBE lb, r) := by
  rw [decLen, if_neg (by omega), if_pos hb, takeN_append' lb r hl]
  simp [hv, hi]

theorem decLen_encLen (n : Nat) (r : Bytes) (h : n ≤ maxLen) : decLen (encLen n ++ r) = some (n, r) := by
  unfold maxLen at h
  unfold encLen
  by_cases h1 : n < 0x80
  · simp [decLen, h1]
  rw [if_neg h1]
  by_cases h2 : n < 0x100
  · rw [if_pos h2]
    have hv : fromBE [n] = n := by simp [fromBE]
    have := decLen_long 0x81 [n] r (by omega) rfl (by rw [hv]; exact h)
      (by rw [hv]; unfold initialOctet; rw [if_neg h1, if_pos h2])
    rwa [hv] at this
  rw [if_neg h2]
  by_cases h3 : n < 0x10000
  · rw [if_pos h3]
    have hv : fromBE [n / 256, n % 256] = n := by simp [fromBE]; omega
    have := decLen_long 0x82 [n / 256, n % 256] r (by omega) rfl (by rw [hv]; exact h)
      (by rw [hv]; unfold initialOctet; rw [if_neg h1, if_neg h2, if_pos h3])
    rwa [hv] at this
  rw [if_neg h3]
  by_cases h4 : n < 0x1000000
  · rw [if_pos h4]
    have hv : fromBE [n / 65536, n / 256 % 256, n % 256] = n := by simp [fromBE]; omega
    have := decLen_long 0x83 [n / 65536, n / 256 % 256, n % 256] r (by omega) rfl (by rw [hv]; exact h)
      (by rw [hv]; unfold initialOctet; rw [if_neg h1, if_neg h2, if_neg h3, if_pos h4])
    rwa [hv] at this
  rw [if_neg h4]
  have hv : fromBE [n / 16777216 % 256, n / 65536 % 256, n / 256 % 256, n % 256] = n := by
    simp [fromBE]; omega
  have := decLen_long 0x84 [n / 16777216 % 256, n / 65536 % 256, n / 256 % 256, n % 256] r (by omega) rfl
    (by rw [hv]; exact h)
    (by rw [hv]; unfold initialOctet maxLen; rw [if_neg h1, if_neg h2, if_neg h3, if_neg h4, if_pos h])
  rwa [hv] at this

theorem decHeader_tlv (tag : Nat) (c r : Bytes) (ht : validTag tag = true) (h : c.length ≤ maxLen) :
    decHeader (tlv tag c ++ r) = some (tag, c.length, c ++ r) := by
  simp [tlv, decHeader, ht, List.append_assoc, decLen_encLen _ _ h]

theorem decTlv_tlv (tag : Nat) (c r : Bytes) (ht : validTag tag = true) (h : c.length ≤ maxLen) :
    decTlv tag (tlv tag c ++ r) = some (c, r) := by
  simp [decTlv, decHeader_tlv tag c r ht h, takeN_append]

theorem tlv_length (tag : Nat) (c : Bytes) : (tlv tag c).length = 1 + (encLen c.length).length + c.length := by
  simp [tlv]; omega

theorem encLen_length_le (n : Nat) : 1 ≤ (encLen n).length ∧ (encLen n).length ≤ 5 := by
  unfold encLen; repeat' split
  all_goals simp

/-! ### SEQUENCE / nested -/

theorem nested_of {α : Type} (f : Bytes → Option (α × Bytes)) (body r : Bytes) (a : α)
    (hf : f body = some (a, [])) : nested body.length f (body ++ r) = some (a, r) := by
  simp [nested, takeN_append, hf]

theorem decSeq_encSeq {α : Type} (f : Bytes → Option (α × Bytes)) (body r : Bytes) (a : α)
    (hf : f body = some (a, [])) (h : body.length ≤ maxLen) :
    decSeq f (encSeq body ++ r) = some (a, r) := by
  simp [decSeq, encSeq, decHeader_tlv tagSequence body r (by decide) h, nested_of f body r a hf]

/-! ### UTF-8 -/

theorem utf8DecChar_enc (c : Nat) (r : Bytes) (h : IsScalar c) :
    utf8DecChar (utf8EncChar c ++ r) = some (c, r) := by
  unfold IsScalar at h
  unfold utf8EncChar
  split
  · simp [utf8DecChar, *]
  · split
    · simp only [List.cons_append, List.nil_append, utf8DecChar, isCont]
      rw [if_neg (by omega), if_neg (by omega), if_pos (by omega)]
      simp
      omega
    · split
      · simp only [List.cons_append, List.nil_append, utf8DecChar, isCont]
        rw [if_neg (by omega), if_neg (by omega), if_neg (by omega), if_pos (by omega)]
        simp
        refine ⟨⟨?_, ?_, ?_⟩, ?_⟩
        · split <;> omega
        · split <;> omega
        · omega
        · omega
      · simp only [List.cons_append, List.nil_append, utf8DecChar, isCont]
        rw [if_neg (by omega), if_neg (by omega), if_neg (by omega), if_neg (by omega), if_pos (by omega)]
        simp
        refine ⟨⟨?_, ?_, ?_, ?_⟩, ?_⟩
        · split <;> omega
        · split <;> omega
        · omega
        · omega
        · omega

theorem utf8EncChar_ne_nil (c : Nat) : utf8EncChar c ≠ [] := by
  unfold utf8EncChar; repeat' split
  all_goals simp

theorem utf8DecFuel_enc (t : Text) (f : Nat) (hf : t.length ≤ f) (h : ∀ c ∈ t, IsScalar c) :
    utf8DecFuel f (utf8Enc t) = some t := by
  induction t generalizing f with
  | nil => cases f <;> simp [utf8Enc, utf8DecFuel]
  | cons c t ih =>
    cases f with
    | zero => simp at hf
    | succ f =>
      have hc := utf8DecChar_enc c (utf8Enc t) (h c (by simp))
      have hne := utf8EncChar_ne_nil c
      simp only [utf8Enc, List.flatMap_cons] at hc ⊢
      cases he : utf8EncChar c with
      | nil => exact absurd he hne
      | cons b bs =>
        rw [he] at hc
        simp only [List.cons_append] at hc ⊢
        rw [utf8DecFuel, hc]
        have := ih f (by simpa using hf) (fun c hc => h c (by simp [hc]))
        simp only [utf8Enc] at this
        simp [this]

theorem utf8Enc_length_ge (t : Text) : t.length ≤ (utf8Enc t).length := by
  induction t with
  | nil => simp [utf8Enc]
  | cons c t ih =>
    have : 1 ≤ (utf8EncChar c).length := by
      have := utf8EncChar_ne_nil c
      cases h : utf8EncChar c with
      | nil => exact absurd h this
      | cons _ _ => simp
    simp only [utf8Enc, List.flatMap_cons, List.length_append, List.length_cons] at ih ⊢
    omega

/-- valid text survives UTF-8 encoding and strict decoding -/
theorem utf8Dec_enc (t : Text) (h : ∀ c ∈ t, IsScalar c) : utf8Dec (utf8Enc t) = some t :=
  utf8DecFuel_enc t _ (utf8Enc_length_ge t) h

/-- UTF8String -/
theorem decUtf8_encUtf8 (t : Text) (r : Bytes) (h : ∀ c ∈ t, IsScalar c) (hl : (utf8Enc t).length ≤ maxLen) :
    decUtf8 (encUtf8 t ++ r) = some (t, r) := by
  simp [decUtf8, encUtf8, decTlv_tlv tagUtf8String _ r (by decide) hl, utf8Dec_enc t h]

/-- OCTET STRING -/
theorem decOctets_encOctets (b r : Bytes) (hl : b.length ≤ maxLen) :
    decOctets (encOctets b ++ r) = some (b, r) := by
  simp [decOctets, encOctets, decTlv_tlv tagOctetString _ r (by decide) hl]

/-! ### unsigned INTEGER -/

theorem uintContent_length_le (w v : Nat) : (uintContent w v).length ≤ w + 1 := by
  unfold uintContent
  have h1 := stripZeros_length_le (beFixed w v)
  rw [beFixed_length] at h1
  split
  · simp
  · rename_i b r heq
    rw [heq] at h1
    split <;> simp at h1 ⊢ <;> omega

theorem decUintValue_content (w v : Nat) (r : Bytes) (hw : 0 < w) (hv : v < 256 ^ w) :
    decUintValue w (uintContent w v).length (uintContent w v ++ r) = some (v, r) := by
  have hne : beFixed w v ≠ [] := by
    intro h
    have := beFixed_length w v
    rw [h] at this
    simp at this
    omega
  obtain ⟨b, s, hs, hb⟩ := stripZeros_form _ hne
  have hval : fromBE (b :: s) = v := by
    rw [← hs, fromBE_stripZeros, fromBE_beFixed, Nat.mod_eq_of_lt hv]
  have hlen : (b :: s).length ≤ w := by
    rw [← hs]
    have := stripZeros_length_le (beFixed w v)
    rwa [beFixed_length] at this
  have hcl := uintContent_length_le w v
  unfold decUintValue
  rw [if_neg (by omega), takeN_append]
  have hc : uintContent w v = if b ≥ 0x80 then 0 :: b :: s else b :: s := by
    unfold uintContent; rw [hs]
  by_cases hb80 : b ≥ 0x80
  · have hd : decodeToSlice (uintContent w v) = some (b :: s) := by
      rw [hc, if_pos hb80]
      simp [decodeToSlice]
      omega
    simp only [hd]
    rw [if_neg (by simp at hlen ⊢; omega)]
    simp [hval]
  · have hd : decodeToSlice (uintContent w v) = some (b :: s) := by
      rw [hc, if_neg hb80]
      cases b with
      | zero => rw [hb rfl]; rfl
      | succ b => simp [decodeToSlice]; omega
    simp only [hd]
    rw [if_neg (by simp at hlen ⊢; omega)]
    simp [hval]

/-- INTEGER for a `w`-byte unsigned type -/
theorem decUint_encUint (w v : Nat) (r : Bytes) (hw : 0 < w) (hw' : w + 1 ≤ maxLen) (hv : v < 256 ^ w) :
    decUint w (encUint w v ++ r) = some (v, r) := by
  have hl : (uintContent w v).length ≤ maxLen := Nat.le_trans (uintContent_length_le w v) hw'
  simp [decUint, encUint, decHeader_tlv tagInteger _ r (by decide) hl, decUintValue_content w v r hw hv]

/-! ### `[0] IMPLICIT Uint64 OPTIONAL` -/

theorem decCtx0U64_enc_some (v : Nat) (r : Bytes) (hv : v < 256 ^ 8) :
    decCtx0U64 (encCtx0U64 (some v) ++ r) = some (some v, r) := by
  have hl : (uintContent 8 v).length ≤ maxLen :=
    Nat.le_trans (uintContent_length_le 8 v) (by decide)
  have h := decHeader_tlv tagCtx0 (uintContent 8 v) r (by decide) hl
  have hv' := decUintValue_content 8 v r (by decide) hv
  simp only [encCtx0U64]
  simp only [tlv, List.cons_append] at h ⊢
  rw [decCtx0U64]
  simp only [tagCtx0] at h ⊢
  rw [h]
  simp [hv', validTag]

theorem decCtx0U64_enc_none : decCtx0U64 (encCtx0U64 none) = some (none, []) := by
  simp [encCtx0U64, decCtx0U64]

/-- the optional timestamp at the end of a phrase record -/
theorem decCtx0U64_enc (o : Option Nat) (ho : ∀ v, o = some v → v < 256 ^ 8) :
    decCtx0U64 (encCtx0U64 o) = some (o, []) := by
  cases o with
  | none => exact decCtx0U64_enc_none
  | some v => simpa using decCtx0U64_enc_some v [] (ho v rfl)

/-! ### sizes (used for the `Length::MAX` guard) -/

theorem tlv_length_ge (tag : Nat) (c : Bytes) : c.length + 2 ≤ (tlv tag c).length := by
  have := (encLen_length_le c.length).1
  rw [tlv_length]; omega

end Chewing.Der
