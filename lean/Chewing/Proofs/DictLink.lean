import Chewing.Proofs.TrieBufSettle
import Chewing.Proofs.Persist
/-!
# DictLink — C09's concrete `TrieBuf` layers under C10's persistence protocol

C10's step model (`Model/Persist.lean`) is self-contained: dictionary contents are abstract maps
`Nat → Option Nat`, a change acts on three abstract layers, the snapshot writer is *assumed* to
write "the live contents" (`checkpoint: snap := w.buf.live`), a complete file *is* the map it holds.
C09's model (`Model/TrieBuf.lean`) has the concrete layers (`List Leaf` snapshot, sorted pending
list, tombstone list), the concrete `entries()` and `TrieBuilder` (`Trie.build`), but only the
sequential writer.

This file puts C09's concrete layers *under* C10's protocol:

* `CWorld` / `cstep`: the protocol of `Model/Persist.lean`, transition for transition, with every
  abstract content replaced by C09's concrete data and every abstract operation by the C09 model
  function for it — `TrieBuf.apply` for `add_phrase` / `update_phrase` / `remove_phrase`,
  `Trie.build (TrieBuf.entries st)` for what the snapshot thread writes, a file that holds the
  leaves written, `snap := t` for adoption / reload.  Nothing here is a new modelling decision:
  the control skeleton is C10's (validated by its schedule-exact correspondence), the data
  functions are C09's (validated by its correspondence).
* `Sim`: the abstraction relation (concrete layers ↦ abstract layers through an injective encoding
  of `(syllables, phrase)` and `(freq, time)` into `Nat`), and `sim_step`: **every concrete step is
  an abstract step** (forward simulation).  The proof obligations are exactly C10's assumptions:
  - "live = base overridden by pending minus tombstones": `live_rep` (`Buf.live` of the abstraction
    is the encoding of C09's `TrieBuf.abs`),
  - "add / update / remove act on the layers as `Buf.add` / `Buf.put` / `Buf.remove`": `bufRel_put`,
    `bufRel_remove`, `addOk_live` (from C09's `btGet_btInsert`, `btGet_btErase`,
    `contains_graveErase`, `contains_graveInsert`, `addOk_eq`),
  - "`entries()` collected into a `TrieBuilder` gives live": `build_rep`, which is C09's snapshot
    lemma `build_abs`.  It holds in **every** state: since fix 8e6d504 (F10) `entries()` yields every
    live key once — a persisted entry that has a pending entry of the same key is skipped — so the
    pending value, the map's, is written whatever the order of `trie_iter.chain(btree_iter)` is.
    (Before the fix the key was listed twice, persisted value first, `TrieBuilder::insert` replaced in
    place, and the chain order was what made the written value right.)
* `sim_run`, and with C10's `durable_spec` the end-to-end statement in C09's terms
  (`Props/C10.lean`, section "linked").
-/
namespace Chewing.DictLink
open Chewing.Persist

/-! ## an injective encoding of keys and values into `Nat` -/

def pair (a b : Nat) : Nat := 2 ^ a * (2 * b + 1)

theorem pair_pos (a b : Nat) : 0 < pair a b := Nat.mul_pos (Nat.two_pow_pos a) (by omega)

theorem pair_succ (a b : Nat) : pair (a + 1) b = 2 * pair a b := by
  unfold pair
  rw [Nat.pow_succ, Nat.mul_comm (2 ^ a) 2, Nat.mul_assoc]

theorem pair_inj {a b c d : Nat} (h : pair a b = pair c d) : a = c ∧ b = d := by
  induction a generalizing c with
  | zero =>
    cases c with
    | zero => simp only [pair, Nat.pow_zero, Nat.one_mul] at h; exact ⟨rfl, by omega⟩
    | succ c =>
      exfalso
      rw [pair_succ] at h
      simp only [pair, Nat.pow_zero, Nat.one_mul] at h
      omega
  | succ a ih =>
    cases c with
    | zero =>
      exfalso
      rw [pair_succ] at h
      simp only [pair, Nat.pow_zero, Nat.one_mul] at h
      omega
    | succ c =>
      rw [pair_succ, pair_succ] at h
      have := ih (c := c) (by omega)
      exact ⟨by omega, this.2⟩

def encL : List Nat → Nat
  | [] => 0
  | x :: r => pair x (encL r)

theorem encL_inj {l1 l2 : List Nat} (h : encL l1 = encL l2) : l1 = l2 := by
  induction l1 generalizing l2 with
  | nil =>
    cases l2 with
    | nil => rfl
    | cons y r => have := pair_pos y (encL r); simp only [encL] at h; omega
  | cons x r ih =>
    cases l2 with
    | nil => have := pair_pos x (encL r); simp only [encL] at h; omega
    | cons y r2 =>
      simp only [encL] at h
      obtain ⟨h1, h2⟩ := pair_inj h
      rw [h1, ih h2]

/-- `(syllables, phrase)` as a key of `Model/Persist.lean` -/
def encK (pk : MapSpec.PKey) : Nat := pair (encL pk.1) (encL pk.2)
/-- `(freq, time)` as a value of `Model/Persist.lean` -/
def encV (v : MapSpec.Val) : Nat := pair v.1 v.2

theorem encK_inj {a b : MapSpec.PKey} (h : encK a = encK b) : a = b := by
  obtain ⟨h1, h2⟩ := pair_inj h
  exact Prod.ext (encL_inj h1) (encL_inj h2)

theorem encV_inj {a b : MapSpec.Val} (h : encV a = encV b) : a = b := by
  obtain ⟨h1, h2⟩ := pair_inj h
  exact Prod.ext h1 h2

theorem encK_ne {a b : MapSpec.PKey} (h : a ≠ b) : encK a ≠ encK b := fun e => h (encK_inj e)

/-! ## the abstraction relation on contents and layers -/

/-- the abstract content `c` holds, at the code of every concrete key, the code of what `m` holds -/
def Rep (m : MapSpec.Map) (c : Content) : Prop := ∀ pk, c (encK pk) = (m pk).map encV

def RepG (g : List MapSpec.PKey) (gb : Nat → Bool) : Prop := ∀ pk, gb (encK pk) = g.contains pk

/-- two maps with the same abstraction are the same map -/
theorem rep_unique {m1 m2 : MapSpec.Map} {c : Content} (h1 : Rep m1 c) (h2 : Rep m2 c) (pk : MapSpec.PKey) :
    m1 pk = m2 pk := by
  have := (h1 pk).symm.trans (h2 pk)
  cases e1 : m1 pk with
  | none => cases e2 : m2 pk with
    | none => rfl
    | some v => rw [e1, e2] at this; cases this
  | some v => cases e2 : m2 pk with
    | none => rw [e1, e2] at this; cases this
    | some v' =>
      rw [e1, e2] at this
      simp only [Option.map_some, Option.some.injEq] at this
      rw [encV_inj this]

theorem rep_congr {m1 m2 : MapSpec.Map} {c : Content} (h : Rep m1 c) (e : ∀ pk, m1 pk = m2 pk) : Rep m2 c :=
  fun pk => by rw [← e pk]; exact h pk

/-- C09's three concrete layers against C10's three abstract ones -/
structure BufRel (s : TrieBuf.State) (b : Buf) : Prop where
  trie : Rep (TrieBuf.baseGet s.snap) b.trie
  btree : Rep (TrieBuf.btGet s.btree) b.btree
  grave : RepG s.grave b.grave
  dirty : b.dirty = s.dirty

/-- **C10's assumption "live = base overridden by pending minus tombstones"**: `Buf.live` of the
    abstraction is the map C09's `TrieBuf` denotes (`TrieBuf.abs`, the subject of `C09.triebuf_refines`
    and of every `C09` answer theorem) -/
theorem live_rep {s : TrieBuf.State} {b : Buf} (h : BufRel s b) : Rep (TrieBuf.abs s) b.live := by
  intro pk
  unfold Buf.live TrieBuf.abs TrieBuf.absOver
  rw [h.grave pk, h.btree pk, h.trie pk]
  cases s.grave.contains pk
  · cases TrieBuf.btGet s.btree pk <;> simp
  · simp

/-- the part of C09's representation invariant that concerns the layers (the rest of `TrieBuf.Inv`
    is about the sequential writer's `file` / `inflight`, which C10's protocol replaces) -/
structure LInv (s : TrieBuf.State) : Prop where
  bt : TrieBuf.KeysOk s.btree
  snap : Trie.SnapOk s.snap

/-- the same layers in a sequential state without writer: C09's lemmas apply to it, and every
    function of the layers (`entries`, `addOk`, `abs`, `lookupAll`) has the same value on it -/
def norm (s : TrieBuf.State) : TrieBuf.State := { s with file := s.snap, inflight := none, dirty := true }

theorem inv_norm {s : TrieBuf.State} (h : LInv s) : TrieBuf.Inv (norm s) :=
  ⟨h.bt, h.snap, h.snap, fun _ e => by simp [norm] at e, rfl, fun _ e => by simp [norm] at e,
   fun _ e => by simp [norm] at e, fun e => by simp [norm] at e⟩

theorem linv_put {s : TrieBuf.State} (h : LInv s) (k : MapSpec.PKey) (v : MapSpec.Val) :
    LInv (TrieBuf.put s k v) :=
  ⟨TrieBuf.keysOk_btInsert h.bt k v, h.snap⟩

theorem linv_remove {s : TrieBuf.State} (h : LInv s) (k : MapSpec.PKey) : LInv (TrieBuf.removeSt s k) :=
  ⟨TrieBuf.keysOk_btErase h.bt k, h.snap⟩

/-- **C10's assumption about `add_phrase` / `update_phrase`** (`Buf.put` with the tombstone repair):
    C09's `put` is the abstract `put` at the encoded key -/
theorem bufRel_put {s : TrieBuf.State} {b : Buf} (cfg : Cfg) (hrv : cfg.revive = true) (h : BufRel s b)
    (hk : TrieBuf.KeysOk s.btree) (k : MapSpec.PKey) (v : MapSpec.Val) :
    BufRel (TrieBuf.put s k v) (b.put cfg (encK k) (encV v)) := by
  refine ⟨h.trie, ?_, ?_, rfl⟩
  · intro k'
    show setC b.btree (encK k) (some (encV v)) (encK k') = _
    simp only [TrieBuf.put]
    rw [TrieBuf.btGet_btInsert hk]
    unfold setC
    by_cases e : k' = k
    · subst e; simp
    · simp only [encK_ne e, if_false, e]
      exact h.btree k'
  · intro k'
    simp only [Buf.put, hrv, if_true, TrieBuf.put]
    rw [TrieBuf.contains_graveErase]
    unfold setG
    by_cases e : k' = k
    · subst e; simp
    · simp only [encK_ne e, if_false]
      rw [h.grave k']
      simp [e]

/-- **C10's assumption about `remove_phrase`** -/
theorem bufRel_remove {s : TrieBuf.State} {b : Buf} (h : BufRel s b) (hk : TrieBuf.KeysOk s.btree)
    (k : MapSpec.PKey) : BufRel (TrieBuf.removeSt s k) (b.remove (encK k)) := by
  refine ⟨h.trie, ?_, ?_, rfl⟩
  · intro k'
    show setC b.btree (encK k) none (encK k') = _
    simp only [TrieBuf.removeSt]
    rw [TrieBuf.btGet_btErase hk]
    unfold setC
    by_cases e : k' = k
    · subst e; simp
    · simp only [encK_ne e, if_false, e]
      exact h.btree k'
  · intro k'
    show setG b.grave (encK k) true (encK k') = _
    simp only [TrieBuf.removeSt]
    rw [TrieBuf.contains_graveInsert]
    unfold setG
    by_cases e : k' = k
    · subst e; simp
    · simp only [encK_ne e, if_false]
      rw [h.grave k']
      simp [e]

/-- **C10's assumption about the rejection of `add_phrase`** ("rejected when the phrase is live"):
    C09's `addOk` (the exact lookup does not yield the text) is "not live" — C09's `addOk_eq` -/
theorem addOk_live {s : TrieBuf.State} {b : Buf} (hl : LInv s) (h : BufRel s b) (k : List Nat) (t : Text) :
    TrieBuf.addOk s k t = !(b.live (encK (k, t))).isSome := by
  have h1 : TrieBuf.addOk s k t = TrieBuf.addOk (norm s) k t := rfl
  rw [h1, TrieBuf.addOk_eq (inv_norm hl), live_rep h (k, t)]
  show (TrieBuf.abs s (k, t)).isNone = _
  cases TrieBuf.abs s (k, t) <;> rfl

/-- **C10's assumption "`entries()` collected into a `TrieBuilder` gives the live contents"**
    (`Persist.checkpoint`: `snap := w.buf.live`): the file built from C09's concrete `entries()`
    denotes the live map — C09's snapshot lemma `build_abs`, in every state (a key that is both persisted
    and pending is enumerated once, with the pending value, since fix 8e6d504) -/
theorem build_rep {s : TrieBuf.State} {b : Buf} (hl : LInv s) (h : BufRel s b) :
    Trie.SnapOk (Trie.build (TrieBuf.entries s)) ∧
      Rep (TrieBuf.baseGet (Trie.build (TrieBuf.entries s))) b.live := by
  refine ⟨Trie.snapOk_build _, ?_⟩
  apply rep_congr (live_rep h)
  intro pk
  exact (TrieBuf.build_abs (inv_norm hl) pk).symm

/-! ## C10's protocol over C09's concrete data

`Model/Persist.lean` transition for transition (its `Cfg` fixed to the repaired code: `revive`,
`joinFirst`); the only differences are the data: `TrieBuf.State` layers instead of `Buf`, leaves
instead of `Content`, `TrieBuf.apply` for the three change calls, `Trie.build (TrieBuf.entries st)`
for what the snapshot thread writes. -/

inductive CFile where
  | partial_
  | complete (t : List Leaf)

abbrev CFS := Name → Option CFile

def csetF (fs : CFS) (n : Name) (f : Option CFile) : CFS := fun m => if m = n then f else fs m

/-- `Trie::open(path)` -/
def creadPath (fs : CFS) : Option (List Leaf) :=
  match fs .path with
  | some (.complete t) => some t
  | _ => none

structure CWriter where
  pc : PC
  /-- the file the thread writes: `TrieBuilder` fed with `entries()` of the cloned `TrieBuf` -/
  out : List Leaf
  result : Option (List Leaf)

structure CWorld where
  /-- the layers `snap`, `btree`, `grave`, `dirty` of C09's state (`file` / `inflight` belong to
      C09's sequential writer and are not used: the file system and the writer are explicit here) -/
  st : TrieBuf.State
  writer : Option CWriter
  fs : CFS
  phase : Phase
  crashed : Bool

inductive CAct where
  | add (k : List Nat) (t : Text) (f : Nat) (tm : Option Nat)
  | update (k : List Nat) (t : Text) (f tm : Nat)
  | remove (k : List Nat) (t : Text)
  | flush | reopen | close | d | open_ | w | crash

/-- `sync` adopting the writer's result -/
def adopt (s : TrieBuf.State) (t : List Leaf) : TrieBuf.State := { s with snap := t, btree := [], grave := [] }
/-- `sync` re-reading the file -/
def reload (s : TrieBuf.State) (t : List Leaf) : TrieBuf.State := { s with snap := t }
/-- `TrieBuf::open` -/
def freshSt (t : List Leaf) : TrieBuf.State := { TrieBuf.initFile with snap := t, file := t }

def cinit (t0 : List Leaf) (tmp : Option CFile) : CWorld :=
  { st := freshSt t0, writer := none,
    fs := fun n => match n with | .path => some (.complete t0) | .tmp => tmp,
    phase := .run, crashed := false }

def csync (w : CWorld) : CWorld :=
  match w.writer with
  | some wr =>
    if wr.pc ≠ .finished then w
    else match wr.result with
      | some t =>
        if w.st.dirty then { w with writer := none }
        else { w with writer := none, st := adopt w.st t }
      | none => { w with writer := none }
  | none =>
    match creadPath w.fs with
    | some c => { w with st := reload w.st c }
    | none => w

def ccheckpoint (w : CWorld) : CWorld :=
  if w.writer.isSome then w
  else if !w.st.dirty then w
  else { w with writer := some { pc := .start, out := Trie.build (TrieBuf.entries w.st), result := none },
                st := { w.st with dirty := false } }

def cwstep (wr : CWriter) (fs : CFS) : Option (CWriter × CFS) :=
  match wr.pc with
  | .start => some ({ wr with pc := .collected }, fs)
  | .collected => some ({ wr with pc := .created }, csetF fs .tmp (some .partial_))
  | .created => some ({ wr with pc := .written }, csetF fs .tmp (some .partial_))
  | .written => some ({ wr with pc := .flushed }, csetF fs .tmp (some (.complete wr.out)))
  | .flushed => some ({ wr with pc := .synced }, fs)
  | .synced =>
    match fs .tmp with
    | some f => some ({ wr with pc := .renamed }, csetF (csetF fs .path (some f)) .tmp none)
    | none => some ({ wr with pc := .finished, result := none }, fs)
  | .renamed => some ({ wr with pc := .built }, fs)
  | .built => some ({ wr with pc := .reopened, result := creadPath fs }, fs)
  | .reopened => some ({ wr with pc := .finished }, fs)
  | .finished => none

def cwriterDone (w : CWorld) : Bool :=
  match w.writer with
  | none => true
  | some wr => wr.pc == .finished

def cstep (w : CWorld) (a : CAct) : Option CWorld :=
  if w.crashed then none else
  match a with
  | .crash => some { w with crashed := true }
  | .w =>
    match w.writer with
    | some wr =>
      match cwstep wr w.fs with
      | some (wr', fs') => some { w with writer := some wr', fs := fs' }
      | none => none
    | none => none
  | .add k t f tm => if w.phase = .run then some { w with st := TrieBuf.apply w.st (.add k t f tm) } else none
  | .update k t f tm => if w.phase = .run then some { w with st := TrieBuf.apply w.st (.update k t f tm) } else none
  | .remove k t => if w.phase = .run then some { w with st := TrieBuf.apply w.st (.remove k t) } else none
  | .flush => if w.phase = .run then some (ccheckpoint w) else none
  | .reopen => if w.phase = .run then some (csync w) else none
  | .close => if w.phase = .run then some { w with phase := .dJoin0 } else none
  | .d =>
    match w.phase with
    | .dJoin0 => if cwriterDone w then some { w with writer := none, phase := .dSync } else none
    | .dSync => some { csync w with phase := .dFlush }
    | .dFlush => some { ccheckpoint w with phase := .dJoin }
    | .dJoin => if cwriterDone w then some { w with writer := none, phase := .closed } else none
    | _ => none
  | .open_ =>
    if w.phase = .closed then
      match creadPath w.fs with
      | some c => some { w with st := freshSt c, phase := .run }
      | none => none
    else none

def crun (w : CWorld) : List CAct → Option CWorld
  | [] => some w
  | a :: as =>
    match cstep w a with
    | some w' => crun w' as
    | none => none

/-- the abstract action a concrete action is -/
def encAct : CAct → Act
  | .add k t f tm => .add (encK (k, t)) (encV (f, tm.getD 0))
  | .update k t f tm => .update (encK (k, t)) (encV (f, tm))
  | .remove k t => .remove (encK (k, t))
  | .flush => .flush
  | .reopen => .reopen
  | .close => .close
  | .d => .d
  | .open_ => .open_
  | .w => .w
  | .crash => .crash

/-- the `DictionaryMut` call a concrete action is (C09's `Op`) -/
def opOf : CAct → Option MapSpec.Op
  | .add k t f tm => some (.add k t f tm)
  | .update k t f tm => some (.update k t f tm)
  | .remove k t => some (.remove k t)
  | _ => none

/-- the repaired code: tombstone lifted by add/update (C09's F09 fix), `Drop` joins first (F12 fix) -/
def cfgR : Cfg := { revive := true, joinFirst := true }

/-! ## the simulation -/

def ORel {α β : Type} (r : α → β → Prop) : Option α → Option β → Prop
  | none, none => True
  | some a, some b => r a b
  | _, _ => False

/-- a concrete trie file against an abstract content: well-formed, and it denotes that content -/
def TRel (t : List Leaf) (c : Content) : Prop := Trie.SnapOk t ∧ Rep (TrieBuf.baseGet t) c

def FileRel : CFile → FileC → Prop
  | .partial_, .partial_ => True
  | .complete t, .complete c => TRel t c
  | _, _ => False

def FSRel (cfs : CFS) (fs : FS) : Prop := ∀ n, ORel FileRel (cfs n) (fs n)

structure WRel (cwr : CWriter) (wr : Writer) : Prop where
  pc : cwr.pc = wr.pc
  out : TRel cwr.out wr.snap
  result : ORel TRel cwr.result wr.result

structure Sim (cw : CWorld) (w : World) : Prop where
  linv : LInv cw.st
  buf : BufRel cw.st w.buf
  writer : ORel WRel cw.writer w.writer
  fs : FSRel cw.fs w.fs
  phase : cw.phase = w.phase
  crashed : cw.crashed = w.crashed

theorem readPath_rel {cfs : CFS} {fs : FS} (h : FSRel cfs fs) : ORel TRel (creadPath cfs) (readPath fs) := by
  have hp := h .path
  unfold creadPath readPath
  cases h1 : cfs .path with
  | none =>
    cases h2 : fs .path with
    | none => trivial
    | some f => rw [h1, h2] at hp; exact hp.elim
  | some cf =>
    cases h2 : fs .path with
    | none => rw [h1, h2] at hp; exact hp.elim
    | some f =>
      rw [h1, h2] at hp
      cases cf with
      | partial_ => cases f with
        | partial_ => trivial
        | complete c => exact hp.elim
      | complete t => cases f with
        | partial_ => exact hp.elim
        | complete c => exact hp

theorem setF_rel {cfs : CFS} {fs : FS} (h : FSRel cfs fs) (m : Name) {cf : Option CFile} {f : Option FileC}
    (hf : ORel FileRel cf f) : FSRel (csetF cfs m cf) (setF fs m f) := by
  intro n
  unfold csetF setF
  by_cases e : n = m
  · simp only [e, if_true]; exact hf
  · simp only [e, if_false]; exact h n

theorem rep_empty_bt : Rep (TrieBuf.btGet []) (fun _ => none) := fun _ => rfl
theorem repG_empty : RepG [] (fun _ => false) := fun _ => rfl

theorem sim_adopt {s : TrieBuf.State} {b : Buf} {t : List Leaf} {c : Content} (hb : BufRel s b) (ht : TRel t c) :
    LInv (adopt s t) ∧ BufRel (adopt s t) { b with trie := c, btree := fun _ => none, grave := fun _ => false } :=
  ⟨⟨List.Pairwise.nil, ht.1⟩, ⟨ht.2, rep_empty_bt, repG_empty, hb.dirty⟩⟩

theorem sim_reload {s : TrieBuf.State} {b : Buf} {t : List Leaf} {c : Content} (hl : LInv s) (hb : BufRel s b)
    (ht : TRel t c) : LInv (reload s t) ∧ BufRel (reload s t) { b with trie := c } :=
  ⟨⟨hl.bt, ht.1⟩, ⟨ht.2, hb.btree, hb.grave, hb.dirty⟩⟩

theorem sim_fresh {t : List Leaf} {c : Content} (ht : TRel t c) (g : Nat) :
    LInv (freshSt t) ∧ BufRel (freshSt t) (Buf.fresh c g) :=
  ⟨⟨List.Pairwise.nil, ht.1⟩,
   ⟨ht.2, rep_empty_bt, repG_empty, rfl⟩⟩

theorem sim_sync {cw : CWorld} {w : World} (h : Sim cw w) : Sim (csync cw) (sync w) := by
  obtain ⟨st, cwr, cfs, cph, ccr⟩ := cw
  obtain ⟨buf, wr, fs, ph, cr⟩ := w
  obtain ⟨hl, hb, hw, hf, hp, hc⟩ := h
  simp only at hl hb hw hf hp hc
  unfold csync sync
  cases cwr with
  | none =>
    cases wr with
    | some x => exact hw.elim
    | none =>
      simp only
      have hr := readPath_rel hf
      cases h1 : creadPath cfs with
      | none =>
        cases h2 : readPath fs with
        | none => exact ⟨hl, hb, hw, hf, hp, hc⟩
        | some c => rw [h1, h2] at hr; exact hr.elim
      | some t =>
        cases h2 : readPath fs with
        | none => rw [h1, h2] at hr; exact hr.elim
        | some c =>
          rw [h1, h2] at hr
          have := sim_reload hl hb hr
          exact ⟨this.1, this.2, hw, hf, hp, hc⟩
  | some cx =>
    cases wr with
    | none => exact hw.elim
    | some x =>
      have hw' : WRel cx x := hw
      simp only
      rw [hw'.pc]
      by_cases hpc : x.pc = .finished
      · simp only [hpc, ne_eq, not_true_eq_false, if_false]
        have hres := hw'.result
        cases h1 : cx.result with
        | none =>
          cases h2 : x.result with
          | none => exact ⟨hl, hb, trivial, hf, hp, hc⟩
          | some c => rw [h1, h2] at hres; exact hres.elim
        | some t =>
          cases h2 : x.result with
          | none => rw [h1, h2] at hres; exact hres.elim
          | some c =>
            rw [h1, h2] at hres
            simp only
            rw [hb.dirty]
            cases hd : st.dirty with
            | true => exact ⟨hl, hb, trivial, hf, hp, hc⟩
            | false =>
              simp only [Bool.false_eq_true, if_false]
              exact ⟨(sim_adopt hb hres).1, ⟨hres.2, rep_empty_bt, repG_empty, by simp [adopt, hd]⟩, trivial, hf, hp, hc⟩
      · simp only [hpc, ne_eq, not_false_eq_true, if_true]
        exact ⟨hl, hb, hw, hf, hp, hc⟩

theorem sim_checkpoint {cw : CWorld} {w : World} (h : Sim cw w) : Sim (ccheckpoint cw) (checkpoint w) := by
  obtain ⟨st, cwr, cfs, cph, ccr⟩ := cw
  obtain ⟨buf, wr, fs, ph, cr⟩ := w
  obtain ⟨hl, hb, hw, hf, hp, hc⟩ := h
  simp only at hl hb hw hf hp hc
  unfold ccheckpoint checkpoint
  cases cwr with
  | some cx =>
    cases wr with
    | none => exact hw.elim
    | some x => exact ⟨hl, hb, hw, hf, hp, hc⟩
  | none =>
    cases wr with
    | some x => exact hw.elim
    | none =>
      simp only [Option.isSome_none, Bool.false_eq_true, if_false]
      rw [hb.dirty]
      cases hd : st.dirty with
      | false => exact ⟨hl, hb, hw, hf, hp, hc⟩
      | true =>
        simp only [Bool.not_true, Bool.false_eq_true, if_false]
        have hbr := build_rep hl hb
        exact ⟨⟨hl.bt, hl.snap⟩, ⟨hb.trie, hb.btree, hb.grave, rfl⟩, ⟨rfl, hbr, trivial⟩, hf, hp, hc⟩

theorem sim_wstep {cwr cwr' : CWriter} {wr : Writer} {cfs cfs' : CFS} {fs : FS} (hw : WRel cwr wr) (hf : FSRel cfs fs)
    (h : cwstep cwr cfs = some (cwr', cfs')) :
    ∃ wr' fs', wstep wr fs = some (wr', fs') ∧ WRel cwr' wr' ∧ FSRel cfs' fs' := by
  obtain ⟨cpc, cout, cres⟩ := cwr
  obtain ⟨pc, snap, res, gen, old⟩ := wr
  obtain ⟨hpc, hout, hres⟩ := hw
  simp only at hpc hout hres
  subst hpc
  unfold cwstep at h
  unfold wstep
  cases cpc <;> simp only at h ⊢
  case start => cases h; exact ⟨_, _, rfl, ⟨rfl, hout, hres⟩, hf⟩
  case collected => cases h; exact ⟨_, _, rfl, ⟨rfl, hout, hres⟩, setF_rel hf .tmp True.intro⟩
  case created => cases h; exact ⟨_, _, rfl, ⟨rfl, hout, hres⟩, setF_rel hf .tmp True.intro⟩
  case written => cases h; exact ⟨_, _, rfl, ⟨rfl, hout, hres⟩, setF_rel hf .tmp hout⟩
  case flushed => cases h; exact ⟨_, _, rfl, ⟨rfl, hout, hres⟩, hf⟩
  case synced =>
    have ht := hf .tmp
    cases h1 : cfs .tmp with
    | none =>
      cases h2 : fs .tmp with
      | some f => rw [h1, h2] at ht; exact ht.elim
      | none =>
        rw [h1] at h
        cases h
        exact ⟨_, _, rfl, ⟨rfl, hout, True.intro⟩, hf⟩
    | some cf =>
      cases h2 : fs .tmp with
      | none => rw [h1, h2] at ht; exact ht.elim
      | some f =>
        rw [h1] at h
        rw [h1, h2] at ht
        cases h
        exact ⟨_, _, rfl, ⟨rfl, hout, hres⟩, setF_rel (setF_rel hf .path ht) .tmp True.intro⟩
  case renamed => cases h; exact ⟨_, _, rfl, ⟨rfl, hout, hres⟩, hf⟩
  case built => cases h; exact ⟨_, _, rfl, ⟨rfl, hout, readPath_rel hf⟩, hf⟩
  case reopened => cases h; exact ⟨_, _, rfl, ⟨rfl, hout, hres⟩, hf⟩
  case finished => cases h

theorem sim_add {s : TrieBuf.State} {b : Buf} (hl : LInv s) (hb : BufRel s b) (k : List Nat) (t : Text) (f : Nat)
    (tm : Option Nat) :
    LInv (TrieBuf.apply s (.add k t f tm)) ∧
      BufRel (TrieBuf.apply s (.add k t f tm)) (b.add cfgR (encK (k, t)) (encV (f, tm.getD 0))).1 := by
  simp only [TrieBuf.apply, Buf.add]
  rw [addOk_live hl hb]
  cases (b.live (encK (k, t))).isSome with
  | true => exact ⟨hl, hb⟩
  | false => exact ⟨linv_put hl (k, t) _, bufRel_put cfgR rfl hb hl.bt (k, t) _⟩

theorem sim_update {s : TrieBuf.State} {b : Buf} (hl : LInv s) (hb : BufRel s b) (k : List Nat) (t : Text) (f tm : Nat) :
    LInv (TrieBuf.apply s (.update k t f tm)) ∧
      BufRel (TrieBuf.apply s (.update k t f tm)) (b.put cfgR (encK (k, t)) (encV (f, tm))) :=
  ⟨linv_put hl (k, t) _, bufRel_put cfgR rfl hb hl.bt (k, t) _⟩

theorem sim_remove {s : TrieBuf.State} {b : Buf} (hl : LInv s) (hb : BufRel s b) (k : List Nat) (t : Text) :
    LInv (TrieBuf.apply s (.remove k t)) ∧ BufRel (TrieBuf.apply s (.remove k t)) (b.remove (encK (k, t))) := by
  rw [TrieBuf.apply_remove]
  exact ⟨linv_remove hl (k, t), bufRel_remove hb hl.bt (k, t)⟩

theorem writerDone_rel {cw : CWorld} {w : World} (h : Sim cw w) : cwriterDone cw = writerDone w := by
  obtain ⟨st, cwr, cfs, cph, ccr⟩ := cw
  obtain ⟨buf, wr, fs, ph, cr⟩ := w
  have hw := h.writer
  simp only at hw
  unfold cwriterDone writerDone
  cases cwr with
  | none =>
    cases wr with
    | none => rfl
    | some x => exact hw.elim
  | some cx =>
    cases wr with
    | none => exact hw.elim
    | some x =>
      have : WRel cx x := hw
      simp only [this.pc]

/-- **forward simulation**: every step of C10's protocol over C09's concrete layers is the
    corresponding step of C10's abstract model (for the repaired code), and the abstraction relation
    is kept -/
theorem sim_step {cw cw' : CWorld} {w : World} {a : CAct} (hs : Sim cw w)
    (h : cstep cw a = some cw') : ∃ w', step cfgR w (encAct a) = some w' ∧ Sim cw' w' := by
  have hdone := writerDone_rel hs
  have hsync := sim_sync hs
  have hck := sim_checkpoint hs
  obtain ⟨st, cwr, cfs, cph, ccr⟩ := cw
  obtain ⟨buf, wr, fs, ph, cr⟩ := w
  obtain ⟨hl, hb, hw, hf, hp, hc⟩ := hs
  simp only at hl hb hw hf hp hc
  subst hp
  subst hc
  unfold cstep at h
  unfold step
  cases ccr with
  | true => simp at h
  | false =>
    simp only [Bool.false_eq_true, if_false] at h ⊢
    cases a with
    | crash =>
      simp only [encAct]
      cases h
      exact ⟨_, rfl, ⟨hl, hb, hw, hf, rfl, rfl⟩⟩
    | w =>
      simp only [encAct]
      cases cwr with
      | none => simp at h
      | some cx =>
        cases wr with
        | none => exact hw.elim
        | some x =>
          have hw' : WRel cx x := hw
          simp only at h ⊢
          cases h3 : cwstep cx cfs with
          | none => rw [h3] at h; simp at h
          | some p =>
            obtain ⟨cx', cfs'⟩ := p
            rw [h3] at h
            simp only at h
            cases h
            obtain ⟨x', fs', e, hwn, hfn⟩ := sim_wstep hw' hf h3
            rw [e]
            exact ⟨_, rfl, ⟨hl, hb, hwn, hfn, rfl, rfl⟩⟩
    | add k t f tm =>
      simp only [encAct]
      by_cases hrun : cph = .run
      · simp only [hrun, if_true] at h ⊢
        cases h
        have := sim_add hl hb k t f tm
        exact ⟨_, rfl, ⟨this.1, this.2, hw, hf, rfl, rfl⟩⟩
      · simp [hrun] at h
    | update k t f tm =>
      simp only [encAct]
      by_cases hrun : cph = .run
      · simp only [hrun, if_true] at h ⊢
        cases h
        have := sim_update hl hb k t f tm
        exact ⟨_, rfl, ⟨this.1, this.2, hw, hf, rfl, rfl⟩⟩
      · simp [hrun] at h
    | remove k t =>
      simp only [encAct]
      by_cases hrun : cph = .run
      · simp only [hrun, if_true] at h ⊢
        cases h
        have := sim_remove hl hb k t
        exact ⟨_, rfl, ⟨this.1, this.2, hw, hf, rfl, rfl⟩⟩
      · simp [hrun] at h
    | flush =>
      simp only [encAct]
      by_cases hrun : cph = .run
      · subst hrun
        simp only [↓reduceIte] at h ⊢
        cases h
        exact ⟨_, rfl, hck⟩
      · simp [hrun] at h
    | reopen =>
      simp only [encAct]
      by_cases hrun : cph = .run
      · subst hrun
        simp only [↓reduceIte] at h ⊢
        cases h
        exact ⟨_, rfl, hsync⟩
      · simp [hrun] at h
    | close =>
      simp only [encAct]
      by_cases hrun : cph = .run
      · simp only [hrun, if_true] at h ⊢
        cases h
        exact ⟨_, rfl, ⟨hl, hb, hw, hf, rfl, rfl⟩⟩
      · simp [hrun] at h
    | d =>
      simp only [encAct]
      cases cph with
      | dJoin0 =>
        simp only at h ⊢
        rw [← hdone]
        cases hd : cwriterDone _ with
        | false => rw [hd] at h; simp at h
        | true =>
          rw [hd] at h
          simp only [if_true] at h ⊢
          cases h
          exact ⟨_, rfl, ⟨hl, hb, True.intro, hf, rfl, rfl⟩⟩
      | dSync =>
        simp only at h ⊢
        cases h
        exact ⟨_, rfl, ⟨hsync.linv, hsync.buf, hsync.writer, hsync.fs, rfl, hsync.crashed⟩⟩
      | dFlush =>
        simp only at h ⊢
        cases h
        exact ⟨_, rfl, ⟨hck.linv, hck.buf, hck.writer, hck.fs, rfl, hck.crashed⟩⟩
      | dJoin =>
        simp only at h ⊢
        rw [← hdone]
        cases hd : cwriterDone _ with
        | false => rw [hd] at h; simp at h
        | true =>
          rw [hd] at h
          simp only [if_true] at h ⊢
          cases h
          exact ⟨_, rfl, ⟨hl, hb, True.intro, hf, rfl, rfl⟩⟩
      | run => simp at h
      | closed => simp at h
    | open_ =>
      simp only [encAct]
      by_cases hcl : cph = .closed
      · simp only [hcl, if_true] at h ⊢
        have hr := readPath_rel hf
        cases h1 : creadPath cfs with
        | none => rw [h1] at h; simp at h
        | some t =>
          cases h2 : readPath fs with
          | none => rw [h1, h2] at hr; exact hr.elim
          | some c =>
            rw [h1, h2] at hr
            rw [h1] at h
            simp only at h
            cases h
            have := sim_fresh hr buf.gen
            exact ⟨_, rfl, ⟨this.1, this.2, hw, hf, rfl, rfl⟩⟩
      · simp [hcl] at h

theorem sim_run {acts : List CAct} {cw cw' : CWorld} {w : World} (hs : Sim cw w)
    (h : crun cw acts = some cw') : ∃ w', run cfgR w (acts.map encAct) = some w' ∧ Sim cw' w' := by
  induction acts generalizing cw w with
  | nil =>
    simp only [crun, Option.some.injEq] at h
    subst h
    exact ⟨w, rfl, hs⟩
  | cons a as ih =>
    simp only [crun] at h
    cases h1 : cstep cw a with
    | none => rw [h1] at h; cases h
    | some cw1 =>
      rw [h1] at h
      obtain ⟨w1, e1, hs1⟩ := sim_step hs h1
      obtain ⟨w', e2, hs'⟩ := ih hs1 h
      exact ⟨w', by simp only [List.map_cons, run, e1]; exact e2, hs'⟩

/-! ### the initial world, and the specification side -/

open Classical in
/-- an abstract content that represents a given concrete map (any one: the theorems quantify over
    the initial content of C10's model) -/
noncomputable def absC (m : MapSpec.Map) : Content :=
  fun n => if h : ∃ pk, encK pk = n then (m h.choose).map encV else none

theorem rep_absC (m : MapSpec.Map) : Rep m (absC m) := by
  intro pk
  unfold absC
  have h : ∃ pk', encK pk' = encK pk := ⟨pk, rfl⟩
  rw [dif_pos h, encK_inj h.choose_spec]

noncomputable def absF : CFile → FileC
  | .partial_ => .partial_
  | .complete t => .complete (absC (TrieBuf.baseGet t))

/-- a temp file left over by an earlier process is, if complete, a well-formed trie file -/
def TmpOk (tmp : Option CFile) : Prop := ∀ t, tmp = some (.complete t) → Trie.SnapOk t

theorem sim_init {t0 : List Leaf} (h0 : Trie.SnapOk t0) {tmp : Option CFile} (ht : TmpOk tmp) :
    Sim (cinit t0 tmp) (init (absC (TrieBuf.baseGet t0)) (tmp.map absF)) := by
  have hr : TRel t0 (absC (TrieBuf.baseGet t0)) := ⟨h0, rep_absC _⟩
  refine ⟨(sim_fresh hr 0).1, (sim_fresh hr 0).2, True.intro, ?_, rfl, rfl⟩
  intro n
  cases n with
  | path => exact hr
  | tmp =>
    show ORel FileRel tmp (tmp.map absF)
    cases tmp with
    | none => exact True.intro
    | some f =>
      cases f with
      | partial_ => exact True.intro
      | complete t => exact ⟨ht t rfl, rep_absC _⟩

/-- the changes a concrete history makes, as calls of C09's specification `MapSpec` -/
def opsOf (acts : List CAct) : List MapSpec.Op := acts.filterMap opOf

theorem rep_set {m : MapSpec.Map} {c : Content} (h : Rep m c) (pk : MapSpec.PKey) (v : Option MapSpec.Val) :
    Rep (m.set pk v) (setC c (encK pk) (v.map encV)) := by
  intro pk'
  unfold MapSpec.Map.set setC
  by_cases e : pk' = pk
  · subst e; simp
  · simp only [encK_ne e, if_false, e]
    exact h pk'

/-- C10's map semantics of a change (`applyChange`) is C09's (`MapSpec.Map.apply`) -/
theorem rep_applyChange {m : MapSpec.Map} {c : Content} (h : Rep m c) (a : CAct) :
    Rep (match opOf a with | some op => m.apply op | none => m) (applyChange c (encAct a)) := by
  cases a with
  | add k t f tm =>
    simp only [opOf, encAct, applyChange, MapSpec.Map.apply, MapSpec.Map.addOk]
    rw [h (k, t)]
    by_cases hn : (m (k, t)).isNone = true
    · have h2 : (Option.map encV (m (k, t))).isSome = false := by
        rw [Option.isNone_iff_eq_none.mp hn]; rfl
      simp only [hn, h2, if_true, Bool.false_eq_true, if_false]
      exact rep_set h (k, t) (some (f, tm.getD 0))
    · have h2 : (Option.map encV (m (k, t))).isSome = true := by
        cases hm : m (k, t) with
        | none => rw [hm] at hn; exact absurd rfl hn
        | some v => rfl
      simp only [hn, h2, if_true]
      exact h
  | update k t f tm => exact rep_set h (k, t) (some (f, tm))
  | remove k t => exact rep_set h (k, t) none
  | flush => exact h
  | reopen => exact h
  | close => exact h
  | d => exact h
  | open_ => exact h
  | w => exact h
  | crash => exact h

theorem rep_spec {m : MapSpec.Map} {c : Content} (h : Rep m c) (acts : List CAct) :
    Rep (m.run (opsOf acts)) (spec c (acts.map encAct)) := by
  induction acts generalizing m c with
  | nil => exact h
  | cons a as ih =>
    have h1 := rep_applyChange h a
    have h2 := ih h1
    unfold opsOf at h2 ⊢
    unfold spec at h2 ⊢
    simp only [List.map_cons, List.foldl_cons]
    cases ho : opOf a with
    | none =>
      rw [ho] at h2
      simp only [List.filterMap_cons, ho]
      exact h2
    | some op =>
      rw [ho] at h2
      simp only [List.filterMap_cons, ho]
      exact h2

/-- a state freshly opened on the file `t` denotes what the file holds -/
theorem abs_freshSt (t : List Leaf) : TrieBuf.abs (freshSt t) = TrieBuf.baseGet t := by
  funext k
  exact TrieBuf.absOver_empty t rfl rfl k

theorem inv_freshSt {t : List Leaf} (h : Trie.SnapOk t) : TrieBuf.Inv (freshSt t) :=
  TrieBuf.inv_of_empty h rfl rfl rfl rfl

theorem settled_freshSt (t : List Leaf) : TrieBuf.Settled (freshSt t) := ⟨rfl, rfl⟩

end Chewing.DictLink
