import Chewing.Proofs.TrieBufSettle
import Chewing.Proofs.Persist
/-!
# DictLink — C09's concrete `TrieBuf` layers under C10's persistence protocol

C10's step model (`Model/Persist.lean`) is self-contained: dictionary contents are abstract maps
`Nat → Option Nat`, a change acts on three abstract layers, the snapshot writer is *assumed* to
write "the live contents" (`checkpoint: snap := w.buf.live`), a complete file *is* the map it holds.
C09's model (`Model/TrieBuf.lean`) has the concrete layers (`List Leaf` snapshot, sorted pending
list, tombstone list), the concrete `entries()` and `TrieBuilder` (`Trie.build`), but only the
sequential writer.

This file puts C09's concrete layers *under* C10's protocol:

* `CWorld` / `cstep`: the protocol of `Model/Persist.lean`, transition for transition, with every
  abstract content replaced by C09's concrete data and every abstract operation by the C09 model
  function for it — `TrieBuf.apply` for `add_phrase` / `update_phrase` / `remove_phrase`,
  `Trie.build (TrieBuf.entries st)` for what the snapshot thread writes, a file that holds the
  leaves written, `snap := t` for adoption / reload.  Nothing here is a new modelling decision:
  the control skeleton is C10's (validated by its schedule-exact correspondence), the data
  functions are C09's (validated by its correspondence).
* `Sim`: the abstraction relation (concrete layers ↦ abstract layers through an injective encoding
  of `(syllables, phrase)` and `(freq, time)` into `Nat`), and `sim_step`: **every concrete step is
  an abstract step** (forward simulation).  The proof obligations are exactly C10's assumptions:
  - "live = base overridden by pending minus tombstones": `live_rep` (`Buf.live` of the abstraction
    is the encoding of C09's `TrieBuf.abs`),
  - "add / update / remove act on the layers as `Buf.add` / `Buf.put` / `Buf.remove`": `bufRel_put`,
    `bufRel_remove`, `addOk_live` (from C09's `btGet_btInsert`, `btGet_btErase`,
    `contains_graveErase`, `contains_graveInsert`, `addOk_eq`),
  - "`entries()` collected into a `TrieBuilder` gives live": `build_rep`, which is C09's snapshot
    lemma `build_abs`.  It holds in **every** state, class UpdatePersisted (F10) included:
    `entries()` yields a shadowed key twice, persisted value first (`trie_iter.chain(btree_iter)`),
    and `TrieBuilder::insert` replaces in place, so the pending value — the map's — is written.
    (The chain order matters: with the two iterators swapped the stale value would be written.)
* `sim_run`, and with C10's `durable_spec` the end-to-end statement in C09's terms
  (`Props/C10.lean`, section "linked").
-/
namespace Chewing.DictLink
open Chewing.Persist

/-! ## an injective encoding of keys and values into `Nat` -/

def pair (a b : Nat) : Nat := 2 ^ a * (2 * b + 1)

theorem pair_pos (a b : Nat) : 0 < pair a b := Nat.mul_pos (Nat.two_pow_pos a) (by omega)

theorem pair_succ (a b : Nat) : pair (a + 1) b = 2 * pair a b := by
  unfold pair
  rw [Nat.pow_succ, Nat.mul_comm (2 ^ a) 2, Nat.mul_assoc]

theorem pair_inj {a b c d : Nat} (h : pair a b = pair c d) : a = c ∧ b = d := by
  induction a generalizing c with
  | zero =>
    cases c with
    | zero => simp only [pair, Nat.pow_zero, Nat.one_mul] at h; exact ⟨rfl, by omega⟩
    | succ c =>
      exfalso
      rw [pair_succ] at h
      simp only [pair, Nat.pow_zero, Nat.one_mul] at h
      omega
  | succ a ih =>
    cases c with
    | zero =>
      exfalso
      rw [pair_succ] at h
      simp only [pair, Nat.pow_zero, Nat.one_mul] at h
      omega
    | succ c =>
      rw [pair_succ, pair_succ] at h
      have := ih (c := c) (by omega)
      exact ⟨by omega, this.2⟩

def encL : List Nat → Nat
  | [] => 0
  | x :: r => pair x (encL r)

theorem encL_inj {l1 l2 : List Nat} (h : encL l1 = encL l2) : l1 = l2 := by
  induction l1 generalizing l2 with
  | nil =>
    cases l2 with
    | nil => rfl
    | cons y r => have := pair_pos y (encL r); simp only [encL] at h; omega
  | cons x r ih =>
    cases l2 with
    | nil => have := pair_pos x (encL r); simp only [encL] at h; omega
    | cons y r2 =>
      simp only [encL] at h
      obtain ⟨h1, h2⟩ := pair_inj h
      rw [h1, ih h2]

/-- `(syllables, phrase)` as a key of `Model/Persist.lean` -/
def encK (pk : MapSpec.PKey) : Nat := pair (encL pk.1) (encL pk.2)
/-- `(freq, time)` as a value of `Model/Persist.lean` -/
def encV (v : MapSpec.Val) : Nat := pair v.1 v.2

theorem encK_inj {a b : MapSpec.PKey} (h : encK a = encK b) : a = b := by
  obtain ⟨h1, h2⟩ := pair_inj h
  exact Prod.ext (encL_inj h1) (encL_inj h2)

theorem encV_inj {a b : MapSpec.Val} (h : encV a = encV b) : a = b := by
  obtain ⟨h1, h2⟩ := pair_inj h
  exact Prod.ext h1 h2

theorem encK_ne {a b : MapSpec.PKey} (h : a ≠ b) : encK a ≠ encK b := fun e => h (encK_inj e)

/-! ## the abstraction relation on contents and layers -/

/-- the abstract content `c` holds, at the code of every concrete key, the code of what `m` holds -/
def Rep (m : MapSpec.Map) (c : Content) : Prop := ∀ pk, c (encK pk) = (m pk).map encV

def RepG (g : List MapSpec.PKey) (gb : Nat → Bool) : Prop := ∀ pk, gb (encK pk) = g.contains pk

/-- two maps with the same abstraction are the same map -/
theorem rep_unique {m1 m2 : MapSpec.Map} {c : Content} (h1 : Rep m1 c) (h2 : Rep m2 c) (pk : MapSpec.PKey) :
    m1 pk = m2 pk := by
  have := (h1 pk).symm.trans (h2 pk)
  cases e1 : m1 pk with
  | none => cases e2 : m2 pk with
    | none => rfl
    | some v => rw [e1, e2] at this; cases this
  | some v => cases e2 : m2 pk with
    | none => rw [e1, e2] at this; cases this
    | some v' =>
      rw [e1, e2] at this
      simp only [Option.map_some, Option.some.injEq] at this
      rw [encV_inj this]

theorem rep_congr {m1 m2 : MapSpec.Map} {c : Content} (h : Rep m1 c) (e : ∀ pk, m1 pk = m2 pk) : Rep m2 c :=
  fun pk => by rw [← e pk]; exact h pk

/-- C09's three concrete layers against C10's three abstract ones -/
structure BufRel (s : TrieBuf.State) (b : Buf) : Prop where
  trie : Rep (TrieBuf.baseGet s.snap) b.trie
  btree : Rep (TrieBuf.btGet s.btree) b.btree
  grave : RepG s.grave b.grave
  dirty : b.dirty = s.dirty

/-- **C10's assumption "live = base overridden by pending minus tombstones"**: `Buf.live` of the
    abstraction is the map C09's `TrieBuf` denotes (`TrieBuf.abs`, the subject of `C09.triebuf_refines`
    and of every `C09` answer theorem) -/
theorem live_rep {s : TrieBuf.State} {b : Buf} (h : BufRel s b) : Rep (TrieBuf.abs s) b.live := by
  intro pk
  unfold Buf.live TrieBuf.abs TrieBuf.absOver
  rw [h.grave pk, h.btree pk, h.trie pk]
  cases s.grave.contains pk
  · cases TrieBuf.btGet s.btree pk <;> simp
  · simp

/-- the part of C09's representation invariant that concerns the layers (the rest of `TrieBuf.Inv`
    is about the sequential writer's `file` / `inflight`, which C10's protocol replaces) -/
structure LInv (s : TrieBuf.State) : Prop where
  bt : TrieBuf.KeysOk s.btree
  range : ∀ e ∈ s.btree, TrieBuf.inRange e.1.2 = true
  snap : Trie.SnapOk s.snap

/-- the same layers in a sequential state without writer: C09's lemmas apply to it, and every
    function of the layers (`entries`, `addOk`, `abs`, `lookupAll`) has the same value on it -/
def norm (s : TrieBuf.State) : TrieBuf.State := { s with file := s.snap, inflight := none, dirty := true }

theorem inv_norm {s : TrieBuf.State} (h : LInv s) : TrieBuf.Inv (norm s) :=
  ⟨h.bt, h.range, h.snap, h.snap, fun _ e => by simp [norm] at e, rfl, fun _ e => by simp [norm] at e,
   fun _ e => by simp [norm] at e, fun e => by simp [norm] at e⟩

theorem linv_put {s : TrieBuf.State} (h : LInv s) (k : MapSpec.PKey) (v : MapSpec.Val)
    (hr : TrieBuf.inRange k.2 = true) : LInv (TrieBuf.put s k v) := by
  refine ⟨TrieBuf.keysOk_btInsert h.bt k v, ?_, h.snap⟩
  intro e he
  rcases TrieBuf.mem_btInsert.mp he with rfl | ⟨h1, _⟩
  · exact hr
  · exact h.range e h1

theorem linv_remove {s : TrieBuf.State} (h : LInv s) (k : MapSpec.PKey) : LInv (TrieBuf.removeSt s k) := by
  refine ⟨TrieBuf.keysOk_btErase h.bt k, ?_, h.snap⟩
  intro e he
  simp only [TrieBuf.removeSt, TrieBuf.btErase, List.mem_filter] at he
  exact h.range e he.1

/-- **C10's assumption about `add_phrase` / `update_phrase`** (`Buf.put` with the tombstone repair):
    C09's `put` is the abstract `put` at the encoded key -/
theorem bufRel_put {s : TrieBuf.State} {b : Buf} (cfg : Cfg) (hrv : cfg.revive = true) (h : BufRel s b)
    (hk : TrieBuf.KeysOk s.btree) (k : MapSpec.PKey) (v : MapSpec.Val) :
    BufRel (TrieBuf.put s k v) (b.put cfg (encK k) (encV v)) := by
  refine ⟨h.trie, ?_, ?_, rfl⟩
  · intro k'
    show setC b.btree (encK k) (some (encV v)) (encK k') = _
    simp only [TrieBuf.put]
    rw [TrieBuf.btGet_btInsert hk]
    unfold setC
    by_cases e : k' = k
    · subst e; simp
    · simp only [encK_ne e, if_false, e]
      exact h.btree k'
  · intro k'
    simp only [Buf.put, hrv, if_true, TrieBuf.put]
    rw [TrieBuf.contains_graveErase]
    unfold setG
    by_cases e : k' = k
    · subst e; simp
    · simp only [encK_ne e, if_false]
      rw [h.grave k']
      simp [e]

/-- **C10's assumption about `remove_phrase`** -/
theorem bufRel_remove {s : TrieBuf.State} {b : Buf} (h : BufRel s b) (hk : TrieBuf.KeysOk s.btree)
    (k : MapSpec.PKey) : BufRel (TrieBuf.removeSt s k) (b.remove (encK k)) := by
  refine ⟨h.trie, ?_, ?_, rfl⟩
  · intro k'
    show setC b.btree (encK k) none (encK k') = _
    simp only [TrieBuf.removeSt]
    rw [TrieBuf.btGet_btErase hk]
    unfold setC
    by_cases e : k' = k
    · subst e; simp
    · simp only [encK_ne e, if_false, e]
      exact h.btree k'
  · intro k'
    show setG b.grave (encK k) true (encK k') = _
    simp only [TrieBuf.removeSt]
    rw [TrieBuf.contains_graveInsert]
    unfold setG
    by_cases e : k' = k
    · subst e; simp
    · simp only [encK_ne e, if_false]
      rw [h.grave k']
      simp [e]

/-- **C10's assumption about the rejection of `add_phrase`** ("rejected when the phrase is live"):
    C09's `addOk` (the exact lookup does not yield the text) is "not live" — C09's `addOk_eq` -/
theorem addOk_live {s : TrieBuf.State} {b : Buf} (hl : LInv s) (h : BufRel s b) (k : List Nat) (t : Text) :
    TrieBuf.addOk s k t = !(b.live (encK (k, t))).isSome := by
  have h1 : TrieBuf.addOk s k t = TrieBuf.addOk (norm s) k t := rfl
  rw [h1, TrieBuf.addOk_eq (inv_norm hl), live_rep h (k, t)]
  show (TrieBuf.abs s (k, t)).isNone = _
  cases TrieBuf.abs s (k, t) <;> rfl

/-- **C10's assumption "`entries()` collected into a `TrieBuilder` gives the live contents"**
    (`Persist.checkpoint`: `snap := w.buf.live`): the file built from C09's concrete `entries()`
    denotes the live map — C09's snapshot lemma `build_abs`, in every state (no exclusion of class
    UpdatePersisted: a shadowed key is enumerated twice, persisted value first, and
    `TrieBuilder::insert` lets the later, pending one win) -/
theorem build_rep {s : TrieBuf.State} {b : Buf} (hl : LInv s) (h : BufRel s b) :
    Trie.SnapOk (Trie.build (TrieBuf.entries s)) ∧
      Rep (TrieBuf.baseGet (Trie.build (TrieBuf.entries s))) b.live := by
  refine ⟨Trie.snapOk_build _, ?_⟩
  apply rep_congr (live_rep h)
  intro pk
  exact (TrieBuf.build_abs (inv_norm hl) pk).symm

end Chewing.DictLink
