import Chewing.Proofs.DictLink
import Chewing.Proofs.TrieLink
/-!
# DictLinkBytes — the files of `DictLink` are byte files

`Proofs/DictLink.lean` runs C10's persistence protocol over C09's concrete `TrieBuf` layers, with a
complete file modelled as the `List Leaf` that was written (`CFile.complete t`, `t = Trie.build es`).
This file removes that abstraction as an assumption: along **every** run of the protocol every
complete file (at the path, the temp file, the writer's output and re-opened result, the snapshot
held in memory) *is* `Trie.build es` for a list `es` of entries that are valid for the Rust types and
satisfy a given size predicate `P` (`Tracked`, `tracked_run`) — and for such a list
`TrieLink.build_denotes` says the bytes `TrieBuilder::write` produces denote exactly that leaf list
under the real reader (`Trie::new`, `lookup_*`, `entries`).

The size predicate is C11's `Builder.Fits` (every leaf < 64 KiB encoded, every node < 65536 children,
document within `der`'s `Length::MAX`): the protocol model has no failing `write`, so the statement
is made for histories all of whose snapshots fit (`SnapshotsFit`); a history that exceeds the limits
makes `TrieBuilder::write` return an error (C11 F13 fix), which this model does not follow further.
-/
namespace Chewing.DictLink
open Chewing Chewing.Persist

/-! ## validity of what goes into the dictionary -/

/-- `(syllables, phrase text)` as the Rust types constrain it: `Syllable`s — non-zero `u16` codes that
    `Syllable::try_from` accepts (`validCode`: the invariant of the type since the repair of C13's finding F47,
    required by C11's `ValidEntry`) —, a `String` -/
def ValidPK (pk : MapSpec.PKey) : Prop :=
  (∀ s ∈ pk.1, 0 < s ∧ s < 65536 ∧ validCode s = true) ∧ ∀ c ∈ pk.2, Der.IsScalar c

/-- `(freq : u32, last_used : u64)` -/
def ValidVal (v : MapSpec.Val) : Prop := v.1 < 2 ^ 32 ∧ v.2 < 2 ^ 64

/-- a `DictionaryMut` call with arguments of the Rust types -/
def CActValid : CAct → Prop
  | .add k t f tm => ValidPK (k, t) ∧ ValidVal (f, tm.getD 0)
  | .update k t f tm => ValidPK (k, t) ∧ ValidVal (f, tm)
  | _ => True

theorem validEntry_mk {pk : MapSpec.PKey} {v : MapSpec.Val} (hk : ValidPK pk) (hv : ValidVal v) :
    TrieCodec.ValidEntry (pk.1, mkPhrase pk.2 v) := by
  refine ⟨hk.1, hk.2, hv.1, ?_⟩
  intro t ht
  simp only [mkPhrase, Option.some.injEq] at ht
  rw [← ht]; exact hv.2

/-- a leaf list `TrieBuilder` wrote from valid entries satisfying `P` -/
def Written (P : List Entry → Prop) (t : List Leaf) : Prop :=
  ∃ es, (∀ e ∈ es, TrieCodec.ValidEntry e) ∧ P es ∧ t = Trie.build es

theorem Written.snapOk {P : List Entry → Prop} {t : List Leaf} (h : Written P t) : Trie.SnapOk t := by
  obtain ⟨es, _, _, rfl⟩ := h
  exact Trie.snapOk_build es

/-- what a written file enumerates is valid -/
theorem Written.entries_valid {P : List Entry → Prop} {t : List Leaf} (h : Written P t) :
    ∀ e ∈ Trie.entries t, TrieCodec.ValidEntry e := by
  obtain ⟨es, hv, _, rfl⟩ := h
  intro e he
  obtain ⟨l, hl, e1, hp⟩ := TrieBuf.mem_trie_entries.mp he
  unfold Trie.build at hl
  obtain ⟨k, _, rfl⟩ := List.mem_map.mp hl
  simp only at e1 hp
  have := TrieLink.mem_leafOf ((mem_isort _).mp hp)
  have hv' := hv _ this
  rw [e1] at hv'
  exact hv'

/-- the pending entries are valid -/
def BtValid (bt : List (MapSpec.PKey × MapSpec.Val)) : Prop := ∀ e ∈ bt, ValidPK e.1 ∧ ValidVal e.2

theorem entries_valid {P : List Entry → Prop} {s : TrieBuf.State} (hs : Written P s.snap) (hb : BtValid s.btree) :
    ∀ e ∈ TrieBuf.entries s, TrieCodec.ValidEntry e := by
  intro e he
  unfold TrieBuf.entries at he
  rw [List.mem_filter, List.mem_append] at he
  rcases he.1 with h | h
  · exact hs.entries_valid e (List.mem_filter.mp h).1
  · unfold TrieBuf.btEntries at h
    obtain ⟨x, hx, rfl⟩ := List.mem_map.mp h
    exact validEntry_mk (hb x hx).1 (hb x hx).2

/-! ## the invariant -/

structure Tracked (P : List Entry → Prop) (cw : CWorld) : Prop where
  snap : Written P cw.st.snap
  btree : BtValid cw.st.btree
  files : ∀ n t, cw.fs n = some (.complete t) → Written P t
  writer : ∀ wr, cw.writer = some wr → Written P wr.out ∧ ∀ t, wr.result = some t → Written P t

def TmpWritten (P : List Entry → Prop) (tmp : Option CFile) : Prop := ∀ t, tmp = some (.complete t) → Written P t

theorem TmpWritten.ok {P : List Entry → Prop} {tmp : Option CFile} (h : TmpWritten P tmp) : TmpOk tmp :=
  fun t e => (h t e).snapOk

theorem tracked_init {P : List Entry → Prop} {t0 : List Leaf} (h0 : Written P t0) {tmp : Option CFile}
    (ht : TmpWritten P tmp) : Tracked P (cinit t0 tmp) := by
  refine ⟨h0, fun _ h => by simp [cinit, freshSt, TrieBuf.initFile, TrieBuf.initMem] at h, ?_, fun _ h => by simp [cinit] at h⟩
  intro n t h
  cases n with
  | path => simp only [cinit, Option.some.injEq, CFile.complete.injEq] at h; rw [← h]; exact h0
  | tmp => exact ht t h

theorem creadPath_written {P : List Entry → Prop} {fs : CFS} (h : ∀ n t, fs n = some (.complete t) → Written P t)
    {t : List Leaf} (e : creadPath fs = some t) : Written P t := by
  unfold creadPath at e
  split at e
  · rename_i t' h'
    cases e
    exact h .path _ h'
  · cases e

theorem tracked_sync {P : List Entry → Prop} {cw : CWorld} (h : Tracked P cw) : Tracked P (csync cw) := by
  obtain ⟨st, cwr, cfs, cph, ccr⟩ := cw
  obtain ⟨hs, hb, hf, hw⟩ := h
  simp only at hs hb hf hw
  unfold csync
  cases cwr with
  | none =>
    simp only
    cases h1 : creadPath cfs with
    | none => exact ⟨hs, hb, hf, hw⟩
    | some t => exact ⟨creadPath_written hf h1, hb, hf, hw⟩
  | some wr =>
    simp only
    split
    · exact ⟨hs, hb, hf, hw⟩
    · cases h2 : wr.result with
      | none => exact ⟨hs, hb, hf, fun _ e => by cases e⟩
      | some t =>
        simp only
        split
        · exact ⟨hs, hb, hf, fun _ e => by cases e⟩
        · exact ⟨(hw wr rfl).2 t h2, fun _ e => by simp [adopt] at e, hf, fun _ e => by cases e⟩

theorem tracked_checkpoint {P : List Entry → Prop} {cw : CWorld} (h : Tracked P cw) (hP : P (TrieBuf.entries cw.st)) :
    Tracked P (ccheckpoint cw) := by
  obtain ⟨st, cwr, cfs, cph, ccr⟩ := cw
  have hev := entries_valid h.snap h.btree
  obtain ⟨hs, hb, hf, hw⟩ := h
  simp only at hs hb hf hw hP hev
  unfold ccheckpoint
  split
  · exact ⟨hs, hb, hf, hw⟩
  · split
    · exact ⟨hs, hb, hf, hw⟩
    · refine ⟨hs, hb, hf, ?_⟩
      intro wr e
      simp only [Option.some.injEq] at e
      subst e
      exact ⟨⟨_, hev, hP, rfl⟩, fun _ e => by cases e⟩

theorem csetF_written {P : List Entry → Prop} {fs : CFS} (h : ∀ n t, fs n = some (.complete t) → Written P t)
    (m : Name) (f : Option CFile) (hf : ∀ t, f = some (.complete t) → Written P t) :
    ∀ n t, csetF fs m f n = some (.complete t) → Written P t := by
  intro n t e
  unfold csetF at e
  split at e
  · exact hf t e
  · exact h n t e

theorem tracked_wstep {P : List Entry → Prop} {wr wr' : CWriter} {fs fs' : CFS}
    (hf : ∀ n t, fs n = some (.complete t) → Written P t)
    (hw : Written P wr.out ∧ ∀ t, wr.result = some t → Written P t) (h : cwstep wr fs = some (wr', fs')) :
    (∀ n t, fs' n = some (.complete t) → Written P t) ∧
      (Written P wr'.out ∧ ∀ t, wr'.result = some t → Written P t) := by
  obtain ⟨pc, out, res⟩ := wr
  unfold cwstep at h
  cases pc <;> simp only at h
  case start => cases h; exact ⟨hf, hw⟩
  case collected => cases h; exact ⟨csetF_written hf .tmp (some .partial_) (fun _ e => by cases e), hw⟩
  case created => cases h; exact ⟨csetF_written hf .tmp (some .partial_) (fun _ e => by cases e), hw⟩
  case written =>
    cases h
    refine ⟨csetF_written hf .tmp (some (.complete out)) ?_, hw⟩
    intro t e
    simp only [Option.some.injEq, CFile.complete.injEq] at e
    rw [← e]; exact hw.1
  case flushed => cases h; exact ⟨hf, hw⟩
  case synced =>
    cases h1 : fs .tmp with
    | none => rw [h1] at h; cases h; exact ⟨hf, hw.1, fun _ e => by cases e⟩
    | some f =>
      rw [h1] at h
      cases h
      refine ⟨csetF_written (csetF_written hf .path (some f) ?_) .tmp none (fun _ e => by cases e), hw⟩
      intro t e
      simp only [Option.some.injEq] at e
      exact hf .tmp t (by rw [h1, e])
  case renamed => cases h; exact ⟨hf, hw⟩
  case built => cases h; exact ⟨hf, hw.1, fun t e => creadPath_written hf e⟩
  case reopened => cases h; exact ⟨hf, hw⟩
  case finished => cases h

theorem btValid_put {s : TrieBuf.State} (hb : BtValid s.btree) {k : MapSpec.PKey} {v : MapSpec.Val}
    (hk : ValidPK k) (hv : ValidVal v) : BtValid (TrieBuf.put s k v).btree := by
  intro e he
  rcases TrieBuf.mem_btInsert.mp he with rfl | ⟨h1, _⟩
  · exact ⟨hk, hv⟩
  · exact hb e h1

theorem tracked_apply {P : List Entry → Prop} {cw : CWorld} (h : Tracked P cw) (a : CAct) (hv : CActValid a)
    (op : MapSpec.Op) (ho : opOf a = some op) : Tracked P { cw with st := TrieBuf.apply cw.st op } := by
  obtain ⟨hs, hb, hf, hw⟩ := h
  cases a with
  | add k t f tm =>
    cases ho
    simp only [TrieBuf.apply]
    split
    · exact ⟨hs, btValid_put hb hv.1 hv.2, hf, hw⟩
    · exact ⟨hs, hb, hf, hw⟩
  | update k t f tm =>
    cases ho
    exact ⟨hs, btValid_put hb hv.1 hv.2, hf, hw⟩
  | remove k t =>
    cases ho
    refine ⟨hs, ?_, hf, hw⟩
    intro e he
    simp only [TrieBuf.apply, TrieBuf.btErase, List.mem_filter] at he
    exact hb e he.1
  | flush => cases ho
  | reopen => cases ho
  | close => cases ho
  | d => cases ho
  | open_ => cases ho
  | w => cases ho
  | crash => cases ho

/-- **every step keeps every file a written file** — provided the snapshot a step may take from the
    current state satisfies the size predicate -/
theorem tracked_step {P : List Entry → Prop} {cw cw' : CWorld} {a : CAct} (ht : Tracked P cw) (hv : CActValid a)
    (hP : P (TrieBuf.entries cw.st)) (h : cstep cw a = some cw') : Tracked P cw' := by
  have hsync := tracked_sync ht
  have hck := tracked_checkpoint ht hP
  unfold cstep at h
  split at h
  · cases h
  · cases a with
    | crash => cases h; exact ⟨ht.snap, ht.btree, ht.files, ht.writer⟩
    | w =>
      simp only at h
      cases hwr : cw.writer with
      | none => rw [hwr] at h; cases h
      | some wr =>
        rw [hwr] at h
        simp only at h
        cases h3 : cwstep wr cw.fs with
        | none => rw [h3] at h; cases h
        | some p =>
          obtain ⟨wr', fs'⟩ := p
          rw [h3] at h
          cases h
          have := tracked_wstep ht.files (ht.writer wr hwr) h3
          exact ⟨ht.snap, ht.btree, this.1, fun x e => by cases e; exact this.2⟩
    | add k t f tm =>
      simp only at h
      split at h
      · cases h; exact tracked_apply ht (.add k t f tm) hv _ rfl
      · cases h
    | update k t f tm =>
      simp only at h
      split at h
      · cases h; exact tracked_apply ht (.update k t f tm) hv _ rfl
      · cases h
    | remove k t =>
      simp only at h
      split at h
      · cases h; exact tracked_apply ht (.remove k t) hv _ rfl
      · cases h
    | flush =>
      simp only at h
      split at h
      · cases h; exact hck
      · cases h
    | reopen =>
      simp only at h
      split at h
      · cases h; exact hsync
      · cases h
    | close =>
      simp only at h
      split at h
      · cases h; exact ⟨ht.snap, ht.btree, ht.files, ht.writer⟩
      · cases h
    | d =>
      simp only at h
      split at h
      · split at h
        · cases h; exact ⟨ht.snap, ht.btree, ht.files, fun _ e => by cases e⟩
        · cases h
      · cases h; exact ⟨hsync.snap, hsync.btree, hsync.files, hsync.writer⟩
      · cases h; exact ⟨hck.snap, hck.btree, hck.files, hck.writer⟩
      · split at h
        · cases h; exact ⟨ht.snap, ht.btree, ht.files, fun _ e => by cases e⟩
        · cases h
      · cases h
    | open_ =>
      simp only at h
      split at h
      · cases h1 : creadPath cw.fs with
        | none => rw [h1] at h; cases h
        | some c =>
          rw [h1] at h
          cases h
          exact ⟨creadPath_written ht.files h1,
            fun _ e => by simp [freshSt, TrieBuf.initFile, TrieBuf.initMem] at e, ht.files, ht.writer⟩
      · cases h

/-- every snapshot the history can take satisfies the size predicate: the entries of every state the
    run passes through -/
def SnapshotsOk (P : List Entry → Prop) (cw : CWorld) (acts : List CAct) : Prop :=
  ∀ pre cw', pre <+: acts → crun cw pre = some cw' → P (TrieBuf.entries cw'.st)

theorem snapshotsOk_nil {P : List Entry → Prop} {cw : CWorld} (h0 : P (TrieBuf.entries cw.st)) : SnapshotsOk P cw [] := by
  intro pre cw' hpre hr
  have : pre = [] := List.prefix_nil.mp hpre
  subst this
  simp only [crun, Option.some.injEq] at hr
  subst hr; exact h0

/-- stepping a concrete history -/
theorem snapshotsOk_cons {P : List Entry → Prop} {cw : CWorld} {a : CAct} {as : List CAct}
    (h0 : P (TrieBuf.entries cw.st)) (cw1 : CWorld) (h1 : cstep cw a = some cw1) (h : SnapshotsOk P cw1 as) :
    SnapshotsOk P cw (a :: as) := by
  intro pre cw' hpre hr
  cases pre with
  | nil => simp only [crun, Option.some.injEq] at hr; subst hr; exact h0
  | cons b pre =>
    obtain ⟨s, hs⟩ := hpre
    simp only [List.cons_append, List.cons.injEq] at hs
    obtain ⟨rfl, hs⟩ := hs
    simp only [crun, h1] at hr
    exact h pre cw' ⟨s, hs⟩ hr

theorem tracked_run {P : List Entry → Prop} {acts : List CAct} {cw cw' : CWorld} (ht : Tracked P cw)
    (hv : ∀ a ∈ acts, CActValid a) (hP : SnapshotsOk P cw acts) (h : crun cw acts = some cw') : Tracked P cw' := by
  induction acts generalizing cw with
  | nil =>
    simp only [crun, Option.some.injEq] at h
    subst h; exact ht
  | cons a as ih =>
    simp only [crun] at h
    cases h1 : cstep cw a with
    | none => rw [h1] at h; cases h
    | some cw1 =>
      rw [h1] at h
      have hP0 : P (TrieBuf.entries cw.st) := hP [] cw (List.nil_prefix) rfl
      refine ih (tracked_step ht (hv a List.mem_cons_self) hP0 h1) (fun b hb => hv b (List.mem_cons_of_mem _ hb)) ?_ h
      intro pre cw'' hpre hr
      refine hP (a :: pre) cw'' ?_ ?_
      · obtain ⟨s, hs⟩ := hpre
        exact ⟨s, by rw [← hs]; rfl⟩
      · simp only [crun, h1]; exact hr

/-! ## what a well-formed leaf list answers to an exact lookup -/

/-- the exact lookup of a well-formed trie file is a correct answer for the map the file denotes -/
theorem isLookup_baseGet {t : List Leaf} (h : Trie.SnapOk t) (k : List Nat) :
    MapSpec.IsLookup (TrieBuf.baseGet t) k (Trie.lookupAll t k .standard) := by
  refine ⟨(Trie.leafOk_iff _).mp (TrieBuf.leafOk_lookupAll_std h k), ?_, ?_⟩
  · intro p hp
    obtain ⟨l, hl, e, hpl⟩ := (TrieBuf.mem_lookupAll_std h).mp hp
    exact (TrieBuf.baseGet_iff h).mpr ⟨l, hl, e, p, hpl, rfl, rfl⟩
  · intro tx v hb
    obtain ⟨l, hl, e, p, hpl, e', _⟩ := (TrieBuf.baseGet_iff h).mp hb
    exact ⟨p, (TrieBuf.mem_lookupAll_std h).mpr ⟨l, hl, e, hpl⟩, e'⟩

end Chewing.DictLink
