import Chewing.Proofs.EditorFrame
/-!
What a key answered with *bell* may change (C06, "key results are truthful"), arm by arm, for every
environment.  `EditorFrame` shows that a bell leaves the composition editor alone; here the WHOLE shared
state and the state value are tracked: a bell returns the shared state it was given, except that

* the arms that first hand the key to the phonetic layout (`Entering`: Chinese mode, no modifiers; every
  layout arm of `EnteringSyllable`) store the layout's state after the rejected key (`syl`), and
* a failed Ctrl-digit "add phrase" (`Entering`) writes its message into the notification buffer.

`Selecting` returns the shared state and the `Selecting` value themselves; `Highlighting` never bells.
-/
namespace Chewing

variable {D L : Type} (env : Env D L)

/-! ### the arms that can bell, as decidable guards -/

/-- does the arm that can answer *bell* from this state hand the key to the phonetic layout first? -/
def bellAsksLayout (st : St) (sh : Shared D L) (ev : KeyEvent) : Bool :=
  match st with
  | .entering => ev.mods.isNone && sh.options.languageMode == .chinese
  | .enteringSyllable => true
  | _ => false

/-- the layout's answer (behaviour, new layout state) to the key in that arm -/
def layoutAnswer (st : St) (sh : Shared D L) (ev : KeyEvent) : LayoutBeh × L :=
  match st with
  | .enteringSyllable =>
    match sh.options.lookupStrategy with
    | .fuzzyPartialPrefix => env.fuzzyKeyPress sh.syl ev
    | .standard => env.keyPress sh.syl ev
  | _ => env.keyPress sh.syl ev

/-- the layout answers after which the editor goes on to reject the key: in `Entering` everything but
    *absorb*, in `EnteringSyllable` everything but *absorb*, *commit*, *fuzzy* -/
def rejected (st : St) (b : LayoutBeh) : Bool :=
  match st, b with
  | _, .absorb => false
  | .enteringSyllable, .commit => false
  | .enteringSyllable, .fuzzy _ => false
  | _, _ => true

/-- the only arm whose bell comes with a notification: Ctrl + digit in `Entering` (add a phrase) -/
def bellMayNotify (st : St) (ev : KeyEvent) : Bool :=
  st == .entering && isDigitCode ev.code && ev.mods.ctrl

/-- phonetic buffer `l` and notification `n` after a bell from state `st`, shared state `sh0`, key `ev` -/
def BellP (st : St) (sh0 : Shared D L) (ev : KeyEvent) (l : L) (n : Text) : Prop :=
  (l = sh0.syl ∨
    (bellAsksLayout st sh0 ev = true ∧ rejected st (layoutAnswer env st sh0 ev).1 = true ∧
     l = (layoutAnswer env st sh0 ev).2)) ∧
  (n = sh0.noticeBuf ∨
    (bellMayNotify st ev = true ∧ (n = Shared.msgFail ∨ ∃ p, n = Shared.msgExists p)))

/-- `sh` is `sh0` except possibly for the phonetic buffer and the notification, and those satisfy `P` -/
def Near (P : L → Text → Prop) (sh0 sh : Shared D L) : Prop :=
  sh = { sh0 with syl := sh.syl, noticeBuf := sh.noticeBuf } ∧ P sh.syl sh.noticeBuf

/-- bell frame of a step result -/
def BFrame (P : L → Text → Prop) (sh0 : Shared D L) (r : StepRes D L) : Prop :=
  ∀ sh' t, r = .ok (sh', t) → t = .spin .bell → Near P sh0 sh'

/-- the step never answers *bell* -/
def NoBell (r : StepRes D L) : Prop := ∀ sh' t, r = .ok (sh', t) → t ≠ .spin .bell

theorem BFrame.of_noBell {P : L → Text → Prop} {sh0 : Shared D L} {r : StepRes D L} (h : NoBell r) :
    BFrame P sh0 r := fun sh' t e hb => absurd hb (h sh' t e)

theorem bframe_ite {P : L → Text → Prop} {sh0 : Shared D L} {c : Prop} [Decidable c] {a b : StepRes D L}
    (h1 : BFrame P sh0 a) (h2 : BFrame P sh0 b) : BFrame P sh0 (if c then a else b) := by
  split <;> assumption

theorem noBell_ite {c : Prop} [Decidable c] {a b : StepRes D L}
    (h1 : NoBell a) (h2 : NoBell b) : NoBell (if c then a else b) := by
  split <;> assumption

theorem noBell_panic (p : String) : NoBell (.panic p : StepRes D L) := by intro sh' t h; cases h
theorem noBell_fuel : NoBell (.outOfFuel : StepRes D L) := by intro sh' t h; cases h

/-- closes `NoBell (.ok (x, t))` for a concrete transition `t` other than a bell -/
macro "nobell_leaf" : tactic =>
  `(tactic| (intro sh' t h; injection h with h; injection h with h1 h2; subst h1 h2; intro c; cases c))

/-- closes `BFrame P sh0 (.ok (sh, t))`: `t` is not a bell, or `sh` is near `sh0` by the hypothesis `hn` -/
macro "bframe_leaf" hn:term : tactic =>
  `(tactic| (intro sh' t h hb; injection h with h; injection h with h1 h2; subst h1 h2;
             first | (cases hb; done) | exact $hn))

theorem noBell_withCom_absorb (sh : Shared D L) (r : Outcome CompEditor) :
    NoBell (withCom sh r fun sh => .ok (sh, .spin .absorb)) := by
  unfold withCom
  cases r with
  | ok c => nobell_leaf
  | panic p => exact noBell_panic p
  | outOfFuel => exact noBell_fuel

theorem noBell_commitOrInsert (sh : Shared D L) (ch : Nat) : NoBell (commitOrInsert sh ch) := by
  unfold commitOrInsert
  split
  · nobell_leaf
  · exact noBell_withCom_absorb _ _

theorem bframe_inputChar {P : L → Text → Prop} (sh0 sh : Shared D L) (ev : KeyEvent) (hn : Near P sh0 sh) :
    BFrame P sh0 (inputChar sh ev) := by
  unfold inputChar fullOrBell
  repeat' split
  all_goals first
    | exact .of_noBell (noBell_commitOrInsert _ _)
    | bframe_leaf hn

theorem bframe_chineseFallback {P : L → Text → Prop} (sh0 sh : Shared D L) (ev : KeyEvent) (hn : Near P sh0 sh) :
    BFrame P sh0 (chineseFallback sh ev) := by
  unfold chineseFallback
  repeat' split
  all_goals first
    | exact .of_noBell (noBell_withCom_absorb _ _)
    | exact bframe_inputChar _ _ _ hn
    | bframe_leaf hn

theorem noBell_openPhrase (sh : Shared D L) : NoBell (openPhrase env sh) := by
  intro sh' t h
  rcases openPhrase_cases env h with ⟨_, s, rfl⟩ | ⟨rfl, _⟩ <;> (intro c; cases c)

theorem noBell_openSymbol (sh : Shared D L) : NoBell (openSymbol env sh) := by
  intro sh' t h
  obtain ⟨_, rfl | rfl⟩ := openSymbol_cases env h <;> (intro c; cases c)

theorem noBell_openSpecialSymbol (sh : Shared D L) (sym : Sym) : NoBell (openSpecialSymbol env sh sym) := by
  intro sh' t h
  rcases openSpecialSymbol_cases env h with ⟨_, s, rfl⟩ | ⟨rfl, _⟩ <;> (intro c; cases c)

theorem noBell_newPhraseSimple (sh : Shared D L) : NoBell (newPhraseSimple sh) := by
  unfold newPhraseSimple
  simp only
  split
  · nobell_leaf
  · exact noBell_panic _
  · exact noBell_fuel

theorem noBell_startSelecting (sh : Shared D L) : NoBell (startSelecting env sh) := by
  unfold startSelecting
  split
  · split
    · exact noBell_openPhrase env _
    · exact noBell_openSpecialSymbol env _ _
  · nobell_leaf

theorem noBell_startSelectingOrInputSpace (sh : Shared D L) : NoBell (startSelectingOrInputSpace env sh) := by
  unfold startSelectingOrInputSpace
  split
  · split
    · exact noBell_openPhrase env _
    · exact noBell_openSpecialSymbol env _ _
  · repeat' split
    all_goals nobell_leaf

/-! ### a failed "add phrase": the message is the only change -/

/-- what a failed attempt hands back: the shared state untouched and one of the two messages -/
def QuietFail (sh : Shared D L) (x : Shared D L × Except Text Text) : Prop :=
  match x.2 with
  | .error msg => x.1 = sh ∧ (msg = Shared.msgFail ∨ ∃ p, msg = Shared.msgExists p)
  | .ok _ => True

attribute [local irreducible] Shared.msgFail Shared.msgExists in
theorem learnInRangeQuiet_error (sh : Shared D L) (a b : Nat) :
    OutAll (QuietFail sh) (Shared.learnInRangeQuiet env sh a b) := by
  unfold Shared.learnInRangeQuiet
  repeat' (first | split | (dsimp only; split))
  all_goals first
    | trivial
    | exact ⟨rfl, Or.inl rfl⟩
    | exact ⟨rfl, Or.inr ⟨_, rfl⟩⟩

theorem learnInRangeNotify_fail (sh : Shared D L) (a b : Nat) :
    OutAll (fun x => x.2 = false →
        ∃ msg, x.1 = { sh with noticeBuf := msg } ∧ (msg = Shared.msgFail ∨ ∃ p, msg = Shared.msgExists p))
      (Shared.learnInRangeNotify env sh a b) := by
  unfold Shared.learnInRangeNotify
  split
  · intro c; cases c
  · rename_i sh1 msg hq
    have hf : QuietFail sh (sh1, .error msg) := (learnInRangeQuiet_error env sh a b).elim hq
    obtain ⟨h1, h2⟩ := hf
    have h1' : sh1 = sh := h1
    subst h1'
    intro _; exact ⟨msg, rfl, h2⟩
  · trivial
  · trivial

theorem bframe_learnTrans {P : L → Text → Prop} (sh : Shared D L) (a b : Nat)
    (hP : ∀ msg, (msg = Shared.msgFail ∨ ∃ p, msg = Shared.msgExists p) → P sh.syl msg) :
    BFrame P sh (learnTrans (Shared.learnInRangeNotify env sh a b)) := by
  unfold learnTrans
  split
  · rename_i sh1 okk hq
    have hf := (learnInRangeNotify_fail env sh a b).elim hq
    cases okk
    · obtain ⟨msg, h1, h2⟩ := hf rfl
      intro sh' t h hb; injection h with h; injection h with h3 h4; subst h3
      simp only at h1
      rw [h1]; exact ⟨rfl, hP msg h2⟩
    · intro sh' t h hb; injection h with h; injection h with h3 h4; subst h4; simp at hb
  · exact .of_noBell (noBell_panic _)
  · exact .of_noBell noBell_fuel

/-! ### `Entering` -/

theorem rejected_entering {b : LayoutBeh} (h : ¬ (b == LayoutBeh.absorb) = true) : rejected .entering b = true := by
  cases b <;> simp_all [rejected]

theorem near_self (st : St) (sh : Shared D L) (ev : KeyEvent) : Near (BellP env st sh ev) sh sh :=
  ⟨rfl, Or.inl rfl, Or.inl rfl⟩

/-- the layout was asked (`Entering`, Chinese mode, no modifiers) and did not absorb the key -/
theorem near_pressed (sh : Shared D L) (ev : KeyEvent) (hm : ev.mods.isNone = true)
    (hl : sh.options.languageMode = .chinese) (hna : ¬ ((env.keyPress sh.syl ev).1 == LayoutBeh.absorb) = true) :
    Near (BellP env .entering sh ev) sh { sh with syl := (env.keyPress sh.syl ev).2 } :=
  ⟨rfl, Or.inr ⟨by simp [bellAsksLayout, hm, hl], rejected_entering hna, rfl⟩, Or.inl rfl⟩

theorem bframe_enteringDefault (sh : Shared D L) (ev : KeyEvent) :
    BFrame (BellP env .entering sh ev) sh (enteringDefault env sh ev) := by
  have h0 := near_self env .entering sh ev
  unfold enteringDefault
  split
  · next hl =>
    split
    · exact .of_noBell (noBell_openSymbol env _)
    split
    · exact bframe_inputChar _ _ _ h0
    split
    · split
      · exact .of_noBell (noBell_withCom_absorb _ _)
      · split
        · exact .of_noBell (noBell_withCom_absorb _ _)
        · split
          · next hm =>
            split
            · exact .of_noBell (by nobell_leaf)
            · next hna => bframe_leaf (near_pressed env sh ev hm hl hna)
          · bframe_leaf h0
    · split
      · next hm =>
        split
        · exact .of_noBell (by nobell_leaf)
        · next hna => exact bframe_chineseFallback _ _ _ (near_pressed env sh ev hm hl hna)
      · exact bframe_chineseFallback _ _ _ h0
  · exact bframe_inputChar _ _ _ h0

theorem noBell_enteringBackspace (sh : Shared D L) : NoBell (enteringBackspace sh) := by
  unfold enteringBackspace
  split
  · nobell_leaf
  · exact noBell_withCom_absorb _ _

theorem noBell_enteringTabInside (sh : Shared D L) : NoBell (enteringTabInside env sh) := by
  unfold enteringTabInside
  repeat' split
  all_goals first
    | exact noBell_withCom_absorb _ _
    | exact noBell_panic _
    | exact noBell_fuel

theorem noBell_enteringDel (sh : Shared D L) : NoBell (enteringDel sh) := by
  unfold enteringDel
  split
  · nobell_leaf
  · exact noBell_withCom_absorb _ _

theorem noBell_enteringShiftLeft (sh : Shared D L) : NoBell (enteringShiftLeft sh) := by
  unfold enteringShiftLeft
  split <;> nobell_leaf

theorem noBell_enteringShiftRight (sh : Shared D L) : NoBell (enteringShiftRight sh) := by
  unfold enteringShiftRight
  split <;> nobell_leaf

theorem noBell_enteringEnter (sh : Shared D L) : NoBell (enteringEnter env sh) := by
  unfold enteringEnter
  split
  · nobell_leaf
  · exact noBell_panic _
  · exact noBell_fuel

theorem noBell_enteringEsc (sh : Shared D L) : NoBell (enteringEsc sh) := by
  unfold enteringEsc
  split <;> nobell_leaf

/-- Ctrl + digit: the failed "add phrase" bells with its message -/
theorem bframe_enteringCtrlDigit (sh : Shared D L) (ev : KeyEvent)
    (hk : (isDigitCode ev.code && ev.mods.ctrl) = true) :
    BFrame (BellP env .entering sh ev) sh (enteringCtrlDigit env sh ev.code) := by
  have hn : bellMayNotify .entering ev = true := by simpa [bellMayNotify] using hk
  have hP : ∀ msg, (msg = Shared.msgFail ∨ ∃ p, msg = Shared.msgExists p) → BellP env .entering sh ev sh.syl msg :=
    fun msg hm => ⟨Or.inl rfl, Or.inr ⟨hn, hm⟩⟩
  unfold enteringCtrlDigit
  repeat' (first | split | (dsimp only; split))
  all_goals first
    | exact bframe_learnTrans env _ _ _ hP
    | exact .of_noBell (noBell_openSymbol env _)
    | bframe_leaf (⟨rfl, hP _ (Or.inl rfl)⟩ : Near (BellP env .entering sh ev) sh { sh with noticeBuf := Shared.msgFail })

/-- **`Entering`.**  A bell returns the shared state it was given, up to the layout's state after a rejected key
    (Chinese mode, no modifiers) and the message of a failed Ctrl-digit "add phrase". -/
theorem bframe_enteringNext (sh : Shared D L) (ev : KeyEvent) :
    BFrame (BellP env .entering sh ev) sh (enteringNext env sh ev) := by
  have h0 := near_self env .entering sh ev
  unfold enteringNext
  refine bframe_ite (.of_noBell (noBell_enteringBackspace _)) ?_
  refine bframe_ite (.of_noBell (by nobell_leaf)) ?_
  by_cases hk : (isDigitCode ev.code && ev.mods.ctrl) = true
  · rw [if_pos hk]; exact bframe_enteringCtrlDigit env sh ev hk
  · rw [if_neg hk]
    repeat' (with_reducible apply bframe_ite)
    all_goals first
      | exact .of_noBell (noBell_enteringTabInside env _)
      | exact .of_noBell (noBell_enteringDel _)
      | exact .of_noBell (noBell_enteringShiftLeft _)
      | exact .of_noBell (noBell_enteringShiftRight _)
      | exact .of_noBell (noBell_enteringEnter env _)
      | exact .of_noBell (noBell_enteringEsc _)
      | exact .of_noBell (noBell_commitOrInsert _ _)
      | exact .of_noBell (noBell_startSelecting env _)
      | exact .of_noBell (noBell_startSelectingOrInputSpace env _)
      | exact bframe_enteringDefault env _ _
      | exact .of_noBell (by nobell_leaf)

/-! ### `EnteringSyllable` -/

theorem rejected_syllable {b : LayoutBeh} (h1 : b ≠ .absorb) (h2 : b ≠ .commit) (h3 : ∀ s, b ≠ .fuzzy s) :
    rejected .enteringSyllable b = true := by
  cases b <;> simp_all [rejected]

/-- the layout's answer is dealt with: only an answer other than absorb / commit / fuzzy ends in a bell, and the
    shared state is then the one handed in -/
theorem bell_syllableAnswer (sh : Shared D L) (beh : LayoutBeh) (sh' : Shared D L) (t : Trans)
    (h : syllableAnswer env sh beh = .ok (sh', t)) (hb : t = .spin .bell) :
    sh' = sh ∧ rejected .enteringSyllable beh = true := by
  subst hb
  unfold syllableAnswer at h
  cases beh with
  | absorb => simp only at h; split at h <;> (injection h with h; injection h with h1 h2; cases h2)
  | fuzzy s =>
    simp only at h
    split at h
    · exact absurd rfl (noBell_withCom_absorb _ _ _ _ h)
    · injection h with h; injection h with h1 h2; cases h2
  | commit =>
    simp only at h
    split at h
    · unfold withCom at h
      split at h
      · dsimp only at h
        split at h
        · exact absurd rfl (noBell_newPhraseSimple _ _ _ h)
        · injection h with h; injection h with h1 h2; cases h2
      · cases h
      · cases h
    · injection h with h; injection h with h1 h2; cases h2
  | ignore => simp only at h; injection h with h; injection h with h1 h2; exact ⟨h1.symm, rfl⟩
  | keyError => simp only at h; injection h with h; injection h with h1 h2; exact ⟨h1.symm, rfl⟩
  | error => simp only at h; injection h with h; injection h with h1 h2; exact ⟨h1.symm, rfl⟩
  | noWord => simp only at h; injection h with h; injection h with h1 h2; exact ⟨h1.symm, rfl⟩
  | openSymbolTable => simp only at h; injection h with h; injection h with h1 h2; exact ⟨h1.symm, rfl⟩

/-- **`EnteringSyllable`.**  A bell = the layout rejected the key; the shared state is the one handed in with the
    layout's state after that key. -/
theorem bframe_enteringSyllableNext (sh : Shared D L) (ev : KeyEvent) :
    BFrame (BellP env .enteringSyllable sh ev) sh (enteringSyllableNext env sh ev) := by
  unfold enteringSyllableNext
  split
  · split <;> exact .of_noBell (by nobell_leaf)
  split
  · exact .of_noBell (by nobell_leaf)
  split
  · split <;> exact .of_noBell (by nobell_leaf)
  split
  · next hs =>
    intro sh' t h hb
    obtain ⟨rfl, hr⟩ := bell_syllableAnswer env _ _ _ _ h hb
    have ha : layoutAnswer env .enteringSyllable sh ev = env.fuzzyKeyPress sh.syl ev := by
      simp only [layoutAnswer, hs]
    exact ⟨rfl, Or.inr ⟨rfl, by rw [ha]; exact hr, by rw [ha]⟩, Or.inl rfl⟩
  · next hs =>
    intro sh' t h hb
    obtain ⟨rfl, hr⟩ := bell_syllableAnswer env _ _ _ _ h hb
    have ha : layoutAnswer env .enteringSyllable sh ev = env.keyPress sh.syl ev := by
      simp only [layoutAnswer, hs]
    exact ⟨rfl, Or.inr ⟨rfl, by rw [ha]; exact hr, by rw [ha]⟩, Or.inl rfl⟩

/-! ### `Selecting`: a bell returns the shared state and the `Selecting` value themselves -/

def BSel (sh0 : Shared D L) (s0 : Selecting) (r : Outcome (SelRes D L)) : Prop :=
  ∀ x, r = .ok x → x.trans = .spin .bell → x.shared = sh0 ∧ x.sel = s0

macro "bsel_leaf" : tactic =>
  `(tactic| (intro x h hb; injection h with h; subst h; first | (cases hb; done) | exact ⟨rfl, rfl⟩))

theorem bsel_ite {sh0 : Shared D L} {s0 : Selecting} {c : Prop} [Decidable c] {a b : Outcome (SelRes D L)}
    (h1 : BSel sh0 s0 a) (h2 : BSel sh0 s0 b) : BSel sh0 s0 (if c then a else b) := by
  split <;> assumption

theorem bsel_panic (sh0 : Shared D L) (s0 : Selecting) (p : String) : BSel sh0 s0 (.panic p) := by
  intro x h; cases h

theorem bsel_fuel (sh0 : Shared D L) (s0 : Selecting) : BSel sh0 s0 .outOfFuel := by
  intro x h; cases h

theorem bsel_selDownSpace (s : Selecting) (sh : Shared D L) : BSel sh s (selDownSpace env s sh) := by
  unfold selDownSpace
  repeat' split
  all_goals first
    | exact bsel_panic _ _ _
    | exact bsel_fuel _ _
    | bsel_leaf

theorem bsel_closeIfEmpty (sh0 : Shared D L) (s0 : Selecting) (r : SelRes D L) (hr : r.trans = .spin .absorb) :
    BSel sh0 s0 (closeIfEmpty env r) := by
  intro x h hb
  rcases closeIfEmpty_cases env h with rfl | rfl
  · rw [hr] at hb; cases hb
  · cases hb

theorem bsel_selMove (s : Selecting) (sh : Shared D L) (isJ : Bool) : BSel sh s (selMove env s sh isJ) := by
  unfold selMove
  repeat' (first | split | (dsimp only; split))
  all_goals first
    | exact bsel_panic _ _ _
    | exact bsel_fuel _ _
    | exact bsel_closeIfEmpty env _ _ _ rfl
    | bsel_leaf

theorem bsel_selPrevPage (s : Selecting) (sh : Shared D L) : BSel sh s (selPrevPage env s sh) := by
  unfold selPrevPage
  repeat' split
  all_goals first
    | exact bsel_panic _ _ _
    | exact bsel_fuel _ _
    | bsel_leaf

theorem bsel_selNextPage (s : Selecting) (sh : Shared D L) : BSel sh s (selNextPage env s sh) := by
  unfold selNextPage
  repeat' split
  all_goals first
    | exact bsel_panic _ _ _
    | exact bsel_fuel _ _
    | bsel_leaf

theorem bsel_selDigit (s : Selecting) (sh : Shared D L) (c : Nat) : BSel sh s (selDigit env s sh c) := by
  unfold selDigit
  split
  · rename_i s' sh' t hq
    have h := (select_frame env s sh (c - 1)).elim hq
    simp only at h
    intro x hx hb; injection hx with hx; subst hx
    exact h.2 hb
  · exact bsel_panic _ _ _
  · exact bsel_fuel _ _

/-- **`Selecting`.**  A bell (Ctrl / Shift with any key, a digit without a candidate, any key without a
    function) changes neither the shared state nor the list: same selector, same range, same page. -/
theorem bsel_selectingNext (s : Selecting) (sh : Shared D L) (ev : KeyEvent) :
    BSel sh s (selectingNext env s sh ev) := by
  unfold selectingNext
  repeat' (with_reducible apply bsel_ite)
  all_goals first
    | exact bsel_selDownSpace env _ _
    | exact bsel_selMove env _ _ _
    | exact bsel_selPrevPage env _ _
    | exact bsel_selNextPage env _ _
    | exact bsel_selDigit env _ _ _
    | bsel_leaf

end Chewing
