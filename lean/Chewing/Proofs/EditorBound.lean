import Chewing.Proofs.EditorCursor
/-!
Helper lemmas for C05 `bounded_after_key`:

* the arithmetic of the auto-commit loop (`Shared.autoCommitTake`) by induction over the interval
  list: when the intervals are well formed and their lengths sum to the buffer length, the loop never
  panics and removes `n ≤ len` symbols with `len - n ≤ threshold`;
* in `Entering`, an arm that reports *commit* leaves the pre-edit empty, and an arm that switches to
  another state leaves symbols, gaps and selections untouched.
-/
namespace Chewing

/-- the intervals are well formed (`start ≤ end`) and their lengths sum to `n` — what a tiling of
    `0..n` gives (C03); contiguity is not needed for the length bound -/
def TilesLen (ivs : List Interval) (n : Nat) : Prop :=
  (∀ iv ∈ ivs, iv.start ≤ iv.stop) ∧ (ivs.map Interval.len).sum = n

/-- **the auto-commit loop**: from `remove = r` with the remaining intervals summing to `len - r`, the
    loop returns (no panic) some `r' ≤ len` with `len - r' ≤ threshold` -/
theorem autoCommitTake_bound (len thr : Nat) : ∀ (ivs : List Interval) (buf : Text) (r : Nat),
    (∀ iv ∈ ivs, iv.start ≤ iv.stop) → r + (ivs.map Interval.len).sum = len →
    ∃ buf' r', Shared.autoCommitTake len thr ivs buf r = .ok (buf', r') ∧ r ≤ r' ∧ r' ≤ len ∧ len - r' ≤ thr := by
  intro ivs
  induction ivs with
  | nil =>
    intro buf r _ hsum
    simp only [List.map_nil, List.sum_nil, Nat.add_zero] at hsum
    exact ⟨buf, r, rfl, Nat.le_refl _, by omega, by omega⟩
  | cons iv rest ih =>
    intro buf r hwf hsum
    simp only [List.map_cons, List.sum_cons] at hsum
    have hiv : iv.start ≤ iv.stop := hwf iv (List.mem_cons_self ..)
    unfold Shared.autoCommitTake
    rw [if_neg (by omega)]
    dsimp only
    rw [if_neg (by omega)]
    split
    · next hle => exact ⟨_, _, rfl, by omega, by omega, hle⟩
    · next hgt =>
      obtain ⟨buf', r', h1, h2, h3, h4⟩ :=
        ih (buf ++ iv.text) (r + iv.len) (fun x hx => hwf x (List.mem_cons_of_mem _ hx)) (by omega)
      exact ⟨buf', r', h1, by omega, h3, h4⟩

variable {D L : Type} (env : Env D L)

/-- `SharedState::conversion` returns one of the alternatives of the engine -/
theorem conversion_mem {sh : Shared D L} {ivs : List Interval} (h : Shared.conversion env sh = .ok ivs) :
    ∃ paths, env.convert sh.engine sh.dict sh.com.inner = .ok paths ∧ ivs ∈ paths := by
  unfold Shared.conversion at h
  split at h
  · rename_i paths hp
    refine ⟨paths, hp, ?_⟩
    split at h
    · split at h
      · cases h
      · split at h
        · rename_i p hq; cases h; exact List.mem_of_getElem? hq
        · cases h
    · split at h
      · rename_i p hq; cases h; exact List.mem_of_mem_head? hq
      · cases h
  · cases h
  · cases h

/-! ### `Entering`: *commit* ⇒ empty pre-edit; state switch ⇒ composition untouched -/

def CStep (sh0 : Shared D L) (r : StepRes D L) : Prop :=
  ∀ sh' t, r = .ok (sh', t) →
    (t = .spin .commit → sh'.com.isEmpty = true) ∧ (∀ s, t = .toState s → sh'.com.inner = sh0.com.inner)

/-- closes `CStep sh0 (.ok (x, t))` for a concrete `t` that is neither *commit* nor a state switch that
    changed the composition -/
macro "cstep_leaf" : tactic =>
  `(tactic| (intro sh' t h; injection h with h; injection h with h1 h2; subst h1 h2;
             exact ⟨fun c => (by cases c), fun s c => (by cases c <;> rfl)⟩))

theorem cstep_ite {sh0 : Shared D L} {c : Prop} [Decidable c] {a b : StepRes D L}
    (h1 : CStep sh0 a) (h2 : CStep sh0 b) : CStep sh0 (if c then a else b) := by
  split <;> assumption

theorem cstep_panic (sh0 : Shared D L) (p : String) : CStep sh0 (.panic p) := by
  intro sh' t h; cases h

theorem cstep_fuel (sh0 : Shared D L) : CStep sh0 .outOfFuel := by
  intro sh' t h; cases h

theorem cstep_withCom_absorb (sh0 sh : Shared D L) (r : Outcome CompEditor) :
    CStep sh0 (withCom sh r fun sh => .ok (sh, .spin .absorb)) := by
  unfold withCom
  cases r with
  | ok c => cstep_leaf
  | panic p => exact cstep_panic _ p
  | outOfFuel => exact cstep_fuel _

theorem cstep_commitOrInsert (sh0 sh : Shared D L) (ch : Nat) : CStep sh0 (commitOrInsert sh ch) := by
  unfold commitOrInsert
  split
  · next he =>
    intro sh' t h; injection h with h; injection h with h1 h2; subst h1 h2
    exact ⟨fun _ => he, fun s c => (by cases c)⟩
  · exact cstep_withCom_absorb _ _ _

theorem cstep_inputChar (sh0 sh : Shared D L) (ev : KeyEvent) : CStep sh0 (inputChar sh ev) := by
  unfold inputChar fullOrBell
  repeat' split
  all_goals first
    | exact cstep_commitOrInsert _ _ _
    | cstep_leaf

theorem cstep_chineseFallback (sh0 sh : Shared D L) (ev : KeyEvent) : CStep sh0 (chineseFallback sh ev) := by
  unfold chineseFallback
  repeat' split
  all_goals first
    | exact cstep_withCom_absorb _ _ _
    | exact cstep_inputChar _ _ _
    | cstep_leaf

theorem clampCursor_inner (c : CompEditor) : c.clampCursor.inner = c.inner := by
  unfold CompEditor.clampCursor; split <;> rfl

theorem cstep_newPhrase (sh : Shared D L) : CStep sh (newPhrase env sh) := by
  unfold newPhrase
  simp only
  split
  · intro sh' t h; injection h with h; injection h with h1 h2; subst h1 h2
    exact ⟨fun c => (by cases c), fun s _ => clampCursor_inner _⟩
  · exact cstep_panic _ _
  · exact cstep_fuel _

theorem cstep_openPhrase (sh : Shared D L) : CStep sh (openPhrase env sh) := by
  intro sh' t h
  rcases openPhrase_cases env h with ⟨h1, _⟩ | ⟨rfl, _⟩
  · exact cstep_newPhrase env sh sh' t h1
  · exact ⟨fun c => (by cases c), fun s c => (by cases c)⟩

theorem cstep_newSpecialSymbol (sh : Shared D L) (sym : Sym) : CStep sh (newSpecialSymbol sh sym) := by
  unfold newSpecialSymbol
  simp only
  split
  · intro sh' t h; injection h with h; injection h with h1 h2; subst h1 h2
    exact ⟨fun c => (by cases c), fun s _ => clampCursor_inner _⟩
  · intro sh' t h; injection h with h; injection h with h1 h2; subst h1 h2
    exact ⟨fun c => (by cases c), fun s _ => clampCursor_inner _⟩
  · exact cstep_panic _ _
  · exact cstep_fuel _

theorem cstep_openSymbol (sh : Shared D L) : CStep sh (openSymbol env sh) := by
  intro sh' t h
  obtain ⟨rfl, rfl | rfl⟩ := openSymbol_cases env h
  · exact ⟨fun c => (by cases c), fun s _ => rfl⟩
  · exact ⟨fun c => (by cases c), fun s c => (by cases c)⟩

theorem cstep_openSpecialSymbol (sh : Shared D L) (sym : Sym) : CStep sh (openSpecialSymbol env sh sym) := by
  intro sh' t h
  rcases openSpecialSymbol_cases env h with ⟨h1, _⟩ | ⟨rfl, _⟩
  · exact cstep_newSpecialSymbol sh sym sh' t h1
  · exact ⟨fun c => (by cases c), fun s c => (by cases c)⟩

theorem cstep_startSelecting (sh : Shared D L) : CStep sh (startSelecting env sh) := by
  unfold startSelecting
  repeat' split
  all_goals first
    | exact cstep_openPhrase env _
    | exact cstep_openSpecialSymbol env _ _
    | cstep_leaf

theorem cstep_startSelectingOrInputSpace (sh : Shared D L) : CStep sh (startSelectingOrInputSpace env sh) := by
  unfold startSelectingOrInputSpace
  split
  · split
    · exact cstep_openPhrase env _
    · exact cstep_openSpecialSymbol env _ _
  · split
    · next he =>
      intro sh' t h; injection h with h; injection h with h1 h2; subst h1 h2
      exact ⟨fun _ => he, fun s c => (by cases c)⟩
    · cstep_leaf

theorem cstep_learnTrans (sh0 : Shared D L) (r : Outcome (Shared D L × Bool)) : CStep sh0 (learnTrans r) := by
  unfold learnTrans
  split
  · rename_i sh1 okk
    cases okk <;> cstep_leaf
  · exact cstep_panic _ _
  · exact cstep_fuel _

theorem cstep_enteringDefault (sh : Shared D L) (ev : KeyEvent) : CStep sh (enteringDefault env sh ev) := by
  unfold enteringDefault
  repeat' split
  all_goals first
    | exact cstep_withCom_absorb _ _ _
    | exact cstep_inputChar _ _ _
    | exact cstep_chineseFallback _ _ _
    | exact cstep_openSymbol env _
    | cstep_leaf

theorem cstep_enteringCtrlDigit (sh : Shared D L) (c : Nat) : CStep sh (enteringCtrlDigit env sh c) := by
  unfold enteringCtrlDigit
  repeat' (first | split | (dsimp only; split))
  all_goals first
    | exact cstep_learnTrans _ _
    | exact cstep_openSymbol env _
    | cstep_leaf

theorem cstep_enteringTabInside (sh : Shared D L) : CStep sh (enteringTabInside env sh) := by
  unfold enteringTabInside
  repeat' split
  all_goals first
    | exact cstep_withCom_absorb _ _ _
    | exact cstep_panic _ _
    | exact cstep_fuel _

theorem cstep_enteringEnter (sh : Shared D L) : CStep sh (enteringEnter env sh) := by
  unfold enteringEnter
  split
  · rename_i sh1 hq
    have hc := (commit_com env sh).elim hq
    intro sh' t h; injection h with h; injection h with h1 h2; subst h1 h2
    exact ⟨fun _ => by rw [hc]; rfl, fun s c => (by cases c)⟩
  · exact cstep_panic _ _
  · exact cstep_fuel _

/-- `Entering::next`: *commit* ⇒ the pre-edit is empty afterwards; a state switch leaves symbols, gaps
    and selections untouched -/
theorem cstep_enteringNext (sh : Shared D L) (ev : KeyEvent) : CStep sh (enteringNext env sh ev) := by
  unfold enteringNext
  repeat' (with_reducible apply cstep_ite)
  all_goals first
    | exact cstep_enteringCtrlDigit env _ _
    | exact cstep_enteringTabInside env _
    | exact cstep_enteringEnter env _
    | exact cstep_commitOrInsert _ _ _
    | exact cstep_enteringDefault env _ _
    | exact cstep_startSelecting env _
    | exact cstep_startSelectingOrInputSpace env _
    | (unfold enteringBackspace; split <;> first | cstep_leaf | exact cstep_withCom_absorb _ _ _)
    | (unfold enteringDel; split <;> first | cstep_leaf | exact cstep_withCom_absorb _ _ _)
    | (unfold enteringShiftLeft; split <;> cstep_leaf)
    | (unfold enteringShiftRight; split <;> cstep_leaf)
    | (unfold enteringEsc; split <;> cstep_leaf)
    | cstep_leaf

end Chewing
