import Chewing.Props.C05
/-!
# C04 at the editor level, part 1: what one step of the editor may do to the user's choices and breaks

`Proofs/EditorCursor.lean` (C05) shows that the editor touches its pre-edit buffer only through
`CompositionEditor` methods (`Reach`).  For C04 that is not enough: to say *which keys edit inside a
choice* one has to know which methods a key calls, and where.  This file refines `Reach`:

* `Edit` — the editing calls a step can make (insert symbols at the cursor, Backspace, Delete, glue /
  break at the cursor, clear, choose a candidate for a range, replace the symbol at the cursor), `editOps`
  — the `Composition` calls they are, positions taken from the PRE-state's cursor;
* `Did ks c0 c'` — the composition of `c'` results from that of `c0` by one edit of a kind in `ks`
  (cursor movements, cursor save / restore aside: they do not touch the composition);
* generic consequences, for every `Composition` with C04's invariant: a choice that the edit's kind does not
  edit inside (`kindEdits`, decidable, on the pre-state) is `Carried` — present afterwards with its text,
  over the same symbols (`did_selection`); a break that the kind does not touch (`kindTouches`) is still a
  break at its shifted position (`did_break`); and the same for the `remove_front` of an auto-commit.

`Proofs/EditorChoiceKeys.lean` / `EditorChoiceSel.lean` then show, arm by arm, which kinds every key
of every state and every other public operation can perform (`EStep`).
-/
namespace Chewing.C04
open Chewing

/-! ## Symbol frames, pointwise -/

theorem insertAt_getElem? {α : Type} (l : List α) (i j : Nat) (x : α) (h : i ≤ l.length) :
    (insertAt l i x)[j]? = if j < i then l[j]? else if j = i then some x else l[j - 1]? := by
  simp only [insertAt]
  grind

theorem symbols_after_insert {c : Composition} {i : Nat} {x : Sym} {c' : Composition} (h : c.insert i x = .ok c') (j : Nat) :
    c'.symbols[j]? = if j < i then c.symbols[j]? else if j = i then some x else c.symbols[j - 1]? := by
  obtain ⟨_, hi, rfl⟩ := insert_ok.mp h
  exact insertAt_getElem? c.symbols i j x hi

theorem symbols_after_remove {c : Composition} {i : Nat} {c' : Composition} (h : c.remove i = .ok c') (j : Nat) :
    c'.symbols[j]? = if j < i then c.symbols[j]? else c.symbols[j + 1]? := by
  obtain ⟨_, hi, _, rfl⟩ := remove_ok.mp h
  grind

theorem symbols_after_removeFront {c : Composition} {n : Nat} {c' : Composition} (h : c.removeFront n = .ok c') (j : Nat) :
    c'.symbols[j]? = c.symbols[n + j]? := by
  obtain ⟨_, hi, _, rfl⟩ := removeFront_ok.mp h
  simp

theorem symbols_after_replace {c : Composition} {i : Nat} {x : Sym} {c' : Composition} (h : c.replace i x = .ok c') (j : Nat) :
    c'.symbols[j]? = if j = i then some x else c.symbols[j]? := by
  obtain ⟨_, hi, rfl⟩ := replace_ok.mp h
  grind

/-! ## A choice carried from one composition to another -/

/-- the choice `t` of `c'` is the choice `s` of `c`: same text, same kind, same length, over the same symbols
    (wherever the range has moved to) -/
structure Carried (c c' : Composition) (s t : Interval) : Prop where
  text : t.text = s.text
  phrase : t.isPhrase = s.isPhrase
  len : t.stop - t.start = s.stop - s.start
  syms : ∀ j, j < s.stop - s.start → c'.symbols[t.start + j]? = c.symbols[s.start + j]?

theorem Carried.refl (c : Composition) (s : Interval) : Carried c c s s := ⟨rfl, rfl, rfl, fun _ _ => rfl⟩

theorem Carried.trans {c1 c2 c3 : Composition} {s t u : Interval} (h1 : Carried c1 c2 s t) (h2 : Carried c2 c3 t u) :
    Carried c1 c3 s u :=
  ⟨h2.text.trans h1.text, h2.phrase.trans h1.phrase, h2.len.trans h1.len,
   fun j hj => (h2.syms j (by rw [h1.len]; exact hj)).trans (h1.syms j hj)⟩

/-- **one `Composition` call**: a choice it does not edit inside (`EditsInside`: including a `replace` of a
    symbol under the choice, which the code does not drop) is carried to `shift c op s` -/
theorem carried_op {c : Composition} (hc : CompInv c) (op : CompOp) {c' : Composition} (h : c.apply op = .ok c')
    {s : Interval} (hs : s ∈ c.selections) (hn : ¬ EditsInside c op s) :
    shift c op s ∈ c'.selections ∧ Carried c c' s (shift c op s) := by
  refine ⟨selection_survives c op s hs hn c' h, ?_⟩
  have h1 := hc.sel_nonempty s hs
  have h2 := hc.sel_in s hs
  cases op with
  | insert i x =>
    have hsym := symbols_after_insert h
    simp only [EditsInside, Drops] at hn
    refine ⟨(shift_text _ _ _).1, (shift_text _ _ _).2, ?_, ?_⟩
    · simp only [shift]; split <;> simp [Interval.shiftUp]
    · intro j hj
      have ht : (shift c (.insert i x) s).start = if s.start ≥ i then s.start + 1 else s.start := by
        simp only [shift]; split <;> rfl
      rw [hsym, ht]
      by_cases hge : s.start ≥ i
      · rw [if_pos hge, if_neg (by omega), if_neg (by omega)]
        congr 1; omega
      · rw [if_neg hge, if_pos (by omega)]
  | push x =>
    obtain ⟨e1, _⟩ := shift_push_of_inv hc x s hs
    rw [e1]
    refine ⟨rfl, rfl, rfl, ?_⟩
    intro j hj
    rw [symbols_after_insert (push_ok.mp h), if_pos (by omega)]
  | remove i =>
    have hsym := symbols_after_remove h
    simp only [EditsInside, Drops] at hn
    refine ⟨(shift_text _ _ _).1, (shift_text _ _ _).2, ?_, ?_⟩
    · simp only [shift]; split <;> simp [Interval.shiftDown]; omega
    · intro j hj
      have ht : (shift c (.remove i) s).start = if s.start ≤ i then s.start else s.start - 1 := by
        simp only [shift]; split <;> rfl
      rw [hsym, ht]
      by_cases hle : s.start ≤ i
      · rw [if_pos hle, if_pos (by omega)]
      · rw [if_neg hle, if_neg (by omega)]
        congr 1; omega
  | removeFront n =>
    have hsym := symbols_after_removeFront h
    simp only [EditsInside, Drops] at hn
    refine ⟨(shift_text _ _ _).1, (shift_text _ _ _).2, ?_, ?_⟩
    · simp only [shift, Interval.shiftDown]; omega
    · intro j hj
      rw [hsym]
      simp only [shift, Interval.shiftDown]
      congr 1; omega
  | replace i x =>
    have hsym := symbols_after_replace h
    simp only [EditsInside] at hn
    refine ⟨rfl, rfl, rfl, ?_⟩
    intro j hj
    simp only [shift]
    rw [hsym, if_neg (by omega)]
  | setGap i g =>
    refine ⟨rfl, rfl, rfl, ?_⟩
    intro j _
    simp only [shift]
    rw [setGap_symbols h]
  | pushSelection t =>
    refine ⟨rfl, rfl, rfl, ?_⟩
    intro j _
    simp only [shift]
    rw [pushSelection_symbols h]
  | clear => simp [EditsInside, Drops] at hn

/-! ## The edits a step of the editor can make -/

/-- the editing calls a step can make on the composition editor -/
inductive Edit where
  /-- nothing (cursor movements, cursor save / restore, mode toggles, list navigation, learning, …) -/
  | none
  /-- `insert` of the symbols one after the other, starting at the cursor (a typed symbol or syllable: one;
      an easy-symbol expansion: several) -/
  | ins (xs : List Sym)
  /-- `remove_before_cursor` with the cursor not at the beginning -/
  | bksp
  /-- `remove_after_cursor` -/
  | del
  /-- `insert_glue` / `insert_break` inside the buffer -/
  | glue | brk
  /-- `clear` (Enter / `commit`: everything is committed; Esc with `esc_clear_all_buffer`; `clear()`) -/
  | clear
  /-- `select`: a candidate chosen for a range -/
  | sel (iv : Interval)
  /-- `replace` of the symbol at the cursor (a symbol chosen from a special-symbol list) -/
  | repl (x : Sym)

/-- the kind of an edit (what `keyKinds` lists per key: decidable data of the pre-state and the key) -/
inductive Kind where
  | none | ins | bksp | del | glue | brk | clear
  | sel (b e : Nat)
  | repl
deriving DecidableEq, Repr

def Edit.kind : Edit → Kind
  | .none => .none
  | .ins _ => .ins
  | .bksp => .bksp
  | .del => .del
  | .glue => .glue
  | .brk => .brk
  | .clear => .clear
  | .sel iv => .sel iv.start iv.stop
  | .repl _ => .repl

/-- `insert(p, x₀); insert(p + 1, x₁); …` -/
def insOps (p : Nat) : List Sym → List CompOp
  | [] => []
  | x :: xs => .insert p x :: insOps (p + 1) xs

/-- the `Composition` calls of an edit made in the state `c` -/
def editOps (c : CompEditor) : Edit → List CompOp
  | .none => []
  | .ins xs => insOps c.cursor xs
  | .bksp => [.remove (c.cursor - 1)]
  | .del => [.remove c.cursor]
  | .glue => [.setGap c.cursor .glue]
  | .brk => [.setGap c.cursor .brk]
  | .clear => [.clear]
  | .sel iv => [.pushSelection iv]
  | .repl x => [.replace c.cursor x]

/-- **`c'`'s composition results from `c0`'s by one edit of a kind in `ks`**, made at `c0`'s cursor -/
def Did (ks : List Kind) (c0 c' : CompEditor) : Prop :=
  ∃ ed : Edit, ed.kind ∈ ks ∧ (ed = .bksp → c0.cursor ≠ 0) ∧ c0.inner.run (editOps c0 ed) = .ok c'.inner

theorem Did.mono {ks ks' : List Kind} {c0 c' : CompEditor} (h : Did ks c0 c') (hsub : ∀ k ∈ ks, k ∈ ks') :
    Did ks' c0 c' := by
  obtain ⟨ed, h1, h2, h3⟩ := h
  exact ⟨ed, hsub _ h1, h2, h3⟩

/-- only the composition of the result matters -/
theorem Did.inner {ks : List Kind} {c0 c1 c2 : CompEditor} (h : Did ks c0 c1) (he : c2.inner = c1.inner) :
    Did ks c0 c2 := by
  obtain ⟨ed, h1, h2, h3⟩ := h
  exact ⟨ed, h1, h2, by rw [he]; exact h3⟩

theorem did_none {ks : List Kind} {c0 c' : CompEditor} (hk : Kind.none ∈ ks) (h : c'.inner = c0.inner) : Did ks c0 c' :=
  ⟨.none, hk, (fun e => by cases e), by simp [editOps, Composition.run, h]⟩

theorem did_none_inv {c0 c' : CompEditor} (h : Did [.none] c0 c') : c'.inner = c0.inner := by
  obtain ⟨ed, h1, _, h3⟩ := h
  cases ed <;> simp [Edit.kind] at h1
  simp only [editOps, Composition.run] at h3
  injection h3 with h3
  exact h3.symm

theorem withInner_inner {r : Outcome Composition} {f : Composition → CompEditor} {e' : CompEditor}
    (hf : ∀ c, (f c).inner = c) (h : CompEditor.withInner r f = .ok e') : r = .ok e'.inner := by
  obtain ⟨c, hc, rfl⟩ := withInner_ok h
  rw [hf]; exact hc

theorem did_insert {ks : List Kind} {c0 c' : CompEditor} {x : Sym} (hk : Kind.ins ∈ ks) (h : c0.insert x = .ok c') :
    Did ks c0 c' := by
  refine ⟨.ins [x], hk, (fun e => by cases e), ?_⟩
  have := withInner_inner (fun _ => rfl) h
  simp only [editOps, insOps, Composition.run, Composition.apply, this]

theorem insertChars_run (cs : List Nat) : ∀ (c c' : CompEditor), insertChars c cs = .ok c' →
    c.inner.run (insOps c.cursor (cs.map Sym.chr)) = .ok c'.inner := by
  induction cs with
  | nil => intro c c' h; simp only [insertChars] at h; cases h; rfl
  | cons x xs ih =>
    intro c c' h
    simp only [insertChars] at h
    split at h
    · next c1 h1 =>
      obtain ⟨i1, hi1, rfl⟩ := withInner_ok h1
      have := ih _ c' h
      simp only [List.map_cons, insOps, Composition.run, Composition.apply, hi1]
      exact this
    · cases h
    · cases h

theorem did_insertChars {ks : List Kind} {c0 c' : CompEditor} {cs : List Nat} (hk : Kind.ins ∈ ks)
    (h : insertChars c0 cs = .ok c') : Did ks c0 c' :=
  ⟨.ins (cs.map Sym.chr), hk, (fun e => by cases e), insertChars_run cs c0 c' h⟩

theorem did_removeBefore {ks : List Kind} {c0 c' : CompEditor} (hk0 : Kind.none ∈ ks) (hk : Kind.bksp ∈ ks)
    (h : c0.removeBeforeCursor = .ok c') : Did ks c0 c' := by
  unfold CompEditor.removeBeforeCursor at h
  split at h
  · cases h; exact did_none hk0 rfl
  · next h0 =>
    refine ⟨.bksp, hk, fun _ => h0, ?_⟩
    have := withInner_inner (fun _ => rfl) h
    simp only [editOps, Composition.run, Composition.apply, this]

theorem did_removeAfter {ks : List Kind} {c0 c' : CompEditor} (hk : Kind.del ∈ ks)
    (h : c0.removeAfterCursor = .ok c') : Did ks c0 c' := by
  refine ⟨.del, hk, (fun e => by cases e), ?_⟩
  have := withInner_inner (fun _ => rfl) h
  simp only [editOps, Composition.run, Composition.apply, this]

theorem did_insertGlue {ks : List Kind} {c0 c' : CompEditor} (hk0 : Kind.none ∈ ks) (hk : Kind.glue ∈ ks)
    (h : c0.insertGlue = .ok c') : Did ks c0 c' := by
  unfold CompEditor.insertGlue CompEditor.insertGap at h
  split at h
  · cases h; exact did_none hk0 rfl
  · refine ⟨.glue, hk, (fun e => by cases e), ?_⟩
    have := withInner_inner (fun _ => rfl) h
    simp only [editOps, Composition.run, Composition.apply, this]

theorem did_insertBreak {ks : List Kind} {c0 c' : CompEditor} (hk0 : Kind.none ∈ ks) (hk : Kind.brk ∈ ks)
    (h : c0.insertBreak = .ok c') : Did ks c0 c' := by
  unfold CompEditor.insertBreak CompEditor.insertGap at h
  split at h
  · cases h; exact did_none hk0 rfl
  · refine ⟨.brk, hk, (fun e => by cases e), ?_⟩
    have := withInner_inner (fun _ => rfl) h
    simp only [editOps, Composition.run, Composition.apply, this]

theorem did_clear {ks : List Kind} (c0 : CompEditor) (hk : Kind.clear ∈ ks) : Did ks c0 c0.clear :=
  ⟨.clear, hk, (fun e => by cases e), rfl⟩

theorem did_select {ks : List Kind} {c0 c' : CompEditor} {iv : Interval} (hk : Kind.sel iv.start iv.stop ∈ ks)
    (h : c0.select iv = .ok c') : Did ks c0 c' := by
  unfold CompEditor.select at h
  split at h
  · cases h
  · refine ⟨.sel iv, hk, (fun e => by cases e), ?_⟩
    have := withInner_inner (fun _ => rfl) h
    simp only [editOps, Composition.run, Composition.apply, this]

theorem did_replace {ks : List Kind} {c0 c' : CompEditor} {x : Sym} (hk : Kind.repl ∈ ks)
    (h : c0.replace x = .ok c') : Did ks c0 c' := by
  refine ⟨.repl x, hk, (fun e => by cases e), ?_⟩
  have := withInner_inner (fun _ => rfl) h
  simp only [editOps, Composition.run, Composition.apply, this]

/-! ## Which kinds edit inside a choice / touch a break: decidable, on the pre-state -/

/-- **the edit of kind `k`, made at the cursor of `c`, edits inside the range of the choice `s`** -/
def kindEdits (c : CompEditor) : Kind → Interval → Bool
  | .none, _ => false
  /- typing with the cursor strictly inside the range -/
  | .ins, s => s.start < c.cursor && c.cursor < s.stop
  /- Backspace with the cursor behind a symbol of the range -/
  | .bksp, s => s.start < c.cursor && c.cursor ≤ s.stop
  /- Delete with the cursor on a symbol of the range -/
  | .del, s => s.start ≤ c.cursor && c.cursor < s.stop
  | .glue, _ => false
  /- a break set strictly inside the range -/
  | .brk, s => s.start < c.cursor && c.cursor < s.stop
  | .clear, _ => true
  /- a new choice overlapping the range -/
  | .sel b e, s => s.intersectRange b e
  /- the symbol under the cursor replaced -/
  | .repl, s => s.start ≤ c.cursor && c.cursor < s.stop

/-- **the edit of kind `k`, made at the cursor of `c`, touches the gap `j`** (the gap before symbol `j`) -/
def kindTouches (c : CompEditor) : Kind → Nat → Bool
  | .none, _ => false
  /- typing exactly at the gap -/
  | .ins, j => j == c.cursor
  /- Backspace removing symbol `j` (its gap goes with it), or the first symbol when `j = 1` (gap 1 becomes `Begin`) -/
  | .bksp, j => j + 1 == c.cursor || (c.cursor == 1 && j == 1)
  | .del, j => j == c.cursor || (c.cursor == 0 && j == 1)
  /- Tab at the gap -/
  | .glue, j => j == c.cursor
  | .brk, j => j == c.cursor
  | .clear, _ => true
  /- a new choice spanning the gap -/
  | .sel b e, j => b < j && j < e
  | .repl, j => j == c.cursor

theorem insOps_selection (xs : List Sym) : ∀ (p : Nat) (c c' : Composition) (s : Interval), CompInv c →
    c.run (insOps p xs) = .ok c' → s ∈ c.selections → ¬ (s.start < p ∧ p < s.stop) →
    ∃ t ∈ c'.selections, Carried c c' s t := by
  induction xs with
  | nil =>
    intro p c c' s _ h hs _
    simp only [insOps, Composition.run] at h; cases h
    exact ⟨s, hs, Carried.refl _ _⟩
  | cons x xs ih =>
    intro p c c' s hc h hs hn
    simp only [insOps, Composition.run] at h
    split at h
    · next c1 h1 =>
      have hn' : ¬ EditsInside c (.insert p x) s := by simpa [EditsInside, Drops] using hn
      obtain ⟨m1, m2⟩ := carried_op hc (.insert p x) h1 hs hn'
      have h3 := hc.sel_nonempty s hs
      obtain ⟨t, t1, t2⟩ := ih (p + 1) c1 c' _ (inv_insert hc h1) h m1 (by
        simp only [shift]
        split <;> (try simp only [Interval.shiftUp]) <;> omega)
      exact ⟨t, t1, m2.trans t2⟩
    · cases h
    · cases h

/-- **a choice the edit does not edit inside is carried** -/
theorem did_selection {ks : List Kind} {c0 c' : CompEditor} (hc : CompInv c0.inner) (h : Did ks c0 c')
    {s : Interval} (hs : s ∈ c0.inner.selections) (hn : ∀ k ∈ ks, kindEdits c0 k s = false) :
    ∃ t ∈ c'.inner.selections, Carried c0.inner c'.inner s t := by
  obtain ⟨ed, hk, hb, hr⟩ := h
  have hn := hn _ hk
  have one : ∀ op : CompOp, editOps c0 ed = [op] → ¬ EditsInside c0.inner op s →
      ∃ t ∈ c'.inner.selections, Carried c0.inner c'.inner s t := by
    intro op hop hne
    rw [hop] at hr
    simp only [Composition.run] at hr
    split at hr
    · next c1 h1 =>
      cases hr
      exact ⟨_, (carried_op hc op h1 hs hne).1, (carried_op hc op h1 hs hne).2⟩
    · cases hr
    · cases hr
  have h1 := hc.sel_nonempty s hs
  cases ed with
  | none =>
    simp only [editOps, Composition.run] at hr
    rw [← Outcome.ok.inj hr]
    exact ⟨s, hs, Carried.refl _ _⟩
  | ins xs =>
    simp only [Edit.kind, kindEdits, Bool.and_eq_false_iff, decide_eq_false_iff_not] at hn
    exact insOps_selection xs c0.cursor _ _ s hc hr hs (by omega)
  | bksp =>
    have := hb rfl
    simp only [Edit.kind, kindEdits, Bool.and_eq_false_iff, decide_eq_false_iff_not] at hn
    exact one _ rfl (by simp only [EditsInside, Drops]; omega)
  | del =>
    simp only [Edit.kind, kindEdits, Bool.and_eq_false_iff, decide_eq_false_iff_not] at hn
    exact one _ rfl (by simp only [EditsInside, Drops]; omega)
  | glue => exact one _ rfl (by simp [EditsInside, Drops])
  | brk =>
    simp only [Edit.kind, kindEdits, Bool.and_eq_false_iff, decide_eq_false_iff_not] at hn
    exact one _ rfl (by simp only [EditsInside, Drops]; omega)
  | clear => simp [Edit.kind, kindEdits] at hn
  | sel iv =>
    simp only [Edit.kind, kindEdits] at hn
    exact one _ rfl (by simp only [EditsInside, Drops, Interval.intersect]; rw [hn]; simp)
  | repl x =>
    simp only [Edit.kind, kindEdits, Bool.and_eq_false_iff, decide_eq_false_iff_not] at hn
    exact one _ rfl (by simp only [EditsInside]; omega)

/-! ## Breaks -/

/-- the break before symbol `j` of `c` is the break before symbol `j'` of `c'` (the same symbol) -/
def BreakCarried (c c' : Composition) (j j' : Nat) : Prop :=
  c'.gaps[j']? = some Gap.brk ∧ c'.symbols[j']? = c.symbols[j]?

theorem BreakCarried.trans {c1 c2 c3 : Composition} {j1 j2 j3 : Nat} (h1 : BreakCarried c1 c2 j1 j2)
    (h2 : BreakCarried c2 c3 j2 j3) : BreakCarried c1 c3 j1 j3 := ⟨h2.1, h2.2.trans h1.2⟩

/-- **one `Composition` call**: a break whose gap it does not touch (`gapShift`) is carried -/
theorem break_carried_op {c : Composition} (hc : CompInv c) (op : CompOp) {c' : Composition} (h : c.apply op = .ok c')
    {j j' : Nat} (hg : c.gaps[j]? = some Gap.brk) (hj : gapShift c op j = some j') : BreakCarried c c' j j' := by
  refine ⟨break_survives c op c' hc h j j' hg hj, ?_⟩
  cases op with
  | insert i x =>
    rw [symbols_after_insert h]
    simp only [gapShift] at hj
    grind
  | push x =>
    rw [symbols_after_insert (push_ok.mp h)]
    simp only [gapShift] at hj
    grind
  | remove i =>
    rw [symbols_after_remove h]
    simp only [gapShift] at hj
    grind
  | removeFront n =>
    rw [symbols_after_removeFront h]
    simp only [gapShift] at hj
    grind
  | replace i x =>
    rw [symbols_after_replace h]
    simp only [gapShift] at hj
    grind
  | setGap i g =>
    rw [setGap_symbols h]
    simp only [gapShift] at hj
    grind
  | pushSelection t =>
    rw [pushSelection_symbols h]
    simp only [gapShift] at hj
    grind
  | clear => simp [gapShift] at hj

theorem insOps_break (xs : List Sym) : ∀ (p : Nat) (c c' : Composition) (j : Nat), CompInv c →
    c.run (insOps p xs) = .ok c' → c.gaps[j]? = some Gap.brk → (xs ≠ [] → j ≠ p) →
    ∃ j', BreakCarried c c' j j' := by
  induction xs with
  | nil =>
    intro p c c' j _ h hg _
    simp only [insOps, Composition.run] at h; cases h
    exact ⟨j, hg, rfl⟩
  | cons x xs ih =>
    intro p c c' j hc h hg hne
    have hjp := hne (by simp)
    simp only [insOps, Composition.run] at h
    split at h
    · next c1 h1 =>
      by_cases hlt : j < p
      · have g1 := break_carried_op hc (.insert p x) h1 hg (j' := j) (by simp [gapShift, hlt]; omega)
        obtain ⟨j', a1⟩ := ih (p + 1) c1 c' j (inv_insert hc h1) h g1.1 (fun _ => by omega)
        exact ⟨j', g1.trans a1⟩
      · have g1 := break_carried_op hc (.insert p x) h1 hg (j' := j + 1) (by simp [gapShift, hlt, hjp])
        obtain ⟨j', a1⟩ := ih (p + 1) c1 c' (j + 1) (inv_insert hc h1) h g1.1 (fun _ => by omega)
        exact ⟨j', g1.trans a1⟩
    · cases h
    · cases h

/-- **a break the edit does not touch is still a break**, before the same symbol (at the position it has moved to) -/
theorem did_break {ks : List Kind} {c0 c' : CompEditor} (hc : CompInv c0.inner) (h : Did ks c0 c')
    {j : Nat} (hg : c0.inner.gaps[j]? = some Gap.brk) (hn : ∀ k ∈ ks, kindTouches c0 k j = false) :
    ∃ j', BreakCarried c0.inner c'.inner j j' := by
  obtain ⟨ed, hk, hb, hr⟩ := h
  have hn := hn _ hk
  have one : ∀ op : CompOp, editOps c0 ed = [op] → (∃ j', gapShift c0.inner op j = some j') →
      ∃ j', BreakCarried c0.inner c'.inner j j' := by
    intro op hop ⟨j', hj'⟩
    rw [hop] at hr
    simp only [Composition.run] at hr
    split at hr
    · next c1 h1 =>
      rw [← Outcome.ok.inj hr]
      exact ⟨j', break_carried_op hc op h1 hg hj'⟩
    · cases hr
    · cases hr
  have hj0 : j ≠ 0 := by
    intro e; subst e
    have := (hc.gap_begin 0 _ hg).mpr rfl
    cases this
  cases ed with
  | none =>
    simp only [editOps, Composition.run] at hr
    rw [← Outcome.ok.inj hr]
    exact ⟨j, hg, rfl⟩
  | ins xs =>
    simp only [Edit.kind, kindTouches, beq_eq_false_iff_ne] at hn
    exact insOps_break xs c0.cursor _ _ j hc hr hg (fun _ => hn)
  | bksp =>
    have := hb rfl
    simp only [Edit.kind, kindTouches, Bool.or_eq_false_iff, Bool.and_eq_false_iff, beq_eq_false_iff_ne] at hn
    refine one _ rfl ?_
    simp only [gapShift]
    by_cases h1 : j < c0.cursor - 1
    · exact ⟨j, by rw [if_neg (by omega), if_pos h1]⟩
    · exact ⟨j - 1, by rw [if_neg (by omega), if_neg h1, if_neg (by omega)]⟩
  | del =>
    simp only [Edit.kind, kindTouches, Bool.or_eq_false_iff, Bool.and_eq_false_iff, beq_eq_false_iff_ne] at hn
    refine one _ rfl ?_
    simp only [gapShift]
    by_cases h1 : j < c0.cursor
    · exact ⟨j, by rw [if_neg (by omega), if_pos h1]⟩
    · exact ⟨j - 1, by rw [if_neg (by omega), if_neg h1, if_neg (by omega)]⟩
  | glue =>
    simp only [Edit.kind, kindTouches, beq_eq_false_iff_ne] at hn
    exact one _ rfl ⟨j, by simp [gapShift, hn]⟩
  | brk =>
    simp only [Edit.kind, kindTouches, beq_eq_false_iff_ne] at hn
    exact one _ rfl ⟨j, by simp [gapShift, hn]⟩
  | clear => simp [Edit.kind, kindTouches] at hn
  | sel iv =>
    simp only [Edit.kind, kindTouches, Bool.and_eq_false_iff, decide_eq_false_iff_not] at hn
    exact one _ rfl ⟨j, by simp only [gapShift]; rw [if_neg (by omega)]⟩
  | repl x =>
    simp only [Edit.kind, kindTouches, beq_eq_false_iff_ne] at hn
    exact one _ rfl ⟨j, by simp [gapShift, hn]⟩

/-! ## Results of the arms of the state machine -/

section
variable {D L : Type}

/-- every successful result of an arm of a state's `next` leaves a composition editor that results from `c0` by
    ONE edit of a kind in `ks` (and cursor movements) -/
def EStep (ks : List Kind) (c0 : CompEditor) (r : StepRes D L) : Prop := ∀ sh' t, r = .ok (sh', t) → Did ks c0 sh'.com

/-- the same for the arms of `Selecting::next` -/
def ESel (ks : List Kind) (c0 : CompEditor) (r : Outcome (SelRes D L)) : Prop := ∀ x, r = .ok x → Did ks c0 x.shared.com

theorem EStep.mono {ks ks' : List Kind} {c0 : CompEditor} {r : StepRes D L} (h : EStep ks c0 r)
    (hsub : ∀ k ∈ ks, k ∈ ks') : EStep ks' c0 r := fun sh' t hr => (h sh' t hr).mono hsub

theorem ESel.mono {ks ks' : List Kind} {c0 : CompEditor} {r : Outcome (SelRes D L)} (h : ESel ks c0 r)
    (hsub : ∀ k ∈ ks, k ∈ ks') : ESel ks' c0 r := fun x hr => (h x hr).mono hsub

/-- closes `EStep ks c0 (.ok (x, t))` with a proof of `Did ks c0 x.com` -/
macro "estep_leaf" e:term : tactic =>
  `(tactic| (intro sh' t h; injection h with h; injection h with h1 h2; subst h1 h2; exact $e))

/-- closes `ESel ks c0 (.ok ⟨sh, s, t⟩)` with a proof of `Did ks c0 sh.com` -/
macro "esel_leaf" e:term : tactic =>
  `(tactic| (intro x h; injection h with h; subst h; exact $e))

/-- both branches with the same kinds -/
theorem estep_ite {ks : List Kind} {c0 : CompEditor} {c : Prop} [Decidable c] {a b : StepRes D L}
    (h1 : EStep ks c0 a) (h2 : EStep ks c0 b) : EStep ks c0 (if c then a else b) := by
  split <;> assumption

/-- an `if` chain of arms against the mirrored `if` chain of their kinds -/
theorem estep_ite2 {k1 k2 : List Kind} {c0 : CompEditor} {c : Prop} [Decidable c] {a b : StepRes D L}
    (h1 : EStep k1 c0 a) (h2 : EStep k2 c0 b) : EStep (if c then k1 else k2) c0 (if c then a else b) := by
  split <;> assumption

theorem esel_ite {ks : List Kind} {c0 : CompEditor} {c : Prop} [Decidable c] {a b : Outcome (SelRes D L)}
    (h1 : ESel ks c0 a) (h2 : ESel ks c0 b) : ESel ks c0 (if c then a else b) := by
  split <;> assumption

theorem esel_ite2 {k1 k2 : List Kind} {c0 : CompEditor} {c : Prop} [Decidable c] {a b : Outcome (SelRes D L)}
    (h1 : ESel k1 c0 a) (h2 : ESel k2 c0 b) : ESel (if c then k1 else k2) c0 (if c then a else b) := by
  split <;> assumption

theorem estep_panic (ks : List Kind) (c0 : CompEditor) (p : String) : EStep (D := D) (L := L) ks c0 (.panic p) := by
  intro sh' t h; cases h

theorem estep_fuel (ks : List Kind) (c0 : CompEditor) : EStep (D := D) (L := L) ks c0 .outOfFuel := by
  intro sh' t h; cases h

theorem esel_panic (ks : List Kind) (c0 : CompEditor) (p : String) : ESel (D := D) (L := L) ks c0 (.panic p) := by
  intro x h; cases h

theorem esel_fuel (ks : List Kind) (c0 : CompEditor) : ESel (D := D) (L := L) ks c0 .outOfFuel := by
  intro x h; cases h

theorem estep_withCom {ks : List Kind} {c0 : CompEditor} (sh : Shared D L) (r : Outcome CompEditor)
    (k : Shared D L → StepRes D L) (hk : ∀ c, r = .ok c → EStep ks c0 (k { sh with com := c })) :
    EStep ks c0 (withCom sh r k) := by
  unfold withCom
  cases r with
  | ok c => exact hk c rfl
  | panic p => exact estep_panic _ _ p
  | outOfFuel => exact estep_fuel _ _

/-- `withCom sh r fun sh => .ok (sh, .spin .absorb)`: the edit is the call `r` -/
theorem estep_withCom_absorb {ks : List Kind} {c0 : CompEditor} (sh : Shared D L) (r : Outcome CompEditor)
    (hr : ∀ c, r = .ok c → Did ks c0 c) :
    EStep ks c0 (withCom sh r fun sh => .ok (sh, .spin .absorb)) :=
  estep_withCom sh r _ fun c hc => by estep_leaf (hr c hc)

theorem estep_commitOrInsert (sh : Shared D L) (ch : Nat) : EStep [.none, .ins] sh.com (commitOrInsert sh ch) := by
  unfold commitOrInsert
  split
  · estep_leaf (did_none (by simp) rfl)
  · exact estep_withCom_absorb _ _ fun c h => did_insert (by simp) h

theorem estep_inputChar (sh : Shared D L) (ev : KeyEvent) : EStep [.none, .ins] sh.com (inputChar sh ev) := by
  unfold inputChar fullOrBell
  repeat' split
  all_goals first
    | exact estep_commitOrInsert _ _
    | estep_leaf (did_none (by simp) rfl)

end

end Chewing.C04
