import Chewing.Props.C02
import Chewing.Proofs.ConvDisplay
/-!
A pure list lemma about the auto-commit loop of the editor: a user choice (an interval `t` lying inside
one interval of the conversion, shown with its own text) that the auto-commit reaches — its first
symbol is among the removed ones — is committed WHOLE and the committed text carries the chosen text at
the choice's position.
-/
namespace Chewing.C04
open Chewing Chewing.C02

/-- splitting a chain at the `k`-th interval: the first `k` intervals form a chain from `a` to `a` plus
    their summed length, the others a chain from there to `b` -/
theorem chain_split {a b : Nat} {l : List Interval} (h : Conv.IvChain a b l) (k : Nat) :
    Conv.IvChain a (a + sumLen (l.take k)) (l.take k) ∧ Conv.IvChain (a + sumLen (l.take k)) b (l.drop k) := by
  induction l generalizing a k with
  | nil => simp only [List.take_nil, List.drop_nil, sumLen, Nat.add_zero]; exact ⟨rfl, h⟩
  | cons x r ih =>
    cases k with
    | zero => simp only [List.take_zero, List.drop_zero, sumLen, Nat.add_zero]; exact ⟨rfl, h⟩
    | succ k =>
      obtain ⟨h1, h2, h3⟩ := h
      obtain ⟨i1, i2⟩ := ih h3 k
      have e : a + sumLen ((x :: r).take (k + 1)) = x.stop + sumLen (r.take k) := by
        simp only [List.take_succ_cons, sumLen, Interval.len]; omega
      rw [e]
      exact ⟨⟨h1, h2, i1⟩, i2⟩

/-- the first `k` intervals of a chain from 0 form a chain from 0 to their summed length -/
theorem chain_take {len : Nat} {ivs : List Interval} (h : Conv.IvChain 0 len ivs) (k : Nat) :
    Conv.IvChain 0 (sumLen (ivs.take k)) (ivs.take k) ∧ Conv.IvChain (sumLen (ivs.take k)) len (ivs.drop k) := by
  have := chain_split h k
  rwa [Nat.zero_add] at this

/-- **a choice reached by the auto-commit is committed whole, with its text** -/
theorem committed_choice {len : Nat} {ivs : List Interval} (hchain : Conv.IvChain 0 len ivs)
    (hlen : ∀ iv ∈ ivs, iv.text.length = iv.stop - iv.start)
    {thr : Nat} {buf : Text} {n : Nat} (hpre : thr < len)
    (htake : Shared.autoCommitTake len thr ivs [] 0 = .ok (buf, n))
    {t : Interval} (hne : t.start < t.stop)
    (hwhole : ∃ iv ∈ ivs, iv.start ≤ t.start ∧ t.stop ≤ iv.stop)
    (hshown : Conv.textAt ivs t.start t.stop = t.text)
    (hreach : t.start < n) :
    t.stop ≤ n ∧ (buf.drop t.start).take (t.stop - t.start) = t.text := by
  obtain ⟨k, _, _, hbuf, hn, _⟩ := C02.auto_commit_take len thr ivs buf n hpre htake
  obtain ⟨hP, hR⟩ := chain_take hchain k
  rw [← hn] at hP hR
  obtain ⟨iv, hm, h1, h2⟩ := hwhole
  -- the interval containing the choice is among the committed ones
  have hstop : t.stop ≤ n := by
    rw [← List.take_append_drop k ivs] at hm
    rcases List.mem_append.mp hm with hm | hm
    · have := (hP.mem_bounds hm).2.2
      omega
    · have := (hR.mem_bounds hm).1
      omega
  refine ⟨hstop, ?_⟩
  have hPl : (Conv.display (ivs.take k)).length = n := by
    have := Conv.display_length hP (fun iv hm => hlen iv (List.mem_of_mem_take hm))
    omega
  have hb : buf = Conv.display (ivs.take k) := hbuf
  have hd : Conv.display ivs = Conv.display (ivs.take k) ++ Conv.display (ivs.drop k) := by
    simp only [Conv.display, ← List.flatMap_append, List.take_append_drop]
  rw [← hshown, hb]
  unfold Conv.textAt
  rw [hd, List.drop_append_of_le_length (by omega), List.take_append_of_le_length]
  rw [List.length_drop]
  omega

end Chewing.C04
