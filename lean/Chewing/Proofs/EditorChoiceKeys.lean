import Chewing.Proofs.EditorChoice
/-!
# C04 at the editor level, part 2: which keys of `Entering` / `EnteringSyllable` edit the buffer, and how

`Proofs/EditorCursor.lean` shows arm by arm that a key touches the pre-edit buffer only through
`CompositionEditor` methods (`RStep`).  This file is the same development for the finer relation `EStep`
of `Proofs/EditorChoice.lean`: every arm of `Entering::next` / `EnteringSyllable::next` makes at most ONE
edit of the composition, at the cursor of the pre-state, and its kind is read off the key and the pre-state
(`enteringKinds`, `syllableKinds`: the mirror of the `if` chain of the state's `next`).
-/
namespace Chewing.C04
open Chewing

variable {D L : Type} (env : Env D L)

/-! ## cursor save / restore / clamp do not touch the composition -/

private theorem popCursor_inner (e : CompEditor) : e.popCursor.inner = e.inner := by
  unfold CompEditor.popCursor; split <;> rfl

private theorem clampCursor_inner (e : CompEditor) : e.clampCursor.inner = e.inner := by
  unfold CompEditor.clampCursor; split <;> rfl

private theorem pushClamp_inner (e : CompEditor) : e.pushCursor.clampCursor.inner = e.inner := by
  rw [clampCursor_inner]; rfl

private theorem pushClampPop_inner (e : CompEditor) : e.pushCursor.clampCursor.popCursor.inner = e.inner := by
  rw [popCursor_inner, clampCursor_inner]; rfl

/-! ## the arms -/

theorem estep_chineseFallback (sh : Shared D L) (ev : KeyEvent) :
    EStep [.none, .ins] sh.com (chineseFallback sh ev) := by
  unfold chineseFallback
  repeat' split
  all_goals first
    | exact estep_withCom_absorb _ _ fun c h => did_insert (by simp) h
    | exact estep_inputChar _ _
    | estep_leaf (did_none (by simp) rfl)

/-- `new_phrase`: the cursor is saved and clamped -/
theorem estep_newPhrase (sh : Shared D L) : EStep [.none] sh.com (newPhrase env sh) := by
  unfold newPhrase
  simp only
  split
  · estep_leaf (did_none (by simp) (pushClamp_inner _))
  · exact estep_panic _ _ _
  · exact estep_fuel _ _

/-- `new_phrase_for_simple_engine`: the cursor is saved -/
theorem estep_newPhraseSimple (sh : Shared D L) : EStep [.none] sh.com (newPhraseSimple sh) := by
  unfold newPhraseSimple
  simp only
  split
  · estep_leaf (did_none (by simp) rfl)
  · exact estep_panic _ _ _
  · exact estep_fuel _ _

theorem estep_newSpecialSymbol (sh : Shared D L) (sym : Sym) : EStep [.none] sh.com (newSpecialSymbol sh sym) := by
  unfold newSpecialSymbol
  simp only
  split
  · estep_leaf (did_none (by simp) (pushClamp_inner _))
  · estep_leaf (did_none (by simp) (pushClamp_inner _))
  · exact estep_panic _ _ _
  · exact estep_fuel _ _

/-- `open_phrase`: `new_phrase`, or the cursor saved, clamped and restored -/
theorem estep_openPhrase (sh : Shared D L) : EStep [.none] sh.com (openPhrase env sh) := by
  intro sh' t h
  rcases openPhrase_cases env h with ⟨h1, _⟩ | ⟨_, rfl⟩
  · exact estep_newPhrase env sh sh' t h1
  · exact did_none (by simp) (pushClampPop_inner _)

/-- `open_symbol`: the shared state is untouched -/
theorem estep_openSymbol {ks : List Kind} (hk : Kind.none ∈ ks) (sh : Shared D L) :
    EStep ks sh.com (openSymbol env sh) := by
  intro sh' t h
  obtain ⟨rfl, _⟩ := openSymbol_cases env h
  exact did_none hk rfl

/-- `open_special_symbol`: `new_special_symbol`, or the cursor saved, clamped and restored -/
theorem estep_openSpecialSymbol (sh : Shared D L) (sym : Sym) :
    EStep [.none] sh.com (openSpecialSymbol env sh sym) := by
  intro sh' t h
  rcases openSpecialSymbol_cases env h with ⟨h1, _⟩ | ⟨_, rfl⟩
  · exact estep_newSpecialSymbol sh sym sh' t h1
  · exact did_none (by simp) (pushClampPop_inner _)

theorem estep_startSelecting (sh : Shared D L) : EStep [.none] sh.com (startSelecting env sh) := by
  unfold startSelecting
  repeat' split
  all_goals first
    | exact estep_openPhrase env _
    | exact estep_openSpecialSymbol env _ _
    | estep_leaf (did_none (by simp) rfl)

theorem estep_startSelectingOrInputSpace (sh : Shared D L) :
    EStep [.none] sh.com (startSelectingOrInputSpace env sh) := by
  unfold startSelectingOrInputSpace
  repeat' split
  all_goals first
    | exact estep_openPhrase env _
    | exact estep_openSpecialSymbol env _ _
    | estep_leaf (did_none (by simp) rfl)

/-- learning a phrase does not touch the composition editor -/
theorem estep_learnTrans (sh : Shared D L) (a b : Nat) :
    EStep [.none] sh.com (learnTrans (Shared.learnInRangeNotify env sh a b)) := by
  unfold learnTrans
  split
  · rename_i sh1 okk hq
    have hc := (learnInRangeNotify_com env sh a b).elim hq
    intro sh' t h; injection h with h; injection h with h1 h2; subst h1
    exact did_none (by simp) (by rw [hc])
  · exact estep_panic _ _ _
  · exact estep_fuel _ _

theorem estep_enteringDefault (sh : Shared D L) (ev : KeyEvent) :
    EStep [.none, .ins] sh.com (enteringDefault env sh ev) := by
  unfold enteringDefault
  repeat' split
  all_goals first
    | exact estep_withCom_absorb _ _ fun c h => did_insert (by simp) h
    | exact estep_withCom_absorb _ _ fun c h => did_insertChars (by simp) h
    | exact estep_inputChar _ _
    | exact estep_chineseFallback _ _
    | exact estep_chineseFallback { sh with syl := (env.keyPress sh.syl ev).2 } ev
    | exact estep_openSymbol env (by simp) _
    | estep_leaf (did_none (by simp) rfl)

theorem estep_enteringBackspace (sh : Shared D L) : EStep [.none, .bksp] sh.com (enteringBackspace sh) := by
  unfold enteringBackspace
  split
  · estep_leaf (did_none (by simp) rfl)
  · exact estep_withCom_absorb _ _ fun c h => did_removeBefore (by simp) (by simp) h

theorem estep_enteringCtrlDigit (sh : Shared D L) (c : Nat) : EStep [.none] sh.com (enteringCtrlDigit env sh c) := by
  unfold enteringCtrlDigit
  repeat' (first | split | (dsimp only; split))
  all_goals first
    | exact estep_learnTrans env _ _ _
    | exact estep_openSymbol env (by simp) _
    | estep_leaf (did_none (by simp) rfl)

theorem estep_enteringTabInside (sh : Shared D L) :
    EStep [.none, .glue, .brk] sh.com (enteringTabInside env sh) := by
  unfold enteringTabInside
  repeat' split
  all_goals first
    | exact estep_withCom_absorb _ _ fun c h => did_insertGlue (by simp) (by simp) h
    | exact estep_withCom_absorb _ _ fun c h => did_insertBreak (by simp) (by simp) h
    | exact estep_panic _ _ _
    | exact estep_fuel _ _

theorem estep_enteringDel (sh : Shared D L) : EStep [.none, .del] sh.com (enteringDel sh) := by
  unfold enteringDel
  split
  · estep_leaf (did_none (by simp) rfl)
  · exact estep_withCom_absorb _ _ fun c h => did_removeAfter (by simp) h

theorem estep_enteringShiftLeft (sh : Shared D L) : EStep [.none] sh.com (enteringShiftLeft sh) := by
  unfold enteringShiftLeft
  split <;> estep_leaf (did_none (by simp) rfl)

theorem estep_enteringShiftRight (sh : Shared D L) : EStep [.none] sh.com (enteringShiftRight sh) := by
  unfold enteringShiftRight
  split <;> estep_leaf (did_none (by simp) rfl)

/-- Enter: `commit` clears the composition editor (learning aside, which does not touch it) -/
theorem estep_enteringEnter (sh : Shared D L) : EStep [.clear] sh.com (enteringEnter env sh) := by
  unfold enteringEnter
  split
  · rename_i sh1 hq
    have hc := (commit_com env sh).elim hq
    intro sh' t h; injection h with h; injection h with h1 h2; subst h1
    rw [hc]; exact did_clear _ (by simp)
  · exact estep_panic _ _ _
  · exact estep_fuel _ _

theorem estep_enteringEsc (sh : Shared D L) : EStep [.none, .clear] sh.com (enteringEsc sh) := by
  unfold enteringEsc
  split
  · estep_leaf (did_clear _ (by simp))
  · estep_leaf (did_none (by simp) rfl)

/-! ## `Entering::next` -/

/-- **which keys of `Entering` edit the buffer, and how**: the kinds of edit the arm of `Entering::next`
    taken by the key `ev` in the state `sh` can perform — the MIRROR of the `if … else if …` chain of
    `enteringNext` (same conditions, same order).  This is the classification that C04's editor-level
    theorems quantify over: a choice (a break) is kept by a key unless one of the kinds listed here for that
    key edits inside it (touches it) — `kindEdits` / `kindTouches`, decidable on the pre-state. -/
def enteringKinds (sh : Shared D L) (ev : KeyEvent) : List Kind :=
  /- Backspace: nothing on the empty buffer / at the beginning, else `remove_before_cursor` -/
  if ev.code == KC.backspace then [.none, .bksp]
  /- CapsLock: language mode -/
  else if ev.code == KC.unknown && ev.mods.capslock then [.none]
  /- Ctrl-digit: symbol table, or add a user phrase -/
  else if isDigitCode ev.code && ev.mods.ctrl then [.none]
  /- a passed-through key on the empty buffer -/
  else if isIdleKey ev.code && sh.com.isEmpty then [.none]
  /- Tab at the end: next alternative of the conversion -/
  else if ev.code == KC.tab && sh.com.isEob then [.none]
  /- Tab inside: glue at an interval end, otherwise break -/
  else if ev.code == KC.tab then [.none, .glue, .brk]
  /- Delete: nothing at the end, else `remove_after_cursor` -/
  else if ev.code == KC.del then [.none, .del]
  /- Home -/
  else if ev.code == KC.home then [.none]
  /- Shift-Left / Shift-Right: start highlighting -/
  else if ev.code == KC.left && ev.mods.shift then [.none]
  else if ev.code == KC.right && ev.mods.shift then [.none]
  /- Left / Right / Up -/
  else if ev.code == KC.left then [.none]
  else if ev.code == KC.right then [.none]
  else if ev.code == KC.up then [.none]
  /- Shift-Space: character form -/
  else if ev.code == KC.space && ev.mods.shift && sh.options.enableFullwidthToggleKey then [.none]
  /- Space as a selection key / Down: open a candidate list (cursor saved, clamped, perhaps restored) -/
  else if ev.code == KC.space && sh.options.spaceIsSelectKey && sh.options.languageMode == .chinese then [.none]
  else if ev.code == KC.down then [.none]
  /- End / PageUp / PageDown -/
  else if ev.code == KC.end_ || ev.code == KC.pageUp || ev.code == KC.pageDown then [.none]
  /- Enter: everything is committed -/
  else if ev.code == KC.enter then [.clear]
  /- Esc: with `esc_clear_all_buffer` the buffer is cleared -/
  else if ev.code == KC.esc then [.none, .clear]
  /- NumLock: the key's character is committed at once (empty buffer) or inserted at the cursor -/
  else if ev.mods.numlock then [.none, .ins]
  /- every other key: a symbol (or an easy-symbol expansion) inserted at the cursor, or nothing -/
  else [.none, .ins]

/-- `Entering::next`: every key makes at most one edit of the composition, of a kind in `enteringKinds` -/
theorem estep_enteringNext (sh : Shared D L) (ev : KeyEvent) :
    EStep (enteringKinds sh ev) sh.com (enteringNext env sh ev) := by
  unfold enteringNext enteringKinds
  repeat' (with_reducible apply estep_ite2)
  all_goals first
    | exact estep_enteringBackspace _
    | exact estep_enteringCtrlDigit env _ _
    | exact estep_enteringTabInside env _
    | exact estep_enteringDel _
    | exact estep_enteringShiftLeft _
    | exact estep_enteringShiftRight _
    | exact estep_enteringEnter env _
    | exact estep_enteringEsc _
    | exact estep_commitOrInsert _ _
    | exact estep_enteringDefault env _ _
    | exact estep_startSelecting env _
    | exact estep_startSelectingOrInputSpace env _
    | estep_leaf (did_none (by simp) rfl)

/-! ## `EnteringSyllable::next` -/

/-- the layout's answer: a completed syllable (`commit`, or a fuzzy one) is inserted at the cursor; with the simple
    engine the candidate list is then opened (`new_phrase_for_simple_engine`: the cursor is saved) -/
theorem estep_syllableAnswer (sh : Shared D L) (beh : LayoutBeh) :
    EStep [.none, .ins] sh.com (syllableAnswer env sh beh) := by
  unfold syllableAnswer
  repeat' split
  all_goals first
    | exact estep_withCom_absorb _ _ fun c h => did_insert (by simp) h
    | estep_leaf (did_none (by simp) rfl)
    | skip
  all_goals
    refine estep_withCom _ _ _ fun c h => ?_
    dsimp only
    split
    · intro sh' t hh
      have h1 : Did [.none, .ins] sh.com c := did_insert (by simp) h
      exact h1.inner (did_none_inv (estep_newPhraseSimple _ sh' t hh))
    · estep_leaf (did_insert (by simp) h)

/-- **which keys of `EnteringSyllable` edit the buffer**: Backspace and CapsLock act on the phonetic buffer / the
    mode only; Esc clears the buffer with `esc_clear_all_buffer`; every other key goes to the phonetic layout,
    and a syllable it completes is inserted at the cursor (mirror of the `if` chain of `enteringSyllableNext`) -/
def syllableKinds (_sh : Shared D L) (ev : KeyEvent) : List Kind :=
  if ev.code == KC.backspace then [.none]
  else if ev.code == KC.unknown && ev.mods.capslock then [.none]
  else if ev.code == KC.esc then [.none, .clear]
  else [.none, .ins]

/-- `EnteringSyllable::next` -/
theorem estep_enteringSyllableNext (sh : Shared D L) (ev : KeyEvent) :
    EStep (syllableKinds sh ev) sh.com (enteringSyllableNext env sh ev) := by
  unfold enteringSyllableNext syllableKinds
  repeat' (with_reducible apply estep_ite2)
  all_goals
    repeat' split
  all_goals first
    | exact estep_syllableAnswer env { sh with syl := (env.fuzzyKeyPress sh.syl ev).2 } _
    | exact estep_syllableAnswer env { sh with syl := (env.keyPress sh.syl ev).2 } _
    | estep_leaf (did_clear _ (by simp))
    | estep_leaf (did_none (by simp) rfl)

end Chewing.C04
