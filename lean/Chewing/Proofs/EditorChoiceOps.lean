import Chewing.Proofs.EditorChoiceKeys
import Chewing.Proofs.EditorChoiceSel
import Chewing.Proofs.EditorLink
/-!
# C04 at the editor level, part 3: every public operation = one edit of a listed kind + at most one auto-commit

`keyKinds e ev` / `opKinds e op` list, from the PRE-state and the key / operation alone, the kinds of edit the
step can make (`Proofs/EditorChoiceKeys.lean`, `Proofs/EditorChoiceSel.lean`: arm by arm).  `apply_shape`:
every operation that returns went through an edited state `mid` with `Did (opKinds e op) e.shared.com mid.com`,
which satisfies C01's invariant, and ended with nothing more or with the `remove_front n` of an auto-commit
(`AutoCommit`).
-/
namespace Chewing.C04
open Chewing Chewing.C01 Chewing.C06

variable {D L : Type} {env : Env D L} {G : D → Prop} {w : Prop}

/-- **which kinds of edit the key `ev` can make in the state `e`** (pre-state and key only) -/
def keyKinds (e : Editor D L) (ev : KeyEvent) : List Kind :=
  match e.state with
  | .entering => enteringKinds (preamble e.shared) ev
  | .enteringSyllable => syllableKinds (preamble e.shared) ev
  | .selecting s => selectingKinds s ev
  | .highlighting _ => [.none]

/-- **which kinds of edit the public operation `op` can make in the state `e`** -/
def opKinds (e : Editor D L) : Op L → List Kind
  | .key ev => keyKinds e ev
  | .select _ =>
    match e.state with
    | .selecting s => selectKinds s
    | _ => [.none]
  | .commit => [.none, .clear]
  | .clear => [.clear]
  | _ => [.none]

theorem popCursor_inner' (e : CompEditor) : e.popCursor.inner = e.inner := by
  unfold CompEditor.popCursor; split <;> rfl

theorem applyTrans_com (sh : Shared D L) (st : St) (t : Trans) : (applyTrans sh st t).1.com = sh.com := by
  cases t <;> rfl

/-- the state-machine part of a key makes one edit of a kind in `keyKinds` -/
theorem dispatch_did {e : Editor D L} {ev : KeyEvent} {sh : Shared D L} {st : St}
    (h : dispatch env e ev = .ok (sh, st)) : Did (keyKinds e ev) e.shared.com sh.com := by
  unfold dispatch at h
  unfold keyKinds
  cases hst : e.state with
  | entering =>
    rw [hst] at h
    obtain ⟨⟨sh', t⟩, hr, hx⟩ := C05.map_ok h
    have hd := estep_enteringNext env (preamble e.shared) ev sh' t hr
    have hc : sh.com = sh'.com := by
      have := congrArg (fun x => x.1.com) hx
      simp only [applyTrans_com] at this
      exact this.symm
    rw [hc]; exact hd
  | enteringSyllable =>
    rw [hst] at h
    obtain ⟨⟨sh', t⟩, hr, hx⟩ := C05.map_ok h
    have hd := estep_enteringSyllableNext env (preamble e.shared) ev sh' t hr
    have hc : sh.com = sh'.com := by
      have := congrArg (fun x => x.1.com) hx
      simp only [applyTrans_com] at this
      exact this.symm
    rw [hc]; exact hd
  | selecting s =>
    rw [hst] at h
    obtain ⟨r, hr, hx⟩ := C05.map_ok h
    have hd := esel_selectingNext env s (preamble e.shared) ev r hr
    have hc : sh.com = r.shared.com := by
      have := congrArg (fun x => x.1.com) hx
      simp only [applyTrans_com] at this
      exact this.symm
    rw [hc]; exact hd
  | highlighting m =>
    rw [hst] at h
    obtain ⟨⟨sh', m', t⟩, hr, hx⟩ := C05.map_ok h
    have hd := (highlighting_did env m (preamble e.shared) ev).elim hr
    have hc : sh.com = sh'.com := by
      have := congrArg (fun x => x.1.com) hx
      simp only [applyTrans_com] at this
      exact this.symm
    rw [hc]; exact hd

/-- **the auto-commit that ends a step**: the leading intervals of the conversion of the edited state `mid`
    were committed (`commitBuf`) and their `n` symbols removed from the front of the buffer -/
structure AutoCommit (env : Env D L) (mid : Shared D L) (e' : Editor D L) (n : Nat) : Prop where
  /-- it runs only when the buffer is over the limit -/
  over : mid.options.autoCommitThreshold < mid.com.len
  cut : mid.com.inner.removeFront n = .ok e'.shared.com.inner
  take : ∃ ivs, Shared.conversion env mid = .ok ivs ∧
    Shared.autoCommitTake mid.com.len mid.options.autoCommitThreshold ivs [] 0 = .ok (e'.shared.commitBuf, n)

/-- how a step ends: nothing more happens to the composition, or one auto-commit -/
def Tail (env : Env D L) (mid : Shared D L) (e' : Editor D L) : Prop :=
  e'.shared.com.inner = mid.com.inner ∨ ∃ n, AutoCommit env mid e' n

theorem tail_of_tryAutoCommit {c : Prop} [Decidable c] {mid sh2 : Shared D L} {e' : Editor D L}
    (h1 : (if c then Shared.tryAutoCommit env mid else .ok mid) = .ok sh2)
    (hcom : e'.shared.com = sh2.com) (hbuf : e'.shared.commitBuf = sh2.commitBuf) : Tail env mid e' := by
  split at h1
  · by_cases hle : mid.com.len ≤ mid.options.autoCommitThreshold
    · unfold Shared.tryAutoCommit at h1
      simp only [hle, if_true] at h1
      cases h1; exact .inl (by rw [hcom])
    · rcases tryAutoCommit_cases env mid sh2 h1 with rfl | ⟨n, hcut, _, _, _, ivs, buf, hconv, htake, hb⟩
      · exact .inl (by rw [hcom])
      · exact .inr ⟨n, ⟨by omega, by rw [hcom]; exact hcut, ivs, hconv, by rw [hbuf, hb]; exact htake⟩⟩
  · cases h1; exact .inl (by rw [hcom])

/-- **every public operation = one edit of a kind in `opKinds`, then at most one auto-commit**; the edited state
    satisfies the composition invariant -/
theorem apply_shape (hE : EnvOK env G) {e e' : Editor D L} (hi : EditorInv env G w e) (op : Op L) (hv : OpValid op)
    (hk : w → ¬ Known env e op) (h : e.apply env op = .ok e') :
    ∃ mid : Shared D L, Did (opKinds e op) e.shared.com mid.com ∧ CompInv mid.com.inner ∧ Tail env mid e' := by
  have hi' : EditorInv env G w e' := by
    obtain ⟨e2, h2, hi2⟩ := apply_ok hE hi op hv hk
    rw [h] at h2
    rw [Outcome.ok.inj h2]
    exact hi2
  -- operations without a commit path: the result is the edited state
  have plain : Did (opKinds e op) e.shared.com e'.shared.com →
      ∃ mid : Shared D L, Did (opKinds e op) e.shared.com mid.com ∧ CompInv mid.com.inner ∧ Tail env mid e' :=
    fun hd => ⟨e'.shared, hd, hi'.sh.ced.inner.comp, .inl rfl⟩
  have reval : ∀ (e1 : Editor D L), e1.shared.com.inner = e.shared.com.inner → e1.revalidate env = .ok e' →
      Did [.none] e.shared.com e'.shared.com := by
    intro e1 h1 hr
    exact did_none (by simp) ((did_none_inv (revalidate_did env e1 e' hr)).trans h1)
  cases op with
  | key ev =>
    obtain ⟨⟨e1, b⟩, hr, hx⟩ := C05.map_ok h
    simp only at hx; subst hx
    obtain ⟨mid, st, hd, ht⟩ := C05.processKey_split env hr
    obtain ⟨sh2, h1, hcom, _, hbuf, _, _⟩ := C05.tail_com env ht
    exact ⟨mid, dispatch_did hd, (Link.dispatch_shInv hE hi ev hd).ced.inner.comp, tail_of_tryAutoCommit h1 hcom hbuf⟩
  | select n =>
    obtain ⟨⟨e1, b⟩, hr, hx⟩ := C05.map_ok h
    simp only at hx; subst hx
    unfold Editor.select at hr
    simp only [opKinds]
    split at hr
    · rename_i s hst
      rw [hst]
      split at hr
      · rename_i s' sh t hq
        have hd : Did (selectKinds s) e.shared.com sh.com := (select_did env s e.shared n).elim hq
        have hmid : C02.editPart env e (.select n) = .ok (applyTrans sh (.selecting s') t).1 := by
          simp only [C02.editPart, hst, hq, Outcome.map]
        have hinv := Link.editPart_shInv hE hi (.select n) hv hk hmid
        dsimp only at hr
        split at hr
        · rename_i sh2 hq2
          injection hr with hr; injection hr with hr1 hr2; subst hr1
          refine ⟨(applyTrans sh (.selecting s') t).1, by rw [applyTrans_com]; exact hd, hinv.ced.inner.comp, ?_⟩
          exact tail_of_tryAutoCommit hq2 rfl rfl
        · cases hr
        · cases hr
      · cases hr
      · cases hr
    · injection hr with hr; injection hr with hr1 hr2; subst hr1
      refine ⟨e.shared, did_none ?_ rfl, hi.sh.ced.inner.comp, .inl rfl⟩
      split
      · exact none_mem_selectKinds _
      · simp
  | startSelecting =>
    obtain ⟨⟨e1, b⟩, hr, hx⟩ := C05.map_ok h
    simp only at hx; subst hx
    exact plain (startSelecting_api_did env hr)
  | cancelSelecting =>
    refine plain ?_
    simp only [Editor.apply, Editor.cancelSelecting] at h
    injection h with h; subst h
    split
    · exact did_none (by simp [opKinds]) (popCursor_inner' _)
    · exact did_none (by simp [opKinds]) rfl
  | commit =>
    obtain ⟨⟨e1, b⟩, hr, hx⟩ := C05.map_ok h
    simp only at hx; subst hx
    exact plain (commit_api_did env hr)
  | clear =>
    injection h with h; subst h
    exact plain (did_clear _ (by simp [opKinds]))
  | ack => injection h with h; subst h; exact plain (did_none (by simp [opKinds]) rfl)
  | clearSyl =>
    injection h with h; subst h
    refine plain (did_none (by simp [opKinds]) ?_)
    show (Editor.leaveIfEmpty env _).shared.com.inner = _
    rw [C05.leaveIfEmpty_shared]
  | setOptions o =>
    refine plain (reval _ ?_ h)
    show (Editor.leaveIfEmpty env _).shared.com.inner = _
    rw [C05.leaveIfEmpty_shared]
    dsimp only
    split <;> rfl
  | setLayout l =>
    refine plain (reval _ ?_ h)
    show (Editor.leaveIfEmpty env _).shared.com.inner = _
    rw [C05.leaveIfEmpty_shared]
  | setEngine k => injection h with h; subst h; exact plain (did_none (by simp [opKinds]) rfl)
  | learn k p =>
    simp only [Editor.apply] at h
    split at h
    · rename_i sh b hr
      refine plain (reval _ ?_ h)
      show sh.com.inner = _
      rw [(learnPhrase_com env e.shared k p).elim hr]
    · cases h
    · cases h
  | unlearn k p => exact plain (reval { e with shared := Shared.unlearnPhrase env e.shared k p } rfl h)
  | jump which =>
    obtain ⟨⟨e1, b⟩, hr, hx⟩ := C05.map_ok h
    simp only at hx; subst hx
    refine plain (did_none (by simp [opKinds]) ?_)
    show e1.shared.com.inner = _
    rw [C05.jump_shared env hr]

end Chewing.C04
