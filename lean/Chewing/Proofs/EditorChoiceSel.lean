import Chewing.Proofs.EditorChoice
/-!
# C04 at the editor level, part 3: the states `Selecting` and `Highlighting`, the auto-commit, the API calls

Which kinds of edit (`Kind`, `Did` of `Proofs/EditorChoice.lean`) every arm of `Selecting::next` and
`Highlighting::next`, `try_auto_commit` and the public entry points that are not keys can perform on the
composition editor.  Same skeleton as the `Reach` development of `Proofs/EditorCursor.lean`.
-/
namespace Chewing.C04
open Chewing

variable {D L : Type} (env : Env D L)

/-! ## cursor save / restore keeps the composition -/

private theorem selPop_inner (c : CompEditor) : c.popCursor.inner = c.inner := by
  unfold CompEditor.popCursor; split <;> rfl

private theorem selClamp_inner (c : CompEditor) : c.clampCursor.inner = c.inner := by
  unfold CompEditor.clampCursor; split <;> rfl

/-! ## `Selecting::select` -/

/-- the kinds of edit that choosing a candidate of the list `s` can make -/
def selectKinds (s : Selecting) : List Kind :=
  match s.sel with
  | .phrase p => [.none, .sel p.begin_ p.end_]
  | _ => match s.action with
    | .insert => [.none, .ins]
    | .replace => [.none, .repl]

theorem none_mem_selectKinds (s : Selecting) : Kind.none ∈ selectKinds s := by
  unfold selectKinds
  repeat' split
  all_goals simp

/-- `Selecting::select`: a phrase list pushes a choice for its range; a symbol list inserts / replaces one
    symbol at the cursor; or nothing happens (bell, sub-menu) -/
theorem select_did (s : Selecting) (sh : Shared D L) (n : Nat) :
    OutAll (fun x => Did (selectKinds s) sh.com x.2.1.com) (Selecting.select env s sh n) := by
  unfold Selecting.select
  have hnone : Did (selectKinds s) sh.com sh.com := did_none (none_mem_selectKinds s) rfl
  have hfin : ∀ (sh1 : Shared D L) (sym : Sym), sh1.com = sh.com → (∀ p, s.sel ≠ .phrase p) →
      OutAll (fun x : Selecting × Shared D L × Trans => Did (selectKinds s) sh.com x.2.1.com)
        (match (match s.action with
            | .insert => sh1.com.insert sym
            | .replace => sh1.com.replace sym) with
          | .ok com => .ok (s, { sh1 with com := com.popCursor }, .toState .entering)
          | .panic p => .panic p
          | .outOfFuel => .outOfFuel) := by
    intro sh1 sym h1 hnp
    split
    · rename_i com hq
      show Did (selectKinds s) sh.com com.popCursor
      refine Did.inner (c1 := com) ?_ (selPop_inner _)
      rw [h1] at hq
      split at hq
      · rename_i ha
        refine did_insert ?_ hq
        unfold selectKinds
        split
        · rename_i p hp; exact absurd hp (hnp p)
        · simp [ha]
      · rename_i ha
        refine did_replace ?_ hq
        unfold selectKinds
        split
        · rename_i p hp; exact absurd hp (hnp p)
        · simp [ha]
    · trivial
    · trivial
  dsimp only
  split
  · trivial
  · trivial
  · split
    · exact hnone
    · split
      · -- phrase
        rename_i p hp
        split
        · split
          · split
            · rename_i phrase _ com hq
              show Did (selectKinds s) sh.com (if sh.options.autoShiftCursor = true then com.popCursor.moveRight else com.popCursor)
              have hd : Did (selectKinds s) sh.com com :=
                did_select (by simp [selectKinds, hp, PhraseSel.interval]) hq
              split
              · exact hd.inner (selPop_inner _)
              · exact hd.inner (selPop_inner _)
            · trivial
            · trivial
          · exact hnone
        · trivial
        · trivial
      · -- symbol
        rename_i y hy
        split
        · rename_i sym y' hq
          exact OutAll.map (hfin sh sym rfl (fun p hp => by rw [hy] at hp; cases hp))
        · split
          · exact hnone.inner (selPop_inner _)
          · exact hnone
          · trivial
          · trivial
        · trivial
        · trivial
      · -- special
        rename_i sym0 hy
        split
        · exact hfin sh _ rfl (fun p hp => by rw [hy] at hp; cases hp)
        · exact hnone
        · trivial
        · trivial

/-! ## the arms of `Selecting::next` -/

theorem esel_selDownSpace (s : Selecting) (sh : Shared D L) : ESel [.none] sh.com (selDownSpace env s sh) := by
  unfold selDownSpace
  repeat' split
  all_goals first
    | exact esel_panic _ _ _
    | exact esel_fuel _ _
    | esel_leaf (did_none (by simp) rfl)

theorem esel_closeIfEmpty (c0 : CompEditor) (r : SelRes D L) (hr : Did [.none] c0 r.shared.com) :
    ESel [.none] c0 (closeIfEmpty env r) := by
  intro x h
  rcases closeIfEmpty_cases env h with rfl | rfl
  · exact hr
  · exact hr.inner (selPop_inner _)

theorem esel_selMove (s : Selecting) (sh : Shared D L) (isJ : Bool) : ESel [.none] sh.com (selMove env s sh isJ) := by
  unfold selMove
  split
  · esel_leaf (did_none (by simp) rfl)
  · dsimp only
    have hr : (if isJ = true then sh.com.moveCursor ((match s.sel with
        | .phrase p => p.begin_
        | _ => sh.com.cursor) - 1)
        else (sh.com.moveCursor ((match s.sel with
        | .phrase p => p.begin_
        | _ => sh.com.cursor) + 1)).clampCursor).inner = sh.com.inner := by
      split
      · rfl
      · exact selClamp_inner _
    split
    · rename_i sh' s' hq
      have := (retarget_com env s _).elim hq
      refine esel_closeIfEmpty env _ _ ?_
      show Did [.none] sh.com sh'.com
      rw [this]; exact did_none (by simp) hr
    · rename_i sh' t _ hq
      have := (retarget_com env s _).elim hq
      refine esel_closeIfEmpty env _ _ ?_
      show Did [.none] sh.com sh'.com
      rw [this]; exact did_none (by simp) hr
    · exact esel_panic _ _ _
    · exact esel_fuel _ _

theorem esel_selPrevPage (s : Selecting) (sh : Shared D L) : ESel [.none] sh.com (selPrevPage env s sh) := by
  unfold selPrevPage
  repeat' split
  all_goals first
    | exact esel_panic _ _ _
    | exact esel_fuel _ _
    | esel_leaf (did_none (by simp) rfl)

theorem esel_selNextPage (s : Selecting) (sh : Shared D L) : ESel [.none] sh.com (selNextPage env s sh) := by
  unfold selNextPage
  repeat' split
  all_goals first
    | exact esel_panic _ _ _
    | exact esel_fuel _ _
    | esel_leaf (did_none (by simp) rfl)

theorem esel_selDigit (s : Selecting) (sh : Shared D L) (c : Nat) :
    ESel (selectKinds s) sh.com (selDigit env s sh c) := by
  unfold selDigit
  split
  · rename_i s' sh' t hq
    have h := (select_did env s sh (c - 1)).elim hq
    esel_leaf h
  · exact esel_panic _ _ _
  · exact esel_fuel _ _

/-- the kinds of edit a key can make in the state `Selecting`: the MIRROR of the `if` chain of `selectingNext` -/
def selectingKinds (s : Selecting) (ev : KeyEvent) : List Kind :=
  if ev.mods.ctrl || ev.mods.shift then [.none]
  else if ev.code == KC.backspace then [.none]
  else if ev.code == KC.unknown && ev.mods.capslock then [.none]
  else if ev.code == KC.up then [.none]
  else if ev.code == KC.down || ev.code == KC.space then [.none]
  else if ev.code == KC.j then [.none]
  else if ev.code == KC.k then [.none]
  else if ev.code == KC.left || ev.code == KC.pageUp then [.none]
  else if ev.code == KC.right || ev.code == KC.pageDown then [.none]
  else if isDigitCode ev.code then selectKinds s
  else if ev.code == KC.esc then [.none]
  else if ev.code == KC.del then [.none]
  else [.none]

/-- `Selecting::next`: only a digit key edits the composition (`selectKinds`) -/
theorem esel_selectingNext (s : Selecting) (sh : Shared D L) (ev : KeyEvent) :
    ESel (selectingKinds s ev) sh.com (selectingNext env s sh ev) := by
  unfold selectingNext selectingKinds
  repeat' (with_reducible apply esel_ite2)
  all_goals first
    | exact esel_selDownSpace env _ _
    | exact esel_selMove env _ _ _
    | exact esel_selPrevPage env _ _
    | exact esel_selNextPage env _ _
    | exact esel_selDigit env _ _ _
    | esel_leaf (did_none (by simp) rfl)
    | esel_leaf (did_none (by simp) (selPop_inner _))
    | esel_leaf (did_none (by simp) ((selPop_inner _).trans (selPop_inner _)))

/-! ## `Highlighting::next` -/

theorem highlighting_did (m : Nat) (sh : Shared D L) (ev : KeyEvent) :
    OutAll (fun x => Did [.none] sh.com x.1.com) (highlightingNext env m sh ev) := by
  unfold highlightingNext
  dsimp only
  repeat' (first | split | (dsimp only; split))
  all_goals first
    | trivial
    | exact did_none (by simp) rfl
    | skip
  all_goals
    rename_i sh' b hq
    have := (learnInRangeNotify_com env _ _ _).elim hq
    show Did [.none] sh.com sh'.com
    rw [this]
    exact did_none (by simp) rfl

/-! ## the auto-commit -/

/-- `try_auto_commit` either does nothing, or removes the first `n` symbols (`remove_front`), `n` and the
    committed text being what `autoCommitTake` answers on the conversion of the buffer -/
theorem tryAutoCommit_cases (sh sh2 : Shared D L) (h : Shared.tryAutoCommit env sh = .ok sh2) :
    sh2 = sh ∨ ∃ n, sh.com.inner.removeFront n = .ok sh2.com.inner ∧ sh2.dict = sh.dict ∧
      sh2.options = sh.options ∧ sh2.engine = sh.engine ∧
      ∃ ivs buf, Shared.conversion env sh = .ok ivs ∧
        Shared.autoCommitTake sh.com.len sh.options.autoCommitThreshold ivs [] 0 = .ok (buf, n) ∧
        sh2.commitBuf = buf := by
  unfold Shared.tryAutoCommit at h
  dsimp only at h
  split at h
  · injection h with h; exact .inl h.symm
  · split at h
    · cases h
    · cases h
    · rename_i ivs hconv
      split at h
      · rename_i buf remove htake
        split at h
        · rename_i com hq
          injection h with h; subst h
          exact .inr ⟨remove, withInner_inner (fun _ => rfl) hq, rfl, rfl, rfl, ivs, buf, hconv, htake, rfl⟩
        · cases h
        · cases h
      · cases h
      · cases h

/-! ## the public entry points that are not keys -/

/-- `revalidate_selecting` at most restores the saved cursor -/
theorem revalidate_did (e e' : Editor D L) (h : e.revalidate env = .ok e') :
    Did [.none] e.shared.com e'.shared.com := by
  rcases revalidate_shared env h with h1 | h1
  · rw [h1]; exact did_none (by simp) rfl
  · rw [h1]; exact did_none (by simp) (selPop_inner _)

private theorem api_newPhrase (sh : Shared D L) : EStep [.none] sh.com (newPhrase env sh) := by
  unfold newPhrase
  simp only
  split
  · estep_leaf (did_none (by simp) (selClamp_inner _))
  · exact estep_panic _ _ _
  · exact estep_fuel _ _

private theorem api_newSpecialSymbol (sh : Shared D L) (sym : Sym) :
    EStep [.none] sh.com (newSpecialSymbol sh sym) := by
  unfold newSpecialSymbol
  simp only
  split
  · estep_leaf (did_none (by simp) (selClamp_inner _))
  · estep_leaf (did_none (by simp) (selClamp_inner _))
  · exact estep_panic _ _ _
  · exact estep_fuel _ _

private theorem api_openPhrase (sh : Shared D L) : EStep [.none] sh.com (openPhrase env sh) := by
  intro sh' t h
  rcases openPhrase_cases env h with ⟨h1, _⟩ | ⟨_, rfl⟩
  · exact api_newPhrase env sh sh' t h1
  · exact did_none (by simp) ((selPop_inner _).trans (selClamp_inner _))

private theorem api_openSpecialSymbol (sh : Shared D L) (sym : Sym) :
    EStep [.none] sh.com (openSpecialSymbol env sh sym) := by
  intro sh' t h
  rcases openSpecialSymbol_cases env h with ⟨h1, _⟩ | ⟨_, rfl⟩
  · exact api_newSpecialSymbol sh sym sh' t h1
  · exact did_none (by simp) ((selPop_inner _).trans (selClamp_inner _))

private theorem api_startSelecting (sh : Shared D L) : EStep [.none] sh.com (startSelecting env sh) := by
  unfold startSelecting
  repeat' split
  all_goals first
    | exact api_openPhrase env _
    | exact api_openSpecialSymbol env _ _
    | estep_leaf (did_none (by simp) rfl)

/-- `Editor::start_selecting` only saves / clamps / restores the cursor -/
theorem startSelecting_api_did {e e' : Editor D L} {okk : Bool} (h : e.startSelecting env = .ok (e', okk)) :
    Did [.none] e.shared.com e'.shared.com := by
  unfold Editor.startSelecting at h
  dsimp only at h
  split at h
  · rename_i sh t hq
    injection h with h; injection h with h1 h2; subst h1
    rw [C05.leaveIfEmpty_shared]
    have hat : (applyTrans sh e.state t).1.com = sh.com := by cases t <;> rfl
    show Did [.none] e.shared.com (applyTrans sh e.state t).1.com
    rw [hat]
    split at hq
    · exact api_startSelecting env e.shared sh t hq
    · exact api_startSelecting env { e.shared with syl := env.clearSyl e.shared.syl } sh t hq
    · injection hq with hq; injection hq with h1 h2; subst h1; exact did_none (by simp) rfl
  · cases h
  · cases h

/-- `Editor::commit`: nothing (not in `Entering`, or an empty buffer), or everything is committed (`clear`) -/
theorem commit_api_did {e e' : Editor D L} {okk : Bool} (h : e.commit env = .ok (e', okk)) :
    Did [.none, .clear] e.shared.com e'.shared.com := by
  unfold Editor.commit at h
  split at h
  · injection h with h; injection h with h1 h2; subst h1; exact did_none (by simp) rfl
  · split at h
    · rename_i sh hq
      injection h with h; injection h with h1 h2; subst h1
      show Did [.none, .clear] e.shared.com sh.com
      rw [(commit_com env e.shared).elim hq]
      exact did_clear _ (by simp)
    · cases h
    · cases h

end Chewing.C04
