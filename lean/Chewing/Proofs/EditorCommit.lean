import Chewing.Proofs.EditorFrame
import Chewing.Props.C05
/-!
Helper lemmas for C02 (what is committed is what was displayed).

* `LearnFrame`: learning (`learn_phrase`, `auto_learn`) changes the dictionary and the dirty counter
  and nothing else — in particular not the composition, the chosen alternative or the engine;
* `sumLen`, `Tiles`, `ConvTiles`: the hypothesis on the conversion engine (C03's theorem) under which
  characters can be counted;
* `autoCommitTake` characterised by induction over the interval list;
* `CommitFrame` / `CommitShape`: the commit buffer is written only on paths that report *commit*, one
  lemma per arm of the four states' `next`.
-/
namespace Chewing.C02
open Chewing

variable {D L : Type} (env : Env D L)

/-! ### learning touches the dictionary only -/

/-- `sh'` is `sh` except (possibly) for the dictionary and the dirty counter -/
def LearnFrame (sh sh' : Shared D L) : Prop := sh' = { sh with dict := sh'.dict, dirty := sh'.dirty }

theorem LearnFrame.refl (sh : Shared D L) : LearnFrame sh sh := by
  cases sh; rfl

theorem LearnFrame.trans {a b c : Shared D L} (h1 : LearnFrame a b) (h2 : LearnFrame b c) : LearnFrame a c := by
  unfold LearnFrame at *
  rw [h2, h1]

theorem LearnFrame.fields {sh sh' : Shared D L} (h : LearnFrame sh sh') :
    sh'.com = sh.com ∧ sh'.nth = sh.nth ∧ sh'.engine = sh.engine ∧ sh'.options = sh.options ∧
    sh'.syl = sh.syl ∧ sh'.commitBuf = sh.commitBuf ∧ sh'.noticeBuf = sh.noticeBuf ∧ sh'.last = sh.last ∧
    sh'.time = sh.time ∧ sh'.abbr = sh.abbr ∧ sh'.symSel = sh.symSel := by
  unfold LearnFrame at h
  rw [h]
  exact ⟨rfl, rfl, rfl, rfl, rfl, rfl, rfl, rfl, rfl, rfl, rfl⟩

theorem learnPhrase_frame (sh : Shared D L) (k : List Nat) (p : Text) :
    OutAll (fun x => LearnFrame sh x.1) (Shared.learnPhrase env sh k p) := by
  unfold Shared.learnPhrase
  repeat' (first | split | (dsimp only; split))
  all_goals first
    | trivial
    | exact LearnFrame.refl _
    | (cases sh; rfl)

theorem autoLearn_flush_frame (sh : Shared D L) (pending : Text) (syls : List Sym) :
    OutAll (LearnFrame sh) (Shared.autoLearn.flush env sh pending syls) := by
  unfold Shared.autoLearn.flush
  split
  · exact LearnFrame.refl _
  · split
    · rename_i sh' b hq; exact (learnPhrase_frame env sh _ _).elim hq
    · trivial
    · trivial

theorem autoLearn_go_frame (ivs : List Interval) :
    ∀ (sh : Shared D L) (pending : Text) (syls : List Sym),
      OutAll (LearnFrame sh) (Shared.autoLearn.go env sh ivs pending syls) := by
  induction ivs with
  | nil => intro sh pending syls; unfold Shared.autoLearn.go; exact autoLearn_flush_frame env sh pending syls
  | cons iv rest ih =>
    intro sh pending syls
    unfold Shared.autoLearn.go
    split
    · trivial
    · split
      · split
        · exact ih sh _ _
        · trivial
        · trivial
      · split
        · rename_i sh1 hf
          have h1 : LearnFrame sh sh1 := (autoLearn_flush_frame env sh pending syls).elim hf
          split
          · split
            · split
              · rename_i ss hs sh2 b hl
                have h2 : LearnFrame sh1 sh2 := (learnPhrase_frame env sh1 _ _).elim hl
                have h3 := ih sh2 [] []
                cases hr : Shared.autoLearn.go env sh2 rest [] [] with
                | ok x => rw [hr] at h3; exact (h1.trans h2).trans h3
                | panic p => trivial
                | outOfFuel => trivial
              · trivial
              · trivial
            · trivial
            · trivial
          · have h3 := ih sh1 [] []
            cases hr : Shared.autoLearn.go env sh1 rest [] [] with
            | ok x => rw [hr] at h3; exact h1.trans h3
            | panic p => trivial
            | outOfFuel => trivial
        · trivial
        · trivial

/-- **frame lemma**: auto-learning never touches the composition, the chosen alternative, the engine
    (nor anything but the dictionary and its dirty counter) -/
theorem autoLearn_frame (sh : Shared D L) (ivs : List Interval) :
    OutAll (LearnFrame sh) (Shared.autoLearn env sh ivs) := by
  unfold Shared.autoLearn
  exact autoLearn_go_frame env ivs sh [] []

/-! ### conversion / display depend on (engine, dictionary, composition, nth) only -/

theorem conversion_congr {a b : Shared D L} (h1 : a.engine = b.engine) (h2 : a.dict = b.dict)
    (h3 : a.com.inner = b.com.inner) (h4 : a.nth = b.nth) :
    Shared.conversion env a = Shared.conversion env b := by
  unfold Shared.conversion
  rw [h1, h2, h3, h4]

theorem display_congr {a b : Shared D L} (h1 : a.engine = b.engine) (h2 : a.dict = b.dict)
    (h3 : a.com.inner = b.com.inner) (h4 : a.nth = b.nth) :
    Shared.display env a = Shared.display env b := by
  unfold Shared.display
  rw [conversion_congr env h1 h2 h3 h4]

/-- every alternative the editor can show is one the engine returned -/
theorem conversion_mem {sh : Shared D L} {ivs : List Interval} (h : Shared.conversion env sh = .ok ivs) :
    ∃ paths, env.convert sh.engine sh.dict sh.com.inner = .ok paths ∧ ivs ∈ paths := by
  unfold Shared.conversion at h
  split at h
  · rename_i paths hp
    refine ⟨paths, hp, ?_⟩
    split at h
    · split at h
      · cases h
      · split at h
        · rename_i p hq; cases h; exact List.mem_of_getElem? hq
        · cases h
    · split at h
      · rename_i p hq; cases h; exact List.mem_of_mem_head? hq
      · cases h
  · cases h
  · cases h

/-! ### `SharedState::commit` -/

/-- what `SharedState::commit` does: the commit buffer becomes the concatenated conversion of the
    composition it was called with (same `nth`, dictionary *before* learning), the composition is
    cleared, `nth` reset; learning changed the dictionary only -/
theorem commit_spec {sh sh' : Shared D L} (h : Shared.commit env sh = .ok sh') :
    ∃ ivs sh1, Shared.conversion env sh = .ok ivs ∧ LearnFrame sh sh1 ∧
      sh' = { sh1 with commitBuf := ivs.flatMap (·.text), com := sh.com.clear, nth := 0, last := .commit } := by
  unfold Shared.commit at h
  split at h
  · cases h
  · cases h
  · rename_i ivs hc
    refine ⟨ivs, ?_⟩
    dsimp only at h
    split at h
    · rename_i sh1 hl
      refine ⟨{ sh1 with commitBuf := sh.commitBuf }, hc, ?_, ?_⟩
      · split at hl
        · have hf : LearnFrame { sh with commitBuf := [] } sh1 := (autoLearn_frame env _ ivs).elim hl
          unfold LearnFrame at *
          rw [hf]
        · cases hl; exact LearnFrame.refl _
      · cases h
        have hcom : sh1.com = sh.com := by
          split at hl
          · exact ((autoLearn_frame env _ ivs).elim hl).fields.1
          · cases hl; rfl
        rw [hcom]
    · cases h
    · cases h

/-! ### counting: interval lengths, tilings -/

/-- number of symbols covered by a list of intervals -/
def sumLen : List Interval → Nat
  | [] => 0
  | iv :: rest => iv.len + sumLen rest

/-- concatenated texts -/
def textOf (ivs : List Interval) : Text := ivs.flatMap (·.text)

theorem sumLen_append (a b : List Interval) : sumLen (a ++ b) = sumLen a + sumLen b := by
  induction a with
  | nil => simp [sumLen]
  | cons x xs ih => simp [sumLen, ih, Nat.add_assoc]

theorem sumLen_take_succ (ivs : List Interval) (j : Nat) (iv : Interval) (h : ivs[j]? = some iv) :
    sumLen (ivs.take (j + 1)) = sumLen (ivs.take j) + iv.len := by
  induction ivs generalizing j with
  | nil => simp at h
  | cons x xs ih =>
    cases j with
    | zero => simp at h; subst h; simp [sumLen]
    | succ j =>
      simp only [List.getElem?_cons_succ] at h
      simp only [List.take_succ_cons, sumLen]
      rw [ih j h]; omega

/-- `ivs` tiles `[a, n)`: consecutive non-empty intervals from `a` to `n`, each with exactly one
    character per symbol.  (For the real engines this is C03's theorem.) -/
def Tiles : Nat → Nat → List Interval → Prop
  | a, n, [] => a = n
  | a, n, iv :: rest => iv.start = a ∧ a < iv.stop ∧ iv.text.length = iv.stop - iv.start ∧ Tiles iv.stop n rest

instance : (a n : Nat) → (ivs : List Interval) → Decidable (Tiles a n ivs)
  | a, n, [] => inferInstanceAs (Decidable (a = n))
  | a, n, iv :: rest =>
    have := instDecidableTiles iv.stop n rest
    inferInstanceAs (Decidable (iv.start = a ∧ a < iv.stop ∧ iv.text.length = iv.stop - iv.start ∧ Tiles iv.stop n rest))

/-- hypothesis on the conversion engine: every alternative it returns for a composition tiles the
    buffer with one character per symbol -/
def ConvTiles (env : Env D L) : Prop :=
  ∀ (k : EngineKind) (d : D) (c : Composition) (paths : List (List Interval)),
    env.convert k d c = .ok paths → ∀ p ∈ paths, Tiles 0 c.symbols.length p

theorem Tiles.le {a n : Nat} {ivs : List Interval} (h : Tiles a n ivs) : a ≤ n := by
  induction ivs generalizing a with
  | nil => exact Nat.le_of_eq h
  | cons iv rest ih =>
    obtain ⟨_, h2, _, h4⟩ := h
    have := ih h4; omega

/-- in a tiling, a prefix covers as many symbols as it has characters, and never more than the buffer -/
theorem Tiles.take {a n : Nat} {ivs : List Interval} (h : Tiles a n ivs) (k : Nat) :
    (textOf (ivs.take k)).length = sumLen (ivs.take k) ∧ a + sumLen (ivs.take k) ≤ n := by
  induction ivs generalizing a k with
  | nil => simp [textOf, sumLen]; exact Nat.le_of_eq h
  | cons iv rest ih =>
    cases k with
    | zero => simp [textOf, sumLen]; exact Tiles.le h
    | succ k =>
      obtain ⟨h1, h2, h3, h4⟩ := h
      obtain ⟨i1, i2⟩ := ih h4 k
      simp only [textOf] at i1
      constructor
      · simp only [List.take_succ_cons, textOf, List.flatMap_cons, List.length_append, sumLen, Interval.len]
        omega
      · simp only [List.take_succ_cons, sumLen, Interval.len]
        omega

/-- a complete tiling covers exactly the buffer -/
theorem Tiles.total {a n : Nat} {ivs : List Interval} (h : Tiles a n ivs) :
    a + sumLen ivs = n ∧ (textOf ivs).length = sumLen ivs := by
  induction ivs generalizing a with
  | nil => simp [textOf, sumLen]; exact h
  | cons iv rest ih =>
    obtain ⟨h1, h2, h3, h4⟩ := h
    obtain ⟨i1, i2⟩ := ih h4
    simp only [textOf] at i2
    constructor
    · simp only [sumLen, Interval.len]
      omega
    · simp only [textOf, List.flatMap_cons, List.length_append, sumLen, Interval.len]
      omega

/-- the first interval of a tiling of a non-empty range carries text -/
theorem Tiles.take_text_ne {a n : Nat} {ivs : List Interval} (h : Tiles a n ivs) (hlt : a < n) {k : Nat}
    (hk : 0 < k) : textOf (ivs.take k) ≠ [] := by
  cases ivs with
  | nil => simp [Tiles] at h; omega
  | cons iv rest =>
    obtain ⟨h1, h2, h3, _⟩ := h
    cases k with
    | zero => omega
    | succ k =>
      simp only [List.take_succ_cons, textOf, List.flatMap_cons]
      intro hc
      have ht : iv.text = [] := (List.append_eq_nil_iff.mp hc).1
      rw [ht] at h3
      simp only [List.length_nil] at h3
      omega

/-! ### the loop of `try_auto_commit` -/

/-- **`autoCommitTake` characterised.**  Started with `remove` symbols already counted and the
    threshold not yet reached, the loop returns the concatenated texts and the summed lengths of the
    first `k` intervals, where `k` is the LEAST number of leading intervals whose removal brings the
    length down to the threshold — or all intervals if no prefix does.  (`k ≥ 1` unless the list is
    empty: the Rust loop pushes before it tests.) -/
theorem autoCommitTake_spec (len thr : Nat) (ivs : List Interval) :
    ∀ (buf : Text) (remove : Nat) (buf' : Text) (remove' : Nat),
      thr < len - remove →
      Shared.autoCommitTake len thr ivs buf remove = .ok (buf', remove') →
      ∃ k, k ≤ ivs.length ∧ (ivs = [] ∨ 0 < k) ∧
        buf' = buf ++ textOf (ivs.take k) ∧
        remove' = remove + sumLen (ivs.take k) ∧
        remove' ≤ len ∧
        (∀ j, j < k → thr < len - (remove + sumLen (ivs.take j))) ∧
        (k = ivs.length ∨ len - remove' ≤ thr) ∧
        (∀ iv ∈ ivs.take k, iv.start ≤ iv.stop) := by
  induction ivs with
  | nil =>
    intro buf remove buf' remove' hpre h
    unfold Shared.autoCommitTake at h
    injection h with h; injection h with h1 h2; subst h1 h2
    exact ⟨0, Nat.le_refl _, Or.inl rfl, by simp [textOf], by simp [sumLen], by omega,
      fun j hj => by omega, Or.inl rfl, by simp⟩
  | cons iv rest ih =>
    intro buf remove buf' remove' hpre h
    unfold Shared.autoCommitTake at h
    split at h
    · cases h
    · rename_i hord
      dsimp only at h
      split at h
      · cases h
      · rename_i hle
        split at h
        · rename_i hthr
          injection h with h; injection h with h1 h2; subst h1 h2
          refine ⟨1, by simp, Or.inr (by omega), by simp [textOf], by simp [sumLen], by omega, ?_, Or.inr hthr, ?_⟩
          · intro j hj
            have : j = 0 := by omega
            subst this; simpa [sumLen] using hpre
          · intro x hx; simp at hx; subst hx; omega
        · rename_i hthr
          obtain ⟨k, hk, hpos, hb, hr, hle', hmin, hfin, hord'⟩ :=
            ih (buf ++ iv.text) (remove + iv.len) buf' remove' (by omega) h
          refine ⟨k + 1, by simp; omega, Or.inr (by omega), ?_, ?_, hle', ?_, ?_, ?_⟩
          · rw [hb]; simp [textOf]
          · rw [hr]; simp [sumLen]; omega
          · intro j hj
            cases j with
            | zero => simpa [sumLen] using hpre
            | succ j =>
              have := hmin j (by omega)
              simp only [List.take_succ_cons, sumLen]
              omega
          · rcases hfin with hfin | hfin
            · exact Or.inl (by simp [hfin])
            · exact Or.inr hfin
          · intro x hx
            simp only [List.take_succ_cons, List.mem_cons] at hx
            rcases hx with rfl | hx
            · omega
            · exact hord' x hx

end Chewing.C02
