import Chewing.Proofs.EditorFrame
import Chewing.Props.C05
import Chewing.Props.C06
/-!
Helper lemmas for C02 (what is committed is what was displayed).

* `LearnFrame`: learning (`learn_phrase`, `auto_learn`) changes the dictionary and the dirty counter
  and nothing else — in particular not the composition, the chosen alternative or the engine;
* `sumLen`, `Tiles`, `ConvTiles`: the hypothesis on the conversion engine (C03's theorem) under which
  characters can be counted;
* `autoCommitTake` characterised by induction over the interval list;
* `CommitFrame` / `CommitShape`: the commit buffer is written only on paths that report *commit*, one
  lemma per arm of the four states' `next`.
-/
namespace Chewing.C02
open Chewing Chewing.C06

variable {D L : Type} (env : Env D L)

/-! ### learning touches the dictionary only -/

/-- `sh'` is `sh` except (possibly) for the dictionary and the dirty counter -/
def LearnFrame (sh sh' : Shared D L) : Prop := sh' = { sh with dict := sh'.dict, dirty := sh'.dirty }

theorem LearnFrame.refl (sh : Shared D L) : LearnFrame sh sh := by
  cases sh; rfl

theorem LearnFrame.trans {a b c : Shared D L} (h1 : LearnFrame a b) (h2 : LearnFrame b c) : LearnFrame a c := by
  unfold LearnFrame at *
  rw [h2, h1]

theorem LearnFrame.fields {sh sh' : Shared D L} (h : LearnFrame sh sh') :
    sh'.com = sh.com ∧ sh'.nth = sh.nth ∧ sh'.engine = sh.engine ∧ sh'.options = sh.options ∧
    sh'.syl = sh.syl ∧ sh'.commitBuf = sh.commitBuf ∧ sh'.noticeBuf = sh.noticeBuf ∧ sh'.last = sh.last ∧
    sh'.time = sh.time ∧ sh'.abbr = sh.abbr ∧ sh'.symSel = sh.symSel := by
  unfold LearnFrame at h
  rw [h]
  exact ⟨rfl, rfl, rfl, rfl, rfl, rfl, rfl, rfl, rfl, rfl, rfl⟩

theorem learnPhrase_frame (sh : Shared D L) (k : List Nat) (p : Text) :
    OutAll (fun x => LearnFrame sh x.1) (Shared.learnPhrase env sh k p) := by
  unfold Shared.learnPhrase
  repeat' (first | split | (dsimp only; split))
  all_goals first
    | trivial
    | exact LearnFrame.refl _
    | (cases sh; rfl)

theorem autoLearn_flush_frame (sh : Shared D L) (pending : Text) (syls : List Sym) :
    OutAll (LearnFrame sh) (Shared.autoLearn.flush env sh pending syls) := by
  unfold Shared.autoLearn.flush
  split
  · exact LearnFrame.refl _
  · split
    · rename_i sh' b hq; exact (learnPhrase_frame env sh _ _).elim hq
    · trivial
    · trivial

theorem autoLearn_go_frame (ivs : List Interval) :
    ∀ (sh : Shared D L) (pending : Text) (syls : List Sym),
      OutAll (LearnFrame sh) (Shared.autoLearn.go env sh ivs pending syls) := by
  induction ivs with
  | nil => intro sh pending syls; unfold Shared.autoLearn.go; exact autoLearn_flush_frame env sh pending syls
  | cons iv rest ih =>
    intro sh pending syls
    unfold Shared.autoLearn.go
    split
    · trivial
    · split
      · split
        · exact ih sh _ _
        · trivial
        · trivial
      · split
        · rename_i sh1 hf
          have h1 : LearnFrame sh sh1 := (autoLearn_flush_frame env sh pending syls).elim hf
          split
          · split
            · split
              · rename_i ss hs sh2 b hl
                have h2 : LearnFrame sh1 sh2 := (learnPhrase_frame env sh1 _ _).elim hl
                have h3 := ih sh2 [] []
                cases hr : Shared.autoLearn.go env sh2 rest [] [] with
                | ok x => rw [hr] at h3; exact (h1.trans h2).trans h3
                | panic p => trivial
                | outOfFuel => trivial
              · trivial
              · trivial
            · trivial
            · trivial
          · have h3 := ih sh1 [] []
            cases hr : Shared.autoLearn.go env sh1 rest [] [] with
            | ok x => rw [hr] at h3; exact h1.trans h3
            | panic p => trivial
            | outOfFuel => trivial
        · trivial
        · trivial

/-- **frame lemma**: auto-learning never touches the composition, the chosen alternative, the engine
    (nor anything but the dictionary and its dirty counter) -/
theorem autoLearn_frame (sh : Shared D L) (ivs : List Interval) :
    OutAll (LearnFrame sh) (Shared.autoLearn env sh ivs) := by
  unfold Shared.autoLearn
  exact autoLearn_go_frame env ivs sh [] []

/-! ### conversion / display depend on (engine, dictionary, composition, nth) only -/

theorem conversion_congr {a b : Shared D L} (h1 : a.engine = b.engine) (h2 : a.dict = b.dict)
    (h3 : a.com.inner = b.com.inner) (h4 : a.nth = b.nth) :
    Shared.conversion env a = Shared.conversion env b := by
  unfold Shared.conversion
  rw [h1, h2, h3, h4]

theorem display_congr {a b : Shared D L} (h1 : a.engine = b.engine) (h2 : a.dict = b.dict)
    (h3 : a.com.inner = b.com.inner) (h4 : a.nth = b.nth) :
    Shared.display env a = Shared.display env b := by
  unfold Shared.display
  rw [conversion_congr env h1 h2 h3 h4]

/-- every alternative the editor can show is one the engine returned -/
theorem conversion_mem {sh : Shared D L} {ivs : List Interval} (h : Shared.conversion env sh = .ok ivs) :
    ∃ paths, env.convert sh.engine sh.dict sh.com.inner = .ok paths ∧ ivs ∈ paths := by
  unfold Shared.conversion at h
  split at h
  · rename_i paths hp
    refine ⟨paths, hp, ?_⟩
    split at h
    · split at h
      · cases h
      · split at h
        · rename_i p hq; cases h; exact List.mem_of_getElem? hq
        · cases h
    · split at h
      · rename_i p hq; cases h; exact List.mem_of_mem_head? hq
      · cases h
  · cases h
  · cases h

/-! ### `SharedState::commit` -/

/-- what `SharedState::commit` does: the commit buffer becomes the concatenated conversion of the
    composition it was called with (same `nth`, dictionary *before* learning), the composition is
    cleared, `nth` reset; learning changed the dictionary only -/
theorem commit_spec {sh sh' : Shared D L} (h : Shared.commit env sh = .ok sh') :
    ∃ ivs sh1, Shared.conversion env sh = .ok ivs ∧ LearnFrame sh sh1 ∧
      sh' = { sh1 with commitBuf := ivs.flatMap (·.text), com := sh.com.clear, nth := 0, last := .commit } := by
  unfold Shared.commit at h
  split at h
  · cases h
  · cases h
  · rename_i ivs hc
    refine ⟨ivs, ?_⟩
    dsimp only at h
    split at h
    · rename_i sh1 hl
      refine ⟨{ sh1 with commitBuf := sh.commitBuf }, hc, ?_, ?_⟩
      · split at hl
        · have hf : LearnFrame { sh with commitBuf := [] } sh1 := (autoLearn_frame env _ ivs).elim hl
          unfold LearnFrame at *
          rw [hf]
        · cases hl; exact LearnFrame.refl _
      · cases h
        have hcom : sh1.com = sh.com := by
          split at hl
          · exact ((autoLearn_frame env _ ivs).elim hl).fields.1
          · cases hl; rfl
        rw [hcom]
    · cases h
    · cases h

/-! ### counting: interval lengths, tilings -/

/-- number of symbols covered by a list of intervals -/
def sumLen : List Interval → Nat
  | [] => 0
  | iv :: rest => iv.len + sumLen rest

/-- concatenated texts -/
def textOf (ivs : List Interval) : Text := ivs.flatMap (·.text)

theorem sumLen_append (a b : List Interval) : sumLen (a ++ b) = sumLen a + sumLen b := by
  induction a with
  | nil => simp [sumLen]
  | cons x xs ih => simp [sumLen, ih, Nat.add_assoc]

theorem sumLen_take_succ (ivs : List Interval) (j : Nat) (iv : Interval) (h : ivs[j]? = some iv) :
    sumLen (ivs.take (j + 1)) = sumLen (ivs.take j) + iv.len := by
  induction ivs generalizing j with
  | nil => simp at h
  | cons x xs ih =>
    cases j with
    | zero => simp at h; subst h; simp [sumLen]
    | succ j =>
      simp only [List.getElem?_cons_succ] at h
      simp only [List.take_succ_cons, sumLen]
      rw [ih j h]; omega

/-- `ivs` tiles `[a, n)`: consecutive non-empty intervals from `a` to `n`, each with exactly one
    character per symbol.  (For the real engines this is C03's theorem.) -/
def Tiles : Nat → Nat → List Interval → Prop
  | a, n, [] => a = n
  | a, n, iv :: rest => iv.start = a ∧ a < iv.stop ∧ iv.text.length = iv.stop - iv.start ∧ Tiles iv.stop n rest

instance : (a n : Nat) → (ivs : List Interval) → Decidable (Tiles a n ivs)
  | a, n, [] => inferInstanceAs (Decidable (a = n))
  | a, n, iv :: rest =>
    have := instDecidableTiles iv.stop n rest
    inferInstanceAs (Decidable (iv.start = a ∧ a < iv.stop ∧ iv.text.length = iv.stop - iv.start ∧ Tiles iv.stop n rest))

/-- hypothesis on the conversion engine: every alternative it returns for a composition tiles the
    buffer with one character per symbol -/
def ConvTiles (env : Env D L) : Prop :=
  ∀ (k : EngineKind) (d : D) (c : Composition) (paths : List (List Interval)),
    env.convert k d c = .ok paths → ∀ p ∈ paths, Tiles 0 c.symbols.length p

theorem Tiles.le {a n : Nat} {ivs : List Interval} (h : Tiles a n ivs) : a ≤ n := by
  induction ivs generalizing a with
  | nil => exact Nat.le_of_eq h
  | cons iv rest ih =>
    obtain ⟨_, h2, _, h4⟩ := h
    have := ih h4; omega

/-- in a tiling, a prefix covers as many symbols as it has characters, and never more than the buffer -/
theorem Tiles.take {a n : Nat} {ivs : List Interval} (h : Tiles a n ivs) (k : Nat) :
    (textOf (ivs.take k)).length = sumLen (ivs.take k) ∧ a + sumLen (ivs.take k) ≤ n := by
  induction ivs generalizing a k with
  | nil => simp [textOf, sumLen]; exact Nat.le_of_eq h
  | cons iv rest ih =>
    cases k with
    | zero => simp [textOf, sumLen]; exact Tiles.le h
    | succ k =>
      obtain ⟨h1, h2, h3, h4⟩ := h
      obtain ⟨i1, i2⟩ := ih h4 k
      simp only [textOf] at i1
      constructor
      · simp only [List.take_succ_cons, textOf, List.flatMap_cons, List.length_append, sumLen, Interval.len]
        omega
      · simp only [List.take_succ_cons, sumLen, Interval.len]
        omega

/-- a complete tiling covers exactly the buffer -/
theorem Tiles.total {a n : Nat} {ivs : List Interval} (h : Tiles a n ivs) :
    a + sumLen ivs = n ∧ (textOf ivs).length = sumLen ivs := by
  induction ivs generalizing a with
  | nil => simp [textOf, sumLen]; exact h
  | cons iv rest ih =>
    obtain ⟨h1, h2, h3, h4⟩ := h
    obtain ⟨i1, i2⟩ := ih h4
    simp only [textOf] at i2
    constructor
    · simp only [sumLen, Interval.len]
      omega
    · simp only [textOf, List.flatMap_cons, List.length_append, sumLen, Interval.len]
      omega

/-- the first interval of a tiling of a non-empty range carries text -/
theorem Tiles.take_text_ne {a n : Nat} {ivs : List Interval} (h : Tiles a n ivs) (hlt : a < n) {k : Nat}
    (hk : 0 < k) : textOf (ivs.take k) ≠ [] := by
  cases ivs with
  | nil => simp [Tiles] at h; omega
  | cons iv rest =>
    obtain ⟨h1, h2, h3, _⟩ := h
    cases k with
    | zero => omega
    | succ k =>
      simp only [List.take_succ_cons, textOf, List.flatMap_cons]
      intro hc
      have ht : iv.text = [] := (List.append_eq_nil_iff.mp hc).1
      rw [ht] at h3
      simp only [List.length_nil] at h3
      omega

/-! ### the loop of `try_auto_commit` -/

/-- **`autoCommitTake` characterised.**  Started with `remove` symbols already counted and the
    threshold not yet reached, the loop returns the concatenated texts and the summed lengths of the
    first `k` intervals, where `k` is the LEAST number of leading intervals whose removal brings the
    length down to the threshold — or all intervals if no prefix does.  (`k ≥ 1` unless the list is
    empty: the Rust loop pushes before it tests.) -/
theorem autoCommitTake_spec (len thr : Nat) (ivs : List Interval) :
    ∀ (buf : Text) (remove : Nat) (buf' : Text) (remove' : Nat),
      thr < len - remove →
      Shared.autoCommitTake len thr ivs buf remove = .ok (buf', remove') →
      ∃ k, k ≤ ivs.length ∧ (ivs = [] ∨ 0 < k) ∧
        buf' = buf ++ textOf (ivs.take k) ∧
        remove' = remove + sumLen (ivs.take k) ∧
        remove' ≤ len ∧
        (∀ j, j < k → thr < len - (remove + sumLen (ivs.take j))) ∧
        (k = ivs.length ∨ len - remove' ≤ thr) ∧
        (∀ iv ∈ ivs.take k, iv.start ≤ iv.stop) := by
  induction ivs with
  | nil =>
    intro buf remove buf' remove' hpre h
    unfold Shared.autoCommitTake at h
    injection h with h; injection h with h1 h2; subst h1 h2
    exact ⟨0, Nat.le_refl _, Or.inl rfl, by simp [textOf], by simp [sumLen], by omega,
      fun j hj => by omega, Or.inl rfl, by simp⟩
  | cons iv rest ih =>
    intro buf remove buf' remove' hpre h
    unfold Shared.autoCommitTake at h
    split at h
    · cases h
    · rename_i hord
      dsimp only at h
      split at h
      · cases h
      · rename_i hle
        split at h
        · rename_i hthr
          injection h with h; injection h with h1 h2; subst h1 h2
          refine ⟨1, by simp, Or.inr (by omega), by simp [textOf], by simp [sumLen], by omega, ?_, Or.inr hthr, ?_⟩
          · intro j hj
            have : j = 0 := by omega
            subst this; simpa [sumLen] using hpre
          · intro x hx; simp at hx; subst hx; omega
        · rename_i hthr
          obtain ⟨k, hk, hpos, hb, hr, hle', hmin, hfin, hord'⟩ :=
            ih (buf ++ iv.text) (remove + iv.len) buf' remove' (by omega) h
          refine ⟨k + 1, by simp; omega, Or.inr (by omega), ?_, ?_, hle', ?_, ?_, ?_⟩
          · rw [hb]; simp [textOf]
          · rw [hr]; simp [sumLen]; omega
          · intro j hj
            cases j with
            | zero => simpa [sumLen] using hpre
            | succ j =>
              have := hmin j (by omega)
              simp only [List.take_succ_cons, sumLen]
              omega
          · rcases hfin with hfin | hfin
            · exact Or.inl (by simp [hfin])
            · exact Or.inr hfin
          · intro x hx
            simp only [List.take_succ_cons, List.mem_cons] at hx
            rcases hx with rfl | hx
            · omega
            · exact hord' x hx

/-! ### `try_auto_commit` -/

theorem tryAutoCommit_noop {sh : Shared D L} (h : sh.com.len ≤ sh.options.autoCommitThreshold) :
    Shared.tryAutoCommit env sh = .ok sh := by
  unfold Shared.tryAutoCommit
  simp only [h, if_true]

/-- what `try_auto_commit` does when the buffer exceeds the threshold -/
theorem tryAutoCommit_spec {sh sh' : Shared D L} (h : Shared.tryAutoCommit env sh = .ok sh')
    (hlen : sh.options.autoCommitThreshold < sh.com.len) :
    ∃ ivs k com, Shared.conversion env sh = .ok ivs ∧ k ≤ ivs.length ∧ (ivs = [] ∨ 0 < k) ∧
      sh.com.removeFront (sumLen (ivs.take k)) = .ok com ∧
      sh' = { sh with commitBuf := textOf (ivs.take k), com := com, last := .commit } ∧
      sumLen (ivs.take k) ≤ sh.com.len ∧
      (∀ j, j < k → sh.options.autoCommitThreshold < sh.com.len - sumLen (ivs.take j)) ∧
      (k = ivs.length ∨ sh.com.len - sumLen (ivs.take k) ≤ sh.options.autoCommitThreshold) := by
  unfold Shared.tryAutoCommit at h
  simp only [Nat.not_le.mpr hlen, if_false] at h
  split at h
  · cases h
  · cases h
  · rename_i ivs hc
    split at h
    · rename_i buf remove ht
      obtain ⟨k, hk, hpos, hb, hr, hle, hmin, hfin, _⟩ :=
        autoCommitTake_spec sh.com.len sh.options.autoCommitThreshold ivs [] 0 buf remove (by omega) ht
      simp only [List.nil_append, Nat.zero_add] at hb hr hmin
      subst hb hr
      split at h
      · rename_i com hrf
        injection h with h
        exact ⟨ivs, k, com, hc, hk, hpos, hrf, h.symm, hle, hmin, hfin⟩
      · cases h
      · cases h
    · cases h
    · cases h

/-! ### the commit buffer is written only on paths that report *commit* -/

/-- how an arm of `Entering::next` started from `sh0` may leave the commit buffer: untouched unless it
    reports *commit*; then either the pre-edit was empty and ONE character was committed (the
    pre-edit stays as it was), or it is `SharedState::commit` of `sh0` (the whole buffer) — and the
    latter only where `w` holds (`w` will be "the key is Enter") -/
def CommitShape (w : Prop) (Q : Nat → Prop) (sh0 : Shared D L) (r : StepRes D L) : Prop :=
  ∀ sh' t, r = .ok (sh', t) →
    (t ≠ .spin .commit ∧ sh'.commitBuf = sh0.commitBuf) ∨
    (t = .spin .commit ∧
      ((sh0.com.isEmpty = true ∧ sh'.com = sh0.com ∧
          ∃ ch, Q ch ∧ (sh'.commitBuf = [ch] ∨ sh'.commitBuf = sh0.commitBuf ++ [ch])) ∨
       (w ∧ Shared.commit env sh0 = .ok sh')))

variable {w : Prop} {Q : Nat → Prop}

/-- the characters a key may commit directly from an empty pre-edit: its own character, the full-width
    form of its own character, or — Space as selection key — a half- or full-width space -/
def DirectChar (ev : KeyEvent) (ch : Nat) : Prop :=
  ch = ev.unicode ∨ fullWidthSymbolInput ev.unicode = some ch ∨ (ev.code = KC.space ∧ (ch = 32 ∨ ch = 12288))

theorem and3_left {x y z : Bool} (h : (x && y && z) = true) : x = true := by
  cases x <;> simp_all

/-- closes `CommitShape sh0 (.ok (x, t))` for a concrete non-commit transition `t` -/
macro "cshape_leaf" : tactic =>
  `(tactic| (intro sh' t h; injection h with h; injection h with h1 h2; subst h1 h2;
             exact Or.inl ⟨(fun c => by cases c), by first | rfl | assumption⟩))

theorem cshape_ite {sh0 : Shared D L} {c : Prop} [Decidable c] {a b : StepRes D L}
    (h1 : CommitShape env w Q sh0 a) (h2 : CommitShape env w Q sh0 b) : CommitShape env w Q sh0 (if c then a else b) := by
  split <;> assumption

theorem cshape_panic (sh0 : Shared D L) (p : String) : CommitShape env w Q sh0 (.panic p) := by
  intro sh' t h; cases h

theorem cshape_fuel (sh0 : Shared D L) : CommitShape env w Q sh0 .outOfFuel := by
  intro sh' t h; cases h

theorem cshape_withCom_absorb (sh0 sh : Shared D L) (hb : sh.commitBuf = sh0.commitBuf) (r : Outcome CompEditor) :
    CommitShape env w Q sh0 (withCom sh r fun sh => .ok (sh, .spin .absorb)) := by
  unfold withCom
  cases r with
  | ok c => cshape_leaf
  | panic p => exact cshape_panic env _ p
  | outOfFuel => exact cshape_fuel env _

theorem cshape_commitOrInsert (sh0 sh : Shared D L) (hc : sh.com = sh0.com) (hb : sh.commitBuf = sh0.commitBuf)
    (ch : Nat) (hq : Q ch) : CommitShape env w Q sh0 (commitOrInsert sh ch) := by
  unfold commitOrInsert
  split
  · rename_i he
    intro sh' t h; injection h with h; injection h with h1 h2; subst h1 h2
    exact Or.inr ⟨rfl, Or.inl ⟨by rw [← hc]; exact he, hc, ch, hq, Or.inl rfl⟩⟩
  · exact cshape_withCom_absorb env _ _ hb _

theorem cshape_inputChar (sh0 sh : Shared D L) (hc : sh.com = sh0.com) (hb : sh.commitBuf = sh0.commitBuf)
    (ev : KeyEvent) (hq : ∀ ch, ch = ev.unicode ∨ fullWidthSymbolInput ev.unicode = some ch → Q ch) :
    CommitShape env w Q sh0 (inputChar sh ev) := by
  unfold inputChar fullOrBell
  repeat' split
  all_goals first
    | exact cshape_commitOrInsert env _ _ hc hb _ (hq _ (Or.inl rfl))
    | exact cshape_commitOrInsert env _ _ hc hb _ (hq _ (Or.inr ‹_›))
    | cshape_leaf

theorem cshape_chineseFallback (sh0 sh : Shared D L) (hc : sh.com = sh0.com) (hb : sh.commitBuf = sh0.commitBuf)
    (ev : KeyEvent) (hq : ∀ ch, ch = ev.unicode ∨ fullWidthSymbolInput ev.unicode = some ch → Q ch) :
    CommitShape env w Q sh0 (chineseFallback sh ev) := by
  unfold chineseFallback
  repeat' split
  all_goals first
    | exact cshape_withCom_absorb env _ _ hb _
    | exact cshape_inputChar env _ _ hc hb _ hq
    | cshape_leaf

theorem cshape_newPhrase (sh0 sh : Shared D L) (hb : sh.commitBuf = sh0.commitBuf) :
    CommitShape env w Q sh0 (newPhrase env sh) := by
  unfold newPhrase
  simp only
  split
  · cshape_leaf
  · exact cshape_panic env _ _
  · exact cshape_fuel env _

theorem cshape_openPhrase (sh0 sh : Shared D L) (hb : sh.commitBuf = sh0.commitBuf) :
    CommitShape env w Q sh0 (openPhrase env sh) := by
  intro sh' t h
  rcases openPhrase_cases env h with ⟨h1, _⟩ | ⟨rfl, rfl⟩
  · exact cshape_newPhrase env sh0 sh hb sh' t h1
  · exact Or.inl ⟨(fun c => by cases c), hb⟩

theorem cshape_newPhraseSimple (sh0 sh : Shared D L) (hb : sh.commitBuf = sh0.commitBuf) :
    CommitShape env w Q sh0 (newPhraseSimple sh) := by
  unfold newPhraseSimple
  simp only
  split
  · cshape_leaf
  · exact cshape_panic env _ _
  · exact cshape_fuel env _

theorem cshape_newSpecialSymbol (sh0 sh : Shared D L) (hb : sh.commitBuf = sh0.commitBuf) (sym : Sym) :
    CommitShape env w Q sh0 (newSpecialSymbol sh sym) := by
  unfold newSpecialSymbol
  simp only
  split
  · cshape_leaf
  · cshape_leaf
  · exact cshape_panic env _ _
  · exact cshape_fuel env _

theorem cshape_openSymbol (sh0 sh : Shared D L) (hb : sh.commitBuf = sh0.commitBuf) :
    CommitShape env w Q sh0 (openSymbol env sh) := by
  intro sh' t h
  obtain ⟨rfl, rfl | rfl⟩ := openSymbol_cases env h
  · exact Or.inl ⟨(fun c => by cases c), hb⟩
  · exact Or.inl ⟨(fun c => by cases c), hb⟩

theorem cshape_openSpecialSymbol (sh0 sh : Shared D L) (hb : sh.commitBuf = sh0.commitBuf) (sym : Sym) :
    CommitShape env w Q sh0 (openSpecialSymbol env sh sym) := by
  intro sh' t h
  rcases openSpecialSymbol_cases env h with ⟨h1, _⟩ | ⟨rfl, rfl⟩
  · exact cshape_newSpecialSymbol env sh0 sh hb sym sh' t h1
  · exact Or.inl ⟨(fun c => by cases c), hb⟩

theorem cshape_startSelecting (sh : Shared D L) : CommitShape env w Q sh (startSelecting env sh) := by
  unfold startSelecting
  repeat' split
  all_goals first
    | exact cshape_openPhrase env _ _ rfl
    | exact cshape_openSpecialSymbol env _ _ rfl _
    | cshape_leaf

theorem cshape_startSelectingOrInputSpace (sh : Shared D L) (h1 : Q 32) (h2 : Q 12288) :
    CommitShape env w Q sh (startSelectingOrInputSpace env sh) := by
  unfold startSelectingOrInputSpace
  repeat' split
  all_goals first
    | exact cshape_openPhrase env _ _ rfl
    | exact cshape_openSpecialSymbol env _ _ rfl _
    | cshape_leaf
    | skip
  all_goals
    intro sh' t h; injection h with h; injection h with h1 h2; subst h1 h2
    first
      | exact Or.inr ⟨rfl, Or.inl ⟨by assumption, rfl, _, h1, Or.inr rfl⟩⟩
      | exact Or.inr ⟨rfl, Or.inl ⟨by assumption, rfl, _, h2, Or.inr rfl⟩⟩

theorem learnInRangeQuiet_commitBuf (sh : Shared D L) (a b : Nat) :
    OutAll (fun x => x.1.commitBuf = sh.commitBuf) (Shared.learnInRangeQuiet env sh a b) := by
  unfold Shared.learnInRangeQuiet
  repeat' (first | split | (dsimp only; split))
  all_goals first | exact rfl | trivial

theorem learnInRangeNotify_commitBuf (sh : Shared D L) (a b : Nat) :
    OutAll (fun x => x.1.commitBuf = sh.commitBuf) (Shared.learnInRangeNotify env sh a b) := by
  unfold Shared.learnInRangeNotify
  split
  · rename_i sh1 phrase hq; exact (learnInRangeQuiet_commitBuf env sh a b).elim hq
  · rename_i sh1 msg hq; exact (learnInRangeQuiet_commitBuf env sh a b).elim hq
  · trivial
  · trivial

theorem cshape_learnTrans (sh0 sh : Shared D L) (hb : sh.commitBuf = sh0.commitBuf) (a b : Nat) :
    CommitShape env w Q sh0 (learnTrans (Shared.learnInRangeNotify env sh a b)) := by
  unfold learnTrans
  split
  · rename_i sh1 okk hq
    have hc := (learnInRangeNotify_commitBuf env sh a b).elim hq
    intro sh' t h; injection h with h; injection h with h1 h2; subst h1 h2
    exact Or.inl ⟨(fun c => by cases okk <;> cases c), by rw [hc, hb]⟩
  · exact cshape_panic env _ _
  · exact cshape_fuel env _

theorem cshape_enteringDefault (sh : Shared D L) (ev : KeyEvent)
    (hq : ∀ ch, ch = ev.unicode ∨ fullWidthSymbolInput ev.unicode = some ch → Q ch) :
    CommitShape env w Q sh (enteringDefault env sh ev) := by
  unfold enteringDefault
  repeat' split
  all_goals first
    | exact cshape_withCom_absorb env _ _ rfl _
    | exact cshape_inputChar env _ _ rfl rfl _ hq
    | exact cshape_chineseFallback env _ _ rfl rfl _ hq
    | exact cshape_chineseFallback env sh { sh with syl := (env.keyPress sh.syl ev).2 } rfl rfl ev hq
    | exact cshape_openSymbol env _ _ rfl
    | cshape_leaf

theorem cshape_enteringBackspace (sh : Shared D L) : CommitShape env w Q sh (enteringBackspace sh) := by
  unfold enteringBackspace
  split
  · cshape_leaf
  · exact cshape_withCom_absorb env _ _ rfl _

theorem cshape_enteringCtrlDigit (sh : Shared D L) (c : Nat) : CommitShape env w Q sh (enteringCtrlDigit env sh c) := by
  unfold enteringCtrlDigit
  repeat' (first | split | (dsimp only; split))
  all_goals first
    | exact cshape_learnTrans env _ _ rfl _ _
    | exact cshape_openSymbol env _ _ rfl
    | cshape_leaf

theorem cshape_enteringTabInside (sh : Shared D L) : CommitShape env w Q sh (enteringTabInside env sh) := by
  unfold enteringTabInside
  repeat' split
  all_goals first
    | exact cshape_withCom_absorb env _ _ rfl _
    | exact cshape_panic env _ _
    | exact cshape_fuel env _

theorem cshape_enteringDel (sh : Shared D L) : CommitShape env w Q sh (enteringDel sh) := by
  unfold enteringDel
  split
  · cshape_leaf
  · exact cshape_withCom_absorb env _ _ rfl _

theorem cshape_enteringShiftLeft (sh : Shared D L) : CommitShape env w Q sh (enteringShiftLeft sh) := by
  unfold enteringShiftLeft
  split <;> cshape_leaf

theorem cshape_enteringShiftRight (sh : Shared D L) : CommitShape env w Q sh (enteringShiftRight sh) := by
  unfold enteringShiftRight
  split <;> cshape_leaf

theorem cshape_enteringEnter (sh : Shared D L) (hw : w) : CommitShape env w Q sh (enteringEnter env sh) := by
  unfold enteringEnter
  split
  · rename_i sh1 hq
    intro sh' t h; injection h with h; injection h with h1 h2; subst h1 h2
    exact Or.inr ⟨rfl, Or.inr ⟨hw, hq⟩⟩
  · exact cshape_panic env _ _
  · exact cshape_fuel env _

theorem cshape_enteringEsc (sh : Shared D L) : CommitShape env w Q sh (enteringEsc sh) := by
  unfold enteringEsc
  split <;> cshape_leaf

theorem cshape_ite' {sh0 : Shared D L} {c : Prop} [Decidable c] {a b : StepRes D L}
    (h1 : c → CommitShape env w Q sh0 a) (h2 : ¬c → CommitShape env w Q sh0 b) :
    CommitShape env w Q sh0 (if c then a else b) := by
  split
  · exact h1 ‹_›
  · exact h2 ‹_›

/-- `Entering`: every arm; a whole-buffer commit only in the arm guarded by `code == Enter` -/
theorem cshape_enteringNext (sh : Shared D L) (ev : KeyEvent) :
    CommitShape env (ev.code = KC.enter) (DirectChar ev) sh (enteringNext env sh ev) := by
  unfold enteringNext
  repeat' (with_reducible refine cshape_ite' env (fun _ => ?_) (fun _ => ?_))
  all_goals first
    | exact cshape_enteringBackspace env _
    | exact cshape_enteringCtrlDigit env _ _
    | exact cshape_enteringTabInside env _
    | exact cshape_enteringDel env _
    | exact cshape_enteringShiftLeft env _
    | exact cshape_enteringShiftRight env _
    | exact cshape_enteringEnter env _ (eq_of_beq ‹_›)
    | exact cshape_enteringEsc env _
    | exact cshape_commitOrInsert env _ _ rfl rfl _ (Or.inl rfl)
    | exact cshape_enteringDefault env _ _ (fun ch h => h.elim Or.inl (fun h => Or.inr (Or.inl h)))
    | exact cshape_startSelecting env _
    | exact cshape_startSelectingOrInputSpace env _
        (Or.inr (Or.inr ⟨eq_of_beq (and3_left ‹_›), Or.inl rfl⟩)) (Or.inr (Or.inr ⟨eq_of_beq (and3_left ‹_›), Or.inr rfl⟩))
    | cshape_leaf

/-! the other three states never report *commit* and never write the commit buffer -/

/-- a step result that does not report commit and leaves the commit buffer as in `b0` -/
def NoCommit (b0 : Text) (r : StepRes D L) : Prop :=
  ∀ sh' t, r = .ok (sh', t) → t ≠ .spin .commit ∧ sh'.commitBuf = b0

macro "nocommit_leaf" : tactic =>
  `(tactic| (intro sh' t h; injection h with h; injection h with h1 h2; subst h1 h2;
             exact ⟨(fun c => by cases c), by first | rfl | assumption⟩))

theorem nocommit_newPhraseSimple (sh : Shared D L) : NoCommit sh.commitBuf (newPhraseSimple sh) := by
  unfold newPhraseSimple
  simp only
  split
  · nocommit_leaf
  · intro _ _ h; cases h
  · intro _ _ h; cases h

theorem nocommit_syllableAnswer (sh : Shared D L) (beh : LayoutBeh) :
    NoCommit sh.commitBuf (syllableAnswer env sh beh) := by
  unfold syllableAnswer
  repeat' split
  all_goals first
    | nocommit_leaf
    | skip
  all_goals
    unfold withCom
    split
    · first
        | nocommit_leaf
        | (dsimp only
           split
           · exact nocommit_newPhraseSimple _
           · nocommit_leaf)
    · intro _ _ h; cases h
    · intro _ _ h; cases h

/-- `EnteringSyllable`: never commit, commit buffer untouched -/
theorem nocommit_enteringSyllableNext (sh : Shared D L) (ev : KeyEvent) :
    NoCommit sh.commitBuf (enteringSyllableNext env sh ev) := by
  unfold enteringSyllableNext
  repeat' split
  all_goals first
    | exact nocommit_syllableAnswer env { sh with syl := (env.fuzzyKeyPress sh.syl ev).2 } _
    | exact nocommit_syllableAnswer env { sh with syl := (env.keyPress sh.syl ev).2 } _
    | nocommit_leaf

/-- `Selecting::select` (digit keys and the API): never commit, commit buffer untouched -/
theorem select_nocommit (s : Selecting) (sh : Shared D L) (n : Nat) :
    OutAll (fun x => x.2.2 ≠ .spin .commit ∧ x.2.1.commitBuf = sh.commitBuf) (Selecting.select env s sh n) := by
  unfold Selecting.select
  repeat' (first | split | (dsimp only; split))
  all_goals first
    | trivial
    | exact ⟨by simp, rfl⟩
    | skip
  all_goals
    simp only [Outcome.map]
    repeat' split
    all_goals first
      | trivial
      | exact ⟨by simp, rfl⟩

def NoCommitSel (b0 : Text) (r : Outcome (SelRes D L)) : Prop :=
  ∀ x, r = .ok x → x.trans ≠ .spin .commit ∧ x.shared.commitBuf = b0

macro "nocommitsel_leaf" : tactic =>
  `(tactic| (intro x h; injection h with h; subst h; exact ⟨(fun c => by cases c), rfl⟩))

theorem nocommitSel_ite {b0 : Text} {c : Prop} [Decidable c] {a b : Outcome (SelRes D L)}
    (h1 : NoCommitSel b0 a) (h2 : NoCommitSel b0 b) : NoCommitSel b0 (if c then a else b) := by
  split <;> assumption

theorem nocommitSel_selDownSpace (s : Selecting) (sh : Shared D L) : NoCommitSel sh.commitBuf (selDownSpace env s sh) := by
  unfold selDownSpace
  repeat' split
  all_goals first
    | (intro _ h; cases h; done)
    | nocommitsel_leaf

theorem nocommitSel_closeIfEmpty (b0 : Text) (r : SelRes D L) (h1 : r.trans ≠ .spin .commit)
    (h2 : r.shared.commitBuf = b0) : NoCommitSel b0 (closeIfEmpty env r) := by
  intro x h
  rcases closeIfEmpty_cases env h with rfl | rfl
  · exact ⟨h1, h2⟩
  · exact ⟨(fun c => by cases c), h2⟩

theorem nocommitSel_selMove (s : Selecting) (sh : Shared D L) (isJ : Bool) :
    NoCommitSel sh.commitBuf (selMove env s sh isJ) := by
  unfold selMove
  split
  · nocommitsel_leaf
  · dsimp only
    have hr : ∀ (sh1 sh' : Shared D L) (t : Trans), retarget env s sh1 = .ok (sh', t) →
        sh1.commitBuf = sh.commitBuf → sh'.commitBuf = sh.commitBuf := by
      intro sh1 sh' t h h1
      unfold retarget at h
      repeat' split at h
      all_goals first
        | (cases h; done)
        | (injection h with h; injection h with h2 h3; subst h2; exact h1)
    split
    · rename_i sh' s' hq
      exact nocommitSel_closeIfEmpty env _ _ (fun c => by cases c) (hr _ _ _ hq rfl)
    · rename_i sh' t hne hq
      exact nocommitSel_closeIfEmpty env _ _ (fun c => by cases c) (hr _ _ _ hq rfl)
    · intro _ h; cases h
    · intro _ h; cases h

theorem nocommitSel_selPrevPage (s : Selecting) (sh : Shared D L) : NoCommitSel sh.commitBuf (selPrevPage env s sh) := by
  unfold selPrevPage
  repeat' split
  all_goals first
    | (intro _ h; cases h; done)
    | nocommitsel_leaf

theorem nocommitSel_selNextPage (s : Selecting) (sh : Shared D L) : NoCommitSel sh.commitBuf (selNextPage env s sh) := by
  unfold selNextPage
  repeat' split
  all_goals first
    | (intro _ h; cases h; done)
    | nocommitsel_leaf

theorem nocommitSel_selDigit (s : Selecting) (sh : Shared D L) (c : Nat) :
    NoCommitSel sh.commitBuf (selDigit env s sh c) := by
  unfold selDigit
  split
  · rename_i s' sh' t hq
    have h := (select_nocommit env s sh (c - 1)).elim hq
    simp only at h
    intro x hx; injection hx with hx; subst hx
    exact h
  · intro _ h; cases h
  · intro _ h; cases h

/-- `Selecting`: never commit, commit buffer untouched -/
theorem nocommitSel_selectingNext (s : Selecting) (sh : Shared D L) (ev : KeyEvent) :
    NoCommitSel sh.commitBuf (selectingNext env s sh ev) := by
  unfold selectingNext
  repeat' (with_reducible apply nocommitSel_ite)
  all_goals first
    | exact nocommitSel_selDownSpace env _ _
    | exact nocommitSel_selMove env _ _ _
    | exact nocommitSel_selPrevPage env _ _
    | exact nocommitSel_selNextPage env _ _
    | exact nocommitSel_selDigit env _ _ _
    | nocommitsel_leaf

/-- `Highlighting`: never commit, commit buffer untouched -/
theorem highlighting_nocommit (m : Nat) (sh : Shared D L) (ev : KeyEvent) :
    OutAll (fun x => x.2.2 ≠ .spin .commit ∧ x.1.commitBuf = sh.commitBuf) (highlightingNext env m sh ev) := by
  unfold highlightingNext
  repeat' (first | split | (dsimp only; split))
  all_goals first
    | trivial
    | exact ⟨by simp, rfl⟩
    | skip
  all_goals
    rename_i sh' b hq
    exact ⟨by simp, (learnInRangeNotify_commitBuf env _ _ _).elim hq⟩

/-! ### glue for `process_keyevent` (`C06.processKey_eq`: preamble, dispatch, tail) -/

/-- the preamble of a key (tick, reset of the per-key buffers) does not change what is displayed -/
theorem display_preamble (sh : Shared D L) : Shared.display env (preamble sh) = Shared.display env sh :=
  display_congr env rfl rfl rfl rfl

theorem dispatch_entering {e : Editor D L} (ev : KeyEvent) (hs : e.state = .entering) :
    dispatch env e ev =
      (enteringNext env (preamble e.shared) ev).map fun (sh', t) => applyTrans sh' .entering t := by
  unfold dispatch; rw [hs]

/-- the dictionary flush at the end of `process_keyevent` -/
def flush (sh : Shared D L) : Shared D L :=
  if sh.dirty > 0 then { sh with dict := env.reopenFlush sh.dict, dirty := 0 } else sh

theorem flush_fields (sh : Shared D L) :
    (flush env sh).commitBuf = sh.commitBuf ∧ (flush env sh).com = sh.com ∧ (flush env sh).last = sh.last ∧
    (flush env sh).nth = sh.nth ∧ (flush env sh).options = sh.options ∧ (flush env sh).engine = sh.engine := by
  unfold flush; split <;> exact ⟨rfl, rfl, rfl, rfl, rfl, rfl⟩

/-- the part of `process_keyevent` after the state's `next`, case by case -/
theorem tail_spec {sh : Shared D L} {st : St} {e' : Editor D L} {b : KB} (h : tail env sh st = .ok (e', b)) :
    e'.state = st ∧
    ((e'.shared = flush env sh ∧ b = sh.last ∧
        (st = .entering ∨ st = .enteringSyllable → sh.last = .absorb → sh.com.len ≤ sh.options.autoCommitThreshold)) ∨
     ((st = .entering ∨ st = .enteringSyllable) ∧ sh.last = .absorb ∧ sh.options.autoCommitThreshold < sh.com.len ∧ b = .commit ∧
        ∃ sh2, Shared.tryAutoCommit env sh = .ok sh2 ∧ e'.shared = flush env sh2)) := by
  unfold tail at h
  by_cases hc : ((st == .entering || st == .enteringSyllable) && sh.last == .absorb) = true
  · rw [if_pos hc] at h
    simp only [Bool.and_eq_true, Bool.or_eq_true] at hc
    have hst : st = .entering ∨ st = .enteringSyllable := hc.1.imp eq_of_beq eq_of_beq
    have hl : sh.last = .absorb := eq_of_beq hc.2
    by_cases hlen : sh.com.len ≤ sh.options.autoCommitThreshold
    · rw [tryAutoCommit_noop env hlen] at h
      simp only at h
      injection h with h; injection h with h1 h2
      refine ⟨by rw [← h1], Or.inl ⟨by rw [← h1]; rfl, ?_, fun _ _ => hlen⟩⟩
      rw [← h2]; exact (flush_fields env sh).2.2.1
    · have hlt : sh.options.autoCommitThreshold < sh.com.len := by omega
      cases hr : Shared.tryAutoCommit env sh with
      | ok sh2 =>
        rw [hr] at h; simp only at h
        injection h with h; injection h with h1 h2
        obtain ⟨ivs, k, com, _, _, _, _, hsh2, _⟩ := tryAutoCommit_spec env hr hlt
        refine ⟨by rw [← h1], Or.inr ⟨hst, hl, hlt, ?_, sh2, rfl, by rw [← h1]; rfl⟩⟩
        rw [← h2]
        have : (flush env sh2).last = sh2.last := (flush_fields env sh2).2.2.1
        unfold flush at this
        rw [this, hsh2]
      | panic p => rw [hr] at h; cases h
      | outOfFuel => rw [hr] at h; cases h
  · rw [if_neg hc] at h
    simp only at h
    injection h with h; injection h with h1 h2
    refine ⟨by rw [← h1], Or.inl ⟨by rw [← h1]; rfl, ?_, ?_⟩⟩
    · rw [← h2]; exact (flush_fields env sh).2.2.1
    · intro h3 h4; rw [h4] at hc; rcases h3 with h3 | h3 <;> rw [h3] at hc <;> exact absurd rfl hc

theorem len_eq (c : CompEditor) : c.len = c.inner.symbols.length := rfl

theorem nocommit_newPhrase (sh : Shared D L) : NoCommit sh.commitBuf (newPhrase env sh) := by
  unfold newPhrase
  simp only
  split
  · nocommit_leaf
  · intro _ _ h; cases h
  · intro _ _ h; cases h

theorem nocommit_openPhrase (sh : Shared D L) : NoCommit sh.commitBuf (openPhrase env sh) := by
  intro sh' t h
  rcases openPhrase_cases env h with ⟨h1, _⟩ | ⟨rfl, rfl⟩
  · exact nocommit_newPhrase env sh sh' t h1
  · exact ⟨(fun c => by cases c), rfl⟩

theorem nocommit_newSpecialSymbol (sh : Shared D L) (sym : Sym) : NoCommit sh.commitBuf (newSpecialSymbol sh sym) := by
  unfold newSpecialSymbol
  repeat' (first | split | (dsimp only; split))
  all_goals first
    | nocommit_leaf
    | (intro _ _ h; cases h; done)

theorem nocommit_openSpecialSymbol (sh : Shared D L) (sym : Sym) :
    NoCommit sh.commitBuf (openSpecialSymbol env sh sym) := by
  intro sh' t h
  rcases openSpecialSymbol_cases env h with ⟨h1, _⟩ | ⟨rfl, rfl⟩
  · exact nocommit_newSpecialSymbol sh sym sh' t h1
  · exact ⟨(fun c => by cases c), rfl⟩

theorem nocommit_startSelecting (sh : Shared D L) : NoCommit sh.commitBuf (startSelecting env sh) := by
  unfold startSelecting
  repeat' (first | split | (dsimp only; split))
  all_goals first
    | exact nocommit_openPhrase env _
    | exact nocommit_openSpecialSymbol env _ _
    | nocommit_leaf
    | (intro _ _ h; cases h; done)

/-- one interval per symbol, text chosen by `f` -/
def perSym (f : Sym → Nat) : Nat → List Sym → List Interval
  | _, [] => []
  | start, s :: rest => { start := start, stop := start + 1, isPhrase := s.isSyl, text := [f s] } :: perSym f (start + 1) rest

theorem perSym_tiles (f : Sym → Nat) (syms : List Sym) : ∀ start, Tiles start (start + syms.length) (perSym f start syms) := by
  induction syms with
  | nil => intro start; simp [perSym, Tiles]
  | cons s rest ih =>
    intro start
    refine ⟨rfl, Nat.lt_succ_self _, by simp, ?_⟩
    have := ih (start + 1)
    simp only [List.length_cons]
    rw [show start + (rest.length + 1) = start + 1 + rest.length by omega]
    exact this

end Chewing.C02
