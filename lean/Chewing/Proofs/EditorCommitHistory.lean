import Chewing.Proofs.EditorCommit
import Chewing.Model.ConversionSpec
/-!
# Helpers for C02 over whole histories (operation lists)

* `TilesAt env sh`: the tiling hypothesis on the conversion engine AT ONE STATE (what C03 provides for a
  valid composition and a well-formed dictionary); `ConvTiles env` is "at every state";
* every public operation split into its *editing part* (`editPart`: the state machine / API call up to
  the point where a commit path may run) and its *commit path* (Enter / `commit()` = `SharedState::commit`,
  overflow after a key / after `select(n)` = `try_auto_commit`, or the direct one-character commit of an
  empty pre-edit);
* `emitted`: the text an application receives from the operation; `accepted`: the net number of
  characters the editing part took in (negative: deleted);
* `StepShape`: the three ways an operation can relate the two (nothing committed / one character passed
  straight through / a leading part of the conversion of the edited buffer pushed out), proved for every
  operation (`step_shape`), and the per-step ledger under `TilesAt` (`shape_ledger`);
* `Editor.runLog`: a history with its log of emitted strings and its ledger.
-/
namespace Chewing.C02
open Chewing Chewing.C06

variable {D L : Type} (env : Env D L)

/-! ### the tiling hypothesis at one state -/

/-- at state `sh`, every alternative the engine returns tiles the buffer with one character per symbol -/
def TilesAt (sh : Shared D L) : Prop :=
  ∀ paths, env.convert sh.engine sh.dict sh.com.inner = .ok paths → ∀ p ∈ paths, Tiles 0 sh.com.len p

theorem ConvTiles.tilesAt (hT : ConvTiles env) (sh : Shared D L) : TilesAt env sh :=
  fun paths hp p hm => hT _ _ _ paths hp p hm

/-- `TilesAt` depends on (engine, dictionary, composition) only -/
theorem TilesAt.congr {a b : Shared D L} (h : TilesAt env a) (h1 : a.engine = b.engine) (h2 : a.dict = b.dict)
    (h3 : a.com.inner = b.com.inner) : TilesAt env b := by
  intro paths hp p hm
  have : b.com.len = a.com.len := by rw [len_eq, len_eq, h3]
  rw [this]
  exact h paths (by rw [h1, h2, h3]; exact hp) p hm

/-- under `TilesAt`, the shown conversion tiles the buffer -/
theorem TilesAt.conversion {sh : Shared D L} (h : TilesAt env sh) {ivs : List Interval}
    (hc : Shared.conversion env sh = .ok ivs) : Tiles 0 sh.com.len ivs := by
  obtain ⟨paths, hp, hm⟩ := conversion_mem env hc
  exact h paths hp ivs hm

/-! ### the Enter arm; the state machine part of a key by the way it leaves the commit buffer -/

/-- **which events reach the Enter arm**: in state `Entering`, every event whose key code is Enter — with
    any modifiers, any key index, any character — is ignored when the pre-edit is empty and runs
    `shared.commit()` otherwise -/
theorem enter_arm_aux (sh : Shared D L) {ev : KeyEvent} (hk : ev.code = KC.enter) :
    enteringNext env sh ev = if sh.com.isEmpty then .ok (sh, .spin .ignore) else enteringEnter env sh := by
  unfold enteringNext
  simp [hk, KC.enter, KC.backspace, KC.unknown, KC.tab, KC.del, KC.home, KC.left, KC.right, KC.up, KC.space,
    KC.down, KC.end_, KC.pageUp, KC.pageDown, KC.esc, isDigitCode, isIdleKey]

/-- the state machine part of a key, by the way it leaves the commit buffer:
    nothing committed and the buffer empty; or (state `Entering` only) one character committed with an
    empty pre-edit; or (state `Entering`, key Enter) `shared.commit()` -/
theorem dispatch_shape_aux {e : Editor D L} {ev : KeyEvent} {sh : Shared D L} {st : St}
    (h : dispatch env e ev = .ok (sh, st)) :
    (sh.last ≠ .commit ∧ sh.commitBuf = []) ∨
    (sh.last = .commit ∧ e.state = .entering ∧ st = .entering ∧
      ((e.shared.com.isEmpty = true ∧ sh.com = e.shared.com ∧ ∃ ch, DirectChar ev ch ∧ sh.commitBuf = [ch]) ∨
       (ev.code = KC.enter ∧ e.shared.com.isEmpty = false ∧ Shared.commit env (preamble e.shared) = .ok sh))) := by
  have hpb : (preamble e.shared).commitBuf = [] := rfl
  unfold dispatch at h
  split at h
  · -- Entering
    rename_i hs
    cases hr : enteringNext env (preamble e.shared) ev with
    | ok x =>
      obtain ⟨sh', t⟩ := x
      rw [hr] at h; simp only [Outcome.map] at h
      rcases cshape_enteringNext env (preamble e.shared) ev sh' t hr with ⟨hn, hb⟩ | ⟨ht, hcase⟩
      · left
        cases t with
        | toState s' => simp only [applyTrans] at h; cases h; exact ⟨by simp, by rw [← hpb]; exact hb⟩
        | spin b =>
          simp only [applyTrans] at h; cases h
          exact ⟨fun c => hn (by simp only at c; rw [c]), by rw [← hpb]; exact hb⟩
      · right
        subst ht
        simp only [applyTrans] at h; cases h
        refine ⟨rfl, hs, rfl, ?_⟩
        rcases hcase with ⟨he, hcom, ch, hq, hch⟩ | ⟨hk, hcm⟩
        · left
          refine ⟨he, hcom, ch, hq, ?_⟩
          rcases hch with hch | hch
          · exact hch
          · rw [hch, hpb]; rfl
        · right
          have hne : e.shared.com.isEmpty = false := by
            cases he : e.shared.com.isEmpty with
            | false => rfl
            | true =>
              rw [enter_arm_aux env _ hk] at hr
              have : (preamble e.shared).com.isEmpty = true := he
              rw [this] at hr; simp at hr
          refine ⟨hk, hne, ?_⟩
          obtain ⟨ivs, s1, _, _, hsh⟩ := commit_spec env hcm
          rw [hcm, hsh]
    | panic p => rw [hr] at h; simp [Outcome.map] at h
    | outOfFuel => rw [hr] at h; simp [Outcome.map] at h
  · -- EnteringSyllable
    cases hr : enteringSyllableNext env (preamble e.shared) ev with
    | ok x =>
      obtain ⟨sh', t⟩ := x
      rw [hr] at h; simp only [Outcome.map] at h
      obtain ⟨hn, hb⟩ := nocommit_enteringSyllableNext env (preamble e.shared) ev sh' t hr
      left
      cases t with
      | toState s' => simp only [applyTrans] at h; cases h; exact ⟨by simp, hb⟩
      | spin b =>
        simp only [applyTrans] at h; cases h
        exact ⟨fun c => hn (by simp only at c; rw [c]), hb⟩
    | panic p => rw [hr] at h; simp [Outcome.map] at h
    | outOfFuel => rw [hr] at h; simp [Outcome.map] at h
  · -- Selecting
    rename_i s hs
    cases hr : selectingNext env s (preamble e.shared) ev with
    | ok x =>
      rw [hr] at h; simp only [Outcome.map] at h
      obtain ⟨hn, hb⟩ := nocommitSel_selectingNext env s (preamble e.shared) ev x hr
      left
      cases ht : x.trans with
      | toState s' => rw [ht] at h; simp only [applyTrans] at h; cases h; exact ⟨by simp, hb⟩
      | spin b =>
        rw [ht] at h; simp only [applyTrans] at h; cases h
        exact ⟨fun c => hn (by simp only at c; rw [ht, c]), hb⟩
    | panic p => rw [hr] at h; simp [Outcome.map] at h
    | outOfFuel => rw [hr] at h; simp [Outcome.map] at h
  · -- Highlighting
    rename_i m hs
    cases hr : highlightingNext env m (preamble e.shared) ev with
    | ok x =>
      obtain ⟨sh', m', t⟩ := x
      rw [hr] at h; simp only [Outcome.map] at h
      have hf := (highlighting_nocommit env m (preamble e.shared) ev).elim hr
      simp only at hf
      left
      cases t with
      | toState s' => simp only [applyTrans] at h; cases h; exact ⟨by simp, hf.2⟩
      | spin b =>
        simp only [applyTrans] at h; cases h
        exact ⟨fun c => hf.1 (by simp only at c; rw [c]), hf.2⟩
    | panic p => rw [hr] at h; simp [Outcome.map] at h
    | outOfFuel => rw [hr] at h; simp [Outcome.map] at h

/-! ### editing part, emitted text, accepted characters -/

/-- the shared state after the *editing part* of an operation, before any commit path.  Key: the result
    of the state's `next` — except when `next` itself committed a non-empty pre-edit (only Enter does,
    `whole_commit_only_by_enter`): then nothing was edited (the key preamble only).  `select(n)`: the
    choice applied.  `commit()`: nothing edited.  The other calls have no commit path: their result. -/
def editPart (e : Editor D L) : Op L → Outcome (Shared D L)
  | .key ev =>
    (dispatch env e ev).map fun r =>
      if r.1.last = .commit ∧ e.shared.com.isEmpty = false then preamble e.shared else r.1
  | .select n =>
    match e.state with
    | .selecting s =>
      (Selecting.select env s e.shared n).map fun r => (applyTrans r.2.1 (.selecting r.1) r.2.2).1
    | _ => .ok e.shared
  | .commit => .ok e.shared
  | .startSelecting => (e.apply env .startSelecting).map (·.shared)
  | .cancelSelecting => (e.apply env .cancelSelecting).map (·.shared)
  | .clear => (e.apply env .clear).map (·.shared)
  | .ack => (e.apply env .ack).map (·.shared)
  | .clearSyl => (e.apply env .clearSyl).map (·.shared)
  | .setOptions o => (e.apply env (.setOptions o)).map (·.shared)
  | .setLayout l => (e.apply env (.setLayout l)).map (·.shared)
  | .setEngine k => (e.apply env (.setEngine k)).map (·.shared)
  | .learn k p => (e.apply env (.learn k p)).map (·.shared)
  | .unlearn k p => (e.apply env (.unlearn k p)).map (·.shared)
  | .jump w => (e.apply env (.jump w)).map (·.shared)

/-- the text an application newly receives from the operation (it reads the commit string after a key
    that answers *commit*, after a successful `commit()`, after a `select(n)` that overflowed) -/
def emitted (e : Editor D L) (op : Op L) (e' : Editor D L) : Text :=
  match op with
  | .key _ => e'.shared.commitBuf
  | .commit => if e.state = .entering ∧ e.shared.com.isEmpty = false then e'.shared.commitBuf else []
  | .select _ =>
    match e.state with
    | .selecting _ => if e'.shared.last = .commit then e'.shared.commitBuf else []
    | _ => []
  | _ => []

/-- the key was committed directly (empty pre-edit: English / full-width / symbol pass-through) -/
def direct (e : Editor D L) (op : Op L) (m : Shared D L) : Bool :=
  match op with
  | .key _ => m.last == .commit && e.shared.com.isEmpty
  | _ => false

/-- net number of characters the editing part took in: 1 for a directly committed key, otherwise the
    change of the number of symbols in the pre-edit (negative: Backspace, Del, Esc, reset …) -/
def accepted (e : Editor D L) (op : Op L) (m : Shared D L) : Int :=
  if direct e op m then 1 else (m.com.len : Int) - (e.shared.com.len : Int)

/-- **how one operation relates what it emits to what it edited** (`m` = state after the editing part):
    (K) nothing emitted, the pre-edit is what the editing part left;
    (S) one character passed straight through, the (empty) pre-edit untouched — the key's own
        character, its full-width form, or a half- or full-width space for Space as selection key;
    (C) a commit path ran: the emitted text is the text of the first `k` intervals of the conversion of
        the edited buffer (`k ≥ 1`) — all of them and the pre-edit is now empty (Enter, `commit()`), or
        the buffer exceeded the threshold and exactly the symbols under those intervals were removed
        from the front (overflow after a key or after `select(n)`), `k` least such that the rest fits. -/
def StepShape (e : Editor D L) (op : Op L) (m : Shared D L) (e' : Editor D L) : Prop :=
  (direct e op m = false ∧ emitted e op e' = [] ∧ e'.shared.com = m.com) ∨
  (direct e op m = true ∧ e'.shared.com = e.shared.com ∧
    ∃ ch, emitted e op e' = [ch] ∧ ∀ ev, op = .key ev → DirectChar ev ch) ∨
  (direct e op m = false ∧ ∃ ivs k, Shared.conversion env m = .ok ivs ∧ k ≤ ivs.length ∧ (ivs = [] ∨ 0 < k) ∧
    emitted e op e' = textOf (ivs.take k) ∧
    ((k = ivs.length ∧ e'.shared.com.symbols = [] ∧ e'.shared.com.cursor = 0) ∨
     (m.options.autoCommitThreshold < m.com.len ∧ sumLen (ivs.take k) ≤ m.com.len ∧
      e'.shared.com.symbols = m.com.symbols.drop (sumLen (ivs.take k)) ∧
      (∀ j, j < k → m.options.autoCommitThreshold < m.com.len - sumLen (ivs.take j)) ∧
      (k = ivs.length ∨ m.com.len - sumLen (ivs.take k) ≤ m.options.autoCommitThreshold))))

theorem map_ok {α β : Type} {r : Outcome α} {f : α → β} {b : β} (h : r.map f = .ok b) :
    ∃ a, r = .ok a ∧ f a = b := by
  cases r with
  | ok a => exact ⟨a, rfl, by simpa [Outcome.map] using h⟩
  | panic p => simp [Outcome.map] at h
  | outOfFuel => simp [Outcome.map] at h

/-- the (C) shape produced by `SharedState::commit` -/
theorem shape_of_commit {sh sh' : Shared D L} (h : Shared.commit env sh = .ok sh') :
    ∃ ivs k, Shared.conversion env sh = .ok ivs ∧ k ≤ ivs.length ∧ (ivs = [] ∨ 0 < k) ∧
      sh'.commitBuf = textOf (ivs.take k) ∧ k = ivs.length ∧ sh'.com.symbols = [] ∧ sh'.com.cursor = 0 := by
  obtain ⟨ivs, sh1, hc, _, rfl⟩ := commit_spec env h
  refine ⟨ivs, ivs.length, hc, Nat.le_refl _, ?_, by rw [List.take_length]; rfl, rfl, rfl, rfl⟩
  cases ivs with
  | nil => exact Or.inl rfl
  | cons a r => exact Or.inr (by simp)

/-- the (C) shape produced by `try_auto_commit` -/
theorem shape_of_overflow {sh sh' : Shared D L} (h : Shared.tryAutoCommit env sh = .ok sh')
    (hlen : sh.options.autoCommitThreshold < sh.com.len) :
    ∃ ivs k, Shared.conversion env sh = .ok ivs ∧ k ≤ ivs.length ∧ (ivs = [] ∨ 0 < k) ∧
      sh'.commitBuf = textOf (ivs.take k) ∧ sumLen (ivs.take k) ≤ sh.com.len ∧
      sh'.com.symbols = sh.com.symbols.drop (sumLen (ivs.take k)) ∧
      (∀ j, j < k → sh.options.autoCommitThreshold < sh.com.len - sumLen (ivs.take j)) ∧
      (k = ivs.length ∨ sh.com.len - sumLen (ivs.take k) ≤ sh.options.autoCommitThreshold) ∧
      sh'.last = .commit := by
  obtain ⟨ivs, k, com, hc, hk, hpos, hrf, rfl, hle, hmin, hfin⟩ := tryAutoCommit_spec env h hlen
  obtain ⟨_, hsym, _, _⟩ := C05.remove_front_frame sh.com _ com hrf
  exact ⟨ivs, k, hc, hk, hpos, rfl, hle, hsym, hmin, hfin, rfl⟩

/-- **every key step has one of the three shapes** -/
theorem key_shape {e e' : Editor D L} {ev : KeyEvent} {m : Shared D L}
    (ha : e.apply env (.key ev) = .ok e') (hm : editPart env e (.key ev) = .ok m) :
    StepShape env e (.key ev) m e' := by
  obtain ⟨⟨e1, b⟩, hp, he1⟩ := map_ok ha
  simp only at he1; subst he1
  obtain ⟨⟨sh, st⟩, hd, hmm⟩ := map_ok hm
  simp only at hmm
  rw [processKey_eq, hd] at hp
  simp only at hp
  obtain ⟨_, hcase⟩ := tail_spec env hp
  rcases dispatch_shape_aux env hd with ⟨hnc, hbuf⟩ | ⟨hc, hs, _, hcase2⟩
  · -- the state machine did not commit
    have hm' : m = sh := by rw [← hmm, if_neg (fun c => hnc c.1)]
    subst hm'
    have hdir : direct e (.key ev) m = false := by
      simp only [direct, Bool.and_eq_false_imp, beq_iff_eq]
      intro c; exact absurd c hnc
    rcases hcase with ⟨hsh, _, _⟩ | ⟨_, _, hlt, _, sh2, hac, hsh⟩
    · refine Or.inl ⟨hdir, ?_, ?_⟩
      · show e1.shared.commitBuf = []
        rw [hsh, (flush_fields env m).1]; exact hbuf
      · rw [hsh, (flush_fields env m).2.1]
    · obtain ⟨ivs, k, h1, h2, h3, h4, h5, h6, h7, h8, _⟩ := shape_of_overflow env hac hlt
      obtain ⟨f1, f2, _⟩ := flush_fields env sh2
      refine Or.inr (Or.inr ⟨hdir, ivs, k, h1, h2, h3, ?_, Or.inr ⟨hlt, h5, ?_, h7, h8⟩⟩)
      · show e1.shared.commitBuf = _
        rw [hsh, f1]; exact h4
      · rw [hsh, f2]; exact h6
  · rcases hcase with ⟨hsh, _, _⟩ | ⟨_, habs, _⟩
    · obtain ⟨f1, f2, _⟩ := flush_fields env sh
      rcases hcase2 with ⟨he, hcom, ch, hq, hch⟩ | ⟨_, hne, hcm⟩
      · -- one character, straight through
        have hm' : m = sh := by
          rw [← hmm, if_neg (fun c => by rw [he] at c; exact absurd c.2 (by decide))]
        subst hm'
        refine Or.inr (Or.inl ⟨?_, by rw [hsh, f2]; exact hcom, ch, ?_, ?_⟩)
        · simp only [direct, hc, he, beq_self_eq_true, Bool.and_self]
        · show e1.shared.commitBuf = [ch]
          rw [hsh, f1]; exact hch
        · intro ev' hev; cases hev; exact hq
      · -- Enter: the whole pre-edit
        have hm' : m = preamble e.shared := by rw [← hmm, if_pos ⟨hc, hne⟩]
        subst hm'
        obtain ⟨ivs, k, h1, h2, h3, h4, h5, h6, h7⟩ := shape_of_commit env hcm
        refine Or.inr (Or.inr ⟨?_, ivs, k, h1, h2, h3, ?_, Or.inl ⟨h5, ?_, ?_⟩⟩)
        · simp only [direct, hne, Bool.and_false]
        · show e1.shared.commitBuf = _
          rw [hsh, f1]; exact h4
        · rw [hsh, f2]; exact h6
        · rw [hsh, f2]; exact h7
    · rw [hc] at habs; cases habs

/-- **`select(n)`** -/
theorem select_shape {e e' : Editor D L} {n : Nat} {m : Shared D L}
    (ha : e.apply env (.select n) = .ok e') (hm : editPart env e (.select n) = .ok m) :
    StepShape env e (.select n) m e' := by
  obtain ⟨⟨e1, r⟩, hp, he1⟩ := map_ok ha
  simp only at he1; subst he1
  unfold Editor.select at hp
  unfold editPart at hm
  cases hs : e.state with
  | selecting s =>
    rw [hs] at hp hm
    simp only at hp hm
    obtain ⟨⟨s', sh, t⟩, hq, hmm⟩ := map_ok hm
    simp only at hmm
    rw [hq] at hp
    simp only at hp
    obtain ⟨hn, hb⟩ := (select_nocommit env s e.shared n).elim hq
    simp only at hn hb
    have hap : (applyTrans sh (.selecting s') t).1.last ≠ .commit := by
      cases t with
      | toState s2 => simp [applyTrans]
      | spin b => exact fun c => hn (by simp only [applyTrans] at c; rw [c])
    generalize applyTrans sh (.selecting s') t = p at hp hap hmm
    obtain ⟨sh1, st⟩ := p
    simp only at hp hap hmm
    have hmm' : m = sh1 := hmm.symm
    subst hmm'
    have hdir : direct e (.select n) m = false := rfl
    have keep : ∀ {e2 : Editor D L}, e2.shared = m → StepShape env e (.select n) m e2 := by
      intro e2 h2
      refine Or.inl ⟨hdir, ?_, by rw [h2]⟩
      simp only [emitted, hs, h2, if_neg hap]
    -- the auto-commit runs only when the list has closed (`self.state.is_entering() &&`, C01's fix of `Editor::select`)
    by_cases hl : ((st == St.entering || st == St.enteringSyllable) && m.last == KB.absorb) = true
    · simp only [hl, if_true] at hp
      by_cases hlen : m.com.len ≤ m.options.autoCommitThreshold
      · rw [tryAutoCommit_noop env hlen] at hp
        simp only at hp
        injection hp with hp; injection hp with h1 h2; subst h1
        exact keep rfl
      · have hlt : m.options.autoCommitThreshold < m.com.len := by omega
        split at hp
        · rename_i sh2 hac
          injection hp with hp; injection hp with h1 h2; subst h1
          obtain ⟨ivs, k, h1, h2, h3, h4, h5, h6, h7, h8, h9⟩ := shape_of_overflow env hac hlt
          refine Or.inr (Or.inr ⟨hdir, ivs, k, h1, h2, h3, ?_, Or.inr ⟨hlt, h5, h6, h7, h8⟩⟩)
          simp only [emitted, hs, h9, if_true]; exact h4
        · cases hp
        · cases hp
    · simp only [hl, if_false] at hp
      injection hp with hp; injection hp with h1 h2; subst h1
      exact keep rfl
  | entering =>
    rw [hs] at hp hm; simp only at hp hm
    injection hp with hp; injection hp with h1 h2; subst h1
    injection hm with hm; subst hm
    exact Or.inl ⟨rfl, by simp only [emitted, hs], rfl⟩
  | enteringSyllable =>
    rw [hs] at hp hm; simp only at hp hm
    injection hp with hp; injection hp with h1 h2; subst h1
    injection hm with hm; subst hm
    exact Or.inl ⟨rfl, by simp only [emitted, hs], rfl⟩
  | highlighting mv =>
    rw [hs] at hp hm; simp only at hp hm
    injection hp with hp; injection hp with h1 h2; subst h1
    injection hm with hm; subst hm
    exact Or.inl ⟨rfl, by simp only [emitted, hs], rfl⟩

/-- **`commit()`** -/
theorem commit_shape {e e' : Editor D L} {m : Shared D L}
    (ha : e.apply env .commit = .ok e') (hm : editPart env e .commit = .ok m) :
    StepShape env e .commit m e' := by
  obtain ⟨⟨e1, r⟩, hp, he1⟩ := map_ok ha
  simp only at he1; subst he1
  injection hm with hm; subst hm
  unfold Editor.commit at hp
  split at hp
  · rename_i hc
    injection hp with hp; injection hp with h1 h2; subst h1
    refine Or.inl ⟨rfl, ?_, rfl⟩
    have : ¬ (e.state = .entering ∧ e.shared.com.isEmpty = false) := by
      intro ⟨c1, c2⟩; rw [c1, c2] at hc; simp at hc
    simp only [emitted, if_neg this]
  · rename_i hc
    have hst : e.state = .entering := by
      cases hs : e.state <;> simp [hs] at hc ⊢
    have hne : e.shared.com.isEmpty = false := by
      cases he : e.shared.com.isEmpty <;> simp [he] at hc ⊢
    split at hp
    · rename_i sh hq
      injection hp with hp; injection hp with h1 h2; subst h1
      obtain ⟨ivs, k, h1, h2, h3, h4, h5, h6, h7⟩ := shape_of_commit env hq
      refine Or.inr (Or.inr ⟨rfl, ivs, k, h1, h2, h3, ?_, Or.inl ⟨h5, h6, h7⟩⟩)
      simp only [emitted, if_pos (And.intro hst hne)]; exact h4
    · cases hp
    · cases hp

/-- the calls without a commit path -/
theorem other_shape {e e' : Editor D L} {op : Op L} {m : Shared D L}
    (hk : ∀ ev, op ≠ .key ev) (hsel : ∀ n, op ≠ .select n) (hcm : op ≠ .commit)
    (ha : e.apply env op = .ok e') (hm : editPart env e op = .ok m) : StepShape env e op m e' := by
  have key : ∀ (op : Op L), (direct e op m = false) → emitted e op e' = [] →
      (e.apply env op).map (·.shared) = .ok m → e.apply env op = .ok e' → StepShape env e op m e' := by
    intro op hd hem h1 h2
    rw [h2] at h1
    injection h1 with h1
    exact Or.inl ⟨hd, hem, by rw [← h1]⟩
  cases op with
  | key ev => exact absurd rfl (hk ev)
  | select n => exact absurd rfl (hsel n)
  | commit => exact absurd rfl hcm
  | startSelecting => exact key _ rfl rfl hm ha
  | cancelSelecting => exact key _ rfl rfl hm ha
  | clear => exact key _ rfl rfl hm ha
  | ack => exact key _ rfl rfl hm ha
  | clearSyl => exact key _ rfl rfl hm ha
  | setOptions o => exact key _ rfl rfl hm ha
  | setLayout l => exact key _ rfl rfl hm ha
  | setEngine k => exact key _ rfl rfl hm ha
  | learn k p => exact key _ rfl rfl hm ha
  | unlearn k p => exact key _ rfl rfl hm ha
  | jump w => exact key _ rfl rfl hm ha

/-- **every operation has one of the three shapes** -/
theorem step_shape {e e' : Editor D L} {op : Op L} {m : Shared D L}
    (ha : e.apply env op = .ok e') (hm : editPart env e op = .ok m) : StepShape env e op m e' := by
  cases op with
  | key ev => exact key_shape env ha hm
  | select n => exact select_shape env ha hm
  | commit => exact commit_shape env ha hm
  | startSelecting => exact other_shape env (by intro _ c; cases c) (by intro _ c; cases c) (by intro c; cases c) ha hm
  | cancelSelecting => exact other_shape env (by intro _ c; cases c) (by intro _ c; cases c) (by intro c; cases c) ha hm
  | clear => exact other_shape env (by intro _ c; cases c) (by intro _ c; cases c) (by intro c; cases c) ha hm
  | ack => exact other_shape env (by intro _ c; cases c) (by intro _ c; cases c) (by intro c; cases c) ha hm
  | clearSyl => exact other_shape env (by intro _ c; cases c) (by intro _ c; cases c) (by intro c; cases c) ha hm
  | setOptions o => exact other_shape env (by intro _ c; cases c) (by intro _ c; cases c) (by intro c; cases c) ha hm
  | setLayout l => exact other_shape env (by intro _ c; cases c) (by intro _ c; cases c) (by intro c; cases c) ha hm
  | setEngine k => exact other_shape env (by intro _ c; cases c) (by intro _ c; cases c) (by intro c; cases c) ha hm
  | learn k p => exact other_shape env (by intro _ c; cases c) (by intro _ c; cases c) (by intro c; cases c) ha hm
  | unlearn k p => exact other_shape env (by intro _ c; cases c) (by intro _ c; cases c) (by intro c; cases c) ha hm
  | jump w => exact other_shape env (by intro _ c; cases c) (by intro _ c; cases c) (by intro c; cases c) ha hm

/-- whenever the operation returns, so does its editing part -/
theorem editPart_ok {e e' : Editor D L} {op : Op L} (ha : e.apply env op = .ok e') :
    ∃ m, editPart env e op = .ok m := by
  cases op with
  | key ev =>
    obtain ⟨⟨e1, b⟩, hp, _⟩ := map_ok ha
    rw [processKey_eq] at hp
    cases hd : dispatch env e ev with
    | ok x => exact ⟨_, by rw [editPart, hd]; rfl⟩
    | panic p => rw [hd] at hp; cases hp
    | outOfFuel => rw [hd] at hp; cases hp
  | select n =>
    obtain ⟨⟨e1, b⟩, hp, _⟩ := map_ok ha
    unfold Editor.select at hp
    unfold editPart
    cases hs : e.state with
    | selecting s =>
      rw [hs] at hp; simp only at hp ⊢
      cases hq : Selecting.select env s e.shared n with
      | ok x => exact ⟨_, rfl⟩
      | panic p => rw [hq] at hp; cases hp
      | outOfFuel => rw [hq] at hp; cases hp
    | entering => exact ⟨_, rfl⟩
    | enteringSyllable => exact ⟨_, rfl⟩
    | highlighting mv => exact ⟨_, rfl⟩
  | commit => exact ⟨_, rfl⟩
  | startSelecting => exact ⟨e'.shared, by rw [editPart, ha]; rfl⟩
  | cancelSelecting => exact ⟨e'.shared, by rw [editPart, ha]; rfl⟩
  | clear => exact ⟨e'.shared, by rw [editPart, ha]; rfl⟩
  | ack => exact ⟨e'.shared, by rw [editPart, ha]; rfl⟩
  | clearSyl => exact ⟨e'.shared, by rw [editPart, ha]; rfl⟩
  | setOptions o => exact ⟨e'.shared, by rw [editPart, ha]; rfl⟩
  | setLayout l => exact ⟨e'.shared, by rw [editPart, ha]; rfl⟩
  | setEngine k => exact ⟨e'.shared, by rw [editPart, ha]; rfl⟩
  | learn k p => exact ⟨e'.shared, by rw [editPart, ha]; rfl⟩
  | unlearn k p => exact ⟨e'.shared, by rw [editPart, ha]; rfl⟩
  | jump w => exact ⟨e'.shared, by rw [editPart, ha]; rfl⟩

/-! ### the per-step ledger -/

/-- under the tiling hypothesis at the edited state: characters emitted + symbols remaining =
    symbols before + characters accepted -/
theorem shape_ledger {e e' : Editor D L} {op : Op L} {m : Shared D L} (hT : TilesAt env m)
    (h : StepShape env e op m e') :
    ((emitted e op e').length : Int) + e'.shared.com.len = e.shared.com.len + accepted e op m := by
  rcases h with ⟨hd, hem, hcom⟩ | ⟨hd, hcom, ch, hem⟩ | ⟨hd, ivs, k, hc, hk, _, hem, hcase⟩
  · simp only [accepted, hd, hem, hcom, List.length_nil, Bool.false_eq_true, if_false]
    omega
  · simp only [accepted, hd, hem.1, hcom, List.length_cons, List.length_nil, if_true]
    omega
  · have ht := hT.conversion env hc
    simp only [accepted, hd, hem, Bool.false_eq_true, if_false]
    rcases hcase with ⟨hk', hsym, _⟩ | ⟨_, hle, hsym, _, _⟩
    · have hl : e'.shared.com.len = 0 := by
        rw [len_eq, show e'.shared.com.inner.symbols = e'.shared.com.symbols from rfl, hsym]; rfl
      obtain ⟨t1, t2⟩ := ht.total
      rw [hk', List.take_length, t2, hl]
      omega
    · have hl : e'.shared.com.len = m.com.len - sumLen (ivs.take k) := by
        rw [len_eq, show e'.shared.com.inner.symbols = e'.shared.com.symbols from rfl, hsym, List.length_drop]; rfl
      obtain ⟨t1, _⟩ := ht.take k
      rw [t1, hl]
      omega

/-! ### histories with their log -/

/-- a history, with the list of texts the application received (one entry per operation) and the ledger
    of accepted characters -/
def _root_.Chewing.Editor.runLog (e : Editor D L) : List (Op L) → Outcome (Editor D L × List Text × Int)
  | [] => .ok (e, [], 0)
  | op :: ops =>
    match e.apply env op, editPart env e op with
    | .ok e', .ok m =>
      match Editor.runLog e' ops with
      | .ok (e'', outs, acc) => .ok (e'', emitted e op e' :: outs, accepted e op m + acc)
      | .panic p => .panic p
      | .outOfFuel => .outOfFuel
    | .panic p, _ => .panic p
    | .outOfFuel, _ => .outOfFuel
    | .ok _, .panic p => .panic p
    | .ok _, .outOfFuel => .outOfFuel

/-- the tiling hypothesis holds at the edited state of every step of the history -/
def TilesAlong : Editor D L → List (Op L) → Prop
  | _, [] => True
  | e, op :: ops =>
    (∀ m, editPart env e op = .ok m → TilesAt env m) ∧ (∀ e', e.apply env op = .ok e' → TilesAlong e' ops)

theorem ConvTiles.tilesAlong (hT : ConvTiles env) (e : Editor D L) (ops : List (Op L)) : TilesAlong env e ops := by
  induction ops generalizing e with
  | nil => trivial
  | cons op ops ih => exact ⟨fun m _ => hT.tilesAt env m, fun e' _ => ih e'⟩

/-- `P` holds of every step of the history (pre-state, operation, edited state, post-state) -/
def AllSteps (P : Editor D L → Op L → Shared D L → Editor D L → Prop) : Editor D L → List (Op L) → Prop
  | _, [] => True
  | e, op :: ops =>
    ∀ e' m, e.apply env op = .ok e' → editPart env e op = .ok m → P e op m e' ∧ AllSteps P e' ops

/-- a chain of non-empty contiguous intervals with one character per symbol is a tiling (C03's two
    theorems `alt_chain` and `one_char_per_symbol` put together) -/
theorem tiles_of_chain {a n : Nat} {p : List Interval} (hc : Conv.IvChain a n p)
    (hl : ∀ iv ∈ p, iv.text.length = iv.stop - iv.start) : Tiles a n p := by
  induction p generalizing a with
  | nil => exact hc
  | cons x r ih =>
    obtain ⟨h1, h2, h3⟩ := hc
    exact ⟨h1, by omega, hl x (List.mem_cons_self ..), ih h3 (fun iv hm => hl iv (List.mem_cons_of_mem _ hm))⟩

end Chewing.C02
