import Chewing.Proofs.EditorFrame
/-!
The editor touches its pre-edit buffer ONLY through `CompositionEditor` methods (C05, editor level).

`Reach c c'` : `c'` is obtained from `c` by a finite sequence of `CompositionEditor` method calls
(`CedOp`, `CompEditor.apply`) that all returned.  For every arm of every state's `next`, for the tail
of `process_keyevent` (auto-commit) and for every other public entry point of `Editor`, the
composition editor after the call is `Reach`-able from the one before — for every environment.
Every invariant of `CompositionEditor` that needs no precondition on the method arguments
(`C05.cursor_le_len`: `cursor ≤ len`, `symbols.len() == gaps.len()`) therefore lifts to every
history of the editor (`Props/C05.lean`, section "editor level").
-/
namespace Chewing

/-- `c'` results from `c` by `CompositionEditor` method calls -/
inductive Reach : CompEditor → CompEditor → Prop
  | refl (c : CompEditor) : Reach c c
  | step {c c1 c2 : CompEditor} (op : CedOp) (h : c.apply op = .ok c1) (r : Reach c1 c2) : Reach c c2

namespace Reach

theorem trans {a b c : CompEditor} (h1 : Reach a b) (h2 : Reach b c) : Reach a c := by
  induction h1 with
  | refl _ => exact h2
  | step op h _ ih => exact .step op h (ih h2)

theorem one {c c' : CompEditor} (op : CedOp) (h : c.apply op = .ok c') : Reach c c' := .step op h (.refl _)

/-- a `Reach` is a successful `run` of some operation list -/
theorem exists_run {c c' : CompEditor} (h : Reach c c') : ∃ ops, c.run ops = .ok c' := by
  induction h with
  | refl c => exact ⟨[], rfl⟩
  | step op h _ ih =>
    obtain ⟨ops, ho⟩ := ih
    exact ⟨op :: ops, by simp only [CompEditor.run, h, ho]⟩

theorem pushCursor (c : CompEditor) : Reach c c.pushCursor := one .pushCursor rfl
theorem popCursor (c : CompEditor) : Reach c c.popCursor := one .popCursor rfl
theorem clampCursor (c : CompEditor) : Reach c c.clampCursor := one .clampCursor rfl
theorem moveCursor (c : CompEditor) (n : Nat) : Reach c (c.moveCursor n) := one (.moveCursor n) rfl
theorem clear (c : CompEditor) : Reach c c.clear := one .clear rfl
theorem moveToEnd (c : CompEditor) : Reach c c.moveToEnd := one .moveToEnd rfl
theorem moveToBeginning (c : CompEditor) : Reach c c.moveToBeginning := one .moveToBeginning rfl
theorem moveLeft (c : CompEditor) : Reach c c.moveLeft := one .moveLeft rfl
theorem moveRight (c : CompEditor) : Reach c c.moveRight := one .moveRight rfl
theorem insert {c c' : CompEditor} {x : Sym} (h : c.insert x = .ok c') : Reach c c' := one (.insert x) h
theorem replace {c c' : CompEditor} {x : Sym} (h : c.replace x = .ok c') : Reach c c' := one (.replace x) h
theorem select {c c' : CompEditor} {iv : Interval} (h : c.select iv = .ok c') : Reach c c' := one (.select iv) h
theorem removeFront {c c' : CompEditor} {n : Nat} (h : c.removeFront n = .ok c') : Reach c c' :=
  one (.removeFront n) h
theorem removeBeforeCursor {c c' : CompEditor} (h : c.removeBeforeCursor = .ok c') : Reach c c' :=
  one .removeBeforeCursor h
theorem removeAfterCursor {c c' : CompEditor} (h : c.removeAfterCursor = .ok c') : Reach c c' :=
  one .removeAfterCursor h
theorem insertGlue {c c' : CompEditor} (h : c.insertGlue = .ok c') : Reach c c' := one .insertGlue h
theorem insertBreak {c c' : CompEditor} (h : c.insertBreak = .ok c') : Reach c c' := one .insertBreak h

end Reach

theorem OutAll.map {α β : Type} {P : β → Prop} {f : α → β} {r : Outcome α}
    (h : OutAll (fun a => P (f a)) r) : OutAll P (Outcome.map f r) := by
  cases r <;> exact h

variable {D L : Type} (env : Env D L)

/-- `insertChars` is a sequence of `insert`s -/
theorem reach_insertChars (cs : List Nat) : ∀ (c c' : CompEditor), insertChars c cs = .ok c' → Reach c c' := by
  induction cs with
  | nil => intro c c' h; simp only [insertChars] at h; cases h; exact .refl _
  | cons x xs ih =>
    intro c c' h
    simp only [insertChars] at h
    split at h
    · next c1 h1 => exact (Reach.insert h1).trans (ih c1 c' h)
    · cases h
    · cases h

/-! ### step results -/

/-- every successful result of a state's `next` arm has a composition editor reachable from `c0` -/
def RStep (c0 : CompEditor) (r : StepRes D L) : Prop := ∀ sh' t, r = .ok (sh', t) → Reach c0 sh'.com

/-- closes `RStep c0 (.ok (x, t))` when `x.com` is (definitionally) a known `Reach` from `c0` -/
macro "rstep_leaf" e:term : tactic =>
  `(tactic| (intro sh' t h; injection h with h; injection h with h1 h2; subst h1 h2; exact $e))

theorem rstep_ite {c0 : CompEditor} {c : Prop} [Decidable c] {a b : StepRes D L}
    (h1 : RStep c0 a) (h2 : RStep c0 b) : RStep c0 (if c then a else b) := by
  split <;> assumption

theorem rstep_panic (c0 : CompEditor) (p : String) : RStep (D := D) (L := L) c0 (.panic p) := by
  intro sh' t h; cases h

theorem rstep_fuel (c0 : CompEditor) : RStep (D := D) (L := L) c0 .outOfFuel := by
  intro sh' t h; cases h

theorem rstep_withCom {c0 : CompEditor} (sh : Shared D L) (r : Outcome CompEditor) (k : Shared D L → StepRes D L)
    (hr : ∀ c, r = .ok c → Reach c0 c) (hk : ∀ c, r = .ok c → RStep c0 (k { sh with com := c })) :
    RStep c0 (withCom sh r k) := by
  unfold withCom
  cases r with
  | ok c => exact hk c rfl
  | panic p => exact rstep_panic _ p
  | outOfFuel => exact rstep_fuel _

theorem rstep_withCom_absorb {c0 : CompEditor} (sh : Shared D L) (r : Outcome CompEditor)
    (hr : ∀ c, r = .ok c → Reach c0 c) :
    RStep c0 (withCom sh r fun sh => .ok (sh, .spin .absorb)) :=
  rstep_withCom sh r _ hr fun c hc => by rstep_leaf (hr c hc)

theorem rstep_commitOrInsert (sh : Shared D L) (ch : Nat) : RStep sh.com (commitOrInsert sh ch) := by
  unfold commitOrInsert
  split
  · rstep_leaf (Reach.refl _)
  · exact rstep_withCom_absorb _ _ fun c h => Reach.insert h

theorem rstep_inputChar (sh : Shared D L) (ev : KeyEvent) : RStep sh.com (inputChar sh ev) := by
  unfold inputChar fullOrBell
  repeat' split
  all_goals first
    | exact rstep_commitOrInsert _ _
    | rstep_leaf (Reach.refl _)

theorem rstep_chineseFallback (sh : Shared D L) (ev : KeyEvent) : RStep sh.com (chineseFallback sh ev) := by
  unfold chineseFallback
  repeat' split
  all_goals first
    | exact rstep_withCom_absorb _ _ fun c h => Reach.insert h
    | exact rstep_inputChar _ _
    | rstep_leaf (Reach.refl _)

theorem rstep_newPhrase (sh : Shared D L) : RStep sh.com (newPhrase env sh) := by
  unfold newPhrase
  simp only
  split
  · rstep_leaf ((Reach.pushCursor _).trans (Reach.clampCursor _))
  · exact rstep_panic _ _
  · exact rstep_fuel _

theorem rstep_newPhraseSimple (sh : Shared D L) : RStep sh.com (newPhraseSimple sh) := by
  unfold newPhraseSimple
  simp only
  split
  · rstep_leaf (Reach.pushCursor _)
  · exact rstep_panic _ _
  · exact rstep_fuel _

theorem rstep_newSpecialSymbol (sh : Shared D L) (sym : Sym) : RStep sh.com (newSpecialSymbol sh sym) := by
  unfold newSpecialSymbol
  simp only
  split
  · rstep_leaf ((Reach.pushCursor _).trans (Reach.clampCursor _))
  · rstep_leaf ((Reach.pushCursor _).trans (Reach.clampCursor _))
  · exact rstep_panic _ _
  · exact rstep_fuel _

theorem rstep_openPhrase (sh : Shared D L) : RStep sh.com (openPhrase env sh) := by
  intro sh' t h
  rcases openPhrase_cases env h with ⟨h1, _⟩ | ⟨_, rfl⟩
  · exact rstep_newPhrase env sh sh' t h1
  · exact ((Reach.pushCursor _).trans (Reach.clampCursor _)).trans (Reach.popCursor _)

theorem rstep_openSymbol (sh : Shared D L) : RStep sh.com (openSymbol env sh) := by
  intro sh' t h
  obtain ⟨rfl, _⟩ := openSymbol_cases env h
  exact Reach.refl _

theorem rstep_openSpecialSymbol (sh : Shared D L) (sym : Sym) : RStep sh.com (openSpecialSymbol env sh sym) := by
  intro sh' t h
  rcases openSpecialSymbol_cases env h with ⟨h1, _⟩ | ⟨_, rfl⟩
  · exact rstep_newSpecialSymbol sh sym sh' t h1
  · exact ((Reach.pushCursor _).trans (Reach.clampCursor _)).trans (Reach.popCursor _)

theorem rstep_startSelecting (sh : Shared D L) : RStep sh.com (startSelecting env sh) := by
  unfold startSelecting
  repeat' split
  all_goals first
    | exact rstep_openPhrase env _
    | exact rstep_openSpecialSymbol env _ _
    | rstep_leaf (Reach.refl _)

theorem rstep_startSelectingOrInputSpace (sh : Shared D L) :
    RStep sh.com (startSelectingOrInputSpace env sh) := by
  unfold startSelectingOrInputSpace
  repeat' split
  all_goals first
    | exact rstep_openPhrase env _
    | exact rstep_openSpecialSymbol env _ _
    | rstep_leaf (Reach.refl _)

theorem rstep_learnTrans (sh : Shared D L) (a b : Nat) :
    RStep sh.com (learnTrans (Shared.learnInRangeNotify env sh a b)) := by
  unfold learnTrans
  split
  · rename_i sh1 okk hq
    have hc := (learnInRangeNotify_com env sh a b).elim hq
    intro sh' t h; injection h with h; injection h with h1 h2; subst h1
    rw [hc]; exact .refl _
  · exact rstep_panic _ _
  · exact rstep_fuel _

theorem rstep_enteringDefault (sh : Shared D L) (ev : KeyEvent) : RStep sh.com (enteringDefault env sh ev) := by
  unfold enteringDefault
  repeat' split
  all_goals first
    | exact rstep_withCom_absorb _ _ fun c h => Reach.insert h
    | exact rstep_withCom_absorb _ _ fun c h => reach_insertChars _ _ _ h
    | exact rstep_inputChar _ _
    | exact rstep_chineseFallback _ _
    | exact rstep_chineseFallback { sh with syl := (env.keyPress sh.syl ev).2 } ev
    | exact rstep_openSymbol env _
    | rstep_leaf (Reach.refl _)

theorem rstep_enteringBackspace (sh : Shared D L) : RStep sh.com (enteringBackspace sh) := by
  unfold enteringBackspace
  split
  · rstep_leaf (Reach.refl _)
  · exact rstep_withCom_absorb _ _ fun c h => Reach.removeBeforeCursor h

theorem rstep_enteringCtrlDigit (sh : Shared D L) (c : Nat) : RStep sh.com (enteringCtrlDigit env sh c) := by
  unfold enteringCtrlDigit
  repeat' (first | split | (dsimp only; split))
  all_goals first
    | exact rstep_learnTrans env _ _ _
    | exact rstep_openSymbol env _
    | rstep_leaf (Reach.refl _)

theorem rstep_enteringTabInside (sh : Shared D L) : RStep sh.com (enteringTabInside env sh) := by
  unfold enteringTabInside
  repeat' split
  all_goals first
    | exact rstep_withCom_absorb _ _ fun c h => Reach.insertGlue h
    | exact rstep_withCom_absorb _ _ fun c h => Reach.insertBreak h
    | exact rstep_panic _ _
    | exact rstep_fuel _

theorem rstep_enteringDel (sh : Shared D L) : RStep sh.com (enteringDel sh) := by
  unfold enteringDel
  split
  · rstep_leaf (Reach.refl _)
  · exact rstep_withCom_absorb _ _ fun c h => Reach.removeAfterCursor h

theorem rstep_enteringShiftLeft (sh : Shared D L) : RStep sh.com (enteringShiftLeft sh) := by
  unfold enteringShiftLeft
  split <;> rstep_leaf (Reach.refl _)

theorem rstep_enteringShiftRight (sh : Shared D L) : RStep sh.com (enteringShiftRight sh) := by
  unfold enteringShiftRight
  split <;> rstep_leaf (Reach.refl _)

/-! learning never touches the composition editor -/

theorem learnPhrase_com (sh : Shared D L) (k : List Nat) (p : Text) :
    OutAll (fun x => x.1.com = sh.com) (Shared.learnPhrase env sh k p) := by
  unfold Shared.learnPhrase
  repeat' (first | split | (dsimp only; split))
  all_goals first | exact rfl | trivial

theorem autoLearn_flush_com (sh : Shared D L) (pending : Text) (syls : List Sym) :
    OutAll (fun x => x.com = sh.com) (Shared.autoLearn.flush env sh pending syls) := by
  unfold Shared.autoLearn.flush
  split
  · exact rfl
  · split
    · rename_i sh1 b hq; exact (learnPhrase_com env sh _ _).elim hq
    · trivial
    · trivial

theorem autoLearn_go_com (ivs : List Interval) :
    ∀ (sh : Shared D L) (pending : Text) (syls : List Sym),
      OutAll (fun x => x.com = sh.com) (Shared.autoLearn.go env sh ivs pending syls) := by
  induction ivs with
  | nil => intro sh pending syls; unfold Shared.autoLearn.go; exact autoLearn_flush_com env sh pending syls
  | cons iv rest ih =>
    intro sh pending syls
    unfold Shared.autoLearn.go
    split
    · trivial
    · split
      · split
        · exact ih sh _ _
        · trivial
        · trivial
      · split
        · rename_i sh1 hf
          have h1 : sh1.com = sh.com := (autoLearn_flush_com env sh pending syls).elim hf
          split
          · split
            · split
              · rename_i ss hs sh2 b hq
                have h2 : sh2.com = sh1.com := (learnPhrase_com env sh1 _ _).elim hq
                have := ih sh2 [] []
                rw [h2, h1] at this; exact this
              · trivial
              · trivial
            · trivial
            · trivial
          · have := ih sh1 [] []
            rw [h1] at this; exact this
        · trivial
        · trivial

theorem autoLearn_com (sh : Shared D L) (ivs : List Interval) :
    OutAll (fun x => x.com = sh.com) (Shared.autoLearn env sh ivs) := by
  unfold Shared.autoLearn
  exact autoLearn_go_com env ivs sh [] []

/-- `SharedState::commit` clears the composition editor (and nothing else happens to it) -/
theorem commit_com (sh : Shared D L) :
    OutAll (fun x => x.com = sh.com.clear) (Shared.commit env sh) := by
  unfold Shared.commit
  split
  · trivial
  · trivial
  · rename_i ivs hc
    dsimp only
    split
    · rename_i sh1 hq
      split at hq
      · have := (autoLearn_com env { sh with commitBuf := [] } ivs).elim hq
        show sh1.com.clear = sh.com.clear
        rw [this]
      · cases hq; rfl
    · trivial
    · trivial

theorem rstep_enteringEnter (sh : Shared D L) : RStep sh.com (enteringEnter env sh) := by
  unfold enteringEnter
  split
  · rename_i sh1 hq
    have hc := (commit_com env sh).elim hq
    intro sh' t h; injection h with h; injection h with h1 h2; subst h1
    rw [hc]; exact Reach.clear _
  · exact rstep_panic _ _
  · exact rstep_fuel _

theorem rstep_enteringEsc (sh : Shared D L) : RStep sh.com (enteringEsc sh) := by
  unfold enteringEsc
  split
  · rstep_leaf (Reach.clear _)
  · rstep_leaf (Reach.refl _)

/-- `Entering::next`: the pre-edit buffer is touched only through `CompositionEditor` methods -/
theorem rstep_enteringNext (sh : Shared D L) (ev : KeyEvent) : RStep sh.com (enteringNext env sh ev) := by
  unfold enteringNext
  repeat' (with_reducible apply rstep_ite)
  all_goals first
    | exact rstep_enteringBackspace _
    | exact rstep_enteringCtrlDigit env _ _
    | exact rstep_enteringTabInside env _
    | exact rstep_enteringDel _
    | exact rstep_enteringShiftLeft _
    | exact rstep_enteringShiftRight _
    | exact rstep_enteringEnter env _
    | exact rstep_enteringEsc _
    | exact rstep_commitOrInsert _ _
    | exact rstep_enteringDefault env _ _
    | exact rstep_startSelecting env _
    | exact rstep_startSelectingOrInputSpace env _
    | rstep_leaf (Reach.refl _)
    | rstep_leaf (Reach.moveToBeginning _)
    | rstep_leaf (Reach.moveLeft _)
    | rstep_leaf (Reach.moveRight _)
    | rstep_leaf (Reach.moveToEnd _)

theorem rstep_syllableAnswer (sh : Shared D L) (beh : LayoutBeh) : RStep sh.com (syllableAnswer env sh beh) := by
  unfold syllableAnswer
  repeat' split
  all_goals first
    | exact rstep_withCom_absorb _ _ fun c h => Reach.insert h
    | rstep_leaf (Reach.refl _)
    | skip
  all_goals
    refine rstep_withCom _ _ _ (fun c h => Reach.insert h) fun c h => ?_
    dsimp only
    split
    · intro sh' t hh
      exact (Reach.insert h).trans (rstep_newPhraseSimple _ sh' t hh)
    · rstep_leaf (Reach.insert h)

/-- `EnteringSyllable::next` -/
theorem rstep_enteringSyllableNext (sh : Shared D L) (ev : KeyEvent) :
    RStep sh.com (enteringSyllableNext env sh ev) := by
  unfold enteringSyllableNext
  repeat' split
  all_goals first
    | exact rstep_syllableAnswer env { sh with syl := (env.fuzzyKeyPress sh.syl ev).2 } _
    | exact rstep_syllableAnswer env { sh with syl := (env.keyPress sh.syl ev).2 } _
    | rstep_leaf (Reach.refl _)
    | rstep_leaf (Reach.clear _)

/-! ### Selecting -/

def RSel (c0 : CompEditor) (r : Outcome (SelRes D L)) : Prop := ∀ x, r = .ok x → Reach c0 x.shared.com

macro "rsel_leaf" e:term : tactic =>
  `(tactic| (intro x h; injection h with h; subst h; exact $e))

theorem rsel_ite {c0 : CompEditor} {c : Prop} [Decidable c] {a b : Outcome (SelRes D L)}
    (h1 : RSel c0 a) (h2 : RSel c0 b) : RSel c0 (if c then a else b) := by
  split <;> assumption

theorem rsel_panic (c0 : CompEditor) (p : String) : RSel (D := D) (L := L) c0 (.panic p) := by
  intro x h; cases h

theorem rsel_fuel (c0 : CompEditor) : RSel (D := D) (L := L) c0 .outOfFuel := by
  intro x h; cases h

theorem rsel_selDownSpace (s : Selecting) (sh : Shared D L) : RSel sh.com (selDownSpace env s sh) := by
  unfold selDownSpace
  repeat' split
  all_goals first
    | exact rsel_panic _ _
    | exact rsel_fuel _
    | rsel_leaf (Reach.refl _)

theorem retarget_com (s : Selecting) (sh : Shared D L) :
    OutAll (fun x => x.1.com = sh.com) (retarget env s sh) := by
  unfold retarget
  repeat' split
  all_goals first | exact rfl | trivial

theorem rsel_closeIfEmpty (c0 : CompEditor) (r : SelRes D L) (hr : Reach c0 r.shared.com) :
    RSel c0 (closeIfEmpty env r) := by
  intro x h
  rcases closeIfEmpty_cases env h with rfl | rfl
  · exact hr
  · exact hr.trans (Reach.popCursor _)

theorem rsel_selMove (s : Selecting) (sh : Shared D L) (isJ : Bool) : RSel sh.com (selMove env s sh isJ) := by
  unfold selMove
  split
  · rsel_leaf (Reach.refl _)
  · dsimp only
    have hr : Reach sh.com (if isJ = true then sh.com.moveCursor ((match s.sel with
        | .phrase p => p.begin_
        | _ => sh.com.cursor) - 1)
        else (sh.com.moveCursor ((match s.sel with
        | .phrase p => p.begin_
        | _ => sh.com.cursor) + 1)).clampCursor) := by
      split
      · exact Reach.moveCursor _ _
      · exact (Reach.moveCursor _ _).trans (Reach.clampCursor _)
    split
    · rename_i sh' s' hq
      have := (retarget_com env s _).elim hq
      refine rsel_closeIfEmpty env _ _ ?_
      show Reach sh.com sh'.com
      rw [this]; exact hr
    · rename_i sh' t _ hq
      have := (retarget_com env s _).elim hq
      refine rsel_closeIfEmpty env _ _ ?_
      show Reach sh.com sh'.com
      rw [this]; exact hr
    · exact rsel_panic _ _
    · exact rsel_fuel _

theorem rsel_selPrevPage (s : Selecting) (sh : Shared D L) : RSel sh.com (selPrevPage env s sh) := by
  unfold selPrevPage
  repeat' split
  all_goals first
    | exact rsel_panic _ _
    | exact rsel_fuel _
    | rsel_leaf (Reach.refl _)

theorem rsel_selNextPage (s : Selecting) (sh : Shared D L) : RSel sh.com (selNextPage env s sh) := by
  unfold selNextPage
  repeat' split
  all_goals first
    | exact rsel_panic _ _
    | exact rsel_fuel _
    | rsel_leaf (Reach.refl _)

/-- `Selecting::select`: `select` (+ `pop_cursor`, `move_cursor_right`), or `insert`/`replace` + `pop_cursor` -/
theorem select_reach (s : Selecting) (sh : Shared D L) (n : Nat) :
    OutAll (fun x => Reach sh.com x.2.1.com) (Selecting.select env s sh n) := by
  unfold Selecting.select
  have hfin : ∀ (sh1 : Shared D L) (sym : Sym), sh1.com = sh.com →
      OutAll (fun x : Selecting × Shared D L × Trans => Reach sh.com x.2.1.com)
        (match (match s.action with
            | .insert => sh1.com.insert sym
            | .replace => sh1.com.replace sym) with
          | .ok com => .ok (s, { sh1 with com := com.popCursor }, .toState .entering)
          | .panic p => .panic p
          | .outOfFuel => .outOfFuel) := by
    intro sh1 sym h1
    split
    · rename_i com hq
      show Reach sh.com com.popCursor
      refine Reach.trans ?_ (Reach.popCursor _)
      rw [← h1]
      split at hq
      · exact Reach.insert hq
      · exact Reach.replace hq
    · trivial
    · trivial
  dsimp only
  -- the bounds check `offset >= candidates.len()` (F04/C07 fixes): panic / fuel / listed
  split
  · trivial
  · trivial
  · split
    · exact Reach.refl _
    · split
      · -- phrase
        split
        · split
          · split
            · rename_i com hq
              show Reach sh.com (if sh.options.autoShiftCursor = true then com.popCursor.moveRight else com.popCursor)
              split
              · exact ((Reach.select hq).trans (Reach.popCursor _)).trans (Reach.moveRight _)
              · exact (Reach.select hq).trans (Reach.popCursor _)
            · trivial
            · trivial
          · exact Reach.refl _
        · trivial
        · trivial
      · -- symbol
        split
        · rename_i sym y' hq
          exact OutAll.map (hfin sh sym rfl)
        · split
          · exact Reach.popCursor _
          · exact Reach.refl _
          · trivial
          · trivial
        · trivial
        · trivial
      · -- special
        split
        · exact hfin sh _ rfl
        · exact Reach.refl _
        · trivial
        · trivial

theorem rsel_selDigit (s : Selecting) (sh : Shared D L) (c : Nat) : RSel sh.com (selDigit env s sh c) := by
  unfold selDigit
  split
  · rename_i s' sh' t hq
    have h := (select_reach env s sh (c - 1)).elim hq
    rsel_leaf h
  · exact rsel_panic _ _
  · exact rsel_fuel _

/-- `Selecting::next` -/
theorem rsel_selectingNext (s : Selecting) (sh : Shared D L) (ev : KeyEvent) :
    RSel sh.com (selectingNext env s sh ev) := by
  unfold selectingNext
  repeat' (with_reducible apply rsel_ite)
  all_goals first
    | exact rsel_selDownSpace env _ _
    | exact rsel_selMove env _ _ _
    | exact rsel_selPrevPage env _ _
    | exact rsel_selNextPage env _ _
    | exact rsel_selDigit env _ _ _
    | rsel_leaf (Reach.refl _)
    | rsel_leaf (Reach.popCursor _)
    | rsel_leaf ((Reach.popCursor _).trans (Reach.popCursor _))

/-! ### Highlighting -/

theorem highlighting_reach (m : Nat) (sh : Shared D L) (ev : KeyEvent) :
    OutAll (fun x => Reach sh.com x.1.com) (highlightingNext env m sh ev) := by
  unfold highlightingNext
  dsimp only
  repeat' (first | split | (dsimp only; split))
  all_goals first
    | trivial
    | exact Reach.refl _
    | skip
  all_goals
    rename_i sh' b hq
    have := (learnInRangeNotify_com env _ _ _).elim hq
    show Reach sh.com sh'.com
    rw [this]
    exact Reach.moveCursor _ _

/-! ### auto-commit -/

/-- `try_auto_commit` either does nothing or calls `remove_front` -/
theorem tryAutoCommit_reach (sh : Shared D L) :
    OutAll (fun x => Reach sh.com x.com) (Shared.tryAutoCommit env sh) := by
  unfold Shared.tryAutoCommit
  dsimp only
  repeat' split
  all_goals first
    | trivial
    | exact Reach.refl _
    | skip
  all_goals
    rename_i com hq
    exact Reach.removeFront hq

/-! ### which arm of `Entering::next` a key takes -/

/-- the key codes that `Entering::next` matches by name (every arm except the two catch-alls) -/
def isNamedKey (c : Nat) : Bool :=
  c == KC.backspace || c == KC.tab || c == KC.del || c == KC.home || c == KC.left || c == KC.right ||
  c == KC.up || c == KC.down || c == KC.end_ || c == KC.pageUp || c == KC.pageDown || c == KC.enter || c == KC.esc

/-- the event falls through every named / guarded arm of `Entering::next` (arm order of the Rust
    `match`): it reaches `_ if ev.modifiers.numlock` or the final `_` arm -/
structure DefaultArm (sh : Shared D L) (ev : KeyEvent) : Prop where
  notNamed : isNamedKey ev.code = false
  notCaps : ¬ (ev.code = KC.unknown ∧ ev.mods.capslock = true)
  notCtrlDigit : ¬ (isDigitCode ev.code = true ∧ ev.mods.ctrl = true)
  notShiftSpace : ¬ (ev.code = KC.space ∧ ev.mods.shift = true ∧ sh.options.enableFullwidthToggleKey = true)
  notSelSpace : ¬ (ev.code = KC.space ∧ sh.options.spaceIsSelectKey = true ∧ sh.options.languageMode = .chinese)

theorem enteringNext_default {sh : Shared D L} {ev : KeyEvent} (h : DefaultArm sh ev) :
    enteringNext env sh ev =
      if ev.mods.numlock then commitOrInsert sh ev.unicode else enteringDefault env sh ev := by
  obtain ⟨h1, h2, h3, h4, h5⟩ := h
  simp only [isNamedKey, Bool.or_eq_false_iff] at h1
  obtain ⟨⟨⟨⟨⟨⟨⟨⟨⟨⟨⟨⟨a1, a2⟩, a3⟩, a4⟩, a5⟩, a6⟩, a7⟩, a8⟩, a9⟩, a10⟩, a11⟩, a12⟩, a13⟩ := h1
  unfold enteringNext
  simp [a1, a2, a3, a4, a5, a6, a7, a8, a9, a10, a11, a12, a13, isIdleKey]
  rw [if_neg h2, if_neg h3, if_neg (fun hh => h4 ⟨hh.1.1, hh.1.2, hh.2⟩), if_neg (fun hh => h5 ⟨hh.1.1, hh.1.2, hh.2⟩)]

theorem enteringNext_backspace {sh : Shared D L} {ev : KeyEvent} (h : ev.code = KC.backspace) :
    enteringNext env sh ev = enteringBackspace sh := by
  unfold enteringNext
  simp [h]

theorem enteringNext_del {sh : Shared D L} {ev : KeyEvent} (h : ev.code = KC.del) :
    enteringNext env sh ev = enteringDel sh := by
  unfold enteringNext
  simp [h, KC.del, KC.backspace, KC.unknown, KC.tab, isDigitCode, isIdleKey, KC.enter, KC.esc, KC.home, KC.end_,
    KC.left, KC.right, KC.up, KC.down, KC.pageUp, KC.pageDown]

/-- the cursor keys with a non-empty pre-edit (with an empty one they are passed through: C06) -/
theorem enteringNext_moves {sh : Shared D L} {ev : KeyEvent} (hne : sh.com.isEmpty = false) :
    (ev.code = KC.home → enteringNext env sh ev = .ok ({ sh with com := sh.com.moveToBeginning }, .spin .absorb)) ∧
    (ev.code = KC.left → ev.mods.shift = false →
      enteringNext env sh ev = .ok ({ sh with com := sh.com.moveLeft }, .spin .absorb)) ∧
    (ev.code = KC.right → ev.mods.shift = false →
      enteringNext env sh ev = .ok ({ sh with com := sh.com.moveRight }, .spin .absorb)) ∧
    (ev.code = KC.end_ ∨ ev.code = KC.pageUp ∨ ev.code = KC.pageDown →
      enteringNext env sh ev = .ok ({ sh with com := sh.com.moveToEnd }, .spin .absorb)) := by
  refine ⟨fun h => ?_, fun h hs => ?_, fun h hs => ?_, fun h => ?_⟩
  · unfold enteringNext
    simp [h, hne, KC.del, KC.backspace, KC.unknown, KC.tab, isDigitCode, isIdleKey, KC.enter, KC.esc, KC.home,
      KC.end_, KC.left, KC.right, KC.up, KC.down, KC.pageUp, KC.pageDown]
  · unfold enteringNext
    simp [h, hs, hne, KC.del, KC.backspace, KC.unknown, KC.tab, isDigitCode, isIdleKey, KC.enter, KC.esc, KC.home,
      KC.end_, KC.left, KC.right, KC.up, KC.down, KC.pageUp, KC.pageDown]
  · unfold enteringNext
    simp [h, hs, hne, KC.del, KC.backspace, KC.unknown, KC.tab, isDigitCode, isIdleKey, KC.enter, KC.esc, KC.home,
      KC.end_, KC.left, KC.right, KC.up, KC.down, KC.pageUp, KC.pageDown]
  · unfold enteringNext
    rcases h with h | h | h <;>
    simp [h, hne, KC.del, KC.backspace, KC.unknown, KC.tab, isDigitCode, isIdleKey, KC.enter, KC.esc, KC.home,
      KC.end_, KC.left, KC.right, KC.up, KC.down, KC.pageUp, KC.pageDown, KC.space]

/-- the CapsLock event and the Shift-Space event in `Entering` -/
theorem enteringNext_capslock {sh : Shared D L} {ev : KeyEvent} (h : ev.code = KC.unknown) (hc : ev.mods.capslock = true) :
    enteringNext env sh ev = .ok (Shared.switchLanguageMode sh, .spin .absorb) := by
  unfold enteringNext
  simp [h, hc, KC.unknown, KC.backspace]

theorem enteringNext_shiftSpace {sh : Shared D L} {ev : KeyEvent} (h : ev.code = KC.space) (hs : ev.mods.shift = true)
    (ht : sh.options.enableFullwidthToggleKey = true) :
    enteringNext env sh ev = .ok (Shared.switchCharacterForm sh, .spin .absorb) := by
  unfold enteringNext
  simp [h, hs, ht, KC.del, KC.backspace, KC.unknown, KC.tab, isDigitCode, isIdleKey, KC.enter, KC.esc, KC.home,
    KC.end_, KC.left, KC.right, KC.up, KC.down, KC.pageUp, KC.pageDown, KC.space]

/-! ### what the inserting arms do -/

theorem withCom_ok {sh : Shared D L} {r : Outcome CompEditor} {k : Shared D L → StepRes D L}
    {x : Shared D L × Trans} (h : withCom sh r k = .ok x) : ∃ c, r = .ok c ∧ k { sh with com := c } = .ok x := by
  unfold withCom at h
  split at h
  · next c => exact ⟨c, rfl, h⟩
  · cases h
  · cases h

/-- commit at once when the buffer is empty, else insert at the cursor -/
theorem commitOrInsert_spec {sh sh' : Shared D L} {ch : Nat} {t : Trans} (h : commitOrInsert sh ch = .ok (sh', t)) :
    (sh.com.isEmpty = true ∧ sh' = { sh with commitBuf := [ch] } ∧ t = .spin .commit) ∨
    (sh.com.isEmpty = false ∧ t = .spin .absorb ∧ sh.com.insert (.chr ch) = .ok sh'.com ∧
      sh' = { sh with com := sh'.com }) := by
  unfold commitOrInsert at h
  split at h
  · next he =>
    injection h with h; injection h with h1 h2
    exact Or.inl ⟨he, h1.symm, h2.symm⟩
  · next he =>
    obtain ⟨c, hc, hk⟩ := withCom_ok h
    injection hk with hk; injection hk with h1 h2
    subst h1
    exact Or.inr ⟨by simpa using he, h2.symm, hc, rfl⟩

end Chewing
