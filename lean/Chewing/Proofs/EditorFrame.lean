import Chewing.Model.Editor
/-!
Frame lemmas for the editor state machine (C06): whenever a state's `next` reports *ignore* the
shared state is returned untouched, and whenever it reports *bell* the composition editor (pre-edit
symbols, gaps, selections, cursor, saved cursors) is untouched.  For every environment.
-/
namespace Chewing

variable {D L : Type} (env : Env D L)

/-- frame conditions on a step result: *ignore* returns exactly `sh0`, *bell* leaves `c0` -/
def Frame (sh0 : Shared D L) (c0 : CompEditor) (r : StepRes D L) : Prop :=
  ∀ sh' t, r = .ok (sh', t) →
    (t = .spin .ignore → sh' = sh0) ∧ (t = .spin .bell → sh'.com = c0)

/-- closes `Frame sh0 c0 (.ok (x, t))` for a concrete transition `t` -/
macro "frame_leaf" : tactic =>
  `(tactic| (intro sh' t h; injection h with h; injection h with h1 h2; subst h1 h2;
             exact ⟨fun c => by cases c <;> rfl, fun c => by cases c <;> rfl⟩))

theorem frame_ite {sh0 : Shared D L} {c0 : CompEditor} {c : Prop} [Decidable c] {a b : StepRes D L}
    (h1 : Frame sh0 c0 a) (h2 : Frame sh0 c0 b) : Frame sh0 c0 (if c then a else b) := by
  split <;> assumption

theorem frame_panic (sh0 : Shared D L) (c0 : CompEditor) (p : String) : Frame sh0 c0 (.panic p) := by
  intro sh' t h; cases h

theorem frame_fuel (sh0 : Shared D L) (c0 : CompEditor) : Frame sh0 c0 .outOfFuel := by
  intro sh' t h; cases h

theorem frame_withCom_absorb (sh0 sh : Shared D L) (c0 : CompEditor) (r : Outcome CompEditor) :
    Frame sh0 c0 (withCom sh r fun sh => .ok (sh, .spin .absorb)) := by
  unfold withCom
  cases r with
  | ok c => frame_leaf
  | panic p => exact frame_panic _ _ p
  | outOfFuel => exact frame_fuel _ _

theorem frame_commitOrInsert (sh0 sh : Shared D L) (c0 : CompEditor) (ch : Nat) :
    Frame sh0 c0 (commitOrInsert sh ch) := by
  unfold commitOrInsert
  split
  · frame_leaf
  · exact frame_withCom_absorb _ _ _ _

theorem frame_inputChar (sh0 sh : Shared D L) (ev : KeyEvent) :
    Frame sh0 sh.com (inputChar sh ev) := by
  unfold inputChar fullOrBell
  repeat' split
  all_goals first
    | exact frame_commitOrInsert _ _ _ _
    | frame_leaf

theorem frame_chineseFallback (sh0 sh : Shared D L) (ev : KeyEvent) :
    Frame sh0 sh.com (chineseFallback sh ev) := by
  unfold chineseFallback
  repeat' split
  all_goals first
    | exact frame_withCom_absorb _ _ _ _
    | exact frame_inputChar _ _ _
    | frame_leaf

theorem frame_newPhrase (sh0 sh : Shared D L) (c0 : CompEditor) : Frame sh0 c0 (newPhrase env sh) := by
  unfold newPhrase
  simp only
  split
  · frame_leaf
  · exact frame_panic _ _ _
  · exact frame_fuel _ _

/-! ### `open_phrase` (F02 / F03 repair): `new_phrase`, or — for a list without candidates — the saved
cursor restored and the request ignored.  Generic case lemmas, used by every frame family. -/

/-- popping the cursor saved by `new_phrase` restores the composition editor (cursor inside the buffer) -/
theorem pop_push_clamp (c : CompEditor) (h : c.cursor ≤ c.inner.len) : c.pushCursor.clampCursor.popCursor = c := by
  unfold CompEditor.clampCursor CompEditor.pushCursor
  split <;>
  · unfold CompEditor.popCursor
    simp only [List.getLast?_append, List.getLast?_singleton, Option.some_or, List.dropLast_concat]
    rw [Nat.min_eq_left h]

/-- `symbol_for_select` answers only with the cursor inside the buffer -/
theorem cursor_le_of_symbolForSelect {c : CompEditor} {sym : Sym} (h : c.symbolForSelect = some sym) :
    c.cursor ≤ c.inner.len := by
  unfold CompEditor.symbolForSelect CompEditor.isEob at h
  split at h
  · next he => simp only [beq_iff_eq] at he; omega
  · unfold Composition.symbol? at h
    split at h
    · cases h
    · next hlt => exact Nat.le_of_lt (Nat.lt_of_not_ge hlt)

/-- what `new_phrase` returns: the cursor saved and clamped, a phrase list -/
theorem newPhrase_shape {sh sh' : Shared D L} {t : Trans} (h : newPhrase env sh = .ok (sh', t)) :
    sh' = { sh with com := sh.com.pushCursor.clampCursor } ∧ ∃ s, t = .toState (.selecting s) := by
  unfold newPhrase at h
  simp only at h
  split at h
  · injection h with h; injection h with h1 h2; exact ⟨h1.symm, _, h2.symm⟩
  · cases h
  · cases h

/-- the two ways `open_phrase` returns: as `new_phrase` did (a list with candidates), or ignored with the
    saved cursor popped again -/
theorem openPhrase_cases {sh sh' : Shared D L} {t : Trans} (h : openPhrase env sh = .ok (sh', t)) :
    (newPhrase env sh = .ok (sh', t) ∧ ∃ s, t = .toState (.selecting s)) ∨
    (t = .spin .ignore ∧ sh' = Shared.cancelSelecting { sh with com := sh.com.pushCursor.clampCursor }) := by
  unfold openPhrase at h
  split at h
  · next sh1 s hn =>
    split at h
    · injection h with h; injection h with h1 h2
      exact .inr ⟨h2.symm, by rw [← h1, (newPhrase_shape env hn).1]⟩
    · injection h with h; injection h with h1 h2
      exact .inl ⟨by rw [hn, ← h1, ← h2], s, h2.symm⟩
    · cases h
    · cases h
  · next hne =>
    obtain ⟨_, s, hs⟩ := newPhrase_shape env h
    exact absurd (hs ▸ h) (hne _ _)

/-- … with the cursor inside the buffer the ignored request returns the shared state untouched -/
theorem openPhrase_ignore {sh sh' : Shared D L} {t : Trans} (hc : sh.com.cursor ≤ sh.com.inner.len)
    (h : openPhrase env sh = .ok (sh', t)) :
    (newPhrase env sh = .ok (sh', t) ∧ ∃ s, t = .toState (.selecting s)) ∨ (t = .spin .ignore ∧ sh' = sh) := by
  rcases openPhrase_cases env h with h1 | ⟨h1, h2⟩
  · exact .inl h1
  · refine .inr ⟨h1, ?_⟩
    rw [h2]
    unfold Shared.cancelSelecting
    simp only [pop_push_clamp _ hc]

theorem frame_openPhrase (sh : Shared D L) (c0 : CompEditor) (hc : sh.com.cursor ≤ sh.com.inner.len) :
    Frame sh c0 (openPhrase env sh) := by
  intro sh' t h
  rcases openPhrase_ignore env hc h with ⟨_, s, rfl⟩ | ⟨rfl, rfl⟩
  · exact ⟨fun c => (by cases c), fun c => (by cases c)⟩
  · exact ⟨fun _ => rfl, fun c => (by cases c)⟩

theorem frame_newPhraseSimple (sh0 sh : Shared D L) (c0 : CompEditor) : Frame sh0 c0 (newPhraseSimple sh) := by
  unfold newPhraseSimple
  simp only
  split
  · frame_leaf
  · exact frame_panic _ _ _
  · exact frame_fuel _ _

theorem frame_newSpecialSymbol (sh0 sh : Shared D L) (c0 : CompEditor) (sym : Sym) :
    Frame sh0 c0 (newSpecialSymbol sh sym) := by
  unfold newSpecialSymbol
  simp only
  split
  · frame_leaf
  · frame_leaf
  · exact frame_panic _ _ _
  · exact frame_fuel _ _

/-! ### `open_symbol` / `open_special_symbol` (FX1 repair): `new_symbol` / `new_special_symbol`, or — for a
list without candidates (no symbol table) — the request ignored (the saved cursor restored).  Generic case
lemmas, used by every frame family. -/

/-- the two ways `open_symbol` returns: the symbol table opened, or (an empty table) ignored; the shared
    state is untouched either way -/
theorem openSymbol_cases {sh sh' : Shared D L} {t : Trans} (h : openSymbol env sh = .ok (sh', t)) :
    sh' = sh ∧ (t = .toState (.selecting (newSymbol sh)) ∨ t = .spin .ignore) := by
  unfold openSymbol at h
  split at h
  · injection h with h; injection h with h1 h2; exact ⟨h1.symm, .inr h2.symm⟩
  · injection h with h; injection h with h1 h2; exact ⟨h1.symm, .inl h2.symm⟩
  · cases h
  · cases h

theorem frame_openSymbol (sh : Shared D L) (c0 : CompEditor) : Frame sh c0 (openSymbol env sh) := by
  intro sh' t h
  obtain ⟨rfl, rfl | rfl⟩ := openSymbol_cases env h
  · exact ⟨fun c => (by cases c), fun c => (by cases c)⟩
  · exact ⟨fun _ => rfl, fun c => (by cases c)⟩

/-- what `new_special_symbol` returns: the cursor saved and clamped, a list (special symbols, or the symbol
    table to replace the character) -/
theorem newSpecialSymbol_shape {sh sh' : Shared D L} {sym : Sym} {t : Trans}
    (h : newSpecialSymbol sh sym = .ok (sh', t)) :
    sh' = { sh with com := sh.com.pushCursor.clampCursor } ∧
    (t = .toState (.selecting { newSymbol { sh with com := sh.com.pushCursor.clampCursor } with action := .replace }) ∨
     t = .toState (.selecting { pageNo := 0, action := .replace, sel := .special sym })) := by
  unfold newSpecialSymbol at h
  simp only at h
  split at h
  · injection h with h; injection h with h1 h2; exact ⟨h1.symm, .inl h2.symm⟩
  · injection h with h; injection h with h1 h2; exact ⟨h1.symm, .inr h2.symm⟩
  · cases h
  · cases h

/-- the two ways `open_special_symbol` returns: as `new_special_symbol` did (a list with candidates), or
    ignored with the saved cursor popped again -/
theorem openSpecialSymbol_cases {sh sh' : Shared D L} {sym : Sym} {t : Trans}
    (h : openSpecialSymbol env sh sym = .ok (sh', t)) :
    (newSpecialSymbol sh sym = .ok (sh', t) ∧ ∃ s, t = .toState (.selecting s)) ∨
    (t = .spin .ignore ∧ sh' = Shared.cancelSelecting { sh with com := sh.com.pushCursor.clampCursor }) := by
  unfold openSpecialSymbol at h
  split at h
  · next sh1 s hn =>
    split at h
    · injection h with h; injection h with h1 h2
      exact .inr ⟨h2.symm, by rw [← h1, (newSpecialSymbol_shape hn).1]⟩
    · injection h with h; injection h with h1 h2
      exact .inl ⟨by rw [hn, ← h1, ← h2], s, h2.symm⟩
    · cases h
    · cases h
  · next hne =>
    obtain ⟨_, hs | hs⟩ := newSpecialSymbol_shape h
    · exact absurd (hs ▸ h) (hne _ _)
    · exact absurd (hs ▸ h) (hne _ _)

/-- … with the cursor inside the buffer the ignored request returns the shared state untouched -/
theorem openSpecialSymbol_ignore {sh sh' : Shared D L} {sym : Sym} {t : Trans} (hc : sh.com.cursor ≤ sh.com.inner.len)
    (h : openSpecialSymbol env sh sym = .ok (sh', t)) :
    (newSpecialSymbol sh sym = .ok (sh', t) ∧ ∃ s, t = .toState (.selecting s)) ∨ (t = .spin .ignore ∧ sh' = sh) := by
  rcases openSpecialSymbol_cases env h with h1 | ⟨h1, h2⟩
  · exact .inl h1
  · refine .inr ⟨h1, ?_⟩
    rw [h2]
    unfold Shared.cancelSelecting
    simp only [pop_push_clamp _ hc]

theorem frame_openSpecialSymbol (sh : Shared D L) (c0 : CompEditor) (sym : Sym) (hc : sh.com.cursor ≤ sh.com.inner.len) :
    Frame sh c0 (openSpecialSymbol env sh sym) := by
  intro sh' t h
  rcases openSpecialSymbol_ignore env hc h with ⟨_, s, rfl⟩ | ⟨rfl, rfl⟩
  · exact ⟨fun c => (by cases c), fun c => (by cases c)⟩
  · exact ⟨fun _ => rfl, fun c => (by cases c)⟩

theorem frame_startSelecting (sh : Shared D L) : Frame sh sh.com (startSelecting env sh) := by
  unfold startSelecting
  split
  · next sym hs =>
    split
    · exact frame_openPhrase env _ _ (cursor_le_of_symbolForSelect hs)
    · exact frame_openSpecialSymbol env _ _ _ (cursor_le_of_symbolForSelect hs)
  · frame_leaf

theorem frame_startSelectingOrInputSpace (sh : Shared D L) :
    Frame sh sh.com (startSelectingOrInputSpace env sh) := by
  unfold startSelectingOrInputSpace
  split
  · next sym hs =>
    split
    · exact frame_openPhrase env _ _ (cursor_le_of_symbolForSelect hs)
    · exact frame_openSpecialSymbol env _ _ _ (cursor_le_of_symbolForSelect hs)
  · repeat' split
    all_goals frame_leaf

/-! learning inside the buffer never touches the composition editor -/

/-- a property of the value of a successful outcome -/
def OutAll {α : Type} (P : α → Prop) : Outcome α → Prop
  | .ok a => P a
  | _ => True

theorem OutAll.elim {α : Type} {P : α → Prop} {r : Outcome α} {a : α} (h : OutAll P r) (e : r = .ok a) : P a := by
  subst e; exact h

theorem learnInRangeQuiet_com (sh : Shared D L) (a b : Nat) :
    OutAll (fun x => x.1.com = sh.com) (Shared.learnInRangeQuiet env sh a b) := by
  unfold Shared.learnInRangeQuiet
  repeat' (first | split | (dsimp only; split))
  all_goals first | exact rfl | trivial

theorem learnInRangeNotify_com (sh : Shared D L) (a b : Nat) :
    OutAll (fun x => x.1.com = sh.com) (Shared.learnInRangeNotify env sh a b) := by
  unfold Shared.learnInRangeNotify
  split
  · rename_i sh1 phrase hq; exact (learnInRangeQuiet_com env sh a b).elim hq
  · rename_i sh1 msg hq; exact (learnInRangeQuiet_com env sh a b).elim hq
  · trivial
  · trivial

theorem frame_learnTrans (sh0 sh : Shared D L) (a b : Nat) :
    Frame sh0 sh.com (learnTrans (Shared.learnInRangeNotify env sh a b)) := by
  unfold learnTrans
  split
  · rename_i sh1 okk hq
    have hc := (learnInRangeNotify_com env sh a b).elim hq
    cases okk
    · intro sh' t h; injection h with h; injection h with h1 h2; subst h1 h2
      exact ⟨fun c => (by cases c), fun _ => hc⟩
    · frame_leaf
  · exact frame_panic _ _ _
  · exact frame_fuel _ _

theorem frame_enteringDefault (sh : Shared D L) (ev : KeyEvent) :
    Frame sh sh.com (enteringDefault env sh ev) := by
  unfold enteringDefault
  repeat' split
  all_goals first
    | exact frame_withCom_absorb _ _ _ _
    | exact frame_inputChar _ _ _
    | exact frame_chineseFallback _ _ _
    | exact frame_chineseFallback sh { sh with syl := (env.keyPress sh.syl ev).2 } ev
    | exact frame_openSymbol env _ _
    | frame_leaf

theorem frame_enteringBackspace (sh : Shared D L) : Frame sh sh.com (enteringBackspace sh) := by
  unfold enteringBackspace
  split
  · frame_leaf
  · exact frame_withCom_absorb _ _ _ _

theorem frame_enteringCtrlDigit (sh : Shared D L) (c : Nat) : Frame sh sh.com (enteringCtrlDigit env sh c) := by
  unfold enteringCtrlDigit
  repeat' (first | split | (dsimp only; split))
  all_goals first
    | exact frame_learnTrans env _ _ _ _
    | exact frame_openSymbol env _ _
    | frame_leaf

theorem frame_enteringTabInside (sh : Shared D L) : Frame sh sh.com (enteringTabInside env sh) := by
  unfold enteringTabInside
  repeat' split
  all_goals first
    | exact frame_withCom_absorb _ _ _ _
    | exact frame_panic _ _ _
    | exact frame_fuel _ _

theorem frame_enteringDel (sh : Shared D L) : Frame sh sh.com (enteringDel sh) := by
  unfold enteringDel
  split
  · frame_leaf
  · exact frame_withCom_absorb _ _ _ _

theorem frame_enteringShiftLeft (sh : Shared D L) : Frame sh sh.com (enteringShiftLeft sh) := by
  unfold enteringShiftLeft
  split <;> frame_leaf

theorem frame_enteringShiftRight (sh : Shared D L) : Frame sh sh.com (enteringShiftRight sh) := by
  unfold enteringShiftRight
  split <;> frame_leaf

theorem frame_enteringEnter (sh : Shared D L) : Frame sh sh.com (enteringEnter env sh) := by
  unfold enteringEnter
  split
  · frame_leaf
  · exact frame_panic _ _ _
  · exact frame_fuel _ _

theorem frame_enteringEsc (sh : Shared D L) : Frame sh sh.com (enteringEsc sh) := by
  unfold enteringEsc
  split <;> frame_leaf

/-- C06 core, `Entering`: ignore ⇒ nothing changed; bell ⇒ pre-edit and cursor unchanged -/
theorem frame_enteringNext (sh : Shared D L) (ev : KeyEvent) :
    Frame sh sh.com (enteringNext env sh ev) := by
  unfold enteringNext
  repeat' (with_reducible apply frame_ite)
  all_goals first
    | exact frame_enteringBackspace _
    | exact frame_enteringCtrlDigit env _ _
    | exact frame_enteringTabInside env _
    | exact frame_enteringDel _
    | exact frame_enteringShiftLeft _
    | exact frame_enteringShiftRight _
    | exact frame_enteringEnter env _
    | exact frame_enteringEsc _
    | exact frame_commitOrInsert _ _ _ _
    | exact frame_enteringDefault env _ _
    | exact frame_startSelecting env _
    | exact frame_startSelectingOrInputSpace env _
    | frame_leaf

theorem frame_syllableAnswer (sh0 sh : Shared D L) (beh : LayoutBeh) :
    Frame sh0 sh.com (syllableAnswer env sh beh) := by
  unfold syllableAnswer
  repeat' split
  all_goals first
    | exact frame_withCom_absorb _ _ _ _
    | frame_leaf
    | skip
  -- the commit arm: `withCom` with a continuation that never spins
  all_goals
    unfold withCom
    split
    · dsimp only
      split
      · exact frame_newPhraseSimple _ _ _
      · frame_leaf
    · exact frame_panic _ _ _
    · exact frame_fuel _ _

/-- C06 core, `EnteringSyllable`: never ignore; bell leaves the pre-edit untouched -/
theorem frame_enteringSyllableNext (sh : Shared D L) (ev : KeyEvent) :
    Frame sh sh.com (enteringSyllableNext env sh ev) := by
  unfold enteringSyllableNext
  repeat' split
  all_goals first
    | exact frame_syllableAnswer env sh { sh with syl := (env.fuzzyKeyPress sh.syl ev).2 } _
    | exact frame_syllableAnswer env sh { sh with syl := (env.keyPress sh.syl ev).2 } _
    | frame_leaf

/-! ### Selecting -/

/-- frame conditions for `Selecting::next` -/
def FrameSel (sh0 : Shared D L) (s0 : Selecting) (r : Outcome (SelRes D L)) : Prop :=
  ∀ x, r = .ok x →
    (x.trans = .spin .ignore → x.shared = sh0 ∧ x.sel = s0) ∧ (x.trans = .spin .bell → x.shared.com = sh0.com)

macro "framesel_leaf" : tactic =>
  `(tactic| (intro x h; injection h with h; subst h;
             exact ⟨fun c => by cases c <;> exact ⟨rfl, rfl⟩, fun c => by cases c <;> rfl⟩))

theorem frameSel_ite {sh0 : Shared D L} {s0 : Selecting} {c : Prop} [Decidable c] {a b : Outcome (SelRes D L)}
    (h1 : FrameSel sh0 s0 a) (h2 : FrameSel sh0 s0 b) : FrameSel sh0 s0 (if c then a else b) := by
  split <;> assumption

theorem frameSel_panic (sh0 : Shared D L) (s0 : Selecting) (p : String) : FrameSel sh0 s0 (.panic p) := by
  intro x h; cases h

theorem frameSel_fuel (sh0 : Shared D L) (s0 : Selecting) : FrameSel sh0 s0 .outOfFuel := by
  intro x h; cases h

theorem frameSel_selDownSpace (s : Selecting) (sh : Shared D L) : FrameSel sh s (selDownSpace env s sh) := by
  unfold selDownSpace
  repeat' split
  all_goals first
    | exact frameSel_panic _ _ _
    | exact frameSel_fuel _ _
    | framesel_leaf

/-- the two ways the `j` / `k` arms end: the retargeted list, or — without candidates — the list closed
    and the saved cursor restored -/
theorem closeIfEmpty_cases {r x : SelRes D L} (h : closeIfEmpty env r = .ok x) :
    x = r ∨ x = ⟨Shared.cancelSelecting r.shared, r.sel, .toState .entering⟩ := by
  unfold closeIfEmpty at h
  split at h
  · split at h
    · injection h with h; exact .inr h.symm
    · injection h with h; exact .inl h.symm
  · cases h
  · cases h

theorem frameSel_closeIfEmpty (sh0 : Shared D L) (s0 : Selecting) (r : SelRes D L) (hr : r.trans = .spin .absorb) :
    FrameSel sh0 s0 (closeIfEmpty env r) := by
  intro x h
  rcases closeIfEmpty_cases env h with rfl | rfl
  · rw [hr]; exact ⟨fun c => (by cases c), fun c => (by cases c)⟩
  · exact ⟨fun c => (by cases c), fun c => (by cases c)⟩

theorem frameSel_selMove (s : Selecting) (sh : Shared D L) (isJ : Bool) : FrameSel sh s (selMove env s sh isJ) := by
  unfold selMove
  repeat' (first | split | (dsimp only; split))
  all_goals first
    | exact frameSel_panic _ _ _
    | exact frameSel_fuel _ _
    | exact frameSel_closeIfEmpty env _ _ _ rfl
    | framesel_leaf

theorem frameSel_selPrevPage (s : Selecting) (sh : Shared D L) : FrameSel sh s (selPrevPage env s sh) := by
  unfold selPrevPage
  repeat' split
  all_goals first
    | exact frameSel_panic _ _ _
    | exact frameSel_fuel _ _
    | framesel_leaf

theorem frameSel_selNextPage (s : Selecting) (sh : Shared D L) : FrameSel sh s (selNextPage env s sh) := by
  unfold selNextPage
  repeat' split
  all_goals first
    | exact frameSel_panic _ _ _
    | exact frameSel_fuel _ _
    | framesel_leaf

/-- `Selecting::select`: a rejected (bell) choice changes nothing at all; it never reports ignore -/
theorem select_frame (s : Selecting) (sh : Shared D L) (n : Nat) :
    OutAll (fun x => x.2.2 ≠ .spin .ignore ∧ (x.2.2 = .spin .bell → x.2.1 = sh ∧ x.1 = s))
      (Selecting.select env s sh n) := by
  unfold Selecting.select
  repeat' (first | split | (dsimp only; split))
  all_goals first
    | trivial
    | exact ⟨by simp, by simp⟩
    | skip
  all_goals
    simp only [Outcome.map]
    repeat' split
    all_goals first
      | trivial
      | exact ⟨by simp, by simp⟩

theorem frameSel_selDigit (s : Selecting) (sh : Shared D L) (c : Nat) : FrameSel sh s (selDigit env s sh c) := by
  unfold selDigit
  split
  · rename_i s' sh' t hq
    have h := (select_frame env s sh (c - 1)).elim hq
    simp only at h
    intro x hx; injection hx with hx; subst hx
    exact ⟨fun c => absurd c h.1, fun c => by have := (h.2 c).1; subst this; rfl⟩
  · exact frameSel_panic _ _ _
  · exact frameSel_fuel _ _

/-- C06 core, `Selecting`: ignore ⇒ nothing changed; bell ⇒ pre-edit and cursor unchanged -/
theorem frameSel_selectingNext (s : Selecting) (sh : Shared D L) (ev : KeyEvent) :
    FrameSel sh s (selectingNext env s sh ev) := by
  unfold selectingNext
  repeat' (with_reducible apply frameSel_ite)
  all_goals first
    | exact frameSel_selDownSpace env _ _
    | exact frameSel_selMove env _ _ _
    | exact frameSel_selPrevPage env _ _
    | exact frameSel_selNextPage env _ _
    | exact frameSel_selDigit env _ _ _
    | framesel_leaf

/-! ### Highlighting: never ignore, never bell -/

theorem highlighting_no_ignore_bell (m : Nat) (sh : Shared D L) (ev : KeyEvent) :
    OutAll (fun x => x.2.2 ≠ .spin .ignore ∧ x.2.2 ≠ .spin .bell) (highlightingNext env m sh ev) := by
  unfold highlightingNext
  repeat' (first | split | (dsimp only; split))
  all_goals first
    | trivial
    | exact ⟨by simp, by simp⟩

end Chewing
