import Chewing.Props.C01
import Chewing.Proofs.EditorCommitHistory
/-!
# Links between the editor-level properties (round 2)

Several editor properties proved their theorems UNDER HYPOTHESES that other properties establish:

* C02 `history_ledger` assumes `TilesAlong` (the conversion answer tiles the buffer at every edited state
  of the history), C05 `bounded_after_key` assumes `TilingEnv`, C18's whole-key theorems assume "buffer within
  the threshold";
* C01 proves that `EditorInv` (C04's composition invariant, C05's cursor invariant, a word for every
  buffered syllable) is an invariant of every history outside the known class, for every environment
  satisfying `EnvOK` — whose clause `convert_ok` is C03's theorem about the engines (`engines_satisfy_convert_ok`).

This file connects them: `EditorInv` at the state a commit path runs in gives the tiling (`tilesAt_of_shInv`),
the states *inside* a step (`dispatch` result, `editPart`) satisfy the shared-state invariant
(`dispatch_shInv`, `editPart_shInv`), hence `TilesAlong` holds along every allowed history
(`tilesAlong_of_allowed`).  No new hypothesis: everything is derived from `EnvOK` and `EditorInv`.
-/
namespace Chewing.Link
open Chewing Chewing.C01 Chewing.C06

variable {D L : Type} {env : Env D L} {G : D → Prop} {w : Prop}

/-! ## the tiling hypotheses, from C01's invariant -/

/-- what C01's `PathOK` says is C02's `Tiles` -/
theorem tiles_of_pathOK {c : Composition} {p : List Interval} (h : PathOK c p) : C02.Tiles 0 c.symbols.length p :=
  C02.tiles_of_chain h.1 h.2

/-- **C02's `TilesAt` from C01's invariant**: at a shared state satisfying `ShInv` (valid composition, a word
    for every buffered syllable, well-formed dictionary) every alternative the engine returns tiles the
    buffer — by `EnvOK.convert_ok` (C03) alone -/
theorem tilesAt_of_shInv (hE : EnvOK env G) {sh : Shared D L} (h : ShInv env G True sh) : C02.TilesAt env sh := by
  intro paths hp p hm
  obtain ⟨paths', hp', _, hall⟩ := hE.convert_ok sh.engine sh.dict sh.com.inner h.good
    (compValid_of_cinv h.ced.inner)
  have hlen := hE.convert_len sh.engine sh.dict sh.com.inner paths h.good (compValid_of_cinv h.ced.inner)
    (fun x hx => (h.word trivial x hx).1) hp p hm
  rw [hp] at hp'
  have := Outcome.ok.inj hp'
  subst this
  exact tiles_of_pathOK ⟨(hall p hm).1, hlen⟩

/-- a chain has well-formed intervals whose lengths sum to the covered range (C05's `TilesLen`) — whatever the
    texts are (also with the spelling of a word-less syllable) -/
theorem tilesLen_of_chain {a n : Nat} {ivs : List Interval} (h : Conv.IvChain a n ivs) :
    (∀ iv ∈ ivs, iv.start ≤ iv.stop) ∧ a + (ivs.map Interval.len).sum = n := by
  induction ivs generalizing a with
  | nil => exact ⟨fun _ hm => (by cases hm), by simp only [List.map_nil, List.sum_nil, Nat.add_zero]; exact h⟩
  | cons iv rest ih =>
    obtain ⟨h1, h2, h3⟩ := h
    obtain ⟨i1, i2⟩ := ih h3
    refine ⟨?_, ?_⟩
    · intro x hx
      rcases List.mem_cons.mp hx with rfl | hx
      · omega
      · exact i1 x hx
    · simp only [List.map_cons, List.sum_cons, Interval.len]
      omega

/-- a tiling has well-formed intervals whose lengths sum to the covered range (C05's `TilesLen`) -/
theorem tilesLen_of_tiles {a n : Nat} {ivs : List Interval} (h : C02.Tiles a n ivs) :
    (∀ iv ∈ ivs, iv.start ≤ iv.stop) ∧ a + (ivs.map Interval.len).sum = n := by
  induction ivs generalizing a with
  | nil => exact ⟨fun _ hm => (by cases hm), by simp only [List.map_nil, List.sum_nil, Nat.add_zero]; exact h⟩
  | cons iv rest ih =>
    obtain ⟨h1, h2, _, h4⟩ := h
    obtain ⟨i1, i2⟩ := ih h4
    refine ⟨?_, ?_⟩
    · intro x hx
      rcases List.mem_cons.mp hx with rfl | hx
      · omega
      · exact i1 x hx
    · simp only [List.map_cons, List.sum_cons, Interval.len]
      omega

/-! ## the states inside a step satisfy the shared-state invariant -/

theorem applyTrans_shInv {sh : Shared D L} (h : ShInv env G w sh) (st : St) (t : Trans) :
    ShInv env G w (applyTrans sh st t).1 := by
  cases t <;> exact h.congr rfl rfl rfl rfl rfl rfl

/-- the state machine part of a key — in ALL four states — leaves a shared state satisfying the invariant -/
theorem dispatch_shInv (hE : EnvOK env G) {e : Editor D L} (hi : EditorInv env G w e) (ev : KeyEvent)
    {sh : Shared D L} {st : St} (hd : dispatch env e ev = .ok (sh, st)) : ShInv env G w sh := by
  cases hst : e.state with
  | selecting s =>
    obtain ⟨x, hq, h1, _, _⟩ := selectingNext_ok hE (preamble_inv hi.sh) (selInv_preamble hi hst) ev
    unfold dispatch at hd
    rw [hst] at hd
    dsimp only at hd
    rw [hq] at hd
    simp only [Outcome.map] at hd
    injection hd with hd
    have hd1 : (applyTrans x.shared (St.selecting x.sel) x.trans).1 = sh := by rw [hd]
    rw [← hd1]
    exact applyTrans_shInv h1 _ _
  | entering =>
    obtain ⟨⟨sh1, st1⟩, hq, h1, _⟩ := dispatch_ok hE hi (fun s hs => by rw [hst] at hs; cases hs) ev
    rw [hq] at hd
    injection hd with hd; injection hd with hd1 hd2
    rw [← hd1]; exact h1
  | enteringSyllable =>
    obtain ⟨⟨sh1, st1⟩, hq, h1, _⟩ := dispatch_ok hE hi (fun s hs => by rw [hst] at hs; cases hs) ev
    rw [hq] at hd
    injection hd with hd; injection hd with hd1 hd2
    rw [← hd1]; exact h1
  | highlighting m =>
    obtain ⟨⟨sh1, st1⟩, hq, h1, _⟩ := dispatch_ok hE hi (fun s hs => by rw [hst] at hs; cases hs) ev
    rw [hq] at hd
    injection hd with hd; injection hd with hd1 hd2
    rw [← hd1]; exact h1

/-- **the edited state of every operation** (C02's `editPart`: after the editing part, before a commit
    path) satisfies the shared-state invariant -/
theorem editPart_shInv (hE : EnvOK env G) {e : Editor D L} (hi : EditorInv env G w e) (op : Op L) (hv : OpValid op)
    (hk : w → ¬ Known env e op) {m : Shared D L} (hm : C02.editPart env e op = .ok m) :
    ShInv env G w m := by
  have other : ∀ {e' : Editor D L}, e.apply env op = .ok e' → ShInv env G w e'.shared := by
    intro e' he'
    obtain ⟨e2, h2, hi2⟩ := apply_ok hE hi op hv hk
    rw [he'] at h2
    have := Outcome.ok.inj h2
    subst this
    exact hi2.sh
  have viaApply : ∀ {r : Outcome (Editor D L)}, r = e.apply env op → r.map (·.shared) = .ok m → ShInv env G w m := by
    intro r hr hmm
    obtain ⟨e', he', hs⟩ := C02.map_ok hmm
    rw [← hs]
    exact other (hr ▸ he')
  cases op with
  | key ev =>
    simp only [C02.editPart] at hm
    obtain ⟨r, hr, hs⟩ := C02.map_ok hm
    rw [← hs]
    split
    · exact preamble_inv hi.sh
    · exact dispatch_shInv hE hi ev (sh := r.1) (st := r.2) hr
  | select n =>
    simp only [C02.editPart] at hm
    split at hm
    · next s hst =>
      have hs : SelInv env w e.shared s := by have := hi.st; rw [hst] at this; exact this
      obtain ⟨x, hq, h1, _, _⟩ := select_ok hE hi.sh hs n
      rw [hq] at hm
      simp only [Outcome.map] at hm
      injection hm with hm
      rw [← hm]
      exact applyTrans_shInv h1 _ _
    · injection hm with hm; rw [← hm]; exact hi.sh
  | commit =>
    simp only [C02.editPart] at hm
    injection hm with hm; rw [← hm]; exact hi.sh
  | startSelecting => exact viaApply rfl hm
  | cancelSelecting => exact viaApply rfl hm
  | clear => exact viaApply rfl hm
  | ack => exact viaApply rfl hm
  | clearSyl => exact viaApply rfl hm
  | setOptions o => exact viaApply rfl hm
  | setLayout l => exact viaApply rfl hm
  | setEngine k => exact viaApply rfl hm
  | learn k p => exact viaApply rfl hm
  | unlearn k p => exact viaApply rfl hm
  | jump which => exact viaApply rfl hm

/-- **`TilesAlong` is a theorem**: along every history that is allowed in C01's sense (valid arguments,
    outside the known class F02/F03; since the merge with fixA the `jump_*` calls on an open phrase list are
    included — `Allowed` lost its `Covered` conjunct) from a state satisfying `EditorInv`,
    the conversion answer tiles the buffer at every edited state -/
theorem tilesAlong_of_allowed (hE : EnvOK env G) (ops : List (Op L)) :
    ∀ e : Editor D L, EditorInv env G True e → Allowed env e ops → C02.TilesAlong env e ops := by
  induction ops with
  | nil => intro _ _ _; trivial
  | cons op ops ih =>
    intro e hi ha
    obtain ⟨hv, hk, hrest⟩ := ha
    refine ⟨fun m hm => tilesAt_of_shInv hE (editPart_shInv hE hi op hv (fun _ => hk) hm), fun e' he' => ?_⟩
    obtain ⟨e2, h2, hi2⟩ := apply_ok hE hi op hv (fun _ => hk)
    rw [he'] at h2
    have := Outcome.ok.inj h2
    subst this
    exact ih e' hi2 (hrest e' he')

/-! ## C05's bound without the tiling premise -/

/-- **C05's `TilingAt` from C01's invariant** -/
theorem tilingAt_of_shInv (hE : EnvOK env G) {sh : Shared D L} (h : ShInv env G w sh) : C05.TilingAt env sh := by
  intro paths hp ivs hm
  obtain ⟨paths', hp', _, hall⟩ := hE.convert_ok sh.engine sh.dict sh.com.inner h.good
    (compValid_of_cinv h.ced.inner)
  rw [hp] at hp'
  have := Outcome.ok.inj hp'
  subst this
  obtain ⟨h1, h2⟩ := tilesLen_of_chain (hall ivs hm).1
  exact ⟨h1, by rw [Nat.zero_add] at h2; exact h2⟩

/-- a key whose state-machine part ends in `Entering` without *absorb* was handled in `Entering`
    (every state switch is recorded as *absorb*) -/
theorem entering_of_not_absorb {e : Editor D L} {ev : KeyEvent} {sh : Shared D L} {st : St}
    (hd : dispatch env e ev = .ok (sh, st)) (hst : st = .entering) (hl : sh.last ≠ .absorb) :
    e.state = .entering := by
  unfold dispatch at hd
  split at hd
  · next h => exact h
  · obtain ⟨⟨sh', t⟩, _, hx⟩ := C05.map_ok hd
    cases t with
    | toState s => simp only [applyTrans] at hx; injection hx with h1 h2; subst h1; exact absurd rfl hl
    | spin b => simp only [applyTrans] at hx; injection hx with h1 h2; subst h2; cases hst
  · obtain ⟨r, _, hx⟩ := C05.map_ok hd
    cases ht : r.trans with
    | toState s => rw [ht] at hx; simp only [applyTrans] at hx; injection hx with h1 h2; subst h1; exact absurd rfl hl
    | spin b => rw [ht] at hx; simp only [applyTrans] at hx; injection hx with h1 h2; subst h2; cases hst
  · obtain ⟨⟨sh', m', t⟩, _, hx⟩ := C05.map_ok hd
    cases t with
    | toState s => simp only [applyTrans] at hx; injection hx with h1 h2; subst h1; exact absurd rfl hl
    | spin b => simp only [applyTrans] at hx; injection hx with h1 h2; subst h2; cases hst

/-- **C05 `bounded_after_key`, linked**: for every environment satisfying C01's `EnvOK`, from every state
    satisfying C01's invariant, in ANY of the four states: a key that is answered *absorb* or *commit* and
    ends in `Entering` leaves the buffer within `auto_commit_threshold`.  No tiling premise. -/
theorem bounded_after_key_linked (hE : EnvOK env G) {e e' : Editor D L} (hi : EditorInv env G w e) {ev : KeyEvent}
    {b : KB} (h : e.processKey env ev = .ok (e', b)) (he : e'.state = .entering) (hb : b = .absorb ∨ b = .commit) :
    e'.shared.com.len ≤ e'.shared.options.autoCommitThreshold := by
  have ht : ∀ sh st, dispatch env e ev = .ok (sh, st) → C05.TilingAt env sh :=
    fun sh st hd => tilingAt_of_shInv hE (dispatch_shInv hE hi ev hd)
  rcases hb with rfl | rfl
  · exact C05.bounded_after_key_at env ht (Or.inr (Or.inr rfl)) h he (Or.inl rfl)
  · by_cases hs : e.state = .entering
    · exact C05.bounded_after_key_at env ht (Or.inl hs) h he (Or.inr rfl)
    · obtain ⟨sh, st, hd, h2⟩ := C05.processKey_split env h
      obtain ⟨hst, hbl, _⟩ := C05.tail_spec env h2
      obtain ⟨sh2, h1, hcom, hopt, _, hlast, _⟩ := C05.tail_com env h2
      rw [hcom, hopt]
      split at h1
      · exact (C05.tryAutoCommit_bound_at env (ht sh st hd) h1).1
      · cases h1
        have hl : sh.last = .commit := by rw [← hlast]; exact hbl.symm
        exact absurd (entering_of_not_absorb hd (hst.symm.trans he) (by rw [hl]; decide)) hs

/-- the auto-commit is total at a state satisfying the invariant (C05 `tryAutoCommit_total`, linked) and
    re-establishes the bound -/
theorem tryAutoCommit_total_linked (hE : EnvOK env G) {sh : Shared D L} (h : ShInv env G w sh) :
    ∃ sh2, Shared.tryAutoCommit env sh = .ok sh2 ∧ sh2.com.len ≤ sh2.options.autoCommitThreshold := by
  obtain ⟨sh2, hq, _⟩ := tryAutoCommit_ok hE h
  exact ⟨sh2, hq, (C05.tryAutoCommit_bound_at env (tilingAt_of_shInv hE h) hq).1⟩

/-! ## the environment whose engine is C03's model

`EnvOK` bundles hypotheses on the dictionary, the estimator and the conversion engine.  The engine clause
`convert_ok` is discharged by C03's theorems for the engine model `Conv.convert` on buffers of at most 128
symbols (`ScoreBound`: the `i32` score arithmetic); beyond that length C03 proves nothing, and the clause
stays a hypothesis (`EngineIsC03.beyond`; the auto-commit keeps real buffers far below 128 symbols), as it does
for a buffer holding the syllable code 0 (empty spelling), which no keyboard layout produces. -/

/-- the dictionary- and estimator-side clauses of C01's `EnvOK` (everything except `convert_ok`) -/
structure DictOK (env : Env D L) (G : D → Prop) : Prop where
  wf : ∀ d, G d → ∀ k s, ∀ p ∈ env.lookupAll d k s, p.text.length = k.length
  std_fuzzy : ∀ d c, G d → env.hasPhrase d [c] .standard = true → env.hasPhrase d [c] .fuzzyPartialPrefix = true
  add_good : ∀ d k p d', G d → env.addPhrase d k p = some d' → p.text.length = k.length → G d'
  add_mono : ∀ d k p d', env.addPhrase d k p = some d' →
    ∀ c s, env.hasPhrase d [c] s = true → env.hasPhrase d' [c] s = true
  update_good : ∀ d k p f t, G d → p.text.length = k.length → G (env.updatePhrase d k p f t)
  update_mono : ∀ d k p f t c s, env.hasPhrase d [c] s = true → env.hasPhrase (env.updatePhrase d k p f t) [c] s = true
  flush_good : ∀ d, G d → G (env.reopenFlush d)
  flush_mono : ∀ d c s, env.hasPhrase d [c] s = true → env.hasPhrase (env.reopenFlush d) [c] s = true
  remove_good : ∀ d k t, G d → G (env.removePhrase d k t)
  estimate_ok : ∀ t f m, ∃ v, env.estimate t f m = .ok v

/-- **the engine component of `env` is C03's model of the three real engines** (tie-breaking oracle `pick`,
    dictionary states read as lookup functions by `view`) over dictionaries that satisfy C03's hypotheses -/
structure EngineIsC03 (env : Env D L) (G : D → Prop) (pick : Nat → List Conv.Path → Nat) (view : D → Dict) : Prop where
  pick_ok : Conv.PickInRange pick
  /-- `env.convert` IS `Conv.convert` wherever C03's theorems reach: at most 128 symbols (`ScoreBound`), no
      buffered syllable with the empty spelling (`spell 0 = []`; no keyboard layout produces the code 0) -/
  engine : ∀ k d c, c.symbols.length ≤ 128 → Conv.SpellNonempty c →
    env.convert k d c = Conv.convert pick (toEngine k) (view d) c
  /-- the editor's word test reads the same dictionary as the engine -/
  lookup : ∀ d x s, env.hasPhrase d [x] s = true → ((view d).lookup [x] s).head?.isSome = true
  wellFormed : ∀ d, G d → Conv.WellFormed (view d)
  freq : ∀ d, G d → ∀ strat key, ∀ p ∈ (view d).lookup key strat, p.freq ≤ 8388608
  /-- outside that reach the contract is assumed -/
  beyond : ∀ k d c, G d → Conv.CompValid c → (128 < c.symbols.length ∨ ¬ Conv.SpellNonempty c) →
    OkAnd (fun paths => paths ≠ [] ∧ ∀ p ∈ paths, PathW c p) (env.convert k d c)
  beyond_len : ∀ k d c paths, G d → Conv.CompValid c → (128 < c.symbols.length ∨ ¬ Conv.SpellNonempty c) →
    (∀ x, Sym.syl x ∈ c.symbols → env.hasPhrase d [x] (engStrategy k) = true) →
    env.convert k d c = .ok paths → ∀ p ∈ paths, ∀ iv ∈ p, iv.text.length = iv.stop - iv.start

/-- **C03 discharges `EnvOK.convert_ok` / `convert_len`** for such an environment: `EnvOK` from the dictionary
    clauses alone -/
theorem envOK_of_C03 {pick : Nat → List Conv.Path → Nat} {view : D → Dict} (hd : DictOK env G)
    (he : EngineIsC03 env G pick view) : EnvOK env G where
  wf := hd.wf
  std_fuzzy := hd.std_fuzzy
  add_good := hd.add_good
  add_mono := hd.add_mono
  update_good := hd.update_good
  update_mono := hd.update_mono
  flush_good := hd.flush_good
  flush_mono := hd.flush_mono
  remove_good := hd.remove_good
  estimate_ok := hd.estimate_ok
  convert_ok := by
    intro k d c hg hc
    by_cases hlen : c.symbols.length ≤ 128 ∧ Conv.SpellNonempty c
    · rw [he.engine k d c hlen.1 hlen.2]
      exact convert_ok_of_C03 he.pick_ok (he.wellFormed d hg) (he.freq d hg) k hc hlen.1 hlen.2
    · exact he.beyond k d c hg hc (by
        by_cases h1 : c.symbols.length ≤ 128
        · exact .inr (fun h2 => hlen ⟨h1, h2⟩)
        · exact .inl (by omega))
  convert_len := by
    intro k d c paths hg hc hw hq
    by_cases hlen : c.symbols.length ≤ 128 ∧ Conv.SpellNonempty c
    · rw [he.engine k d c hlen.1 hlen.2] at hq
      exact convert_len_of_C03 (he.wellFormed d hg) k hc (fun x hx => he.lookup d x _ (hw x hx)) hq
    · exact he.beyond_len k d c paths hg hc (by
        by_cases h1 : c.symbols.length ≤ 128
        · exact .inr (fun h2 => hlen ⟨h1, h2⟩)
        · exact .inl (by omega)) hw hq

end Chewing.Link
